import LolHtml.Lemmas.TagStates
import LolHtml.Lemmas.SpecAttrsRun
/-!
The lexer run over one start tag, for ALL input bytes: by induction over the remaining input, with
the tag / attribute states as invariant, the machine follows `Spec.Attrs` and — when the spec says
the tag is finished — arrives, without having touched the sink, at `emit_tag` with exactly the
spec's outline in its `current_tag_token`.
-/
namespace LolHtml.Model.TagStates
open LolHtml LolHtml.Model LolHtml.Spec.Attrs

variable {κ : Type}

/-- continue the parsing loop after one state-function call -/
def cont (env : Env κ) (inp : Bytes) (fuel : Nat) (r : M κ × Option Signal) : M κ × Signal :=
  match r.2 with
  | some sig => (r.1, sig)
  | none => runLoop env inp fuel r.1

theorem runLoop_succ (env : Env κ) (inp : Bytes) (n : Nat) (m : M κ) :
    runLoop env inp (n + 1) m = cont env inp n (stateFn env inp m) := rfl

theorem runLoop_step {env : Env κ} {inp : Bytes} {n : Nat} {m m' : M κ} (h : stateFn env inp m = (m', none)) :
    runLoop env inp (n + 1) m = runLoop env inp n m' := by
  rw [runLoop_succ, h]; rfl

/-- registers that stay constant while a tag is being lexed -/
structure Frame (κ : Type) where
  il : Bool
  ca : Bool
  lsh : Nat
  ltt : TextType
  ls : Nat
  cnt : Option NonTagOutline
  fd : FeedbackDirective
  x : Ctx κ

/-- the lexer machine over a frame -/
@[reducible] def mach (F : Frame κ) (p S : Nat) (en : Bool) (cq : UInt8) (tps : Nat) (ct : Option TagOutline)
    (cattr : Option AttrOutline) : M κ :=
  ⟨⟨p, F.il, S, en, F.ca, F.lsh, cq, F.ltt⟩, .lexer ⟨F.ls, tps, ct, F.cnt, cattr, F.fd⟩, F.x⟩

/-- the registers `emit_tag` is called with at the end of the tag described by `t` -/
structure FinalOK (F : Frame κ) (h : Nat) (t : Tag) (cJ : Common) (lJ : LexRegs) : Prop where
  nextPos : cJ.nextPos = t.stop
  isLast : cJ.isLast = F.il
  cdata : cJ.cdataAllowed = F.ca
  lsh : cJ.lastStartTagNameHash = F.lsh
  ltt : cJ.lastTextType = F.ltt
  ls : lJ.lexemeStart = F.ls
  curTag : lJ.curTag = some (.startTag t.name h .html t.attrs t.selfClosing)
  fd : lJ.fd = F.fd
  cnt : lJ.curNonTag = F.cnt

/-- From `m` (at position `p`), after `k` state-function calls that signal nothing and leave the
parser context (sink, simulator) as it is in the frame, the next call is `emit_tag` on the final
registers followed by the transition `tr`; `k + 1 ≤ 2 · (bytes of the tag from p)`. -/
def Reaches (env : Env κ) (inp : Bytes) (F : Frame κ) (h : Nat) (t : Tag) (p : Nat) (m : M κ) : Prop :=
  ∃ k cJ lJ tr, FinalOK F h t cJ lJ ∧ (tr = .gotoDyn ∨ tr = trans36 env.tbl) ∧ k < 2 * (t.stop - p) ∧
    ∀ fuel, runLoop env inp (k + 1 + fuel) m = cont env inp fuel (finish env tr (lexEmitTag env inp cJ lJ F.x))

/-- how the machine registers represent a spec state (a quoted value is either about to be entered:
enter action not yet run, cursor at the value start; or resumed after a chunk boundary: enter action
run, token-part start at the value start) -/
def Rel (st : St) (p S : Nat) (en : Bool) (cq : UInt8) (tps : Nat) (cattr : Option AttrOutline) : Prop :=
  (cq = 34 ∨ cq = 39) ∧
  match st with
  | .beforeAttrName sol => S = (if sol then 32 else 33)
  | .attrName s => S = 34 ∧ tps = s ∧ ∃ a, cattr = some a
  | .afterAttrName n => S = 35 ∧ cattr = some (valueless n)
  | .beforeAttrValue n => S = 36 ∧ cattr = some (valueless n)
  | .valueQuoted q n vs => cattr = some (valueless n) ∧ cq = q ∧ ((q = 34 ∧ S = 38) ∨ (q = 39 ∧ S = 37)) ∧
      ((en = false ∧ vs = p) ∨ (en = true ∧ tps = vs))
  | .valueUnquoted n vs => S = 39 ∧ en = true ∧ tps = vs ∧ cattr = some (valueless n)

/-- the machine sits in the state `mid` of the spec, about to take the end-of-input step -/
def AtMid (inp : Bytes) (F : Frame κ) (h start : Nat) : Mid → M κ → Prop
  | .attrs nm acc st, m => ∃ pm S en cq tps cattr,
      m = mach F pm S en cq tps (some (.startTag nm h .html acc false)) cattr ∧
      Rel st pm S en cq tps cattr ∧ pm ≤ inp.length ∧
      (inp.drop pm = [] ∨ ∃ q n vs, st = .valueQuoted q n vs ∧ findByte q (inp.drop pm) = none)
  | .name, m => ∃ en cq cattr nm0,
      m = mach F inp.length 31 en cq start (some (.startTag nm0 h .html [] false)) cattr ∧
      (cq = 34 ∨ cq = 39) ∧ start ≤ inp.length ∧ h = NameHash.ofBytes (slice inp start inp.length)

/-- The tag does not end in this input: after `k` silent state-function calls (sink and simulator
untouched) the machine sits in the spec's middle state `mid`. -/
def ReachesMid (env : Env κ) (inp : Bytes) (F : Frame κ) (h start : Nat) (mid : Mid) (m : M κ) : Prop :=
  ∃ k m', AtMid inp F h start mid m' ∧ ∀ fuel, runLoop env inp (k + fuel) m = runLoop env inp fuel m'

/-- what the run from `m` must do, according to the spec's run over the rest of the input -/
def Goal (env : Env κ) (inp : Bytes) (F : Frame κ) (hf : Tag → Nat) (hm : Mid → Nat) (start : Nat)
    (run : Tag ⊕ Mid) (p : Nat) (m : M κ) : Prop :=
  match run with
  | .inl t => Reaches env inp F (hf t) t p m
  | .inr mid => ReachesMid env inp F (hm mid) start mid m

section
variable {env : Env κ} {inp : Bytes} {F : Frame κ} {h : Nat} {t : Tag}

theorem Reaches.step {p p' : Nat} {m m' : M κ} (hs : stateFn env inp m = (m', none)) (hp : p < p')
    (hr : Reaches env inp F h t p' m') : Reaches env inp F h t p m := by
  obtain ⟨k, cJ, lJ, tr, hF, htr, hk, hrun⟩ := hr
  refine ⟨k + 1, cJ, lJ, tr, hF, htr, by omega, fun fuel => ?_⟩
  rw [show k + 1 + 1 + fuel = (k + 1 + fuel) + 1 by omega, runLoop_step hs]
  exact hrun fuel

theorem Reaches.step2 {p p' : Nat} {m m1 m2 : M κ} (hs1 : stateFn env inp m = (m1, none))
    (hs2 : stateFn env inp m1 = (m2, none)) (hp : p < p')
    (hr : Reaches env inp F h t p' m2) : Reaches env inp F h t p m := by
  obtain ⟨k, cJ, lJ, tr, hF, htr, hk, hrun⟩ := hr
  refine ⟨k + 2, cJ, lJ, tr, hF, htr, by omega, fun fuel => ?_⟩
  rw [show k + 2 + 1 + fuel = ((k + 1 + fuel) + 1) + 1 by omega, runLoop_step hs1, runLoop_step hs2]
  exact hrun fuel

theorem Reaches.final {p : Nat} {m : M κ} {cJ : Common} {lJ : LexRegs} {tr : Trans}
    (hs : stateFn env inp m = finish env tr (lexEmitTag env inp cJ lJ F.x)) (hF : FinalOK F h t cJ lJ)
    (htr : tr = .gotoDyn ∨ tr = trans36 env.tbl) (hp : p < t.stop) : Reaches env inp F h t p m := by
  refine ⟨0, cJ, lJ, tr, hF, htr, by omega, fun fuel => ?_⟩
  rw [show 0 + 1 + fuel = fuel + 1 by omega, runLoop_succ, hs]


theorem ReachesMid.step {start : Nat} {mid : Mid} {m m' : M κ} (hs : stateFn env inp m = (m', none))
    (hr : ReachesMid env inp F h start mid m') : ReachesMid env inp F h start mid m := by
  obtain ⟨k, mE, hmid, hrun⟩ := hr
  refine ⟨k + 1, mE, hmid, fun fuel => ?_⟩
  rw [show k + 1 + fuel = (k + fuel) + 1 by omega, runLoop_step hs]
  exact hrun fuel

theorem ReachesMid.here {start : Nat} {mid : Mid} {m : M κ} (hm : AtMid inp F h start mid m) :
    ReachesMid env inp F h start mid m :=
  ⟨0, m, hm, fun fuel => by rw [Nat.zero_add]⟩

theorem Goal.step {hf : Tag → Nat} {hm : Mid → Nat} {start : Nat} {run : Tag ⊕ Mid} {p p' : Nat} {m m' : M κ}
    (hs : stateFn env inp m = (m', none)) (hp : p < p') (hr : Goal env inp F hf hm start run p' m') :
    Goal env inp F hf hm start run p m := by
  cases run with
  | inl t => exact Reaches.step hs hp hr
  | inr mid => exact ReachesMid.step hs hr

theorem Goal.step2 {hf : Tag → Nat} {hm : Mid → Nat} {start : Nat} {run : Tag ⊕ Mid} {p p' : Nat} {m m1 m2 : M κ}
    (hs1 : stateFn env inp m = (m1, none)) (hs2 : stateFn env inp m1 = (m2, none)) (hp : p < p')
    (hr : Goal env inp F hf hm start run p' m2) : Goal env inp F hf hm start run p m := by
  cases run with
  | inl t => exact Reaches.step2 hs1 hs2 hp hr
  | inr mid => exact ReachesMid.step hs1 (ReachesMid.step hs2 hr)

end

theorem drop_cons_facts {α : Type} {inp : List α} {p : Nat} {b : α} {rest : List α} (h : inp.drop p = b :: rest) :
    inp[p]? = some b ∧ inp.drop (p + 1) = rest := by
  constructor
  · have : (inp.drop p)[0]? = some b := by rw [h]; rfl
    simpa using this
  · have : (inp.drop p).drop 1 = rest := by rw [h]; rfl
    simpa [List.drop_drop, Nat.add_comm] using this

/-- the quoted-value state of the spec, all at once: up to the closing quote -/
theorem attrsRun_quoted (nm : Range) (acc : List AttrOutline) (q : UInt8) (n : Range) (vs : Nat) (rest : List UInt8) (p : Nat) :
    attrsRun nm acc (.valueQuoted q n vs) rest p =
      match findByte q rest with
      | some k => attrsRun nm (acc ++ [valued n vs (p + k) (p + k + 1)]) (.beforeAttrName false) (rest.drop (k + 1)) (p + k + 1)
      | none => .inr (.attrs nm acc (.valueQuoted q n vs)) := by
  induction rest generalizing p with
  | nil => simp [attrsRun, findByte]
  | cons b rest ih =>
    simp only [attrsRun, attrsStep, findByte]
    by_cases hb : (b == q) = true
    · simp [hb]
    · simp only [hb, Bool.false_eq_true, if_false]
      rw [ih (p + 1)]
      cases findByte q rest with
      | none => rfl
      | some k =>
        simp only [Option.map_some, List.drop_succ_cons]
        rw [show p + 1 + k = p + (k + 1) by omega]

section
variable {env : Env κ} (hok : TagStatesOk env.tbl = true) {inp : Bytes} (F : Frame κ) (nm : Range) (h : Nat)
include hok

omit hok in
theorem getElem?_none_of_drop_nil {inp : Bytes} {p : Nat} (h : inp.drop p = []) : inp[p]? = none := by
  rw [List.drop_eq_nil_iff] at h
  exact List.getElem?_eq_none h

/-- **The attribute loop.** -/
theorem run_attrs (start : Nat) (n : Nat) : ∀ (rest : List UInt8), rest.length ≤ n →
    ∀ (st : St) (p S : Nat) (en : Bool) (cq : UInt8) (tps : Nat) (cattr : Option AttrOutline) (as : List AttrOutline),
    inp.drop p = rest → p ≤ inp.length → Rel st p S en cq tps cattr →
    ∀ run, attrsRun nm as st rest p = run →
    Goal env inp F (fun _ => h) (fun _ => h) start run p (mach F p S en cq tps (some (.startTag nm h .html as false)) cattr) := by
  induction n with
  | zero =>
    intro rest hlen st p S en cq tps cattr as hdrop hple hrel t hfin
    have : rest = [] := by cases rest <;> simp_all
    subst this
    simp only [attrsRun] at hfin
    subst hfin
    exact ReachesMid.here ⟨p, S, en, cq, tps, cattr, rfl, hrel, hple, Or.inl hdrop⟩
  | succ n ih =>
    intro rest hlen st p S en cq tps cattr as hdrop hple hrel t hfin
    cases rest with
    | nil =>
      simp only [attrsRun] at hfin
      subst hfin
      exact ReachesMid.here ⟨p, S, en, cq, tps, cattr, rfl, hrel, hple, Or.inl hdrop⟩
    | cons b rest =>
    obtain ⟨hb, hdrop'⟩ := drop_cons_facts hdrop
    have hlen' : rest.length ≤ n := by simp at hlen; omega
    have hple' : p + 1 ≤ inp.length := by
      rcases Nat.lt_or_ge p inp.length with hlt | hge
      · exact hlt
      · rw [List.getElem?_eq_none hge] at hb; simp at hb
    obtain ⟨hq, hrel⟩ := hrel
    cases st with
    | beforeAttrName sol =>
      simp only at hrel
      simp only [attrsRun, attrsStep] at hfin
      by_cases hws : isWs b = true
      · rw [if_pos hws] at hfin; try dsimp only at hfin
        have hr := ih rest hlen' (.beforeAttrName false) (p + 1) 33 false cq tps cattr as hdrop' hple' ⟨hq, by simp⟩ t hfin
        have hne : ¬b = 62 := by
          have := isWs_true hws; unfold IsWs at this
          rcases this with rfl | rfl | rfl | rfl | rfl <;> decide
        cases sol with
        | false =>
          subst hrel
          have hr' := ih rest hlen' (.beforeAttrName false) (p + 1) 33 en cq tps cattr as hdrop' hple' ⟨hq, by simp⟩ t hfin
          exact Goal.step (step33_ws hok hb (isWs_true hws)) (Nat.lt_succ_self p) hr'
        | true =>
          subst hrel
          exact Goal.step2 (step32_other hok hb hne) (step33_ws hok hb (isWs_true hws)) (Nat.lt_succ_self p) hr
      · have hws' : isWs b = false := by simpa using hws
        rw [if_neg hws] at hfin; try dsimp only at hfin
        by_cases h47 : (b == 47) = true
        · rw [if_pos h47] at hfin; try dsimp only at hfin
          have hb47 : b = 47 := by simpa using h47
          subst hb47
          have hr := ih rest hlen' (.beforeAttrName true) (p + 1) 32 false cq tps cattr as hdrop' hple' ⟨hq, by simp⟩ t hfin
          cases sol with
          | false => subst hrel; exact Goal.step (step33_slash hok hb) (Nat.lt_succ_self p) hr
          | true =>
            subst hrel
            exact Goal.step2 (step32_other hok hb (by decide)) (step33_slash hok hb) (Nat.lt_succ_self p) hr
        · rw [if_neg h47] at hfin; try dsimp only at hfin
          have hb47 : ¬b = 47 := by simpa using h47
          by_cases h62 : (b == 62) = true
          · rw [if_pos h62] at hfin; try dsimp only at hfin
            have hb62 : b = 62 := by simpa using h62
            subst hb62
            subst hfin
            cases sol with
            | false =>
              subst hrel
              exact Reaches.final (step33_gt hok hb) ⟨rfl, rfl, rfl, rfl, rfl, rfl, rfl, rfl, rfl⟩ (Or.inl rfl) (Nat.lt_succ_self p)
            | true =>
              subst hrel
              exact Reaches.final (step32_gt hok hb) ⟨rfl, rfl, rfl, rfl, rfl, rfl, rfl, rfl, rfl⟩ (Or.inl rfl) (Nat.lt_succ_self p)
          · rw [if_neg h62] at hfin; try dsimp only at hfin
            have hb62 : ¬b = 62 := by simpa using h62
            have hr := ih rest hlen' (.attrName p) (p + 1) 34 false cq p (some .default) as hdrop' hple' ⟨hq, rfl, rfl, _, rfl⟩ t hfin
            cases sol with
            | false =>
              subst hrel
              exact Goal.step (step33_other hok hb (isWs_false hws') hb62 hb47) (Nat.lt_succ_self p) hr
            | true =>
              subst hrel
              exact Goal.step2 (step32_other hok hb hb62) (step33_other hok hb (isWs_false hws') hb62 hb47) (Nat.lt_succ_self p) hr
    | attrName s =>
      obtain ⟨hS, htps, a, ha⟩ := hrel
      subst hS htps ha
      simp only [attrsRun, attrsStep] at hfin
      by_cases hws : isWs b = true
      · rw [if_pos hws] at hfin; try dsimp only at hfin
        have hr := ih rest hlen' (.afterAttrName ⟨tps, p⟩) (p + 1) 35 false cq tps (some (valueless ⟨tps, p⟩)) as hdrop' hple' ⟨hq, rfl, rfl⟩ t hfin
        exact Goal.step (step34_ws hok hb (isWs_true hws)) (Nat.lt_succ_self p) hr
      · have hws' : isWs b = false := by simpa using hws
        rw [if_neg hws] at hfin; try dsimp only at hfin
        by_cases h61 : (b == 61) = true
        · rw [if_pos h61] at hfin; try dsimp only at hfin
          have hb61 : b = 61 := by simpa using h61
          subst hb61
          have hr := ih rest hlen' (.beforeAttrValue ⟨tps, p⟩) (p + 1) 36 false cq tps (some (valueless ⟨tps, p⟩)) as hdrop' hple' ⟨hq, rfl, rfl⟩ t hfin
          exact Goal.step (step34_eq hok hb) (Nat.lt_succ_self p) hr
        · rw [if_neg h61] at hfin; try dsimp only at hfin
          have hb61 : ¬b = 61 := by simpa using h61
          by_cases h47 : (b == 47) = true
          · rw [if_pos h47] at hfin; try dsimp only at hfin
            have hb47 : b = 47 := by simpa using h47
            subst hb47
            have hr := ih rest hlen' (.beforeAttrName true) (p + 1) 32 false cq tps none (as ++ [valueless ⟨tps, p⟩]) hdrop' hple' ⟨hq, by simp⟩ t hfin
            exact Goal.step (step34_slash hok hb) (Nat.lt_succ_self p) hr
          · rw [if_neg h47] at hfin; try dsimp only at hfin
            have hb47 : ¬b = 47 := by simpa using h47
            by_cases h62 : (b == 62) = true
            · rw [if_pos h62] at hfin; try dsimp only at hfin
              have hb62 : b = 62 := by simpa using h62
              subst hb62
              subst hfin
              exact Reaches.final (step34_gt hok hb) ⟨rfl, rfl, rfl, rfl, rfl, rfl, rfl, rfl, rfl⟩ (Or.inl rfl) (Nat.lt_succ_self p)
            · rw [if_neg h62] at hfin; try dsimp only at hfin
              have hb62 : ¬b = 62 := by simpa using h62
              have hr := ih rest hlen' (.attrName tps) (p + 1) 34 en cq tps (some a) as hdrop' hple' ⟨hq, rfl, rfl, _, rfl⟩ t hfin
              exact Goal.step (step34_other hok hb (isWs_false hws') hb61 hb47 hb62) (Nat.lt_succ_self p) hr
    | afterAttrName nr =>
      obtain ⟨hS, ha⟩ := hrel
      subst hS ha
      simp only [attrsRun, attrsStep] at hfin
      by_cases hws : isWs b = true
      · rw [if_pos hws] at hfin; try dsimp only at hfin
        have hr := ih rest hlen' (.afterAttrName nr) (p + 1) 35 en cq tps (some (valueless nr)) as hdrop' hple' ⟨hq, rfl, rfl⟩ t hfin
        exact Goal.step (step35_ws hok hb (isWs_true hws)) (Nat.lt_succ_self p) hr
      · have hws' : isWs b = false := by simpa using hws
        rw [if_neg hws] at hfin; try dsimp only at hfin
        by_cases h47 : (b == 47) = true
        · rw [if_pos h47] at hfin; try dsimp only at hfin
          have hb47 : b = 47 := by simpa using h47
          subst hb47
          have hr := ih rest hlen' (.beforeAttrName true) (p + 1) 32 false cq tps none (as ++ [valueless nr]) hdrop' hple' ⟨hq, by simp⟩ t hfin
          exact Goal.step (step35_slash hok hb) (Nat.lt_succ_self p) hr
        · rw [if_neg h47] at hfin; try dsimp only at hfin
          have hb47 : ¬b = 47 := by simpa using h47
          by_cases h61 : (b == 61) = true
          · rw [if_pos h61] at hfin; try dsimp only at hfin
            have hb61 : b = 61 := by simpa using h61
            subst hb61
            have hr := ih rest hlen' (.beforeAttrValue nr) (p + 1) 36 false cq tps (some (valueless nr)) as hdrop' hple' ⟨hq, rfl, rfl⟩ t hfin
            exact Goal.step (step35_eq hok hb) (Nat.lt_succ_self p) hr
          · rw [if_neg h61] at hfin; try dsimp only at hfin
            have hb61 : ¬b = 61 := by simpa using h61
            by_cases h62 : (b == 62) = true
            · rw [if_pos h62] at hfin; try dsimp only at hfin
              have hb62 : b = 62 := by simpa using h62
              subst hb62
              subst hfin
              exact Reaches.final (step35_gt hok hb) ⟨rfl, rfl, rfl, rfl, rfl, rfl, rfl, rfl, rfl⟩ (Or.inl rfl) (Nat.lt_succ_self p)
            · rw [if_neg h62] at hfin; try dsimp only at hfin
              have hb62 : ¬b = 62 := by simpa using h62
              have hr := ih rest hlen' (.attrName p) (p + 1) 34 false cq p (some .default) (as ++ [valueless nr]) hdrop' hple' ⟨hq, rfl, rfl, _, rfl⟩ t hfin
              exact Goal.step (step35_other hok hb (isWs_false hws') hb47 hb61 hb62) (Nat.lt_succ_self p) hr
    | beforeAttrValue nr =>
      obtain ⟨hS, ha⟩ := hrel
      subst hS ha
      simp only [attrsRun, attrsStep] at hfin
      by_cases hws : isWs b = true
      · rw [if_pos hws] at hfin; try dsimp only at hfin
        have hr := ih rest hlen' (.beforeAttrValue nr) (p + 1) 36 en cq tps (some (valueless nr)) as hdrop' hple' ⟨hq, rfl, rfl⟩ t hfin
        exact Goal.step (step36_ws hok hb (isWs_true hws)) (Nat.lt_succ_self p) hr
      · have hws' : isWs b = false := by simpa using hws
        rw [if_neg hws] at hfin; try dsimp only at hfin
        by_cases hqq : (b == 34 || b == 39) = true
        · rw [if_pos hqq] at hfin; try dsimp only at hfin
          simp only [Bool.or_eq_true, beq_iff_eq] at hqq
          rcases hqq with rfl | rfl
          · have hr := ih rest hlen' (.valueQuoted 34 nr (p + 1)) (p + 1) 38 false 34 tps (some (valueless nr)) as hdrop' hple'
              ⟨Or.inl rfl, rfl, rfl, Or.inl ⟨rfl, rfl⟩, Or.inl ⟨rfl, rfl⟩⟩ t hfin
            exact Goal.step (step36_dq hok hb) (Nat.lt_succ_self p) hr
          · have hr := ih rest hlen' (.valueQuoted 39 nr (p + 1)) (p + 1) 37 false 39 tps (some (valueless nr)) as hdrop' hple'
              ⟨Or.inr rfl, rfl, rfl, Or.inr ⟨rfl, rfl⟩, Or.inl ⟨rfl, rfl⟩⟩ t hfin
            exact Goal.step (step36_sq hok hb) (Nat.lt_succ_self p) hr
        · rw [if_neg hqq] at hfin; try dsimp only at hfin
          simp only [Bool.or_eq_true, beq_iff_eq, not_or] at hqq
          by_cases h62 : (b == 62) = true
          · rw [if_pos h62] at hfin; try dsimp only at hfin
            have hb62 : b = 62 := by simpa using h62
            subst hb62
            subst hfin
            exact Reaches.final (step36_gt hok hb) ⟨rfl, rfl, rfl, rfl, rfl, rfl, rfl, rfl, rfl⟩ (Or.inr rfl) (Nat.lt_succ_self p)
          · rw [if_neg h62] at hfin; try dsimp only at hfin
            have hb62 : ¬b = 62 := by simpa using h62
            have hr := ih rest hlen' (.valueUnquoted nr p) (p + 1) 39 true cq p (some (valueless nr)) as hdrop' hple' ⟨hq, rfl, rfl, rfl, rfl⟩ t hfin
            exact Goal.step2 (step36_other hok hb (isWs_false hws') hqq.1 hqq.2 hb62)
              (step39_first hok hb (isWs_false hws') hb62) (Nat.lt_succ_self p) hr
    | valueQuoted q nr vs =>
      obtain ⟨ha, hcq, hS, hen⟩ := hrel
      subst ha hcq
      rw [attrsRun_quoted] at hfin
      cases hf : findByte cq (b :: rest) with
      | none =>
        simp only [hf] at hfin
        subst hfin
        rw [← hdrop] at hf
        exact ReachesMid.here ⟨p, S, en, cq, tps, _, rfl, ⟨hq, rfl, rfl, hS, hen⟩, hple, Or.inr ⟨_, _, _, rfl, hf⟩⟩
      | some k =>
        simp only [hf] at hfin
        have hk : k < (b :: rest).length := by
          have := findByte_getElem hf
          rcases Nat.lt_or_ge k (b :: rest).length with hlt | hge
          · exact hlt
          · rw [List.getElem?_eq_none hge] at this; simp at this
        have hdrop2 : inp.drop (p + k + 1) = (b :: rest).drop (k + 1) := by
          rw [← hdrop, List.drop_drop]; congr 1
        have hple2 : p + k + 1 ≤ inp.length := by
          have := congrArg List.length hdrop
          simp only [List.length_drop] at this
          omega
        have hlen2 : ((b :: rest).drop (k + 1)).length ≤ n := by
          simp only [List.length_drop, List.length_cons] at hlen hk ⊢; omega
        rw [← hdrop] at hf
        rcases hS with ⟨rfl, rfl⟩ | ⟨rfl, rfl⟩
        · rcases hen with ⟨hen1, hvs⟩ | ⟨hen1, hvs⟩ <;> subst hen1 <;> subst vs
          · have hr := ih _ hlen2 (.beforeAttrName false) (p + k + 1) 33 false 34 p none
              (as ++ [valued nr p (p + k) (p + k + 1)]) hdrop2 hple2 ⟨Or.inl rfl, by simp⟩ t hfin
            exact Goal.step (step38_found hok hf) (by omega) hr
          · have hr := ih _ hlen2 (.beforeAttrName false) (p + k + 1) 33 false 34 tps none
              (as ++ [valued nr tps (p + k) (p + k + 1)]) hdrop2 hple2 ⟨Or.inl rfl, by simp⟩ t hfin
            exact Goal.step (step38_found_r hok hf) (by omega) hr
        · rcases hen with ⟨hen1, hvs⟩ | ⟨hen1, hvs⟩ <;> subst hen1 <;> subst vs
          · have hr := ih _ hlen2 (.beforeAttrName false) (p + k + 1) 33 false 39 p none
              (as ++ [valued nr p (p + k) (p + k + 1)]) hdrop2 hple2 ⟨Or.inr rfl, by simp⟩ t hfin
            exact Goal.step (step37_found hok hf) (by omega) hr
          · have hr := ih _ hlen2 (.beforeAttrName false) (p + k + 1) 33 false 39 tps none
              (as ++ [valued nr tps (p + k) (p + k + 1)]) hdrop2 hple2 ⟨Or.inr rfl, by simp⟩ t hfin
            exact Goal.step (step37_found_r hok hf) (by omega) hr
    | valueUnquoted nr vs =>
      obtain ⟨hS, hen, htps, ha⟩ := hrel
      subst hS hen htps ha
      simp only [attrsRun, attrsStep] at hfin
      by_cases hws : isWs b = true
      · rw [if_pos hws] at hfin; try dsimp only at hfin
        have hr := ih rest hlen' (.beforeAttrName false) (p + 1) 33 false cq tps none (as ++ [valued nr tps p p]) hdrop' hple' ⟨hq, by simp⟩ t hfin
        exact Goal.step (step39_ws hok hb (isWs_true hws) hq) (Nat.lt_succ_self p) hr
      · have hws' : isWs b = false := by simpa using hws
        rw [if_neg hws] at hfin; try dsimp only at hfin
        by_cases h62 : (b == 62) = true
        · rw [if_pos h62] at hfin; try dsimp only at hfin
          have hb62 : b = 62 := by simpa using h62
          subst hb62
          subst hfin
          exact Reaches.final (step39_gt hok hb hq) ⟨rfl, rfl, rfl, rfl, rfl, rfl, rfl, rfl, rfl⟩ (Or.inl rfl) (Nat.lt_succ_self p)
        · rw [if_neg h62] at hfin; try dsimp only at hfin
          have hb62 : ¬b = 62 := by simpa using h62
          have hr := ih rest hlen' (.valueUnquoted nr tps) (p + 1) 39 true cq tps (some (valueless nr)) as hdrop' hple' ⟨hq, rfl, rfl, rfl, rfl⟩ t hfin
          exact Goal.step (step39_other hok hb (isWs_false hws') hb62) (Nat.lt_succ_self p) hr

omit hok in
theorem slice_snoc {inp : Bytes} {s p : Nat} {b : UInt8} (hs : s ≤ p) (hb : inp[p]? = some b) :
    slice inp s (p + 1) = slice inp s p ++ [b] := by
  have hlt : p < inp.length := by
    rcases Nat.lt_or_ge p inp.length with h | h
    · exact h
    · rw [List.getElem?_eq_none h] at hb; simp at hb
  unfold slice
  rw [List.take_add_one, hb]
  simp only [Option.toList_some]
  rw [List.drop_append_of_le_length (by rw [List.length_take]; omega)]

/-- hash of the name bytes, for a finished tag and for a middle state -/
def tagHash (inp : Bytes) (t : Tag) : Nat := NameHash.ofBytes (slice inp t.name.start t.name.end)

def midHash (inp : Bytes) (start : Nat) : Mid → Nat
  | .name => NameHash.ofBytes (slice inp start inp.length)
  | .attrs nm _ _ => NameHash.ofBytes (slice inp nm.start nm.end)

/-- **The tag name loop**, then the attribute loop. -/
theorem run_tagName (start : Nat) (n : Nat) : ∀ (rest : List UInt8), rest.length ≤ n →
    ∀ (p : Nat) (en : Bool) (cq : UInt8) (cattr : Option AttrOutline) (nm0 : Range) (hh : Nat),
    inp.drop p = rest → p ≤ inp.length → (cq = 34 ∨ cq = 39) → start ≤ p → hh = NameHash.ofBytes (slice inp start p) →
    ∀ run, tagNameRun start rest p = run →
    Goal env inp F (tagHash inp) (midHash inp start) start run p
      (mach F p 31 en cq start (some (.startTag nm0 hh .html [] false)) cattr) := by
  have hend : ∀ (p : Nat) (en : Bool) (cq : UInt8) (cattr : Option AttrOutline) (nm0 : Range) (hh : Nat),
      inp.drop p = [] → p ≤ inp.length → (cq = 34 ∨ cq = 39) → start ≤ p → hh = NameHash.ofBytes (slice inp start p) →
      ReachesMid env inp F (midHash inp start .name) start .name
        (mach F p 31 en cq start (some (.startTag nm0 hh .html [] false)) cattr) := by
    intro p en cq cattr nm0 hh hdrop hple hq hsp hhh
    have hp : p = inp.length := by rw [List.drop_eq_nil_iff] at hdrop; omega
    subst hp
    apply ReachesMid.here
    refine ⟨en, cq, cattr, nm0, ?_, hq, hsp, rfl⟩
    rw [hhh]; rfl
  induction n with
  | zero =>
    intro rest hlen p en cq cattr nm0 hh hdrop hple hq hsp hhh t hfin
    have : rest = [] := by cases rest <;> simp_all
    subst this
    simp only [tagNameRun] at hfin
    subst hfin
    exact hend p en cq cattr nm0 hh hdrop hple hq hsp hhh
  | succ n ih =>
    intro rest hlen p en cq cattr nm0 hh hdrop hple hq hsp hhh t hfin
    cases rest with
    | nil =>
      simp only [tagNameRun] at hfin
      subst hfin
      exact hend p en cq cattr nm0 hh hdrop hple hq hsp hhh
    | cons b rest =>
    obtain ⟨hb, hdrop'⟩ := drop_cons_facts hdrop
    have hlen' : rest.length ≤ n := by simp at hlen; omega
    have hple' : p + 1 ≤ inp.length := by
      rcases Nat.lt_or_ge p inp.length with hlt | hge
      · exact hlt
      · rw [List.getElem?_eq_none hge] at hb; simp at hb
    -- the attribute loop from a finished name, re-labelled with the hash of the name bytes
    have relabel : ∀ (p' : Nat) (m' : M κ) (st0 : St),
        attrsRun ⟨start, p⟩ [] st0 rest (p + 1) = t →
        Goal env inp F (fun _ => hh) (fun _ => hh) start t p' m' →
        Goal env inp F (tagHash inp) (midHash inp start) start t p' m' := by
      intro p' m' st0 hrun hg
      cases t with
      | inl t' =>
        have := (attrsRun_name _ _ _ _ _).1 t' hrun
        show Reaches env inp F (tagHash inp t') t' p' m'
        unfold tagHash
        rw [this]
        simp only
        rw [← hhh]
        exact hg
      | inr mid =>
        cases mid with
        | name => exact absurd hrun (attrsRun_ne_name _ _ _ _ _)
        | attrs nm' acc' st' =>
          have := (attrsRun_name _ _ _ _ _).2 _ _ _ hrun
          subst this
          show ReachesMid env inp F (midHash inp start (.attrs ⟨start, p⟩ acc' st')) start _ m'
          unfold midHash
          simp only
          rw [← hhh]
          exact hg
    simp only [tagNameRun] at hfin
    by_cases hws : isWs b = true
    · rw [if_pos hws] at hfin
      have hr := run_attrs hok F ⟨start, p⟩ hh start rest.length rest (Nat.le_refl _) (.beforeAttrName false) (p + 1) 33 false cq start
        cattr [] hdrop' hple' ⟨hq, by simp⟩ t hfin
      exact Goal.step (step31_ws hok hb (isWs_true hws)) (Nat.lt_succ_self p) (relabel _ _ _ hfin hr)
    · have hws' : isWs b = false := by simpa using hws
      rw [if_neg hws] at hfin
      by_cases h47 : (b == 47) = true
      · rw [if_pos h47] at hfin
        have hb47 : b = 47 := by simpa using h47
        subst hb47
        have hr := run_attrs hok F ⟨start, p⟩ hh start rest.length rest (Nat.le_refl _) (.beforeAttrName true) (p + 1) 32 false cq start
          cattr [] hdrop' hple' ⟨hq, by simp⟩ t hfin
        exact Goal.step (step31_slash hok hb) (Nat.lt_succ_self p) (relabel _ _ _ hfin hr)
      · rw [if_neg h47] at hfin
        have hb47 : ¬b = 47 := by simpa using h47
        by_cases h62 : (b == 62) = true
        · rw [if_pos h62] at hfin
          have hb62 : b = 62 := by simpa using h62
          subst hb62
          subst hfin
          show Reaches env inp F (NameHash.ofBytes (slice inp start p)) _ p _
          rw [← hhh]
          exact Reaches.final (step31_gt hok hb) ⟨rfl, rfl, rfl, rfl, rfl, rfl, rfl, rfl, rfl⟩ (Or.inl rfl) (Nat.lt_succ_self p)
        · rw [if_neg h62] at hfin
          have hb62 : ¬b = 62 := by simpa using h62
          have hr := ih rest hlen' (p + 1) en cq cattr nm0 (NameHash.update hh b) hdrop' hple' hq (by omega)
            (by rw [slice_snoc hsp hb, hhh]; simp [NameHash.ofBytes, List.foldl_append]) t hfin
          exact Goal.step (step31_other hok hb (isWs_false hws') hb62 hb47) (Nat.lt_succ_self p) hr

/-- **From the data state at `<`** (no pending text) to `emit_tag`, or to the end of the input. -/
theorem run_startTag (i : Nat) (hls : F.ls = i) (en : Bool) (cq : UInt8) (hq : cq = 34 ∨ cq = 39) (tps : Nat)
    (ct : Option TagOutline) (cattr : Option AttrOutline) (run : Tag ⊕ Mid)
    (hspec : startTagRun inp i = some run) :
    Goal env inp F (tagHash inp) (midHash inp (i + 1)) (i + 1) run i (mach F i 2 en cq tps ct cattr) := by
  unfold startTagRun at hspec
  split at hspec
  · rename_i b rest hdrop
    split at hspec
    · rename_i halpha
      simp only [Option.some.injEq] at hspec
      obtain ⟨hb0, hdrop1⟩ := drop_cons_facts hdrop
      obtain ⟨hb1, hdrop2⟩ := drop_cons_facts hdrop1
      have hlen : i + 2 ≤ inp.length := by
        have := congrArg List.length hdrop
        simp only [List.length_drop, List.length_cons] at this
        omega
      have hr := run_tagName hok F (i + 1) rest.length rest (Nat.le_refl _) (i + 2) false cq cattr .default
        (NameHash.update NameHash.new b) hdrop2 hlen hq (by omega)
        (by rw [show i + 2 = (i + 1) + 1 by omega, slice_snoc (Nat.le_refl _) hb1]
            simp [slice, NameHash.ofBytes]) run hspec
      have h1 := step2_lt hok (inp := inp) (p := i) (il := F.il) (en := en) (ca := F.ca) (lsh := F.lsh) (cq := cq)
        (ltt := F.ltt) (x := F.x) (l := ⟨F.ls, tps, ct, F.cnt, cattr, F.fd⟩) hb0 hls
      have h2 := step28_alpha hok (inp := inp) (p := i + 1) (il := F.il) (en := false) (ca := F.ca) (lsh := F.lsh)
        (cq := cq) (ltt := F.ltt) (ls := F.ls) (tps := tps) (ct := ct) (cnt := F.cnt) (cattr := cattr) (fd := F.fd)
        (x := F.x) hb1 halpha
      exact Goal.step h1 (Nat.lt_succ_self i) (Goal.step h2 (Nat.lt_succ_self (i + 1)) hr)
    · simp at hspec
  · simp at hspec

end

/-- **The break, register by register** (`break_on_end_of_input` + `adjust_for_next_input` with `Align`):
when more input may come, the end-of-input step of a tag state consumes exactly the bytes before the
`<` (`lexeme_start`), keeps the state and the non-positional registers, and re-bases every positional
register — cursor, token-part start, name / attribute outlines of the tag token, the open attribute —
by `lexeme_start`; the sink and the simulator are untouched. -/
theorem eofStep_break (env : Env κ) (inp : Bytes) (c : Common) (l : LexRegs) (x : Ctx κ)
    (hl : c.isLast = false) (h1 : l.lexemeStart + 1 ≤ c.nextPos) :
    eofStep env inp c l x =
      (⟨{ c with nextPos := c.nextPos - 1 - l.lexemeStart },
        .lexer { l with tokenPartStart := alignNat l.tokenPartStart l.lexemeStart,
                        curTag := l.curTag.map (·.align l.lexemeStart),
                        curNonTag := l.curNonTag.map (·.align l.lexemeStart),
                        curAttr := l.curAttr.map (·.align l.lexemeStart),
                        lexemeStart := 0 }, x⟩,
       some (.endOfInput l.lexemeStart)) := by
  unfold eofStep
  rw [if_neg (by simp [hl])]
  unfold breakOnEndOfInput
  simp only [consumedByteCount, hl, Bool.false_eq_true, if_false, adjustForNextInput]
  rw [if_neg (by omega)]

end LolHtml.Model.TagStates
