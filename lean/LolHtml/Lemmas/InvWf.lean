import LolHtml.Model.SM
/-!
# C15 — decidable well-formedness conditions on the tokenizer table

Every checker is a `Bool`-valued function of the (regenerated) table, evaluated by `decide +kernel`
on `Gen.Syntax.table`; each comes with a `…Witness` variant listing the offending
`(state name, arm index)` pairs for diagnostics, and with the `Prop`-level facts the invariant
proofs use.

* `TargetsOK`   every `-->`/`reconsume in` target and the six text states exist            (no "unknown state")
* `Exhaustive`  every state has a `_` arm and an `eof` arm                                   (no "non-exhaustive match")
* `EnterQuiet`  enter actions neither emit nor call `finish_tag_name`
* `ArmsOK`      per action list, the abstract flag "lexeme_start ≤ pos is still guaranteed":
                an inclusive emit (`emit_current_token`, `emit_tag`, `emit_raw_without_token`:
                raw end = pos+1) needs a consumed byte and clears the flag; an exclusive emit
                (`*_and_eof`: raw end = pos) needs the flag; `reconsume` needs the flag; an `eoc`/`eof`
                arm (no byte consumed) may only fall through to the break (needs the flag) or `reconsume`
* `ReconsumeRanked` a rank ≤ 7 on states that strictly decreases along `reconsume` edges (fuel, linear work)
-/
namespace LolHtml.Model

/-! ### classification of actions -/

/-- emits whose raw range ends at `pos + 1` (they include the byte just consumed) -/
def ActName.isInclEmit : ActName → Bool
  | .emitCurrentToken | .emitTag | .emitRawWithoutToken => true
  | _ => false

/-- emits whose raw range ends at `pos` (followed by the EOF lexeme) -/
def ActName.isExclEmit : ActName → Bool
  | .emitTextAndEof | .emitCurrentTokenAndEof | .emitRawWithoutTokenAndEof => true
  | _ => false

/-- allowed as enter actions: cannot hand a lexeme / hint to the sink -/
def ActName.isQuiet (a : ActName) : Bool :=
  !(a.isInclEmit || a.isExclEmit || a == .emitText || a == .finishTagName)

/-- does the arm pattern guarantee that a byte was consumed? -/
def Pat.hasByte : Pat → Bool
  | .eoc | .eof => false
  | _ => true

def Pat.isChSeq : Pat → Bool
  | .chSeq .. => true
  | _ => false

def hasSeqArm (arms : List Arm) : Bool := arms.any (·.pat.isChSeq)

/-! ### the flag analysis -/

/-- abstract effect of one action on the flag "lexeme_start ≤ pos"; `none` = rejected -/
def flagStep (hasByte : Bool) (a : ActName) (f : Bool) : Option Bool :=
  if a.isInclEmit then (if hasByte then some false else none)
  else if a.isExclEmit then (if f then some true else none)
  else some f

def flagCalls (hasByte : Bool) : List Call → Bool → Option Bool
  | [], f => some f
  | c :: cs, f =>
    match flagStep hasByte c.act f with
    | none => none
    | some f' => flagCalls hasByte cs f'

/-- the end of an action list: `reconsume` and the break of an `eoc`/`eof` arm need the flag;
a `-->` out of an arm that consumed no byte is rejected (it would run past the end of input) -/
def transOK (hasByte : Bool) (f : Bool) : Option Trans → Bool
  | some (.reconsume _) => f
  | some _ => hasByte
  | none => hasByte || f

def seqOK (hasByte : Bool) (s : ActSeq) : Bool :=
  match flagCalls hasByte s.calls true with
  | none => false
  | some f => transOK hasByte f s.trans

def armOK (a : Arm) : Bool := a.body.seqs.all (seqOK a.pat.hasByte)

/-! ### generic "for all states" -/

def Table.allStates (t : Table) (p : StateId → StateDef → Bool) : Bool :=
  (List.range t.states.length).all fun i =>
    match t.states[i]? with
    | some sd => p i sd
    | none => true

theorem Table.allStates_spec {t : Table} {p : StateId → StateDef → Bool} (h : t.allStates p = true)
    {s : StateId} {sd : StateDef} (hs : t.state? s = some sd) : p s sd = true := by
  unfold Table.allStates at h
  rw [List.all_eq_true] at h
  unfold Table.state? at hs
  have hlt : s < t.states.length := by
    rcases Nat.lt_or_ge s t.states.length with h1 | h1
    · exact h1
    · rw [List.getElem?_eq_none h1] at hs; cases hs
  have := h s (List.mem_range.mpr hlt)
  rw [hs] at this
  exact this

/-- offending `(state name, arm index)` pairs of a per-arm check -/
def Table.armWitness (t : Table) (p : StateId → StateDef → Arm → Bool) : List (String × Nat) :=
  (List.range t.states.length).flatMap fun i =>
    match t.states[i]? with
    | some sd => (List.range sd.arms.length).filterMap fun j =>
        match sd.arms[j]? with
        | some a => if p i sd a then none else some (sd.name, j)
        | none => none
    | none => []

/-- offending state names of a per-state check -/
def Table.stateWitness (t : Table) (p : StateId → StateDef → Bool) : List String :=
  (List.range t.states.length).filterMap fun i =>
    match t.states[i]? with
    | some sd => if p i sd then none else some sd.name
    | none => none

/-! ### the checkers -/

def Trans.targetOK (n : Nat) : Trans → Bool
  | .goto s => s < n
  | .reconsume s => s < n
  | .gotoDyn => true

def ActSeq.targetOK (n : Nat) (s : ActSeq) : Bool :=
  match s.trans with
  | some tr => tr.targetOK n
  | none => true

def armTargetsOK (n : Nat) (a : Arm) : Bool := a.body.seqs.all (·.targetOK n)

def TargetsOK (t : Table) : Bool :=
  (t.dataState < t.states.length && t.plaintextState < t.states.length && t.rcdataState < t.states.length &&
   t.rawtextState < t.states.length && t.scriptDataState < t.states.length &&
   t.cdataSectionState < t.states.length) &&
  t.allStates fun _ sd => sd.arms.all (armTargetsOK t.states.length)

def TargetsOKWitness (t : Table) : List (String × Nat) :=
  t.armWitness fun _ _ a => armTargetsOK t.states.length a

def stateExhaustive (sd : StateDef) : Bool :=
  sd.arms.any (fun a => a.pat == .any) && sd.arms.any (fun a => a.pat == .eof)

def Exhaustive (t : Table) : Bool := t.allStates fun _ sd => stateExhaustive sd
def ExhaustiveWitness (t : Table) : List String := t.stateWitness fun _ sd => stateExhaustive sd

def EnterQuiet (t : Table) : Bool := t.allStates fun _ sd => sd.enter.all (·.act.isQuiet)
def EnterQuietWitness (t : Table) : List String := t.stateWitness fun _ sd => sd.enter.all (·.act.isQuiet)

def ArmsOK (t : Table) : Bool := t.allStates fun _ sd => sd.arms.all armOK
def ArmsOKWitness (t : Table) : List (String × Nat) := t.armWitness fun _ _ a => armOK a

/-! ### ranks -/

def ActSeq.reconsumeTarget (s : ActSeq) : Option StateId :=
  match s.trans with
  | some (.reconsume x) => some x
  | _ => none

def reconsumeTargets (sd : StateDef) : List StateId :=
  sd.arms.flatMap fun a => a.body.seqs.filterMap (·.reconsumeTarget)

/-- one round of "longest outgoing `reconsume` chain" -/
def rankStep (t : Table) (r : List Nat) : List Nat :=
  t.states.map fun sd => (reconsumeTargets sd).foldl (fun acc x => max acc ((r[x]?).getD 0 + 1)) 0

/-- the bound on the rank that makes `defaultFuel = 8·(n+2)+64` sufficient -/
def maxRank : Nat := 7

/-- ranks computed from the table: `maxRank + 1` rounds starting from 0 (a fixpoint iff the
`reconsume` graph has no chain longer than `maxRank`) -/
def computeRanks (t : Table) : List Nat :=
  (List.range (maxRank + 1)).foldl (fun r _ => rankStep t r) (t.states.map fun _ => 0)

def rankOf (r : List Nat) (s : StateId) : Nat := (r[s]?).getD 0

def stateRanked (r : List Nat) (s : StateId) (sd : StateDef) : Bool :=
  rankOf r s ≤ maxRank && (reconsumeTargets sd).all fun x => rankOf r x < rankOf r s

/-- `r` is a rank function: bounded by `maxRank`, strictly decreasing along `reconsume` edges -/
def ReconsumeRanked (t : Table) (r : List Nat) : Bool :=
  r.all (· ≤ maxRank) && t.allStates (stateRanked r)

def ReconsumeRankedWitness (t : Table) (r : List Nat) : List String := t.stateWitness (stateRanked r)

/-- all table side-conditions of the cursor / raw-range / fuel part of C15 -/
def WfTable (t : Table) : Bool :=
  TargetsOK t && Exhaustive t && EnterQuiet t && ArmsOK t && ReconsumeRanked t (computeRanks t)

/-! ### Prop-level consequences -/

structure Wf (t : Table) : Prop where
  targets : TargetsOK t = true
  exhaustive : Exhaustive t = true
  enterQuiet : EnterQuiet t = true
  armsOK : ArmsOK t = true
  ranked : ReconsumeRanked t (computeRanks t) = true

theorem WfTable.wf {t : Table} (h : WfTable t = true) : Wf t := by
  unfold WfTable at h
  simp only [Bool.and_eq_true] at h
  exact ⟨h.1.1.1.1, h.1.1.1.2, h.1.1.2, h.1.2, h.2⟩

/-- the rank used by the theorems -/
def Table.rank (t : Table) (s : StateId) : Nat := rankOf (computeRanks t) s

theorem rankOf_le {r : List Nat} (h : r.all (· ≤ maxRank) = true) (s : StateId) : rankOf r s ≤ maxRank := by
  unfold rankOf
  rw [List.all_eq_true] at h
  rcases Nat.lt_or_ge s r.length with h1 | h1
  · rw [List.getElem?_eq_getElem h1]
    have := h _ (List.getElem_mem h1)
    simpa using this
  · rw [List.getElem?_eq_none h1]; exact Nat.zero_le _

theorem Wf.rank_le {t : Table} (h : Wf t) (s : StateId) : t.rank s ≤ maxRank := by
  have := h.ranked
  unfold ReconsumeRanked at this
  simp only [Bool.and_eq_true] at this
  exact rankOf_le this.1 s

theorem mem_seqs_of_arm {sd : StateDef} {a : Arm} {s : ActSeq} (ha : a ∈ sd.arms) (hs : s ∈ a.body.seqs)
    {x : StateId} (hx : s.trans = some (.reconsume x)) : x ∈ reconsumeTargets sd := by
  unfold reconsumeTargets
  rw [List.mem_flatMap]
  refine ⟨a, ha, ?_⟩
  rw [List.mem_filterMap]
  exact ⟨s, hs, by simp [ActSeq.reconsumeTarget, hx]⟩

theorem Wf.rank_reconsume {t : Table} (h : Wf t) {st : StateId} {sd : StateDef} (hs : t.state? st = some sd)
    {a : Arm} (ha : a ∈ sd.arms) {s : ActSeq} (hsq : s ∈ a.body.seqs) {x : StateId}
    (hx : s.trans = some (.reconsume x)) : t.rank x < t.rank st := by
  have := h.ranked
  unfold ReconsumeRanked at this
  simp only [Bool.and_eq_true] at this
  have h2 := Table.allStates_spec this.2 hs
  unfold stateRanked at h2
  simp only [Bool.and_eq_true, List.all_eq_true, decide_eq_true_eq] at h2
  exact h2.2 x (mem_seqs_of_arm ha hsq hx)

theorem Wf.arm_ok {t : Table} (h : Wf t) {st : StateId} {sd : StateDef} (hs : t.state? st = some sd)
    {a : Arm} (ha : a ∈ sd.arms) {s : ActSeq} (hsq : s ∈ a.body.seqs) : seqOK a.pat.hasByte s = true := by
  have h2 := Table.allStates_spec h.armsOK hs
  simp only [List.all_eq_true] at h2
  have h3 := h2 a ha
  unfold armOK at h3
  simp only [List.all_eq_true] at h3
  exact h3 s hsq

theorem Wf.seq_target {t : Table} (h : Wf t) {st : StateId} {sd : StateDef} (hs : t.state? st = some sd)
    {a : Arm} (ha : a ∈ sd.arms) {s : ActSeq} (hsq : s ∈ a.body.seqs) : s.targetOK t.states.length = true := by
  have := h.targets
  unfold TargetsOK at this
  simp only [Bool.and_eq_true] at this
  have h2 := Table.allStates_spec this.2 hs
  simp only [List.all_eq_true] at h2
  have h3 := h2 a ha
  unfold armTargetsOK at h3
  simp only [List.all_eq_true] at h3
  exact h3 s hsq

theorem Table.state?_isSome {t : Table} {s : StateId} (h : s < t.states.length) : ∃ sd, t.state? s = some sd := by
  unfold Table.state?
  exact ⟨t.states[s], List.getElem?_eq_getElem h⟩

theorem Wf.textState {t : Table} (h : Wf t) (tt : TextType) : t.textState tt < t.states.length := by
  have := h.targets
  unfold TargetsOK at this
  simp only [Bool.and_eq_true, decide_eq_true_eq] at this
  obtain ⟨⟨⟨⟨⟨⟨h1, h2⟩, h3⟩, h4⟩, h5⟩, h6⟩, _⟩ := this
  cases tt <;> simp only [Table.textState] <;> assumption

theorem Wf.enter_quiet {t : Table} (h : Wf t) {st : StateId} {sd : StateDef} (hs : t.state? st = some sd) :
    ∀ c ∈ sd.enter, c.act.isQuiet = true := by
  have h2 := Table.allStates_spec h.enterQuiet hs
  simpa only [List.all_eq_true] using h2

theorem Wf.state_exhaustive {t : Table} (h : Wf t) {st : StateId} {sd : StateDef} (hs : t.state? st = some sd) :
    stateExhaustive sd = true := Table.allStates_spec h.exhaustive hs

end LolHtml.Model
