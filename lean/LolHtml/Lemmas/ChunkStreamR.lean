import LolHtml.Lemmas.ChunkFlushR
import LolHtml.Lemmas.ChunkStream
/-!
`write` / `end` of the CHECKED transform stream (guarded `handle_tag`, range-checked
`flush_remaining_input`) in the split run against the single `write` of the whole run, for controllers that
may remove content.
-/
namespace LolHtml.Model.Chunk.R
open LolHtml LolHtml.Model LolHtml.Model.Chunk

section
variable {γ : Type} {w : World γ} {E : γ → γ → Prop} {fs : FlagMap}

/-- the parser environment with the guarded dispatcher -/
def guardEnv (w : World γ) : Env (Disp γ) := ⟨w.tbl, w.tags, guardOps w.ctl⟩

/-- `TransformStream::write` with the two assertions -/
def _root_.LolHtml.Model.Stream.writeG (w : World γ) (s : Stream γ) (data : Bytes) : Stream γ × Except Err Unit :=
  match s.chunkFor w data with
  | .inl s => (s, .error .mem)
  | .inr sc =>
    let s := sc.1
    let chunk := sc.2
    let pr := s.parser.parse (guardEnv w) chunk false
    let s := { s with parser := pr.1 }
    match pr.2 with
    | .error e => (s.bail w e [chunk], .error e)
    | .ok consumed =>
      match flushC s.disp chunk consumed with
      | .error e => (s, .error e)
      | .ok d => (s.setDisp d).keepTail w data chunk consumed

/-- `TransformStream::end` with the guarded `handle_tag` -/
def _root_.LolHtml.Model.Stream.endG (w : World γ) (s : Stream γ) : Stream γ × Except Err Unit :=
  let chunk : Bytes := s.pending
  let pr := s.parser.parse (guardEnv w) chunk true
  let s := { s with parser := pr.1 }
  match pr.2 with
  | .error e => (s.bail w e [chunk], .error e)
  | .ok _ =>
    let r := s.disp.finish w.ctl chunk
    (s.setDisp r.1, r.2)

/-- **The split stream between two `write`s, against the whole run inside its single parse**: the whole
parse (from `pw0`, `mw0`) has reached `pwk`, `mw1`; the split parser is related to it in the frame `δ`. -/
def Inv (w : World γ) (E : γ → γ → Prop) (fs : FlagMap) (inpW : Bytes) (pw0 : Parser (Disp γ)) (mw0 : M (Disp γ))
    (S : Stream γ) (written : Bytes) : Prop :=
  ∃ (δ d skip : Nat) (pwk : Parser (Disp γ)) (mw1 : M (Disp γ)) (pre : Bytes),
    written = pre ++ S.pending ∧ pre.length = δ ∧
    (∀ p' r, PRunsM (guardEnv w) inpW false pwk mw1 p' r → PRunsM (guardEnv w) inpW false pw0 mw0 p' r) ∧
    PRelM w.tbl fs inpW δ d skip S.parser (S.parser.machine false) pwk mw1 ∧
    DK w.ctl E [] inpW δ d S.disp mw1.x.sink ∧ S.disp.rcs = 0 ∧
    (0 < d → DLoc S.disp S.parser.x.prevConsumed (lexStart (S.parser.machine false).r)
      (S.parser.machine false).c.lastTextType)

/-- the split dispatcher after a breaking step -/
theorem brk_sink {inpS inpW : Bytes} {δ d1 d' c0 : Nat} {tt : TextType} (F : Frame inpS inpW δ) (hcl : TextBlindR w.ctl E)
    {x0 : Ctx (Disp γ)} {sink' dw : Disp γ} (hK : DK w.ctl E inpS inpW δ d1 x0.sink dw)
    (hs : SinkBrk (guardOps w.ctl) DLoc inpS d1 d' x0 sink' c0 tt) :
    DK w.ctl E inpS inpW δ d' sink' dw ∧ (0 < d' → DLoc sink' x0.prevConsumed c0 tt) := by
  rcases hs with ⟨h1, h2, h3⟩ | ⟨a, h1, h2, h3, h4⟩
  · subst h1 h2
    exact ⟨hK, h3⟩
  · subst h2
    obtain ⟨k1, k2⟩ := DK.brkText F hcl hK x0.prevConsumed a c0 tt h1 h4 h3
    exact ⟨k1, fun _ => k2⟩

/-- **What one `write` does**, in terms of the big-step parse. -/
theorem write_cases (S : Stream γ) (c : Bytes) :
    Unclean (S.writeG w c).2 ∨
    ∃ ps' rs, PRunsM (guardEnv w) (S.pending ++ c) false S.parser (S.parser.machine false) ps' rs ∧
      ((∃ e, rs = .error e ∧ (S.writeG w c).2 = .error e) ∨
       (∃ c0, rs = .ok c0 ∧
          (Unclean (S.writeG w c).2 ∨
          ∃ ds', flushC ps'.x.sink (S.pending ++ c) c0 = .ok ds' ∧ (S.writeG w c).2 = .ok () ∧
            (S.writeG w c).1.pending = (S.pending ++ c).drop c0 ∧ (S.writeG w c).1.parser = Parser.setSink ps' ds'))) := by
  unfold Stream.writeG
  cases hcf : S.chunkFor w c with
  | inl s' => exact Or.inl (Or.inr rfl)
  | inr sc =>
    obtain ⟨s1, chunk⟩ := sc
    obtain ⟨c1, c2, c3, c4, c5⟩ := Stream.chunkFor_inr hcf
    subst c1
    simp only
    rw [c2]
    rcases pruns_of_parse (env := (guardEnv w)) (inp := S.pending ++ c) (last := false) S.parser with hpr | ⟨m, hm⟩
    · cases hres : (S.parser.parse (guardEnv w) (S.pending ++ c) false).2 with
      | error e =>
        right
        refine ⟨_, _, hpr, Or.inl ⟨e, hres, rfl⟩⟩
      | ok c0 =>
        right
        refine ⟨_, _, hpr, Or.inr ⟨c0, hres, ?_⟩⟩
        simp only
        have hdisp : Stream.disp { s1 with parser := (S.parser.parse (guardEnv w) (S.pending ++ c) false).1 } =
            (S.parser.parse (guardEnv w) (S.pending ++ c) false).1.x.sink := rfl
        rw [hdisp]
        rcases flushC_desc (S.parser.parse (guardEnv w) (S.pending ++ c) false).1.x.sink (S.pending ++ c) c0 with
          ⟨m, he⟩ | ⟨d1, he, hs, h1, h2, h3, h4⟩
        · left; rw [he]; exact Or.inl ⟨m, rfl⟩
        · rw [he]
          simp only
          rcases keepTail_unclean (w := w) (Stream.setDisp { s1 with parser := (S.parser.parse (guardEnv w) (S.pending ++ c) false).1 } d1)
            c (S.pending ++ c) c0 with hok | hun
          · right
            obtain ⟨k1, k2⟩ := Stream.keepTail_ok (w := w)
              (s := Stream.setDisp { s1 with parser := (S.parser.parse (guardEnv w) (S.pending ++ c) false).1 } d1)
              (data := c) (chunk := S.pending ++ c) (consumed := c0) h3
              (by intro hb; exact c5 (by simpa [Stream.setDisp, c3] using hb))
              (by intro hb
                  have : S.hasBuffered = false := by simpa [Stream.setDisp, c3] using hb
                  simp [Stream.pending, this])
              hok
            refine ⟨d1, rfl, hok, k1, ?_⟩
            rw [keepTail_parser _ _ _ _ hok]
            rfl
          · exact Or.inl hun
    · left
      rw [hm]
      exact Or.inl ⟨m, rfl⟩


/-- **A `write` of the split run that is not known to be the last one.** -/
theorem write_open (hcl : TextBlindR w.ctl E) (hwf : WfChunkWith w.tbl fs = true) {inpW : Bytes} {pw0 : Parser (Disp γ)}
    {mw0 : M (Disp γ)} {S : Stream γ} {written c rest : Bytes} (hinv : Inv w E fs inpW pw0 mw0 S written)
    (hdoc : inpW = written ++ c ++ rest) :
    Unclean (S.writeG w c).2 ∨
    ((S.writeG w c).2 = .ok () ∧ Inv w E fs inpW pw0 mw0 (S.writeG w c).1 (written ++ c)) ∨
    (∃ e pw', (S.writeG w c).2 = .error e ∧ PRunsM (guardEnv w) inpW false pw0 mw0 pw' (.error e)) := by
  obtain ⟨δ, d, skip, pwk, mw1, pre, h1, h2, hcont, hprel, hK, hrcs, hloc⟩ := hinv
  have F : Frame (S.pending ++ c) inpW δ := by
    rw [hdoc, h1, ← h2]
    exact frame_of_doc
  rcases write_cases (w := w) S c with hun | ⟨ps', rs, hpr, hcase⟩
  · exact Or.inl hun
  have hsink : (S.parser.machine false).x.sink = S.disp := by rw [machine_x]; rfl
  have hK' : DK w.ctl E (S.pending ++ c) inpW δ d (S.parser.machine false).x.sink mw1.x.sink := by
    rw [hsink]; exact hK.congr_inpS (by rw [hrcs]; exact Nat.zero_le _)
  have hloc' : 0 < d → DLoc (S.parser.machine false).x.sink (S.parser.machine false).x.prevConsumed
      (lexStart (S.parser.machine false).r) (S.parser.machine false).c.lastTextType := by
    intro hd; rw [hsink, machine_x]; exact hloc hd
  rcases popen (env := (guardEnv w)) F (guardOps_sim F hcl) hwf hpr hprel (machine_isLast _ _) hK' hloc' with
    ⟨m, hm⟩ | ⟨e, pw', he, hpw⟩ | ⟨c0, hc0, d1, d', skip', x0, pwk', mw1', hcont', hK1, hbrk, hls, hpc, hprel'⟩
  · -- the split parse hit a panic branch
    subst hm
    rcases hcase with ⟨e, he, hres⟩ | ⟨c0, hc0, _⟩
    · cases he; exact Or.inl (Or.inl ⟨m, hres⟩)
    · cases hc0
  · -- the same error in both runs
    subst he
    rcases hcase with ⟨e', he', hres⟩ | ⟨c0, hc0, _⟩
    · cases he'
      exact Or.inr (Or.inr ⟨e, pw', hres, hcont _ _ hpw⟩)
    · cases hc0
  · subst hc0
    rcases hcase with ⟨e', he', _⟩ | ⟨c0', hc0', hrest⟩
    · cases he'
    cases hc0'
    obtain ⟨hKb, hlocb⟩ := brk_sink F hcl hK1 hbrk
    rcases hrest with hun | ⟨ds', hfl, hok, hpend, hpars⟩
    · exact Or.inl hun
    obtain ⟨hKf, hsame, hr0, hle⟩ := DK.flushS (inpS' := []) F hKb
      (fun hd hft => (hlocb hd hft).1) hfl
    refine Or.inr (Or.inl ⟨hok, δ + c0, d', skip', pwk', mw1', pre ++ (S.pending ++ c).take c0, ?_, ?_,
      fun p' r h => hcont _ _ (hcont' _ _ h), ?_, ?_, ?_, ?_⟩)
    · rw [hpend, h1]
      simp only [List.append_assoc]
      rw [List.take_append_drop]
    · rw [List.length_append, List.length_take, h2, Nat.min_eq_left hle]
    · rw [hpars]
      have := hprel'.setSinkS ds'
      rw [setSink_machine]
      exact this
    · have : (S.writeG w c).1.disp = ds' := by
        show (S.writeG w c).1.parser.x.sink = ds'
        rw [hpars]; rfl
      rw [this]; exact hKf
    · have : (S.writeG w c).1.disp = ds' := by
        show (S.writeG w c).1.parser.x.sink = ds'
        rw [hpars]; rfl
      rw [this]; exact hr0
    · intro hd
      have hdisp : (S.writeG w c).1.disp = ds' := by
        show (S.writeG w c).1.parser.x.sink = ds'
        rw [hpars]; rfl
      rw [hdisp, hpars, setSink_machine]
      have hl := DLoc.flushS (hlocb hd) hsame hr0
      show DLoc ds' ps'.x.prevConsumed (lexStart (ps'.machine false).r) (ps'.machine false).c.lastTextType
      rw [hls, hpc]
      exact hl

/-- **The last `write` of the split run**: its input ends where the whole input ends. -/
theorem write_last (hcl : TextBlindR w.ctl E) (hwf : WfChunkWith w.tbl fs = true) {inpW : Bytes} {pw0 : Parser (Disp γ)}
    {mw0 : M (Disp γ)} {S : Stream γ} {written c : Bytes} (hinv : Inv w E fs inpW pw0 mw0 S written)
    (hdoc : inpW = written ++ c) :
    Unclean (S.writeG w c).2 ∨
    ∃ pwF rwF, PRunsM (guardEnv w) inpW false pw0 mw0 pwF rwF ∧
      ((∃ e, rwF = .error e ∧ (S.writeG w c).2 = .error e) ∨
       (∃ c' d' mid, rwF = .ok c' ∧ (S.writeG w c).2 = .ok () ∧ d' = 0 ∧
          inpW.drop c' = mid ++ (S.writeG w c).1.pending ∧ mid.length = d' ∧ c' + d' ≤ inpW.length ∧
          PRelM w.tbl fs inpW d' d' 0 (S.writeG w c).1.parser ((S.writeG w c).1.parser.machine false) pwF (pwF.machine false) ∧
          DK w.ctl E [] inpW (c' + d') d' (S.writeG w c).1.disp pwF.x.sink ∧ (S.writeG w c).1.disp.rcs = 0 ∧
          (0 < d' → DLoc (S.writeG w c).1.disp (S.writeG w c).1.parser.x.prevConsumed
            (lexStart ((S.writeG w c).1.parser.machine false).r) ((S.writeG w c).1.parser.machine false).c.lastTextType))) := by
  obtain ⟨δ, d, skip, pwk, mw1, pre, h1, h2, hcont, hprel, hK, hrcs, hloc⟩ := hinv
  have hdoc' : inpW = pre ++ S.pending ++ c ++ [] := by rw [hdoc, h1]; simp
  have F : Frame (S.pending ++ c) inpW δ := by
    rw [hdoc', ← h2]
    exact frame_of_doc
  have hclosed : Closed (S.pending ++ c) inpW δ := by
    unfold Closed
    rw [hdoc', ← h2]; simp only [List.length_append, List.length_nil]; omega
  rcases write_cases (w := w) S c with hun | ⟨ps', rs, hpr, hcase⟩
  · exact Or.inl hun
  have hsink : (S.parser.machine false).x.sink = S.disp := by rw [machine_x]; rfl
  have hK' : DK w.ctl E (S.pending ++ c) inpW δ d (S.parser.machine false).x.sink mw1.x.sink := by
    rw [hsink]; exact hK.congr_inpS (by rw [hrcs]; exact Nat.zero_le _)
  have hloc' : 0 < d → DLoc (S.parser.machine false).x.sink (S.parser.machine false).x.prevConsumed
      (lexStart (S.parser.machine false).r) (S.parser.machine false).c.lastTextType := by
    intro hd; rw [hsink, machine_x]; exact hloc hd
  rcases plock (env := (guardEnv w)) F hclosed (guardOps_sim F hcl) hwf false hpr hprel (machine_isLast _ _) hK' hloc' with
    ⟨m, hm⟩ | ⟨pw', rw', hpw, hres⟩
  · subst hm
    rcases hcase with ⟨e, he, hres⟩ | ⟨c0, hc0, _⟩
    · cases he; exact Or.inl (Or.inl ⟨m, hres⟩)
    · cases hc0
  rcases hcase with ⟨e, he, hwres⟩ | ⟨c0, hc0, hrest⟩
  · subst he
    cases rw' with
    | ok c' => exact hres.elim
    | error e' =>
      have : e' = e := hres
      subst this
      exact Or.inr ⟨pw', _, hcont _ _ hpw, Or.inl ⟨e', rfl, hwres⟩⟩
  · subst hc0
    cases rw' with
    | error e' => exact hres.elim
    | ok c' =>
      obtain ⟨d', e1, hKb, hp', hd0', hlb⟩ := hres
      obtain ⟨hls, hlocb⟩ := hlb rfl
      rcases hrest with hun | ⟨ds', hfl, hok, hpend, hpars⟩
      · exact Or.inl hun
      have hlocS : 0 < d' → ps'.x.sink.flags.text = true → ps'.x.sink.rcs = c0 := by
        intro hd hft
        obtain ⟨pc0, _, hl⟩ := hlocb hd
        exact (hl hft).1
      obtain ⟨hKf, hsame, hr0, hle⟩ := DK.flushS (inpS' := []) F hKb hlocS hfl
      have hlen : inpW.length = (S.pending ++ c).length + δ := hclosed
      have hdisp : (S.writeG w c).1.disp = ds' := by
        show (S.writeG w c).1.parser.x.sink = ds'
        rw [hpars]; rfl
      refine Or.inr ⟨pw', _, hcont _ _ hpw, Or.inr ⟨c', d', (inpW.drop c').take d', rfl, hok, hd0', ?_, ?_, by omega, ?_, ?_, ?_, ?_⟩⟩
      · -- the rest of the whole input
        rw [hpend]
        have hS : (S.pending ++ c).drop c0 = inpW.drop (c' + d') := by
          rw [e1, hdoc']
          simp only [List.append_nil, List.append_assoc]
          rw [Nat.add_comm c0 δ, ← h2, ← List.drop_drop, List.drop_left]
        rw [hS, ← List.drop_drop, List.take_append_drop]
      · rw [List.length_take, List.length_drop]; omega
      · rw [hpars]
        have := hp' rfl
        have := this.setSinkS ds'
        rw [setSink_machine]
        exact this
      · rw [hdisp, e1, Nat.add_comm c0 δ]; exact hKf
      · rw [hdisp]; exact hr0
      · intro hd
        rw [hdisp, hpars, setSink_machine]
        obtain ⟨pc0, hpc, hl⟩ := hlocb hd
        have hl' := DLoc.flushS hl hsame hr0
        show DLoc ds' ps'.x.prevConsumed (lexStart (ps'.machine false).r) (ps'.machine false).c.lastTextType
        rw [hls, hpc]
        exact hl'

theorem endG_eq (S : Stream γ) :
    S.endG w =
      (let chunk : Bytes := S.pending
       let pr := S.parser.parse (guardEnv w) chunk true
       let s : Stream γ := { S with parser := pr.1 }
       match pr.2 with
       | .error e => (s.bail w e [chunk], .error e)
       | .ok _ =>
         let r := s.disp.finish w.ctl chunk
         (s.setDisp r.1, r.2)) := rfl

/-- **`end` in the two runs.** -/
theorem end_sim (hcl : TextBlindR w.ctl E) (hwf : WfChunkWith w.tbl fs = true) {X : Bytes} {S W : Stream γ} {mid : Bytes} {d : Nat}
    (hpend : W.pending = mid ++ S.pending) (hmid : mid.length = d)
    (hprel : PRelM w.tbl fs X d d 0 S.parser (S.parser.machine false) W.parser (W.parser.machine false))
    (hK : DK w.ctl E [] W.pending d d S.disp W.disp) (hr : S.disp.rcs = 0)
    (hloc : 0 < d → DLoc S.disp S.parser.x.prevConsumed (lexStart (S.parser.machine false).r)
      (S.parser.machine false).c.lastTextType) :
    Unclean (S.endG w).2 ∨ Unclean (W.endG w).2 ∨
    ((W.endG w).2 = (S.endG w).2 ∧
      ((S.endG w).2 = .ok () → sinkBytes (W.endG w).1.disp.sink = sinkBytes (S.endG w).1.disp.sink ∧
        E (S.endG w).1.disp.ctl (W.endG w).1.disp.ctl)) := by
  have F : Frame S.pending W.pending d := ⟨mid, [], hmid, by rw [hpend]; simp⟩
  have hclosed : Closed S.pending W.pending d := by
    unfold Closed; rw [hpend, List.length_append, hmid]; omega
  have hprS := pruns_of_parse (env := (guardEnv w)) (inp := S.pending) (last := true) S.parser
  have hprW := pruns_of_parse (env := (guardEnv w)) (inp := W.pending) (last := true) W.parser
  rw [endG_eq S, endG_eq W]
  simp only []
  generalize S.parser.parse (guardEnv w) S.pending true = prS at hprS ⊢
  generalize W.parser.parse (guardEnv w) W.pending true = prW at hprW ⊢
  obtain ⟨psE, rsE⟩ := prS
  obtain ⟨pwE, rwE⟩ := prW
  simp only [] at hprS hprW ⊢
  rcases hprS with hprS | ⟨m, hm⟩
  rotate_left
  · left; rw [hm]; exact Or.inl ⟨m, rfl⟩
  rcases hprW with hprW | ⟨m, hm⟩
  rotate_left
  · right; left; rw [hm]; exact Or.inl ⟨m, rfl⟩
  have hsink : (S.parser.machine true).x.sink = S.disp := by rw [machine_x]; rfl
  have hsinkW : (W.parser.machine true).x.sink = W.disp := by rw [machine_x]; rfl
  have hK' : DK w.ctl E S.pending W.pending d d (S.parser.machine true).x.sink (W.parser.machine true).x.sink := by
    rw [hsink, hsinkW]; exact hK.congr_inpS (by rw [hr]; exact Nat.zero_le _)
  have hloc' : 0 < d → DLoc (S.parser.machine true).x.sink (S.parser.machine true).x.prevConsumed
      (lexStart (S.parser.machine true).r) (S.parser.machine true).c.lastTextType := by
    intro hd; rw [hsink, machine_x, machine_r _ true false, machine_ltt _ true false]; exact hloc hd
  rcases plock (env := (guardEnv w)) F hclosed (guardOps_sim F hcl) hwf true hprS (hprel.congr_inpW.last) (machine_isLast _ _) hK' hloc' with
    ⟨m, hm⟩ | ⟨pw', rw', hpw, hres⟩
  · left; rw [hm]; exact Or.inl ⟨m, rfl⟩
  obtain ⟨e1, e2⟩ := hpw.det hprW
  subst e1 e2
  cases rsE with
  | error e =>
    cases rw' with
    | ok c' => exact hres.elim
    | error e' =>
      have : e' = e := hres
      subst this
      exact Or.inr (Or.inr ⟨rfl, fun h => by cases h⟩)
  | ok c0 =>
    cases rw' with
    | error e' => exact hres.elim
    | ok c' =>
      obtain ⟨d', _, hKb, _, hd0, _⟩ := hres
      subst hd0
      have hk0 := (DK_zero.1 hKb).2
      rcases finish_sim F hclosed hcl hk0 with hp | ⟨h1, h2⟩
      · left
        exact unclean_of_epanic hp
      · right; right
        exact ⟨h1, fun hok => h2 hok⟩

end

end LolHtml.Model.Chunk.R
