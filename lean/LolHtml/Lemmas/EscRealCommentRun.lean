import LolHtml.Lemmas.EscRealCommentSteps
import LolHtml.Lemmas.EscComment
/-!
The lexer on the generated table simulates the WHATWG comment machine of `Spec.Esc.CommentEnd`
(flattened: `Lemmas.EscComment.next`): one input byte = one to three `stateFn` calls (reconsume
edges), all silent, ending in the lol-html state that corresponds to the next WHATWG state, with the
comment token's text range trailing the cursor by exactly the pending dashes; or, where the WHATWG
machine emits the comment, the lexer hands the comment lexeme to the sink and returns to the data state.
-/
namespace LolHtml.Model.CommentStates
open LolHtml LolHtml.Model LolHtml.Model.TagStates
open LolHtml.Thm.C16 (Lexeme recOps)
open LolHtml.Spec.Esc.CommentEnd (State)
open LolHtml.Lemmas.EscComment (next pend after)

/-- lol-html state index of a WHATWG comment state -/
def σ : State → Nat
  | .commentStart => 41 | .commentStartDash => 43 | .comment => 42 | .lessThanSign => 46
  | .lessThanSignBang => 47 | .lessThanSignBangDash => 48 | .lessThanSignBangDashDash => 49
  | .commentEndDash => 44 | .commentEnd => 45 | .commentEndBang => 50

/-- registers that stay constant while a comment is being lexed -/
structure CFrame where
  il : Bool
  ca : Bool
  lsh : Nat
  cq : UInt8
  ltt : TextType
  ls : Nat
  ct : Option TagOutline
  cattr : Option AttrOutline
  fd : FeedbackDirective
  x : Ctx (List Lexeme)

def cm (F : CFrame) (S p : Nat) (en : Bool) (tps : Nat) (cnt : Option NonTagOutline) : M (List Lexeme) :=
  ⟨⟨p, F.il, S, en, F.ca, F.lsh, F.cq, F.ltt⟩, .lexer ⟨F.ls, tps, F.ct, cnt, F.cattr, F.fd⟩, F.x⟩

/-- the machine after the comment lexeme `[ls, p + 1)` with text range `r` was handed to the sink -/
def em (F : CFrame) (p tps : Nat) (r : Range) : M (List Lexeme) :=
  ⟨⟨p + 1, F.il, 2, false, F.ca, F.lsh, F.cq, F.ltt⟩, .lexer ⟨p + 1, tps, F.ct, none, F.cattr, F.fd⟩,
    { F.x with sink := F.x.sink ++ [.nonTag ⟨F.x.prevConsumed, ⟨F.ls, p + 1⟩, some (.comment r)⟩] }⟩

/-- the text range trails the cursor by the pending bytes -/
def RInv (q : State) (s p : Nat) (r : Range) : Prop := pend q ≠ [] → r.start = s ∧ r.end + (pend q).length = p

/-- the machine is in the lol-html state of `q` at position `p`; the comment text started at `s` -/
def AtQ (F : CFrame) (q : State) (s p : Nat) (m : M (List Lexeme)) : Prop :=
  match q with
  | .commentStart => p = s ∧ ∃ tps cnt, m = cm F 41 p false tps cnt
  | q => ∃ en r, m = cm F (σ q) p en s (some (.comment r)) ∧ RInv q s p r

section
variable {tbl : Table} {cfg : TagCfg} (hok : CommentStatesOk tbl = true) {inp : Bytes}

theorem run1 {m m1 : M (List Lexeme)} (h1 : stateFn ⟨tbl, cfg, recOps⟩ inp m = (m1, none)) (fuel : Nat) :
    runLoop ⟨tbl, cfg, recOps⟩ inp (1 + fuel) m = runLoop ⟨tbl, cfg, recOps⟩ inp fuel m1 := by
  rw [Nat.add_comm]; exact runLoop_step h1

theorem run2 {m m1 m2 : M (List Lexeme)} (h1 : stateFn ⟨tbl, cfg, recOps⟩ inp m = (m1, none))
    (h2 : stateFn ⟨tbl, cfg, recOps⟩ inp m1 = (m2, none)) (fuel : Nat) :
    runLoop ⟨tbl, cfg, recOps⟩ inp (2 + fuel) m = runLoop ⟨tbl, cfg, recOps⟩ inp fuel m2 := by
  rw [show 2 + fuel = (fuel + 1) + 1 by omega, runLoop_step h1, runLoop_step h2]

theorem run3 {m m1 m2 m3 : M (List Lexeme)} (h1 : stateFn ⟨tbl, cfg, recOps⟩ inp m = (m1, none))
    (h2 : stateFn ⟨tbl, cfg, recOps⟩ inp m1 = (m2, none)) (h3 : stateFn ⟨tbl, cfg, recOps⟩ inp m2 = (m3, none)) (fuel : Nat) :
    runLoop ⟨tbl, cfg, recOps⟩ inp (3 + fuel) m = runLoop ⟨tbl, cfg, recOps⟩ inp fuel m3 := by
  rw [show 3 + fuel = ((fuel + 1) + 1) + 1 by omega, runLoop_step h1, runLoop_step h2, runLoop_step h3]

/-- what consuming the byte `b` at `p` from the lol-html state of `q` must achieve -/
def Goal (tbl : Table) (cfg : TagCfg) (inp : Bytes) (F : CFrame) (q : State) (s p : Nat) (b : UInt8) (m : M (List Lexeme)) : Prop :=
  match next q b with
  | some q' => ∃ k m', 1 ≤ k ∧ k ≤ 3 ∧ (∀ fuel, runLoop ⟨tbl, cfg, recOps⟩ inp (k + fuel) m = runLoop ⟨tbl, cfg, recOps⟩ inp fuel m') ∧
      AtQ F q' s (p + 1) m'
  | none => ∃ k tps r, 1 ≤ k ∧ k ≤ 3 ∧ (∀ fuel, runLoop ⟨tbl, cfg, recOps⟩ inp (k + fuel) m = runLoop ⟨tbl, cfg, recOps⟩ inp fuel (em F p tps r)) ∧
      r.start = s ∧ r.end + (pend q).length = p

theorem next_comment_eq {q : State} {b : UInt8} (h : next q b = next .comment b) {q' : State}
    (h' : next .comment b = some q') : next q b = some q' := by rw [h, h']

include hok

/-- the comment state (42) on any byte, from any text range: used at the end of every reconsume chain -/
theorem in42 (F : CFrame) (s p : Nat) (b : UInt8) (en : Bool) (r : Range) (hb : inp[p]? = some b) :
    ∃ q' m', next .comment b = some q' ∧
      stateFn ⟨tbl, cfg, recOps⟩ inp (cm F 42 p en s (some (.comment r))) = (m', none) ∧ AtQ F q' s (p + 1) m' := by
  by_cases h45 : b = 45
  · subst h45
    exact ⟨.commentEndDash, _, by simp [next], step42_dash hok hb, ⟨false, ⟨s, p⟩, rfl, by simp [RInv, pend]⟩⟩
  by_cases h60 : b = 60
  · subst h60
    exact ⟨.lessThanSign, _, by simp [next], step42_lt hok hb, ⟨false, r, rfl, by simp [RInv, pend]⟩⟩
  · exact ⟨.comment, _, by simp [next, h45, h60], step42_other hok hb h45 h60, ⟨en, ⟨s, p⟩, rfl, by simp [RInv, pend]⟩⟩

/-- a chain that reaches the comment state (42) after one silent call that did not consume the byte -/
theorem chain42_1 (F : CFrame) (q : State) (s p : Nat) (b : UInt8) (m : M (List Lexeme)) (r : Range)
    (hb : inp[p]? = some b) (hn : next q b = next .comment b)
    (h1 : stateFn ⟨tbl, cfg, recOps⟩ inp m = (cm F 42 p false s (some (.comment r)), none)) :
    Goal tbl cfg inp F q s p b m := by
  obtain ⟨q', m', hq', hstep, hat⟩ := in42 (cfg := cfg) hok F s p b false r hb
  unfold Goal
  rw [next_comment_eq hn hq']
  exact ⟨2, m', by omega, by omega, run2 h1 hstep, hat⟩

theorem chain42_2 (F : CFrame) (q : State) (s p : Nat) (b : UInt8) (m m1 : M (List Lexeme)) (r : Range)
    (hb : inp[p]? = some b) (hn : next q b = next .comment b)
    (h1 : stateFn ⟨tbl, cfg, recOps⟩ inp m = (m1, none))
    (h2 : stateFn ⟨tbl, cfg, recOps⟩ inp m1 = (cm F 42 p false s (some (.comment r)), none)) :
    Goal tbl cfg inp F q s p b m := by
  obtain ⟨q', m', hq', hstep, hat⟩ := in42 (cfg := cfg) hok F s p b false r hb
  unfold Goal
  rw [next_comment_eq hn hq']
  exact ⟨3, m', by omega, by omega, run3 h1 h2 hstep, hat⟩

/-! ### one lemma per WHATWG state -/

theorem cb_commentStart (F : CFrame) (s p : Nat) (b : UInt8) (m : M (List Lexeme)) (hb : inp[p]? = some b)
    (h : AtQ F .commentStart s p m) : Goal tbl cfg inp F .commentStart s p b m := by
  obtain ⟨hps, tps, cnt, rfl⟩ := h
  subst hps
  by_cases h45 : b = 45
  · subst h45
    simp only [Goal, next, if_true]
    exact ⟨1, _, by omega, by omega, run1 (step41_dash hok hb), ⟨false, ⟨p, p⟩, rfl, by simp [RInv, pend]⟩⟩
  by_cases h62 : b = 62
  · subst h62
    simp only [Goal, next, show ¬ (62 : UInt8) = 45 by decide, if_false, if_true]
    exact ⟨1, p, ⟨p, p⟩, by omega, by omega, run1 (step41_gt hok hb), rfl, by simp [pend]⟩
  · exact chain42_1 hok F .commentStart p p b _ .default hb (by simp [next, h45, h62]) (step41_other hok hb h45 h62)

theorem cb_comment (F : CFrame) (s p : Nat) (b : UInt8) (m : M (List Lexeme)) (hb : inp[p]? = some b)
    (h : AtQ F .comment s p m) : Goal tbl cfg inp F .comment s p b m := by
  obtain ⟨en, r, rfl, _⟩ := h
  obtain ⟨q', m', hq', hstep, hat⟩ := in42 (cfg := cfg) hok F s p b en r hb
  unfold Goal
  rw [hq']
  exact ⟨1, m', by omega, by omega, run1 hstep, hat⟩

theorem cb_commentStartDash (F : CFrame) (s p : Nat) (b : UInt8) (m : M (List Lexeme)) (hb : inp[p]? = some b)
    (h : AtQ F .commentStartDash s p m) : Goal tbl cfg inp F .commentStartDash s p b m := by
  obtain ⟨en, r, rfl, hr⟩ := h
  have hr' := hr (by simp [pend])
  by_cases h45 : b = 45
  · subst h45
    simp only [Goal, next, if_true]
    refine ⟨1, _, by omega, by omega, run1 (step43_dash hok hb), ⟨false, r, rfl, ?_⟩⟩
    intro _; simp only [pend, List.length_cons, List.length_nil] at hr' ⊢; omega
  by_cases h62 : b = 62
  · subst h62
    simp only [Goal, next, show ¬ (62 : UInt8) = 45 by decide, if_false, if_true]
    exact ⟨1, s, r, by omega, by omega, run1 (step43_gt hok hb), hr'.1, hr'.2⟩
  · exact chain42_1 hok F .commentStartDash s p b _ r hb (by simp [next, h45, h62]) (step43_other hok hb h45 h62)

theorem cb_commentEndDash (F : CFrame) (s p : Nat) (b : UInt8) (m : M (List Lexeme)) (hb : inp[p]? = some b)
    (h : AtQ F .commentEndDash s p m) : Goal tbl cfg inp F .commentEndDash s p b m := by
  obtain ⟨en, r, rfl, hr⟩ := h
  have hr' := hr (by simp [pend])
  by_cases h45 : b = 45
  · subst h45
    simp only [Goal, next, if_true]
    refine ⟨1, _, by omega, by omega, run1 (step44_dash hok hb), ⟨false, r, rfl, ?_⟩⟩
    intro _; simp only [pend, List.length_cons, List.length_nil] at hr' ⊢; omega
  · exact chain42_1 hok F .commentEndDash s p b _ r hb (by simp [next, h45]) (step44_other hok hb h45)

theorem cb_commentEnd (F : CFrame) (s p : Nat) (b : UInt8) (m : M (List Lexeme)) (hb : inp[p]? = some b)
    (h : AtQ F .commentEnd s p m) : Goal tbl cfg inp F .commentEnd s p b m := by
  obtain ⟨en, r, rfl, hr⟩ := h
  have hr' := hr (by simp [pend])
  simp only [pend, List.length_cons, List.length_nil] at hr'
  by_cases h62 : b = 62
  · subst h62
    simp only [Goal, next, if_true]
    exact ⟨1, s, r, by omega, by omega, run1 (step45_gt hok hb), hr'.1, by simp [pend]; omega⟩
  by_cases h33 : b = 33
  · subst h33
    simp only [Goal, next, show ¬ (33 : UInt8) = 62 by decide, if_false, if_true]
    refine ⟨1, _, by omega, by omega, run1 (step45_bang hok hb), ⟨false, r, rfl, ?_⟩⟩
    intro _; simp only [pend, List.length_cons, List.length_nil]; omega
  by_cases h45 : b = 45
  · subst h45
    simp only [Goal, next, show ¬ (45 : UInt8) = 62 by decide, show ¬ (45 : UInt8) = 33 by decide, if_false, if_true]
    refine ⟨1, _, by omega, by omega, run1 (step45_dash hok hb), ⟨en, ⟨r.start, r.end + 1⟩, rfl, ?_⟩⟩
    intro _; simp only [pend, List.length_cons, List.length_nil]; omega
  · have := step45_other (cfg := cfg) (il := F.il) (en := en) (ca := F.ca) (lsh := F.lsh) (cq := F.cq) (ltt := F.ltt)
      (ls := F.ls) (tps := s) (ct := F.ct) (cattr := F.cattr) (fd := F.fd) (x := F.x) (r := r) hok hb h62 h33 h45
    exact chain42_1 hok F .commentEnd s p b _ ⟨r.start, r.end + 2⟩ hb (by simp [next, h45, h62, h33]) this

theorem cb_commentEndBang (F : CFrame) (s p : Nat) (b : UInt8) (m : M (List Lexeme)) (hb : inp[p]? = some b)
    (h : AtQ F .commentEndBang s p m) : Goal tbl cfg inp F .commentEndBang s p b m := by
  obtain ⟨en, r, rfl, hr⟩ := h
  have hr' := hr (by simp [pend])
  simp only [pend, List.length_cons, List.length_nil] at hr'
  by_cases h45 : b = 45
  · subst h45
    simp only [Goal, next, if_true]
    refine ⟨1, _, by omega, by omega, run1 (step50_dash hok hb), ⟨false, ⟨r.start, r.end + 3⟩, rfl, ?_⟩⟩
    intro _; simp only [pend, List.length_cons, List.length_nil]; omega
  by_cases h62 : b = 62
  · subst h62
    simp only [Goal, next, show ¬ (62 : UInt8) = 45 by decide, if_false, if_true]
    exact ⟨1, s, r, by omega, by omega, run1 (step50_gt hok hb), hr'.1, by simp [pend]; omega⟩
  · have := step50_other (cfg := cfg) (il := F.il) (en := en) (ca := F.ca) (lsh := F.lsh) (cq := F.cq) (ltt := F.ltt)
      (ls := F.ls) (tps := s) (ct := F.ct) (cattr := F.cattr) (fd := F.fd) (x := F.x) (r := r) hok hb h45 h62
    exact chain42_1 hok F .commentEndBang s p b _ ⟨r.start, r.end + 3⟩ hb (by simp [next, h45, h62]) this

theorem cb_lessThanSign (F : CFrame) (s p : Nat) (b : UInt8) (m : M (List Lexeme)) (hb : inp[p]? = some b)
    (h : AtQ F .lessThanSign s p m) : Goal tbl cfg inp F .lessThanSign s p b m := by
  obtain ⟨en, r, rfl, _⟩ := h
  by_cases h33 : b = 33
  · subst h33
    simp only [Goal, next, if_true]
    exact ⟨1, _, by omega, by omega, run1 (step46_bang hok hb), ⟨false, ⟨s, p⟩, rfl, by simp [RInv, pend]⟩⟩
  by_cases h60 : b = 60
  · subst h60
    simp only [Goal, next, show ¬ (60 : UInt8) = 33 by decide, if_false, if_true]
    exact ⟨1, _, by omega, by omega, run1 (step46_lt hok hb), ⟨en, ⟨s, p⟩, rfl, by simp [RInv, pend]⟩⟩
  · exact chain42_1 hok F .lessThanSign s p b _ ⟨s, p⟩ hb (by simp [next, h33, h60]) (step46_other hok hb h33 h60)

theorem cb_lessThanSignBang (F : CFrame) (s p : Nat) (b : UInt8) (m : M (List Lexeme)) (hb : inp[p]? = some b)
    (h : AtQ F .lessThanSignBang s p m) : Goal tbl cfg inp F .lessThanSignBang s p b m := by
  obtain ⟨en, r, rfl, _⟩ := h
  by_cases h45 : b = 45
  · subst h45
    simp only [Goal, next, if_true]
    refine ⟨1, _, by omega, by omega, run1 (step47_dash hok hb), ⟨false, ⟨s, p⟩, rfl, ?_⟩⟩
    intro _; simp [pend]
  · exact chain42_1 hok F .lessThanSignBang s p b _ ⟨s, p⟩ hb (by simp [next, h45]) (step47_other hok hb h45)

theorem cb_lessThanSignBangDash (F : CFrame) (s p : Nat) (b : UInt8) (m : M (List Lexeme)) (hb : inp[p]? = some b)
    (h : AtQ F .lessThanSignBangDash s p m) : Goal tbl cfg inp F .lessThanSignBangDash s p b m := by
  obtain ⟨en, r, rfl, hr⟩ := h
  have hr' := hr (by simp [pend])
  simp only [pend, List.length_cons, List.length_nil] at hr'
  by_cases h45 : b = 45
  · subst h45
    simp only [Goal, next, if_true]
    refine ⟨1, _, by omega, by omega, run1 (step48_dash hok hb), ⟨false, r, rfl, ?_⟩⟩
    intro _; simp only [pend, List.length_cons, List.length_nil]; omega
  · exact chain42_2 hok F .lessThanSignBangDash s p b _ _ r hb (by simp [next, h45]) (step48_other hok hb h45)
      (step44_other hok hb h45)

theorem cb_lessThanSignBangDashDash (F : CFrame) (s p : Nat) (b : UInt8) (m : M (List Lexeme)) (hb : inp[p]? = some b)
    (h : AtQ F .lessThanSignBangDashDash s p m) : Goal tbl cfg inp F .lessThanSignBangDashDash s p b m := by
  obtain ⟨en, r, rfl, hr⟩ := h
  have hr' := hr (by simp [pend])
  simp only [pend, List.length_cons, List.length_nil] at hr'
  have h0 := step49_any (cfg := cfg) (il := F.il) (en := en) (ca := F.ca) (lsh := F.lsh) (cq := F.cq) (ltt := F.ltt)
      (ls := F.ls) (tps := s) (ct := F.ct) (cnt := some (.comment r)) (cattr := F.cattr) (fd := F.fd) (x := F.x) hok hb
  by_cases h62 : b = 62
  · subst h62
    simp only [Goal, next, if_true]
    exact ⟨2, s, r, by omega, by omega, run2 h0 (step45_gt hok hb), hr'.1, by simp [pend]; omega⟩
  by_cases h33 : b = 33
  · subst h33
    simp only [Goal, next, show ¬ (33 : UInt8) = 62 by decide, if_false, if_true]
    refine ⟨2, _, by omega, by omega, run2 h0 (step45_bang hok hb), ⟨false, r, rfl, ?_⟩⟩
    intro _; simp only [pend, List.length_cons, List.length_nil]; omega
  by_cases h45 : b = 45
  · subst h45
    simp only [Goal, next, show ¬ (45 : UInt8) = 62 by decide, show ¬ (45 : UInt8) = 33 by decide, if_false, if_true]
    refine ⟨2, _, by omega, by omega, run2 h0 (step45_dash hok hb), ⟨false, ⟨r.start, r.end + 1⟩, rfl, ?_⟩⟩
    intro _; simp only [pend, List.length_cons, List.length_nil]; omega
  · have h1 := step45_other (cfg := cfg) (il := F.il) (en := false) (ca := F.ca) (lsh := F.lsh) (cq := F.cq) (ltt := F.ltt)
      (ls := F.ls) (tps := s) (ct := F.ct) (cattr := F.cattr) (fd := F.fd) (x := F.x) (r := r) hok hb h62 h33 h45
    exact chain42_2 hok F .lessThanSignBangDashDash s p b _ _ ⟨r.start, r.end + 2⟩ hb (by simp [next, h45, h62, h33]) h0 h1

/-- **One byte.** From the lol-html state of the WHATWG state `q`, consuming the byte at `p`. -/
theorem consume_byte (F : CFrame) (q : State) (s p : Nat) (b : UInt8) (m : M (List Lexeme)) (hb : inp[p]? = some b)
    (h : AtQ F q s p m) : Goal tbl cfg inp F q s p b m := by
  cases q
  · exact cb_commentStart hok F s p b m hb h
  · exact cb_commentStartDash hok F s p b m hb h
  · exact cb_comment hok F s p b m hb h
  · exact cb_lessThanSign hok F s p b m hb h
  · exact cb_lessThanSignBang hok F s p b m hb h
  · exact cb_lessThanSignBangDash hok F s p b m hb h
  · exact cb_lessThanSignBangDashDash hok F s p b m hb h
  · exact cb_commentEndDash hok F s p b m hb h
  · exact cb_commentEnd hok F s p b m hb h
  · exact cb_commentEndBang hok F s p b m hb h

end
end LolHtml.Model.CommentStates
