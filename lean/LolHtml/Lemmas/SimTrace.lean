import LolHtml.Model.SM
import LolHtml.Model.TreeSimRun
import LolHtml.Lemmas.Congr
import LolHtml.Lemmas.Island
/-!
The tree-builder simulator inside the lexer = `Sim.stepTag` over the emitted tag lexemes.

`fullView inp o` is what the `RequestLexeme` callbacks can read from a tag lexeme (name, attribute
names and values, self-closing flag); `tagEventOf` pairs it with the name hash. In a pure-lexer run
(the sink always answers `Lex`, so the feedback directive is always `None`) `emit_tag` performs
exactly one `Sim.stepTag` on the event of the lexeme it emits, and stamps start tags with the
resulting namespace.
-/
namespace LolHtml.Model
open LolHtml.Lemmas.Island (lastState)

/-- everything a `RequestLexeme` callback may read from the lexeme (unchecked slices) -/
def fullView (inp : Bytes) : TagOutline → TagView
  | .startTag n _ _ as sc =>
      ⟨true, slice inp n.start n.end,
        as.map (fun a => (slice inp a.name.start a.name.end, slice inp a.value.start a.value.end)), sc⟩
  | .endTag n _ => ⟨false, slice inp n.start n.end, [], false⟩

/-- a logged tag lexeme (with the input slice its ranges refer to) as a simulator event -/
def tagEventOf (p : Bytes × TagLexeme) : TagEvent := ⟨p.2.outline.nameHash, fullView p.1 p.2.outline⟩

/-- the namespace stamped on a start-tag lexeme -/
def nsOf : TagOutline → Option Ns
  | .startTag _ _ ns _ _ => some ns
  | .endTag .. => none

theorem checkedSlice_eq_slice {inp : Bytes} {r : Range} {b : Bytes} (h : checkedSlice inp r = some b) :
    b = slice inp r.start r.end := by
  unfold checkedSlice at h
  split at h
  · injection h with h; exact h.symm
  · cases h

theorem mapM_names {inp : Bytes} (as : List AttrOutline) (attrs : List (Bytes × Bytes))
    (h : as.mapM (fun (a : AttrOutline) => (checkedSlice inp a.name).map fun n => (n, ([] : Bytes))) = some attrs) :
    attrs = as.map (fun a => (slice inp a.name.start a.name.end, ([] : Bytes))) := by
  induction as generalizing attrs with
  | nil => simp at h; rw [h]; rfl
  | cons a as ih =>
    simp only [List.mapM_cons, Option.pure_def, Option.bind_eq_bind] at h
    cases hn : checkedSlice inp a.name with
    | none => simp [hn] at h
    | some n =>
      cases hr : as.mapM (fun (a : AttrOutline) => (checkedSlice inp a.name).map fun n => (n, ([] : Bytes))) with
      | none => simp [hn, hr] at h
      | some rest =>
        simp [hn, hr] at h
        rw [← h, ih rest hr, checkedSlice_eq_slice hn]
        rfl

theorem mapM_pairs {inp : Bytes} (as : List AttrOutline) (attrs : List (Bytes × Bytes))
    (h : as.mapM (fun (a : AttrOutline) =>
          match checkedSlice inp a.name, checkedSlice inp a.value with
          | some x, some y => some (x, y)
          | _, _ => none) = some attrs) :
    attrs = as.map (fun a => (slice inp a.name.start a.name.end, slice inp a.value.start a.value.end)) := by
  induction as generalizing attrs with
  | nil => simp at h; rw [h]; rfl
  | cons a as ih =>
    simp only [List.mapM_cons, Option.pure_def, Option.bind_eq_bind] at h
    cases hn : checkedSlice inp a.name with
    | none => simp [hn] at h
    | some n =>
      cases hv : checkedSlice inp a.value with
      | none => simp [hn, hv] at h
      | some v =>
        cases hr : as.mapM (fun (a : AttrOutline) =>
            match checkedSlice inp a.name, checkedSlice inp a.value with
            | some x, some y => some (x, y)
            | _, _ => none) with
        | none => simp [hn, hv, hr] at h
        | some rest =>
          simp [hn, hv, hr] at h
          rw [← h, ih rest hr, checkedSlice_eq_slice hn, checkedSlice_eq_slice hv]
          rfl

/-- The view a callback is given by the lexer and the full view of the lexeme are interchangeable. -/
theorem runCallback_view (s : Sim) (k : RLKind) (inp : Bytes) (o : TagOutline) (v : TagView)
    (h : tagViewFor k inp o = some v) : s.runCallback k v = s.runCallback k (fullView inp o) := by
  cases o with
  | startTag n hh ns as sc =>
    cases k with
    | integrationPointEnter =>
      simp only [tagViewFor, Option.some.injEq] at h; subst h; rfl
    | fontCheck =>
      simp only [tagViewFor, Option.map_eq_some_iff] at h
      obtain ⟨attrs, hm, rfl⟩ := h
      rw [mapM_names as attrs hm]
      simp only [Sim.runCallback, fullView, List.any_map, Function.comp_def]
    | annotationXmlStart =>
      simp only [tagViewFor] at h
      cases hn : checkedSlice inp n with
      | none => simp [hn] at h
      | some nb =>
        have hnb := checkedSlice_eq_slice hn
        simp only [hn] at h
        by_cases hc : (!sc && eqCaseInsensitive nb bAnnotationXml) = true
        · simp only [hc, if_true, Option.map_eq_some_iff] at h
          obtain ⟨attrs, hm, rfl⟩ := h
          rw [mapM_pairs as attrs hm, hnb]
          rfl
        · simp only [hc, Bool.false_eq_true, if_false, Option.some.injEq] at h
          subst h
          have hc' : (!sc && eqCaseInsensitive (slice inp n.start n.end) bAnnotationXml) = false := by
            rw [← hnb]; simpa using hc
          simp only [Sim.runCallback, fullView, Bool.not_true, Bool.false_eq_true, if_false, ← hnb]
          rw [Bool.and_eq_false_iff] at hc'
          rw [← hnb] at hc'
          rcases hc' with h1 | h1 <;> simp [h1]
    | annotationXmlEnd =>
      simp only [tagViewFor, Option.some.injEq] at h; subst h; rfl
  | endTag n hh =>
    cases k with
    | annotationXmlEnd =>
      simp only [tagViewFor, Option.map_eq_some_iff] at h
      obtain ⟨nb, hn, rfl⟩ := h
      rw [checkedSlice_eq_slice hn]
      rfl
    | integrationPointEnter => simp only [tagViewFor, Option.some.injEq] at h; subst h; rfl
    | fontCheck => simp only [tagViewFor, Option.some.injEq] at h; subst h; rfl
    | annotationXmlStart => simp only [tagViewFor, Option.some.injEq] at h; subst h; rfl


/-! ### the invariant -/

variable {κ : Type}

/-- `Tr cfg s0 log s`: starting from `s0`, the simulator steps through the events of the logged tag
lexemes without error, every start-tag lexeme is stamped with the namespace reached after its
step, and `s` is the state after the last one. -/
inductive Tr (cfg : TagCfg) (s0 : Sim) : List (Bytes × TagLexeme) → Sim → Prop
  | nil : Tr cfg s0 [] s0
  | snoc {log : List (Bytes × TagLexeme)} {s s' : Sim} {fb : Feedback} {rec : Bytes × TagLexeme} :
      Tr cfg s0 log s → s.stepTag cfg (tagEventOf rec) = .ok (s', fb) →
      (∀ ns, nsOf rec.2.outline = some ns → s'.currentNs = ns) → Tr cfg s0 (log ++ [rec]) s'

/-- a sink that logs the tag lexemes it is given and keeps the parser in lexer mode -/
structure TraceOps (ops : SinkOps κ) (logOf : κ → List (Bytes × TagLexeme)) (inp : Bytes) : Prop where
  tag_log : ∀ lx k, logOf (ops.handleTag inp lx k).1 = logOf k ++ [(inp, lx)]
  tag_lex : ∀ lx k d, (ops.handleTag inp lx k).2 = .ok d → d = .lex
  nontag_log : ∀ lx k, logOf (ops.handleNonTag inp lx k).1 = logOf k

/-- the three debug-assertion panics of `handle_tree_builder_feedback` (after which the model's
simulator state is ahead of the emitted lexemes) -/
def hfPanics : List String :=
  ["nested RequestLexeme", "Bytes::slice out of range in RequestLexeme callback",
   "RequestLexeme callback: unexpected tag type / empty ns stack"]

def traceCong (cfg : TagCfg) (s0 : Sim) (logOf : κ → List (Bytes × TagLexeme)) : Cong κ κ :=
  { Rx := fun x₁ x₂ => x₂ = x₁ ∧ Tr cfg s0 (logOf x₁.sink) x₁.sim
    Jr := fun r => match r with | .lexer l => l.fd = .none | .scanner _ => False
    Stop := fun r => ∃ s ∈ hfPanics, r.2 = some (.err (.panic s))
    Good := fun s => ∀ d bm, s ≠ some (.directive d bm) }

section
variable {env : Env κ} {inp : Bytes} {s0 : Sim} {logOf : κ → List (Bytes × TagLexeme)}

/-- what a lexer action leaves behind in a pure-lexer run -/
def OKr (cfg : TagCfg) (s0 : Sim) (logOf : κ → List (Bytes × TagLexeme)) (r : M κ × Option Signal) : Prop :=
  (∃ l', r.1.r = .lexer l' ∧ l'.fd = .none) ∧ Tr cfg s0 (logOf r.1.x.sink) r.1.x.sim ∧
  (∀ d bm, r.2 ≠ some (.directive d bm))

theorem tr_emitNonTag (h : TraceOps env.ops logOf inp) (c : Common) (l : LexRegs) (x : Ctx κ)
    (o : Option NonTagOutline) (e : Nat) (hfd : l.fd = .none) (htr : Tr env.cfg s0 (logOf x.sink) x.sim) :
    OKr env.cfg s0 logOf (lexEmitNonTag env inp c l x o e) := by
  unfold lexEmitNonTag
  dsimp only
  have hl := h.nontag_log ⟨x.prevConsumed, ⟨l.lexemeStart, e⟩, o⟩ x.sink
  split
  · exact ⟨⟨_, rfl, hfd⟩, by simpa [hl] using htr, by simp⟩
  · exact ⟨⟨_, rfl, hfd⟩, by simpa [hl] using htr, by simp⟩

theorem tr_emitText (h : TraceOps env.ops logOf inp) (c : Common) (l : LexRegs) (x : Ctx κ)
    (hfd : l.fd = .none) (htr : Tr env.cfg s0 (logOf x.sink) x.sim) :
    OKr env.cfg s0 logOf (lexEmitText env inp c l x) := by
  unfold lexEmitText
  split
  · exact tr_emitNonTag h _ _ _ _ _ hfd htr
  · exact ⟨⟨_, rfl, hfd⟩, htr, by simp⟩

theorem tr_emitEof (h : TraceOps env.ops logOf inp) (m : M κ)
    (hm : OKr env.cfg s0 logOf (m, none)) : OKr env.cfg s0 logOf (lexEmitEof env inp m) := by
  obtain ⟨c, r, x⟩ := m
  obtain ⟨⟨l, hr, hfd⟩, htr, -⟩ := hm
  simp only at hr htr
  subst hr
  exact tr_emitNonTag h _ _ _ _ _ hfd htr

theorem tr_andThen (r : M κ × Option Signal) (g : M κ → M κ × Option Signal)
    (hr : OKr env.cfg s0 logOf r) (hg : ∀ m, OKr env.cfg s0 logOf (m, none) → OKr env.cfg s0 logOf (g m)) :
    OKr env.cfg s0 logOf (andThen r g) := by
  obtain ⟨m, s⟩ := r
  unfold andThen
  cases s with
  | some sig => exact hr
  | none => exact hg m hr


theorem handleFeedback_err (inp : Bytes) (c : Common) (s1 : Sim) (f : Feedback) (o : TagOutline) (e : Err)
    (h : lexHandleFeedback inp c s1 f o = .error e) : ∃ s ∈ hfPanics, e = .panic s := by
  cases f with
  | switchTextType t => cases h
  | setAllowCdata b => cases h
  | none => cases h
  | requestLexeme k =>
    simp only [lexHandleFeedback] at h
    cases hv : tagViewFor k inp o with
    | none => rw [hv] at h; injection h with h; exact ⟨_, by simp [hfPanics], h.symm⟩
    | some v =>
      rw [hv] at h
      simp only at h
      cases hc : s1.runCallback k v with
      | none => rw [hc] at h; injection h with h; exact ⟨_, by simp [hfPanics], h.symm⟩
      | some r =>
        rw [hc] at h
        obtain ⟨s', f'⟩ := r
        cases f' with
        | requestLexeme k' => injection h with h; exact ⟨_, by simp [hfPanics], h.symm⟩
        | switchTextType t => cases h
        | setAllowCdata b => cases h
        | none => cases h

theorem handleFeedback_ok (inp : Bytes) (c : Common) (s1 : Sim) (f : Feedback) (o : TagOutline)
    (c2 : Common) (s2 : Sim) (h : lexHandleFeedback inp c s1 f o = .ok (c2, s2)) :
    ∃ fb, Sim.finishStep (fullView inp o) (.ok (s1, f)) = .ok (s2, fb) := by
  cases f with
  | switchTextType t => injection h with h; injection h with h1 h2; subst h2; exact ⟨_, rfl⟩
  | setAllowCdata b => injection h with h; injection h with h1 h2; subst h2; exact ⟨_, rfl⟩
  | none => injection h with h; injection h with h1 h2; subst h2; exact ⟨_, rfl⟩
  | requestLexeme k =>
    simp only [lexHandleFeedback] at h
    cases hv : tagViewFor k inp o with
    | none => rw [hv] at h; cases h
    | some v =>
      rw [hv] at h
      simp only at h
      have hview := runCallback_view s1 k inp o v hv
      cases hc : s1.runCallback k v with
      | none => rw [hc] at h; cases h
      | some r =>
        rw [hc] at h
        obtain ⟨s', f'⟩ := r
        refine ⟨f', ?_⟩
        simp only [Sim.finishStep, ← hview, hc]
        cases f' with
        | requestLexeme k' => cases h
        | switchTextType t => injection h with h; injection h with h1 h2; subst h2; rfl
        | setAllowCdata b => injection h with h; injection h with h1 h2; subst h2; rfl
        | none => injection h with h; injection h with h1 h2; subst h2; rfl

theorem fullView_stamp (inp : Bytes) (c : Common) (sim : Sim) (token : TagOutline) :
    fullView inp (lexStampTag c sim token).2 = fullView inp token ∧
    (lexStampTag c sim token).2.nameHash = token.nameHash ∧
    (∀ ns, nsOf (lexStampTag c sim token).2 = some ns → sim.currentNs = ns) := by
  cases token with
  | startTag n h ns as sc =>
    refine ⟨rfl, rfl, ?_⟩
    intro ns' hns
    simp only [lexStampTag, nsOf, Option.some.injEq] at hns
    exact hns
  | endTag n h =>
    refine ⟨rfl, rfl, ?_⟩
    intro ns' hns
    simp [lexStampTag, nsOf] at hns

/-- the feedback the lexer asks for with no pending directive is the one `Sim.stepTag` asks for -/
theorem getFeedback_none (cfg : TagCfg) (sim : Sim) (token : TagOutline) :
    lexGetFeedback cfg sim .none token =
      ((if (fullView inp token).isStart then sim.feedbackForStartTag cfg token.nameHash
        else sim.feedbackForEndTag cfg token.nameHash).map fun r => (r.1, some r.2)) := by
  cases token <;> rfl

theorem tr_emitTagLexeme (h : TraceOps env.ops logOf inp) (c : Common) (l : LexRegs) (x : Ctx κ) (sim : Sim)
    (token : TagOutline) (e : Nat) (hfd : l.fd = .none)
    (htr : Tr env.cfg s0 (logOf x.sink ++ [(inp, ⟨x.prevConsumed, ⟨l.lexemeStart, e⟩, token⟩)]) sim) :
    OKr env.cfg s0 logOf (lexEmitTagLexeme env inp c l x sim token e) := by
  unfold lexEmitTagLexeme
  dsimp only
  have hl := h.tag_log ⟨x.prevConsumed, ⟨l.lexemeStart, e⟩, token⟩ x.sink
  have hlex := h.tag_lex ⟨x.prevConsumed, ⟨l.lexemeStart, e⟩, token⟩ x.sink
  cases hres : (env.ops.handleTag inp ⟨x.prevConsumed, ⟨l.lexemeStart, e⟩, token⟩ x.sink).2 with
  | error e' => exact ⟨⟨_, rfl, hfd⟩, by simpa [hl] using htr, by simp⟩
  | ok d =>
    have := hlex d hres
    subst this
    exact ⟨⟨_, rfl, hfd⟩, by simpa [hl] using htr, by simp⟩

theorem tr_emitTag (h : TraceOps env.ops logOf inp) (c : Common) (l : LexRegs) (x : Ctx κ)
    (hfd : l.fd = .none) (htr : Tr env.cfg s0 (logOf x.sink) x.sim) :
    (∃ s ∈ hfPanics, (lexEmitTag env inp c l x).2 = some (.err (.panic s))) ∨
    OKr env.cfg s0 logOf (lexEmitTag env inp c l x) := by
  unfold lexEmitTag
  cases hct : l.curTag with
  | none => exact .inr ⟨⟨_, rfl, hfd⟩, htr, by simp⟩
  | some token =>
    dsimp only
    rw [hfd, getFeedback_none (inp := inp)]
    cases hfb : (if (fullView inp token).isStart = true then x.sim.feedbackForStartTag env.cfg token.nameHash
        else x.sim.feedbackForEndTag env.cfg token.nameHash) with
    | error e => exact .inr ⟨⟨_, rfl, rfl⟩, htr, by simp [Except.map]⟩
    | ok sf =>
      obtain ⟨s1, f⟩ := sf
      simp only [Except.map]
      cases hhf : lexHandleFeedback inp { c with lastTextType := .data } s1 f token with
      | error e =>
        obtain ⟨s, hs, rfl⟩ := handleFeedback_err _ _ _ _ _ _ hhf
        exact .inl ⟨s, hs, rfl⟩
      | ok cs =>
        obtain ⟨c2, s2⟩ := cs
        right
        simp only
        obtain ⟨fb, hfin⟩ := handleFeedback_ok _ _ _ _ _ _ _ hhf
        obtain ⟨hv, hh, hns⟩ := fullView_stamp inp c2 s2 token
        apply tr_emitTagLexeme h _ _ _ _ _ _ rfl
        refine Tr.snoc htr (fb := fb) ?_ hns
        show Sim.finishStep (fullView inp (lexStampTag c2 s2 token).2)
          (if (fullView inp (lexStampTag c2 s2 token).2).isStart = true
            then x.sim.feedbackForStartTag env.cfg (lexStampTag c2 s2 token).2.nameHash
            else x.sim.feedbackForEndTag env.cfg (lexStampTag c2 s2 token).2.nameHash) = _
        rw [hv, hh, hfb]
        exact hfin


theorem tr_lexAct (h : TraceOps env.ops logOf inp) (a : ActName) (c : Common) (l : LexRegs) (x : Ctx κ)
    (hfd : l.fd = .none) (htr : Tr env.cfg s0 (logOf x.sink) x.sim) :
    (∃ s ∈ hfPanics, (lexAct env a inp c l x).2 = some (.err (.panic s))) ∨
    OKr env.cfg s0 logOf (lexAct env a inp c l x) := by
  cases a <;> simp only [lexAct]
  case emitTag => exact tr_emitTag h c l x hfd htr
  all_goals right
  case emitText => exact tr_emitText h c l x hfd htr
  case emitTextAndEof => exact tr_andThen _ _ (tr_emitText h c l x hfd htr) (fun m hm => tr_emitEof h m hm)
  case emitCurrentToken => exact tr_emitNonTag h _ _ _ _ _ hfd htr
  case emitCurrentTokenAndEof =>
    exact tr_andThen _ _ (tr_emitNonTag h _ _ _ _ _ hfd htr) (fun m hm => tr_emitEof h m hm)
  case emitRawWithoutToken => exact tr_emitNonTag h _ _ _ _ _ hfd htr
  case emitRawWithoutTokenAndEof =>
    exact tr_andThen _ _ (tr_emitNonTag h _ _ _ _ _ hfd htr) (fun m hm => tr_emitEof h m hm)
  all_goals (repeat' split)
  all_goals exact ⟨⟨_, rfl, hfd⟩, htr, by simp⟩

/-- non-sink actions never raise one of the `hfPanics` -/
theorem act_not_hfPanic (a : ActName) (ha : a.callsSink = false) (m : M κ) (s : String) (hs : s ∈ hfPanics) :
    (act env a inp m).2 ≠ some (.err (.panic s)) := by
  obtain ⟨c, r, x⟩ := m
  simp only [hfPanics, List.mem_cons, List.mem_nil_iff, or_false] at hs
  cases r with
  | lexer l =>
    cases a <;> simp only [ActName.callsSink, Bool.true_eq_false] at ha <;> simp only [act, lexAct]
    all_goals (repeat' split)
    all_goals (rcases hs with rfl | rfl | rfl <;> simp)
  | scanner sr =>
    cases a <;> simp only [ActName.callsSink, Bool.true_eq_false] at ha <;> simp only [act, scanAct]
    all_goals (repeat' split)
    all_goals (rcases hs with rfl | rfl | rfl <;> simp)

theorem traceCong_ok (h : TraceOps env.ops logOf inp) :
    (traceCong env.cfg s0 logOf).Ok env env inp where
  tbl := rfl
  stop_err := by
    rintro r ⟨s, -, hr⟩
    exact ⟨_, hr⟩
  good_none := by intro d bm hh; cases hh
  good_panic := by intro s d bm hh; cases hh
  good_eoi := by intro n d bm hh; cases hh
  act := by
    intro a m₁ m₂ hm
    obtain ⟨c, r, x₁, x₂, rfl, rfl, hj, hx⟩ := Cong.MR.cases hm
    obtain ⟨rfl, htr⟩ := hx
    cases r with
    | scanner sr => exact hj.elim
    | lexer l =>
      have hfd : l.fd = .none := hj
      rcases tr_lexAct h a c l x₂ hfd htr with hs | ⟨⟨l', hr, hfd'⟩, htr', hg⟩
      · exact .inl hs
      · refine .inr ⟨⟨rfl, rfl, ?_, rfl, htr'⟩, rfl, hg⟩
        show (traceCong env.cfg s0 logOf).Jr (act env a inp ⟨c, .lexer l, x₂⟩).1.r
        have : (act env a inp ⟨c, .lexer l, x₂⟩).1.r = .lexer l' := hr
        rw [this]
        exact hfd'
  silent := by
    rintro a m₁ ha ⟨s, hs, hr⟩
    exact act_not_hfPanic a ha m₁ s hs hr
  pc := by
    rintro x₁ x₂ n ⟨rfl, htr⟩
    exact ⟨rfl, htr⟩
  jr_enter := by
    intro c r hj
    cases r with
    | lexer l => exact hj
    | scanner _ => exact hj.elim
  jr_leave := by
    intro r hj
    cases r with
    | lexer l => exact hj
    | scanner _ => exact hj.elim
  jr_adjust := by
    intro r hj
    cases r with
    | lexer l => exact hj
    | scanner _ => exact hj.elim
  jr_load_lex := by intro bm l hg; exact absurd rfl (hg _ _)
  jr_load_scan := by intro bm s hg; exact absurd rfl (hg _ _)


/-- **`Parser.parse` in a pure-lexer run keeps the simulator in step with the emitted tag lexemes**
(unless it dies in one of the three debug assertions of `handle_tree_builder_feedback`). -/
theorem parse_trace (h : TraceOps env.ops logOf inp) (ht : EmitsChecked env.tbl = true) (last : Bool)
    (p : Parser κ) (hd : p.directive = .lex) (hfd : p.lexR.fd = .none)
    (htr : Tr env.cfg s0 (logOf p.x.sink) p.x.sim) :
    (∃ s ∈ hfPanics, (Parser.parse env inp last p).2 = .error (.panic s)) ∨
    ((Parser.parse env inp last p).1.directive = .lex ∧ (Parser.parse env inp last p).1.lexR.fd = .none ∧
      Tr env.cfg s0 (logOf (Parser.parse env inp last p).1.x.sink) (Parser.parse env inp last p).1.x.sim) := by
  have hpr : (traceCong env.cfg s0 logOf).PR p p := by
    refine ⟨rfl, rfl, rfl, rfl, rfl, ⟨rfl, htr⟩, ?_⟩
    rw [hd]; exact hfd
  rcases Cong.parse_cong (traceCong_ok h) ht last p p hpr with ⟨m, e, ⟨s, hs, hsig⟩, -, hres⟩ | ⟨hp, -, -⟩
  · left
    simp only [Option.some.injEq, Signal.err.injEq] at hsig
    subst hsig
    exact ⟨s, hs, hres⟩
  · right
    obtain ⟨-, -, -, -, -, ⟨-, htr'⟩, hj⟩ := hp
    cases hd' : (Parser.parse env inp last p).1.directive with
    | scan => rw [hd'] at hj; exact hj.elim
    | lex => rw [hd'] at hj; exact ⟨rfl, hj, htr'⟩

end

/-! ### from the invariant to `Sim.run` -/

theorem lastState_cons (s0 : Sim) (p : Sim × Feedback) (tr : List (Sim × Feedback)) :
    lastState s0 (p :: tr) = lastState p.1 tr := by
  unfold lastState
  cases tr with
  | nil => rfl
  | cons q tr =>
    rw [List.getLast?_cons_cons]
    cases hl : (q :: tr).getLast? with
    | none => simp at hl
    | some y => rfl

theorem lastState_snoc (s0 : Sim) (tr : List (Sim × Feedback)) (p : Sim × Feedback) :
    lastState s0 (tr ++ [p]) = p.1 := by
  simp [lastState]

theorem run_snoc (cfg : TagCfg) (evs : List TagEvent) : ∀ (s0 : Sim) (tr : List (Sim × Feedback)) (s : Sim)
    (ev : TagEvent) (s' : Sim) (fb : Feedback), Sim.run cfg s0 evs = (tr, none) → lastState s0 tr = s →
    s.stepTag cfg ev = .ok (s', fb) → Sim.run cfg s0 (evs ++ [ev]) = (tr ++ [(s', fb)], none) := by
  induction evs with
  | nil =>
    intro s0 tr s ev s' fb hr hl hs
    simp only [Sim.run, Prod.mk.injEq] at hr
    obtain ⟨rfl, -⟩ := hr
    simp only [lastState, List.getLast?_nil, Option.map_none, Option.getD_none] at hl
    subst hl
    simp [Sim.run, hs]
  | cons e es ih =>
    intro s0 tr s ev s' fb hr hl hs
    simp only [Sim.run, List.cons_append] at hr ⊢
    cases hst : s0.stepTag cfg e with
    | error err => rw [hst] at hr; simp at hr
    | ok r =>
      obtain ⟨s1, f1⟩ := r
      rw [hst] at hr
      simp only [Prod.mk.injEq] at hr
      obtain ⟨rfl, hr2⟩ := hr
      have hrun : Sim.run cfg s1 es = ((Sim.run cfg s1 es).1, none) := by rw [← hr2]
      rw [lastState_cons] at hl
      have := ih s1 _ s ev s' fb hrun hl hs
      simp only [this]
      rfl

/-- What `Tr` says in terms of `Sim.run` (Model/TreeSimRun.lean). -/
theorem Tr.run {cfg : TagCfg} {s0 s : Sim} {log : List (Bytes × TagLexeme)} (h : Tr cfg s0 log s) :
    ∃ tr, Sim.run cfg s0 (log.map tagEventOf) = (tr, none) ∧ lastState s0 tr = s ∧
      tr.length = log.length ∧
      ∀ q ∈ log.zip tr, ∀ ns, nsOf q.1.2.outline = some ns → q.2.1.currentNs = ns := by
  induction h with
  | nil => exact ⟨[], rfl, rfl, rfl, by simp⟩
  | @snoc log s s' fb rec _ hstep hns ih =>
    obtain ⟨tr, hrun, hlast, hlen, hz⟩ := ih
    refine ⟨tr ++ [(s', fb)], ?_, lastState_snoc _ _ _, by simp [hlen], ?_⟩
    · rw [List.map_append]
      exact run_snoc cfg _ s0 tr s _ s' fb hrun hlast hstep
    · intro q hq ns hqn
      rw [List.zip_append hlen.symm] at hq
      rcases List.mem_append.mp hq with hq | hq
      · exact hz q hq ns hqn
      · simp only [List.zip_cons_cons, List.zip_nil_right, List.mem_singleton] at hq
        subst hq
        exact hns ns hqn

end LolHtml.Model
