/-
Lemmas.SelTrie — what `Ast::add_selector` registers in the trie, the node count, the bridge from trie
paths to the addresses of the compiled program, and selectors against predicate paths.
-/
import LolHtml.Lemmas.SelCompile

set_option linter.unusedSimpArgs false
namespace LolHtml.SelVM
open LolHtml LolHtml.Sel LolHtml.Spec.Css

/-! ## the trie -/

/-- the branch list a combinator continues in -/
def AstNode.next (n : AstNode) : Comb → List AstNode
  | .child => n.children
  | .descendant => n.descendants

/-- id `i` is registered in the trie `B` at the forward path `(path, last)` -/
def HasF : List AstNode → List (Predicate × Comb) → Predicate → Nat → Prop
  | B, [], last, i => ∃ n ∈ B, n.predicate = last ∧ i ∈ n.matchIds
  | B, (p, c) :: rest, last, i => ∃ n ∈ B, n.predicate = p ∧ HasF (n.next c) rest last i

theorem hostExpressions_spec (p : Predicate) : ∀ (B : List AstNode),
    (hostExpressions p B).2.1.predicate = p ∧
    ((hostExpressions p B).2.2.2 = true →
      (hostExpressions p B).1 = B ∧ (hostExpressions p B).2.1 = AstNode.new p ∧ (hostExpressions p B).2.2.1 = []) ∧
    ((hostExpressions p B).2.2.2 = false →
      B = (hostExpressions p B).1 ++ (hostExpressions p B).2.1 :: (hostExpressions p B).2.2.1) := by
  intro B
  induction B with
  | nil => simp [hostExpressions, AstNode.new, AstNode.predicate]
  | cons n rest ih =>
    unfold hostExpressions
    by_cases h : n.predicate = p
    · simp [h]
    · have h' : (n.predicate == p) = false := by simp [h]
      simp only [h', Bool.false_eq_true, if_false]
      obtain ⟨h1, h2, h3⟩ := ih
      refine ⟨h1, ?_, ?_⟩
      · intro hn
        obtain ⟨a, b, c⟩ := h2 hn
        exact ⟨by rw [a], b, c⟩
      · intro hn
        have := h3 hn
        simp only [List.cons_append]
        rw [← this]

/-- `∃ n ∈ B` in terms of the split `host_expressions` returns, with the hosting node replaced by `n'` -/
theorem exists_mem_host (p : Predicate) (B : List AstNode) (Q : AstNode → Prop) (n' : AstNode) :
    (∃ n ∈ (hostExpressions p B).1 ++ [n'] ++ (hostExpressions p B).2.2.1, Q n) ↔
      (∃ n ∈ (hostExpressions p B).1 ++ (hostExpressions p B).2.2.1, Q n) ∨ Q n' := by
  simp only [List.mem_append, List.mem_singleton]
  constructor
  · rintro ⟨n, (h | h) | h, hq⟩
    · exact Or.inl ⟨n, Or.inl h, hq⟩
    · subst h; exact Or.inr hq
    · exact Or.inl ⟨n, Or.inr h, hq⟩
  · rintro (⟨n, h | h, hq⟩ | hq)
    · exact ⟨n, Or.inl (Or.inl h), hq⟩
    · exact ⟨n, Or.inr h, hq⟩
    · exact ⟨n', Or.inl (Or.inr rfl), hq⟩

theorem exists_mem_orig (p : Predicate) (B : List AstNode) (Q : AstNode → Prop)
    (hnew : Q (AstNode.new p) → False) :
    (∃ n ∈ B, Q n) ↔
      (∃ n ∈ (hostExpressions p B).1 ++ (hostExpressions p B).2.2.1, Q n) ∨ Q (hostExpressions p B).2.1 := by
  obtain ⟨_, h2, h3⟩ := hostExpressions_spec p B
  cases hb : (hostExpressions p B).2.2.2 with
  | true =>
    obtain ⟨a, b, c⟩ := h2 hb
    rw [a, b, c]
    simp only [List.append_nil]
    constructor
    · intro h; exact Or.inl h
    · rintro (h | h)
      · exact h
      · exact (hnew h).elim
  | false =>
    have := h3 hb
    conv => lhs; rw [this]
    simp only [List.mem_append, List.mem_cons]
    constructor
    · rintro ⟨n, h | h | h, hq⟩
      · exact Or.inl ⟨n, Or.inl h, hq⟩
      · subst h; exact Or.inr hq
      · exact Or.inl ⟨n, Or.inr h, hq⟩
    · rintro (⟨n, h | h, hq⟩ | hq)
      · exact ⟨n, Or.inl h, hq⟩
      · exact ⟨n, Or.inr (Or.inr h), hq⟩
      · exact ⟨_, Or.inr (Or.inl rfl), hq⟩

theorem hasF_nil_block (path : List (Predicate × Comb)) (last : Predicate) (i : Nat) : ¬ HasF [] path last i := by
  cases path with
  | nil => simp [HasF]
  | cons x rest => obtain ⟨p, c⟩ := x; simp [HasF]

/-- Inserting a path registers the id at exactly that path and changes nothing else. -/
theorem hasF_insertPath : ∀ (path : List (Predicate × Comb)) (B : List AstNode) (cnt : Nat) (last : Predicate)
    (id : Nat) (path' : List (Predicate × Comb)) (last' : Predicate) (i : Nat),
    HasF (insertPath B cnt path last id).1 path' last' i ↔
      HasF B path' last' i ∨ (path' = path ∧ last' = last ∧ i = id) := by
  intro path
  induction path with
  | nil =>
    intro B cnt last id path' last' i
    obtain ⟨hp, _, _⟩ := hostExpressions_spec last B
    unfold insertPath
    cases hn : (hostExpressions last B).2.1 with
    | mk np ch de ids =>
      have hnp : np = last := by rw [hn] at hp; exact hp
      simp only [hn]
      cases path' with
      | nil =>
        simp only [HasF]
        rw [exists_mem_host, exists_mem_orig last B (fun n => n.predicate = last' ∧ i ∈ n.matchIds)
          (by simp [AstNode.new, AstNode.matchIds]), hn]
        simp only [AstNode.predicate, AstNode.matchIds, DenseHashSet.mem_insert, hnp]
        constructor
        · rintro (h | ⟨h1, h2 | h2⟩)
          · exact Or.inl (Or.inl h)
          · exact Or.inr ⟨trivial, h1.symm, h2⟩
          · exact Or.inl (Or.inr ⟨h1, h2⟩)
        · rintro ((h | ⟨h1, h2⟩) | ⟨_, h1, h2⟩)
          · exact Or.inl h
          · exact Or.inr ⟨h1, Or.inr h2⟩
          · exact Or.inr ⟨h1.symm, Or.inl h2⟩
      | cons x rest' =>
        obtain ⟨q, c'⟩ := x
        simp only [HasF]
        rw [exists_mem_host, exists_mem_orig last B (fun n => n.predicate = q ∧ HasF (n.next c') rest' last' i)
          (by
            rintro ⟨_, h⟩
            cases c' <;> exact hasF_nil_block _ _ _ h), hn]
        have : ∀ c', (AstNode.mk np ch de (DenseHashSet.insert ids id)).next c' = (AstNode.mk np ch de ids).next c' := by
          intro c'; cases c' <;> rfl
        simp [this, AstNode.predicate]
  | cons x rest ih =>
    obtain ⟨p, c⟩ := x
    intro B cnt last id path' last' i
    obtain ⟨hp, _, _⟩ := hostExpressions_spec p B
    unfold insertPath
    cases hn : (hostExpressions p B).2.1 with
    | mk np ch de ids =>
      have hnp : np = p := by rw [hn] at hp; exact hp
      simp only [hn]
      cases c with
      | child =>
        simp only
        cases path' with
        | nil =>
          simp only [HasF]
          rw [exists_mem_host, exists_mem_orig p B (fun n => n.predicate = last' ∧ i ∈ n.matchIds)
            (by simp [AstNode.new, AstNode.matchIds]), hn]
          simp [AstNode.predicate, AstNode.matchIds]
        | cons y rest' =>
          obtain ⟨q, c'⟩ := y
          simp only [HasF]
          rw [exists_mem_host, exists_mem_orig p B (fun n => n.predicate = q ∧ HasF (n.next c') rest' last' i)
            (by
              rintro ⟨_, h⟩
              cases c' <;> exact hasF_nil_block _ _ _ h), hn]
          cases c' with
          | child =>
            simp only [AstNode.next, AstNode.children, AstNode.predicate, ih, hnp]
            constructor
            · rintro (h | ⟨h1, h2 | ⟨h2, h3, h4⟩⟩)
              · exact Or.inl (Or.inl h)
              · exact Or.inl (Or.inr ⟨h1, h2⟩)
              · exact Or.inr ⟨by rw [h1, h2], h3, h4⟩
            · rintro ((h | ⟨h1, h2⟩) | ⟨h1, h3, h4⟩)
              · exact Or.inl h
              · exact Or.inr ⟨h1, Or.inl h2⟩
              · simp only [List.cons.injEq, Prod.mk.injEq] at h1
                exact Or.inr ⟨h1.1.1.symm, Or.inr ⟨h1.2, h3, h4⟩⟩
          | descendant =>
            simp only [AstNode.next, AstNode.descendants, AstNode.predicate]
            constructor
            · rintro (h | h)
              · exact Or.inl (Or.inl h)
              · exact Or.inl (Or.inr h)
            · rintro ((h | h) | ⟨h1, _, _⟩)
              · exact Or.inl h
              · exact Or.inr h
              · simp at h1
      | descendant =>
        simp only
        cases path' with
        | nil =>
          simp only [HasF]
          rw [exists_mem_host, exists_mem_orig p B (fun n => n.predicate = last' ∧ i ∈ n.matchIds)
            (by simp [AstNode.new, AstNode.matchIds]), hn]
          simp [AstNode.predicate, AstNode.matchIds]
        | cons y rest' =>
          obtain ⟨q, c'⟩ := y
          simp only [HasF]
          rw [exists_mem_host, exists_mem_orig p B (fun n => n.predicate = q ∧ HasF (n.next c') rest' last' i)
            (by
              rintro ⟨_, h⟩
              cases c' <;> exact hasF_nil_block _ _ _ h), hn]
          cases c' with
          | descendant =>
            simp only [AstNode.next, AstNode.descendants, AstNode.predicate, ih, hnp]
            constructor
            · rintro (h | ⟨h1, h2 | ⟨h2, h3, h4⟩⟩)
              · exact Or.inl (Or.inl h)
              · exact Or.inl (Or.inr ⟨h1, h2⟩)
              · exact Or.inr ⟨by rw [h1, h2], h3, h4⟩
            · rintro ((h | ⟨h1, h2⟩) | ⟨h1, h3, h4⟩)
              · exact Or.inl h
              · exact Or.inr ⟨h1, Or.inl h2⟩
              · simp only [List.cons.injEq, Prod.mk.injEq] at h1
                exact Or.inr ⟨h1.1.1.symm, Or.inr ⟨h1.2, h3, h4⟩⟩
          | child =>
            simp only [AstNode.next, AstNode.children, AstNode.predicate]
            constructor
            · rintro (h | h)
              · exact Or.inl (Or.inl h)
              · exact Or.inl (Or.inr h)
            · rintro ((h | h) | ⟨h1, _, _⟩)
              · exact Or.inl h
              · exact Or.inr h
              · simp at h1

theorem hasF_addSelector (id : Nat) (π : List (Predicate × Comb)) (l : Predicate) (i : Nat) :
    ∀ (sel : SelList) (ast : Ast),
    HasF (ast.addSelector sel id).root π l i ↔
      HasF ast.root π l i ∨ (i = id ∧ ∃ cx ∈ sel, complexToPath cx = (π, l)) := by
  intro sel
  induction sel with
  | nil => intro ast; simp [Ast.addSelector]
  | cons cx rest ih =>
    intro ast
    unfold Ast.addSelector at ih ⊢
    simp only [List.foldl_cons]
    rw [ih]
    simp only [hasF_insertPath, List.mem_cons, exists_eq_or_imp]
    constructor
    · rintro ((h | ⟨h1, h2, h3⟩) | ⟨h1, h2⟩)
      · exact Or.inl h
      · exact Or.inr ⟨h3, Or.inl (by rw [h1, h2])⟩
      · exact Or.inr ⟨h1, Or.inr h2⟩
    · rintro (h | ⟨h1, h2 | h2⟩)
      · exact Or.inl (Or.inl h)
      · exact Or.inl (Or.inr ⟨by rw [h2], by rw [h2], h1⟩)
      · exact Or.inr ⟨h1, h2⟩

theorem hasF_foldl_selectors (π : List (Predicate × Comb)) (l : Predicate) (i : Nat) :
    ∀ (sels : List SelList) (ast : Ast) (k : Nat),
    HasF (sels.foldl (fun (acc : Ast × Nat) s => (acc.1.addSelector s acc.2, acc.2 + 1)) (ast, k)).1.root π l i ↔
      HasF ast.root π l i ∨ ∃ j sl, sels[j]? = some sl ∧ i = k + j ∧ ∃ cx ∈ sl, complexToPath cx = (π, l) := by
  intro sels
  induction sels with
  | nil => intro ast k; simp
  | cons s rest ih =>
    intro ast k
    simp only [List.foldl_cons]
    rw [ih, hasF_addSelector]
    constructor
    · rintro ((h | ⟨h1, h2⟩) | ⟨j, sl, h1, h2, h3⟩)
      · exact Or.inl h
      · exact Or.inr ⟨0, s, by simp, by omega, h2⟩
      · exact Or.inr ⟨j + 1, sl, by simpa using h1, by omega, h3⟩
    · rintro (h | ⟨j, sl, h1, h2, h3⟩)
      · exact Or.inl (Or.inl h)
      · cases j with
        | zero =>
          simp at h1; subst h1
          exact Or.inl (Or.inr ⟨by omega, h3⟩)
        | succ j => exact Or.inr ⟨j, sl, by simpa using h1, by omega, h3⟩

/-- What the trie built from the registered selectors contains. -/
theorem hasF_ofSelectors (sels : List SelList) (π : List (Predicate × Comb)) (l : Predicate) (i : Nat) :
    HasF (Ast.ofSelectors sels).root π l i ↔
      ∃ sl, sels[i]? = some sl ∧ ∃ cx ∈ sl, complexToPath cx = (π, l) := by
  unfold Ast.ofSelectors
  rw [hasF_foldl_selectors]
  constructor
  · rintro (h | ⟨j, sl, h1, h2, h3⟩)
    · exact (hasF_nil_block _ _ _ h).elim
    · simp at h2; subst h2; exact ⟨sl, h1, h3⟩
  · rintro ⟨sl, h1, h3⟩
    exact Or.inr ⟨i, sl, h1, by simp, h3⟩

/-! ### `cumulative_node_count` is the number of nodes -/

theorem listSize_append (a b : List AstNode) : listSize (a ++ b) = listSize a + listSize b := by
  induction a with
  | nil => simp [listSize]
  | cons n rest ih => simp [listSize, ih]; omega

theorem listSize_host (p : Predicate) (B : List AstNode) (n' : AstNode) :
    listSize ((hostExpressions p B).1 ++ [n'] ++ (hostExpressions p B).2.2.1) + nodeSub (hostExpressions p B).2.1 +
      (if (hostExpressions p B).2.2.2 = true then 0 else 1) = listSize B + nodeSub n' + 1 := by
  obtain ⟨_, h2, h3⟩ := hostExpressions_spec p B
  cases hb : (hostExpressions p B).2.2.2 with
  | true =>
    obtain ⟨a, b, c⟩ := h2 hb
    rw [a, b, c]
    simp [listSize_append, listSize, AstNode.new, nodeSub]; omega
  | false =>
    have := h3 hb
    conv => rhs; rw [this]
    simp [listSize_append, listSize]; omega

theorem insertPath_count : ∀ (path : List (Predicate × Comb)) (B : List AstNode) (cnt : Nat) (last : Predicate) (id : Nat),
    (insertPath B cnt path last id).2 + listSize B = cnt + listSize (insertPath B cnt path last id).1 := by
  intro path
  induction path with
  | nil =>
    intro B cnt last id
    unfold insertPath
    cases hn : (hostExpressions last B).2.1 with
    | mk np ch de ids =>
      simp only [hn]
      have := listSize_host last B (.mk np ch de (DenseHashSet.insert ids id))
      rw [hn] at this
      simp only [nodeSub] at this
      cases hb : (hostExpressions last B).2.2.2 with
      | true => rw [hb] at this; simp only [if_true] at this ⊢; omega
      | false => rw [hb] at this; simp only [Bool.false_eq_true, if_false] at this ⊢; omega
  | cons x rest ih =>
    obtain ⟨p, c⟩ := x
    intro B cnt last id
    unfold insertPath
    cases hn : (hostExpressions p B).2.1 with
    | mk np ch de ids =>
      simp only [hn]
      cases c with
      | child =>
        simp only
        cases hb : (hostExpressions p B).2.2.2 with
        | true =>
          simp only [if_true]
          have h1 := ih ch (cnt + 1) last id
          have := listSize_host p B (.mk np (insertPath ch (cnt + 1) rest last id).1 de ids)
          rw [hn, hb] at this
          simp only [nodeSub, if_true] at this
          omega
        | false =>
          simp only [Bool.false_eq_true, if_false]
          have h1 := ih ch cnt last id
          have := listSize_host p B (.mk np (insertPath ch cnt rest last id).1 de ids)
          rw [hn, hb] at this
          simp only [nodeSub, Bool.false_eq_true, if_false] at this
          omega
      | descendant =>
        simp only
        cases hb : (hostExpressions p B).2.2.2 with
        | true =>
          simp only [if_true]
          have h1 := ih de (cnt + 1) last id
          have := listSize_host p B (.mk np ch (insertPath de (cnt + 1) rest last id).1 ids)
          rw [hn, hb] at this
          simp only [nodeSub, if_true] at this
          omega
        | false =>
          simp only [Bool.false_eq_true, if_false]
          have h1 := ih de cnt last id
          have := listSize_host p B (.mk np ch (insertPath de cnt rest last id).1 ids)
          rw [hn, hb] at this
          simp only [nodeSub, Bool.false_eq_true, if_false] at this
          omega

theorem addSelector_count (id : Nat) : ∀ (sel : SelList) (ast : Ast), ast.cumulativeNodeCount = listSize ast.root →
    (ast.addSelector sel id).cumulativeNodeCount = listSize (ast.addSelector sel id).root := by
  intro sel
  induction sel with
  | nil => intro ast h; simpa [Ast.addSelector] using h
  | cons cx rest ih =>
    intro ast h
    unfold Ast.addSelector at ih ⊢
    simp only [List.foldl_cons]
    apply ih
    simp only
    have := insertPath_count (complexToPath cx).1 ast.root ast.cumulativeNodeCount (complexToPath cx).2 id
    omega

theorem ofSelectors_count (sels : List SelList) :
    (Ast.ofSelectors sels).cumulativeNodeCount = listSize (Ast.ofSelectors sels).root := by
  unfold Ast.ofSelectors
  have : ∀ (sels : List SelList) (ast : Ast) (k : Nat), ast.cumulativeNodeCount = listSize ast.root →
      (sels.foldl (fun (acc : Ast × Nat) s => (acc.1.addSelector s acc.2, acc.2 + 1)) (ast, k)).1.cumulativeNodeCount =
        listSize (sels.foldl (fun (acc : Ast × Nat) s => (acc.1.addSelector s acc.2, acc.2 + 1)) (ast, k)).1.root := by
    intro sels
    induction sels with
    | nil => intro ast k h; simpa using h
    | cons s rest ih =>
      intro ast k h
      simp only [List.foldl_cons]
      exact ih _ _ (addSelector_count k s ast h)
  exact this sels {} 0 (by simp [listSize])

/-! ## from trie paths to addresses and back -/

/-- a forward path, reversed (innermost step first) -/
def revPath (path : List (Predicate × Comb)) : List (Comb × Predicate) :=
  (path.map fun x => (x.2, x.1)).reverse

/-- a reversed path, forward -/
def fwdPath (σ : List (Comb × Predicate)) : List (Predicate × Comb) :=
  (σ.map fun x => (x.2, x.1)).reverse

theorem fwdPath_revPath (path : List (Predicate × Comb)) : fwdPath (revPath path) = path := by
  simp [fwdPath, revPath, List.map_reverse, Function.comp_def]

theorem revPath_fwdPath (σ : List (Comb × Predicate)) : revPath (fwdPath σ) = σ := by
  simp [fwdPath, revPath, List.map_reverse, Function.comp_def]

theorem hasF_mono {B B' : List AstNode} (h : ∀ n ∈ B, n ∈ B') (π l i) : HasF B π l i → HasF B' π l i := by
  cases π with
  | nil => rintro ⟨n, hn, hq⟩; exact ⟨n, h n hn, hq⟩
  | cons x rest => obtain ⟨p, c⟩ := x; rintro ⟨n, hn, hq⟩; exact ⟨n, h n hn, hq⟩

section Bridge
variable {instrs : List Instruction} {root : List AstNode} {es : Nat}

theorem hasF_to_at (hroot : ListCompiled instrs root es) : ∀ (path : List (Predicate × Comb)) (B : List AstNode)
    (σ : List (Comb × Predicate)) (s : Nat),
    (∀ k n, B[k]? = some n → At instrs root es σ n (s + k)) → ∀ last i, HasF B path last i →
    ∃ n a, At instrs root es (revPath path ++ σ) n a ∧ n.predicate = last ∧ i ∈ n.matchIds := by
  intro path
  induction path with
  | nil =>
    intro B σ s hB last i h
    obtain ⟨n, hn, hp, hi⟩ := h
    obtain ⟨k, hk⟩ := List.getElem?_of_mem hn
    exact ⟨n, s + k, by simpa [revPath] using hB k n hk, hp, hi⟩
  | cons x rest ih =>
    obtain ⟨p, c⟩ := x
    intro B σ s hB last i h
    obtain ⟨n, hn, hp, hrest⟩ := h
    obtain ⟨k, hk⟩ := List.getElem?_of_mem hn
    have hat := hB k n hk
    have hcomp := hat.compiled hroot
    obtain ⟨j, hj, hi0⟩ := hcomp.instr
    have hσ : revPath ((p, c) :: rest) ++ σ = revPath rest ++ (c, p) :: σ := by
      simp [revPath]
    rw [hσ]
    cases c with
    | child =>
      rcases hcomp.children hi0 with ⟨hnil, _⟩ | ⟨_, s', hs', _⟩
      · simp only [AstNode.next, hnil] at hrest; exact (hasF_nil_block _ _ _ hrest).elim
      · apply ih n.children ((.child, p) :: σ) s' _ last i hrest
        intro k' n' hk'
        have := At.child σ n (s + k) _ ⟨s', s' + n.children.length⟩ k' n' hat hi0 hs' hk'
        rw [hp] at this; exact this
    | descendant =>
      rcases hcomp.descendants hi0 with ⟨hnil, _⟩ | ⟨_, s', hs', _⟩
      · simp only [AstNode.next, hnil] at hrest; exact (hasF_nil_block _ _ _ hrest).elim
      · apply ih n.descendants ((.descendant, p) :: σ) s' _ last i hrest
        intro k' n' hk'
        have := At.desc σ n (s + k) _ ⟨s', s' + n.descendants.length⟩ k' n' hat hi0 hs' hk'
        rw [hp] at this; exact this

theorem at_to_hasF : ∀ {σ n a}, At instrs root es σ n a → ∀ path last i, HasF [n] path last i →
    HasF root (fwdPath σ ++ path) last i := by
  intro σ n a h
  induction h with
  | root k n hk =>
    intro path last i h
    simp only [fwdPath, List.map_nil, List.reverse_nil, List.nil_append]
    exact hasF_mono (by intro x hx; simp at hx; subst hx; exact List.mem_of_getElem? hk) _ _ _ h
  | child σ m am i0 r k n _ _ _ hk ih =>
    intro path last i h
    have h1 : HasF m.children path last i :=
      hasF_mono (by intro x hx; simp at hx; subst hx; exact List.mem_of_getElem? hk) _ _ _ h
    have h2 : HasF [m] ((m.predicate, .child) :: path) last i := ⟨m, by simp, rfl, h1⟩
    have := ih _ last i h2
    simpa [fwdPath] using this
  | desc σ m am i0 r k n _ _ _ hk ih =>
    intro path last i h
    have h1 : HasF m.descendants path last i :=
      hasF_mono (by intro x hx; simp at hx; subst hx; exact List.mem_of_getElem? hk) _ _ _ h
    have h2 : HasF [m] ((m.predicate, .descendant) :: path) last i := ⟨m, by simp, rfl, h1⟩
    have := ih _ last i h2
    simpa [fwdPath] using this

/-- the nodes the program reaches by a path carry exactly the ids the trie has at that path -/
theorem at_iff_hasF (hroot : ListCompiled instrs root es) (σ : List (Comb × Predicate)) (last : Predicate) (i : Nat) :
    (∃ n a, At instrs root es σ n a ∧ n.predicate = last ∧ i ∈ n.matchIds) ↔
      HasF root (fwdPath σ) last i := by
  constructor
  · rintro ⟨n, a, hat, hp, hi⟩
    have := at_to_hasF hat [] last i ⟨n, by simp, hp, hi⟩
    simpa using this
  · intro h
    have := hasF_to_at hroot (fwdPath σ) root [] es (fun k n hk => At.root k n hk) last i h
    simpa [revPath_fwdPath] using this
end Bridge

/-! ## complex selectors against predicate paths -/

def complexOk (cx : Complex) : Bool := compoundOk cx.head && cx.tail.all fun x => compoundOk x.2

/-- every `:not()` argument in the selector set is a single plain simple selector -/
def selsOk (sels : List SelList) : Bool := sels.all fun sl => sl.all complexOk

def predOfStep (x : Comb × Compound) : Comb × Predicate := (x.1, Predicate.ofCompound x.2)

theorem pathOfTail_revTail : ∀ (tail : List (Comb × Compound)) (cur : Compound) (acc : List (Comb × Compound)),
    (revPath (pathOfTail (Predicate.ofCompound cur) tail).1 ++ acc.map predOfStep,
      (pathOfTail (Predicate.ofCompound cur) tail).2) =
    ((revTail cur acc tail).2.map predOfStep, Predicate.ofCompound (revTail cur acc tail).1) := by
  intro tail
  induction tail with
  | nil => intro cur acc; simp [pathOfTail, revTail, revPath]
  | cons x rest ih =>
    obtain ⟨k, cp⟩ := x
    intro cur acc
    simp only [pathOfTail, revTail]
    rw [← ih cp ((k, cur) :: acc)]
    simp [revPath, predOfStep]

theorem revTail_ok : ∀ (tail : List (Comb × Compound)) (cur : Compound) (acc : List (Comb × Compound)),
    compoundOk cur = true → (acc.all fun x => compoundOk x.2) = true → (tail.all fun x => compoundOk x.2) = true →
    compoundOk (revTail cur acc tail).1 = true ∧ ((revTail cur acc tail).2.all fun x => compoundOk x.2) = true := by
  intro tail
  induction tail with
  | nil => intro cur acc h1 h2 _; exact ⟨h1, h2⟩
  | cons x rest ih =>
    obtain ⟨k, cp⟩ := x
    intro cur acc h1 h2 h3
    simp only [List.all_cons, Bool.and_eq_true] at h3
    simp only [revTail]
    exact ih cp ((k, cur) :: acc) h3.1 (by simp [h1, h2]) h3.2

theorem anyAncestor_congr {f g : Elem → List Elem → Bool} (h : ∀ e anc, f e anc = g e anc) (anc : List Elem) :
    anyAncestor f anc = anyAncestor g anc := by
  induction anc with
  | nil => rfl
  | cons p anc ih => simp [anyAncestor, h, ih]

theorem matchesRev_eq_pred : ∀ (σc : List (Comb × Compound)) (c : Compound) (e : Elem) (anc : List Elem),
    compoundOk c = true → (σc.all fun x => compoundOk x.2) = true →
    matchesRev codeLeaf σc c e anc = predMatchesRev (σc.map predOfStep) (Predicate.ofCompound c) e anc := by
  intro σc
  induction σc with
  | nil => intro c e anc hc _; simp [matchesRev, predMatchesRev, predB_ofCompound c hc]
  | cons x rest ih =>
    obtain ⟨k, c'⟩ := x
    intro c e anc hc hσ
    simp only [List.all_cons, Bool.and_eq_true] at hσ
    simp only [matchesRev, List.map_cons, predOfStep, predMatchesRev, predB_ofCompound c hc]
    congr 1
    cases k with
    | child =>
      cases anc with
      | nil => rfl
      | cons q anc' => exact ih c' q anc' hσ.1 hσ.2
    | descendant =>
      exact anyAncestor_congr (fun q anc' => ih c' q anc' hσ.1 hσ.2) anc

/-- CSS matching of a complex selector (leaves as coded) = predicate-level matching of its trie path. -/
theorem matchesComplex_eq_pred (cx : Complex) (hok : complexOk cx = true) (e : Elem) (anc : List Elem) :
    matchesComplex codeLeaf cx e anc =
      predMatchesRev (revPath (complexToPath cx).1) (complexToPath cx).2 e anc := by
  unfold complexOk at hok
  simp only [Bool.and_eq_true] at hok
  unfold matchesComplex complexToPath
  have h := pathOfTail_revTail cx.tail cx.head []
  simp only [List.map_nil, List.append_nil, Prod.mk.injEq] at h
  obtain ⟨ok1, ok2⟩ := revTail_ok cx.tail cx.head [] hok.1 (by simp) hok.2
  rw [h.1, h.2]
  exact matchesRev_eq_pred _ _ e anc ok1 ok2

/-! ## assembly -/

theorem mem_matchingIds (L : Leaf) (sels : List SelList) (e : Elem) (anc : List Elem) (i : Nat) :
    i ∈ matchingIds L sels e anc ↔
      ∃ sl, sels[i]? = some sl ∧ ∃ cx ∈ sl, matchesComplex L cx e anc = true := by
  unfold matchingIds
  simp only [List.mem_filter, List.mem_range]
  constructor
  · rintro ⟨hlt, h⟩
    cases hs : sels[i]? with
    | none => simp [hs] at h
    | some sl =>
      simp only [hs, «matches», List.any_eq_true] at h
      exact ⟨sl, rfl, h⟩
  · rintro ⟨sl, hs, cx, hcx, hm⟩
    refine ⟨(List.getElem?_eq_some_iff.mp hs).1, ?_⟩
    simp only [hs, «matches», List.any_eq_true]
    exact ⟨cx, hcx, hm⟩

theorem matchingIds_sorted (L : Leaf) (sels : List SelList) (e : Elem) (anc : List Elem) :
    (matchingIds L sels e anc).Pairwise (· < ·) := by
  unfold matchingIds
  exact List.Pairwise.sublist List.filter_sublist List.pairwise_lt_range

theorem selsOk_complex {sels : List SelList} (hok : selsOk sels = true) {i : Nat} {sl : SelList}
    (hs : sels[i]? = some sl) {cx : Complex} (hcx : cx ∈ sl) : complexOk cx = true := by
  unfold selsOk at hok
  simp only [List.all_eq_true] at hok
  exact hok sl (List.mem_of_getElem? hs) cx hcx

/-- On the program compiled from the registered selectors, the ids of the instructions activated at
    an element are the selectors that match it (leaves as coded), provided every `:not()` argument is a
    single plain simple selector. -/
theorem denotation_eq_css (sels : List SelList) (hok : selsOk sels = true) (e : Elem) (anc : List Elem) (i : Nat) :
    i ∈ matchingIds codeLeaf sels e anc ↔
      ∃ a b, Act (compile (Ast.ofSelectors sels)) (compile (Ast.ofSelectors sels)).enableNthOfType e anc a b ∧
        i ∈ b.matchedIds := by
  obtain ⟨hroot, hentry, hnth⟩ := compile_layout (Ast.ofSelectors sels) (ofSelectors_count sels)
  rw [mem_matchingIds]
  constructor
  · rintro ⟨sl, hs, cx, hcx, hm⟩
    rw [matchesComplex_eq_pred cx (selsOk_complex hok hs hcx)] at hm
    have hh : HasF (Ast.ofSelectors sels).root (fwdPath (revPath (complexToPath cx).1)) (complexToPath cx).2 i := by
      rw [fwdPath_revPath, hasF_ofSelectors]
      exact ⟨sl, hs, cx, hcx, rfl⟩
    obtain ⟨n, a, hat, hp, hi⟩ := (at_iff_hasF hroot _ _ _).mpr hh
    obtain ⟨j, hj, hinstr⟩ := (hat.compiled hroot).instr
    refine ⟨a, _, (act_iff _ _ _ hroot hentry hnth e anc a _).mpr ⟨_, n, hat, by rw [hp]; exact hm, _, hinstr, rfl⟩, ?_⟩
    simpa [compilePredicate] using hi
  · rintro ⟨a, b, hact, hi⟩
    obtain ⟨σ, n, hat, hp, i0, hinstr, hb⟩ := (act_iff _ _ _ hroot hentry hnth e anc a b).mp hact
    obtain ⟨j, hj, hinstr'⟩ := (hat.compiled hroot).instr
    rw [hinstr] at hinstr'; cases hinstr'
    have hi' : i ∈ n.matchIds := by rw [← hb] at hi; simpa [compilePredicate] using hi
    have hh := (at_iff_hasF hroot σ n.predicate i).mp ⟨n, a, hat, rfl, hi'⟩
    rw [hasF_ofSelectors] at hh
    obtain ⟨sl, hs, cx, hcx, hpath⟩ := hh
    refine ⟨sl, hs, cx, hcx, ?_⟩
    rw [matchesComplex_eq_pred cx (selsOk_complex hok hs hcx), hpath]
    simpa [revPath_fwdPath] using hp

/-- Partial correctness of the whole pipeline. -/
theorem runSelectors_eq_css_of_ok (sels : List SelList) (hok : selsOk sels = true) (esi : Bool)
    (evs : List Event) (res : List (Nat × Nat)) (h : runSelectors sels esi evs = .ok res) :
    res = Spec.Css.run codeLeaf sels esi evs := by
  unfold runSelectors at h
  simp only [bind, Except.bind] at h
  split at h
  · cases h
  · rename_i r hr
    simp only [pure, Except.pure, Except.ok.injEq] at h
    subst h
    obtain ⟨vm', res⟩ := r
    unfold Spec.Css.run
    rw [runAux_eq_runWith]
    exact SemInv.runAux (prog := compile (Ast.ofSelectors sels)) (nth := (compile (Ast.ofSelectors sels)).enableNthOfType)
      (fun e anc i => denotation_eq_css sels hok e anc i)
      (fun e anc => matchingIds_sorted _ _ _ _) evs _ vm' {} 0 [] res rfl rfl
      (SemInv.init _ esi) hr

/-! ## no panic on compiled programs -/

theorem Vm.execAddrs_total (vm : Vm) (st : SelectorState) (m : AttributeMatcher) :
    ∀ (addrs : List Nat) (ctx : ExecutionCtx),
    (∀ a ∈ addrs, ∃ i, vm.fetch a = .ok i ∧ ∃ ob, i.exec st ctx.stackItem.localName m = .ok ob) →
    ∃ ctx', vm.execAddrs st m addrs ctx = .ok ctx' := by
  intro addrs
  induction addrs with
  | nil => intro ctx _; exact ⟨ctx, rfl⟩
  | cons a rest ih =>
    intro ctx h
    obtain ⟨i, hf, ob, he⟩ := h a (by simp)
    simp only [Vm.execAddrs, hf, he, bind, Except.bind]
    apply ih
    intro a' ha'
    simpa using h a' (by simp [ha'])

theorem Vm.execSetsWithAttrs_total (vm : Vm) (m : AttributeMatcher) :
    ∀ (sets : List AddressRange) (ctx : ExecutionCtx),
    (∀ r ∈ sets, ∀ a ∈ r.addrs, ∃ i, vm.fetch a = .ok i ∧
      ∃ ob, i.exec (vm.stack.buildState ctx.stackItem.localName) ctx.stackItem.localName m = .ok ob) →
    ∃ ctx', vm.execSetsWithAttrs m sets ctx = .ok ctx' := by
  intro sets
  induction sets with
  | nil => intro ctx _; exact ⟨ctx, rfl⟩
  | cons r rest ih =>
    intro ctx h
    obtain ⟨c1, h1⟩ := Vm.execAddrs_total vm _ m (r.addrsFrom 0) ctx (by
      intro a ha; exact h r (by simp) a ha)
    have hname := (Vm.execAddrs_sameFrame vm _ m _ _ _ h1).1
    simp only [Vm.execSetsWithAttrs, Vm.execInstrSetWithAttrs, h1, bind, Except.bind]
    apply ih
    intro r' hr' a ha
    rw [hname]
    exact h r' (by simp [hr']) a ha

theorem SemInv.parentJumps_iff {vm ts nth} (inv : SemInv vm ts nth) (name : Bytes) (r : AddressRange) :
    r ∈ ({ vm with stack := vm.stack.addChild name } : Vm).parentJumps ↔
      ∃ S, (ancActs vm.program nth ts.ancestors).head? = some S ∧ ∃ a b, S a b ∧ b.jumps = some r := by
  rw [addChild_parentJumps]
  exact parentJumps_sem inv.items r

theorem SemInv.activeRanges_iff {vm ts nth} (inv : SemInv vm ts nth) (name : Bytes) (r : AddressRange) :
    r ∈ ({ vm with stack := vm.stack.addChild name } : Vm).activeRanges ↔
      ∃ S ∈ ancActs vm.program nth ts.ancestors, ∃ a b, S a b ∧ b.hereditaryJumps = some r := by
  unfold Vm.activeRanges
  simp only [addChild_active]
  rw [inv.active.mem_ranges r, ← AllSem.mem_hj inv.items r]
  simp

theorem listCompiled_valid {instrs : List Instruction} {nodes : List AstNode} {s : Nat}
    (hl : ListCompiled instrs nodes s) (a : Nat) (h1 : s ≤ a) (h2 : a < s + nodes.length) :
    ∃ i, instrs[a]? = some i := by
  obtain ⟨k, hk⟩ : ∃ k, a = s + k := ⟨a - s, by omega⟩
  have hklt : k < nodes.length := by omega
  obtain ⟨j, hj, hi⟩ := (hl.get k nodes[k] (List.getElem?_eq_getElem hklt)).instr
  exact ⟨_, by rw [hk]; exact hi⟩

section Total
variable (prog : Program) (nth : Bool) (root : List AstNode)
  (hroot : ListCompiled prog.instructions root prog.entryPoints.start)
  (hentry : prog.entryPoints.stop = prog.entryPoints.start + root.length)
  (hnth : ∀ i ∈ prog.instructions, nth = true ∨ ¬ i.localNameExprs.any exprIsNthOfType = true)
include hroot hentry hnth

omit hnth in
theorem entry_valid (a : Nat) (ha : a ∈ prog.entryPoints.addrs) : ∃ i, prog.instructions[a]? = some i := by
  rw [mem_addrs, hentry] at ha
  exact listCompiled_valid hroot a ha.1 ha.2

theorem act_ranges_valid {e : Elem} {anc : List Elem} {a' : Nat} {b' : ExecutionBranch}
    (hact : Act prog nth e anc a' b') (r : AddressRange)
    (hr : b'.jumps = some r ∨ b'.hereditaryJumps = some r) (a : Nat) (ha : a ∈ r.addrs) :
    ∃ i, prog.instructions[a]? = some i := by
  obtain ⟨σ, n, hat, _, i0, hi0, hb⟩ := (act_iff prog nth root hroot hentry hnth e anc a' b').mp hact
  have hc := hat.compiled hroot
  rw [mem_addrs] at ha
  rw [← hb] at hr
  rcases hr with hr | hr
  · rcases hc.children hi0 with ⟨_, hnone⟩ | ⟨_, s, hs, hl⟩
    · rw [hnone] at hr; cases hr
    · rw [hs] at hr; cases hr
      exact listCompiled_valid hl a ha.1 ha.2
  · rcases hc.descendants hi0 with ⟨_, hnone⟩ | ⟨_, s, hs, hl⟩
    · rw [hnone] at hr; cases hr
    · rw [hs] at hr; cases hr
      exact listCompiled_valid hl a ha.1 ha.2

/-- a start tag never panics on a laid-out program -/
theorem SemInv.handleStartTag_total {vm : Vm} {ts : TreeState} (inv : SemInv vm ts nth) (hp : vm.program = prog)
    (t : StartTag) : ∃ r, vm.handleStartTag t = .ok r := by
  rw [Vm.handleStartTag_eq]
  have hst := inv.buildState_eq t
  have hvalid : ∀ a, (∃ i, prog.instructions[a]? = some i) →
      ∃ i, ({ vm with stack := vm.stack.addChild t.name } : Vm).fetch a = .ok i ∧
        ∃ ob, i.exec (({ vm with stack := vm.stack.addChild t.name } : Vm).stack.buildState t.name) t.name
          ⟨t.attrs, t.ns == .html⟩ = .ok ob := by
    rintro a ⟨i, hi⟩
    refine ⟨i, by simp [Vm.fetch, hp, hi, pure, Except.pure], ?_⟩
    simp only [hst]
    have := exec_eq_predB nth (ts.elemFor t) i (hnth i (List.mem_of_getElem? hi))
    exact ⟨_, this⟩
  simp only [Vm.execAllWithAttrs, Vm.execJumpsWithAttrs, Vm.execHereditaryJumpsWithAttrs,
    Vm.execSetsFromPtr_zero, Vm.execInstrSetWithAttrs, bind, Except.bind]
  obtain ⟨c1, h1⟩ := Vm.execAddrs_total ({ vm with stack := vm.stack.addChild t.name } : Vm)
    (({ vm with stack := vm.stack.addChild t.name } : Vm).stack.buildState (startCtx t vm.enableEsiTags).stackItem.localName)
    ⟨t.attrs, t.ns == .html⟩ (vm.program.entryPoints.addrsFrom 0) (startCtx t vm.enableEsiTags) (by
      intro a ha
      apply hvalid
      rw [hp] at ha
      exact entry_valid prog root hroot hentry a ha)
  have hn1 := (Vm.execAddrs_sameFrame _ _ _ _ _ _ h1).1
  simp only [h1]
  obtain ⟨c2, h2⟩ := Vm.execSetsWithAttrs_total ({ vm with stack := vm.stack.addChild t.name } : Vm)
    ⟨t.attrs, t.ns == .html⟩ ({ vm with stack := vm.stack.addChild t.name } : Vm).parentJumps c1 (by
      intro r hr a ha
      rw [hn1]
      apply hvalid
      obtain ⟨S, hS, a', b', hS', hj⟩ := (inv.parentJumps_iff t.name r).mp hr
      cases hanc : ts.ancestors with
      | nil => rw [hanc] at hS; simp [ancActs] at hS
      | cons q anc' =>
        rw [hanc] at hS
        simp only [ancActs, List.head?_cons, Option.some.injEq] at hS
        subst hS
        rw [hp] at hS'
        exact act_ranges_valid prog nth root hroot hentry hnth hS' r (Or.inl hj) a ha)
  have hn2 := (Vm.execSetsWithAttrs_sameFrame _ _ _ _ _ h2).1
  simp only [h2]
  obtain ⟨c3, h3⟩ := Vm.execSetsWithAttrs_total ({ vm with stack := vm.stack.addChild t.name } : Vm)
    ⟨t.attrs, t.ns == .html⟩ ({ vm with stack := vm.stack.addChild t.name } : Vm).activeRanges c2 (by
      intro r hr a ha
      rw [hn2, hn1]
      apply hvalid
      obtain ⟨S, hS, a', b', hS', hj⟩ := (inv.activeRanges_iff t.name r).mp hr
      obtain ⟨pre, q, rest, _, hSeq⟩ := (mem_ancActs vm.program nth ts.ancestors S).mp hS
      subst hSeq
      rw [hp] at hS'
      exact act_ranges_valid prog nth root hroot hentry hnth hS' r (Or.inr hj) a ha)
  simp only [h3]
  exact ⟨_, rfl⟩

/-- a whole run never panics on a laid-out program -/
theorem SemInv.runAux_total : ∀ (evs : List Event) (vm : Vm) (ts : TreeState) (ord acc),
    vm.program = prog → SemInv vm ts nth → ∃ r, vm.runAux evs ord acc = .ok r := by
  intro evs
  induction evs with
  | nil => intro vm ts ord acc _ _; exact ⟨_, rfl⟩
  | cons e rest ih =>
    intro vm ts ord acc hp inv
    cases e with
    | start t =>
      obtain ⟨r, hr⟩ := SemInv.handleStartTag_total prog nth root hroot hentry hnth inv hp t
      obtain ⟨_, _, hp1, _, inv1⟩ := inv.handleStartTag hr
      simp only [Vm.runAux, hr, bind, Except.bind]
      exact ih r.1 _ _ _ (hp1.trans hp) inv1
    | end_ n =>
      obtain ⟨vm1, he, hp1, _, inv1⟩ := inv.handleEndTag n
      simp only [Vm.runAux, he, bind, Except.bind]
      exact ih vm1 _ _ _ (hp1.trans hp) inv1
end Total

/-- The model VM never panics on a program produced by `compile` from registered selectors. -/
theorem runSelectors_total (sels : List SelList) (esi : Bool) (evs : List Event) :
    ∃ res, runSelectors sels esi evs = .ok res := by
  obtain ⟨hroot, hentry, hnth⟩ := compile_layout (Ast.ofSelectors sels) (ofSelectors_count sels)
  obtain ⟨r, hr⟩ := SemInv.runAux_total _ _ _ hroot hentry hnth evs
    (Vm.new (Ast.ofSelectors sels) esi) {} 0 [] rfl (SemInv.init _ esi)
  exact ⟨r.2, by simp [runSelectors, hr, bind, Except.bind, pure, Except.pure]⟩
end LolHtml.SelVM
