/-
Lemmas.SelTrie — what `Ast::add_selector` registers in the trie, the node count, the bridge from trie
paths to the addresses of the compiled program, and selectors against predicate paths.
-/
import LolHtml.Lemmas.SelCompile

set_option linter.unusedSimpArgs false
namespace LolHtml.SelVM
open LolHtml LolHtml.Sel LolHtml.Spec.Css

/-! ## the trie -/

/-- the branch list a combinator continues in -/
def AstNode.next (n : AstNode) : Comb → List AstNode
  | .child => n.children
  | .descendant => n.descendants

/-- id `i` is registered in the trie `B` at the forward path `(path, last)` -/
def HasF : List AstNode → List (Predicate × Comb) → Predicate → Nat → Prop
  | B, [], last, i => ∃ n ∈ B, n.predicate = last ∧ i ∈ n.matchIds
  | B, (p, c) :: rest, last, i => ∃ n ∈ B, n.predicate = p ∧ HasF (n.next c) rest last i

theorem hostExpressions_spec (p : Predicate) : ∀ (B : List AstNode),
    (hostExpressions p B).2.1.predicate = p ∧
    ((hostExpressions p B).2.2.2 = true →
      (hostExpressions p B).1 = B ∧ (hostExpressions p B).2.1 = AstNode.new p ∧ (hostExpressions p B).2.2.1 = []) ∧
    ((hostExpressions p B).2.2.2 = false →
      B = (hostExpressions p B).1 ++ (hostExpressions p B).2.1 :: (hostExpressions p B).2.2.1) := by
  intro B
  induction B with
  | nil => simp [hostExpressions, AstNode.new, AstNode.predicate]
  | cons n rest ih =>
    unfold hostExpressions
    by_cases h : n.predicate = p
    · simp [h]
    · have h' : (n.predicate == p) = false := by simp [h]
      simp only [h', Bool.false_eq_true, if_false]
      obtain ⟨h1, h2, h3⟩ := ih
      refine ⟨h1, ?_, ?_⟩
      · intro hn
        obtain ⟨a, b, c⟩ := h2 hn
        exact ⟨by rw [a], b, c⟩
      · intro hn
        have := h3 hn
        simp only [List.cons_append]
        rw [← this]

/-- `∃ n ∈ B` in terms of the split `host_expressions` returns, with the hosting node replaced by `n'` -/
theorem exists_mem_host (p : Predicate) (B : List AstNode) (Q : AstNode → Prop) (n' : AstNode) :
    (∃ n ∈ (hostExpressions p B).1 ++ [n'] ++ (hostExpressions p B).2.2.1, Q n) ↔
      (∃ n ∈ (hostExpressions p B).1 ++ (hostExpressions p B).2.2.1, Q n) ∨ Q n' := by
  simp only [List.mem_append, List.mem_singleton]
  constructor
  · rintro ⟨n, (h | h) | h, hq⟩
    · exact Or.inl ⟨n, Or.inl h, hq⟩
    · subst h; exact Or.inr hq
    · exact Or.inl ⟨n, Or.inr h, hq⟩
  · rintro (⟨n, h | h, hq⟩ | hq)
    · exact ⟨n, Or.inl (Or.inl h), hq⟩
    · exact ⟨n, Or.inr h, hq⟩
    · exact ⟨n', Or.inl (Or.inr rfl), hq⟩

theorem exists_mem_orig (p : Predicate) (B : List AstNode) (Q : AstNode → Prop)
    (hnew : Q (AstNode.new p) → False) :
    (∃ n ∈ B, Q n) ↔
      (∃ n ∈ (hostExpressions p B).1 ++ (hostExpressions p B).2.2.1, Q n) ∨ Q (hostExpressions p B).2.1 := by
  obtain ⟨_, h2, h3⟩ := hostExpressions_spec p B
  cases hb : (hostExpressions p B).2.2.2 with
  | true =>
    obtain ⟨a, b, c⟩ := h2 hb
    rw [a, b, c]
    simp only [List.append_nil]
    constructor
    · intro h; exact Or.inl h
    · rintro (h | h)
      · exact h
      · exact (hnew h).elim
  | false =>
    have := h3 hb
    conv => lhs; rw [this]
    simp only [List.mem_append, List.mem_cons]
    constructor
    · rintro ⟨n, h | h | h, hq⟩
      · exact Or.inl ⟨n, Or.inl h, hq⟩
      · subst h; exact Or.inr hq
      · exact Or.inl ⟨n, Or.inr h, hq⟩
    · rintro (⟨n, h | h, hq⟩ | hq)
      · exact ⟨n, Or.inl h, hq⟩
      · exact ⟨n, Or.inr (Or.inr h), hq⟩
      · exact ⟨_, Or.inr (Or.inl rfl), hq⟩

theorem hasF_nil_block (path : List (Predicate × Comb)) (last : Predicate) (i : Nat) : ¬ HasF [] path last i := by
  cases path with
  | nil => simp [HasF]
  | cons x rest => obtain ⟨p, c⟩ := x; simp [HasF]

/-- Inserting a path registers the id at exactly that path and changes nothing else. -/
theorem hasF_insertPath : ∀ (path : List (Predicate × Comb)) (B : List AstNode) (cnt : Nat) (last : Predicate)
    (id : Nat) (path' : List (Predicate × Comb)) (last' : Predicate) (i : Nat),
    HasF (insertPath B cnt path last id).1 path' last' i ↔
      HasF B path' last' i ∨ (path' = path ∧ last' = last ∧ i = id) := by
  intro path
  induction path with
  | nil =>
    intro B cnt last id path' last' i
    obtain ⟨hp, _, _⟩ := hostExpressions_spec last B
    unfold insertPath
    cases hn : (hostExpressions last B).2.1 with
    | mk np ch de ids =>
      have hnp : np = last := by rw [hn] at hp; exact hp
      simp only [hn]
      cases path' with
      | nil =>
        simp only [HasF]
        rw [exists_mem_host, exists_mem_orig last B (fun n => n.predicate = last' ∧ i ∈ n.matchIds)
          (by simp [AstNode.new, AstNode.matchIds]), hn]
        simp only [AstNode.predicate, AstNode.matchIds, DenseHashSet.mem_insert, hnp]
        constructor
        · rintro (h | ⟨h1, h2 | h2⟩)
          · exact Or.inl (Or.inl h)
          · exact Or.inr ⟨trivial, h1.symm, h2⟩
          · exact Or.inl (Or.inr ⟨h1, h2⟩)
        · rintro ((h | ⟨h1, h2⟩) | ⟨_, h1, h2⟩)
          · exact Or.inl h
          · exact Or.inr ⟨h1, Or.inr h2⟩
          · exact Or.inr ⟨h1.symm, Or.inl h2⟩
      | cons x rest' =>
        obtain ⟨q, c'⟩ := x
        simp only [HasF]
        rw [exists_mem_host, exists_mem_orig last B (fun n => n.predicate = q ∧ HasF (n.next c') rest' last' i)
          (by
            rintro ⟨_, h⟩
            cases c' <;> exact hasF_nil_block _ _ _ h), hn]
        have : ∀ c', (AstNode.mk np ch de (DenseHashSet.insert ids id)).next c' = (AstNode.mk np ch de ids).next c' := by
          intro c'; cases c' <;> rfl
        simp [this, AstNode.predicate]
  | cons x rest ih =>
    obtain ⟨p, c⟩ := x
    intro B cnt last id path' last' i
    obtain ⟨hp, _, _⟩ := hostExpressions_spec p B
    unfold insertPath
    cases hn : (hostExpressions p B).2.1 with
    | mk np ch de ids =>
      have hnp : np = p := by rw [hn] at hp; exact hp
      simp only [hn]
      cases c with
      | child =>
        simp only
        cases path' with
        | nil =>
          simp only [HasF]
          rw [exists_mem_host, exists_mem_orig p B (fun n => n.predicate = last' ∧ i ∈ n.matchIds)
            (by simp [AstNode.new, AstNode.matchIds]), hn]
          simp [AstNode.predicate, AstNode.matchIds]
        | cons y rest' =>
          obtain ⟨q, c'⟩ := y
          simp only [HasF]
          rw [exists_mem_host, exists_mem_orig p B (fun n => n.predicate = q ∧ HasF (n.next c') rest' last' i)
            (by
              rintro ⟨_, h⟩
              cases c' <;> exact hasF_nil_block _ _ _ h), hn]
          cases c' with
          | child =>
            simp only [AstNode.next, AstNode.children, AstNode.predicate, ih, hnp]
            constructor
            · rintro (h | ⟨h1, h2 | ⟨h2, h3, h4⟩⟩)
              · exact Or.inl (Or.inl h)
              · exact Or.inl (Or.inr ⟨h1, h2⟩)
              · exact Or.inr ⟨by rw [h1, h2], h3, h4⟩
            · rintro ((h | ⟨h1, h2⟩) | ⟨h1, h3, h4⟩)
              · exact Or.inl h
              · exact Or.inr ⟨h1, Or.inl h2⟩
              · simp only [List.cons.injEq, Prod.mk.injEq] at h1
                exact Or.inr ⟨h1.1.1.symm, Or.inr ⟨h1.2, h3, h4⟩⟩
          | descendant =>
            simp only [AstNode.next, AstNode.descendants, AstNode.predicate]
            constructor
            · rintro (h | h)
              · exact Or.inl (Or.inl h)
              · exact Or.inl (Or.inr h)
            · rintro ((h | h) | ⟨h1, _, _⟩)
              · exact Or.inl h
              · exact Or.inr h
              · simp at h1
      | descendant =>
        simp only
        cases path' with
        | nil =>
          simp only [HasF]
          rw [exists_mem_host, exists_mem_orig p B (fun n => n.predicate = last' ∧ i ∈ n.matchIds)
            (by simp [AstNode.new, AstNode.matchIds]), hn]
          simp [AstNode.predicate, AstNode.matchIds]
        | cons y rest' =>
          obtain ⟨q, c'⟩ := y
          simp only [HasF]
          rw [exists_mem_host, exists_mem_orig p B (fun n => n.predicate = q ∧ HasF (n.next c') rest' last' i)
            (by
              rintro ⟨_, h⟩
              cases c' <;> exact hasF_nil_block _ _ _ h), hn]
          cases c' with
          | descendant =>
            simp only [AstNode.next, AstNode.descendants, AstNode.predicate, ih, hnp]
            constructor
            · rintro (h | ⟨h1, h2 | ⟨h2, h3, h4⟩⟩)
              · exact Or.inl (Or.inl h)
              · exact Or.inl (Or.inr ⟨h1, h2⟩)
              · exact Or.inr ⟨by rw [h1, h2], h3, h4⟩
            · rintro ((h | ⟨h1, h2⟩) | ⟨h1, h3, h4⟩)
              · exact Or.inl h
              · exact Or.inr ⟨h1, Or.inl h2⟩
              · simp only [List.cons.injEq, Prod.mk.injEq] at h1
                exact Or.inr ⟨h1.1.1.symm, Or.inr ⟨h1.2, h3, h4⟩⟩
          | child =>
            simp only [AstNode.next, AstNode.children, AstNode.predicate]
            constructor
            · rintro (h | h)
              · exact Or.inl (Or.inl h)
              · exact Or.inl (Or.inr h)
            · rintro ((h | h) | ⟨h1, _, _⟩)
              · exact Or.inl h
              · exact Or.inr h
              · simp at h1

theorem hasF_addSelector (id : Nat) (π : List (Predicate × Comb)) (l : Predicate) (i : Nat) :
    ∀ (sel : SelList) (ast : Ast),
    HasF (ast.addSelector sel id).root π l i ↔
      HasF ast.root π l i ∨ (i = id ∧ ∃ cx ∈ sel, complexToPath cx = (π, l)) := by
  intro sel
  induction sel with
  | nil => intro ast; simp [Ast.addSelector]
  | cons cx rest ih =>
    intro ast
    unfold Ast.addSelector at ih ⊢
    simp only [List.foldl_cons]
    rw [ih]
    simp only [hasF_insertPath, List.mem_cons, exists_eq_or_imp]
    constructor
    · rintro ((h | ⟨h1, h2, h3⟩) | ⟨h1, h2⟩)
      · exact Or.inl h
      · exact Or.inr ⟨h3, Or.inl (by rw [h1, h2])⟩
      · exact Or.inr ⟨h1, Or.inr h2⟩
    · rintro (h | ⟨h1, h2 | h2⟩)
      · exact Or.inl (Or.inl h)
      · exact Or.inl (Or.inr ⟨by rw [h2], by rw [h2], h1⟩)
      · exact Or.inr ⟨h1, h2⟩

theorem hasF_foldl_selectors (π : List (Predicate × Comb)) (l : Predicate) (i : Nat) :
    ∀ (sels : List SelList) (ast : Ast) (k : Nat),
    HasF (sels.foldl (fun (acc : Ast × Nat) s => (acc.1.addSelector s acc.2, acc.2 + 1)) (ast, k)).1.root π l i ↔
      HasF ast.root π l i ∨ ∃ j sl, sels[j]? = some sl ∧ i = k + j ∧ ∃ cx ∈ sl, complexToPath cx = (π, l) := by
  intro sels
  induction sels with
  | nil => intro ast k; simp
  | cons s rest ih =>
    intro ast k
    simp only [List.foldl_cons]
    rw [ih, hasF_addSelector]
    constructor
    · rintro ((h | ⟨h1, h2⟩) | ⟨j, sl, h1, h2, h3⟩)
      · exact Or.inl h
      · exact Or.inr ⟨0, s, by simp, by omega, h2⟩
      · exact Or.inr ⟨j + 1, sl, by simpa using h1, by omega, h3⟩
    · rintro (h | ⟨j, sl, h1, h2, h3⟩)
      · exact Or.inl (Or.inl h)
      · cases j with
        | zero =>
          simp at h1; subst h1
          exact Or.inl (Or.inr ⟨by omega, h3⟩)
        | succ j => exact Or.inr ⟨j, sl, by simpa using h1, by omega, h3⟩

/-- What the trie built from the registered selectors contains. -/
theorem hasF_ofSelectors (sels : List SelList) (π : List (Predicate × Comb)) (l : Predicate) (i : Nat) :
    HasF (Ast.ofSelectors sels).root π l i ↔
      ∃ sl, sels[i]? = some sl ∧ ∃ cx ∈ sl, complexToPath cx = (π, l) := by
  unfold Ast.ofSelectors
  rw [hasF_foldl_selectors]
  constructor
  · rintro (h | ⟨j, sl, h1, h2, h3⟩)
    · exact (hasF_nil_block _ _ _ h).elim
    · simp at h2; subst h2; exact ⟨sl, h1, h3⟩
  · rintro ⟨sl, h1, h3⟩
    exact Or.inr ⟨i, sl, h1, by simp, h3⟩

/-! ### `cumulative_node_count` is the number of nodes -/

theorem listSize_append (a b : List AstNode) : listSize (a ++ b) = listSize a + listSize b := by
  induction a with
  | nil => simp [listSize]
  | cons n rest ih => simp [listSize, ih]; omega

theorem listSize_host (p : Predicate) (B : List AstNode) (n' : AstNode) :
    listSize ((hostExpressions p B).1 ++ [n'] ++ (hostExpressions p B).2.2.1) + nodeSub (hostExpressions p B).2.1 +
      (if (hostExpressions p B).2.2.2 = true then 0 else 1) = listSize B + nodeSub n' + 1 := by
  obtain ⟨_, h2, h3⟩ := hostExpressions_spec p B
  cases hb : (hostExpressions p B).2.2.2 with
  | true =>
    obtain ⟨a, b, c⟩ := h2 hb
    rw [a, b, c]
    simp [listSize_append, listSize, AstNode.new, nodeSub]; omega
  | false =>
    have := h3 hb
    conv => rhs; rw [this]
    simp [listSize_append, listSize]; omega

theorem insertPath_count : ∀ (path : List (Predicate × Comb)) (B : List AstNode) (cnt : Nat) (last : Predicate) (id : Nat),
    (insertPath B cnt path last id).2 + listSize B = cnt + listSize (insertPath B cnt path last id).1 := by
  intro path
  induction path with
  | nil =>
    intro B cnt last id
    unfold insertPath
    cases hn : (hostExpressions last B).2.1 with
    | mk np ch de ids =>
      simp only [hn]
      have := listSize_host last B (.mk np ch de (DenseHashSet.insert ids id))
      rw [hn] at this
      simp only [nodeSub] at this
      cases hb : (hostExpressions last B).2.2.2 with
      | true => rw [hb] at this; simp only [if_true] at this ⊢; omega
      | false => rw [hb] at this; simp only [Bool.false_eq_true, if_false] at this ⊢; omega
  | cons x rest ih =>
    obtain ⟨p, c⟩ := x
    intro B cnt last id
    unfold insertPath
    cases hn : (hostExpressions p B).2.1 with
    | mk np ch de ids =>
      simp only [hn]
      cases c with
      | child =>
        simp only
        cases hb : (hostExpressions p B).2.2.2 with
        | true =>
          simp only [if_true]
          have h1 := ih ch (cnt + 1) last id
          have := listSize_host p B (.mk np (insertPath ch (cnt + 1) rest last id).1 de ids)
          rw [hn, hb] at this
          simp only [nodeSub, if_true] at this
          omega
        | false =>
          simp only [Bool.false_eq_true, if_false]
          have h1 := ih ch cnt last id
          have := listSize_host p B (.mk np (insertPath ch cnt rest last id).1 de ids)
          rw [hn, hb] at this
          simp only [nodeSub, Bool.false_eq_true, if_false] at this
          omega
      | descendant =>
        simp only
        cases hb : (hostExpressions p B).2.2.2 with
        | true =>
          simp only [if_true]
          have h1 := ih de (cnt + 1) last id
          have := listSize_host p B (.mk np ch (insertPath de (cnt + 1) rest last id).1 ids)
          rw [hn, hb] at this
          simp only [nodeSub, if_true] at this
          omega
        | false =>
          simp only [Bool.false_eq_true, if_false]
          have h1 := ih de cnt last id
          have := listSize_host p B (.mk np ch (insertPath de cnt rest last id).1 ids)
          rw [hn, hb] at this
          simp only [nodeSub, Bool.false_eq_true, if_false] at this
          omega

theorem addSelector_count (id : Nat) : ∀ (sel : SelList) (ast : Ast), ast.cumulativeNodeCount = listSize ast.root →
    (ast.addSelector sel id).cumulativeNodeCount = listSize (ast.addSelector sel id).root := by
  intro sel
  induction sel with
  | nil => intro ast h; simpa [Ast.addSelector] using h
  | cons cx rest ih =>
    intro ast h
    unfold Ast.addSelector at ih ⊢
    simp only [List.foldl_cons]
    apply ih
    simp only
    have := insertPath_count (complexToPath cx).1 ast.root ast.cumulativeNodeCount (complexToPath cx).2 id
    omega

theorem ofSelectors_count (sels : List SelList) :
    (Ast.ofSelectors sels).cumulativeNodeCount = listSize (Ast.ofSelectors sels).root := by
  unfold Ast.ofSelectors
  have : ∀ (sels : List SelList) (ast : Ast) (k : Nat), ast.cumulativeNodeCount = listSize ast.root →
      (sels.foldl (fun (acc : Ast × Nat) s => (acc.1.addSelector s acc.2, acc.2 + 1)) (ast, k)).1.cumulativeNodeCount =
        listSize (sels.foldl (fun (acc : Ast × Nat) s => (acc.1.addSelector s acc.2, acc.2 + 1)) (ast, k)).1.root := by
    intro sels
    induction sels with
    | nil => intro ast k h; simpa using h
    | cons s rest ih =>
      intro ast k h
      simp only [List.foldl_cons]
      exact ih _ _ (addSelector_count k s ast h)
  exact this sels {} 0 (by simp [listSize])
end LolHtml.SelVM
