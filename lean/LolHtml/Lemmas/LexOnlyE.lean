import LolHtml.Lemmas.LexOnlyDisp
import LolHtml.Lemmas.ParseRelE
import LolHtml.Lemmas.CtlSim
/-!
# Pure lexer mode, until the first error — and side by side with a second sink

`Lemmas/LexOnly.lean` (`OpsLex`) needs the sink invariant after EVERY sink operation, also a failing one.
A controller that is in the middle of an event when one of its callbacks fails does not offer that. Here
the framework is redone with the weaker requirement `OpsLexE`: from a sink state with the invariant `J`,
`handle_tag` / `handle_non_tag_content` of the first sink `ops₁`

* either behave EXACTLY like those of a second sink `ops₂` on the same state, and IF they succeed the
  invariant holds again (and `handle_tag` answers `Lex`),
* or fail with an error of a class `G`.

Nothing is required after a failure, nothing about the hint operations (they are never called: the parser
stays in lexer mode). For tables whose sink-calling actions are written with `?` (`EmitsChecked`, so the
first error ends the parse), `Parser::parse` over `ops₁` from a lexer-mode parser with the invariant then
either IS `Parser::parse` over `ops₂` (same parser state, same result; if it succeeds the parser is in lexer
mode with the invariant again), or returns an error of the class `G` (`parse_lexE`). Taking for `ops₂` a
sink for which "no panic" is known (the dispatcher over a cleaned controller, C15) transports that theorem
to `ops₁` up to the errors in `G`. `G := fun _ => False`, `ops₂ := ops₁`: plain until-first-error invariant
preservation.

Second half: the same for `TransformStream::write` / `end` and `HtmlRewriter::write* ; end` over two
controllers.
-/
set_option linter.unusedSimpArgs false
set_option linter.unusedVariables false
namespace LolHtml.Model.LexE
open LolHtml LolHtml.Model
open LolHtml.Lemmas.Sim (Inv inv_new)

variable {κ : Type}

/-- a sink for pure lexer mode, until its first error, side by side with `ops₂` -/
structure OpsLexE (ops₁ ops₂ : SinkOps κ) (inp : Bytes) (J : κ → Prop) (G : Err → Prop) : Prop where
  handleTag : ∀ lx k, J k →
    (ops₁.handleTag inp lx k = ops₂.handleTag inp lx k ∧
      ∀ a, (ops₁.handleTag inp lx k).2 = .ok a → J (ops₁.handleTag inp lx k).1 ∧ a = .lex) ∨
    ∃ e, G e ∧ (ops₁.handleTag inp lx k).2 = .error e
  handleNonTag : ∀ lx k, J k →
    (ops₁.handleNonTag inp lx k = ops₂.handleNonTag inp lx k ∧
      ((ops₁.handleNonTag inp lx k).2 = .ok () → J (ops₁.handleNonTag inp lx k).1)) ∨
    ∃ e, G e ∧ (ops₁.handleNonTag inp lx k).2 = .error e

def NoErr (s : Option Signal) : Prop := ∀ e, s ≠ some (.err e)
def NoDir (s : Option Signal) : Prop := ∀ d b, s ≠ some (.directive d b)

/-- no directive; and unless an error is signalled, the lexer-mode invariant -/
def SigOK (J : κ → Prop) (r : M κ × Option Signal) : Prop := NoDir r.2 ∧ (NoErr r.2 → LxInv J r.1)

/-- the two runs agree and the invariant holds unless an error is signalled — or the first run fails with
an error of the class -/
def HRes (J : κ → Prop) (G : Err → Prop) (r₁ r₂ : M κ × Option Signal) : Prop :=
  (r₁ = r₂ ∧ SigOK J r₁) ∨ ∃ e, G e ∧ r₁.2 = some (.err e)

theorem SigOK.of_lpost {J : κ → Prop} {r : M κ × Option Signal} (h : LPost J r) : SigOK J r := by
  refine ⟨fun d b hs => ?_, fun _ => h.1⟩
  exact h.2 _ hs

theorem HRes.of_lpost {J : κ → Prop} {G : Err → Prop} {r : M κ × Option Signal} (h : LPost J r) : HRes J G r r :=
  Or.inl ⟨rfl, SigOK.of_lpost h⟩

theorem HRes.err {J : κ → Prop} {G : Err → Prop} (m : M κ) (e : Err) : HRes J G (m, some (.err e)) (m, some (.err e)) :=
  Or.inl ⟨rfl, fun _ _ h => (by cases h), fun h => absurd rfl (h e)⟩

theorem HRes.none {J : κ → Prop} {G : Err → Prop} {m : M κ} (h : LxInv J m) : HRes J G (m, none) (m, none) :=
  Or.inl ⟨rfl, fun _ _ h => (by cases h), fun _ => h⟩

theorem HRes.of_eq {J : κ → Prop} {G : Err → Prop} {r₁ r₂ r₁' r₂' : M κ × Option Signal} (h : HRes J G r₁ r₂)
    (e1 : r₁' = r₁) (e2 : r₂' = r₂) : HRes J G r₁' r₂' := by rw [e1, e2]; exact h

section
variable {tbl : Table} {cfg : TagCfg} {ops₁ ops₂ : SinkOps κ} {inp : Bytes} {J : κ → Prop} {G : Err → Prop}

set_option quotPrecheck false in
local notation "env₁" => (Env.mk tbl cfg ops₁ : Env κ)
set_option quotPrecheck false in
local notation "env₂" => (Env.mk tbl cfg ops₂ : Env κ)

theorem lexEmitNonTag_hr (h : OpsLexE ops₁ ops₂ inp J G) (c : Common) (l : LexRegs) (x : Ctx κ)
    (o : Option NonTagOutline) (e : Nat) (hJ : J x.sink) (hi : Inv x.sim) (hfd : l.fd = .none) :
    HRes J G (lexEmitNonTag env₁ inp c l x o e) (lexEmitNonTag env₂ inp c l x o e) := by
  unfold lexEmitNonTag
  dsimp only
  rcases h.handleNonTag ⟨x.prevConsumed, ⟨l.lexemeStart, e⟩, o⟩ x.sink hJ with ⟨heq, hok⟩ | ⟨e', hG, he⟩
  · rw [← heq]
    left
    refine ⟨rfl, ?_⟩
    cases hr : (ops₁.handleNonTag inp ⟨x.prevConsumed, ⟨l.lexemeStart, e⟩, o⟩ x.sink).2 with
    | ok u =>
      exact ⟨fun _ _ h => (by cases h), fun _ => ⟨hok hr, hi, _, rfl, hfd⟩⟩
    | error e' =>
      exact ⟨fun _ _ h => (by cases h), fun hne => absurd rfl (hne e')⟩
  · right
    rw [he]
    exact ⟨e', hG, rfl⟩

theorem lexEmitText_hr (h : OpsLexE ops₁ ops₂ inp J G) (c : Common) (l : LexRegs) (x : Ctx κ)
    (hJ : J x.sink) (hi : Inv x.sim) (hfd : l.fd = .none) :
    HRes J G (lexEmitText env₁ inp c l x) (lexEmitText env₂ inp c l x) := by
  unfold lexEmitText
  split
  · exact lexEmitNonTag_hr h _ _ _ _ _ hJ hi hfd
  · exact HRes.none ⟨hJ, hi, _, rfl, hfd⟩

theorem lexEmitEof_hr (h : OpsLexE ops₁ ops₂ inp J G) (m : M κ) (hm : LxInv J m) :
    HRes J G (lexEmitEof env₁ inp m) (lexEmitEof env₂ inp m) := by
  unfold lexEmitEof
  obtain ⟨hJ, hi, l, hl, hfd⟩ := hm
  rw [hl]
  exact lexEmitNonTag_hr h _ _ _ _ _ hJ hi hfd

theorem andThen_hr {r₁ r₂ : M κ × Option Signal} {g₁ g₂ : M κ → M κ × Option Signal}
    (hr : HRes J G r₁ r₂) (hg : ∀ m, LxInv J m → HRes J G (g₁ m) (g₂ m)) :
    HRes J G (andThen r₁ g₁) (andThen r₂ g₂) := by
  unfold andThen
  rcases hr with ⟨he, hs⟩ | ⟨e, hG, he⟩
  · subst he
    cases hr2 : r₁.2 with
    | some s =>
      refine Or.inl ⟨rfl, fun d b hh => hs.1 d b (by rw [hr2]; exact hh), fun hne => ?_⟩
      exact hs.2 (by rw [hr2]; exact hne)
    | none => exact hg _ (hs.2 (by rw [hr2]; intro e hh; cases hh))
  · rw [he]
    exact Or.inr ⟨e, hG, rfl⟩

theorem lexEmitTagLexeme_hr (h : OpsLexE ops₁ ops₂ inp J G) (c : Common) (l : LexRegs) (x : Ctx κ) (sim : Sim)
    (t : TagOutline) (e : Nat) (hJ : J x.sink) (hi : Inv sim) (hfd : l.fd = .none) :
    HRes J G (lexEmitTagLexeme env₁ inp c l x sim t e) (lexEmitTagLexeme env₂ inp c l x sim t e) := by
  unfold lexEmitTagLexeme
  dsimp only
  rcases h.handleTag ⟨x.prevConsumed, ⟨l.lexemeStart, e⟩, t⟩ x.sink hJ with ⟨heq, hok⟩ | ⟨e', hG, he⟩
  · rw [← heq]
    left
    refine ⟨rfl, ?_⟩
    cases hr : (ops₁.handleTag inp ⟨x.prevConsumed, ⟨l.lexemeStart, e⟩, t⟩ x.sink).2 with
    | ok d =>
      obtain ⟨hJ', hd⟩ := hok d hr
      subst hd
      exact ⟨fun _ _ h => (by cases h), fun _ => ⟨hJ', hi, _, rfl, hfd⟩⟩
    | error e' =>
      exact ⟨fun _ _ h => (by cases h), fun hne => absurd rfl (hne e')⟩
  · right
    rw [he]
    exact ⟨e', hG, rfl⟩

theorem lexEmitTag_hr (h : OpsLexE ops₁ ops₂ inp J G) (c : Common) (l : LexRegs) (x : Ctx κ)
    (hJ : J x.sink) (hi : Inv x.sim) (hfd : l.fd = .none) :
    HRes J G (lexEmitTag env₁ inp c l x) (lexEmitTag env₂ inp c l x) := by
  unfold lexEmitTag
  cases hct : l.curTag with
  | none => exact HRes.err _ _
  | some tok =>
    dsimp only
    rw [hfd]
    obtain ⟨g1, g2⟩ := lexGetFeedback_fits (cfg := cfg) hi tok
    cases hsf : lexGetFeedback cfg x.sim .none tok with
    | error e => exact HRes.err _ _
    | ok sf =>
      dsimp only
      obtain ⟨hi1, hfit⟩ := g2 _ hsf
      split
      · exact HRes.err _ _
      · rename_i cs hap
        have hi2 : Inv cs.2 := by
          split at hap
          · rename_i f hf
            exact (lexHandleFeedback_fits hi1 f tok (fun k hk => hfit k (by rw [hf, hk]))).2 _ hap
          · simp only [Except.ok.injEq] at hap; subst hap; exact hi1
        exact lexEmitTagLexeme_hr h _ _ x _ _ _ hJ hi2 rfl

theorem lexAct_hr (h : OpsLexE ops₁ ops₂ inp J G) (a : ActName) (c : Common) (l : LexRegs) (x : Ctx κ)
    (hJ : J x.sink) (hi : Inv x.sim) (hfd : l.fd = .none) :
    HRes J G (lexAct env₁ a inp c l x) (lexAct env₂ a inp c l x) := by
  cases a <;> simp only [lexAct]
  case emitText => exact lexEmitText_hr h _ _ _ hJ hi hfd
  case emitTextAndEof => exact andThen_hr (lexEmitText_hr h _ _ _ hJ hi hfd) (fun m hm => lexEmitEof_hr h m hm)
  case emitCurrentToken => exact lexEmitNonTag_hr h _ _ _ _ _ hJ hi hfd
  case emitCurrentTokenAndEof =>
    exact andThen_hr (lexEmitNonTag_hr h _ _ _ _ _ hJ hi hfd) (fun m hm => lexEmitEof_hr h m hm)
  case emitRawWithoutToken => exact lexEmitNonTag_hr h _ _ _ _ _ hJ hi hfd
  case emitRawWithoutTokenAndEof =>
    exact andThen_hr (lexEmitNonTag_hr h _ _ _ _ _ hJ hi hfd) (fun m hm => lexEmitEof_hr h m hm)
  case emitTag => exact lexEmitTag_hr h _ _ _ hJ hi hfd
  all_goals
    (repeat' split) <;>
      first
      | exact HRes.none ⟨hJ, hi, _, rfl, hfd⟩
      | exact HRes.err _ _

theorem act_hr (h : OpsLexE ops₁ ops₂ inp J G) (a : ActName) (m : M κ) (hm : LxInv J m) :
    HRes J G (act env₁ a inp m) (act env₂ a inp m) := by
  unfold act
  obtain ⟨hJ, hi, l, hl, hfd⟩ := hm
  rw [hl]
  exact lexAct_hr h _ _ _ _ hJ hi hfd

/-- a non-sink action of a lexer machine cannot signal an error that is swallowed … it keeps the invariant
whatever it signals -/
theorem act_nosink_linv (a : ActName) (ha : a.callsSink = false) (m : M κ) (hm : LxInv J m) :
    act env₁ a inp m = act env₂ a inp m ∧ LxInv J (act env₁ a inp m).1 ∧ NoDir (act env₁ a inp m).2 := by
  unfold act
  obtain ⟨hJ, hi, l, hl, hfd⟩ := hm
  rw [hl]
  have heq : lexAct env₁ a inp m.c l m.x = lexAct env₂ a inp m.c l m.x := by
    cases a <;> first | rfl | (simp only [ActName.callsSink, Bool.true_eq_false] at ha)
  refine ⟨heq, ?_⟩
  cases a <;> simp only [ActName.callsSink, Bool.true_eq_false] at ha <;> simp only [lexAct] <;>
    (repeat' split) <;>
      exact ⟨⟨hJ, hi, _, rfl, hfd⟩, fun _ _ hh => (by cases hh)⟩

theorem runCalls_hr (h : OpsLexE ops₁ ops₂ inp J G) (cs : List Call) (hc : cs.all Call.checked = true)
    (m : M κ) (hm : LxInv J m) : HRes J G (runCalls env₁ inp cs m) (runCalls env₂ inp cs m) := by
  induction cs generalizing m with
  | nil => exact HRes.none hm
  | cons cl cs ih =>
    simp only [List.all_cons, Bool.and_eq_true] at hc
    simp only [runCalls]
    by_cases hns : cl.act.callsSink = false
    · obtain ⟨he, hl, hnd⟩ := act_nosink_linv (tbl := tbl) (cfg := cfg) (ops₁ := ops₁) (ops₂ := ops₂) (inp := inp) cl.act hns m hm
      rw [← he]
      cases hs : (act env₁ cl.act inp m).2 with
      | none => exact ih hc.2 _ hl
      | some s =>
        dsimp only
        by_cases hq : cl.q = true
        · simp only [hq, ↓reduceIte]
          exact Or.inl ⟨rfl, fun d b hh => hnd d b (by rw [hs]; exact hh), fun _ => hl⟩
        · simp only [hq, ↓reduceIte]
          exact ih hc.2 _ hl
    · have hq : cl.q = true := by
        have := hc.1
        simp only [Call.checked, Bool.or_eq_true, Bool.not_eq_true'] at this
        rcases this with h' | h'
        · exact absurd h' hns
        · exact h'
      rcases act_hr (tbl := tbl) (cfg := cfg) h cl.act m hm with ⟨he, hs⟩ | ⟨e, hG, he⟩
      · rw [← he]
        cases hs2 : (act env₁ cl.act inp m).2 with
        | none => exact ih hc.2 _ (hs.2 (by rw [hs2]; intro e hh; cases hh))
        | some s =>
          dsimp only
          simp only [hq, ↓reduceIte]
          exact Or.inl ⟨rfl, fun d b hh => hs.1 d b (by rw [hs2]; exact hh), fun hne => hs.2 (by rw [hs2]; exact hne)⟩
      · rw [he]
        dsimp only
        rw [if_pos hq]
        exact Or.inr ⟨e, hG, rfl⟩

/-- results with the `SeqEnd` flag -/
def HRes3 (J : κ → Prop) (G : Err → Prop) (r₁ r₂ : M κ × Option Signal × SeqEnd) : Prop :=
  (r₁ = r₂ ∧ SigOK J (r₁.1, r₁.2.1)) ∨ ∃ e, G e ∧ r₁.2.1 = some (.err e)

theorem applyTrans_env (t : Trans) (m : M κ) : applyTrans env₁ t m = applyTrans env₂ t m := by
  cases t <;> rfl

theorem runSeq_hr (h : OpsLexE ops₁ ops₂ inp J G) (s : ActSeq) (hc : s.calls.all Call.checked = true)
    (m : M κ) (hm : LxInv J m) : HRes3 J G (runSeq env₁ inp s m) (runSeq env₂ inp s m) := by
  unfold runSeq
  dsimp only
  rcases runCalls_hr (tbl := tbl) (cfg := cfg) h s.calls hc m hm with ⟨he, hs⟩ | ⟨e, hG, he⟩
  · rw [← he]
    cases hs2 : (runCalls env₁ inp s.calls m).2 with
    | some sig =>
      exact Or.inl ⟨rfl, fun d b hh => hs.1 d b (by rw [hs2]; exact hh), fun hne => hs.2 (by rw [hs2]; exact hne)⟩
    | none =>
      have hl : LxInv J (runCalls env₁ inp s.calls m).1 := hs.2 (by rw [hs2]; intro e hh; cases hh)
      dsimp only
      cases s.trans with
      | none => exact Or.inl ⟨rfl, fun _ _ hh => (by cases hh), fun _ => hl⟩
      | some t =>
        dsimp only
        rw [← applyTrans_env (tbl := tbl) (cfg := cfg) (ops₁ := ops₁) (ops₂ := ops₂)]
        exact Or.inl ⟨rfl, SigOK.of_lpost (applyTrans_lexo (env := env₁) t _ hl)⟩
  · rw [he]
    exact Or.inr ⟨e, hG, rfl⟩

theorem runBody_hr (h : OpsLexE ops₁ ops₂ inp J G) (b : Body)
    (hc : (b.seqs.flatMap (·.calls)).all Call.checked = true) (m : M κ) (hm : LxInv J m) :
    HRes3 J G (runBody env₁ inp b m) (runBody env₂ inp b m) := by
  cases b with
  | seq s =>
    simp only [Body.seqs, List.flatMap_cons, List.flatMap_nil, List.append_nil] at hc
    exact runSeq_hr h s hc m hm
  | ite c t e =>
    simp only [Body.seqs, List.flatMap_cons, List.flatMap_nil, List.append_nil, List.all_append, Bool.and_eq_true] at hc
    simp only [runBody]
    cases cond c m with
    | none => exact Or.inl ⟨rfl, fun _ _ hh => (by cases hh), fun hne => absurd rfl (hne _)⟩
    | some b =>
      cases b
      · exact runSeq_hr h _ hc.2 m hm
      · exact runSeq_hr h _ hc.1 m hm

/-- outcome of the sequence arms -/
def HSum (J : κ → Prop) (G : Err → Prop) : (M κ × Option Signal) ⊕ M κ → (M κ × Option Signal) ⊕ M κ → Prop
  | .inl r₁, .inl r₂ => HRes J G r₁ r₂
  | .inr m₁, .inr m₂ => m₁ = m₂ ∧ LxInv J m₁
  | .inl r₁, .inr _ => ∃ e, G e ∧ r₁.2 = some (.err e)
  | .inr _, .inl _ => False

theorem runSeqArms_hr (h : OpsLexE ops₁ ops₂ inp J G) (ch : Option UInt8) (arms : List Arm) (hc : ArmsChecked arms)
    (m : M κ) (hm : LxInv J m) : HSum J G (runSeqArms env₁ inp ch arms m) (runSeqArms env₂ inp ch arms m) := by
  induction arms generalizing m with
  | nil => exact ⟨rfl, hm⟩
  | cons arm rest ih =>
    have hrest : ArmsChecked rest := fun a ha => hc a (List.mem_cons_of_mem _ ha)
    have he : enterSeq m = m := enterSeq_lex m hm.isLex
    have hle : leaveSeq m = m := leaveSeq_lex m hm.isLex
    cases hp : arm.pat with
    | chSeq bytes ic =>
      cases bytes with
      | nil =>
        simp only [runSeqArms, hp]
        rw [he, hle]
        exact ih hrest _ hm
      | cons e0 es =>
        rw [runSeqArms_chSeq env₁ inp ch arm rest m e0 es ic hp, runSeqArms_chSeq env₂ inp ch arm rest m e0 es ic hp]
        rw [he]
        cases seqFirst inp ch e0 es ic m.c with
        | needMore => exact HRes.of_lpost (breakOnEndOfInput_lex (inp := inp) m hm)
        | mismatch => rw [hle]; exact ih hrest _ hm
        | matched =>
          have hm' : LxInv J (leaveSeq { m with c := { m.c with nextPos := m.c.nextPos + es.length } }) := by
            rw [leaveSeq_lex { m with c := { m.c with nextPos := m.c.nextPos + es.length } } hm.isLex]
            exact hm
          rcases runBody_hr (tbl := tbl) (cfg := cfg) h arm.body (hc arm List.mem_cons_self) _ hm' with ⟨a, b⟩ | hab
          · exact Or.inl ⟨by rw [a], b⟩
          · exact Or.inr hab
    | _ => simp only [runSeqArms, hp]; exact ih hrest _ hm

theorem dispatch_hr (h : OpsLexE ops₁ ops₂ inp J G) (ch : Option UInt8) (arms : List Arm) (hc : ArmsChecked arms)
    (m : M κ) (hm : LxInv J m) : HRes J G (dispatch env₁ inp ch arms m) (dispatch env₂ inp ch arms m) := by
  unfold dispatch
  have h1 := runSeqArms_hr (tbl := tbl) (cfg := cfg) h ch arms hc m hm
  cases hs1 : runSeqArms env₁ inp ch arms m with
  | inl r₁ =>
    cases hs2 : runSeqArms env₂ inp ch arms m with
    | inl r₂ => rw [hs1, hs2] at h1; exact h1
    | inr m₂' => rw [hs1, hs2] at h1; exact Or.inr h1
  | inr m₁' =>
    cases hs2 : runSeqArms env₂ inp ch arms m with
    | inl r₂ => rw [hs1, hs2] at h1; exact absurd h1 id
    | inr m₂' =>
      rw [hs1, hs2] at h1
      obtain ⟨hmm, hl⟩ := h1
      subst hmm
      simp only
      cases harm : findArm tbl m₁'.c ch arms with
      | none => exact HRes.err _ _
      | some arm =>
        simp only
        have hbody := runBody_hr (tbl := tbl) (cfg := cfg) h arm.body (hc arm (findArm_mem harm)) m₁' hl
        have brk : HRes J G
            (match (runBody env₁ inp arm.body m₁').2.1, (runBody env₁ inp arm.body m₁').2.2 with
              | some sig, _ => ((runBody env₁ inp arm.body m₁').1, some sig)
              | none, .transitioned => ((runBody env₁ inp arm.body m₁').1, none)
              | none, .fell => breakOnEndOfInput inp (runBody env₁ inp arm.body m₁').1)
            (match (runBody env₂ inp arm.body m₁').2.1, (runBody env₂ inp arm.body m₁').2.2 with
              | some sig, _ => ((runBody env₂ inp arm.body m₁').1, some sig)
              | none, .transitioned => ((runBody env₂ inp arm.body m₁').1, none)
              | none, .fell => breakOnEndOfInput inp (runBody env₂ inp arm.body m₁').1) := by
          rcases hbody with ⟨a, b⟩ | ⟨e, hG, hab⟩
          · rw [← a]
            cases hs : (runBody env₁ inp arm.body m₁').2.1 with
            | some sig =>
              exact Or.inl ⟨rfl, fun d b' hh => b.1 d b' (by rw [hs]; exact hh), fun hne => b.2 (by rw [hs]; exact hne)⟩
            | none =>
              have hl' : LxInv J (runBody env₁ inp arm.body m₁').1 := b.2 (by rw [hs]; intro e hh; cases hh)
              cases (runBody env₁ inp arm.body m₁').2.2 with
              | transitioned => exact HRes.none hl'
              | fell => exact HRes.of_lpost (breakOnEndOfInput_lex (inp := inp) _ hl')
          · rw [hab]; exact Or.inr ⟨e, hG, rfl⟩
        cases arm.pat with
        | eoc => exact brk
        | eof =>
          simp only
          split
          · exact brk
          · exact HRes.of_lpost (breakOnEndOfInput_lex (inp := inp) _ hl)
        | _ =>
          simp only
          rcases hbody with ⟨a, b⟩ | hab
          · exact Or.inl ⟨by rw [a], b⟩
          · exact Or.inr hab

theorem setC_linv {m : M κ} (hm : LxInv J m) (f : Common → Common) : LxInv J { m with c := f m.c } := hm

theorem sfPre_hr (h : OpsLexE ops₁ ops₂ inp J G) (sd : StateDef) (he : sd.enter.all Call.checked = true)
    (m : M κ) (hm : LxInv J m) : HRes J G (sfPre env₁ inp sd m) (sfPre env₂ inp sd m) := by
  unfold sfPre
  split
  · rcases runCalls_hr (tbl := tbl) (cfg := cfg) h sd.enter he _
        (setC_linv hm (fun c => { c with nextPos := c.nextPos + 1 })) with ⟨a, b⟩ | ⟨e, hG, hab⟩
    · rw [← a]
      cases hs : (runCalls env₁ inp sd.enter { m with c := { m.c with nextPos := m.c.nextPos + 1 } }).2 with
      | some sig =>
        exact Or.inl ⟨rfl, fun d b' hh => b.1 d b' (by rw [hs]; exact hh), fun hne => b.2 (by rw [hs]; exact hne)⟩
      | none =>
        have hl' := b.2 (by rw [hs]; intro e hh; cases hh)
        exact HRes.none (setC_linv hl' (fun c => { c with nextPos := c.nextPos - 1, entered := true }))
    · rw [hab]; exact Or.inr ⟨e, hG, rfl⟩
  · exact HRes.none hm

theorem sfMain_hr (h : OpsLexE ops₁ ops₂ inp J G) (sd : StateDef) (ha : ArmsChecked sd.arms)
    (m : M κ) (hm : LxInv J m) : HRes J G (sfMain env₁ inp sd m) (sfMain env₂ inp sd m) := by
  unfold sfMain
  cases sd.memchr with
  | some needle =>
    simp only
    cases findByte needle (inp.drop m.c.nextPos) with
    | some p => exact dispatch_hr h _ _ ha _ (setC_linv hm (fun c => { c with nextPos := c.nextPos + 1 + p }))
    | none =>
      exact dispatch_hr h _ _ ha _ (setC_linv hm (fun c => { c with nextPos := c.nextPos + 1 + (inp.drop m.c.nextPos).length }))
  | none =>
    simp only
    exact dispatch_hr h _ _ ha _ (setC_linv hm (fun c => { c with nextPos := c.nextPos + 1 }))

theorem stateFn_hr (h : OpsLexE ops₁ ops₂ inp J G) (ht : EmitsChecked tbl = true) (m : M κ) (hm : LxInv J m) :
    HRes J G (stateFn env₁ inp m) (stateFn env₂ inp m) := by
  rw [stateFn_decomp, stateFn_decomp]
  simp only
  cases hsd : tbl.state? m.c.state with
  | none => exact HRes.err _ _
  | some sd =>
    obtain ⟨he, ha⟩ := state_checked ht hsd
    simp only
    rcases sfPre_hr (tbl := tbl) (cfg := cfg) h sd he m hm with ⟨a, b⟩ | ⟨e, hG, hab⟩
    · rw [← a]
      cases hs : (sfPre env₁ inp sd m).2 with
      | some sig =>
        exact Or.inl ⟨rfl, fun d b' hh => b.1 d b' (by rw [hs]; exact hh), fun hne => b.2 (by rw [hs]; exact hne)⟩
      | none => exact sfMain_hr h sd ha _ (b.2 (by rw [hs]; intro e hh; cases hh))
    · rw [hab]; exact Or.inr ⟨e, hG, rfl⟩

/-- **the parsing loop**: both runs agree, end with `EndOfInput` in a lexer machine with the invariant or with
the same error — or the first run ends with an error of the class -/
theorem runLoop_hr (h : OpsLexE ops₁ ops₂ inp J G) (ht : EmitsChecked tbl = true) (n : Nat) (m : M κ) (hm : LxInv J m) :
    (runLoop env₁ inp n m = runLoop env₂ inp n m ∧
      (∀ d b, (runLoop env₁ inp n m).2 ≠ .directive d b) ∧
      ((∀ e, (runLoop env₁ inp n m).2 ≠ .err e) → LxInv J (runLoop env₁ inp n m).1)) ∨
    ∃ e, G e ∧ (runLoop env₁ inp n m).2 = .err e := by
  induction n generalizing m with
  | zero => exact Or.inl ⟨rfl, fun _ _ hh => (by cases hh), fun hne => absurd rfl (hne _)⟩
  | succ n ih =>
    simp only [runLoop]
    rcases stateFn_hr h ht m hm with ⟨a, b⟩ | ⟨e, hG, hab⟩
    · rw [← a]
      cases hs : (stateFn env₁ inp m).2 with
      | some sig =>
        refine Or.inl ⟨rfl, fun d b' hh => b.1 d b' ?_, fun hne => b.2 ?_⟩
        · dsimp only at hh
          rw [hs, hh]
        · rw [hs]
          intro e hh
          simp only [Option.some.injEq] at hh
          exact hne e hh
      | none => exact ih _ (b.2 (by rw [hs]; intro e hh; cases hh))
    · rw [hab]; exact Or.inr ⟨e, hG, rfl⟩


/-- **`Parser::parse` in pure lexer mode, until the first error, side by side with a second sink.** -/
theorem parseLoop_lexE (h : OpsLexE ops₁ ops₂ inp J G) (ht : EmitsChecked tbl = true) (last : Bool) (n : Nat)
    (p : Parser κ) (hp : PLex J p) :
    (Parser.parseLoop env₁ inp last n p = Parser.parseLoop env₂ inp last n p ∧
      (∀ k, (Parser.parseLoop env₁ inp last n p).2 = .ok k → PLex J (Parser.parseLoop env₁ inp last n p).1)) ∨
    ∃ e, G e ∧ (Parser.parseLoop env₁ inp last n p).2 = .error (RelE.parseErr e) := by
  cases n with
  | zero => exact Or.inl ⟨rfl, fun k hk => by cases hk⟩
  | succ n =>
    obtain ⟨hd, hfd, hJ, hi⟩ := hp
    have hmach : p.machine last = ⟨{ p.lexC with isLast := last }, .lexer p.lexR, p.x⟩ := by
      unfold Parser.machine; rw [hd]
    have hl : LxInv J (p.machine last) := by rw [hmach]; exact ⟨hJ, hi, _, rfl, hfd⟩
    simp only [Parser.parseLoop]
    rcases runLoop_hr h ht (defaultFuel inp) (p.machine last) hl with ⟨a, b1, b2⟩ | ⟨e, hG, hab⟩
    · rw [← a]
      cases hsig : (runLoop env₁ inp (defaultFuel inp) (p.machine last)).2 with
      | endOfInput consumed =>
        refine Or.inl ⟨rfl, fun k _ => ?_⟩
        obtain ⟨r1, r2, l, r3, r4⟩ := b2 (by rw [hsig]; intro e hh; cases hh)
        simp only [Parser.store, r3]
        exact ⟨hd, r4, r1, r2⟩
      | directive d bm => exact absurd hsig (b1 d bm)
      | err e => cases e <;> exact Or.inl ⟨rfl, fun k hk => by cases hk⟩
    · rw [hab]
      cases e <;> exact Or.inr ⟨_, hG, rfl⟩

theorem parse_lexE (h : OpsLexE ops₁ ops₂ inp J G) (ht : EmitsChecked tbl = true) (last : Bool)
    (p : Parser κ) (hp : PLex J p) :
    (Parser.parse env₁ inp last p = Parser.parse env₂ inp last p ∧
      (∀ k, (Parser.parse env₁ inp last p).2 = .ok k → PLex J (Parser.parse env₁ inp last p).1)) ∨
    ∃ e, G e ∧ (Parser.parse env₁ inp last p).2 = .error (RelE.parseErr e) :=
  parseLoop_lexE h ht last _ p hp

end

/-! ## stream and rewriter over two controllers -/

section
variable {γ : Type} {w : World γ} {c2 : Controller γ} {J : Disp γ → Prop} {G : Err → Prop}

local notation "w2" => Chunk.R.World.withCtl w c2

/-- what the lifting needs from the two controllers and the dispatcher invariant -/
structure CtlLexE (w : World γ) (c2 : Controller γ) (J : Disp γ → Prop) (G : Err → Prop) : Prop where
  ops : ∀ inp, OpsLexE (dispOps w.ctl) (dispOps c2) inp J G
  bail : w.ctl.bailOut = c2.bailOut
  flush : ∀ d d' inp k, d.flushRemaining inp k = .ok d' → J d → J d'
  handleEnd : ∀ d, J d → w.ctl.handleEnd d.ctl = c2.handleEnd d.ctl ∨ ∃ e, G e ∧ (w.ctl.handleEnd d.ctl).2.2 = some e
  initial : ∀ g, w.ctl.initialFlags g = c2.initialFlags g

/-- an error of the class as a call reports it (`parse` turns internal-class errors into handler errors) -/
def GE (G : Err → Prop) (e' : Err) : Prop := ∃ e, G e ∧ (e' = e ∨ e' = RelE.parseErr e)

def SLexE (J : Disp γ → Prop) (s : Stream γ) : Prop := PLex J s.parser

variable (h : CtlLexE w c2 J G) (ht : EmitsChecked w.tbl = true)
include h

theorem bail_eq' : Stream.bail w = Stream.bail (w2) := by
  funext s e sl
  unfold Stream.bail Disp.runBailOut
  show (if s.shouldBailOutFor e = true then _ else _) = (if s.shouldBailOutFor e = true then _ else _)
  rw [show (w2).ctl.bailOut = w.ctl.bailOut from h.bail.symm]

theorem chunkFor_eq' : Stream.chunkFor w = Stream.chunkFor (w2) := by
  funext s data
  unfold Stream.chunkFor
  rw [bail_eq' h]

theorem keepTail_eq' : Stream.keepTail w = Stream.keepTail (w2) := by
  funext s data chunk consumed
  unfold Stream.keepTail
  rw [bail_eq' h]

include ht

/-- **`TransformStream::write`** -/
theorem write_lexE (s : Stream γ) (data : Bytes) (hs : SLexE J s) :
    (s.write w data = s.write (w2) data ∧ ((s.write w data).2 = .ok () → SLexE J (s.write w data).1)) ∨
    ∃ e, G e ∧ (s.write w data).2 = .error (RelE.parseErr e) := by
  unfold Stream.write
  rw [← chunkFor_eq' h, ← keepTail_eq' h, ← bail_eq' h]
  cases hcf : s.chunkFor w data with
  | inl s' => exact Or.inl ⟨rfl, fun hh => by cases hh⟩
  | inr sc =>
    obtain ⟨s1, chunk⟩ := sc
    obtain ⟨_, c2', _, _, _⟩ := Stream.chunkFor_inr hcf
    dsimp only
    rcases parse_lexE (tbl := w.tbl) (cfg := w.tags) (h.ops chunk) ht false s1.parser (by rw [c2']; exact hs)
      with ⟨he, hpl⟩ | ⟨e, hG, he⟩
    · have he' : s1.parser.parse w.env chunk false = s1.parser.parse (w2).env chunk false := he
      rw [← he']
      refine Or.inl ⟨rfl, ?_⟩
      cases hpr : (s1.parser.parse w.env chunk false).2 with
      | error e => intro hh; cases hh
      | ok consumed =>
        dsimp only
        cases hfl : Disp.flushRemaining (Stream.disp { s1 with parser := (s1.parser.parse w.env chunk false).1 }) chunk consumed with
        | error e => intro hh; cases hh
        | ok d =>
          dsimp only
          intro hk
          obtain ⟨k1, k2⟩ := Stream.keepTail_lex (w := w)
            (Stream.setDisp { s1 with parser := (s1.parser.parse w.env chunk false).1 } d) data chunk consumed
          unfold SLexE
          rw [k2 hk]
          obtain ⟨u1, u2, u3, u4⟩ := hpl consumed hpr
          exact ⟨u1, u2, h.flush _ _ _ _ hfl u3, u4⟩
    · right
      refine ⟨e, hG, ?_⟩
      have he' : (s1.parser.parse w.env chunk false).2 = .error (RelE.parseErr e) := he
      rw [he']

/-- **`TransformStream::end`** -/
theorem end_lexE (s : Stream γ) (hs : SLexE J s) :
    s.end w = s.end (w2) ∨ ∃ e', GE G e' ∧ (s.end w).2 = .error e' := by
  unfold Stream.end
  rw [← bail_eq' h]
  dsimp only
  rcases parse_lexE (tbl := w.tbl) (cfg := w.tags) (h.ops (if s.hasBuffered then s.buf.data else [])) ht true s.parser hs
    with ⟨he, hpl⟩ | ⟨e, hG, he⟩
  · have he' : s.parser.parse w.env (if s.hasBuffered then s.buf.data else []) true =
        s.parser.parse (w2).env (if s.hasBuffered then s.buf.data else []) true := he
    rw [← he']
    cases hpr : (s.parser.parse w.env (if s.hasBuffered then s.buf.data else []) true).2 with
    | error e => exact Or.inl rfl
    | ok consumed =>
      dsimp only
      obtain ⟨u1, u2, u3, u4⟩ := hpl consumed hpr
      unfold Disp.finish
      cases hfl : (Stream.disp { s with parser := (s.parser.parse w.env (if s.hasBuffered then s.buf.data else []) true).1 }).flushRemaining
          (if s.hasBuffered then s.buf.data else []) (if s.hasBuffered then s.buf.data else []).length with
      | error e => exact Or.inl rfl
      | ok d =>
        simp only [DRes.ofExcept, DRes.bind]
        rcases h.handleEnd d (h.flush _ _ _ _ hfl u3) with heq | ⟨e, hG, hee⟩
        · have heq' : w.ctl.handleEnd d.ctl = (w2).ctl.handleEnd d.ctl := heq
          rw [← heq']
          exact Or.inl rfl
        · right
          rw [hee]
          exact ⟨e, ⟨e, hG, Or.inl rfl⟩, rfl⟩
  · right
    have he' : (s.parser.parse w.env (if s.hasBuffered then s.buf.data else []) true).2 = .error (RelE.parseErr e) := he
    rw [he']
    exact ⟨_, ⟨e, hG, Or.inr rfl⟩, rfl⟩

/-- poisoned, or in lexer mode with the invariant -/
def RLexE (J : Disp γ → Prop) (r : Rewriter γ) : Prop := r.poisoned = true ∨ SLexE J r.stream

/-- what a call of the first run may answer: what the second run answers, the documented panic of a poisoned
rewriter, or an error of the class -/
def CallE (G : Err → Prop) (l2 : List CallRes) (x : CallRes) : Prop :=
  x ∈ l2 ∨ x = .panicUseAfterError ∨ ∃ e', GE G e' ∧ x = .err e'

/-- **`HtmlRewriter::write`** -/
theorem rewriter_write_lexE (r : Rewriter γ) (data : Bytes) (hr : RLexE J r) :
    (r.write w data = r.write (w2) data ∧ RLexE J (r.write w data).1) ∨
    ((r.write w data).1.poisoned = true ∧ ∃ e', GE G e' ∧ (r.write w data).2 = .err e') := by
  unfold Rewriter.write
  by_cases hp : r.poisoned = true
  · rw [if_pos hp, if_pos hp]
    exact Or.inl ⟨rfl, Or.inl hp⟩
  · rw [if_neg hp, if_neg hp]
    have hs : SLexE J r.stream := hr.resolve_left hp
    rcases write_lexE h ht r.stream data hs with ⟨he, hok⟩ | ⟨e, hG, he⟩
    · rw [← he]
      refine Or.inl ⟨rfl, ?_⟩
      dsimp only
      cases hres : (r.stream.write w data).2 with
      | ok u => exact Or.inr (hok hres)
      | error e => exact Or.inl rfl
    · right
      dsimp only
      rw [he]
      exact ⟨rfl, _, ⟨e, hG, Or.inr rfl⟩, rfl⟩

omit h ht in
theorem writeAll_poisoned_res (cs : List Bytes) (r : Rewriter γ) (hp : r.poisoned = true) :
    (Thm.C01.writeAll w r cs).1.poisoned = true ∧ ∀ x ∈ (Thm.C01.writeAll w r cs).2, x = .panicUseAfterError := by
  induction cs generalizing r with
  | nil => exact ⟨hp, fun x hx => by cases hx⟩
  | cons c cs ih =>
    simp only [Thm.C01.writeAll]
    have h1 : r.write w c = (r, .panicUseAfterError) := by
      unfold Rewriter.write
      rw [if_pos hp]
    rw [h1]
    obtain ⟨i1, i2⟩ := ih r hp
    refine ⟨i1, fun x hx => ?_⟩
    rcases List.mem_cons.mp hx with rfl | hx
    · rfl
    · exact i2 x hx

/-- **`write*`** -/
theorem writeAll_lexE (cs : List Bytes) (r : Rewriter γ) (hr : RLexE J r) :
    ((Thm.C01.writeAll w r cs = Thm.C01.writeAll (w2) r cs ∧ RLexE J (Thm.C01.writeAll w r cs).1) ∨
      (Thm.C01.writeAll w r cs).1.poisoned = true) ∧
    ∀ x ∈ (Thm.C01.writeAll w r cs).2, CallE G (Thm.C01.writeAll (w2) r cs).2 x := by
  induction cs generalizing r with
  | nil => exact ⟨Or.inl ⟨rfl, hr⟩, fun x hx => by cases hx⟩
  | cons c cs ih =>
    simp only [Thm.C01.writeAll]
    rcases rewriter_write_lexE h ht r c hr with ⟨he, hr'⟩ | ⟨hp, e', hGE, he⟩
    · rw [← he]
      obtain ⟨i1, i2⟩ := ih _ hr'
      refine ⟨?_, fun x hx => ?_⟩
      · rcases i1 with ⟨j1, j2⟩ | j
        · exact Or.inl ⟨by rw [j1], j2⟩
        · exact Or.inr j
      · rcases List.mem_cons.mp hx with rfl | hx
        · exact Or.inl List.mem_cons_self
        · rcases i2 x hx with k | k | k
          · exact Or.inl (List.mem_cons_of_mem _ k)
          · exact Or.inr (Or.inl k)
          · exact Or.inr (Or.inr k)
    · obtain ⟨i1, i2⟩ := writeAll_poisoned_res (w := w) cs _ hp
      refine ⟨Or.inr i1, fun x hx => ?_⟩
      rcases List.mem_cons.mp hx with rfl | hx
      · exact Or.inr (Or.inr ⟨e', hGE, he⟩)
      · exact Or.inr (Or.inl (i2 x hx))

/-- **`HtmlRewriter::end`** -/
theorem rewriter_end_lexE (r : Rewriter γ) (hr : RLexE J r) :
    (r.end w).2 = (r.end (w2)).2 ∨ (r.end w).2 = .panicUseAfterError ∨ ∃ e', GE G e' ∧ (r.end w).2 = .err e' := by
  unfold Rewriter.end
  by_cases hp : r.poisoned = true
  · rw [if_pos hp, if_pos hp]
    exact Or.inl rfl
  · rw [if_neg hp, if_neg hp]
    dsimp only
    rcases end_lexE h ht r.stream (hr.resolve_left hp) with he | ⟨e', hGE, he⟩
    · rw [← he]
      exact Or.inl rfl
    · rw [he]
      exact Or.inr (Or.inr ⟨e', hGE, rfl⟩)

/-- **`write* ; end`**: every call of the first run answers like the same call of the second run, or with
the documented panic after an error, or with an error of the class. -/
theorem run_lexE (cs : List Bytes) (r : Rewriter γ) (hr : RLexE J r) :
    ∀ x ∈ (Thm.C01.run w r cs).2, CallE G (Thm.C01.run (w2) r cs).2 x := by
  obtain ⟨i1, i2⟩ := writeAll_lexE h ht cs r hr
  intro x hx
  unfold CallE
  simp only [Thm.C01.run, List.mem_append, List.mem_singleton] at hx ⊢
  rcases hx with hx | hx
  · rcases i2 x hx with k | k | k
    · exact Or.inl (Or.inl k)
    · exact Or.inr (Or.inl k)
    · exact Or.inr (Or.inr k)
  · subst hx
    rcases i1 with ⟨j1, j2⟩ | j
    · rw [← j1]
      rcases rewriter_end_lexE h ht _ j2 with k | k | k
      · exact Or.inl (Or.inr k)
      · exact Or.inr (Or.inl k)
      · exact Or.inr (Or.inr k)
    · right; left
      unfold Rewriter.end
      rw [if_pos j]

omit ht in
/-- a fresh rewriter is the same over both controllers, and in lexer mode if the initial flags are sticky
and the fresh dispatcher has the invariant -/
theorem new_lexE (g : γ) (cfg : Settings) (hst : (w.ctl.initialFlags g).Sticky = true)
    (hJ : J (Disp.new w.ctl g cfg.encoding)) :
    Thm.C01.Rewriter.new w g cfg = Thm.C01.Rewriter.new (w2) g cfg ∧ RLexE J (Thm.C01.Rewriter.new w g cfg) := by
  constructor
  · unfold Thm.C01.Rewriter.new Stream.new Disp.new
    show _ = ({ stream := _ } : Rewriter γ)
    simp only [Chunk.R.World.withCtl]
    rw [h.initial g]
    rfl
  · right
    unfold Thm.C01.Rewriter.new SLexE PLex Stream.new
    dsimp only
    rw [Flags.Sticky.notEmpty hst]
    exact ⟨rfl, rfl, hJ, inv_new _⟩

end

end LolHtml.Model.LexE
