/-
Lemmas.SelLeaf — independence under the specification, and the leaf predicates as coded against their
CSS definitions (`has_index` computed in i64 = `∃ n ≥ 0, a·n+b = i`; the six attribute operators).
-/
import LolHtml.Lemmas.SelTrie

set_option linter.unusedSimpArgs false
namespace LolHtml.SelVM
open LolHtml LolHtml.Sel LolHtml.Spec.Css

/-! ## independence -/

/-- the start-tag ordinals at which selector `i` hit -/
def hitsOf (i : Nat) (hits : List (Nat × Nat)) : List Nat :=
  (hits.filter fun h => h.1 == i).map (·.2)

theorem hitsOf_append (i : Nat) (a b : List (Nat × Nat)) : hitsOf i (a ++ b) = hitsOf i a ++ hitsOf i b := by
  simp [hitsOf, List.filter_append]

theorem hitsOf_map_nodup (i ord : Nat) : ∀ (l : List Nat), l.Pairwise (· < ·) →
    hitsOf i (l.map fun x => (x, ord)) = if i ∈ l then [ord] else [] := by
  intro l
  induction l with
  | nil => intro _; rfl
  | cons x xs ih =>
    intro h
    have hp := List.pairwise_cons.mp h
    have hxs := ih hp.2
    by_cases hx : x = i
    · subst hx
      have hnot : x ∉ xs := fun hm => Nat.lt_irrefl _ (hp.1 x hm)
      simp only [hitsOf] at hxs ⊢
      simp [List.filter_cons, hxs, hnot]
    · have : (x == i) = false := by simp [hx]
      simp only [hitsOf] at hxs ⊢
      have hne : ¬ i = x := fun h => hx h.symm
      simp [List.filter_cons, this, hxs, hne]

theorem hitsOf_runWith {F G : Elem → List Elem → List Nat} (i j : Nat) (esi : Bool)
    (hF : ∀ e anc, (F e anc).Pairwise (· < ·)) (hG : ∀ e anc, (G e anc).Pairwise (· < ·))
    (hFG : ∀ e anc, i ∈ F e anc ↔ j ∈ G e anc) :
    ∀ (evs : List Event) (ts : TreeState) (ord : Nat) (acc acc' : List (Nat × Nat)),
      hitsOf i acc = hitsOf j acc' →
      hitsOf i (runWith F esi ts evs ord acc) = hitsOf j (runWith G esi ts evs ord acc') := by
  intro evs
  induction evs with
  | nil => intro ts ord acc acc' h; exact h
  | cons e rest ih =>
    intro ts ord acc acc' h
    cases e with
    | start t =>
      simp only [runWith]
      apply ih
      rw [hitsOf_append, hitsOf_append, h, hitsOf_map_nodup _ _ _ (hF _ _), hitsOf_map_nodup _ _ _ (hG _ _)]
      by_cases hm : i ∈ F (ts.elemFor t) ts.ancestors
      · simp [hm, (hFG _ _).mp hm]
      · have : j ∉ G (ts.elemFor t) ts.ancestors := fun hj => hm ((hFG _ _).mpr hj)
        simp [hm, this]
    | end_ n => simp only [runWith]; exact ih _ _ _ _ h

/-- Under the specification the hits of a selector depend on that selector only. -/
theorem spec_independence (L : Leaf) (sels sels' : List SelList) (i j : Nat) (s : SelList)
    (hi : sels[i]? = some s) (hj : sels'[j]? = some s) (esi : Bool) (evs : List Event) :
    hitsOf i (Spec.Css.run L sels esi evs) = hitsOf j (Spec.Css.run L sels' esi evs) := by
  unfold Spec.Css.run
  rw [runAux_eq_runWith, runAux_eq_runWith]
  apply hitsOf_runWith i j esi (fun e anc => matchingIds_sorted _ _ _ _) (fun e anc => matchingIds_sorted _ _ _ _)
  · intro e anc
    rw [mem_matchingIds, mem_matchingIds, hi, hj]
  · rfl

/-! ## the leaves as coded are the CSS leaves -/

theorem nthMatches_iff (a b : Int) (i : Nat) : nthMatches a b i = true ↔ ∃ n : Nat, a * n + b = i := by
  unfold nthMatches
  by_cases ha : a = 0
  · subst ha
    simp only [beq_self_eq_true, if_true, beq_iff_eq, Int.zero_mul, Int.zero_add]
    constructor
    · intro h; exact ⟨0, h.symm⟩
    · rintro ⟨_, h⟩; exact h.symm
  · have ha' : (a == 0) = false := by simp [ha]
    simp only [ha', Bool.false_eq_true, if_false, Bool.and_eq_true, beq_iff_eq, decide_eq_true_eq]
    constructor
    · rintro ⟨hm, hq⟩
      have hd := Int.dvd_of_emod_eq_zero hm
      have := Int.mul_ediv_cancel' hd
      refine ⟨((i : Int) - b) / a |>.toNat, ?_⟩
      rw [Int.toNat_of_nonneg hq, this]; omega
    · rintro ⟨n, hn⟩
      have ho : (i : Int) - b = a * n := by omega
      rw [ho]
      refine ⟨Int.mul_emod_right _ _, ?_⟩
      rw [Int.mul_ediv_cancel_left _ ha]
      exact Int.natCast_nonneg n

theorem hasIndex_eq_nthMatches (a b : Int) (i : Nat) : hasIndex a b i = nthMatches a b i := by
  rw [Bool.eq_iff_iff, nthMatches_iff]
  unfold hasIndex
  by_cases ha : a = 0
  · subst ha
    simp only [beq_self_eq_true, if_true, beq_iff_eq, Int.zero_mul, Int.zero_add]
    constructor
    · intro h; exact ⟨0, by omega⟩
    · rintro ⟨_, h⟩; omega
  · have ha' : (a == 0) = false := by simp [ha]
    simp only [ha', Bool.false_eq_true, if_false]
    constructor
    · intro h
      split at h
      · cases h
      · rename_i hs
        simp only [Bool.or_eq_true, Bool.and_eq_true, decide_eq_true_eq, not_or, not_and] at hs
        simp only [beq_iff_eq] at h
        have hd := Int.dvd_of_tmod_eq_zero h
        obtain ⟨q, hq⟩ := hd
        have hq0 : 0 ≤ q := by
          apply Int.not_lt.mp
          intro hneg
          rcases Int.lt_or_gt_of_ne ha with han | hap
          · -- a < 0, q < 0 → o > 0
            have : 0 < a * q := Int.mul_pos_of_neg_of_neg han hneg
            exact hs.2 (by omega) han
          · have : a * q < 0 := Int.mul_neg_of_pos_of_neg hap hneg
            exact hs.1 (by omega) hap
        exact ⟨q.toNat, by rw [Int.toNat_of_nonneg hq0]; omega⟩
    · rintro ⟨n, hn⟩
      have ho : (i : Int) - b = a * n := by omega
      rw [ho]
      have hn0 : (0 : Int) ≤ n := Int.natCast_nonneg n
      split
      · rename_i hs
        simp only [Bool.or_eq_true, Bool.and_eq_true, decide_eq_true_eq] at hs
        rcases hs with ⟨h1, h2⟩ | ⟨h1, h2⟩
        · have := Int.mul_nonneg (Int.le_of_lt h2) hn0; omega
        · have : a * n ≤ 0 := Int.mul_nonpos_of_nonpos_of_nonneg (Int.le_of_lt h2) hn0; omega
      · simp only [beq_iff_eq]
        exact Int.tmod_eq_zero_of_dvd ⟨n, rfl⟩

set_option maxRecDepth 100000 in
theorem ws_lower_fin : ∀ n : Fin 256,
    isAttrWhitespace (asciiLower (UInt8.ofNat n.val)) = isAttrWhitespace (UInt8.ofNat n.val) := by
  decide +kernel

theorem isAttrWhitespace_lower (b : UInt8) : isAttrWhitespace (asciiLower b) = isAttrWhitespace b := by
  have := ws_lower_fin ⟨b.toNat, b.toNat_lt⟩
  simpa using this

set_option maxRecDepth 100000 in
theorem lower_dash_fin : ∀ n : Fin 256,
    (asciiLower (UInt8.ofNat n.val) == 45) = (UInt8.ofNat n.val == 45) := by
  decide +kernel

theorem asciiLower_eq_dash (b : UInt8) : (asciiLower b == 45) = (b == 45) := by
  have := lower_dash_fin ⟨b.toNat, b.toNat_lt⟩
  simpa using this

theorem hasWhitespace_lower (v : Bytes) : hasWhitespace (asciiLowerBytes v) = hasWhitespace v := by
  simp [hasWhitespace, asciiLowerBytes, List.any_map, Function.comp_def, isAttrWhitespace_lower]

theorem splitOnWs_no_ws : ∀ (v : Bytes) (p : Bytes), p ∈ splitOnWs v → hasWhitespace p = false := by
  intro v
  induction v with
  | nil => intro p hp; simp [splitOnWs] at hp; subst hp; rfl
  | cons b rest ih =>
    intro p hp
    unfold splitOnWs at hp
    by_cases hb : isAttrWhitespace b = true
    · simp only [hb, if_true, List.mem_cons] at hp
      rcases hp with hp | hp
      · subst hp; rfl
      · exact ih p hp
    · have hb' : isAttrWhitespace b = false := by simpa using hb
      simp only [hb', Bool.false_eq_true, if_false] at hp
      cases hs : splitOnWs rest with
      | nil => rw [hs] at hp; simp at hp; subst hp; simp [hasWhitespace, hb']
      | cons q qs =>
        rw [hs] at hp
        simp only [List.mem_cons] at hp
        rcases hp with hp | hp
        · subst hp
          have := ih q (by rw [hs]; simp)
          simp [hasWhitespace, hb'] at this ⊢
          exact this
        · exact ih p (by rw [hs]; simp [hp])

theorem caseEq_ws {ins : Bool} {p o : Bytes} (h : caseEq ins p o = true) : hasWhitespace p = hasWhitespace o := by
  unfold caseEq at h
  cases ins with
  | false => simp at h; rw [h]
  | true =>
    simp only [if_true, eqIgnoreAsciiCase, beq_iff_eq] at h
    rw [← hasWhitespace_lower p, ← hasWhitespace_lower o, h]

theorem includes_eq (ins : Bool) (actual operand : Bytes) :
    opMatchesCode .includes ins actual operand = opMatches .includes ins actual operand := by
  simp only [opMatchesCode, opMatches]
  by_cases hw : hasWhitespace operand = true
  · have : ((splitOnWs actual).any fun part => caseEq ins part operand) = false := by
      rw [List.any_eq_false]
      intro p hp hc
      have h1 := splitOnWs_no_ws actual p hp
      have h2 := caseEq_ws hc
      rw [h1, hw] at h2; cases h2
    simp [this, hw]
  · have hw' : hasWhitespace operand = false := by simpa using hw
    simp [hw']

theorem caseEq_append_singleton (ins : Bool) (x o : Bytes) (c : UInt8) (hlen : x.length = o.length) :
    caseEq ins (x ++ [c]) (o ++ [45]) = (caseEq ins x o && c == 45) := by
  unfold caseEq
  cases ins with
  | false =>
    simp only [Bool.false_eq_true, if_false]
    rw [Bool.eq_iff_iff]
    simp only [beq_iff_eq, Bool.and_eq_true]
    constructor
    · intro h
      have := List.append_inj h hlen
      exact ⟨this.1, by simpa using this.2⟩
    · rintro ⟨h1, h2⟩; rw [h1, h2]
  | true =>
    simp only [if_true, eqIgnoreAsciiCase, asciiLowerBytes, List.map_append, List.map_cons, List.map_nil]
    rw [Bool.eq_iff_iff]
    simp only [beq_iff_eq, Bool.and_eq_true]
    have h45 : asciiLower 45 = 45 := by decide
    rw [h45]
    constructor
    · intro h
      have := List.append_inj h (by simp [hlen])
      refine ⟨this.1, ?_⟩
      have h2 : asciiLower c = 45 := by simpa using this.2
      have := asciiLower_eq_dash c
      simp [h2] at this
      exact this
    · rintro ⟨h1, h2⟩
      rw [h1, h2, h45]

theorem dash_eq (ins : Bool) (actual operand : Bytes) :
    opMatchesCode .dashMatch ins actual operand = opMatches .dashMatch ins actual operand := by
  simp only [opMatchesCode, opMatches]
  congr 1
  unfold isPrefixCase
  by_cases hlt : operand.length < actual.length
  · have hget : actual[operand.length]? = some actual[operand.length] := List.getElem?_eq_getElem hlt
    have htake : actual.take (operand ++ [45]).length = actual.take operand.length ++ [actual[operand.length]] := by
      simp only [List.length_append, List.length_singleton]
      rw [List.take_add_one, hget]; rfl
    rw [htake, caseEq_append_singleton ins _ _ _ (by simp; omega), hget]
    have h1 : decide (operand.length ≤ actual.length) = true := by simp; omega
    have h2 : decide ((operand ++ [45]).length ≤ actual.length) = true := by simp; omega
    rw [h1, h2]
    simp only [Bool.true_and]
    rw [Bool.and_comm]
    congr 1
  · have hget : actual[operand.length]? = none := by simp; omega
    have h2 : decide ((operand ++ [45]).length ≤ actual.length) = false := by simp; omega
    rw [hget, h2]
    simp

/-- the six operator functions as coded compute the CSS attribute operators -/
theorem opMatchesCode_eq (op : AttrOp) (ins : Bool) (actual operand : Bytes) :
    opMatchesCode op ins actual operand = opMatches op ins actual operand := by
  cases op with
  | eq => rfl
  | includes => exact includes_eq ins actual operand
  | dashMatch => exact dash_eq ins actual operand
  | pfx => cases operand <;> simp [opMatchesCode, opMatches]
  | substring => rfl
  | sfx => cases operand <;> simp [opMatchesCode, opMatches]

theorem codeLeaf_eq_cssLeaf : codeLeaf = cssLeaf := by
  unfold codeLeaf cssLeaf
  congr 1
  · funext a b i; exact hasIndex_eq_nthMatches a b i
  · funext op ins actual operand; exact opMatchesCode_eq op ins actual operand
end LolHtml.SelVM
