import LolHtml.Lemmas.TbBody10
import LolHtml.Lemmas.TbStep
/-!
The phases of a template-free parse in which no `frameset` start tag has been acted upon: before the
`body` element exists (`PInv`: the stack is `[]`, `[html]`, `[head, html]`, with at most one raw-text element on
top) and the body phase (`BInv`). `D`: the body phase with the frameset-ok flag off — from there on a
`frameset` start tag is ignored.
-/
namespace LolHtml.Spec.TreeBuilder
open LolHtml.Model (Ns)

variable {c : Cfg} {s s' s'' : State}

theorem BStep.trans (h1 : BStep s s') (h2 : BStep s' s'') : BStep s s'' :=
  ⟨h2.binv, fun h => h2.fo (h1.fo h), h2.phase⟩

/-- in the body phase the invariant with `b = true` is the invariant with `b = false` -/
theorem GInv.demote (hG : GInv true s) (hB : BInv s) (hph : BodyPhase s) : GInv false s := by
  have hnofs : ∀ e ∈ s.tree.stack, e.isHtml .frameset = false := nofs_full hB.ba.nofs
  have hP : ∀ e ∈ s.tree.stack, PNoCol true e.name e.ns → PNoCol false e.name e.ns := by
    intro e he hp
    refine ⟨hp.1, hp.2.1, hp.2.2.1, fun _ hn => ?_⟩
    have := hnofs e he
    simp [El.isHtml, hp.1, hn] at this
  have hmf : ∀ m o, MF true m o → (if m = .text ∨ m = .inTableText then o else m) ∉ framesetModes → MF false m o := by
    intro m o h hne
    refine ⟨h.1, h.2.1, h.2.2.1, fun _ => ⟨?_, ?_⟩⟩
    · intro hm
      by_cases ht : m = .text ∨ m = .inTableText
      · rcases ht with rfl | rfl <;> simp [framesetModes] at hm
      · rw [if_neg ht] at hne; exact hne hm
    · intro ht
      rw [if_pos (Or.inl ht)] at hne; exact hne
  rcases hG with hI | hC
  · refine Or.inl ⟨⟨fun e he => hP e he (hI.tree.stack e he), hI.tree.afe⟩, hI.tmodes, hI.head, ?_, hI.notCol⟩
    exact hmf _ _ hI.modes hph.2
  · obtain ⟨e, rest, hst, hcol, hr⟩ := hC.top
    refine Or.inr ⟨hC.mode, ⟨e, rest, hst, hcol, ⟨fun x hx => hP x ?_ (hr.stack x hx), hr.afe⟩⟩, hC.tmodes, hC.head⟩
    rw [hst]; exact List.mem_cons_of_mem _ hx

/-- the shape of the stack of open elements before the `body` element exists -/
def pshape (m o : Mode) (st : List El) : Bool :=
  match m with
  | .initial | .beforeHtml => st.isEmpty
  | .beforeHead | .afterHead =>
    match st with
    | [h] => h.isHtml .html
    | _ => false
  | .inHead =>
    match st with
    | [hd, h] => hd.isHtml .head && h.isHtml .html
    | _ => false
  | .text =>
    match o with
    | .inHead =>
      match st with
      | [x, hd, h] => !x.isAnchor && x.name != .select && hd.isHtml .head && h.isHtml .html
      | _ => false
    | .afterHead =>
      match st with
      | [x, h] => !x.isAnchor && x.name != .select && h.isHtml .html
      | _ => false
    | _ => false
  | _ => false

/-- before the `body` element exists -/
structure PInv (s : State) : Prop where
  form : s.formPtr = none
  shape : pshape s.mode s.origMode s.tree.stack = true

theorem PInv.pre (h : PInv s) : effMode s ∈ preBody := by
  have := h.shape
  unfold effMode
  cases hm : s.mode <;> cases ho : s.origMode <;> simp [hm, ho, pshape, preBody] at this ⊢

theorem PInv.notBody (h : PInv s) : ¬ BodyPhase s := fun hb => hb.1 h.pre

/-- the phases -/
def Phase (s : State) : Prop := PInv s ∨ (BInv s ∧ BodyPhase s)

/-- body phase, frameset-ok flag off -/
def D (s : State) : Prop := BInv s ∧ BodyPhase s ∧ s.framesetOk = false

theorem D.phase (h : D s) : Phase s := Or.inr ⟨h.1, h.2.1⟩

theorem W_html {h : El} (hh : h.isHtml .html = true) : W [h] := by
  obtain ⟨e1, e2⟩ := isHtml_name hh
  refine ⟨trivial, ?_, ?_, ?_, ?_, ?_, ?_, ?_⟩ <;>
    (intro h'; simp [El.isHtml, El.isHtmlIn, e2, secNames, Name.isIn] at h')

/-- the state right after the `body` element has been inserted -/
theorem binv_bodyCreated (b h : El) (hst : s.tree.stack = [b, h]) (hb : b.isHtml .body = true)
    (hh : h.isHtml .html = true) (hm : s.mode = .inBody) (hf : s.formPtr = none) : BInv s ∧ BodyPhase s := by
  obtain ⟨b1, b2⟩ := isHtml_name hb
  obtain ⟨h1, h2⟩ := isHtml_name hh
  have hba : b.isAnchor = true := isHtml_anchor b .body (by decide) hb
  have he : effMode s = .inBody := by simp [effMode, hm]
  have hA : anchorSuffix s.tree.stack = [b, h] := by rw [hst]; exact anchorSuffix_cons_anchor b [h] hba
  refine ⟨⟨?_, ?_, ?_, ?_⟩, ?_⟩
  · rw [he, hA]
    refine ⟨⟨W_html hh, ?_, ?_, ?_, ?_, ?_, ?_, ?_⟩, ⟨[], b, h, rfl, hb, hh, fun e he => by cases he⟩, ?_, ?_⟩
    all_goals first
      | (intro h'; simp [El.isHtml, El.isHtmlIn, b2, secNames, Name.isIn] at h'; done)
      | (intro _; show h.isHtmlIn [.html] = true; rw [isHtmlIn_single]; exact hh)
      | (show b.isHtmlIn [.body] = true; rw [isHtmlIn_single]; exact hb)
      | (intro e he
         simp only [List.mem_cons, List.mem_nil_iff, or_false] at he
         rcases he with rfl | rfl <;> simp [El.isHtml, b2, h2])
  · intro f hf'; rw [hf] at hf'; cases hf'
  · intro h'; rw [hm] at h'; cases h'
  · intro _ e he
    rw [hst] at he
    simp only [List.mem_cons, List.mem_nil_iff, or_false] at he
    rcases he with rfl | rfl <;> simp [PNoSel, b2, h2]
  · unfold BodyPhase; rw [he]; simp [preBody, framesetModes]

end LolHtml.Spec.TreeBuilder
