import LolHtml.Lemmas.TbPhase2
import LolHtml.Lemmas.TbJoint2
/-!
One token (the whole reprocess loop) keeps the phase; after a `select` start tag the parser is in the
body phase with the frameset-ok flag off.
-/
namespace LolHtml.Spec.TreeBuilder
open LolHtml.Model (Ns)

variable {c : Cfg} {s : State}

/-- the tokens of the class, in a given state: no `svg` / `math` / `template` start tag; a `frameset` start
tag only in the body phase with the frameset-ok flag off (where it is ignored) -/
def TokP (s : State) (t : Token) : Prop :=
  ∀ n sc a, t = .start n sc a →
    n ≠ .svg ∧ n ≠ .math ∧ n ≠ .template ∧ (n = .frameset → BodyPhase s ∧ s.framesetOk = false)

/-- what one rule leaves behind -/
def PPost (s : State) (t : Token) : Res → Prop
  | .done s' _ => GInv false s' ∧ Phase s' ∧ (BodyPhase s → BInv s' ∧ BodyPhase s' ∧ (s.framesetOk = false → s'.framesetOk = false)) ∧ TokP s' t
  | .reprocess s' h => (GInv false s' ∧ Phase s' ∧ (BodyPhase s → BInv s' ∧ BodyPhase s' ∧ (s.framesetOk = false → s'.framesetOk = false)) ∧ TokP s' t) ∧ h = false
  | .impossible _ => False

theorem stepMode_phase (hleg : c.legacySelect = false) (hscr : c.scripting = true) (hG : GInv false s) (hPh : Phase s)
    (t : Token) (htok : TokP s t) (htext : s.mode = .text → TextTok t) : PPost s t (stepMode c s t) := by
  rcases hPh with hP | ⟨hB, hph⟩
  · have hnb := hP.notBody
    have htok0 : TokOk false t := by
      cases t with
      | start n sc a =>
        obtain ⟨h1, h2, h3, h4⟩ := htok n sc a rfl
        exact ⟨h1, h2, h3, fun hn => absurd (h4 hn).1 hnb⟩
      | _ => trivial
    have hinv := stepMode_inv (c := c) hleg hG t htok0 htext
    have hpre := stepMode_pre (c := c) hscr hG hP t htok0
    have htokP : ∀ s' : State, TokP s' t := by
      intro s' n sc a h
      obtain ⟨h1, h2, h3, h4⟩ := htok n sc a h
      exact ⟨h1, h2, h3, fun hn => absurd (h4 hn).1 hnb⟩
    cases hr : stepMode c s t with
    | done s' sw =>
      rw [hr] at hinv hpre
      exact ⟨hinv, hpre, fun h => absurd h hnb, htokP s'⟩
    | reprocess s' h =>
      rw [hr] at hinv hpre
      exact ⟨⟨hinv.1, hpre, fun h => absurd h hnb, htokP s'⟩, hinv.2⟩
    | impossible s' => rw [hr] at hinv; exact hinv
  · have htok1 : TokOk true t := by
      cases t with
      | start n sc a =>
        obtain ⟨h1, h2, h3, _⟩ := htok n sc a rfl
        exact ⟨h1, h2, h3, fun _ => rfl⟩
      | _ => trivial
    have htokB : TokB s t := by
      intro n sc a h
      obtain ⟨h1, h2, h3, h4⟩ := htok n sc a h
      exact ⟨h1, h2, h3, fun hn => (h4 hn).2⟩
    have hinv := stepMode_inv (c := c) hleg (GInv.mono hG) t htok1 htext
    have hbody := stepMode_body (c := c) hleg hG hB hph t htokB
    have key : ∀ s' : State, GInv true s' → BStep s s' →
        GInv false s' ∧ Phase s' ∧ (BodyPhase s → BInv s' ∧ BodyPhase s' ∧ (s.framesetOk = false → s'.framesetOk = false)) ∧
          TokP s' t := by
      intro s' hG' hS
      refine ⟨hG'.demote hS.binv hS.phase, Or.inr ⟨hS.binv, hS.phase⟩, fun _ => ⟨hS.binv, hS.phase, hS.fo⟩, ?_⟩
      intro n sc a h
      obtain ⟨h1, h2, h3, h4⟩ := htok n sc a h
      exact ⟨h1, h2, h3, fun hn => ⟨hS.phase, hS.fo (h4 hn).2⟩⟩
    cases hr : stepMode c s t with
    | done s' sw =>
      rw [hr] at hinv hbody
      exact key s' hinv hbody
    | reprocess s' h =>
      rw [hr] at hinv hbody
      exact ⟨key s' hinv.1 hbody, hinv.2⟩
    | impossible s' => rw [hr] at hinv; exact hinv

/-- one token, the whole reprocess loop -/
theorem loop_phase (hleg : c.legacySelect = false) (hscr : c.scripting = true) (t : Token) (f : Bool) :
    ∀ (fuel : Nat) (s : State), GInv false s → NsOk c s → Phase s → TokP s t → (s.mode = .text → TextTok t) →
      GInv false (loop c t f fuel s false).st ∧ Phase (loop c t f fuel s false).st ∧
      (D s → D (loop c t f fuel s false).st) := by
  intro fuel
  induction fuel with
  | zero => intro s hG _ hPh _ _; exact ⟨hG, hPh, fun h => h⟩
  | succ fuel ih =>
    intro s hG hns hPh htok htext
    have hP := stepMode_phase (c := c) hleg hscr hG hPh t htok htext
    have hstep : stepOnce c s t false = stepMode c s t := by
      simp [stepOnce, useHtmlRules_of_inv hG t]
    have hD : ∀ s' : State, (BodyPhase s → BInv s' ∧ BodyPhase s' ∧ (s.framesetOk = false → s'.framesetOk = false)) →
        D s → D s' := by
      intro s' h hd
      obtain ⟨a, b, c'⟩ := h hd.2.1
      exact ⟨a, b, c' hd.2.2⟩
    simp only [loop, hstep]
    cases hr : stepMode c s t with
    | done s' sw =>
      rw [hr] at hP
      exact ⟨hP.1, hP.2.1, hD s' hP.2.2.1⟩
    | reprocess s' h =>
      rw [hr] at hP
      obtain ⟨⟨hG', hPh', hb', htok'⟩, hh⟩ := hP
      subst hh
      -- the state handed on is not in "text" (or the token is one of "text")
      have hnext : NsOk c s' ∧ (s'.mode = .text → TextTok t) := by
        by_cases h1 : s.mode = .text
        · have ht := htext h1
          have hst : stepMode c s t = text c s t := by simp [stepMode, h1]
          rw [hst] at hr
          cases t with
          | eof =>
            simp only [text, Res.again] at hr
            injection hr with hr _
            subst hr
            exact ⟨fun hs => ⟨(hns hs).2, (hns hs).2⟩, fun _ => ht⟩
          | char cc => simp [text, Res.ok] at hr
          | «end» n => simp [text, Res.ok] at hr
          | start n sc a => exact ht.elim
          | comment => exact ht.elim
          | doctype d => exact ht.elim
        · have hS := stepMode_sw (c := c) hG hns h1 t
          rw [hr] at hS
          exact ⟨hS.1 hns, fun h => absurd h hS.2.1⟩
      obtain ⟨r1, r2, r3⟩ := ih s' hG' hnext.1 hPh' htok' hnext.2
      exact ⟨r1, r2, fun hd => r3 (hD s' hb' hd)⟩
    | impossible s' => rw [hr] at hP; exact hP.elim

end LolHtml.Spec.TreeBuilder
