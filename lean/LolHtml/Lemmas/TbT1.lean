import LolHtml.Lemmas.TbT0
import LolHtml.Lemmas.TbHop2
/-!
Preservation of the template-aware invariant `TInv` by "in head", "in body", "text".
-/
namespace LolHtml.Spec.TreeBuilder
open LolHtml.Model (Ns)

variable {b : Bool} {c : Cfg} {s : State}

/-- tokens of the class: HTML namespace (no `svg` / `math` start tag) -/
def TokH : Token → Prop
  | .start n _ _ => n ≠ .svg ∧ n ≠ .math
  | _ => True

/-- a `frameset` start tag is either allowed to act (`b`) or will be ignored by "in body" -/
def FsOk (b : Bool) (s : State) (t : Token) : Prop :=
  ∀ sc a, t = .start .frameset sc a → b = true ∨ s.framesetOk = false

set_option maxHeartbeats 8000000 in
theorem inHead_tinv (hleg : c.legacySelect = false) (hI : TInv b s) (h1 : s.mode ≠ .text) (h2 : s.mode ≠ .inTableText)
    (t : Token) : TPost b (inHead c s t) := by
  cases t with
  | start n sc a =>
    simp only [inHead, htmlStartInBody, Res.ok, Res.ignore, Res.again]
    repeat' split
    all_goals (try names_norm)
    all_goals thop_branch hleg hI h1 h2 n
  | «end» n =>
    simp only [inHead, Res.ok, Res.ignore, Res.again]
    repeat' split
    all_goals (try names_norm)
    all_goals thop_branch hleg hI h1 h2 n
  | char cc =>
    cases cc <;> simp only [inHead, Res.ok, Res.again] <;> (thop_branch hleg hI h1 h2)
  | comment => exact hI
  | doctype d => exact hI
  | eof =>
    simp only [inHead, Res.again]
    (thop_branch hleg hI h1 h2)

set_option maxHeartbeats 16000000 in
theorem inBodyStart_tinv (hleg : c.legacySelect = false) (hI : TInv b s) (h1 : s.mode ≠ .text) (h2 : s.mode ≠ .inTableText)
    (n : Name) (sc : Bool) (a : Attrs) (htok : TokH (.start n sc a)) (hfs : FsOk b s (.start n sc a)) :
    TPost b (inBodyStart c s n a sc) := by
  obtain ⟨hsvg, hmath⟩ := htok
  by_cases hh : n.isIn headStartNames = true
  · have := inHead_tinv (c := c) hleg hI h1 h2 (.start n sc a)
    have himg : n ≠ .image := by intro h; subst h; simp [headStartNames, Name.isIn] at hh
    have hhtml : n ≠ .html := by intro h; subst h; simp [headStartNames, Name.isIn] at hh
    simpa [inBodyStart, hh, himg, hhtml] using this
  · have hh' : n.isIn headStartNames = false := by simpa using hh
    by_cases hf : n = .frameset
    · subst hf
      eval_rule [inBodyStart, hleg]
      rcases hfs sc a rfl with hb | hfo
      · subst hb
        repeat' split
        all_goals (thop_branch hleg hI h1 h2)
      · simp only [hfo]
        repeat' split
        all_goals (thop_branch hleg hI h1 h2)
    cases n <;> (try (simp [headStartNames, Name.isIn] at hh'; done)) <;>
      (try (exfalso; first | exact hsvg rfl | exact hmath rfl | exact hf rfl))
    all_goals eval_rule [inBodyStart, hleg]
    all_goals (repeat' split)
    all_goals (thop_branch hleg hI h1 h2)

set_option maxHeartbeats 16000000 in
theorem inBodyEnd_tinv (hleg : c.legacySelect = false) (hI : TInv b s) (h1 : s.mode ≠ .text) (h2 : s.mode ≠ .inTableText)
    (n : Name) : TPost b (inBodyEnd c s n) := by
  by_cases ht : n = .template
  · subst ht
    have := inHead_tinv (c := c) hleg hI h1 h2 (.end .template)
    simpa [inBodyEnd] using this
  · cases n <;> (try (exfalso; exact ht rfl))
    all_goals eval_rule [inBodyEnd, hleg]
    all_goals (repeat' split)
    all_goals (thop_branch hleg hI h1 h2)

theorem inBodyChar_tinv (hleg : c.legacySelect = false) (hI : TInv b s) (cc : CharClass) : TInv b (inBodyChar s cc) := by
  cases cc <;> simp only [inBodyChar]
  · exact hI
  · tinv_core hI
  · tinv_core hI

theorem inTemplateEof_tinv (hleg : c.legacySelect = false) (hI : TInv b s) : TPost b (inTemplateEof c s) := by
  simp only [inTemplateEof, Res.ok, Res.again]
  split
  · exact hI
  · refine ⟨resetMode_tinv hleg ?_ ?_ hI.head, rfl⟩
    · (try dsimp only [onTree_tree]); ttree_ok
    · tm_ok hI

theorem inBody_tinv (hleg : c.legacySelect = false) (hI : TInv b s) (h1 : s.mode ≠ .text) (h2 : s.mode ≠ .inTableText)
    (t : Token) (htok : TokH t) (hfs : FsOk b s t) : TPost b (inBody c s t) := by
  cases t with
  | start n sc a => exact inBodyStart_tinv hleg hI h1 h2 n sc a htok hfs
  | «end» n => exact inBodyEnd_tinv hleg hI h1 h2 n
  | char cc => exact inBodyChar_tinv hleg hI cc
  | comment => exact hI
  | doctype d => exact hI
  | eof =>
    simp only [inBody]
    split
    · exact inTemplateEof_tinv hleg hI
    · exact hI

theorem inBody_other_tinv (hleg : c.legacySelect = false) (hI : TInv b s) (h1 : s.mode ≠ .text) (h2 : s.mode ≠ .inTableText)
    (t : Token) (ht : ∀ n sc a, t ≠ .start n sc a) : TPost b (inBody c s t) := by
  apply inBody_tinv hleg hI h1 h2
  · cases t with
    | start n sc a => exact (ht n sc a rfl).elim
    | _ => trivial
  · intro sc a h; exact absurd h (ht _ _ _)

theorem text_tinv (hI : TInv b s) (hm : s.mode = .text) (t : Token)
    (ht : match t with | .char _ => True | .eof => True | .end _ => True | _ => False) : TPost b (text c s t) := by
  have hmf := mt_restore (hm ▸ hI.modes) (Or.inl rfl)
  cases t with
  | char cc => exact hI
  | eof => exact ⟨⟨(shrinks_pop).ok hI.tree, hI.tmodes, hI.head, hmf⟩, rfl⟩
  | «end» n => exact ⟨(shrinks_pop).ok hI.tree, hI.tmodes, hI.head, hmf⟩
  | start n sc a => exact ht.elim
  | comment => exact ht.elim
  | doctype d => exact ht.elim

end LolHtml.Spec.TreeBuilder
