import LolHtml.Lemmas.Preserve
/-!
A refinement of `Lemmas/Preserve.lean`: every lexeme the parser hands to its sink carries the
parser context's `previously_consumed_byte_count`, which no layer of the interpreter changes before
`Parser.parse` returns. So a predicate on the sink that the sink operations preserve *for lexemes
with `prevConsumed = pc`* is preserved by `Parser::parse` started with that `pc`.
-/
namespace LolHtml.Model

variable {κ : Type}

/-- `P` is preserved by the four sink operations on lexemes located by `pc`. -/
structure OpsPreserveAt (ops : SinkOps κ) (inp : Bytes) (pc : Nat) (P : κ → Prop) : Prop where
  handleTag : ∀ lx k, lx.prevConsumed = pc → P k → P (ops.handleTag inp lx k).1
  handleNonTag : ∀ lx k, lx.prevConsumed = pc → P k → P (ops.handleNonTag inp lx k).1
  startTagHint : ∀ n ns k, P k → P (ops.startTagHint n ns k).1
  endTagHint : ∀ n k, P k → P (ops.endTagHint n k).1

/-- the invariant carried through the interpreter -/
def CtxInv (pc : Nat) (P : κ → Prop) (x : Ctx κ) : Prop := x.prevConsumed = pc ∧ P x.sink

section
variable {env : Env κ} {inp : Bytes} {pc : Nat} {P : κ → Prop}

theorem pc_lexEmitNonTag (h : OpsPreserveAt env.ops inp pc P) (c : Common) (l : LexRegs) (x : Ctx κ)
    (o : Option NonTagOutline) (e : Nat) (hp : CtxInv pc P x) :
    CtxInv pc P (lexEmitNonTag env inp c l x o e).1.x := by
  unfold lexEmitNonTag
  have := h.handleNonTag ⟨x.prevConsumed, ⟨l.lexemeStart, e⟩, o⟩ x.sink hp.1 hp.2
  dsimp only
  split <;> exact ⟨hp.1, this⟩

theorem pc_lexEmitText (h : OpsPreserveAt env.ops inp pc P) (c : Common) (l : LexRegs) (x : Ctx κ)
    (hp : CtxInv pc P x) : CtxInv pc P (lexEmitText env inp c l x).1.x := by
  unfold lexEmitText
  split
  · exact pc_lexEmitNonTag h _ _ _ _ _ hp
  · exact hp

theorem pc_lexEmitEof (h : OpsPreserveAt env.ops inp pc P) (m : M κ) (hp : CtxInv pc P m.x) :
    CtxInv pc P (lexEmitEof env inp m).1.x := by
  unfold lexEmitEof
  split
  · exact pc_lexEmitNonTag h _ _ _ _ _ hp
  · exact hp

theorem pc_andThen (r : M κ × Option Signal) (g : M κ → M κ × Option Signal)
    (hr : CtxInv pc P r.1.x) (hg : ∀ m, CtxInv pc P m.x → CtxInv pc P (g m).1.x) : CtxInv pc P (andThen r g).1.x := by
  unfold andThen
  split
  · exact hr
  · exact hg _ hr

theorem pc_lexEmitTagLexeme (h : OpsPreserveAt env.ops inp pc P) (c : Common) (l : LexRegs) (x : Ctx κ)
    (sim : Sim) (t : TagOutline) (e : Nat) (hp : CtxInv pc P x) :
    CtxInv pc P (lexEmitTagLexeme env inp c l x sim t e).1.x := by
  unfold lexEmitTagLexeme
  have := h.handleTag ⟨x.prevConsumed, ⟨l.lexemeStart, e⟩, t⟩ x.sink hp.1 hp.2
  dsimp only
  split <;> exact ⟨hp.1, this⟩

theorem pc_lexEmitTag (h : OpsPreserveAt env.ops inp pc P) (c : Common) (l : LexRegs) (x : Ctx κ)
    (hp : CtxInv pc P x) : CtxInv pc P (lexEmitTag env inp c l x).1.x := by
  unfold lexEmitTag
  split
  · exact hp
  · dsimp only
    split
    · exact hp
    · split
      · exact hp
      · exact pc_lexEmitTagLexeme h _ _ _ _ _ _ hp

theorem pc_lexAct (h : OpsPreserveAt env.ops inp pc P) (a : ActName) (c : Common) (l : LexRegs) (x : Ctx κ)
    (hp : CtxInv pc P x) : CtxInv pc P (lexAct env a inp c l x).1.x := by
  cases a <;> simp only [lexAct]
  case emitText => exact pc_lexEmitText h _ _ _ hp
  case emitTextAndEof =>
    exact pc_andThen _ _ (pc_lexEmitText h _ _ _ hp) (fun m hm => pc_lexEmitEof h m hm)
  case emitCurrentToken => exact pc_lexEmitNonTag h _ _ _ _ _ hp
  case emitCurrentTokenAndEof =>
    exact pc_andThen _ _ (pc_lexEmitNonTag h _ _ _ _ _ hp) (fun m hm => pc_lexEmitEof h m hm)
  case emitRawWithoutToken => exact pc_lexEmitNonTag h _ _ _ _ _ hp
  case emitRawWithoutTokenAndEof =>
    exact pc_andThen _ _ (pc_lexEmitNonTag h _ _ _ _ _ hp) (fun m hm => pc_lexEmitEof h m hm)
  case emitTag => exact pc_lexEmitTag h _ _ _ hp
  all_goals (repeat' split) <;> exact hp

theorem pc_scanEmitHint (h : OpsPreserveAt env.ops inp pc P) (c : Common) (s : ScanRegs) (x : Ctx κ)
    (ts : Nat) (ie : Bool) (hp : CtxInv pc P x) : CtxInv pc P (scanEmitHint env inp c s x ts ie).1.x := by
  unfold scanEmitHint
  split
  · exact hp
  · rename_i name _
    have : P (if ie = true then env.ops.endTagHint name x.sink
        else env.ops.startTagHint name x.sim.currentNs x.sink).1 := by
      split
      · exact h.endTagHint _ _ hp.2
      · exact h.startTagHint _ _ _ hp.2
    dsimp only
    split <;> exact ⟨hp.1, this⟩

theorem pc_scanFinishTagName (h : OpsPreserveAt env.ops inp pc P) (c : Common) (s : ScanRegs) (x : Ctx κ)
    (hp : CtxInv pc P x) : CtxInv pc P (scanFinishTagName env inp c s x).1.x := by
  unfold scanFinishTagName
  split
  · exact hp
  · dsimp only
    split
    · exact hp
    · split
      · exact hp
      · exact pc_scanEmitHint h _ _ _ _ _ hp

theorem pc_scanAct (h : OpsPreserveAt env.ops inp pc P) (a : ActName) (c : Common) (s : ScanRegs) (x : Ctx κ)
    (hp : CtxInv pc P x) : CtxInv pc P (scanAct env a inp c s x).1.x := by
  cases a <;> simp only [scanAct]
  case finishTagName => exact pc_scanFinishTagName h _ _ _ hp
  all_goals (repeat' split) <;> exact hp

theorem pc_act (h : OpsPreserveAt env.ops inp pc P) (a : ActName) (m : M κ) (hp : CtxInv pc P m.x) :
    CtxInv pc P (act env a inp m).1.x := by
  unfold act
  split
  · exact pc_lexAct h _ _ _ _ hp
  · exact pc_scanAct h _ _ _ _ hp

theorem pc_runCalls (h : OpsPreserveAt env.ops inp pc P) (cs : List Call) (m : M κ) (hp : CtxInv pc P m.x) :
    CtxInv pc P (runCalls env inp cs m).1.x := by
  induction cs generalizing m with
  | nil => simpa [runCalls] using hp
  | cons cl cs ih =>
    simp only [runCalls]
    have h1 := pc_act h cl.act m hp
    split
    · split
      · exact h1
      · exact ih _ h1
    · exact ih _ h1

theorem applyTrans_x (t : Trans) (m : M κ) : (applyTrans env t m).1.x = m.x := by
  cases t <;> simp only [applyTrans]
  split <;> rfl

theorem pc_runSeq (h : OpsPreserveAt env.ops inp pc P) (s : ActSeq) (m : M κ) (hp : CtxInv pc P m.x) :
    CtxInv pc P (runSeq env inp s m).1.x := by
  unfold runSeq
  have h1 := pc_runCalls h s.calls m hp
  dsimp only
  split
  · exact h1
  · split
    · exact h1
    · simpa [applyTrans_x] using h1

theorem pc_runBody (h : OpsPreserveAt env.ops inp pc P) (b : Body) (m : M κ) (hp : CtxInv pc P m.x) :
    CtxInv pc P (runBody env inp b m).1.x := by
  cases b with
  | seq s => exact pc_runSeq h s m hp
  | ite c t e =>
    simp only [runBody]
    split
    · exact hp
    · exact pc_runSeq h _ m hp
    · exact pc_runSeq h _ m hp

theorem adjustForNextInput_x (m : M κ) : (adjustForNextInput m).x = m.x := by
  unfold adjustForNextInput
  (repeat' split) <;> rfl

theorem breakOnEndOfInput_x (m : M κ) : (breakOnEndOfInput inp m).1.x = m.x := by
  unfold breakOnEndOfInput
  dsimp only
  (repeat' split) <;> simp [adjustForNextInput_x]

theorem enterSeq_x (m : M κ) : (enterSeq m).x = m.x := by
  unfold enterSeq; split <;> rfl

theorem leaveSeq_x (m : M κ) : (leaveSeq m).x = m.x := by
  unfold leaveSeq; split <;> rfl

def SumCtx (Q : Ctx κ → Prop) : (M κ × Option Signal) ⊕ M κ → Prop
  | .inl r => Q r.1.x
  | .inr m => Q m.x

theorem pc_runSeqArms (h : OpsPreserveAt env.ops inp pc P) (ch : Option UInt8) (arms : List Arm) (m : M κ)
    (hp : CtxInv pc P m.x) : SumCtx (CtxInv pc P) (runSeqArms env inp ch arms m) := by
  induction arms generalizing m with
  | nil => simpa [runSeqArms, SumCtx] using hp
  | cons arm rest ih =>
    simp only [runSeqArms]
    split
    · split
      · exact ih _ (by simpa [leaveSeq_x, enterSeq_x] using hp)
      · split
        · simpa [SumCtx, breakOnEndOfInput_x, enterSeq_x] using hp
        · exact ih _ (by simpa [leaveSeq_x, enterSeq_x] using hp)
        · simp only [SumCtx]
          apply pc_runBody h
          simpa [leaveSeq_x, enterSeq_x] using hp
    · exact ih _ hp

theorem pc_dispatch (h : OpsPreserveAt env.ops inp pc P) (ch : Option UInt8) (arms : List Arm) (m : M κ)
    (hp : CtxInv pc P m.x) : CtxInv pc P (dispatch env inp ch arms m).1.x := by
  unfold dispatch
  have h1 := pc_runSeqArms h ch arms m hp
  split
  · rename_i r heq
    rw [heq] at h1
    exact h1
  · rename_i m' heq
    rw [heq] at h1
    simp only [SumCtx] at h1
    split
    · exact h1
    · rename_i arm _
      have h2 := pc_runBody h arm.body m' h1
      split
      · dsimp only
        (repeat' split) <;> first | exact h2 | simpa [breakOnEndOfInput_x] using h2
      · split
        · dsimp only
          (repeat' split) <;> first | exact h2 | simpa [breakOnEndOfInput_x] using h2
        · simpa [breakOnEndOfInput_x] using h1
      · exact h2

theorem pc_stateFn (h : OpsPreserveAt env.ops inp pc P) (m : M κ) (hp : CtxInv pc P m.x) :
    CtxInv pc P (stateFn env inp m).1.x := by
  unfold stateFn
  split
  · exact hp
  · rename_i sd _
    dsimp only
    have hpre : CtxInv pc P (if (!sd.enter.isEmpty && !m.c.entered) = true then
        (let m1 : M κ := { m with c := { m.c with nextPos := m.c.nextPos + 1 } }
         let r := runCalls env inp sd.enter m1
         match r.2 with
         | some sig => (r.1, some sig)
         | none =>
           let m2 := r.1
           (({ m2 with c := { m2.c with nextPos := m2.c.nextPos - 1, entered := true } } : M κ), (none : Option Signal)))
        else (m, none)).1.x := by
      split
      · have h1 := pc_runCalls h sd.enter { m with c := { m.c with nextPos := m.c.nextPos + 1 } } hp
        dsimp only
        split <;> exact h1
      · exact hp
    split
    · exact hpre
    · split
      · split <;> exact pc_dispatch h _ _ _ hpre
      · exact pc_dispatch h _ _ _ hpre

theorem pc_runLoop (h : OpsPreserveAt env.ops inp pc P) (n : Nat) (m : M κ) (hp : CtxInv pc P m.x) :
    CtxInv pc P (runLoop env inp n m).1.x := by
  induction n generalizing m with
  | zero => simpa [runLoop] using hp
  | succ n ih =>
    simp only [runLoop]
    have h1 := pc_stateFn h m hp
    split
    · exact h1
    · exact ih _ h1

theorem Parser.machine_x (p : Parser κ) (last : Bool) : (p.machine last).x = p.x := by
  unfold Parser.machine; split <;> rfl

theorem Parser.store_x (p : Parser κ) (m : M κ) : (p.store m).x = m.x := by
  unfold Parser.store; split <;> rfl

theorem loadBookmark_x (d : Directive) (bm : Bookmark) (p : Parser κ) :
    (loadBookmark env d bm p).x = p.x := by
  unfold loadBookmark; split <;> rfl

/-- **Located preservation.** `P` holds of the sink after `Parser::parse`; the byte count of the
context has grown by exactly the number of bytes reported consumed (and not at all on error). -/
theorem Parser.parseLoop_at (h : OpsPreserveAt env.ops inp pc P) (last : Bool) (n : Nat) (p : Parser κ)
    (hp : CtxInv pc P p.x) :
    P (Parser.parseLoop env inp last n p).1.x.sink ∧
    (Parser.parseLoop env inp last n p).1.x.prevConsumed =
      pc + (match (Parser.parseLoop env inp last n p).2 with | .ok c => c | .error _ => 0) := by
  induction n generalizing p with
  | zero => simpa [Parser.parseLoop] using ⟨hp.2, hp.1⟩
  | succ n ih =>
    simp only [Parser.parseLoop]
    have h1 := pc_runLoop h (defaultFuel inp) (p.machine last) (by simpa [Parser.machine_x] using hp)
    split
    · simpa [Parser.store_x] using ⟨h1.2, h1.1⟩
    · apply ih
      simpa [loadBookmark_x, Parser.store_x] using h1
    · simpa [Parser.store_x] using ⟨h1.2, h1.1⟩
    · simpa [Parser.store_x] using ⟨h1.2, h1.1⟩

theorem Parser.parse_at (h : OpsPreserveAt env.ops inp pc P) (last : Bool) (p : Parser κ)
    (hp : CtxInv pc P p.x) :
    P (Parser.parse env inp last p).1.x.sink ∧
    (Parser.parse env inp last p).1.x.prevConsumed =
      pc + (match (Parser.parse env inp last p).2 with | .ok c => c | .error _ => 0) :=
  Parser.parseLoop_at h last _ p hp

end
end LolHtml.Model
