import LolHtml.Lemmas.LocationsOk
import LolHtml.Lemmas.ParseRel
import LolHtml.Lemmas.InvStream
/-!
The location invariant for EVERY controller — element content removal included.

`Disp.resumeEmission` (the end tag of a removed element) sets `remaining_content_start := raw.start`
without a bounds check; that this never moves it backwards is the lexer's register invariant
`remaining_content_start ≤ lexeme_start` of package `inv` (`SinkSafe` / `parse_post`). The argument:

* `guardedOps`: the dispatcher with `handle_tag` refusing (error `guardErr`) a lexeme that starts before
  `remaining_content_start`. It keeps `LInv2` unconditionally (`guardedOps_LInv2`), hence so does
  `parse` over it (`Parser.parse_ok`).
* `guardedOps` is a safe sink in `inv`'s sense, so `parse` over it never returns `guardErr` (`parse_post`).
* `parse` over the real dispatcher coincides with `parse` over `guardedOps` unless the latter returns
  `guardErr` (`Parser.parse_rel`).
-/
namespace LolHtml.Model

variable {γ : Type}

/-- the location invariant without the "emission is on" clause -/
structure LInv2 (log : γ → List Token) (pc : Nat) (d : Disp γ) : Prop where
  ordered : Ordered (log d.ctl)
  below : ∀ a ∈ log d.ctl, a.src.end ≤ pc + d.rcs
  pending : d.textPending = true → d.textPendingStart ≤ pc + d.rcs ∧ ∀ a ∈ log d.ctl, a.src.end ≤ d.textPendingStart

/-- like `GoodD`, for `LInv2`-style predicates (definitionally the same notion) -/
abbrev Good2 {α : Type} (log : γ → List Token) (Q : Disp γ → Prop) (r : DRes γ α) : Prop := GoodD log Q r

section
variable {ctl : Controller γ} {log : γ → List Token} {pc : Nat} {inp : Bytes}

theorem LInv2.mono_rcs {d d' : Disp γ} (h : LInv2 log pc d) (hc : log d'.ctl = log d.ctl) (hr : d.rcs ≤ d'.rcs)
    (htp : d'.textPending = d.textPending) (hts : d'.textPendingStart = d.textPendingStart) : LInv2 log pc d' := by
  refine ⟨by rw [hc]; exact h.ordered, ?_, ?_⟩
  · intro a ha; rw [hc] at ha; have := h.below a ha; omega
  · intro hp
    rw [htp] at hp
    obtain ⟨p1, p2⟩ := h.pending hp
    rw [hts, hc]
    exact ⟨by omega, p2⟩

theorem LInv2.frame {d d' : Disp γ} (h : LInv2 log pc d) (hc : log d'.ctl = log d.ctl) (hr : d'.rcs = d.rcs)
    (htp : d'.textPending = d.textPending) (hts : d'.textPendingStart = d.textPendingStart) : LInv2 log pc d' :=
  h.mono_rcs hc (by omega) htp hts

theorem Good2.of_inv {α : Type} {Q : Disp γ → Prop} {r : DRes γ α} (h : LInv2 log pc r.1) (hq : Q r.1) :
    Good2 log Q r := ⟨h.ordered, fun _ _ => hq⟩

theorem flushPendingText_good2 (hlog : Logging ctl log) (d : Disp γ) (h : LInv2 log pc d) :
    Good2 log (fun d' => LInv2 log pc d' ∧ d'.textPending = false ∧ d'.rcs = d.rcs) (d.flushPendingText ctl) := by
  unfold Disp.flushPendingText
  split
  · rename_i hp
    obtain ⟨p1, p2⟩ := h.pending hp
    obtain ⟨t1, t2, t3, t4, t5⟩ := tokenProduced_log hlog { d with textPending := false }
      (.text [] d.lastTextType true ⟨d.textPendingStart, d.textPendingStart⟩)
    have hinv : LInv2 log pc (Disp.tokenProduced ctl { d with textPending := false }
        (.text [] d.lastTextType true ⟨d.textPendingStart, d.textPendingStart⟩)).1 := by
      refine ⟨?_, ?_, ?_⟩
      · rw [t1]; exact h.ordered.append (Nat.le_refl _) p2
      · intro a ha
        rw [t1] at ha
        rw [t2]
        rcases List.mem_append.mp ha with h1 | h1
        · exact h.below a h1
        · simp only [List.mem_singleton] at h1; subst h1; exact p1
      · intro hp'; rw [t3] at hp'; simp at hp'
    exact Good2.of_inv hinv ⟨hinv, by rw [t3], by rw [t2]⟩
  · rename_i hp
    exact Good2.of_inv h ⟨h, by simpa using hp, rfl⟩

theorem emitChunkBefore_LInv2 {d d' : Disp γ} {raw : Range} (h : LInv2 log pc d)
    (he : d.emitChunkBefore inp raw = .ok d') :
    LInv2 log pc d' ∧ d'.rcs = raw.start ∧ d.rcs ≤ raw.start ∧ d'.textPending = d.textPending ∧ d'.ctl = d.ctl := by
  unfold Disp.emitChunkBefore at he
  split at he
  · simp at he
  · rename_i chunk hs
    obtain ⟨h1, _, _⟩ := checkedSlice_some hs
    simp only at h1
    simp only [Except.ok.injEq] at he
    subst he
    refine ⟨?_, rfl, h1, ?_, ?_⟩
    · apply h.mono_rcs
      · split <;> rfl
      · exact h1
      · split <;> rfl
      · split <;> rfl
    · split <;> rfl
    · split <;> rfl

theorem emitToken_good2 (hlog : Logging ctl log) (d : Disp γ) (raw : Range) (tok : Token)
    (hsrc : tok.src = srcOf pc raw) (hraw : raw.start ≤ raw.end) (hnp : d.textPending = false) (h : LInv2 log pc d) :
    Good2 log (fun d' => LInv2 log pc d' ∧ d'.textPending = false) (d.emitToken ctl inp raw tok) := by
  unfold Disp.emitToken
  cases he : d.emitChunkBefore inp raw with
  | error e => exact ⟨by simpa [DRes.ofExcept, DRes.bind] using h.ordered, fun a ha => by simp [DRes.ofExcept, DRes.bind] at ha⟩
  | ok d1 =>
    obtain ⟨hd1, hrcs, hle, htp, hctl⟩ := emitChunkBefore_LInv2 h he
    simp only [DRes.ofExcept, DRes.bind]
    obtain ⟨t1, t2, t3, t4, t5⟩ := tokenProduced_log hlog d1 tok
    have hsrc1 : tok.src.start = pc + raw.start := by rw [hsrc]; rfl
    have hsrc2 : tok.src.end = pc + raw.end := by rw [hsrc]; rfl
    have hord : Ordered (log (Disp.tokenProduced ctl d1 tok).1.ctl) := by
      rw [t1]
      apply hd1.ordered.append (by omega)
      intro a ha
      have := hd1.below a ha
      omega
    cases hres : (Disp.tokenProduced ctl d1 tok).2 with
    | error e => exact ⟨hord, fun a ha => by simp at ha⟩
    | ok u =>
      simp only
      have hfe : ∀ d0 : Disp γ, d0.flushEncodingChange.ctl = d0.ctl ∧ d0.flushEncodingChange.rcs = d0.rcs ∧
          d0.flushEncodingChange.textPending = d0.textPending ∧ d0.flushEncodingChange.textPendingStart = d0.textPendingStart := by
        intro d0; unfold Disp.flushEncodingChange; (repeat' split) <;> simp
      obtain ⟨f1, f2, f3, f4⟩ := hfe { Disp.tokenProduced ctl d1 tok |>.1 with rcs := raw.end }
      have hfinal : LInv2 log pc ({ Disp.tokenProduced ctl d1 tok |>.1 with rcs := raw.end }).flushEncodingChange := by
        refine ⟨?_, ?_, ?_⟩
        · rw [f1]; exact hord
        · intro a ha
          rw [f1] at ha
          simp only at ha
          rw [t1] at ha
          rw [f2]
          simp only
          rcases List.mem_append.mp ha with h1 | h1
          · have := hd1.below a h1; omega
          · simp only [List.mem_singleton] at h1; subst h1; omega
        · intro hp
          rw [f3] at hp
          simp only at hp
          rw [t3, htp, hnp] at hp
          simp at hp
      exact ⟨hfinal.ordered, fun _ _ => ⟨hfinal, by rw [f3]; simp only; rw [t3, htp, hnp]⟩⟩

theorem produceTag_good2 (hlog : Logging ctl log) (d : Disp γ) (lx : TagLexeme)
    (hpc : lx.prevConsumed = pc) (hnp : d.textPending = false) (h : LInv2 log pc d) :
    Good2 log (fun d' => LInv2 log pc d' ∧ d'.textPending = false) (d.produceTag ctl inp lx) := by
  unfold Disp.produceTag
  split
  · exact Good2.of_inv h ⟨h, hnp⟩
  · rename_i ft hft
    split
    · exact Good2.of_inv (h.frame rfl rfl rfl rfl) ⟨h.frame rfl rfl rfl rfl, hnp⟩
    · rename_i tok htok
      have hsrc := tagToToken_src (inp := inp) (f := d.flags) (f' := ft.1) (lx := lx) (tok := tok) (by rw [hft, ← htok])
      rw [hpc] at hsrc
      exact emitToken_good2 hlog { d with flags := ft.1 } lx.raw tok hsrc.1 hsrc.2.1 hnp (h.frame rfl rfl rfl rfl)

theorem produceText_good2 (hlog : Logging ctl log) (d : Disp γ) (lx : NonTagLexeme) (tt : TextType)
    (hpc : lx.prevConsumed = pc) (h : LInv2 log pc d) : Good2 log (LInv2 log pc) (d.produceText ctl inp lx tt) := by
  subst hpc
  unfold Disp.produceText
  split
  · exact Good2.of_inv h h
  · rename_i rawb hraw
    obtain ⟨r1, r2, _⟩ := checkedSlice_some hraw
    cases he : d.emitChunkBefore inp lx.raw with
    | error e => exact ⟨by simpa [DRes.ofExcept, DRes.bind] using h.ordered, fun a ha => by simp [DRes.ofExcept, DRes.bind] at ha⟩
    | ok d1 =>
      obtain ⟨hd1, hrcs, hle, htp, hctl⟩ := emitChunkBefore_LInv2 h he
      simp only [DRes.ofExcept, DRes.bind]
      obtain ⟨t1, t2, t3, t4, t5⟩ := tokenProduced_log hlog { d1 with lastTextType := tt }
        (.text rawb tt false (srcOf lx.prevConsumed lx.raw))
      have hs1 : (Token.text rawb tt false (srcOf lx.prevConsumed lx.raw)).src.start = lx.prevConsumed + lx.raw.start := rfl
      have hs2 : (Token.text rawb tt false (srcOf lx.prevConsumed lx.raw)).src.end = lx.prevConsumed + lx.raw.end := rfl
      have hord : Ordered (log (Disp.tokenProduced ctl { d1 with lastTextType := tt }
          (.text rawb tt false (srcOf lx.prevConsumed lx.raw))).1.ctl) := by
        rw [t1]
        apply hd1.ordered.append (by omega)
        intro a ha
        have := hd1.below a ha
        omega
      cases hres : (Disp.tokenProduced ctl { d1 with lastTextType := tt } (.text rawb tt false (srcOf lx.prevConsumed lx.raw))).2 with
      | error e => exact ⟨hord, fun a ha => by simp at ha⟩
      | ok u =>
        simp only
        have hbelow : ∀ a ∈ log d1.ctl ++ [Token.text rawb tt false (srcOf lx.prevConsumed lx.raw)],
            a.src.end ≤ lx.prevConsumed + lx.raw.end := by
          intro a ha
          rcases List.mem_append.mp ha with h1 | h1
          · have := hd1.below a h1; omega
          · simp only [List.mem_singleton] at h1; subst h1; omega
        have hfinal : LInv2 log lx.prevConsumed
            { (Disp.tokenProduced ctl { d1 with lastTextType := tt } (.text rawb tt false (srcOf lx.prevConsumed lx.raw))).1 with
              textPending := true, textPendingStart := lx.prevConsumed + lx.raw.end, rcs := lx.raw.end } := by
          refine ⟨hord, ?_, ?_⟩
          · simp only; rw [t1]; exact hbelow
          · intro _
            simp only
            rw [t1]
            exact ⟨Nat.le_refl _, hbelow⟩
        exact ⟨hfinal.ordered, fun _ _ => hfinal⟩

theorem produceNonTag_good2 (hlog : Logging ctl log) (d : Disp γ) (lx : NonTagLexeme)
    (hpc : lx.prevConsumed = pc) (hnp : lx.isText = false → d.textPending = false) (h : LInv2 log pc d) :
    Good2 log (LInv2 log pc) (d.produceNonTag ctl inp lx) := by
  unfold Disp.produceNonTag
  split
  · split
    · exact produceText_good2 hlog d lx _ hpc h
    · exact Good2.of_inv h h
  · rename_i hnt
    have hnt' : lx.isText = false := by
      unfold NonTagLexeme.isText
      split
      · rename_i tt' heq; exact absurd heq (hnt tt')
      · rfl
    split
    · exact Good2.of_inv h h
    · exact Good2.of_inv h h
    · rename_i tok htok
      have hsrc := nonTagToToken_src htok
      rw [hpc] at hsrc
      have := emitToken_good2 (inp := inp) hlog d lx.raw tok hsrc.1 hsrc.2.1 (hnp hnt') h
      exact ⟨this.1, fun a ha => (this.2 a ha).1⟩

/-- `handle_tag` on a lexeme that starts at or after `remaining_content_start` -/
theorem handleTag_good2 (hlog : Logging ctl log) (lx : TagLexeme) (d : Disp γ)
    (hpc : lx.prevConsumed = pc) (hsafe : d.rcs ≤ lx.raw.start) (h : LInv2 log pc d) :
    Good2 log (LInv2 log pc) (Disp.handleTag ctl inp lx d) := by
  unfold Disp.handleTag
  apply (flushPendingText_good2 hlog d h).bind
  intro d1 _ ⟨hd1, hp1, hr1⟩
  apply GoodD.bind (Q := fun d' => LInv2 log pc d' ∧ d'.textPending = false ∧ d'.rcs = d.rcs)
  · split
    · exact Good2.of_inv (hd1.frame rfl rfl rfl rfl) ⟨hd1.frame rfl rfl rfl rfl, hp1, hr1⟩
    · obtain ⟨a, b, c, e, f⟩ := adjustFlagsForTag_LFrame (inp := inp) hlog d1 lx
      exact Good2.of_inv (hd1.frame a b c e) ⟨hd1.frame a b c e, by rw [c]; exact hp1, by rw [b]; exact hr1⟩
  · intro d2 _ ⟨hd2, hp2, hr2⟩
    have hres : LInv2 log pc (d2.resumeEmission ctl lx) ∧ (d2.resumeEmission ctl lx).textPending = false := by
      unfold Disp.resumeEmission
      split
      · exact ⟨hd2.mono_rcs rfl (by simp only; omega) rfl rfl, hp2⟩
      · exact ⟨hd2, hp2⟩
    apply (produceTag_good2 (inp := inp) hlog _ lx hpc hres.2 hres.1).bind
    intro d3 _ ⟨hd3, _⟩
    have : LInv2 log pc { d3 with emissionEnabled := ctl.shouldEmit d3.ctl } := hd3.frame rfl rfl rfl rfl
    exact Good2.of_inv this this

theorem handleNonTag_good2 (hlog : Logging ctl log) (lx : NonTagLexeme) (d : Disp γ)
    (hpc : lx.prevConsumed = pc) (h : LInv2 log pc d) : Good2 log (LInv2 log pc) (Disp.handleNonTag ctl inp lx d) := by
  unfold Disp.handleNonTag
  apply GoodD.bind (Q := fun d' => LInv2 log pc d' ∧ (lx.isText = false → d'.textPending = false))
  · split
    · rename_i ht
      exact Good2.of_inv h ⟨h, fun hf => by rw [ht] at hf; simp at hf⟩
    · have := flushPendingText_good2 hlog d h
      exact ⟨this.1, fun a ha => ⟨(this.2 a ha).1, fun _ => (this.2 a ha).2.1⟩⟩
  · intro d1 _ ⟨hd1, hp1⟩
    exact produceNonTag_good2 hlog d1 lx hpc hp1 hd1

theorem startTagHint_LInv2 (hlog : Logging ctl log) (name : LocalName) (ns : Ns) (d : Disp γ) (h : LInv2 log pc d) :
    LInv2 log pc (Disp.startTagHint ctl name ns d).1 := by
  unfold Disp.startTagHint
  dsimp only
  split
  · exact h.frame (by simp [Disp.applyHintFlags, hlog.startTag]) rfl rfl rfl
  · exact h.frame (by simp [hlog.startTag]) rfl rfl rfl
  · exact h.frame (by simp [hlog.startTag]) rfl rfl rfl

theorem endTagHint_LInv2 (hlog : Logging ctl log) (name : LocalName) (d : Disp γ) (h : LInv2 log pc d) :
    LInv2 log pc (Disp.endTagHint ctl name d).1 := by
  unfold Disp.endTagHint
  have hf := flushPendingText_good2 hlog d h
  unfold DRes.bind
  split
  · -- the closing chunk's handler failed: the state is the one after `token_produced`, which satisfies `LInv2`
    unfold Disp.flushPendingText at *
    split
    · rename_i hp
      obtain ⟨p1, p2⟩ := h.pending hp
      obtain ⟨t1, t2, t3, t4, t5⟩ := tokenProduced_log hlog { d with textPending := false }
        (.text [] d.lastTextType true ⟨d.textPendingStart, d.textPendingStart⟩)
      refine ⟨?_, ?_, ?_⟩
      · rw [t1]; exact h.ordered.append (Nat.le_refl _) p2
      · intro a ha
        rw [t1] at ha
        rw [t2]
        rcases List.mem_append.mp ha with h1 | h1
        · exact h.below a h1
        · simp only [List.mem_singleton] at h1; subst h1; exact p1
      · intro hp'; rw [t3] at hp'; simp at hp'
    · exact h
  · rename_i a ha
    obtain ⟨hd1, _, _⟩ := hf.2 a ha
    dsimp only
    exact hd1.frame (by simp [Disp.applyHintFlags, hlog.endTag]) rfl rfl rfl

end

/-! ### the guarded dispatcher -/

/-- the error of the guard; not one of the model's panic sites -/
def guardErr : Err := .panic "guard: lexeme starts before remaining_content_start"

/-- the dispatcher as a sink, with `handle_tag` refusing a lexeme that starts before `remaining_content_start` -/
def guardedOps (ctl : Controller γ) : SinkOps (Disp γ) :=
  { handleTag := fun inp lx d => if d.rcs ≤ lx.raw.start then Disp.handleTag ctl inp lx d else (d, .error guardErr)
    handleNonTag := Disp.handleNonTag ctl
    startTagHint := Disp.startTagHint ctl
    endTagHint := Disp.endTagHint ctl }

section
variable {ctl : Controller γ} {log : γ → List Token} {pc : Nat} {inp : Bytes}

theorem guardedOps_LInv2 (hlog : Logging ctl log) :
    OpsPreserveOk (guardedOps ctl) inp pc (LInv2 (γ := γ) log pc) (fun d => Ordered (log d.ctl)) where
  handleTag := by
    intro lx k hpc hk
    simp only [guardedOps]
    split
    · rename_i hs
      exact ⟨fun a ha => (handleTag_good2 hlog lx k hpc hs hk).2 a ha, fun _ _ => (handleTag_good2 hlog lx k hpc hs hk).1⟩
    · exact ⟨fun a ha => by simp at ha, fun _ _ => hk.ordered⟩
  handleNonTag := fun lx k hpc hk =>
    ⟨fun a ha => (handleNonTag_good2 hlog lx k hpc hk).2 a ha, fun _ _ => (handleNonTag_good2 hlog lx k hpc hk).1⟩
  startTagHint := fun n ns k hk =>
    ⟨fun _ _ => startTagHint_LInv2 hlog n ns k hk, fun _ _ => (startTagHint_LInv2 hlog n ns k hk).ordered⟩
  endTagHint := fun n k hk =>
    ⟨fun _ _ => endTagHint_LInv2 hlog n k hk, fun _ _ => (endTagHint_LInv2 hlog n k hk).ordered⟩
  weaken := fun _ hk => hk.ordered

/-- the guarded dispatcher agrees with the real one, or aborts with `guardErr` -/
theorem guardedOps_rel : OpsRel (guardedOps ctl) (dispOps ctl) inp Eq guardErr where
  handleTag := by
    intro lx k₁ k₂ hk
    subst hk
    simp only [guardedOps, dispOps]
    split
    · exact Or.inl ⟨rfl, rfl⟩
    · exact Or.inr rfl
  handleNonTag := by intro lx k₁ k₂ hk; subst hk; exact Or.inl ⟨rfl, rfl⟩
  startTagHint := by intro n ns k₁ k₂ hk; subst hk; exact Or.inl ⟨rfl, rfl⟩
  endTagHint := by intro n k₁ k₂ hk; subst hk; exact Or.inl ⟨rfl, rfl⟩

/-- the guarded dispatcher is a safe sink in `inv`'s sense (the guard passes on safe lexemes) -/
theorem guardedOps_safe (hc : CtlClean ctl) : SinkSafe (guardedOps ctl) (fun d : Disp γ => d.rcs) inp U1 where
  handleTag := by
    intro lx k h1 h2 h3
    simp only [guardedOps]
    rw [if_pos h1]
    exact (dispOps_safe (inp := inp) hc).handleTag lx k h1 h2 h3
  handleNonTag := (dispOps_safe (inp := inp) hc).handleNonTag
  startTagHint := (dispOps_safe (inp := inp) hc).startTagHint
  endTagHint := (dispOps_safe (inp := inp) hc).endTagHint

theorem guardErr_not_ok : ¬ ErrOK U1 guardErr := by
  simp [guardErr, ErrOK, U1]

end
end LolHtml.Model
