import LolHtml.Lemmas.TbAnchor
/-!
Which stack operations keep the anchor suffix (`Keeps`), under the guards the rules of "in body" put in
front of them.
-/
namespace LolHtml.Spec.TreeBuilder
open LolHtml.Model (Ns)

/-- the operation left the stack from its first anchor down as it was -/
def Keeps (t t' : Tree) : Prop := anchorSuffix t'.stack = anchorSuffix t.stack

theorem Keeps.refl (t : Tree) : Keeps t t := rfl
theorem Keeps.trans {a b c : Tree} (h1 : Keeps a b) (h2 : Keeps b c) : Keeps a c := Eq.trans h2 h1

theorem nonanchor_of_name {e : El} {n : Name} (h : e.isHtml n = true) (hn : n.isIn anchorNames = false) :
    e.isAnchor = false := by
  simp only [El.isHtml, Bool.and_eq_true, beq_iff_eq] at h
  simp [El.isAnchor, El.isHtmlIn, h.2, hn]

theorem nonanchor_of_names {e : El} {l : List Name} (h : e.isHtmlIn l = true)
    (hl : ∀ n : Name, n.isIn l = true → n.isIn anchorNames = false) : e.isAnchor = false := by
  simp only [El.isHtmlIn, Bool.and_eq_true] at h
  simp [El.isAnchor, El.isHtmlIn, hl _ h.2]

theorem foundAbove_mono (p q : El → Bool) (h : ∀ e, p e = true → q e = true) (st : List El)
    (hp : foundAbove p st = true) : foundAbove q st = true := by
  induction st with
  | nil => cases hp
  | cons x xs ih =>
    unfold foundAbove at hp ⊢
    split
    · rename_i hx; simp [hx] at hp
    · rename_i hx
      have hx' : x.isAnchor = false := by simpa using hx
      simp only [hx', Bool.false_eq_true, if_false, Bool.or_eq_true] at hp ⊢
      rcases hp with hp | hp
      · exact Or.inl (h x hp)
      · exact Or.inr (ih hp)

/-- generating implied end tags does not pop the element looked for, if that is excepted or not implied -/
theorem popImplied_foundAbove (l : List Name) (ex : Option Name) (p : El → Bool)
    (hp : ∀ e : El, (e.isHtmlIn l && !(ex == some e.name)) = true → p e = false) (st : List El)
    (h : foundAbove p st = true) : foundAbove p (popImplied l ex st) = true := by
  induction st with
  | nil => cases h
  | cons x xs ih =>
    unfold popImplied
    split
    · rename_i hx
      unfold foundAbove at h
      split at h
      · cases h
      · simp only [hp x hx, Bool.false_or] at h
        exact ih h
    · exact h

theorem keeps_pop_nonanchor (t : Tree) (h : ∀ e r, t.stack = e :: r → e.isAnchor = false) : Keeps t t.pop := by
  unfold Keeps Tree.pop
  cases hst : t.stack with
  | nil => rfl
  | cons e r => simp [anchorSuffix_cons_non e r (h e r hst)]

theorem keeps_pushNew (t : Tree) (ns : Ns) (n : Name) (a : Attrs) (h : ns ≠ .html ∨ n.isIn anchorNames = false) :
    Keeps t (t.pushNew ns n a) := by
  unfold Keeps Tree.pushNew
  apply anchorSuffix_cons_non
  rcases h with h | h
  · cases ns <;> simp_all [El.isAnchor, El.isHtmlIn]
  · simp [El.isAnchor, El.isHtmlIn, h]

theorem keeps_insertAndPop (t : Tree) (n : Name) (a : Attrs) : Keeps t (t.insertAndPop n a) := rfl

theorem keeps_genImplied (t : Tree) (ex : Option Name) : Keeps t (t.genImplied ex) :=
  popImplied_keep _ _ impliedNames_nonanchor _

/-- "generate implied end tags (except `n`); pop until an `n` element has been popped", the `n` element
being above the first anchor -/
theorem keeps_genImplied_popUntil (t : Tree) (ex : Option Name) (n : Name)
    (hex : ex = some n ∨ n.isIn impliedNames = false)
    (h : foundAbove (·.isHtml n) t.stack = true) : Keeps t ((t.genImplied ex).popUntilNamed n) := by
  unfold Keeps Tree.popUntilNamed Tree.genImplied
  simp only
  rw [popUntil_keep _ _ (popImplied_foundAbove _ _ _ ?_ _ h)]
  · exact popImplied_keep _ _ impliedNames_nonanchor _
  · intro e he
    simp only [Bool.and_eq_true, Bool.not_eq_true', El.isHtmlIn] at he
    obtain ⟨⟨_, h2⟩, h3⟩ := he
    cases hq : e.isHtml n
    · rfl
    · simp only [El.isHtml, Bool.and_eq_true, beq_iff_eq] at hq
      rcases hex with rfl | hex
      · simp [hq.2] at h3
      · rw [hq.2, hex] at h2; cases h2

theorem keeps_popUntilIn (t : Tree) (l : List Name) (h : foundAbove (·.isHtmlIn l) (t.genImplied).stack = true) :
    Keeps t ((t.genImplied).popUntilIn l) := by
  unfold Keeps Tree.popUntilIn
  simp only
  rw [popUntil_keep _ _ h]
  exact keeps_genImplied t none

/-- every anchor is in the "special" category -/
theorem anchor_special (d : Dev) (e : El) (h : e.isAnchor = true) : e.isSpecial d = true := by
  simp only [El.isAnchor, El.isHtmlIn, Bool.and_eq_true] at h
  obtain ⟨h1, h2⟩ := h
  have hs : e.name.isIn specialHtmlNames = true := by
    revert h2; cases e.name <;> simp [anchorNames, Name.isIn] <;> decide
  have hk : e.name ≠ .keygen ∧ e.name ≠ .search := by
    revert h2; cases e.name <;> simp [anchorNames, Name.isIn]
  unfold El.isSpecial
  split <;> simp [h1, hs, hk.1, hk.2]

theorem findEndTarget_prefix (d : Dev) (n : Name) (hn : n.isIn anchorNames = false) (st : List El) (i : Nat)
    (h : findEndTarget d n st = some i) : ∀ e ∈ st.take (i + 1), e.isAnchor = false := by
  induction st generalizing i with
  | nil => cases h
  | cons x xs ih =>
    unfold findEndTarget at h
    split at h
    · rename_i hx
      injection h with h; subst h
      intro e he
      simp only [List.take_succ_cons, List.take_zero, List.mem_cons, List.not_mem_nil, or_false] at he
      subst he
      exact nonanchor_of_name hx hn
    · split at h
      · cases h
      · rename_i hx hs
        cases hr : findEndTarget d n xs with
        | none => rw [hr] at h; cases h
        | some j =>
          rw [hr] at h
          simp only [Option.map] at h
          injection h with h; subst h
          intro e he
          rw [List.take_succ_cons] at he
          rcases List.mem_cons.mp he with rfl | he
          · cases hq : e.isAnchor
            · rfl
            · rw [anchor_special d e hq] at hs; exact absurd rfl hs
          · exact ih j hr e he

theorem keeps_anyOtherEndTag (c : Cfg) (t : Tree) (n : Name) (hn : n.isIn anchorNames = false) :
    Keeps t (t.anyOtherEndTag c n) := by
  unfold Keeps Tree.anyOtherEndTag
  cases h : findEndTarget c.dev n t.stack with
  | none => rfl
  | some i => exact drop_keep _ _ (findEndTarget_prefix c.dev n hn _ _ h)

theorem closeListItemTarget_found (d : Dev) (close : List Name) (st : List El) (n : Name)
    (h : closeListItemTarget d close st = some n) : foundAbove (·.isHtml n) st = true ∨
      ∃ e ∈ st, e.isAnchor = true ∧ e.isHtmlIn close = true := by
  induction st with
  | nil => cases h
  | cons x xs ih =>
    unfold closeListItemTarget at h
    split at h
    · rename_i hx
      injection h with h
      by_cases ha : x.isAnchor = true
      · exact Or.inr ⟨x, by simp, ha, hx⟩
      · left
        have ha' : x.isAnchor = false := by simpa using ha
        unfold foundAbove
        simp only [ha', Bool.false_eq_true, if_false, Bool.or_eq_true]
        left
        simp only [El.isHtmlIn, Bool.and_eq_true] at hx
        simp [El.isHtml, hx.1, h]
    · split at h
      · cases h
      · rename_i hx hs
        have ha : x.isAnchor = false := by
          cases hq : x.isAnchor
          · rfl
          · have := anchor_special d x hq
            simp only [this, Bool.true_and, Bool.not_eq_true', Bool.and_eq_true, not_and, Bool.not_eq_false] at hs
            -- an anchor is special and not address / div / p
            exfalso
            simp only [El.isAnchor, El.isHtmlIn, Bool.and_eq_true] at hq
            have : x.isHtmlIn [.address, .div, .p] = false := by
              simp only [El.isHtmlIn, Bool.and_eq_false_iff]; right
              revert hq; cases x.name <;> simp [anchorNames, Name.isIn]
            simp [this] at hs
        rcases ih h with h' | ⟨e, he, h1, h2⟩
        · left; unfold foundAbove; simp [ha, h']
        · exact Or.inr ⟨e, List.mem_cons_of_mem _ he, h1, h2⟩

theorem keeps_closeListItem (c : Cfg) (t : Tree) (close : List Name)
    (hclose : ∀ n : Name, n.isIn close = true → n.isIn anchorNames = false) : Keeps t (t.closeListItem c close) := by
  unfold Tree.closeListItem
  cases h : closeListItemTarget c.dev close t.stack with
  | none => exact Keeps.refl t
  | some n =>
    simp only
    rcases closeListItemTarget_found c.dev close t.stack n h with hf | ⟨e, _, h1, h2⟩
    · exact keeps_genImplied_popUntil t (some n) n (Or.inl rfl) hf
    · rw [nonanchor_of_names h2 hclose] at h1; cases h1

end LolHtml.Spec.TreeBuilder
