import LolHtml.Lemmas.TbHop3
/-!
Preservation of the invariant: "text", reset the insertion mode, the table modes.
-/
namespace LolHtml.Spec.TreeBuilder
open LolHtml.Model (Ns)

variable {b : Bool} {c : Cfg} {s : State}

/-- leaving "text" / "in table text": the original insertion mode becomes the mode -/
theorem mf_restore {m o : Mode} (h : MF b m o) (hm : m = .text ∨ m = .inTableText) : MF b o o ∧ o ≠ .inColumnGroup := by
  obtain ⟨a1, a2, a3, a4⟩ := h
  rcases hm with rfl | rfl
  · have a3 := a3 rfl
    simp only [List.mem_cons, List.mem_nil_iff, or_false, not_or] at a3
    refine ⟨⟨?_, ?_, ?_, ?_⟩, a3.2.2.2.2.2⟩
    · simp only [List.mem_cons, List.mem_nil_iff, or_false, not_or]; exact ⟨a3.2.2.1, a3.2.2.2.1, a3.2.2.2.2.1⟩
    · intro h; exact absurd h a3.2.1
    · intro h; exact absurd h a3.1
    · intro hb; exact ⟨(a4 hb).2 rfl, fun h => absurd h a3.1⟩
  · have a2 := a2 rfl
    simp only [List.mem_cons, List.mem_nil_iff, or_false] at a2
    rcases a2 with rfl | rfl | rfl <;> simp [MF, framesetModes]

theorem text_inv (hI : Inv b s) (hm : s.mode = .text) (t : Token)
    (ht : match t with | .char _ => True | .eof => True | .end _ => True | _ => False) : InvPost b (text c s t) := by
  obtain ⟨hmf, hcol⟩ := mf_restore (hm ▸ hI.modes) (Or.inl rfl)
  cases t with
  | char cc => exact Or.inl hI
  | eof => exact ⟨Or.inl ⟨(shrinks_pop).ok hI.tree, hI.tmodes, hI.head, hmf, hcol⟩, rfl⟩
  | «end» n => exact Or.inl ⟨(shrinks_pop).ok hI.tree, hI.tmodes, hI.head, hmf, hcol⟩
  | start n sc a => exact ht.elim
  | comment => exact ht.elim
  | doctype d => exact ht.elim

/-! ### reset the insertion mode appropriately -/

theorem resetLoop_ok (hleg : c.legacySelect = false) (hn : Bool) (st : List El)
    (hst : ∀ e ∈ st, PNoCol b e.name e.ns) :
    resetLoop c [] hn st ∈ [Mode.inCell, .inRow, .inTableBody, .inCaption, .inTable, .inHead, .inBody, .inFrameset,
      .beforeHead, .afterHead] ∧ (b = false → resetLoop c [] hn st ≠ .inFrameset) := by
  induction st with
  | nil => simp [resetLoop]
  | cons e es ih =>
    have he := hst e (by simp)
    have ih := ih (fun x hx => hst x (List.mem_cons_of_mem _ hx))
    obtain ⟨hns, hnt, hnc, hnf⟩ := he
    cases hname : e.name <;> simp only [hname, ne_eq, reduceCtorEq, not_true_eq_false, not_false_eq_true] at hnt hnc hnf <;>
      simp [resetLoop, hleg, El.isHtml, El.isHtmlIn, Name.isIn, hns, hname] <;>
      (repeat' split) <;>
      first
        | (simp; done)
        | exact ih
        | (simp_all; done)
        | (refine ⟨by simp, fun hb => ?_⟩; simp_all)

theorem mf_reset {m o : Mode} (h1 : m ∈ [Mode.inCell, .inRow, .inTableBody, .inCaption, .inTable, .inHead, .inBody, .inFrameset,
      .beforeHead, .afterHead]) (h2 : b = false → m ≠ .inFrameset) : MF b m o ∧ m ≠ .inColumnGroup := by
  simp only [List.mem_cons, List.mem_nil_iff, or_false] at h1
  rcases h1 with rfl | rfl | rfl | rfl | rfl | rfl | rfl | rfl | rfl | rfl <;> simp_all [MF, framesetModes]

/-- resetting the insertion mode of a state whose stack and pointers satisfy the invariant -/
theorem resetMode_inv (hleg : c.legacySelect = false) {s' : State} (ht : TreeOk (PNoCol b) s'.tree) (htm : s'.tmodes = [])
    (hh : HeadOk s') : Inv b (s'.resetMode c) := by
  have := resetLoop_ok (b := b) hleg s'.headPtr.isNone s'.tree.stack ht.stack
  obtain ⟨hm, hc⟩ := mf_reset (o := s'.origMode) this.1 this.2
  refine ⟨ht, htm, hh, ?_, ?_⟩
  · simpa [State.resetMode, htm] using hm
  · simpa [State.resetMode, htm] using hc

end LolHtml.Spec.TreeBuilder
