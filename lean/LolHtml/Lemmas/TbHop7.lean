import LolHtml.Lemmas.TbHop6
/-!
Preservation of the invariant: the modes before the body, after the body, and the frameset modes;
all modes together (`stepMode_inv`).
-/
namespace LolHtml.Spec.TreeBuilder
open LolHtml.Model (Ns)

variable {b : Bool} {c : Cfg} {s : State}

/-- per-mode proof: case on the token, then on the tag name; evaluate; split; close -/
syntax "mode_cases" ident ident ident ident ident ident "[" Lean.Parser.Tactic.simpLemma,* "]" : tactic
macro_rules
  | `(tactic| mode_cases $t:ident $hleg:ident $hI:ident $h1:ident $h2:ident $htok:ident [$defs,*]) => `(tactic|
    (cases $t:ident with
     | start n sc a =>
       cases n
       all_goals eval_rule [$defs,*]
       all_goals (repeat' split)
       all_goals table_branch $hleg $hI $h1 $h2 $htok
     | «end» n =>
       cases n
       all_goals eval_rule [$defs,*]
       all_goals (repeat' split)
       all_goals table_branch $hleg $hI $h1 $h2 $htok
     | char cc =>
       cases cc
       all_goals eval_rule [$defs,*]
       all_goals (repeat' split)
       all_goals table_branch $hleg $hI $h1 $h2 $htok
     | comment =>
       eval_rule [$defs,*]
       (repeat' split)
       all_goals table_branch $hleg $hI $h1 $h2 $htok
     | doctype d =>
       eval_rule [$defs,*]
       (repeat' split)
       all_goals table_branch $hleg $hI $h1 $h2 $htok
     | eof =>
       eval_rule [$defs,*]
       (repeat' split)
       all_goals table_branch $hleg $hI $h1 $h2 $htok))

set_option maxHeartbeats 8000000 in
theorem afterBody_inv (hleg : c.legacySelect = false) (hI : Inv b s) (hm : s.mode = .afterBody) (t : Token)
    (htok : TokOk b t) : InvPost b (afterBody c s t) := by
  have h1 : s.mode ≠ .text := by simp [hm]
  have h2 : s.mode ≠ .inTableText := by simp [hm]
  mode_cases t hleg hI h1 h2 htok [afterBody]

set_option maxHeartbeats 8000000 in
theorem afterAfterBody_inv (hleg : c.legacySelect = false) (hI : Inv b s) (hm : s.mode = .afterAfterBody) (t : Token)
    (htok : TokOk b t) : InvPost b (afterAfterBody c s t) := by
  have h1 : s.mode ≠ .text := by simp [hm]
  have h2 : s.mode ≠ .inTableText := by simp [hm]
  mode_cases t hleg hI h1 h2 htok [afterAfterBody]

end LolHtml.Spec.TreeBuilder
