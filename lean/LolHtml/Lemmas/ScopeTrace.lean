/-
Whole-document refinement (`steps`, `finish`, `runDoc`) and the trace-level facts about the reference
log (an end-tag closure runs at most once).
-/
import LolHtml.Lemmas.ScopeStart

namespace LolHtml.Lemmas.Scope
open LolHtml.Model.Handlers LolHtml.Model.Controller LolHtml.Spec.Scope

/-- One event: the model does not panic, logs exactly the promised invocations, and the invariant
moves to the new reference stack. -/
theorem step_refines (script : ElemScript) (sels : List SelReg) (docs : List DocReg)
    (sp : List OpenElem) (s : State) (ord : Nat) (ev : Event) (inv : Inv sels docs sp s)
    (wf : WfEvent sels.length ev) :
    ∃ s', step script s ord ev = .ok (s', expected sels docs sp ord ev) ∧
      Inv sels docs (openStep script sels sp ord ev) s' := by
  cases ev with
  | startTag name dir sc matched => exact step_startTag script sels docs sp s ord name dir sc matched inv wf
  | endTag name => exact step_endTag script sels docs sp s ord name inv
  | text => exact ⟨s, step_text script sels docs sp s ord inv, inv⟩
  | comment => exact ⟨s, step_comment script sels docs sp s ord inv, inv⟩
  | doctype => exact ⟨s, step_doctype script sels docs sp s ord inv, inv⟩

theorem steps_refines (script : ElemScript) (sels : List SelReg) (docs : List DocReg)
    (evs : List Event) : ∀ (sp : List OpenElem) (s : State) (ord : Nat), Inv sels docs sp s →
    WfEvents sels.length evs →
    ∃ s', steps script s ord evs = .ok (s', log script sels docs sp ord evs) ∧
      Inv sels docs (openStack script sels sp ord evs) s' := by
  induction evs with
  | nil => intro sp s ord inv _; exact ⟨s, rfl, inv⟩
  | cons e es ih =>
    intro sp s ord inv wf
    obtain ⟨s1, h1, inv1⟩ := step_refines script sels docs sp s ord e inv (wf e (by simp))
    obtain ⟨s2, h2, inv2⟩ := ih _ s1 (ord + 1) inv1 (fun e' he' => wf e' (by simp [he']))
    exact ⟨s2, by simp only [steps, h1, h2, log], inv2⟩

theorem ex_ok' {σ ε β : Type} {s0 : σ} {L E : β} (hL : L = E) :
    ∃ s', (Except.ok (s0, L) : Except ε (σ × β)) = .ok (s', E) := ⟨s0, by rw [hL]⟩

theorem filterMap_none {α β : Type} (l : List α) :
    (l.filterMap fun _ => (none : Option β)) = [] := by
  induction l with
  | nil => rfl
  | cons x xs ih => simp [ih]

theorem nodup_map_on {α β : Type} (f : α → β) (l : List α)
    (inj : ∀ a ∈ l, ∀ b ∈ l, f a = f b → a = b) (nd : l.Nodup) : (l.map f).Nodup := by
  induction l with
  | nil => simp
  | cons x xs ih =>
    simp only [List.nodup_cons] at nd
    simp only [List.map_cons, List.nodup_cons, List.mem_map]
    refine ⟨?_, ih (fun a ha b hb => inj a (by simp [ha]) b (by simp [hb])) nd.2⟩
    rintro ⟨y, hy, hxy⟩
    have := inj y (by simp [hy]) x (by simp) hxy
    subst this
    exact nd.1 hy

theorem finish_refines (sels : List SelReg) (docs : List DocReg) (sp : List OpenElem) (s : State)
    (ord : Nat) (inv : Inv sels docs sp s) :
    ∃ s', finish s ord = .ok (s', expectedEnd sels docs ord) := by
  have hB : ∀ it ∈ regItems sels.length (endIds sels docs), 0 < it.userCount := by
    intro it hit
    simp only [regItems, List.mem_map] at hit
    obtain ⟨(h : Nat), hh, rfl⟩ := hit
    have := (mem_idsFrom_bounds _ _ _ h hh).1
    have : ¬ h < sels.length := by omega
    simp [base, this]
  have := removeTail_split [] (regItems sels.length (endIds sels docs)) (by simp) hB
  simp only [List.nil_append] at this
  simp only [finish, Dispatcher.handleEnd, inv.end_, this, expectedEnd]
  apply ex_ok'
  simp [List.map_reverse]

/-- Whole document: never a panic, and the log is the reference log. -/
theorem runDoc_refines (script : ElemScript) (sels : List SelReg) (docs : List DocReg)
    (evs : List Event) (wf : WfEvents sels.length evs) :
    ∃ s', runDoc script sels docs evs =
      .ok (s', log script sels docs [] 0 evs ++ expectedEnd sels docs evs.length) := by
  obtain ⟨s1, h1, inv1⟩ := steps_refines script sels docs evs [] _ 0 (inv_init sels docs) wf
  obtain ⟨s2, h2⟩ := finish_refines sels docs _ s1 evs.length inv1
  exact ⟨s2, by simp only [runDoc, h1, h2]⟩

/-! ### End-tag closures run at most once -/

/-- Identity of an end-tag closure: (registering element handler, k-th closure, start-tag ordinal). -/
def etKey : Invocation → Option (HId × Nat × Nat)
  | .endTag h k so _ => some (h, k, so)
  | .token _ _ _ => none

/-- Event ordinal carried by an invocation. -/
def ordOf : Invocation → Nat
  | .endTag _ _ _ ord => ord
  | .token _ _ ord => ord

theorem endTagSubs_nodup (script : ElemScript) (ord : Nat) (invoked : List HId)
    (nd : invoked.Nodup) : (Dispatcher.endTagSubs script ord invoked).Nodup := by
  induction invoked with
  | nil => simp [Dispatcher.endTagSubs]
  | cons h hs ih =>
    simp only [List.nodup_cons] at nd
    simp only [Dispatcher.endTagSubs, List.flatMap_cons]
    rw [List.nodup_append]
    refine ⟨?_, ih nd.2, ?_⟩
    · apply nodup_map_on _ _ _ List.nodup_range
      intro a _ b _ hab
      simpa using hab
    · intro a ha b hb hab
      simp only [List.mem_map, List.mem_range] at ha
      obtain ⟨k, _, rfl⟩ := ha
      simp only [List.mem_flatMap, List.mem_map, List.mem_range] at hb
      obtain ⟨h', hh', k', _, rfl⟩ := hb
      simp at hab
      exact nd.1 (hab.1 ▸ hh')

theorem invokedOn_nodup (sels : List SelReg) (matched : List Nat) :
    (invokedOn sels matched).Nodup :=
  (pairwise_lt_nodup _ (idsFrom_pairwise _ _ _)).filter _

/-- Reference-stack invariant: start ordinals strictly increase and lie in the past; the registered
closures of one element are distinct. -/
structure SInv (sp : List OpenElem) (ord : Nat) : Prop where
  sorted : (sp.map (·.ord)).Pairwise (· < ·)
  past : ∀ e ∈ sp, e.ord < ord
  subs : ∀ e ∈ sp, e.subs.Nodup

theorem SInv.sublist_step (script : ElemScript) (sels : List SelReg) (sp : List OpenElem)
    (ord : Nat) (ev : Event) (h : SInv sp ord) : SInv (openStep script sels sp ord ev) (ord + 1) := by
  cases ev with
  | startTag name dir sc matched =>
    simp only [openStep]
    split
    · refine ⟨?_, ?_, ?_⟩
      · simp only [List.map_append, List.map_cons, List.map_nil]
        rw [List.pairwise_append]
        refine ⟨h.sorted, by simp, ?_⟩
        intro a ha b hb
        simp only [List.mem_map] at ha
        obtain ⟨e, he, rfl⟩ := ha
        simp [mkOpen] at hb
        subst hb
        exact h.past e he
      · intro e he
        rcases List.mem_append.1 he with he | he
        · have := h.past e he; omega
        · simp at he; subst he; simp [mkOpen]
      · intro e he
        rcases List.mem_append.1 he with he | he
        · exact h.subs e he
        · simp at he; subst he
          exact endTagSubs_nodup script ord _ (invokedOn_nodup sels matched)
    · exact ⟨h.sorted, fun e he => by have := h.past e he; omega, h.subs⟩
  | endTag name =>
    simp only [openStep]
    cases hs : splitLast (fun e => decide (e.name = name)) sp with
    | none => exact ⟨h.sorted, fun e he => by have := h.past e he; omega, h.subs⟩
    | some r =>
      obtain ⟨k2, p2⟩ := r
      have happ := splitLast_append _ _ _ _ hs
      have hs' := h.sorted
      rw [happ, List.map_append, List.pairwise_append] at hs'
      exact ⟨hs'.1, fun e he => by have := h.past e (by rw [happ]; simp [he]); omega,
        fun e he => h.subs e (by rw [happ]; simp [he])⟩
  | text => exact ⟨h.sorted, fun e he => by have := h.past e he; omega, h.subs⟩
  | comment => exact ⟨h.sorted, fun e he => by have := h.past e he; omega, h.subs⟩
  | doctype => exact ⟨h.sorted, fun e he => by have := h.past e he; omega, h.subs⟩

/-- The end-tag closures run for a list of closed elements. -/
def closedInv (closed : List OpenElem) (ord : Nat) : List Invocation :=
  closed.reverse.flatMap fun e => e.subs.map fun (p : HId × Nat) => .endTag p.1 p.2 e.ord ord

theorem closedInv_keys (closed : List OpenElem) (ord : Nat) :
    ∀ key ∈ (closedInv closed ord).filterMap etKey, ∃ e ∈ closed, key.2.2 = e.ord ∧
      (key.1, key.2.1) ∈ e.subs := by
  intro key hk
  simp only [closedInv, List.mem_filterMap, List.mem_flatMap, List.mem_reverse, List.mem_map] at hk
  obtain ⟨i, ⟨e, he, p, hp, rfl⟩, hkey⟩ := hk
  simp only [etKey, Option.some.injEq] at hkey
  subst hkey
  exact ⟨e, he, rfl, hp⟩

theorem closedInv_keys_nodup (closed : List OpenElem) (ord : Nat)
    (sorted : (closed.map (·.ord)).Pairwise (· < ·)) (subs : ∀ e ∈ closed, e.subs.Nodup) :
    ((closedInv closed ord).filterMap etKey).Nodup := by
  induction closed with
  | nil => simp [closedInv]
  | cons e es ih =>
    simp only [List.map_cons, List.pairwise_cons] at sorted
    have ih' := ih sorted.2 (fun e' he' => subs e' (by simp [he']))
    have hsplit : closedInv (e :: es) ord = closedInv es ord ++
        e.subs.map (fun (p : HId × Nat) => Invocation.endTag p.1 p.2 e.ord ord) := by
      simp [closedInv]
    rw [hsplit, List.filterMap_append, List.nodup_append]
    refine ⟨ih', ?_, ?_⟩
    · rw [List.filterMap_map]
      have : (e.subs.filterMap (etKey ∘ fun (p : HId × Nat) => Invocation.endTag p.1 p.2 e.ord ord))
          = e.subs.map fun p => (p.1, p.2, e.ord) := by
        rw [← List.filterMap_eq_map]
        rfl
      rw [this]
      apply nodup_map_on _ _ _ (subs e (by simp))
      intro a _ b _ hab
      simp at hab
      exact Prod.ext hab.1 hab.2
    · intro a ha b hb hab
      obtain ⟨e', he', h1, _⟩ := closedInv_keys es ord a ha
      rw [List.filterMap_map] at hb
      simp only [List.mem_filterMap, Function.comp, etKey, Option.some.injEq] at hb
      obtain ⟨p, _, rfl⟩ := hb
      subst hab
      simp only at h1
      have := sorted.1 e'.ord (List.mem_map.2 ⟨e', he', rfl⟩)
      omega

theorem expected_keys (sels : List SelReg) (docs : List DocReg) (sp : List OpenElem) (ord : Nat)
    (ev : Event) (key : HId × Nat × Nat) (hk : key ∈ (expected sels docs sp ord ev).filterMap etKey) :
    ∃ name kept closed, ev = .endTag name ∧
      splitLast (fun e => decide (e.name = name)) sp = some (kept, closed) ∧
      key ∈ (closedInv closed ord).filterMap etKey := by
  cases ev with
  | endTag name =>
    simp only [expected] at hk
    cases hs : splitLast (fun e => decide (e.name = name)) sp with
    | none => rw [hs] at hk; simp at hk
    | some r =>
      obtain ⟨kept, closed⟩ := r
      rw [hs] at hk
      exact ⟨name, kept, closed, rfl, hs, hk⟩
  | startTag name dir sc matched =>
    simp [expected, List.filterMap_map, Function.comp_def, etKey, filterMap_none] at hk
  | text => simp [expected, List.filterMap_map, Function.comp_def, etKey, filterMap_none] at hk
  | comment => simp [expected, List.filterMap_map, Function.comp_def, etKey, filterMap_none] at hk
  | doctype => simp [expected, List.filterMap_map, Function.comp_def, etKey, filterMap_none] at hk

/-- Keys in the rest of the log belong to elements that are open now or are opened later. -/
theorem log_keys (script : ElemScript) (sels : List SelReg) (docs : List DocReg)
    (evs : List Event) : ∀ (sp : List OpenElem) (ord : Nat), SInv sp ord →
    ((log script sels docs sp ord evs).filterMap etKey).Nodup ∧
    ∀ key ∈ (log script sels docs sp ord evs).filterMap etKey,
      key.2.2 ∈ sp.map (·.ord) ∨ ord ≤ key.2.2 := by
  induction evs with
  | nil => intro sp ord _; simp [log]
  | cons ev es ih =>
    intro sp ord hinv
    obtain ⟨nd2, mem2⟩ := ih _ (ord + 1) (hinv.sublist_step script sels sp ord ev)
    simp only [log, List.filterMap_append]
    -- keys of this event
    have k1 : ∀ key ∈ (expected sels docs sp ord ev).filterMap etKey,
        key.2.2 ∈ sp.map (·.ord) ∧ key.2.2 ∉ (openStep script sels sp ord ev).map (·.ord) ∧
        key.2.2 < ord := by
      intro key hk
      obtain ⟨name, kept, closed, rfl, hs, hkc⟩ := expected_keys sels docs sp ord _ key hk
      obtain ⟨e, he, h1, _⟩ := closedInv_keys closed ord key hkc
      have happ := splitLast_append _ _ _ _ hs
      have hsorted := hinv.sorted
      rw [happ, List.map_append, List.pairwise_append] at hsorted
      refine ⟨?_, ?_, ?_⟩
      · rw [happ, h1]; exact List.mem_map.2 ⟨e, by simp [he], rfl⟩
      · simp only [openStep, hs]
        intro hmem
        have := hsorted.2.2 _ hmem e.ord (List.mem_map.2 ⟨e, he, rfl⟩)
        omega
      · rw [h1]; exact hinv.past e (by rw [happ]; simp [he])
    have nd1 : ((expected sels docs sp ord ev).filterMap etKey).Nodup := by
      cases ev with
      | endTag name =>
        simp only [expected]
        cases hs : splitLast (fun e => decide (e.name = name)) sp with
        | none => simp
        | some r =>
          obtain ⟨kept, closed⟩ := r
          have happ := splitLast_append _ _ _ _ hs
          have hsorted := hinv.sorted
          rw [happ, List.map_append, List.pairwise_append] at hsorted
          exact closedInv_keys_nodup closed ord hsorted.2.1
            (fun e he => hinv.subs e (by rw [happ]; simp [he]))
      | startTag name dir sc matched =>
        simp [expected, List.filterMap_map, Function.comp_def, etKey, filterMap_none]
      | text => simp [expected, List.filterMap_map, Function.comp_def, etKey, filterMap_none]
      | comment => simp [expected, List.filterMap_map, Function.comp_def, etKey, filterMap_none]
      | doctype => simp [expected, List.filterMap_map, Function.comp_def, etKey, filterMap_none]
    have hsub : ∀ o ∈ (openStep script sels sp ord ev).map (·.ord), o ∈ sp.map (·.ord) ∨ o = ord := by
      intro o ho
      cases ev with
      | startTag name dir sc matched =>
        simp only [openStep] at ho
        split at ho
        · simp only [List.map_append, List.mem_append] at ho
          rcases ho with ho | ho
          · exact Or.inl ho
          · simp [mkOpen] at ho; exact Or.inr ho
        · exact Or.inl ho
      | endTag name =>
        simp only [openStep] at ho
        cases hs : splitLast (fun e => decide (e.name = name)) sp with
        | none => rw [hs] at ho; exact Or.inl ho
        | some r =>
          obtain ⟨kept, closed⟩ := r
          rw [hs] at ho
          rw [splitLast_append _ _ _ _ hs]
          simp only [List.map_append, List.mem_append]
          exact Or.inl (Or.inl ho)
      | text => exact Or.inl ho
      | comment => exact Or.inl ho
      | doctype => exact Or.inl ho
    refine ⟨?_, ?_⟩
    · rw [List.nodup_append]
      refine ⟨nd1, nd2, ?_⟩
      intro a ha b hb hab
      subst hab
      obtain ⟨_, h2, h3⟩ := k1 a ha
      rcases mem2 a hb with h | h
      · exact h2 h
      · omega
    · intro key hk
      rcases List.mem_append.1 hk with hk | hk
      · exact Or.inl (k1 key hk).1
      · rcases mem2 key hk with h | h
        · rcases hsub _ h with h | h
          · exact Or.inl h
          · exact Or.inr (by omega)
        · exact Or.inr (by omega)

end LolHtml.Lemmas.Scope
