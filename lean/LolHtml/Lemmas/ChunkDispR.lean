import LolHtml.Lemmas.ChunkDisp
/-!
The dispatcher as a sink for the resumption proof, for controllers that may REMOVE content
(`TextBlindR`): `should_emit_content()` may change — it is turned off by a tag token, back on by
`handle_end_tag`. The sink operations are the dispatcher's with one guard: `handle_tag` panics when it is
given a START-tag lexeme while emission is disabled and the controller wants it enabled (`guardOps`); that
this guard never fires in runs of the rewriter is a fact about the re-lexing of hinted end tags (pkg scan).
-/
namespace LolHtml.Model.Chunk.R
open LolHtml LolHtml.Model LolHtml.Model.Chunk

def tokIsTag : Token → Bool
  | .startTag .. => true
  | .endTag .. => true
  | _ => false

/-- a start-tag token's source range starts at or after the base of the slice it was cut from -/
def TokWf : Token → Prop
  | .startTag _ _ _ _ _ src base => base ≤ src.start
  | _ => True

/-- every text chunk fails with a panic-class error in this state -/
def TextDead {γ : Type} (ctl : Controller γ) (g : γ) : Prop :=
  ∀ b tt l s, ∃ m, (ctl.token g (.text b tt l s)).2.err = some (.panic m)

/-- **The class of controllers, with content removal.** As `TextBlind`, but `should_emit_content()` may
change: `handle_start_tag`, the aux-info continuation and non-tag tokens keep it; `handle_end_tag` can only
turn it on; tag tokens may change it arbitrarily; `E` respects it. -/
structure TextBlindR {γ : Type} (ctl : Controller γ) (E : γ → γ → Prop) : Prop where
  dom : ∀ g g', E g g' → E g g ∧ E g' g'
  dom_tok : ∀ g t, E (ctl.token g t).1 (ctl.token g t).1 → E g g
  trans : ∀ g1 g2 g3, E g1 g2 → E g2 g3 → E g1 g3
  /-- tokens are observed through their absolute form -/
  token_norm : ∀ g t t', normToken t = normToken t' → TokWf t → TokWf t' → ctl.token g t = ctl.token g t'
  aux_norm : ∀ g i i', AuxRefines i i' → EPanic (ctl.auxInfo g i).2 ∨ ctl.auxInfo g i = ctl.auxInfo g i'
  start : ∀ g g' n ns, E g g' → (ctl.startTag g n ns).2 = (ctl.startTag g' n ns).2 ∧ E (ctl.startTag g n ns).1 (ctl.startTag g' n ns).1
  endT : ∀ g g' n, E g g' → (ctl.endTag g n).2 = (ctl.endTag g' n).2 ∧ E (ctl.endTag g n).1 (ctl.endTag g' n).1
  aux : ∀ g g' i, E g g' → (ctl.auxInfo g i).2 = (ctl.auxInfo g' i).2 ∧ E (ctl.auxInfo g i).1 (ctl.auxInfo g' i).1
  emit : ∀ g g', E g g' → ctl.shouldEmit g = ctl.shouldEmit g'
  emit_start : ∀ g n ns, ctl.shouldEmit (ctl.startTag g n ns).1 = ctl.shouldEmit g
  emit_aux : ∀ g i, ctl.shouldEmit (ctl.auxInfo g i).1 = ctl.shouldEmit g
  emit_end : ∀ g n, ctl.shouldEmit g = true → ctl.shouldEmit (ctl.endTag g n).1 = true
  emit_tok : ∀ g t, tokIsTag t = false → ctl.shouldEmit (ctl.token g t).1 = ctl.shouldEmit g
  flags : ∀ g g', E g g' → ctl.initialFlags g = ctl.initialFlags g'
  tok : ∀ g g' t, E g g' → tokIsText t = false →
    (ctl.token g t).2.chunks = (ctl.token g' t).2.chunks ∧ (ctl.token g t).2.err = (ctl.token g' t).2.err ∧
    (ctl.token g t).2.nextEncoding = (ctl.token g' t).2.nextEncoding ∧ E (ctl.token g t).1 (ctl.token g' t).1
  /-- on the domain a text chunk does not fail, does not switch the encoding and is serialised to its own
  bytes — or the controller is in a state in which every text chunk fails with a panic-class error (a fault
  recorded by a callback that cannot fail, reported by the next one that can) -/
  text_ok : ∀ g b tt l s, E g g → ((ctl.token g (.text b tt l s)).2.err = none ∧
    (ctl.token g (.text b tt l s)).2.nextEncoding = none ∧ (ctl.token g (.text b tt l s)).2.chunks.flatten = b) ∨
    TextDead ctl g
  dead_E : ∀ g g', E g g' → TextDead ctl g' → TextDead ctl g
  dead_tok : ∀ g b tt l s, E g g → TextDead ctl g → TextDead ctl (ctl.token g (.text b tt l s)).1
  text_cong : ∀ g g' b tt l s, E g g' → E (ctl.token g (.text b tt l s)).1 (ctl.token g' (.text b tt l s)).1
  text_split : ∀ g b1 b2 tt l s, E g g →
    E (ctl.token (ctl.token g (.text b1 tt false ⟨s, s + b1.length⟩)).1 (.text b2 tt l ⟨s + b1.length, s + b1.length + b2.length⟩)).1
      (ctl.token g (.text (b1 ++ b2) tt l ⟨s, s + b1.length + b2.length⟩)).1
  handleEnd : ∀ g g', E g g' → (ctl.handleEnd g).2 = (ctl.handleEnd g').2 ∧ E (ctl.handleEnd g).1 (ctl.handleEnd g').1

/-- the old class (content never removed) is an instance -/
theorem TextBlind.toR {γ : Type} {ctl : Controller γ} {E : γ → γ → Prop} (h : TextBlind ctl E) : TextBlindR ctl E where
  dom := h.dom
  dom_tok := h.dom_tok
  trans := h.trans
  token_norm := fun g t t' hn _ _ => h.token_norm g t t' hn
  aux_norm := h.aux_norm
  start := h.start
  endT := h.endT
  aux := h.aux
  emit := fun g g' _ => by rw [h.emit, h.emit]
  emit_start := fun g n ns => by rw [h.emit, h.emit]
  emit_aux := fun g i => by rw [h.emit, h.emit]
  emit_end := fun g n _ => h.emit _
  emit_tok := fun g t _ => by rw [h.emit, h.emit]
  flags := h.flags
  tok := h.tok
  text_ok := fun g b tt l s hg => Or.inl (h.text_ok g b tt l s hg)
  dead_E := fun g g' hE hd => by
    obtain ⟨m, hm⟩ := hd [] .data false ⟨0, 0⟩
    rw [(h.text_ok g' [] .data false ⟨0, 0⟩ (h.dom _ _ hE).2).1] at hm
    cases hm
  dead_tok := fun g b tt l s hg hd => by
    obtain ⟨m, hm⟩ := hd [] .data false ⟨0, 0⟩
    rw [(h.text_ok g [] .data false ⟨0, 0⟩ hg).1] at hm
    cases hm
  text_cong := h.text_cong
  text_split := h.text_split
  handleEnd := h.handleEnd

section
variable {γ : Type}

/-- emission waits to resume: it is disabled and the controller wants it enabled (the flag an end-tag hint
raises when it ends the removed element, and the next tag lexeme lowers) -/
def pendE (ctl : Controller γ) (d : Disp γ) : Bool := !d.emissionEnabled && ctl.shouldEmit d.ctl

/-- `handle_tag` is about to flip `emission_enabled` on without resetting `remaining_content_start`:
a start-tag lexeme while emission is disabled and the controller wants it enabled -/
def bareResume (ctl : Controller γ) (lx : TagLexeme) (d : Disp γ) : Bool :=
  pendE ctl d && lx.outline.isStart

/-- **The guarded dispatcher**: `dispOps` with an assertion in `handle_tag`. -/
def guardOps (ctl : Controller γ) : SinkOps (Disp γ) :=
  { handleTag := fun inp lx d =>
      if bareResume ctl lx d then (d, .error (.panic "guard: tag lexeme of the wrong kind while a hint is pending"))
      else Disp.handleTag ctl inp lx d
    handleNonTag := Disp.handleNonTag ctl
    startTagHint := Disp.startTagHint ctl
    endTagHint := Disp.endTagHint ctl }

/-- emission is on only if the controller wants it on -/
def DJ (ctl : Controller γ) (d : Disp γ) : Prop := d.emissionEnabled = true → ctl.shouldEmit d.ctl = true

structure DK0 (E : γ → γ → Prop) (inpS inpW : Bytes) (δ : Nat) (ds dw : Disp γ) : Prop where
  ctl : E ds.ctl dw.ctl
  eq : DEq ds dw
  pend : DPend ds dw
  bytes : DBytes inpS inpW δ ds dw

structure DKt (ctl : Controller γ) (E : γ → γ → Prop) (inpS inpW : Bytes) (δ d : Nat) (ds dw : Disp γ) : Prop where
  /-- the whole run's controller accepts text chunks (the split run's has accepted one) -/
  nd : ¬ TextDead ctl dw.ctl
  ctl : E ds.ctl (ctl.token dw.ctl (.text (LolHtml.slice inpW (ds.rcs + δ - d) (ds.rcs + δ)) ds.lastTextType false
      ⟨ds.textPendingStart - d, ds.textPendingStart⟩)).1
  eq : DEq ds dw
  bytes : DBytes inpS inpW δ ds dw
  rcs_d : dw.rcs + d ≤ ds.rcs + δ
  rcs_in : ds.rcs ≤ inpS.length
  tps_d : d ≤ ds.textPendingStart

/-- the relation between the two dispatchers; `d`: text debt -/
def DK (ctl : Controller γ) (E : γ → γ → Prop) (inpS inpW : Bytes) (δ : Nat) (d : Nat) (ds dw : Disp γ) : Prop :=
  DJ ctl ds ∧
  if d = 0 then DK0 E inpS inpW δ ds dw
  else (ds.flags.text = false → DK0 E inpS inpW δ ds dw) ∧ (ds.flags.text = true → DKt ctl E inpS inpW δ d ds dw)

theorem DK_zero {ctl : Controller γ} {E : γ → γ → Prop} {inpS inpW : Bytes} {δ : Nat} {ds dw : Disp γ} :
    DK ctl E inpS inpW δ 0 ds dw ↔ DJ ctl ds ∧ DK0 E inpS inpW δ ds dw := by
  unfold DK; simp

variable {ctl : Controller γ}

/-- the same (non-text) token handed to the controller in both runs -/
theorem tok_sim {E : γ → γ → Prop} (hcl : TextBlindR ctl E) {ds dw : Disp γ} (hE : E ds.ctl dw.ctl) (heq : DEq ds dw)
    (hp : DPend ds dw) (t t' : Token) (ht : ∀ g, ctl.token g t = ctl.token g t') (hnt : tokIsText t' = false) :
    (Disp.tokenProduced ctl dw t').2 = (Disp.tokenProduced ctl ds t).2 ∧
    E (Disp.tokenProduced ctl ds t).1.ctl (Disp.tokenProduced ctl dw t').1.ctl ∧
    DEq (Disp.tokenProduced ctl ds t).1 (Disp.tokenProduced ctl dw t').1 ∧
    DPend (Disp.tokenProduced ctl ds t).1 (Disp.tokenProduced ctl dw t').1 ∧
    (Disp.tokenProduced ctl ds t).1.rcs = ds.rcs ∧ (Disp.tokenProduced ctl dw t').1.rcs = dw.rcs ∧
    ∃ X, sinkBytes (Disp.tokenProduced ctl ds t).1.sink = sinkBytes ds.sink ++ (if ds.emissionEnabled = true then X else []) ∧
      sinkBytes (Disp.tokenProduced ctl dw t').1.sink = sinkBytes dw.sink ++ (if ds.emissionEnabled = true then X else []) := by
  obtain ⟨a1, a2, a3, a4, a5, a6, a7, a8, a9, a10, a11, a12, a13⟩ := tokenProduced_desc (ctl := ctl) ds t
  obtain ⟨b1, b2, b3, b4, b5, b6, b7, b8, b9, b10, b11, b12, b13⟩ := tokenProduced_desc (ctl := ctl) dw t'
  rw [ht ds.ctl] at a1 a11 a12 a13
  obtain ⟨c1, c2, c3, c4⟩ := hcl.tok ds.ctl dw.ctl t' hE hnt
  refine ⟨by rw [a13, b13, c2], by rw [a1, b1]; exact c4, ⟨by rw [a3, b3]; exact heq.flags, by rw [a4, b4]; exact heq.em,
    by rw [a6, b6]; exact heq.gffh, by rw [a7, b7]; exact heq.paux, by rw [a10, b10]; exact heq.enc,
    by rw [a11, b11, c3, heq.nenc]⟩, ⟨by rw [a5, b5]; exact hp.ltt, by rw [a8, b8]; exact hp.tp, by rw [a9, b9]; exact hp.tps⟩,
    a2, b2, (ctl.token ds.ctl t').2.chunks.flatten, a12, by rw [b12, heq.em, c1]⟩

theorem not_dead_of_ok {g : γ} {b : Bytes} {tt : TextType} {l : Bool} {r : Range}
    (h : (ctl.token g (.text b tt l r)).2.err = none) : ¬ TextDead ctl g := by
  intro hd
  obtain ⟨m, hm⟩ := hd b tt l r
  rw [h] at hm; cases hm

/-- `flush_pending_captured_text` in both runs -/
theorem flushPendingText_sim {E : γ → γ → Prop} {inpS inpW : Bytes} {δ : Nat} (hcl : TextBlindR ctl E) {ds dw : Disp γ}
    (h : DK0 E inpS inpW δ ds dw) :
    OpRel (fun a b => DK0 E inpS inpW δ a b ∧ a.rcs = ds.rcs ∧ b.rcs = dw.rcs ∧
        a.emissionEnabled = ds.emissionEnabled ∧ ctl.shouldEmit a.ctl = ctl.shouldEmit ds.ctl)
      (ds.flushPendingText ctl) (dw.flushPendingText ctl) := by
  unfold Disp.flushPendingText
  rw [h.pend.tp]
  cases htp : ds.textPending with
  | false => exact OpRel.ok () ⟨h, rfl, rfl, rfl, rfl⟩
  | true =>
    simp only [if_true]
    have htok : (Token.text [] dw.lastTextType true ⟨dw.textPendingStart, dw.textPendingStart⟩)
        = Token.text [] ds.lastTextType true ⟨ds.textPendingStart, ds.textPendingStart⟩ := by
      rw [h.pend.ltt, h.pend.tps]
    rw [htok]
    obtain ⟨a1, a2, a3, a4, a5, a6, a7, a8, a9, a10, a11, a12, a13⟩ := tokenProduced_desc (ctl := ctl) { ds with textPending := false }
      (.text [] ds.lastTextType true ⟨ds.textPendingStart, ds.textPendingStart⟩)
    obtain ⟨b1, b2, b3, b4, b5, b6, b7, b8, b9, b10, b11, b12, b13⟩ := tokenProduced_desc (ctl := ctl) { dw with textPending := false }
      (.text [] ds.lastTextType true ⟨ds.textPendingStart, ds.textPendingStart⟩)
    simp only at a1 a11 a12 a13 b1 b11 b12 b13
    rcases hcl.text_ok ds.ctl [] ds.lastTextType true ⟨ds.textPendingStart, ds.textPendingStart⟩ (hcl.dom _ _ h.ctl).1 with
      ⟨c1, c2, c3⟩ | hdead
    rotate_left
    · obtain ⟨m, hm⟩ := hdead [] ds.lastTextType true ⟨ds.textPendingStart, ds.textPendingStart⟩
      left
      rw [a13, hm]
      trivial
    rcases hcl.text_ok dw.ctl [] ds.lastTextType true ⟨ds.textPendingStart, ds.textPendingStart⟩ (hcl.dom _ _ h.ctl).2 with
      ⟨e1, e2, e3⟩ | hdead
    rotate_left
    · exact absurd (hcl.dead_E _ _ h.ctl hdead) (not_dead_of_ok c1)
    rw [c1] at a13; rw [e1] at b13
    rw [c2] at a11; rw [e2] at b11
    rw [c3] at a12; rw [e3] at b12
    right
    refine ⟨by rw [a13, b13], fun _ => ⟨⟨by rw [a1, b1]; exact hcl.text_cong _ _ _ _ _ _ h.ctl, ⟨by rw [a3, b3]; exact h.eq.flags, by rw [a4, b4]; exact h.eq.em,
      by rw [a6, b6]; exact h.eq.gffh, by rw [a7, b7]; exact h.eq.paux, by rw [a10, b10]; exact h.eq.enc,
      by rw [a11, b11]; exact h.eq.nenc⟩, ⟨by rw [a5, b5]; exact h.pend.ltt, by rw [a8, b8], by rw [a9, b9]; exact h.pend.tps⟩, ?_⟩, a2, b2, a4, by rw [a1]; exact hcl.emit_tok _ _ rfl⟩⟩
    refine DBytes.append (ds := { ds with textPending := false }) (dw := { dw with textPending := false })
      ⟨h.bytes.rcs_le, h.bytes.bytes⟩ [] ?_ ?_ a2 b2 a4 (Or.inl rfl)
    · rw [a12]
    · rw [b12]; simp

theorem DK0.of_same {E : γ → γ → Prop} {inpS inpW : Bytes} {δ : Nat} {ds dw ds' dw' : Disp γ}
    (h : DK0 E inpS inpW δ ds dw) (hs : DSame ds ds') (hw : DSame dw dw') (hb : DBytes inpS inpW δ ds' dw') :
    DK0 E inpS inpW δ ds' dw' :=
  ⟨by rw [hs.ctl, hw.ctl]; exact h.ctl,
   ⟨by rw [hs.flags, hw.flags]; exact h.eq.flags, by rw [hs.em, hw.em]; exact h.eq.em, by rw [hs.gffh, hw.gffh]; exact h.eq.gffh,
    by rw [hs.paux, hw.paux]; exact h.eq.paux, by rw [hs.enc, hw.enc]; exact h.eq.enc, by rw [hs.nenc, hw.nenc]; exact h.eq.nenc⟩,
   ⟨by rw [hs.ltt, hw.ltt]; exact h.pend.ltt, by rw [hs.tp, hw.tp]; exact h.pend.tp, by rw [hs.tps, hw.tps]; exact h.pend.tps⟩, hb⟩

/-- the tail of `try_produce_token_from_lexeme` in both runs -/
theorem emitToken_sim {E : γ → γ → Prop} {inpS inpW : Bytes} {δ : Nat} (F : Frame inpS inpW δ) (hcl : TextBlindR ctl E)
    {ds dw : Disp γ} (h : DK0 E inpS inpW δ ds dw) (raw : Range) (tok tok' : Token)
    (ht : ∀ g, ctl.token g tok = ctl.token g tok') (hnt : tokIsText tok' = false)
    (hraw : raw.start ≤ raw.end ∧ raw.end ≤ inpS.length) :
    OpRel (fun ds' dw' => DK0 E inpS inpW δ ds' dw' ∧ ds'.emissionEnabled = ds.emissionEnabled ∧ dw'.rcs = ds'.rcs + δ)
      (ds.emitToken ctl inpS raw tok) (dw.emitToken ctl inpW (shR δ raw) tok') := by
  unfold Disp.emitToken
  cases he : ds.emitChunkBefore inpS raw with
  | error e =>
    left
    unfold Disp.emitChunkBefore at he
    split at he
    · simp only [Except.error.injEq] at he
      subst he
      simp [DRes.ofExcept, DRes.bind, EPanic]
    · cases he
  | ok ds1 =>
    obtain ⟨dw1, hw1, s1, s2, r1, r2, r3, r4, hsb⟩ := emitChunkBefore_sim F h.bytes h.eq.em raw he
    rw [hw1]
    simp only [DRes.ofExcept, DRes.bind]
    have hE1 : E ds1.ctl dw1.ctl := by rw [s1.ctl, s2.ctl]; exact h.ctl
    have hk1 : DK0 E inpS inpW δ ds1 dw1 := h.of_same s1 s2 ⟨by rw [r1, r2]; exact Nat.le_refl _, by
      rw [hsb, r1, r2]
      have : LolHtml.slice inpW (raw.start + δ) (raw.start + δ) = [] := by unfold LolHtml.slice; simp
      rw [this]; cases ds1.emissionEnabled <;> simp⟩
    obtain ⟨t1, t2, t3, t4, t5, t6, X, t7, t8⟩ := tok_sim hcl hE1 hk1.eq hk1.pend tok tok' ht hnt
    right
    rw [t1]
    cases hres : (Disp.tokenProduced ctl ds1 tok).2 with
    | error e => exact ⟨rfl, fun ⟨a, ha⟩ => by cases ha⟩
    | ok u =>
      simp only
      refine ⟨trivial, fun _ => ?_⟩
      obtain ⟨a1, a2, a3, a4, a5, a6, a7, a8, a9, a10, a11, a12⟩ :=
        flushEncodingChange_desc { (Disp.tokenProduced ctl ds1 tok).1 with rcs := raw.end }
      obtain ⟨b1, b2, b3, b4, b5, b6, b7, b8, b9, b10, b11, b12⟩ :=
        flushEncodingChange_desc { (Disp.tokenProduced ctl dw1 tok').1 with rcs := (shR δ raw).end }
      simp only at a1 a2 a3 a4 a5 a6 a7 a8 a9 a10 a11 a12 b1 b2 b3 b4 b5 b6 b7 b8 b9 b10 b11 b12
      refine ⟨⟨by rw [a1, b1]; exact t2, ⟨by rw [a3, b3]; exact t3.flags, by rw [a4, b4]; exact t3.em, by rw [a6, b6]; exact t3.gffh,
        by rw [a7, b7]; exact t3.paux, by rw [a12, b12, t3.nenc, t3.enc], by rw [a10, b10]; exact t3.nenc⟩,
        ⟨by rw [a5, b5]; exact t4.ltt, by rw [a8, b8]; exact t4.tp, by rw [a9, b9]; exact t4.tps⟩,
        ⟨by rw [a2, b2]; simp [shR], ?_⟩⟩, by rw [a4, (tokenProduced_desc (ctl := ctl) ds1 tok).2.2.2.1, s1.em],
        by rw [a2, b2]; simp [shR]⟩
      rw [a11, b11, a2, b2, t7, t8, hsb]
      have : LolHtml.slice inpW (shR δ raw).end (raw.end + δ) = [] := by unfold LolHtml.slice; simp [shR]
      rw [this]
      cases (Disp.tokenProduced ctl ds1 tok).1.flushEncodingChange.emissionEnabled <;> simp

theorem DK0.setFlags {E : γ → γ → Prop} {inpS inpW : Bytes} {δ : Nat} {ds dw : Disp γ} (h : DK0 E inpS inpW δ ds dw)
    (f : Flags) : DK0 E inpS inpW δ { ds with flags := f } { dw with flags := f } :=
  ⟨h.ctl, ⟨rfl, h.eq.em, h.eq.gffh, h.eq.paux, h.eq.enc, h.eq.nenc⟩, ⟨h.pend.ltt, h.pend.tp, h.pend.tps⟩,
    ⟨h.bytes.rcs_le, h.bytes.bytes⟩⟩

theorem DK0.setCtl {E : γ → γ → Prop} {inpS inpW : Bytes} {δ : Nat} {ds dw : Disp γ} (h : DK0 E inpS inpW δ ds dw)
    {c c' : γ} (hc : E c c') : DK0 E inpS inpW δ { ds with ctl := c } { dw with ctl := c' } :=
  ⟨hc, ⟨h.eq.flags, h.eq.em, h.eq.gffh, h.eq.paux, h.eq.enc, h.eq.nenc⟩, ⟨h.pend.ltt, h.pend.tp, h.pend.tps⟩,
    ⟨h.bytes.rcs_le, h.bytes.bytes⟩⟩

theorem DK0.setPaux {E : γ → γ → Prop} {inpS inpW : Bytes} {δ : Nat} {ds dw : Disp γ} (h : DK0 E inpS inpW δ ds dw)
    (b : Bool) : DK0 E inpS inpW δ { ds with pendingAux := b } { dw with pendingAux := b } :=
  ⟨h.ctl, ⟨h.eq.flags, h.eq.em, h.eq.gffh, rfl, h.eq.enc, h.eq.nenc⟩, ⟨h.pend.ltt, h.pend.tp, h.pend.tps⟩,
    ⟨h.bytes.rcs_le, h.bytes.bytes⟩⟩

theorem DK0.setGffh {E : γ → γ → Prop} {inpS inpW : Bytes} {δ : Nat} {ds dw : Disp γ} (h : DK0 E inpS inpW δ ds dw)
    (b : Bool) : DK0 E inpS inpW δ { ds with gotFlagsFromHint := b } { dw with gotFlagsFromHint := b } :=
  ⟨h.ctl, ⟨h.eq.flags, h.eq.em, rfl, h.eq.paux, h.eq.enc, h.eq.nenc⟩, ⟨h.pend.ltt, h.pend.tp, h.pend.tps⟩,
    ⟨h.bytes.rcs_le, h.bytes.bytes⟩⟩

/-! ### lexemes to tokens -/

theorem tagToToken_wf {f f' : Flags} {input : Bytes} {lx : TagLexeme} {tok : Token}
    (h : tagToToken f input lx = some (f', some tok)) : TokWf tok := by
  unfold tagToToken at h
  split at h
  · split at h
    · split at h
      · simp only [Option.some.injEq, Prod.mk.injEq] at h
        obtain ⟨_, h2⟩ := h
        subst h2
        show lx.prevConsumed ≤ lx.prevConsumed + lx.raw.start
        exact Nat.le_add_right _ _
      · cases h
    · simp at h
  · split at h
    · split at h
      · simp only [Option.some.injEq, Prod.mk.injEq] at h
        obtain ⟨_, h2⟩ := h
        subst h2
        trivial
      · cases h
    · simp at h

theorem OpRel.and_left {α : Type} {R : Disp γ → Disp γ → Prop} {P : Disp γ → Prop} {rs rw : DRes γ α}
    (h : OpRel R rs rw) (hp : P rs.1) : OpRel (fun a b => R a b ∧ P a) rs rw := by
  rcases h with h | ⟨h1, h2⟩
  · exact Or.inl h
  · exact Or.inr ⟨h1, fun hx => ⟨h2 hx, hp⟩⟩

/-- `try_produce_token_from_lexeme` for tags: afterwards the slack is empty (a token was produced) or the
controller has not been called -/
theorem produceTag_sim {E : γ → γ → Prop} {inpS inpW : Bytes} {δ : Nat} (F : Frame inpS inpW δ) (hcl : TextBlindR ctl E)
    {ds dw : Disp γ} (h : DK0 E inpS inpW δ ds dw) (pc : Nat) (raw : Range) (o : TagOutline) :
    OpRel (fun ds' dw' => DK0 E inpS inpW δ ds' dw' ∧ ds'.emissionEnabled = ds.emissionEnabled ∧
        (dw'.rcs = ds'.rcs + δ ∨ (ds'.ctl = ds.ctl ∧ ds'.rcs = ds.rcs ∧ dw'.rcs = dw.rcs)))
      (ds.produceTag ctl inpS ⟨pc + δ, raw, o⟩) (dw.produceTag ctl inpW ⟨pc, shR δ raw, shTag δ o⟩) := by
  unfold Disp.produceTag
  rw [h.eq.flags]
  cases htt : tagToToken ds.flags inpS ⟨pc + δ, raw, o⟩ with
  | none => exact Or.inl trivial
  | some ft =>
    obtain ⟨t', hw, hrel⟩ := tagToToken_sim F ds.flags pc raw o ft htt
    rw [hw]
    simp only
    cases hft : ft.2 with
    | none =>
      rw [hft] at hrel
      cases t' with
      | none => exact Or.inr ⟨rfl, fun _ => ⟨h.setFlags ft.1, rfl, Or.inr ⟨rfl, rfl, rfl⟩⟩⟩
      | some x => exact hrel.elim
    | some tok =>
      rw [hft] at hrel
      cases t' with
      | none => exact hrel.elim
      | some tok' =>
        obtain ⟨hn, hnt, hr1, hr2⟩ := hrel
        have hwf1 : TokWf tok := tagToToken_wf (f' := ft.1) (by rw [htt, ← hft])
        have hwf2 : TokWf tok' := tagToToken_wf hw
        exact (emitToken_sim F hcl (h.setFlags ft.1) raw tok tok'
          (fun g => hcl.token_norm g tok tok' hn hwf1 hwf2) hnt ⟨hr1, hr2⟩).mono
            (fun a b hab => ⟨hab.1, hab.2.1, Or.inl hab.2.2⟩)

/-! ### capture-flag adjustment -/

theorem answerAux_sim {E : γ → γ → Prop} {inpS inpW : Bytes} {δ : Nat} (F : Frame inpS inpW δ) (hcl : TextBlindR ctl E)
    {ds dw : Disp γ} (h : DK0 E inpS inpW δ ds dw) (as : List AttrOutline) (sc : Bool) :
    OpRel (DK0 E inpS inpW δ) (ds.answerAux ctl ⟨inpS, as, sc⟩) (dw.answerAux ctl ⟨inpW, as.map (shA δ), sc⟩) := by
  unfold Disp.answerAux
  rcases hcl.aux_norm ds.ctl _ _ (auxRefines_sh F as sc) with hp | heq
  · left
    simp only
    revert hp
    cases (ctl.auxInfo ds.ctl ⟨inpS, as, sc⟩).2 with
    | ok f => intro hp; exact hp.elim
    | error e =>
      intro hp
      simp only
      cases e <;> first | exact hp.elim | exact trivial
  · right
    rw [heq]
    obtain ⟨h1, h2⟩ := hcl.aux ds.ctl dw.ctl ⟨inpW, as.map (shA δ), sc⟩ h.ctl
    simp only
    rw [← h1]
    cases (ctl.auxInfo ds.ctl ⟨inpW, as.map (shA δ), sc⟩).2 with
    | ok f => exact ⟨rfl, fun _ => (h.setCtl h2).setFlags f⟩
    | error e => exact ⟨rfl, fun ⟨a, ha⟩ => by cases ha⟩

theorem adjustFlags_sim {E : γ → γ → Prop} {inpS inpW : Bytes} {δ : Nat} (F : Frame inpS inpW δ) (hcl : TextBlindR ctl E)
    {ds dw : Disp γ} (h : DK0 E inpS inpW δ ds dw) (pc : Nat) (raw : Range) (o : TagOutline) :
    OpRel (DK0 E inpS inpW δ) (ds.adjustFlagsForTag ctl inpS ⟨pc + δ, raw, o⟩)
      (dw.adjustFlagsForTag ctl inpW ⟨pc, shR δ raw, shTag δ o⟩) := by
  unfold Disp.adjustFlagsForTag
  by_cases hpa : ds.pendingAux = true
  · have hpw : dw.pendingAux = true := by rw [h.eq.paux]; exact hpa
    rw [if_pos hpa, if_pos hpw]
    cases o with
    | startTag name hsh ns as sc =>
      simp only [shTag]
      exact answerAux_sim F hcl (h.setPaux false) as sc
    | endTag name hsh =>
      simp only [shTag]
      exact Or.inr ⟨rfl, fun ⟨a, ha⟩ => by cases ha⟩
  · have hpw : ¬ dw.pendingAux = true := by rw [h.eq.paux]; exact hpa
    rw [if_neg hpa, if_neg hpw]
    cases o with
    | startTag name hsh ns as sc =>
      simp only [shTag]
      cases hn : LocalName.new inpS name hsh with
      | none => exact Or.inl trivial
      | some ln =>
        rw [localName_shD F hn]
        simp only
        obtain ⟨h1, h2⟩ := hcl.start ds.ctl dw.ctl ln ns h.ctl
        rw [← h1]
        cases (ctl.startTag ds.ctl ln ns).2 with
        | flags f => exact Or.inr ⟨rfl, fun _ => (h.setCtl h2).setFlags f⟩
        | infoRequest => exact answerAux_sim F hcl (h.setCtl h2) as sc
        | err e => exact Or.inr ⟨rfl, fun ⟨a, ha⟩ => by cases ha⟩
    | endTag name hsh =>
      simp only [shTag]
      cases hn : LocalName.new inpS name hsh with
      | none => exact Or.inl trivial
      | some ln =>
        rw [localName_shD F hn]
        simp only
        obtain ⟨h1, h2⟩ := hcl.endT ds.ctl dw.ctl ln h.ctl
        rw [← h1]
        exact Or.inr ⟨rfl, fun _ => (h.setCtl h2).setFlags _⟩

/-! ### what the dispatcher operations do to `emission_enabled` and `should_emit_content()` -/

theorem answerAux_frame {E : γ → γ → Prop} (hcl : TextBlindR ctl E) (d : Disp γ) (info : AuxInfo) :
    (d.answerAux ctl info).1.emissionEnabled = d.emissionEnabled ∧
    ctl.shouldEmit (d.answerAux ctl info).1.ctl = ctl.shouldEmit d.ctl := by
  unfold Disp.answerAux
  simp only
  split <;> exact ⟨rfl, hcl.emit_aux _ _⟩

theorem adjustFlags_frame {E : γ → γ → Prop} (hcl : TextBlindR ctl E) (d : Disp γ) (input : Bytes) (lx : TagLexeme) :
    (d.adjustFlagsForTag ctl input lx).1.emissionEnabled = d.emissionEnabled ∧
    (lx.outline.isStart = true → ctl.shouldEmit (d.adjustFlagsForTag ctl input lx).1.ctl = ctl.shouldEmit d.ctl) ∧
    (ctl.shouldEmit d.ctl = true → ctl.shouldEmit (d.adjustFlagsForTag ctl input lx).1.ctl = true) := by
  unfold Disp.adjustFlagsForTag
  split
  · simp only
    split
    · obtain ⟨a, b⟩ := answerAux_frame hcl { d with pendingAux := false } ⟨input, _, _⟩
      exact ⟨a, fun _ => b, fun h => by rw [b]; exact h⟩
    · exact ⟨rfl, fun _ => rfl, fun h => h⟩
  · split
    · rename_i name hsh ns as sc _
      split
      · exact ⟨rfl, fun _ => rfl, fun h => h⟩
      · rename_i ln _
        simp only
        have hs := hcl.emit_start d.ctl ln ns
        split
        · exact ⟨rfl, fun _ => hs, fun h => by rw [hs]; exact h⟩
        · obtain ⟨a, b⟩ := answerAux_frame hcl { d with ctl := (ctl.startTag d.ctl ln ns).1 } ⟨input, as, sc⟩
          exact ⟨a, fun _ => by rw [b]; exact hs, fun h => by rw [b, hs]; exact h⟩
        · exact ⟨rfl, fun _ => hs, fun h => by rw [hs]; exact h⟩
    · rename_i name hsh heq
      split
      · exact ⟨rfl, (fun hh => by rw [heq] at hh <;> cases hh), fun h => h⟩
      · rename_i ln _
        exact ⟨rfl, (fun hh => by rw [heq] at hh <;> cases hh), fun h => hcl.emit_end _ _ h⟩

theorem resumeEmission_sim {E : γ → γ → Prop} {inpS inpW : Bytes} {δ : Nat} (hcl : TextBlindR ctl E)
    {ds dw : Disp γ} (h : DK0 E inpS inpW δ ds dw) (pc : Nat) (raw : Range) (o : TagOutline) :
    DK0 E inpS inpW δ (ds.resumeEmission ctl ⟨pc + δ, raw, o⟩) (dw.resumeEmission ctl ⟨pc, shR δ raw, shTag δ o⟩) := by
  unfold Disp.resumeEmission Disp.shouldStopRemoving
  simp only [isStart_sh]
  rw [h.eq.em, ← hcl.emit _ _ h.ctl]
  split
  · rename_i hc
    simp only [Bool.and_eq_true, Bool.not_eq_true'] at hc
    have hem : ds.emissionEnabled = false := hc.2.1
    refine ⟨h.ctl, ⟨h.eq.flags, rfl, h.eq.gffh, h.eq.paux, h.eq.enc, h.eq.nenc⟩, ⟨h.pend.ltt, h.pend.tp, h.pend.tps⟩,
      ⟨by simp [shR], ?_⟩⟩
    have hb := h.bytes.bytes
    rw [hem] at hb
    simp only [Bool.false_eq_true, if_false, List.append_nil] at hb
    simp only [if_true, hb]
    have : LolHtml.slice inpW (shR δ raw).start (raw.start + δ) = [] := by unfold LolHtml.slice; simp [shR]
    rw [this]; simp
  · exact h

/-- **`LexemeSink::handle_tag`**, guarded -/
theorem handleTag_sim {E : γ → γ → Prop} {inpS inpW : Bytes} {δ : Nat} (F : Frame inpS inpW δ) (hcl : TextBlindR ctl E)
    {ds dw : Disp γ} (h : DK0 E inpS inpW δ ds dw) (hj : DJ ctl ds) (pc : Nat) (raw : Range) (o : TagOutline) :
    OpRel (fun ds' dw' => DJ ctl ds' ∧ DK0 E inpS inpW δ ds' dw')
      ((guardOps ctl).handleTag inpS ⟨pc + δ, raw, o⟩ ds)
      ((guardOps ctl).handleTag inpW ⟨pc, shR δ raw, shTag δ o⟩ dw) := by
  show OpRel _ (if bareResume ctl ⟨pc + δ, raw, o⟩ ds = true then _ else _)
    (if bareResume ctl ⟨pc, shR δ raw, shTag δ o⟩ dw = true then _ else _)
  have hbr : bareResume ctl ⟨pc, shR δ raw, shTag δ o⟩ dw = bareResume ctl ⟨pc + δ, raw, o⟩ ds := by
    unfold bareResume pendE
    simp only [isStart_sh]
    rw [h.eq.em, ← hcl.emit _ _ h.ctl]
  rw [hbr]
  by_cases hg : bareResume ctl ⟨pc + δ, raw, o⟩ ds = true
  · rw [if_pos hg]; exact Or.inl trivial
  rw [if_neg hg, if_neg hg]
  -- the guard did not fire
  have hng : ¬ (o.isStart = true ∧ ds.emissionEnabled = false ∧ ctl.shouldEmit ds.ctl = true) := by
    intro ⟨a, b, c⟩
    apply hg
    unfold bareResume pendE
    simp [a, b, c]
  unfold Disp.handleTag
  let R1 : Disp γ → Disp γ → Prop := fun a b => DK0 E inpS inpW δ a b ∧
    (a.emissionEnabled = ds.emissionEnabled ∧ ctl.shouldEmit a.ctl = ctl.shouldEmit ds.ctl)
  have hflush : OpRel R1 (ds.flushPendingText ctl) (dw.flushPendingText ctl) :=
    (flushPendingText_sim hcl h).mono (fun a b hab => ⟨hab.1, hab.2.2.2.1, hab.2.2.2.2⟩)
  refine bind_rel hflush (fun ds1 dw1 _ h1 => ?_)
  obtain ⟨h1k, h1e, h1s⟩ := h1
  let R2 : Disp γ → Disp γ → Prop := fun a b => DK0 E inpS inpW δ a b ∧
    (a.emissionEnabled = ds.emissionEnabled ∧
      (o.isStart = true → ctl.shouldEmit a.ctl = ctl.shouldEmit ds.ctl) ∧
      (ctl.shouldEmit ds.ctl = true → ctl.shouldEmit a.ctl = true))
  refine bind_rel (R := R2) ?_ (fun ds2 dw2 _ h2 => ?_)
  · rw [h1k.eq.gffh]
    split
    · exact OpRel.ok () ⟨h1k.setGffh false, h1e, fun _ => h1s, fun hh => h1s.trans hh⟩
    · obtain ⟨a, b, c⟩ := adjustFlags_frame hcl ds1 inpS ⟨pc + δ, raw, o⟩
      exact OpRel.and_left (adjustFlags_sim F hcl h1k pc raw o)
        (P := fun x => x.emissionEnabled = ds.emissionEnabled ∧
          (o.isStart = true → ctl.shouldEmit x.ctl = ctl.shouldEmit ds.ctl) ∧
          (ctl.shouldEmit ds.ctl = true → ctl.shouldEmit x.ctl = true))
        ⟨a.trans h1e, fun hs => (b hs).trans h1s, fun hh => c (by rw [h1s]; exact hh)⟩
  · obtain ⟨h2k, h2e, h2s, h2t⟩ := h2
    have h2r := resumeEmission_sim hcl h2k pc raw o
    -- what `resume` does to the split dispatcher
    have hres : (ds2.resumeEmission ctl ⟨pc + δ, raw, o⟩).ctl = ds2.ctl := by
      unfold Disp.resumeEmission; split <;> rfl
    have hresW : (dw2.resumeEmission ctl ⟨pc, shR δ raw, shTag δ o⟩).ctl = dw2.ctl := by
      unfold Disp.resumeEmission; split <;> rfl
    refine bind_rel (produceTag_sim F hcl h2r pc raw o) (fun ds3 dw3 _ h3 => ?_)
    obtain ⟨h3k, h3e, h3c⟩ := h3
    have hse := hcl.emit _ _ h3k.ctl
    -- the new value of `emission_enabled` differs from the old one only when the slack is empty
    have hkey : ctl.shouldEmit ds3.ctl = ds3.emissionEnabled ∨ dw3.rcs = ds3.rcs + δ := by
      by_cases hrs : (!o.isStart && (!ds2.emissionEnabled && ctl.shouldEmit ds2.ctl)) = true
      · -- emission resumed: `remaining_content_start` was reset in both runs
        right
        have e1 : (ds2.resumeEmission ctl ⟨pc + δ, raw, o⟩).rcs = raw.start := by
          unfold Disp.resumeEmission Disp.shouldStopRemoving; rw [if_pos hrs]
        have e2 : (dw2.resumeEmission ctl ⟨pc, shR δ raw, shTag δ o⟩).rcs = raw.start + δ := by
          unfold Disp.resumeEmission Disp.shouldStopRemoving
          simp only [isStart_sh]
          rw [h2k.eq.em, ← hcl.emit _ _ h2k.ctl, if_pos hrs]
          rfl
        rcases h3c with h3c | ⟨_, c2, c3⟩
        · exact h3c
        · rw [c3, c2, e1, e2]
      · -- emission not resumed
        have hid : ds2.resumeEmission ctl ⟨pc + δ, raw, o⟩ = ds2 := by
          unfold Disp.resumeEmission Disp.shouldStopRemoving; rw [if_neg hrs]
        rw [hid] at h3e h3c
        rcases h3c with h3c | ⟨c1, _, _⟩
        · exact Or.inr h3c
        · left
          rw [c1, h3e, h2e]
          cases hem : ds.emissionEnabled with
          | true => exact h2t (hj hem)
          | false =>
            cases hs2 : ctl.shouldEmit ds2.ctl with
            | false => rfl
            | true =>
              exfalso
              have hstart : o.isStart = true := by
                cases ho : o.isStart with
                | true => rfl
                | false =>
                  exfalso; apply hrs
                  simp [ho, h2e, hem, hs2]
              exact hng ⟨hstart, hem, by rw [← h2s hstart]; exact hs2⟩
    have hd : Disp.nextDirective ({ dw3 with emissionEnabled := ctl.shouldEmit dw3.ctl } : Disp γ) =
        Disp.nextDirective ({ ds3 with emissionEnabled := ctl.shouldEmit ds3.ctl } : Disp γ) := by
      unfold Disp.nextDirective; simp only; rw [h3k.eq.flags]
    simp only
    rw [hd]
    refine OpRel.ok _ ⟨fun hh => hh, h3k.ctl, ⟨h3k.eq.flags, hse.symm, h3k.eq.gffh, h3k.eq.paux, h3k.eq.enc, h3k.eq.nenc⟩,
      ⟨h3k.pend.ltt, h3k.pend.tp, h3k.pend.tps⟩, ⟨h3k.bytes.rcs_le, ?_⟩⟩
    have hb := h3k.bytes.bytes
    simp only
    rcases hkey with hk | hk
    · rw [hk]; exact hb
    · rw [hk] at hb ⊢
      rw [slice_self] at hb ⊢
      rw [hb]
      cases ds3.emissionEnabled <;> cases ctl.shouldEmit ds3.ctl <;> simp

/-! ### non-tag lexemes -/

/-- everything a text chunk does to the dispatcher -/
theorem textTok_desc {E : γ → γ → Prop} (hcl : TextBlindR ctl E) (d : Disp γ) (hd : E d.ctl d.ctl) (b : Bytes) (tt : TextType) (l : Bool) (s : Range) :
    (∃ m, (Disp.tokenProduced ctl d (.text b tt l s)).2 = .error (.panic m)) ∨
    (Disp.tokenProduced ctl d (.text b tt l s)).2 = .ok () ∧
    (Disp.tokenProduced ctl d (.text b tt l s)).1.ctl = (ctl.token d.ctl (.text b tt l s)).1 ∧
    DSame { d with ctl := (ctl.token d.ctl (.text b tt l s)).1 } (Disp.tokenProduced ctl d (.text b tt l s)).1 ∧
    (Disp.tokenProduced ctl d (.text b tt l s)).1.rcs = d.rcs ∧
    sinkBytes (Disp.tokenProduced ctl d (.text b tt l s)).1.sink = sinkBytes d.sink ++
      (if d.emissionEnabled = true then b else []) := by
  obtain ⟨a1, a2, a3, a4, a5, a6, a7, a8, a9, a10, a11, a12, a13⟩ := tokenProduced_desc (ctl := ctl) d (.text b tt l s)
  rcases hcl.text_ok d.ctl b tt l s hd with ⟨c1, c2, c3⟩ | hdead
  · rw [c1] at a13; rw [c2] at a11; rw [c3] at a12
    exact Or.inr ⟨a13, a1, ⟨a1, a3, a4, a5, a6, a7, a8, a9, a10, a11⟩, a2, a12⟩
  · obtain ⟨m, hm⟩ := hdead b tt l s
    rw [hm] at a13
    exact Or.inl ⟨m, a13⟩

/-- everything `produce_text` (one text lexeme under the TEXT flag) does -/
theorem produceText_desc {E : γ → γ → Prop} (hcl : TextBlindR ctl E) (d : Disp γ) (hd : E d.ctl d.ctl) (input : Bytes) (lx : NonTagLexeme) (tt : TextType) :
    EPanic (d.produceText ctl input lx tt).2 ∨
    ∃ rawb, checkedSlice input lx.raw = some rawb ∧ d.rcs ≤ lx.raw.start ∧
      (d.produceText ctl input lx tt).2 = .ok () ∧
      (d.produceText ctl input lx tt).1.ctl = (ctl.token d.ctl (.text rawb tt false (srcOf lx.prevConsumed lx.raw))).1 ∧
      (d.produceText ctl input lx tt).1.flags = d.flags ∧
      (d.produceText ctl input lx tt).1.emissionEnabled = d.emissionEnabled ∧
      (d.produceText ctl input lx tt).1.lastTextType = tt ∧
      (d.produceText ctl input lx tt).1.gotFlagsFromHint = d.gotFlagsFromHint ∧
      (d.produceText ctl input lx tt).1.pendingAux = d.pendingAux ∧
      (d.produceText ctl input lx tt).1.textPending = true ∧
      (d.produceText ctl input lx tt).1.textPendingStart = lx.prevConsumed + lx.raw.end ∧
      (d.produceText ctl input lx tt).1.encoding = d.encoding ∧
      (d.produceText ctl input lx tt).1.nextEncoding = d.nextEncoding ∧
      (d.produceText ctl input lx tt).1.rcs = lx.raw.end ∧
      sinkBytes (d.produceText ctl input lx tt).1.sink = sinkBytes d.sink ++
        (if d.emissionEnabled = true then LolHtml.slice input d.rcs lx.raw.start ++ rawb else []) := by
  unfold Disp.produceText
  cases hr : checkedSlice input lx.raw with
  | none => exact Or.inl trivial
  | some rawb =>
    simp only
    rcases emitChunkBefore_desc d input lx.raw with ⟨m, he⟩ | ⟨d1, he, hs, h1, h2, h3, h4⟩
    · left; rw [he]; simp [DRes.ofExcept, DRes.bind, EPanic]
    · rw [he]
      simp only [DRes.ofExcept, DRes.bind]
      rcases textTok_desc hcl { d1 with lastTextType := tt } (by show E d1.ctl d1.ctl; rw [hs.ctl]; exact hd) rawb tt false (srcOf lx.prevConsumed lx.raw) with
        ⟨m, hm⟩ | ⟨t1, t2, t3, t4, t5⟩
      · left; rw [hm]; trivial
      right
      rw [t1]
      simp only
      refine ⟨rawb, rfl, h2, trivial, by rw [t2]; simp only; rw [hs.ctl], by rw [t3.flags]; exact hs.flags,
        by rw [t3.em]; exact hs.em, by rw [t3.ltt], by rw [t3.gffh]; exact hs.gffh, by rw [t3.paux]; exact hs.paux, trivial, trivial,
        by rw [t3.enc]; exact hs.enc, by rw [t3.nenc]; exact hs.nenc, trivial, ?_⟩
      rw [t5]
      simp only
      rw [h4, hs.em]
      cases d.emissionEnabled <;> simp

/-- `produce_text` cannot fail when its slices are in range -/
theorem produceText_noPanic {E : γ → γ → Prop} (hcl : TextBlindR ctl E) (d : Disp γ) (hd : E d.ctl d.ctl) (input : Bytes) (lx : NonTagLexeme) (tt : TextType)
    (h1 : lx.raw.start ≤ lx.raw.end) (h2 : lx.raw.end ≤ input.length) (h3 : d.rcs ≤ lx.raw.start)
    (hnd : ¬ TextDead ctl d.ctl) :
    ¬ EPanic (d.produceText ctl input lx tt).2 := by
  intro hp
  unfold Disp.produceText at hp
  have hr : checkedSlice input lx.raw = some (LolHtml.slice input lx.raw.start lx.raw.end) := by
    unfold checkedSlice; rw [if_pos ⟨h1, h2⟩]
  rw [hr] at hp
  simp only at hp
  rcases emitChunkBefore_desc d input lx.raw with ⟨m, he⟩ | ⟨d1, he, hs, _⟩
  · unfold Disp.emitChunkBefore at he
    have : checkedSlice input ⟨d.rcs, lx.raw.start⟩ = some (LolHtml.slice input d.rcs lx.raw.start) := by
      unfold checkedSlice; rw [if_pos ⟨h3, by simp only; omega⟩]
    rw [this] at he
    cases he
  · rw [he] at hp
    simp only [DRes.ofExcept, DRes.bind] at hp
    rcases hcl.text_ok d.ctl (LolHtml.slice input lx.raw.start lx.raw.end) tt false (srcOf lx.prevConsumed lx.raw) hd with
      ⟨c1, _, _⟩ | hdead
    · obtain ⟨_, _, _, _, _, _, _, _, _, _, _, _, a13⟩ := tokenProduced_desc (ctl := ctl) { d1 with lastTextType := tt }
        (.text (LolHtml.slice input lx.raw.start lx.raw.end) tt false (srcOf lx.prevConsumed lx.raw))
      simp only at a13
      have c1' : (ctl.token d1.ctl (.text (LolHtml.slice input lx.raw.start lx.raw.end) tt false (srcOf lx.prevConsumed lx.raw))).2.err = none := by
        rw [hs.ctl]; exact c1
      rw [c1'] at a13
      rw [a13] at hp
      exact hp
    · exact hnd hdead

/-- a successful `produce_text` means the controller accepts text chunks -/
theorem produceText_ok_notDead {E : γ → γ → Prop} (hcl : TextBlindR ctl E) (d : Disp γ) (input : Bytes) (lx : NonTagLexeme) (tt : TextType)
    (h : (d.produceText ctl input lx tt).2 = .ok ()) : ¬ TextDead ctl d.ctl := by
  intro hdead
  unfold Disp.produceText at h
  split at h
  · cases h
  · rename_i rawb _
    rcases emitChunkBefore_desc d input lx.raw with ⟨m, he⟩ | ⟨d1, he, hs, _⟩
    · rw [he] at h; simp [DRes.ofExcept, DRes.bind] at h
    · rw [he] at h
      simp only [DRes.ofExcept, DRes.bind] at h
      obtain ⟨_, _, _, _, _, _, _, _, _, _, _, _, a13⟩ := tokenProduced_desc (ctl := ctl) { d1 with lastTextType := tt }
        (.text rawb tt false (srcOf lx.prevConsumed lx.raw))
      simp only at a13
      obtain ⟨m, hm⟩ := hdead rawb tt false (srcOf lx.prevConsumed lx.raw)
      rw [← hs.ctl] at hm
      rw [hm] at a13
      rw [a13] at h
      cases h

/-- a text lexeme under related dispatchers without debt -/
theorem produceText_sim {E : γ → γ → Prop} {inpS inpW : Bytes} {δ : Nat} (F : Frame inpS inpW δ) (hcl : TextBlindR ctl E)
    {ds dw : Disp γ} (h : DK0 E inpS inpW δ ds dw) (pc : Nat) (raw : Range) (o o' : Option NonTagOutline) (tt : TextType) :
    OpRel (DK0 E inpS inpW δ) (ds.produceText ctl inpS ⟨pc + δ, raw, o⟩ tt) (dw.produceText ctl inpW ⟨pc, shR δ raw, o'⟩ tt) := by
  rcases produceText_desc hcl ds (hcl.dom _ _ h.ctl).1 inpS ⟨pc + δ, raw, o⟩ tt with hp | ⟨rawb, a0, a1, a2, a3, a4, a5, a6, a7, a8, a9, a10, a11, a12, a13, a14⟩
  · exact Or.inl hp
  · simp only at a0 a1
    obtain ⟨r1, r2, r3⟩ := checkedSlice_some a0
    have hl := F.len
    have hle := h.bytes.rcs_le
    rcases produceText_desc hcl dw (hcl.dom _ _ h.ctl).2 inpW ⟨pc, shR δ raw, o'⟩ tt with hp | ⟨rawb', b0, b1, b2, b3, b4, b5, b6, b7, b8, b9, b10, b11, b12, b13, b14⟩
    · exact (produceText_noPanic hcl dw (hcl.dom _ _ h.ctl).2 inpW ⟨pc, shR δ raw, o'⟩ tt (by simp only [shR]; omega) (by simp only [shR]; omega)
        (by simp only [shR]; omega)
        (fun hdw => produceText_ok_notDead hcl ds inpS ⟨pc + δ, raw, o⟩ tt a2 (hcl.dead_E _ _ h.ctl hdw)) hp).elim
    · simp only at b0 b1
      rw [F.checkedSlice a0] at b0
      simp only [Option.some.injEq] at b0
      subst b0
      right
      refine ⟨by rw [a2, b2], fun _ => ?_⟩
      refine ⟨?_, ⟨by rw [a4, b4]; exact h.eq.flags, by rw [a5, b5]; exact h.eq.em, by rw [a7, b7]; exact h.eq.gffh,
        by rw [a8, b8]; exact h.eq.paux, by rw [a11, b11]; exact h.eq.enc, by rw [a12, b12]; exact h.eq.nenc⟩,
        ⟨by rw [a6, b6], by rw [a9, b9], by rw [a10, b10]; simp only [shR]; omega⟩,
        ⟨by rw [a13, b13]; simp [shR], ?_⟩⟩
      · rw [a3, b3]
        simp only
        rw [srcOf_sh]
        exact hcl.text_cong _ _ _ _ _ _ h.ctl
      · have hbb := h.bytes.bytes
        cases hem : ds.emissionEnabled with
        | false =>
          rw [a14, b14, a5, h.eq.em, hem]
          rw [hem] at hbb
          simpa using hbb
        | true =>
        rw [a14, b14, a13, b13, a5, h.eq.em, hbb]
        simp only [hem, if_true, shR]
        have e1 : LolHtml.slice inpW (raw.end + δ) (raw.end + δ) = [] := by unfold LolHtml.slice; simp
        have e2 : LolHtml.slice inpS ds.rcs raw.start = LolHtml.slice inpW (ds.rcs + δ) (raw.start + δ) :=
          (F.slice (by omega)).symm
        rw [e1, e2, List.append_nil, List.append_assoc, ← List.append_assoc (LolHtml.slice inpW dw.rcs (ds.rcs + δ)),
          slice_append_slice inpW hle (by omega)]

def TokRel (ctl : Controller γ) (inpS : Bytes) (raw : Range) : Option Token → Option Token → Prop
  | none, none => True
  | some tok, some tok' => (∀ g, ctl.token g tok = ctl.token g tok') ∧ tokIsText tok' = false ∧
      raw.start ≤ raw.end ∧ raw.end ≤ inpS.length
  | _, _ => False

theorem nonTagToToken_sim {E : γ → γ → Prop} {inpS inpW : Bytes} {δ : Nat} (F : Frame inpS inpW δ) (hcl : TextBlindR ctl E)
    (f : Flags) (pc : Nat) (raw : Range) (o : Option NonTagOutline) (r : Option Token)
    (h : nonTagToToken f inpS ⟨pc + δ, raw, o⟩ = some r) (hdt : DtIn inpS inpW δ o) :
    ∃ r', nonTagToToken f inpW ⟨pc, shR δ raw, o.map (shNonTag δ)⟩ = some r' ∧ TokRel ctl inpS raw r r' := by
  unfold nonTagToToken at h ⊢
  cases o with
  | none => simp only [Option.some.injEq] at h; subst h; exact ⟨none, rfl, trivial⟩
  | some o =>
    cases o with
    | text tt => simp only [Option.some.injEq] at h; subst h; exact ⟨none, rfl, trivial⟩
    | eof => simp only [Option.some.injEq] at h; subst h; exact ⟨none, rfl, trivial⟩
    | comment text =>
      simp only [Option.map_some, shNonTag] at h ⊢
      by_cases hf : f.comments = true
      · rw [if_pos hf] at h ⊢
        cases ht : checkedSlice inpS text with
        | none => rw [ht] at h; simp at h
        | some t =>
          cases hr : checkedSlice inpS raw with
          | none => rw [ht, hr] at h; simp at h
          | some rawb =>
            rw [ht, hr] at h
            simp only [Option.some.injEq] at h
            subst h
            rw [F.checkedSlice ht, F.checkedSlice hr]
            obtain ⟨r1, r2, _⟩ := checkedSlice_some hr
            exact ⟨_, rfl, fun g => by rw [srcOf_sh], rfl, r1, r2⟩
      · rw [if_neg hf] at h ⊢
        simp only [Option.some.injEq] at h; subst h; exact ⟨none, rfl, trivial⟩
    | doctype dt =>
      simp only [Option.map_some, shNonTag] at h ⊢
      by_cases hf : f.doctypes = true
      · rw [if_pos hf] at h ⊢
        cases hr : checkedSlice inpS raw with
        | none => rw [hr] at h; simp at h
        | some rawb =>
          rw [hr] at h
          simp only [Option.some.injEq] at h
          subst h
          rw [F.checkedSlice hr]
          obtain ⟨r1, r2, _⟩ := checkedSlice_some hr
          refine ⟨_, rfl, fun g => ?_, rfl, r1, r2⟩
          have hdt' : inpW.length = inpS.length + δ ∨ leNonTag inpS.length (.doctype dt) := hdt
          have h1 := optSlice_sh_eq F dt.name (hdt'.imp id (fun h => h.1))
          have h2 := optSlice_sh_eq F dt.publicId (hdt'.imp id (fun h => h.2.1))
          have h3 := optSlice_sh_eq F dt.systemId (hdt'.imp id (fun h => h.2.2))
          simp only [shDoctype]
          rw [srcOf_sh, h1, h2, h3]
      · rw [if_neg hf] at h ⊢
        simp only [Option.some.injEq] at h; subst h; exact ⟨none, rfl, trivial⟩

/-- **`LexemeSink::handle_non_tag_content`**, no text debt -/
theorem handleNonTag_sim {E : γ → γ → Prop} {inpS inpW : Bytes} {δ : Nat} (F : Frame inpS inpW δ) (hcl : TextBlindR ctl E)
    {ds dw : Disp γ} (h : DK0 E inpS inpW δ ds dw) (pc : Nat) (raw : Range) (o : Option NonTagOutline)
    (hdt : DtIn inpS inpW δ o) :
    OpRel (DK0 E inpS inpW δ) (Disp.handleNonTag ctl inpS ⟨pc + δ, raw, o⟩ ds)
      (Disp.handleNonTag ctl inpW ⟨pc, shR δ raw, o.map (shNonTag δ)⟩ dw) := by
  unfold Disp.handleNonTag
  have hnt : ∀ {ds dw : Disp γ}, DK0 E inpS inpW δ ds dw → (∀ tt, o ≠ some (.text tt)) →
      OpRel (DK0 E inpS inpW δ) (ds.produceNonTag ctl inpS ⟨pc + δ, raw, o⟩)
        (dw.produceNonTag ctl inpW ⟨pc, shR δ raw, o.map (shNonTag δ)⟩) := by
    intro ds dw h hno
    have key : OpRel (DK0 E inpS inpW δ)
        (match nonTagToToken ds.flags inpS ⟨pc + δ, raw, o⟩ with
          | none => (ds, .error (.panic "Bytes::slice out of range in to_token"))
          | some none => (ds, .ok ())
          | some (some tok) => ds.emitToken ctl inpS raw tok)
        (match nonTagToToken dw.flags inpW ⟨pc, shR δ raw, o.map (shNonTag δ)⟩ with
          | none => (dw, .error (.panic "Bytes::slice out of range in to_token"))
          | some none => (dw, .ok ())
          | some (some tok) => dw.emitToken ctl inpW (shR δ raw) tok) := by
      rw [h.eq.flags]
      cases hr : nonTagToToken ds.flags inpS ⟨pc + δ, raw, o⟩ with
      | none => exact Or.inl trivial
      | some r =>
        obtain ⟨r', hw, hrel⟩ := nonTagToToken_sim F hcl ds.flags pc raw o r hr hdt
        rw [hw]
        cases r with
        | none =>
          cases r' with
          | none => exact OpRel.ok () h
          | some _ => exact hrel.elim
        | some tok =>
          cases r' with
          | none => exact hrel.elim
          | some tok' =>
            obtain ⟨hn, hnt, hr1, hr2⟩ := hrel
            exact (emitToken_sim F hcl h raw tok tok' hn hnt ⟨hr1, hr2⟩).mono (fun _ _ hab => hab.1)
    unfold Disp.produceNonTag
    cases o with
    | none => exact key
    | some o =>
      cases o with
      | text tt => exact (hno tt rfl).elim
      | comment t => exact key
      | doctype dt => exact key
      | eof => exact key
  have hflush : OpRel (DK0 E inpS inpW δ) (ds.flushPendingText ctl) (dw.flushPendingText ctl) :=
    (flushPendingText_sim hcl h).mono (fun _ _ hab => hab.1)
  cases o with
  | none =>
    simp only [NonTagLexeme.isText, Option.map_none, Bool.false_eq_true, if_false]
    exact bind_rel hflush (fun ds1 dw1 _ h1 => hnt h1 (fun _ hh => by cases hh))
  | some o =>
    cases o with
    | text tt =>
      simp only [NonTagLexeme.isText, Option.map_some, shNonTag, if_true]
      refine bind_rel (R := DK0 E inpS inpW δ) (OpRel.ok () h) (fun ds1 dw1 _ h1 => ?_)
      unfold Disp.produceNonTag
      simp only
      rw [h1.eq.flags]
      split
      · exact produceText_sim F hcl h1 pc raw _ _ tt
      · exact OpRel.ok () h1
    | comment t =>
      simp only [NonTagLexeme.isText, Option.map_some, shNonTag, Bool.false_eq_true, if_false]
      exact bind_rel hflush (fun ds1 dw1 _ h1 => hnt h1 (fun _ hh => by cases hh))
    | doctype dt =>
      simp only [NonTagLexeme.isText, Option.map_some, shNonTag, Bool.false_eq_true, if_false]
      exact bind_rel hflush (fun ds1 dw1 _ h1 => hnt h1 (fun _ hh => by cases hh))
    | eof =>
      simp only [NonTagLexeme.isText, Option.map_some, shNonTag, Bool.false_eq_true, if_false]
      exact bind_rel hflush (fun ds1 dw1 _ h1 => hnt h1 (fun _ hh => by cases hh))

/-! ### tag hints -/

theorem applyHintFlags_sim {E : γ → γ → Prop} {inpS inpW : Bytes} {δ : Nat} {ds dw : Disp γ}
    (h : DK0 E inpS inpW δ ds dw) (f : Flags) :
    OpRel (DK0 E inpS inpW δ) (ds.applyHintFlags f) (dw.applyHintFlags f) := by
  unfold Disp.applyHintFlags Disp.nextDirective
  exact OpRel.ok _ ((h.setFlags f).setGffh _)

theorem startTagHint_sim {E : γ → γ → Prop} {inpS inpW : Bytes} {δ : Nat} (hcl : TextBlindR ctl E) {ds dw : Disp γ}
    (h : DK0 E inpS inpW δ ds dw) (n : LocalName) (ns : Ns) :
    OpRel (DK0 E inpS inpW δ) (Disp.startTagHint ctl n ns ds) (Disp.startTagHint ctl n ns dw) := by
  unfold Disp.startTagHint
  obtain ⟨h1, h2⟩ := hcl.start ds.ctl dw.ctl n ns h.ctl
  simp only
  rw [← h1]
  cases (ctl.startTag ds.ctl n ns).2 with
  | flags f => exact applyHintFlags_sim (h.setCtl h2) f
  | infoRequest => exact OpRel.ok _ (((h.setCtl h2).setGffh false).setPaux true)
  | err e => exact Or.inr ⟨rfl, fun ⟨a, ha⟩ => by cases ha⟩

theorem endTagHint_sim {E : γ → γ → Prop} {inpS inpW : Bytes} {δ : Nat} (hcl : TextBlindR ctl E) {ds dw : Disp γ}
    (h : DK0 E inpS inpW δ ds dw) (n : LocalName) :
    OpRel (DK0 E inpS inpW δ) (Disp.endTagHint ctl n ds) (Disp.endTagHint ctl n dw) := by
  unfold Disp.endTagHint
  have hflush : OpRel (DK0 E inpS inpW δ) (ds.flushPendingText ctl) (dw.flushPendingText ctl) :=
    (flushPendingText_sim hcl h).mono (fun _ _ hab => hab.1)
  refine bind_rel hflush (fun ds1 dw1 _ h1 => ?_)
  obtain ⟨e1, e2⟩ := hcl.endT ds1.ctl dw1.ctl n h1.ctl
  have s2 : Disp.shouldStopRemoving ctl { dw1 with ctl := (ctl.endTag dw1.ctl n).1 } =
      Disp.shouldStopRemoving ctl { ds1 with ctl := (ctl.endTag ds1.ctl n).1 } := by
    unfold Disp.shouldStopRemoving
    simp only
    rw [h1.eq.em, hcl.emit _ _ e2]
  simp only [s2]
  rw [← e1]
  exact applyHintFlags_sim (h1.setCtl e2) _

/-! ### repaying the text debt -/

/-- the whole run's text lexeme `[a, x)` against the split run's remainder `[a + d, x)`, the first `d` bytes
having been delivered to the split run's dispatcher before -/
theorem textRepay_sim {E : γ → γ → Prop} {inpS inpW : Bytes} {δ : Nat} (F : Frame inpS inpW δ) (hcl : TextBlindR ctl E)
    {ds dw : Disp γ} (pc a x d : Nat) (tt : TextType) (hk : DKt ctl E inpS inpW δ d ds dw)
    (hloc : ds.rcs = a + d - δ ∧ ds.textPendingStart = pc + δ + (a + d - δ) ∧ ds.lastTextType = tt ∧ ds.textPending = true)
    (hd : 0 < d) (hδ : δ ≤ a + d) (hx : a + d ≤ x) (o o' : Option NonTagOutline) :
    OpRel (DK0 E inpS inpW δ)
      (if a + d < x then ds.produceText ctl inpS ⟨pc + δ, ⟨a + d - δ, x - δ⟩, o⟩ tt else (ds, .ok ()))
      (dw.produceText ctl inpW ⟨pc, ⟨a, x⟩, o'⟩ tt) := by
  obtain ⟨l1, l2, l3, l4⟩ := hloc
  have hdS : E ds.ctl ds.ctl := (hcl.dom _ _ hk.ctl).1
  have hdW : E dw.ctl dw.ctl := hcl.dom_tok _ _ (hcl.dom _ _ hk.ctl).2
  have hl := F.len
  have hrd := hk.rcs_d
  have hri := hk.rcs_in
  have hbytes0 := hk.bytes.bytes
  have hctl := hk.ctl
  have e1 : ds.rcs + δ - d = a := by omega
  have e2 : ds.rcs + δ = a + d := by omega
  have e3 : ds.textPendingStart - d = pc + a := by omega
  have e4 : ds.textPendingStart = pc + a + d := by omega
  rw [e1, e2, l3, e3, e4] at hctl
  rw [e2] at hbytes0
  by_cases hlt : a + d < x
  · rw [if_pos hlt]
    rcases produceText_desc hcl ds hdS inpS ⟨pc + δ, ⟨a + d - δ, x - δ⟩, o⟩ tt with hp | ⟨rawb, a0, a1, a2, a3, a4, a5, a6, a7, a8, a9, a10, a11, a12, a13, a14⟩
    · exact Or.inl hp
    simp only at a0 a1 a3 a10 a13 a14
    obtain ⟨r1, r2, r3⟩ := checkedSlice_some a0
    simp only at r1 r2 r3
    rcases produceText_desc hcl dw hdW inpW ⟨pc, ⟨a, x⟩, o'⟩ tt with hp | ⟨rawb', b0, b1, b2, b3, b4, b5, b6, b7, b8, b9, b10, b11, b12, b13, b14⟩
    · exact (produceText_noPanic hcl dw hdW inpW ⟨pc, ⟨a, x⟩, o'⟩ tt (by simp only; omega) (by simp only; omega)
        (by simp only; omega) hk.nd hp).elim
    simp only at b0 b1 b3 b10 b13 b14
    obtain ⟨q1, q2, q3⟩ := checkedSlice_some b0
    simp only at q1 q2 q3
    have hb2 : rawb = LolHtml.slice inpW (a + d) x := by
      rw [r3, ← F.slice r2]
      congr 1 <;> omega
    have hcat : rawb' = LolHtml.slice inpW a (a + d) ++ rawb := by
      rw [q3, hb2, slice_append_slice inpW (by omega) hx]
    have hlen1 : (LolHtml.slice inpW a (a + d)).length = d := by rw [slice_length inpW (by omega)]; omega
    have hlen2 : rawb.length = x - (a + d) := by rw [hb2, slice_length inpW q2]
    right
    refine ⟨by rw [a2, b2], fun _ => ?_⟩
    refine ⟨?_, ⟨by rw [a4, b4]; exact hk.eq.flags, by rw [a5, b5]; exact hk.eq.em, by rw [a7, b7]; exact hk.eq.gffh,
      by rw [a8, b8]; exact hk.eq.paux, by rw [a11, b11]; exact hk.eq.enc, by rw [a12, b12]; exact hk.eq.nenc⟩,
      ⟨by rw [a6, b6], by rw [a9, b9], by rw [a10, b10]; omega⟩,
      ⟨by rw [a13, b13]; omega, ?_⟩⟩
    · rw [a3, b3]
      have h1 := hcl.text_cong _ _ rawb tt false (srcOf (pc + δ) ⟨a + d - δ, x - δ⟩) hctl
      have h2 := hcl.text_split dw.ctl (LolHtml.slice inpW a (a + d)) rawb tt false (pc + a) hdW
      rw [hlen1, hlen2, ← hcat] at h2
      have es : srcOf (pc + δ) ⟨a + d - δ, x - δ⟩ = ⟨pc + a + d, pc + a + d + (x - (a + d))⟩ := by
        simp only [srcOf, Range.mk.injEq]; constructor <;> first | trivial | omega
      have ew : srcOf pc ⟨a, x⟩ = ⟨pc + a, pc + a + d + (x - (a + d))⟩ := by
        simp only [srcOf, Range.mk.injEq]; constructor <;> first | trivial | omega
      rw [es] at h1 ⊢
      rw [ew]
      exact hcl.trans _ _ _ h1 h2
    · cases hem : ds.emissionEnabled with
      | false =>
        rw [a14, b14, a5, hk.eq.em, hem]
        rw [hem] at hbytes0
        simpa using hbytes0
      | true =>
      have hbytes := hbytes0
      rw [hem] at hbytes
      simp only [if_true] at hbytes
      rw [a14, b14, a13, b13, a5, hk.eq.em]
      simp only [hem, if_true]
      rw [hbytes, l1, slice_self, hcat, show x - δ + δ = x from by omega, slice_self]
      simp only [List.append_nil, List.nil_append, List.append_assoc]
      rw [← List.append_assoc (LolHtml.slice inpW dw.rcs a), slice_append_slice inpW (by omega) (by omega)]
  · rw [if_neg hlt]
    have hxe : x = a + d := by omega
    subst hxe
    rcases produceText_desc hcl dw hdW inpW ⟨pc, ⟨a, a + d⟩, o'⟩ tt with hp | ⟨rawb', b0, b1, b2, b3, b4, b5, b6, b7, b8, b9, b10, b11, b12, b13, b14⟩
    · exact (produceText_noPanic hcl dw hdW inpW ⟨pc, ⟨a, a + d⟩, o'⟩ tt (by simp only; omega) (by simp only; omega)
        (by simp only; omega) hk.nd hp).elim
    simp only at b0 b1 b3 b10 b13 b14
    obtain ⟨q1, q2, q3⟩ := checkedSlice_some b0
    simp only at q1 q2 q3
    right
    refine ⟨by rw [b2], fun _ => ?_⟩
    refine ⟨?_, ⟨by rw [b4]; exact hk.eq.flags, by rw [b5]; exact hk.eq.em, by rw [b7]; exact hk.eq.gffh,
      by rw [b8]; exact hk.eq.paux, by rw [b11]; exact hk.eq.enc, by rw [b12]; exact hk.eq.nenc⟩,
      ⟨by rw [b6, l3], by rw [b9, l4], by rw [b10]; show pc + (a + d) = ds.textPendingStart; omega⟩,
      ⟨by rw [b13]; show a + d ≤ ds.rcs + δ; omega, ?_⟩⟩
    · rw [b3, q3]
      have ew : srcOf pc ⟨a, a + d⟩ = ⟨pc + a, pc + a + d⟩ := by
        simp only [srcOf, Range.mk.injEq]; constructor <;> first | trivial | omega
      rw [ew]
      exact hctl
    · cases hem : ds.emissionEnabled with
      | false =>
        rw [b14, hk.eq.em, hem]
        rw [hem] at hbytes0
        simpa using hbytes0
      | true =>
      have hbytes := hbytes0
      rw [hem] at hbytes
      simp only [if_true] at hbytes
      rw [b14, b13, hk.eq.em]
      simp only [hem, if_true]
      rw [hbytes, e2, slice_self, q3, List.append_nil, slice_append_slice inpW (by omega) (by omega)]

/-! ### `emission_enabled` against `should_emit_content()` -/

/-- `emission_enabled` untouched, `should_emit_content()` unchanged -/
def FrP (ctl : Controller γ) (d d' : Disp γ) : Prop :=
  d'.emissionEnabled = d.emissionEnabled ∧ ctl.shouldEmit d'.ctl = ctl.shouldEmit d.ctl

theorem FrP.refl (d : Disp γ) : FrP ctl d d := ⟨rfl, rfl⟩

theorem FrP.trans {a b c : Disp γ} (h1 : FrP ctl a b) (h2 : FrP ctl b c) : FrP ctl a c :=
  ⟨h2.1.trans h1.1, h2.2.trans h1.2⟩

theorem FrP.dj {d d' : Disp γ} (h : FrP ctl d d') (hj : DJ ctl d) : DJ ctl d' := by
  intro he
  rw [h.2]
  exact hj (by rw [← h.1]; exact he)

theorem bind_frame {α β : Type} {d : Disp γ} {r : DRes γ α} {f : Disp γ → α → DRes γ β}
    (hr : FrP ctl d r.1) (hf : ∀ d1 a, FrP ctl d d1 → FrP ctl d (f d1 a).1) : FrP ctl d (r.bind f).1 := by
  unfold DRes.bind
  split
  · exact hr
  · exact hf _ _ hr

theorem tokenProduced_frame {E : γ → γ → Prop} (hcl : TextBlindR ctl E) (d : Disp γ) (t : Token) (ht : tokIsTag t = false) :
    FrP ctl d (Disp.tokenProduced ctl d t).1 := by
  obtain ⟨a1, _, _, a4, _⟩ := tokenProduced_desc (ctl := ctl) d t
  exact ⟨a4, by rw [a1]; exact hcl.emit_tok _ _ ht⟩

theorem flushPendingText_frame {E : γ → γ → Prop} (hcl : TextBlindR ctl E) (d : Disp γ) :
    FrP ctl d (d.flushPendingText ctl).1 := by
  unfold Disp.flushPendingText
  split
  · exact tokenProduced_frame hcl { d with textPending := false } _ rfl
  · exact FrP.refl d

theorem ofExcept_emitChunkBefore_frame (d : Disp γ) (input : Bytes) (raw : Range) :
    FrP ctl d (DRes.ofExcept d (d.emitChunkBefore input raw)).1 := by
  rcases emitChunkBefore_desc d input raw with ⟨m, he⟩ | ⟨d1, he, hs, _⟩
  · rw [he]; exact FrP.refl d
  · rw [he]; exact ⟨hs.em, by show ctl.shouldEmit d1.ctl = _; rw [hs.ctl]⟩

theorem emitToken_frame {E : γ → γ → Prop} (hcl : TextBlindR ctl E) (d : Disp γ) (input : Bytes) (raw : Range) (tok : Token)
    (ht : tokIsTag tok = false) : FrP ctl d (d.emitToken ctl input raw tok).1 := by
  unfold Disp.emitToken
  refine bind_frame (ofExcept_emitChunkBefore_frame d input raw) (fun d1 _ h1 => ?_)
  refine bind_frame (h1.trans (tokenProduced_frame hcl d1 tok ht)) (fun d2 _ h2 => ?_)
  obtain ⟨a1, _, _, a4, _⟩ := flushEncodingChange_desc { d2 with rcs := raw.end }
  exact ⟨a4.trans h2.1, by rw [a1]; exact h2.2⟩

theorem nonTagToToken_notTag {f : Flags} {input : Bytes} {lx : NonTagLexeme} {tok : Token}
    (h : nonTagToToken f input lx = some (some tok)) : tokIsTag tok = false := by
  unfold nonTagToToken at h
  simp only at h
  split at h
  · split at h
    · split at h
      · simp only [Option.some.injEq] at h; subst h; rfl
      · cases h
    · cases h
  · split at h
    · split at h
      · simp only [Option.some.injEq] at h; subst h; rfl
      · cases h
    · cases h
  · cases h

theorem produceNonTag_frame {E : γ → γ → Prop} (hcl : TextBlindR ctl E) (d : Disp γ) (input : Bytes) (lx : NonTagLexeme) :
    FrP ctl d (d.produceNonTag ctl input lx).1 := by
  unfold Disp.produceNonTag
  split
  · rename_i tt _
    split
    · unfold Disp.produceText
      split
      · exact FrP.refl d
      · rename_i rawb _
        refine bind_frame (ofExcept_emitChunkBefore_frame d input lx.raw) (fun d1 _ h1 => ?_)
        refine bind_frame (h1.trans ?_) (fun d2 _ h2 => ?_)
        · have := tokenProduced_frame hcl { d1 with lastTextType := tt } (.text rawb tt false (srcOf lx.prevConsumed lx.raw)) rfl
          exact this
        · exact h2
    · exact FrP.refl d
  · split
    · exact FrP.refl d
    · exact FrP.refl d
    · rename_i tok htok
      exact emitToken_frame hcl d input lx.raw tok (nonTagToToken_notTag htok)

theorem handleNonTag_frame {E : γ → γ → Prop} (hcl : TextBlindR ctl E) (d : Disp γ) (input : Bytes) (lx : NonTagLexeme) :
    FrP ctl d (Disp.handleNonTag ctl input lx d).1 := by
  unfold Disp.handleNonTag
  refine bind_frame ?_ (fun d1 _ h1 => h1.trans (produceNonTag_frame hcl d1 input lx))
  split
  · exact FrP.refl d
  · exact flushPendingText_frame hcl d

theorem startTagHint_frame {E : γ → γ → Prop} (hcl : TextBlindR ctl E) (d : Disp γ) (n : LocalName) (ns : Ns) :
    FrP ctl d (Disp.startTagHint ctl n ns d).1 := by
  unfold Disp.startTagHint
  simp only
  split <;> exact ⟨rfl, hcl.emit_start _ _ _⟩

theorem endTagHint_dj {E : γ → γ → Prop} (hcl : TextBlindR ctl E) (d : Disp γ) (n : LocalName) (hj : DJ ctl d) :
    DJ ctl (Disp.endTagHint ctl n d).1 := by
  unfold Disp.endTagHint DRes.bind
  have hf := flushPendingText_frame hcl d
  split
  · exact hf.dj hj
  · intro he
    have h1 := (hf.dj hj) he
    exact hcl.emit_end _ _ h1

/-! ### the guarded dispatcher is a sink for the resumption proof -/

theorem DK.dom {E : γ → γ → Prop} (hcl : TextBlindR ctl E) {inpS inpW : Bytes} {δ d : Nat} {ds dw : Disp γ}
    (h : DK ctl E inpS inpW δ d ds dw) : E ds.ctl ds.ctl ∧ E dw.ctl dw.ctl := by
  obtain ⟨_, h⟩ := h
  split at h
  · exact hcl.dom _ _ h.ctl
  · cases hf : ds.flags.text with
    | false => exact hcl.dom _ _ (h.1 hf).ctl
    | true => exact ⟨(hcl.dom _ _ (h.2 hf).ctl).1, hcl.dom_tok _ _ (hcl.dom _ _ (h.2 hf).ctl).2⟩

/-- **The guarded dispatcher instance of `OpsSim`**, for every controller in the class `TextBlindR`. -/
theorem guardOps_sim {E : γ → γ → Prop} {inpS inpW : Bytes} {δ : Nat} (F : Frame inpS inpW δ) (hcl : TextBlindR ctl E) :
    OpsSim (guardOps ctl) inpS inpW δ (DK ctl E inpS inpW δ) DLoc where
  tag := fun pc raw o ks kw hk => by
    obtain ⟨hj, h0⟩ := DK_zero.1 hk
    exact (handleTag_sim F hcl h0 hj pc raw o).mono (fun _ _ h => DK_zero.2 h)
  nonTag := fun pc raw o ks kw hk hdt => by
    obtain ⟨hj, h0⟩ := DK_zero.1 hk
    have := OpRel.and_left (P := DJ ctl) (handleNonTag_sim F hcl h0 pc raw o hdt)
      ((handleNonTag_frame hcl ks inpS ⟨pc + δ, raw, o⟩).dj hj)
    exact this.mono (fun _ _ h => DK_zero.2 ⟨h.2, h.1⟩)
  startHint := fun n ns ks kw hk => by
    obtain ⟨hj, h0⟩ := DK_zero.1 hk
    have := OpRel.and_left (P := DJ ctl) (startTagHint_sim hcl h0 n ns) ((startTagHint_frame hcl ks n ns).dj hj)
    exact this.mono (fun _ _ h => DK_zero.2 ⟨h.2, h.1⟩)
  endHint := fun n ks kw hk => by
    obtain ⟨hj, h0⟩ := DK_zero.1 hk
    have := OpRel.and_left (P := DJ ctl) (endTagHint_sim hcl h0 n) (endTagHint_dj hcl ks n hj)
    exact this.mono (fun _ _ h => DK_zero.2 ⟨h.2, h.1⟩)
  textOk := by
    intro pc raw tt d ks kw hk
    show EPanic (Disp.handleNonTag ctl inpS ⟨pc, raw, some (.text tt)⟩ ks).2 ∨ _
    rw [show (guardOps ctl).handleNonTag = Disp.handleNonTag ctl from rfl, handleNonTag_text]
    split
    · rcases produceText_desc hcl ks (hk.dom hcl).1 inpS ⟨pc, raw, some (.text tt)⟩ tt with hp | ⟨_, _, _, h2, _⟩
      · exact Or.inl hp
      · exact Or.inr h2
    · exact Or.inr rfl
  text := by
    intro pc a x d tt ks kw hk hloc hd hδ hx
    rw [show (guardOps ctl).handleNonTag = Disp.handleNonTag ctl from rfl, handleNonTag_text, handleNonTag_text]
    obtain ⟨hj, hk⟩ := hk
    rw [if_neg (by omega)] at hk
    cases hft : ks.flags.text with
    | false =>
      have h0 := hk.1 hft
      rw [h0.eq.flags, hft]
      simp only [Bool.false_eq_true, if_false, ite_self]
      exact OpRel.ok () (DK_zero.2 ⟨hj, h0⟩)
    | true =>
      have ht := hk.2 hft
      rw [ht.eq.flags, hft]
      simp only [if_true]
      have hl : ks.rcs = a + d - δ ∧ ks.textPendingStart = pc + δ + (a + d - δ) ∧ ks.lastTextType = tt ∧
          ks.textPending = true := hloc hft
      have hfr : DJ ctl (if a + d < x then ks.produceText ctl inpS ⟨pc + δ, ⟨a + d - δ, x - δ⟩, some (.text tt)⟩ tt
          else (ks, .ok ())).1 := by
        split
        · have := produceNonTag_frame hcl ks inpS ⟨pc + δ, ⟨a + d - δ, x - δ⟩, some (.text tt)⟩
          unfold Disp.produceNonTag at this
          simp only [hft, if_true] at this
          exact this.dj hj
        · exact hj
      have := OpRel.and_left (P := DJ ctl) (textRepay_sim F hcl pc a x d tt ht hl hd hδ hx (some (.text tt)) (some (.text tt))) hfr
      exact this.mono (fun _ _ h => DK_zero.2 ⟨h.2, h.1⟩)


end

end LolHtml.Model.Chunk.R
