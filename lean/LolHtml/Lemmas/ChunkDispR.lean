import LolHtml.Lemmas.ChunkDisp
/-!
The dispatcher as a sink for the resumption proof, for controllers that may REMOVE content
(`TextBlindR`): `should_emit_content()` may change — it is turned off by a tag token, back on by
`handle_end_tag`. The sink operations are the dispatcher's with one guard: `handle_tag` panics when it is
given a START-tag lexeme while emission is disabled and the controller wants it enabled (`guardOps`); that
this guard never fires in runs of the rewriter is a fact about the re-lexing of hinted end tags (pkg scan).
-/
namespace LolHtml.Model.Chunk.R
open LolHtml LolHtml.Model LolHtml.Model.Chunk

def tokIsTag : Token → Bool
  | .startTag .. => true
  | .endTag .. => true
  | _ => false

/-- a start-tag token's source range starts at or after the base of the slice it was cut from -/
def TokWf : Token → Prop
  | .startTag _ _ _ _ _ src base => base ≤ src.start
  | _ => True

/-- **The class of controllers, with content removal.** As `TextBlind`, but `should_emit_content()` may
change: `handle_start_tag`, the aux-info continuation and non-tag tokens keep it; `handle_end_tag` can only
turn it on; tag tokens may change it arbitrarily; `E` respects it. -/
structure TextBlindR {γ : Type} (ctl : Controller γ) (E : γ → γ → Prop) : Prop where
  dom : ∀ g g', E g g' → E g g ∧ E g' g'
  dom_tok : ∀ g t, E (ctl.token g t).1 (ctl.token g t).1 → E g g
  trans : ∀ g1 g2 g3, E g1 g2 → E g2 g3 → E g1 g3
  /-- tokens are observed through their absolute form -/
  token_norm : ∀ g t t', normToken t = normToken t' → TokWf t → TokWf t' → ctl.token g t = ctl.token g t'
  aux_norm : ∀ g i i', AuxRefines i i' → EPanic (ctl.auxInfo g i).2 ∨ ctl.auxInfo g i = ctl.auxInfo g i'
  start : ∀ g g' n ns, E g g' → (ctl.startTag g n ns).2 = (ctl.startTag g' n ns).2 ∧ E (ctl.startTag g n ns).1 (ctl.startTag g' n ns).1
  endT : ∀ g g' n, E g g' → (ctl.endTag g n).2 = (ctl.endTag g' n).2 ∧ E (ctl.endTag g n).1 (ctl.endTag g' n).1
  aux : ∀ g g' i, E g g' → (ctl.auxInfo g i).2 = (ctl.auxInfo g' i).2 ∧ E (ctl.auxInfo g i).1 (ctl.auxInfo g' i).1
  emit : ∀ g g', E g g' → ctl.shouldEmit g = ctl.shouldEmit g'
  emit_start : ∀ g n ns, ctl.shouldEmit (ctl.startTag g n ns).1 = ctl.shouldEmit g
  emit_aux : ∀ g i, ctl.shouldEmit (ctl.auxInfo g i).1 = ctl.shouldEmit g
  emit_end : ∀ g n, ctl.shouldEmit g = true → ctl.shouldEmit (ctl.endTag g n).1 = true
  emit_tok : ∀ g t, tokIsTag t = false → ctl.shouldEmit (ctl.token g t).1 = ctl.shouldEmit g
  flags : ∀ g g', E g g' → ctl.initialFlags g = ctl.initialFlags g'
  tok : ∀ g g' t, E g g' → tokIsText t = false →
    (ctl.token g t).2.chunks = (ctl.token g' t).2.chunks ∧ (ctl.token g t).2.err = (ctl.token g' t).2.err ∧
    (ctl.token g t).2.nextEncoding = (ctl.token g' t).2.nextEncoding ∧ E (ctl.token g t).1 (ctl.token g' t).1
  text_ok : ∀ g b tt l s, E g g → (ctl.token g (.text b tt l s)).2.err = none ∧
    (ctl.token g (.text b tt l s)).2.nextEncoding = none ∧ (ctl.token g (.text b tt l s)).2.chunks.flatten = b
  text_cong : ∀ g g' b tt l s, E g g' → E (ctl.token g (.text b tt l s)).1 (ctl.token g' (.text b tt l s)).1
  text_split : ∀ g b1 b2 tt l s, E g g →
    E (ctl.token (ctl.token g (.text b1 tt false ⟨s, s + b1.length⟩)).1 (.text b2 tt l ⟨s + b1.length, s + b1.length + b2.length⟩)).1
      (ctl.token g (.text (b1 ++ b2) tt l ⟨s, s + b1.length + b2.length⟩)).1
  handleEnd : ∀ g g', E g g' → (ctl.handleEnd g).2 = (ctl.handleEnd g').2 ∧ E (ctl.handleEnd g).1 (ctl.handleEnd g').1

/-- the old class (content never removed) is an instance -/
theorem TextBlind.toR {γ : Type} {ctl : Controller γ} {E : γ → γ → Prop} (h : TextBlind ctl E) : TextBlindR ctl E where
  dom := h.dom
  dom_tok := h.dom_tok
  trans := h.trans
  token_norm := fun g t t' hn _ _ => h.token_norm g t t' hn
  aux_norm := h.aux_norm
  start := h.start
  endT := h.endT
  aux := h.aux
  emit := fun g g' _ => by rw [h.emit, h.emit]
  emit_start := fun g n ns => by rw [h.emit, h.emit]
  emit_aux := fun g i => by rw [h.emit, h.emit]
  emit_end := fun g n _ => h.emit _
  emit_tok := fun g t _ => by rw [h.emit, h.emit]
  flags := h.flags
  tok := h.tok
  text_ok := h.text_ok
  text_cong := h.text_cong
  text_split := h.text_split
  handleEnd := h.handleEnd

section
variable {γ : Type}

/-- `handle_tag` is about to flip `emission_enabled` on without resetting `remaining_content_start`:
a start-tag lexeme while emission is disabled and the controller wants it enabled -/
def bareResume (ctl : Controller γ) (lx : TagLexeme) (d : Disp γ) : Bool :=
  lx.outline.isStart && !d.emissionEnabled && ctl.shouldEmit d.ctl

/-- **The guarded dispatcher**: `dispOps` with an assertion in `handle_tag`. -/
def guardOps (ctl : Controller γ) : SinkOps (Disp γ) :=
  { handleTag := fun inp lx d =>
      if bareResume ctl lx d then (d, .error (.panic "handle_tag: start tag while emission waits to resume"))
      else Disp.handleTag ctl inp lx d
    handleNonTag := Disp.handleNonTag ctl
    startTagHint := Disp.startTagHint ctl
    endTagHint := Disp.endTagHint ctl }

/-- emission is on only if the controller wants it on -/
def DJ (ctl : Controller γ) (d : Disp γ) : Prop := d.emissionEnabled = true → ctl.shouldEmit d.ctl = true

structure DK0 (E : γ → γ → Prop) (inpS inpW : Bytes) (δ : Nat) (ds dw : Disp γ) : Prop where
  ctl : E ds.ctl dw.ctl
  eq : DEq ds dw
  pend : DPend ds dw
  bytes : DBytes inpS inpW δ ds dw

structure DKt (ctl : Controller γ) (E : γ → γ → Prop) (inpS inpW : Bytes) (δ d : Nat) (ds dw : Disp γ) : Prop where
  ctl : E ds.ctl (ctl.token dw.ctl (.text (LolHtml.slice inpW (ds.rcs + δ - d) (ds.rcs + δ)) ds.lastTextType false
      ⟨ds.textPendingStart - d, ds.textPendingStart⟩)).1
  eq : DEq ds dw
  bytes : DBytes inpS inpW δ ds dw
  rcs_d : dw.rcs + d ≤ ds.rcs + δ
  rcs_in : ds.rcs ≤ inpS.length
  tps_d : d ≤ ds.textPendingStart

/-- the relation between the two dispatchers; `d`: text debt -/
def DK (ctl : Controller γ) (E : γ → γ → Prop) (inpS inpW : Bytes) (δ : Nat) (d : Nat) (ds dw : Disp γ) : Prop :=
  DJ ctl ds ∧
  if d = 0 then DK0 E inpS inpW δ ds dw
  else (ds.flags.text = false → DK0 E inpS inpW δ ds dw) ∧ (ds.flags.text = true → DKt ctl E inpS inpW δ d ds dw)

theorem DK_zero {ctl : Controller γ} {E : γ → γ → Prop} {inpS inpW : Bytes} {δ : Nat} {ds dw : Disp γ} :
    DK ctl E inpS inpW δ 0 ds dw ↔ DJ ctl ds ∧ DK0 E inpS inpW δ ds dw := by
  unfold DK; simp

variable {ctl : Controller γ}

/-- the same (non-text) token handed to the controller in both runs -/
theorem tok_sim {E : γ → γ → Prop} (hcl : TextBlindR ctl E) {ds dw : Disp γ} (hE : E ds.ctl dw.ctl) (heq : DEq ds dw)
    (hp : DPend ds dw) (t t' : Token) (ht : ∀ g, ctl.token g t = ctl.token g t') (hnt : tokIsText t' = false) :
    (Disp.tokenProduced ctl dw t').2 = (Disp.tokenProduced ctl ds t).2 ∧
    E (Disp.tokenProduced ctl ds t).1.ctl (Disp.tokenProduced ctl dw t').1.ctl ∧
    DEq (Disp.tokenProduced ctl ds t).1 (Disp.tokenProduced ctl dw t').1 ∧
    DPend (Disp.tokenProduced ctl ds t).1 (Disp.tokenProduced ctl dw t').1 ∧
    (Disp.tokenProduced ctl ds t).1.rcs = ds.rcs ∧ (Disp.tokenProduced ctl dw t').1.rcs = dw.rcs ∧
    ∃ X, sinkBytes (Disp.tokenProduced ctl ds t).1.sink = sinkBytes ds.sink ++ (if ds.emissionEnabled = true then X else []) ∧
      sinkBytes (Disp.tokenProduced ctl dw t').1.sink = sinkBytes dw.sink ++ (if ds.emissionEnabled = true then X else []) := by
  obtain ⟨a1, a2, a3, a4, a5, a6, a7, a8, a9, a10, a11, a12, a13⟩ := tokenProduced_desc (ctl := ctl) ds t
  obtain ⟨b1, b2, b3, b4, b5, b6, b7, b8, b9, b10, b11, b12, b13⟩ := tokenProduced_desc (ctl := ctl) dw t'
  rw [ht ds.ctl] at a1 a11 a12 a13
  obtain ⟨c1, c2, c3, c4⟩ := hcl.tok ds.ctl dw.ctl t' hE hnt
  refine ⟨by rw [a13, b13, c2], by rw [a1, b1]; exact c4, ⟨by rw [a3, b3]; exact heq.flags, by rw [a4, b4]; exact heq.em,
    by rw [a6, b6]; exact heq.gffh, by rw [a7, b7]; exact heq.paux, by rw [a10, b10]; exact heq.enc,
    by rw [a11, b11, c3, heq.nenc]⟩, ⟨by rw [a5, b5]; exact hp.ltt, by rw [a8, b8]; exact hp.tp, by rw [a9, b9]; exact hp.tps⟩,
    a2, b2, (ctl.token ds.ctl t').2.chunks.flatten, a12, by rw [b12, heq.em, c1]⟩

/-- `flush_pending_captured_text` in both runs -/
theorem flushPendingText_sim {E : γ → γ → Prop} {inpS inpW : Bytes} {δ : Nat} (hcl : TextBlindR ctl E) {ds dw : Disp γ}
    (h : DK0 E inpS inpW δ ds dw) :
    (dw.flushPendingText ctl).2 = .ok () ∧ (ds.flushPendingText ctl).2 = .ok () ∧
    DK0 E inpS inpW δ (ds.flushPendingText ctl).1 (dw.flushPendingText ctl).1 ∧
    (ds.flushPendingText ctl).1.rcs = ds.rcs ∧ (dw.flushPendingText ctl).1.rcs = dw.rcs ∧
    (ds.flushPendingText ctl).1.emissionEnabled = ds.emissionEnabled ∧
    ctl.shouldEmit (ds.flushPendingText ctl).1.ctl = ctl.shouldEmit ds.ctl := by
  unfold Disp.flushPendingText
  rw [h.pend.tp]
  cases htp : ds.textPending with
  | false => exact ⟨rfl, rfl, h, rfl, rfl, rfl, rfl⟩
  | true =>
    simp only [if_true]
    have htok : (Token.text [] dw.lastTextType true ⟨dw.textPendingStart, dw.textPendingStart⟩)
        = Token.text [] ds.lastTextType true ⟨ds.textPendingStart, ds.textPendingStart⟩ := by
      rw [h.pend.ltt, h.pend.tps]
    rw [htok]
    obtain ⟨a1, a2, a3, a4, a5, a6, a7, a8, a9, a10, a11, a12, a13⟩ := tokenProduced_desc (ctl := ctl) { ds with textPending := false }
      (.text [] ds.lastTextType true ⟨ds.textPendingStart, ds.textPendingStart⟩)
    obtain ⟨b1, b2, b3, b4, b5, b6, b7, b8, b9, b10, b11, b12, b13⟩ := tokenProduced_desc (ctl := ctl) { dw with textPending := false }
      (.text [] ds.lastTextType true ⟨ds.textPendingStart, ds.textPendingStart⟩)
    obtain ⟨c1, c2, c3⟩ := hcl.text_ok ds.ctl [] ds.lastTextType true ⟨ds.textPendingStart, ds.textPendingStart⟩ (hcl.dom _ _ h.ctl).1
    obtain ⟨e1, e2, e3⟩ := hcl.text_ok dw.ctl [] ds.lastTextType true ⟨ds.textPendingStart, ds.textPendingStart⟩ (hcl.dom _ _ h.ctl).2
    simp only at a1 a11 a12 a13 b1 b11 b12 b13
    rw [c1] at a13; rw [e1] at b13
    rw [c2] at a11; rw [e2] at b11
    rw [c3] at a12; rw [e3] at b12
    refine ⟨b13, a13, ⟨by rw [a1, b1]; exact hcl.text_cong _ _ _ _ _ _ h.ctl, ⟨by rw [a3, b3]; exact h.eq.flags, by rw [a4, b4]; exact h.eq.em,
      by rw [a6, b6]; exact h.eq.gffh, by rw [a7, b7]; exact h.eq.paux, by rw [a10, b10]; exact h.eq.enc,
      by rw [a11, b11]; exact h.eq.nenc⟩, ⟨by rw [a5, b5]; exact h.pend.ltt, by rw [a8, b8], by rw [a9, b9]; exact h.pend.tps⟩, ?_⟩, a2, b2, a4, by rw [a1]; exact hcl.emit_tok _ _ rfl⟩
    refine DBytes.append (ds := { ds with textPending := false }) (dw := { dw with textPending := false })
      ⟨h.bytes.rcs_le, h.bytes.bytes⟩ [] ?_ ?_ a2 b2 a4 (Or.inl rfl)
    · rw [a12]
    · rw [b12]; simp

theorem DK0.of_same {E : γ → γ → Prop} {inpS inpW : Bytes} {δ : Nat} {ds dw ds' dw' : Disp γ}
    (h : DK0 E inpS inpW δ ds dw) (hs : DSame ds ds') (hw : DSame dw dw') (hb : DBytes inpS inpW δ ds' dw') :
    DK0 E inpS inpW δ ds' dw' :=
  ⟨by rw [hs.ctl, hw.ctl]; exact h.ctl,
   ⟨by rw [hs.flags, hw.flags]; exact h.eq.flags, by rw [hs.em, hw.em]; exact h.eq.em, by rw [hs.gffh, hw.gffh]; exact h.eq.gffh,
    by rw [hs.paux, hw.paux]; exact h.eq.paux, by rw [hs.enc, hw.enc]; exact h.eq.enc, by rw [hs.nenc, hw.nenc]; exact h.eq.nenc⟩,
   ⟨by rw [hs.ltt, hw.ltt]; exact h.pend.ltt, by rw [hs.tp, hw.tp]; exact h.pend.tp, by rw [hs.tps, hw.tps]; exact h.pend.tps⟩, hb⟩

/-- the tail of `try_produce_token_from_lexeme` in both runs -/
theorem emitToken_sim {E : γ → γ → Prop} {inpS inpW : Bytes} {δ : Nat} (F : Frame inpS inpW δ) (hcl : TextBlindR ctl E)
    {ds dw : Disp γ} (h : DK0 E inpS inpW δ ds dw) (raw : Range) (tok tok' : Token)
    (ht : ∀ g, ctl.token g tok = ctl.token g tok') (hnt : tokIsText tok' = false)
    (hraw : raw.start ≤ raw.end ∧ raw.end ≤ inpS.length) :
    OpRel (fun ds' dw' => DK0 E inpS inpW δ ds' dw' ∧ ds'.emissionEnabled = ds.emissionEnabled ∧ dw'.rcs = ds'.rcs + δ)
      (ds.emitToken ctl inpS raw tok) (dw.emitToken ctl inpW (shR δ raw) tok') := by
  unfold Disp.emitToken
  cases he : ds.emitChunkBefore inpS raw with
  | error e =>
    left
    unfold Disp.emitChunkBefore at he
    split at he
    · simp only [Except.error.injEq] at he
      subst he
      simp [DRes.ofExcept, DRes.bind, EPanic]
    · cases he
  | ok ds1 =>
    obtain ⟨dw1, hw1, s1, s2, r1, r2, r3, r4, hsb⟩ := emitChunkBefore_sim F h.bytes h.eq.em raw he
    rw [hw1]
    simp only [DRes.ofExcept, DRes.bind]
    have hE1 : E ds1.ctl dw1.ctl := by rw [s1.ctl, s2.ctl]; exact h.ctl
    have hk1 : DK0 E inpS inpW δ ds1 dw1 := h.of_same s1 s2 ⟨by rw [r1, r2]; exact Nat.le_refl _, by
      rw [hsb, r1, r2]
      have : LolHtml.slice inpW (raw.start + δ) (raw.start + δ) = [] := by unfold LolHtml.slice; simp
      rw [this]; cases ds1.emissionEnabled <;> simp⟩
    obtain ⟨t1, t2, t3, t4, t5, t6, X, t7, t8⟩ := tok_sim hcl hE1 hk1.eq hk1.pend tok tok' ht hnt
    right
    rw [t1]
    cases hres : (Disp.tokenProduced ctl ds1 tok).2 with
    | error e => exact ⟨rfl, fun ⟨a, ha⟩ => by cases ha⟩
    | ok u =>
      simp only
      refine ⟨trivial, fun _ => ?_⟩
      obtain ⟨a1, a2, a3, a4, a5, a6, a7, a8, a9, a10, a11, a12⟩ :=
        flushEncodingChange_desc { (Disp.tokenProduced ctl ds1 tok).1 with rcs := raw.end }
      obtain ⟨b1, b2, b3, b4, b5, b6, b7, b8, b9, b10, b11, b12⟩ :=
        flushEncodingChange_desc { (Disp.tokenProduced ctl dw1 tok').1 with rcs := (shR δ raw).end }
      simp only at a1 a2 a3 a4 a5 a6 a7 a8 a9 a10 a11 a12 b1 b2 b3 b4 b5 b6 b7 b8 b9 b10 b11 b12
      refine ⟨⟨by rw [a1, b1]; exact t2, ⟨by rw [a3, b3]; exact t3.flags, by rw [a4, b4]; exact t3.em, by rw [a6, b6]; exact t3.gffh,
        by rw [a7, b7]; exact t3.paux, by rw [a12, b12, t3.nenc, t3.enc], by rw [a10, b10]; exact t3.nenc⟩,
        ⟨by rw [a5, b5]; exact t4.ltt, by rw [a8, b8]; exact t4.tp, by rw [a9, b9]; exact t4.tps⟩,
        ⟨by rw [a2, b2]; simp [shR], ?_⟩⟩, by rw [a4, (tokenProduced_desc (ctl := ctl) ds1 tok).2.2.2.1, s1.em],
        by rw [a2, b2]; simp [shR]⟩
      rw [a11, b11, a2, b2, t7, t8, hsb]
      have : LolHtml.slice inpW (shR δ raw).end (raw.end + δ) = [] := by unfold LolHtml.slice; simp [shR]
      rw [this]
      cases (Disp.tokenProduced ctl ds1 tok).1.flushEncodingChange.emissionEnabled <;> simp

theorem DK0.setFlags {E : γ → γ → Prop} {inpS inpW : Bytes} {δ : Nat} {ds dw : Disp γ} (h : DK0 E inpS inpW δ ds dw)
    (f : Flags) : DK0 E inpS inpW δ { ds with flags := f } { dw with flags := f } :=
  ⟨h.ctl, ⟨rfl, h.eq.em, h.eq.gffh, h.eq.paux, h.eq.enc, h.eq.nenc⟩, ⟨h.pend.ltt, h.pend.tp, h.pend.tps⟩,
    ⟨h.bytes.rcs_le, h.bytes.bytes⟩⟩

theorem DK0.setCtl {E : γ → γ → Prop} {inpS inpW : Bytes} {δ : Nat} {ds dw : Disp γ} (h : DK0 E inpS inpW δ ds dw)
    {c c' : γ} (hc : E c c') : DK0 E inpS inpW δ { ds with ctl := c } { dw with ctl := c' } :=
  ⟨hc, ⟨h.eq.flags, h.eq.em, h.eq.gffh, h.eq.paux, h.eq.enc, h.eq.nenc⟩, ⟨h.pend.ltt, h.pend.tp, h.pend.tps⟩,
    ⟨h.bytes.rcs_le, h.bytes.bytes⟩⟩

theorem DK0.setPaux {E : γ → γ → Prop} {inpS inpW : Bytes} {δ : Nat} {ds dw : Disp γ} (h : DK0 E inpS inpW δ ds dw)
    (b : Bool) : DK0 E inpS inpW δ { ds with pendingAux := b } { dw with pendingAux := b } :=
  ⟨h.ctl, ⟨h.eq.flags, h.eq.em, h.eq.gffh, rfl, h.eq.enc, h.eq.nenc⟩, ⟨h.pend.ltt, h.pend.tp, h.pend.tps⟩,
    ⟨h.bytes.rcs_le, h.bytes.bytes⟩⟩

theorem DK0.setGffh {E : γ → γ → Prop} {inpS inpW : Bytes} {δ : Nat} {ds dw : Disp γ} (h : DK0 E inpS inpW δ ds dw)
    (b : Bool) : DK0 E inpS inpW δ { ds with gotFlagsFromHint := b } { dw with gotFlagsFromHint := b } :=
  ⟨h.ctl, ⟨h.eq.flags, h.eq.em, rfl, h.eq.paux, h.eq.enc, h.eq.nenc⟩, ⟨h.pend.ltt, h.pend.tp, h.pend.tps⟩,
    ⟨h.bytes.rcs_le, h.bytes.bytes⟩⟩

/-! ### lexemes to tokens -/

theorem tagToToken_wf {f f' : Flags} {input : Bytes} {lx : TagLexeme} {tok : Token}
    (h : tagToToken f input lx = some (f', some tok)) : TokWf tok := by
  unfold tagToToken at h
  split at h
  · split at h
    · split at h
      · simp only [Option.some.injEq, Prod.mk.injEq] at h
        obtain ⟨_, h2⟩ := h
        subst h2
        show lx.prevConsumed ≤ lx.prevConsumed + lx.raw.start
        exact Nat.le_add_right _ _
      · cases h
    · simp at h
  · split at h
    · split at h
      · simp only [Option.some.injEq, Prod.mk.injEq] at h
        obtain ⟨_, h2⟩ := h
        subst h2
        trivial
      · cases h
    · simp at h

theorem OpRel.and_left {α : Type} {R : Disp γ → Disp γ → Prop} {P : Disp γ → Prop} {rs rw : DRes γ α}
    (h : OpRel R rs rw) (hp : P rs.1) : OpRel (fun a b => R a b ∧ P a) rs rw := by
  rcases h with h | ⟨h1, h2⟩
  · exact Or.inl h
  · exact Or.inr ⟨h1, fun hx => ⟨h2 hx, hp⟩⟩

/-- `try_produce_token_from_lexeme` for tags: afterwards the slack is empty (a token was produced) or the
controller has not been called -/
theorem produceTag_sim {E : γ → γ → Prop} {inpS inpW : Bytes} {δ : Nat} (F : Frame inpS inpW δ) (hcl : TextBlindR ctl E)
    {ds dw : Disp γ} (h : DK0 E inpS inpW δ ds dw) (pc : Nat) (raw : Range) (o : TagOutline) :
    OpRel (fun ds' dw' => DK0 E inpS inpW δ ds' dw' ∧ ds'.emissionEnabled = ds.emissionEnabled ∧
        (dw'.rcs = ds'.rcs + δ ∨ (ds'.ctl = ds.ctl ∧ ds'.rcs = ds.rcs ∧ dw'.rcs = dw.rcs)))
      (ds.produceTag ctl inpS ⟨pc + δ, raw, o⟩) (dw.produceTag ctl inpW ⟨pc, shR δ raw, shTag δ o⟩) := by
  unfold Disp.produceTag
  rw [h.eq.flags]
  cases htt : tagToToken ds.flags inpS ⟨pc + δ, raw, o⟩ with
  | none => exact Or.inl trivial
  | some ft =>
    obtain ⟨t', hw, hrel⟩ := tagToToken_sim F ds.flags pc raw o ft htt
    rw [hw]
    simp only
    cases hft : ft.2 with
    | none =>
      rw [hft] at hrel
      cases t' with
      | none => exact Or.inr ⟨rfl, fun _ => ⟨h.setFlags ft.1, rfl, Or.inr ⟨rfl, rfl, rfl⟩⟩⟩
      | some x => exact hrel.elim
    | some tok =>
      rw [hft] at hrel
      cases t' with
      | none => exact hrel.elim
      | some tok' =>
        obtain ⟨hn, hnt, hr1, hr2⟩ := hrel
        have hwf1 : TokWf tok := tagToToken_wf (f' := ft.1) (by rw [htt, ← hft])
        have hwf2 : TokWf tok' := tagToToken_wf hw
        exact (emitToken_sim F hcl (h.setFlags ft.1) raw tok tok'
          (fun g => hcl.token_norm g tok tok' hn hwf1 hwf2) hnt ⟨hr1, hr2⟩).mono
            (fun a b hab => ⟨hab.1, hab.2.1, Or.inl hab.2.2⟩)

/-! ### capture-flag adjustment -/

theorem answerAux_sim {E : γ → γ → Prop} {inpS inpW : Bytes} {δ : Nat} (F : Frame inpS inpW δ) (hcl : TextBlindR ctl E)
    {ds dw : Disp γ} (h : DK0 E inpS inpW δ ds dw) (as : List AttrOutline) (sc : Bool) :
    OpRel (DK0 E inpS inpW δ) (ds.answerAux ctl ⟨inpS, as, sc⟩) (dw.answerAux ctl ⟨inpW, as.map (shA δ), sc⟩) := by
  unfold Disp.answerAux
  rcases hcl.aux_norm ds.ctl _ _ (auxRefines_sh F as sc) with hp | heq
  · left
    simp only
    revert hp
    cases (ctl.auxInfo ds.ctl ⟨inpS, as, sc⟩).2 with
    | ok f => intro hp; exact hp.elim
    | error e =>
      intro hp
      simp only
      cases e <;> first | exact hp.elim | exact trivial
  · right
    rw [heq]
    obtain ⟨h1, h2⟩ := hcl.aux ds.ctl dw.ctl ⟨inpW, as.map (shA δ), sc⟩ h.ctl
    simp only
    rw [← h1]
    cases (ctl.auxInfo ds.ctl ⟨inpW, as.map (shA δ), sc⟩).2 with
    | ok f => exact ⟨rfl, fun _ => (h.setCtl h2).setFlags f⟩
    | error e => exact ⟨rfl, fun ⟨a, ha⟩ => by cases ha⟩

theorem adjustFlags_sim {E : γ → γ → Prop} {inpS inpW : Bytes} {δ : Nat} (F : Frame inpS inpW δ) (hcl : TextBlindR ctl E)
    {ds dw : Disp γ} (h : DK0 E inpS inpW δ ds dw) (pc : Nat) (raw : Range) (o : TagOutline) :
    OpRel (DK0 E inpS inpW δ) (ds.adjustFlagsForTag ctl inpS ⟨pc + δ, raw, o⟩)
      (dw.adjustFlagsForTag ctl inpW ⟨pc, shR δ raw, shTag δ o⟩) := by
  unfold Disp.adjustFlagsForTag
  by_cases hpa : ds.pendingAux = true
  · have hpw : dw.pendingAux = true := by rw [h.eq.paux]; exact hpa
    rw [if_pos hpa, if_pos hpw]
    cases o with
    | startTag name hsh ns as sc =>
      simp only [shTag]
      exact answerAux_sim F hcl (h.setPaux false) as sc
    | endTag name hsh =>
      simp only [shTag]
      exact Or.inr ⟨rfl, fun ⟨a, ha⟩ => by cases ha⟩
  · have hpw : ¬ dw.pendingAux = true := by rw [h.eq.paux]; exact hpa
    rw [if_neg hpa, if_neg hpw]
    cases o with
    | startTag name hsh ns as sc =>
      simp only [shTag]
      cases hn : LocalName.new inpS name hsh with
      | none => exact Or.inl trivial
      | some ln =>
        rw [localName_shD F hn]
        simp only
        obtain ⟨h1, h2⟩ := hcl.start ds.ctl dw.ctl ln ns h.ctl
        rw [← h1]
        cases (ctl.startTag ds.ctl ln ns).2 with
        | flags f => exact Or.inr ⟨rfl, fun _ => (h.setCtl h2).setFlags f⟩
        | infoRequest => exact answerAux_sim F hcl (h.setCtl h2) as sc
        | err e => exact Or.inr ⟨rfl, fun ⟨a, ha⟩ => by cases ha⟩
    | endTag name hsh =>
      simp only [shTag]
      cases hn : LocalName.new inpS name hsh with
      | none => exact Or.inl trivial
      | some ln =>
        rw [localName_shD F hn]
        simp only
        obtain ⟨h1, h2⟩ := hcl.endT ds.ctl dw.ctl ln h.ctl
        rw [← h1]
        exact Or.inr ⟨rfl, fun _ => (h.setCtl h2).setFlags _⟩

/-! ### what the dispatcher operations do to `emission_enabled` and `should_emit_content()` -/

theorem answerAux_frame {E : γ → γ → Prop} (hcl : TextBlindR ctl E) (d : Disp γ) (info : AuxInfo) :
    (d.answerAux ctl info).1.emissionEnabled = d.emissionEnabled ∧
    ctl.shouldEmit (d.answerAux ctl info).1.ctl = ctl.shouldEmit d.ctl := by
  unfold Disp.answerAux
  simp only
  split <;> exact ⟨rfl, hcl.emit_aux _ _⟩

theorem adjustFlags_frame {E : γ → γ → Prop} (hcl : TextBlindR ctl E) (d : Disp γ) (input : Bytes) (lx : TagLexeme) :
    (d.adjustFlagsForTag ctl input lx).1.emissionEnabled = d.emissionEnabled ∧
    (lx.outline.isStart = true → ctl.shouldEmit (d.adjustFlagsForTag ctl input lx).1.ctl = ctl.shouldEmit d.ctl) ∧
    (ctl.shouldEmit d.ctl = true → ctl.shouldEmit (d.adjustFlagsForTag ctl input lx).1.ctl = true) := by
  unfold Disp.adjustFlagsForTag
  split
  · simp only
    split
    · obtain ⟨a, b⟩ := answerAux_frame hcl { d with pendingAux := false } ⟨input, _, _⟩
      exact ⟨a, fun _ => b, fun h => by rw [b]; exact h⟩
    · exact ⟨rfl, fun _ => rfl, fun h => h⟩
  · split
    · rename_i name hsh ns as sc _
      split
      · exact ⟨rfl, fun _ => rfl, fun h => h⟩
      · rename_i ln _
        simp only
        have hs := hcl.emit_start d.ctl ln ns
        split
        · exact ⟨rfl, fun _ => hs, fun h => by rw [hs]; exact h⟩
        · obtain ⟨a, b⟩ := answerAux_frame hcl { d with ctl := (ctl.startTag d.ctl ln ns).1 } ⟨input, as, sc⟩
          exact ⟨a, fun _ => by rw [b]; exact hs, fun h => by rw [b, hs]; exact h⟩
        · exact ⟨rfl, fun _ => hs, fun h => by rw [hs]; exact h⟩
    · rename_i name hsh heq
      split
      · exact ⟨rfl, (fun hh => by rw [heq] at hh <;> cases hh), fun h => h⟩
      · rename_i ln _
        exact ⟨rfl, (fun hh => by rw [heq] at hh <;> cases hh), fun h => hcl.emit_end _ _ h⟩

theorem resumeEmission_sim {E : γ → γ → Prop} {inpS inpW : Bytes} {δ : Nat} (hcl : TextBlindR ctl E)
    {ds dw : Disp γ} (h : DK0 E inpS inpW δ ds dw) (pc : Nat) (raw : Range) (o : TagOutline) :
    DK0 E inpS inpW δ (ds.resumeEmission ctl ⟨pc + δ, raw, o⟩) (dw.resumeEmission ctl ⟨pc, shR δ raw, shTag δ o⟩) := by
  unfold Disp.resumeEmission Disp.shouldStopRemoving
  simp only [isStart_sh]
  rw [h.eq.em, ← hcl.emit _ _ h.ctl]
  split
  · rename_i hc
    simp only [Bool.and_eq_true, Bool.not_eq_true'] at hc
    have hem : ds.emissionEnabled = false := hc.2.1
    refine ⟨h.ctl, ⟨h.eq.flags, rfl, h.eq.gffh, h.eq.paux, h.eq.enc, h.eq.nenc⟩, ⟨h.pend.ltt, h.pend.tp, h.pend.tps⟩,
      ⟨by simp [shR], ?_⟩⟩
    have hb := h.bytes.bytes
    rw [hem] at hb
    simp only [Bool.false_eq_true, if_false, List.append_nil] at hb
    simp only [if_true, hb]
    have : LolHtml.slice inpW (shR δ raw).start (raw.start + δ) = [] := by unfold LolHtml.slice; simp [shR]
    rw [this]; simp
  · exact h

/-- **`LexemeSink::handle_tag`**, guarded -/
theorem handleTag_sim {E : γ → γ → Prop} {inpS inpW : Bytes} {δ : Nat} (F : Frame inpS inpW δ) (hcl : TextBlindR ctl E)
    {ds dw : Disp γ} (h : DK0 E inpS inpW δ ds dw) (hj : DJ ctl ds) (pc : Nat) (raw : Range) (o : TagOutline) :
    OpRel (fun ds' dw' => DJ ctl ds' ∧ DK0 E inpS inpW δ ds' dw')
      ((guardOps ctl).handleTag inpS ⟨pc + δ, raw, o⟩ ds)
      ((guardOps ctl).handleTag inpW ⟨pc, shR δ raw, shTag δ o⟩ dw) := by
  show OpRel _ (if bareResume ctl ⟨pc + δ, raw, o⟩ ds = true then _ else _)
    (if bareResume ctl ⟨pc, shR δ raw, shTag δ o⟩ dw = true then _ else _)
  have hbr : bareResume ctl ⟨pc, shR δ raw, shTag δ o⟩ dw = bareResume ctl ⟨pc + δ, raw, o⟩ ds := by
    unfold bareResume
    simp only [isStart_sh]
    rw [h.eq.em, ← hcl.emit _ _ h.ctl]
  rw [hbr]
  by_cases hg : bareResume ctl ⟨pc + δ, raw, o⟩ ds = true
  · rw [if_pos hg]; exact Or.inl trivial
  rw [if_neg hg, if_neg hg]
  -- the guard did not fire
  have hng : ¬ (o.isStart = true ∧ ds.emissionEnabled = false ∧ ctl.shouldEmit ds.ctl = true) := by
    intro ⟨a, b, c⟩
    apply hg
    unfold bareResume
    simp [a, b, c]
  unfold Disp.handleTag
  obtain ⟨f1, f2, f3, _, _, f6, f7⟩ := flushPendingText_sim hcl h
  let R1 : Disp γ → Disp γ → Prop := fun a b => DK0 E inpS inpW δ a b ∧
    (a.emissionEnabled = ds.emissionEnabled ∧ ctl.shouldEmit a.ctl = ctl.shouldEmit ds.ctl)
  have hflush : OpRel R1 (ds.flushPendingText ctl) (dw.flushPendingText ctl) :=
    Or.inr ⟨by rw [f1, f2], fun _ => ⟨f3, f6, f7⟩⟩
  refine bind_rel hflush (fun ds1 dw1 _ h1 => ?_)
  obtain ⟨h1k, h1e, h1s⟩ := h1
  let R2 : Disp γ → Disp γ → Prop := fun a b => DK0 E inpS inpW δ a b ∧
    (a.emissionEnabled = ds.emissionEnabled ∧
      (o.isStart = true → ctl.shouldEmit a.ctl = ctl.shouldEmit ds.ctl) ∧
      (ctl.shouldEmit ds.ctl = true → ctl.shouldEmit a.ctl = true))
  refine bind_rel (R := R2) ?_ (fun ds2 dw2 _ h2 => ?_)
  · rw [h1k.eq.gffh]
    split
    · exact OpRel.ok () ⟨h1k.setGffh false, h1e, fun _ => h1s, fun hh => h1s.trans hh⟩
    · obtain ⟨a, b, c⟩ := adjustFlags_frame hcl ds1 inpS ⟨pc + δ, raw, o⟩
      exact OpRel.and_left (adjustFlags_sim F hcl h1k pc raw o)
        (P := fun x => x.emissionEnabled = ds.emissionEnabled ∧
          (o.isStart = true → ctl.shouldEmit x.ctl = ctl.shouldEmit ds.ctl) ∧
          (ctl.shouldEmit ds.ctl = true → ctl.shouldEmit x.ctl = true))
        ⟨a.trans h1e, fun hs => (b hs).trans h1s, fun hh => c (by rw [h1s]; exact hh)⟩
  · obtain ⟨h2k, h2e, h2s, h2t⟩ := h2
    have h2r := resumeEmission_sim hcl h2k pc raw o
    -- what `resume` does to the split dispatcher
    have hres : (ds2.resumeEmission ctl ⟨pc + δ, raw, o⟩).ctl = ds2.ctl := by
      unfold Disp.resumeEmission; split <;> rfl
    have hresW : (dw2.resumeEmission ctl ⟨pc, shR δ raw, shTag δ o⟩).ctl = dw2.ctl := by
      unfold Disp.resumeEmission; split <;> rfl
    refine bind_rel (produceTag_sim F hcl h2r pc raw o) (fun ds3 dw3 _ h3 => ?_)
    obtain ⟨h3k, h3e, h3c⟩ := h3
    have hse := hcl.emit _ _ h3k.ctl
    -- the new value of `emission_enabled` differs from the old one only when the slack is empty
    have hkey : ctl.shouldEmit ds3.ctl = ds3.emissionEnabled ∨ dw3.rcs = ds3.rcs + δ := by
      by_cases hrs : (!o.isStart && (!ds2.emissionEnabled && ctl.shouldEmit ds2.ctl)) = true
      · -- emission resumed: `remaining_content_start` was reset in both runs
        right
        have e1 : (ds2.resumeEmission ctl ⟨pc + δ, raw, o⟩).rcs = raw.start := by
          unfold Disp.resumeEmission Disp.shouldStopRemoving; rw [if_pos hrs]
        have e2 : (dw2.resumeEmission ctl ⟨pc, shR δ raw, shTag δ o⟩).rcs = raw.start + δ := by
          unfold Disp.resumeEmission Disp.shouldStopRemoving
          simp only [isStart_sh]
          rw [h2k.eq.em, ← hcl.emit _ _ h2k.ctl, if_pos hrs]
          rfl
        rcases h3c with h3c | ⟨_, c2, c3⟩
        · exact h3c
        · rw [c3, c2, e1, e2]
      · -- emission not resumed
        have hid : ds2.resumeEmission ctl ⟨pc + δ, raw, o⟩ = ds2 := by
          unfold Disp.resumeEmission Disp.shouldStopRemoving; rw [if_neg hrs]
        rw [hid] at h3e h3c
        rcases h3c with h3c | ⟨c1, _, _⟩
        · exact Or.inr h3c
        · left
          rw [c1, h3e, h2e]
          cases hem : ds.emissionEnabled with
          | true => exact h2t (hj hem)
          | false =>
            cases hs2 : ctl.shouldEmit ds2.ctl with
            | false => rfl
            | true =>
              exfalso
              have hstart : o.isStart = true := by
                cases ho : o.isStart with
                | true => rfl
                | false =>
                  exfalso; apply hrs
                  simp [ho, h2e, hem, hs2]
              exact hng ⟨hstart, hem, by rw [← h2s hstart]; exact hs2⟩
    have hd : Disp.nextDirective ({ dw3 with emissionEnabled := ctl.shouldEmit dw3.ctl } : Disp γ) =
        Disp.nextDirective ({ ds3 with emissionEnabled := ctl.shouldEmit ds3.ctl } : Disp γ) := by
      unfold Disp.nextDirective; simp only; rw [h3k.eq.flags]
    simp only
    rw [hd]
    refine OpRel.ok _ ⟨fun hh => hh, h3k.ctl, ⟨h3k.eq.flags, hse.symm, h3k.eq.gffh, h3k.eq.paux, h3k.eq.enc, h3k.eq.nenc⟩,
      ⟨h3k.pend.ltt, h3k.pend.tp, h3k.pend.tps⟩, ⟨h3k.bytes.rcs_le, ?_⟩⟩
    have hb := h3k.bytes.bytes
    simp only
    rcases hkey with hk | hk
    · rw [hk]; exact hb
    · rw [hk] at hb ⊢
      rw [slice_self] at hb ⊢
      rw [hb]
      cases ds3.emissionEnabled <;> cases ctl.shouldEmit ds3.ctl <;> simp

end

end LolHtml.Model.Chunk.R
