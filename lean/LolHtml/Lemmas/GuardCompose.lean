import LolHtml.Lemmas.RunRelInv
import LolHtml.Lemmas.ArgsStream
/-!
# The argument guard on top of any other guard

`withArgs s0 K`: first the argument guard of package inv (`argGuard s0`), then a state-dependent guard `K`.
`parse_args_valid` holds for EVERY sink, in particular for the dispatcher guarded by `K`; so "the combined guard
never fires" (`GuardFree`) follows from "`K` never fires" alone (`guardFree_withArgs`) — the argument part is
discharged once and for all, for every controller that is fresh for it (`ArgsCtl`).
-/
set_option linter.unusedSimpArgs false
set_option linter.unusedVariables false
namespace LolHtml.Model.RelI
open LolHtml LolHtml.Model
open LolHtml.Thm.C01 (writeAll run Rewriter.new)

variable {κ : Type}

def withArgs (s0 : String) (K : SGuard κ) : SGuard κ :=
  { tag := fun inp lx k => match (argGuard s0).tag inp lx with | some e => some e | none => K.tag inp lx k
    nonTag := fun inp lx k => match (argGuard s0).nonTag inp lx with | some e => some e | none => K.nonTag inp lx k }

theorem guardS_withArgs (s0 : String) (K : SGuard κ) (ops : SinkOps κ) :
    guardS (withArgs s0 K) ops = guardArgs (argGuard s0) (guardS K ops) := by
  unfold guardS withArgs guardArgs
  congr 1
  · funext inp lx k
    dsimp only
    cases (argGuard s0).tag inp lx <;> rfl
  · funext inp lx k
    dsimp only
    cases (argGuard s0).nonTag inp lx <;> rfl

/-- the errors of `K` are not the argument guard's -/
def KFresh (s0 : String) (K : SGuard κ) (inp : Bytes) : Prop :=
  (∀ lx k e, K.tag inp lx k = some e → e ≠ .panic s0 ∧ e ≠ .panic rawSite) ∧
  (∀ lx k e, K.nonTag inp lx k = some e → e ≠ .panic s0 ∧ e ≠ .panic rawSite)

theorem argsFresh_guardS {s0 : String} {K : SGuard κ} {ops : SinkOps κ} {inp : Bytes} {Dk : κ → Prop}
    (hf : ArgsFresh s0 ops inp Dk) (hK : KFresh s0 K inp) : ArgsFresh s0 (guardS K ops) inp Dk where
  handleTag := fun lx k hD hv => by
    simp only [guardS]
    cases hg : K.tag inp lx k with
    | some e =>
      obtain ⟨n1, n2⟩ := hK.1 lx k e hg
      refine ⟨fun hh => ?_, fun hh => ?_, fun a ha => by cases ha⟩
      · simp only [Except.error.injEq] at hh; exact n1 hh
      · simp only [Except.error.injEq] at hh; exact n2 hh
    | none => exact hf.handleTag lx k hD hv
  handleNonTag := fun lx k hD hv => by
    simp only [guardS]
    cases hg : K.nonTag inp lx k with
    | some e =>
      obtain ⟨n1, n2⟩ := hK.2 lx k e hg
      refine ⟨fun hh => ?_, fun hh => ?_, fun a ha => by cases ha⟩
      · simp only [Except.error.injEq] at hh; exact n1 hh
      · simp only [Except.error.injEq] at hh; exact n2 hh
    | none => exact hf.handleNonTag lx k hD hv
  startTagHint := hf.startTagHint
  endTagHint := hf.endTagHint

section
variable {γ : Type} {w : World γ} {cert : Cert} {rcert : RCert} {s0 : String} {Dk : Disp γ → Prop}
  {K : SGuard (Disp γ)}

/-- **the argument part of a combined guard is free**: if `K` never fires, neither does `withArgs s0 K` -/
theorem guardFree_withArgs (ht : ArgsTable w.tbl cert rcert) (hs0 : T2 s0) (hne : s0 ≠ rawSite) (hf : ArgsCtl w s0 Dk)
    (g : γ) (cfg : Settings) (hD : Dk (Disp.new w.ctl g cfg.encoding)) (hK : ∀ inp, KFresh s0 K inp)
    (hgK : GuardFree w K g cfg) : GuardFree w (withArgs s0 K) g cfg := by
  intro pre hu
  have hr := run_rargs ht hs0 hne hf g cfg hD pre
  have hs : SArgs w cert rcert Dk (writeAll w (Rewriter.new w g cfg) pre).1.stream :=
    hr.resolve_left (by rw [hu]; intro h; cases h)
  obtain ⟨k1, k2⟩ := hgK pre hu
  constructor
  · intro data s1 chunk hcf
    obtain ⟨hp, hd, _⟩ := (Stream.write_sargs ht hs0 hne hf _ data hs).1 s1 chunk hcf
    have := (parse_args_valid (cfg := w.tags) (ops := guardS K (dispOps w.ctl)) ht.wf ht.cert ht.rcert ht.emits hs0 hne
      (argsFresh_guardS (hf.fresh chunk) (hK chunk)) false s1.parser hp hd).1
    unfold envS
    rw [guardS_withArgs, this]
    exact k1 data s1 chunk hcf
  · obtain ⟨hp, hd, _⟩ := Stream.end_sargs ht hs0 hne hf _ hs
    have := (parse_args_valid (cfg := w.tags) (ops := guardS K (dispOps w.ctl)) ht.wf ht.cert ht.rcert ht.emits hs0 hne
      (argsFresh_guardS (hf.fresh _) (hK _)) true _ hp hd).1
    unfold envS
    rw [guardS_withArgs, this]
    exact k2

end
end LolHtml.Model.RelI
