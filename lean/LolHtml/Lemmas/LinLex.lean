import LolHtml.Lemmas.WBound
/-!
# Linear work, lexer side: the lexer only hands over to the tag scanner at a `>`

Decidable side-condition `EmitTagGt`: every arm whose action list contains `emit_tag` is a `b'>'` arm of
a state without `memchr`. Then a lexer state function that signals a directive change does so with a
bookmark right after a `>` byte of the input (`lex_directive_gt`).
-/
namespace LolHtml.Model

variable {κ : Type}

def ActSeq.hasEmitTag (s : ActSeq) : Bool := s.calls.any (·.act == .emitTag)
def Arm.hasEmitTag (a : Arm) : Bool := a.body.seqs.any (·.hasEmitTag)

/-- `emit_tag` only in `b'>'` arms of states without `memchr` -/
def EmitTagGt (t : Table) : Bool :=
  t.allStates fun _ sd => sd.arms.all fun a => !a.hasEmitTag || (a.pat == .byte 62 && sd.memchr.isNone)

def EmitTagGtWitness (t : Table) : List (String × Nat) :=
  t.armWitness fun _ sd a => !a.hasEmitTag || (a.pat == .byte 62 && sd.memchr.isNone)

theorem EmitTagGt.arm {t : Table} (h : EmitTagGt t = true) {st : StateId} {sd : StateDef}
    (hs : t.state? st = some sd) {a : Arm} (ha : a ∈ sd.arms) (he : a.hasEmitTag = true) :
    a.pat = .byte 62 ∧ sd.memchr = none := by
  have h2 := Table.allStates_spec h hs
  simp only [List.all_eq_true] at h2
  have h3 := h2 a ha
  rw [he] at h3
  simp only [Bool.not_true, Bool.false_or, Bool.and_eq_true, beq_iff_eq, Option.isNone_iff_eq_none] at h3
  exact h3

section
variable {env : Env κ} {inp : Bytes}

/-! ### only `emit_tag` signals a directive, with the bookmark right after the cursor byte -/

theorem lexEmitNonTag_nodir (c : Common) (l : LexRegs) (x : Ctx κ) (o : Option NonTagOutline) (e : Nat)
    (d : Directive) (bm : Bookmark) : (lexEmitNonTag env inp c l x o e).2 ≠ some (.directive d bm) := by
  unfold lexEmitNonTag
  dsimp only
  split <;> simp

theorem lexEmitText_nodir (c : Common) (l : LexRegs) (x : Ctx κ) (d : Directive) (bm : Bookmark) :
    (lexEmitText env inp c l x).2 ≠ some (.directive d bm) := by
  unfold lexEmitText
  split
  · exact lexEmitNonTag_nodir _ _ _ _ _ d bm
  · simp

theorem lexEmitEof_nodir (m : M κ) (d : Directive) (bm : Bookmark) :
    (lexEmitEof env inp m).2 ≠ some (.directive d bm) := by
  unfold lexEmitEof
  split
  · exact lexEmitNonTag_nodir _ _ _ _ _ d bm
  · simp

theorem andThen_nodir (r : M κ × Option Signal) (g : M κ → M κ × Option Signal) (d : Directive) (bm : Bookmark)
    (hr : r.2 ≠ some (.directive d bm)) (hg : ∀ m, (g m).2 ≠ some (.directive d bm)) :
    (andThen r g).2 ≠ some (.directive d bm) := by
  unfold andThen
  split
  · rename_i s hs; rw [hs] at hr; exact hr
  · exact hg _

theorem lexEmitTag_dir (c : Common) (l : LexRegs) (x : Ctx κ) (d : Directive) (bm : Bookmark)
    (h : (lexEmitTag env inp c l x).2 = some (.directive d bm)) : bm.pos = c.pos + 1 := by
  unfold lexEmitTag at h
  split at h
  · cases h
  · dsimp only at h
    split at h
    · cases h
    · split at h
      · cases h
      · unfold lexEmitTagLexeme at h
        dsimp only at h
        split at h
        · cases h
        · cases h
        · simp only [Option.some.injEq, Signal.directive.injEq] at h
          rw [← h.2]
          rfl

theorem lexAct_dir (a : ActName) (c : Common) (l : LexRegs) (x : Ctx κ) (d : Directive) (bm : Bookmark)
    (h : (lexAct env a inp c l x).2 = some (.directive d bm)) : a = .emitTag ∧ bm.pos = c.pos + 1 := by
  cases a <;> simp only [lexAct] at h
  case emitText => exact absurd h (lexEmitText_nodir _ _ _ d bm)
  case emitTextAndEof =>
    exact absurd h (andThen_nodir _ _ d bm (lexEmitText_nodir _ _ _ d bm) (fun m => lexEmitEof_nodir m d bm))
  case emitCurrentToken => exact absurd h (lexEmitNonTag_nodir _ _ _ _ _ d bm)
  case emitCurrentTokenAndEof =>
    exact absurd h (andThen_nodir _ _ d bm (lexEmitNonTag_nodir _ _ _ _ _ d bm) (fun m => lexEmitEof_nodir m d bm))
  case emitRawWithoutToken => exact absurd h (lexEmitNonTag_nodir _ _ _ _ _ d bm)
  case emitRawWithoutTokenAndEof =>
    exact absurd h (andThen_nodir _ _ d bm (lexEmitNonTag_nodir _ _ _ _ _ d bm) (fun m => lexEmitEof_nodir m d bm))
  case emitTag => exact ⟨rfl, lexEmitTag_dir c l x d bm h⟩
  all_goals
    exfalso
    revert h
    (repeat' split) <;> simp

/-! ### the cursor is not moved by lexer actions -/

theorem lexEmitTag_nextPos (c : Common) (l : LexRegs) (x : Ctx κ) :
    (lexEmitTag env inp c l x).1.c.nextPos = c.nextPos := by
  unfold lexEmitTag
  split
  · rfl
  · rename_i tok _
    dsimp only
    split
    · rfl
    · rename_i sf _
      split
      · rfl
      · rename_i cs hcs
        have hfr : cs.1.nextPos = c.nextPos := by
          split at hcs
          · exact (lexHandleFeedback_frame (c := { c with lastTextType := .data }) hcs).1
          · simp only [Except.ok.injEq] at hcs; subst hcs; rfl
        rw [(lexEmitTagLexeme_keep _ _ _ _ _ _).1, (lexStampTag_frame cs.1 cs.2 tok).1, hfr]

theorem lexAct_nextPos (a : ActName) (c : Common) (l : LexRegs) (x : Ctx κ) :
    (lexAct env a inp c l x).1.c.nextPos = c.nextPos ∧ (lexAct env a inp c l x).1.r.isLex = true := by
  refine ⟨?_, (lexAct_keep a c l x).2⟩
  cases a <;> simp only [lexAct]
  case emitText => rw [(lexEmitText_keep c l x).1]
  case emitTextAndEof =>
    rw [(andThen_keep _ (lexEmitEof env inp) c (lexEmitText_keep c l x) lexEmitEof_keep).1]
  case emitCurrentToken => rw [(lexEmitNonTag_keep _ _ _ _ _).1]
  case emitCurrentTokenAndEof =>
    rw [(andThen_keep _ (lexEmitEof env inp) c (lexEmitNonTag_keep c { l with curNonTag := none } x l.curNonTag c.pos) lexEmitEof_keep).1]
  case emitRawWithoutToken => rw [(lexEmitNonTag_keep _ _ _ _ _).1]
  case emitRawWithoutTokenAndEof =>
    rw [(andThen_keep _ (lexEmitEof env inp) c (lexEmitNonTag_keep c l x none c.pos) lexEmitEof_keep).1]
  case emitTag => exact lexEmitTag_nextPos c l x
  all_goals (repeat' split) <;> rfl

theorem lexEmitTag_state (c : Common) (l : LexRegs) (x : Ctx κ) :
    (lexEmitTag env inp c l x).1.c.state = c.state := by
  unfold lexEmitTag
  split
  · rfl
  · rename_i tok _
    dsimp only
    split
    · rfl
    · rename_i sf _
      split
      · rfl
      · rename_i cs hcs
        have hfr : cs.1.state = c.state := by
          split at hcs
          · exact (lexHandleFeedback_frame (c := { c with lastTextType := .data }) hcs).2.1
          · simp only [Except.ok.injEq] at hcs; subst hcs; rfl
        rw [(lexEmitTagLexeme_keep _ _ _ _ _ _).1, (lexStampTag_frame cs.1 cs.2 tok).2.1, hfr]

theorem lexAct_state (a : ActName) (c : Common) (l : LexRegs) (x : Ctx κ) :
    (lexAct env a inp c l x).1.c.state = c.state := by
  cases a <;> simp only [lexAct]
  case emitText => rw [(lexEmitText_keep c l x).1]
  case emitTextAndEof =>
    rw [(andThen_keep _ (lexEmitEof env inp) c (lexEmitText_keep c l x) lexEmitEof_keep).1]
  case emitCurrentToken => rw [(lexEmitNonTag_keep _ _ _ _ _).1]
  case emitCurrentTokenAndEof =>
    rw [(andThen_keep _ (lexEmitEof env inp) c (lexEmitNonTag_keep c { l with curNonTag := none } x l.curNonTag c.pos) lexEmitEof_keep).1]
  case emitRawWithoutToken => rw [(lexEmitNonTag_keep _ _ _ _ _).1]
  case emitRawWithoutTokenAndEof =>
    rw [(andThen_keep _ (lexEmitEof env inp) c (lexEmitNonTag_keep c l x none c.pos) lexEmitEof_keep).1]
  case emitTag => exact lexEmitTag_state c l x
  all_goals (repeat' split) <;> rfl

theorem runCalls_lex_frame (cs : List Call) (m : M κ) (hl : m.r.isLex = true) :
    (runCalls env inp cs m).1.c.nextPos = m.c.nextPos ∧ (runCalls env inp cs m).1.c.state = m.c.state ∧
    (runCalls env inp cs m).1.r.isLex = true := by
  induction cs generalizing m with
  | nil => exact ⟨rfl, rfl, hl⟩
  | cons cl cs ih =>
    obtain ⟨c, r, x⟩ := m
    cases r with
    | scanner s => simp [Regs.isLex] at hl
    | lexer l =>
      have hN := lexAct_nextPos (env := env) (inp := inp) cl.act c l x
      have hS := lexAct_state (env := env) (inp := inp) cl.act c l x
      have hi := ih (lexAct env cl.act inp c l x).1 hN.2
      simp only [runCalls, act]
      split
      · split
        · exact ⟨hN.1, hS, hN.2⟩
        · exact ⟨hi.1.trans hN.1, hi.2.1.trans hS, hi.2.2⟩
      · exact ⟨hi.1.trans hN.1, hi.2.1.trans hS, hi.2.2⟩

/-- a lexer action list that signals a directive contains `emit_tag`; the bookmark is right after the
byte under the cursor -/
theorem runCalls_lex_dir (cs : List Call) (m : M κ) (hl : m.r.isLex = true) (d : Directive) (bm : Bookmark)
    (h : (runCalls env inp cs m).2 = some (.directive d bm)) :
    cs.any (·.act == .emitTag) = true ∧ bm.pos = m.c.nextPos - 1 + 1 := by
  induction cs generalizing m with
  | nil => simp [runCalls] at h
  | cons cl cs ih =>
    obtain ⟨c, r, x⟩ := m
    cases r with
    | scanner s => simp [Regs.isLex] at hl
    | lexer l =>
      have hN := lexAct_nextPos (env := env) (inp := inp) cl.act c l x
      simp only [runCalls, act] at h
      have hrest : (runCalls env inp cs (lexAct env cl.act inp c l x).1).2 = some (.directive d bm) →
          (cl :: cs).any (·.act == .emitTag) = true ∧ bm.pos = c.nextPos - 1 + 1 := by
        intro h'
        obtain ⟨i1, i2⟩ := ih _ hN.2 h'
        exact ⟨by simp only [List.any_cons, i1, Bool.or_true], by rw [i2, hN.1]⟩
      split at h
      · rename_i s hs
        split at h
        · simp only [Option.some.injEq] at h
          subst h
          obtain ⟨e1, e2⟩ := lexAct_dir cl.act c l x d bm hs
          exact ⟨by simp [e1], by rw [e2]; rfl⟩
        · exact hrest h
      · exact hrest h

theorem applyTrans_nodir (t : Trans) (m : M κ) (d : Directive) (bm : Bookmark) :
    (applyTrans env t m).2 ≠ some (.directive d bm) := by
  cases t <;> simp only [applyTrans]
  · simp
  · simp
  · split <;> simp

theorem runSeq_lex_dir (s : ActSeq) (m : M κ) (hl : m.r.isLex = true) (d : Directive) (bm : Bookmark)
    (h : (runSeq env inp s m).2.1 = some (.directive d bm)) :
    s.hasEmitTag = true ∧ bm.pos = m.c.nextPos - 1 + 1 := by
  unfold runSeq at h
  dsimp only at h
  split at h
  · rename_i sig hsig
    have : sig = .directive d bm := by simpa using h
    subst this
    exact runCalls_lex_dir s.calls m hl d bm hsig
  · split at h
    · simp at h
    · exact absurd h (applyTrans_nodir _ _ d bm)

theorem runBody_lex_dir (b : Body) (m : M κ) (hl : m.r.isLex = true) (d : Directive) (bm : Bookmark)
    (h : (runBody env inp b m).2.1 = some (.directive d bm)) :
    b.seqs.any (·.hasEmitTag) = true ∧ bm.pos = m.c.nextPos - 1 + 1 := by
  cases b with
  | seq s =>
    obtain ⟨h1, h2⟩ := runSeq_lex_dir s m hl d bm h
    exact ⟨by simp [Body.seqs, h1], h2⟩
  | ite c t e =>
    simp only [runBody] at h
    split at h
    · simp at h
    · obtain ⟨h1, h2⟩ := runSeq_lex_dir t m hl d bm h
      exact ⟨by simp [Body.seqs, h1], h2⟩
    · obtain ⟨h1, h2⟩ := runSeq_lex_dir e m hl d bm h
      exact ⟨by simp [Body.seqs, h1], h2⟩


theorem break_nodir (m : M κ) (d : Directive) (bm : Bookmark) :
    (breakOnEndOfInput inp m).2 ≠ some (.directive d bm) := by
  unfold breakOnEndOfInput
  dsimp only
  (repeat' split) <;> simp

theorem enterSeq_lex (m : M κ) (hl : m.r.isLex = true) : enterSeq m = m := by
  obtain ⟨c, r, x⟩ := m
  cases r with
  | lexer l => rfl
  | scanner s => simp [Regs.isLex] at hl

theorem leaveSeq_lex (m : M κ) (hl : m.r.isLex = true) : leaveSeq m = m := by
  obtain ⟨c, r, x⟩ := m
  cases r with
  | lexer l => rfl
  | scanner s => simp [Regs.isLex] at hl

theorem leaveSeq_isLex (m : M κ) (hl : m.r.isLex = true) : (leaveSeq m).r.isLex = true := by
  rw [leaveSeq_lex m hl]; exact hl

def LexArmsPost (m : M κ) : (M κ × Option Signal) ⊕ M κ → Prop
  | .inl r => ∀ d bm, r.2 ≠ some (.directive d bm)
  | .inr m' => m' = m

/-- the sequence arms of a lexer machine never signal a directive (no `emit_tag` there), and leave
the machine alone -/
theorem runSeqArms_lex (hgt : EmitTagGt env.tbl = true) {sd : StateDef} (ch : Option UInt8) (arms : List Arm)
    (m : M κ) (hst : env.tbl.state? m.c.state = some sd) (hsub : ∀ a ∈ arms, a ∈ sd.arms) (hl : m.r.isLex = true) :
    LexArmsPost m (runSeqArms env inp ch arms m) := by
  induction arms with
  | nil => simp [runSeqArms, LexArmsPost]
  | cons arm rest ih =>
    have harm : arm ∈ sd.arms := hsub arm (by simp)
    have hsub' : ∀ a ∈ rest, a ∈ sd.arms := fun a ha => hsub a (by simp [ha])
    simp only [runSeqArms]
    split
    · rename_i bytes ic hpat
      rw [enterSeq_lex m hl, leaveSeq_lex m hl]
      split
      · exact ih hsub'
      · split
        · exact fun d bm => break_nodir m d bm
        · exact ih hsub'
        · simp only [LexArmsPost]
          intro d bm hdir
          obtain ⟨h1, _⟩ := runBody_lex_dir arm.body _ (leaveSeq_isLex _ (by exact hl)) d bm hdir
          have := (EmitTagGt.arm hgt hst harm h1).1
          rw [hpat] at this
          cases this
    · exact ih hsub'

theorem dispatch_lex_dir (hgt : EmitTagGt env.tbl = true) {sd : StateDef} (ch : Option UInt8) (m : M κ)
    (hst : env.tbl.state? m.c.state = some sd) (hl : m.r.isLex = true) (d : Directive) (bm : Bookmark)
    (h : (dispatch env inp ch sd.arms m).2 = some (.directive d bm)) :
    ch = some 62 ∧ bm.pos = m.c.nextPos - 1 + 1 ∧ sd.memchr = none := by
  have h1 := runSeqArms_lex (inp := inp) hgt ch sd.arms m hst (fun _ h => h) hl
  unfold dispatch at h
  split at h
  · rename_i r hr
    rw [hr] at h1
    exact absurd h (h1 d bm)
  · rename_i m' hr
    rw [hr] at h1
    simp only [LexArmsPost] at h1
    subst h1
    split at h
    · simp at h
    · rename_i arm hfind
      obtain ⟨harm, hpm⟩ := findArm_some hfind
      have hbody : ∀ (hd : (runBody env inp arm.body m').2.1 = some (.directive d bm)),
          ch = some 62 ∧ bm.pos = m'.c.nextPos - 1 + 1 ∧ sd.memchr = none := by
        intro hd
        obtain ⟨e1, e2⟩ := runBody_lex_dir arm.body m' hl d bm hd
        obtain ⟨g1, g2⟩ := EmitTagGt.arm hgt hst harm e1
        rw [g1] at hpm
        simp only [patMatches, beq_iff_eq] at hpm
        exact ⟨hpm, e2, g2⟩
      have hmatch : ∀ (hd : (match (runBody env inp arm.body m').2.1, (runBody env inp arm.body m').2.2 with
            | some sig, _ => ((runBody env inp arm.body m').1, some sig)
            | none, .transitioned => ((runBody env inp arm.body m').1, none)
            | none, .fell => breakOnEndOfInput inp (runBody env inp arm.body m').1).2 = some (.directive d bm)),
          ch = some 62 ∧ bm.pos = m'.c.nextPos - 1 + 1 ∧ sd.memchr = none := by
        intro hd
        split at hd
        · rename_i sig _ hs
          simp only [Option.some.injEq] at hd
          subst hd
          exact hbody hs
        · simp at hd
        · exact absurd hd (break_nodir _ d bm)
      split at h
      · exact hmatch h
      · split at h
        · exact hmatch h
        · exact absurd h (break_nodir _ d bm)
      · exact hbody h

/-- **A lexer state function that signals a directive change does so right after a `>`.** -/
theorem lex_directive_gt (hw : Wf env.tbl) (hgt : EmitTagGt env.tbl = true) (m : M κ) (hl : m.r.isLex = true)
    (d : Directive) (bm : Bookmark) (h : (stateFn env inp m).2 = some (.directive d bm)) :
    bm.pos = m.c.nextPos + 1 ∧ inp[m.c.nextPos]? = some 62 := by
  rw [stateFn_eq] at h
  split at h
  · simp at h
  · rename_i sd hst
    have hent : (enterPhase env inp sd m).2 ≠ some (.directive d bm) ∧
        ((enterPhase env inp sd m).2 = none → (enterPhase env inp sd m).1.r.isLex = true ∧
          (enterPhase env inp sd m).1.c.nextPos = m.c.nextPos ∧ (enterPhase env inp sd m).1.c.state = m.c.state) := by
      unfold enterPhase
      split
      · have hq := hw.enter_quiet hst
        have hN := runCalls_keep (env := env) (inp := inp) sd.enter { m with c := { m.c with nextPos := m.c.nextPos + 1 } }
        dsimp only
        split
        · rename_i sig hsig
          refine ⟨fun hd => ?_, fun hn => by cases hn⟩
          simp only [Option.some.injEq] at hd
          subst hd
          obtain ⟨e1, _⟩ := runCalls_lex_dir sd.enter _ (by exact hl) d bm hsig
          rw [List.any_eq_true] at e1
          obtain ⟨cl, hcl, hact⟩ := e1
          have := hq cl hcl
          simp only [beq_iff_eq] at hact
          rw [hact] at this
          simp [ActName.isQuiet, ActName.isInclEmit] at this
        · have hfr := runCalls_lex_frame (env := env) (inp := inp) sd.enter
            { m with c := { m.c with nextPos := m.c.nextPos + 1 } } hl
          refine ⟨by simp, fun _ => ⟨hfr.2.2, ?_, hfr.2.1⟩⟩
          dsimp only
          rw [hfr.1]
          dsimp only
          omega
      · exact ⟨by simp, fun _ => ⟨hl, rfl, rfl⟩⟩
    split at h
    · rename_i sig hsig
      simp only [Option.some.injEq] at h
      subst h
      exact absurd hsig hent.1
    · rename_i hnone
      obtain ⟨e1, e2, e3⟩ := hent.2 hnone
      have hst' : env.tbl.state? (enterPhase env inp sd m).1.c.state = some sd := by rw [e3]; exact hst
      unfold consumePhase at h
      split at h
      · rename_i needle hneedle
        dsimp only at h
        split at h
        · have := (dispatch_lex_dir (inp := inp) hgt (some needle) _ (by exact hst') (by exact e1) d bm h).2.2
          rw [hneedle] at this; cases this
        · have := (dispatch_lex_dir (inp := inp) hgt none _ (by exact hst') (by exact e1) d bm h).2.2
          rw [hneedle] at this; cases this
      · dsimp only at h
        obtain ⟨g1, g2, _⟩ := dispatch_lex_dir (inp := inp) hgt _ _ (by exact hst') (by exact e1) d bm h
        dsimp only at g2
        rw [e2] at g1 g2
        exact ⟨by rw [g2]; omega, g1⟩

end
end LolHtml.Model
