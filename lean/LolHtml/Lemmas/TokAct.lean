import LolHtml.Lemmas.TokInv
import LolHtml.Lemmas.InvAct
import LolHtml.Lemmas.InvKeep
/-!
# C15 — token-part ranges: the abstract transformers are sound

For every action: if the abstract transformer accepts (`absStep … = some …`), the concrete action run
inside an arm re-establishes the token-part invariant for the new abstract value and signals no error
at a `T2` site.
-/
namespace LolHtml.Model

open LolHtml.Lemmas.Sim (Inv)

variable {κ : Type}

/-- token-part postcondition of an action (or action list) -/
def TokPost (a' : Abs) (pos : Nat) (r : M κ × Option Signal) : Prop :=
  TokM a' pos r.1 ∧ ∀ e, r.2 = some (.err e) → ErrNot T2 e

/-- the lexer-specific form -/
def LexTokPost (a' : AbsL) (pos : Nat) (r : M κ × Option Signal) : Prop :=
  ∃ l', r.1.r = .lexer l' ∧ TokL a' l'.lexemeStart pos l' ∧ Inv r.1.x.sim ∧ ∀ e, r.2 = some (.err e) → ErrNot T2 e

theorem TokL.kill {a : AbsL} {ls hi ls' hi' : Nat} {l l' : LexRegs} (h : TokL a ls hi l)
    (e1 : l'.curTag = l.curTag) (e2 : l'.curAttr = l.curAttr) (e3 : l'.curNonTag = l.curNonTag) :
    TokL a.kill ls' hi' l' := by
  obtain ⟨h1, h2, h3, _⟩ := h
  refine ⟨?_, ?_, ?_, fun h => by cases h⟩
  · simp only [AbsL.kill]
    cases ha : a.tag <;> simp only [ha, TokTag] at h1 ⊢
    rw [e1]; exact h1
  · simp only [AbsL.kill]
    cases ha : a.attr <;> simp only [ha, TokAttr] at h2 ⊢
    rw [e2]; exact h2
  · simp only [AbsL.kill]
    cases ha : a.nt <;> simp only [ha, TokNT] at h3 ⊢
    rw [e3]; exact h3

section
variable {env : Env κ} {inp : Bytes} {W : κ → Nat} {lo : Nat}

/-! ### lexer emits -/

theorem lexEmitNonTag_tok (hs2 : SinkSafe2 env.ops inp) (c : Common) (l : LexRegs) (x : Ctx κ)
    (o : Option NonTagOutline) (rawEnd : Nat) (h2 : l.lexemeStart ≤ rawEnd) (h3 : rawEnd ≤ inp.length)
    (hv : NTValid inp.length o) :
    (lexEmitNonTag env inp c l x o rawEnd).1.r = .lexer { l with lexemeStart := rawEnd } ∧
    (lexEmitNonTag env inp c l x o rawEnd).1.x.sim = x.sim ∧
    ∀ e, (lexEmitNonTag env inp c l x o rawEnd).2 = some (.err e) → ErrNot T2 e := by
  unfold lexEmitNonTag
  have he := hs2.handleNonTag ⟨x.prevConsumed, ⟨l.lexemeStart, rawEnd⟩, o⟩ x.sink ⟨h2, h3⟩ hv
  dsimp only at he ⊢
  split
  · exact ⟨rfl, rfl, fun e h => by cases h⟩
  · rename_i e herr
    refine ⟨rfl, rfl, fun e' h => ?_⟩
    simp only [Option.some.injEq, Signal.err.injEq] at h
    subst h
    exact he e herr

/-- a lexer result whose token registers are those of `l'` (same `lexeme_start`), same simulator -/
theorem lexQuiet_tok {a' : AbsL} {pos : Nat} {l : LexRegs} (c' : Common) (l' : LexRegs) (x : Ctx κ)
    (sig : Option Signal) (hls : l'.lexemeStart = l.lexemeStart) (ht : TokL a' l.lexemeStart pos l')
    (hinv : Inv x.sim) (herr : ∀ e, sig = some (.err e) → ErrNot T2 e) :
    LexTokPost a' pos ((⟨c', .lexer l', x⟩ : M κ), sig) :=
  ⟨l', rfl, by rw [hls]; exact ht, hinv, herr⟩

/-- after an emit: `lexeme_start` moved, token registers as in `l'` -/
theorem lexEmit_tok {a : AbsL} {pos : Nat} {l l' : LexRegs} {r : M κ × Option Signal} {x : Ctx κ} {rawEnd : Nat}
    (ht : TokL a l.lexemeStart pos l) (hr : r.1.r = .lexer { l' with lexemeStart := rawEnd })
    (e1 : l'.curTag = l.curTag) (e2 : l'.curAttr = l.curAttr) (e3 : l'.curNonTag = l.curNonTag)
    (hsim : r.1.x.sim = x.sim) (hinv : Inv x.sim) (herr : ∀ e, r.2 = some (.err e) → ErrNot T2 e) :
    LexTokPost a.kill pos r :=
  ⟨_, hr, TokL.kill ht e1 e2 e3, by rw [hsim]; exact hinv, herr⟩

theorem NTValid_text (L : Nat) (tt : TextType) : NTValid L (some (.text tt)) := trivial
theorem NTValid_eof (L : Nat) : NTValid L (some .eof) := trivial
theorem NTValid_none (L : Nat) : NTValid L none := trivial

/-- `emit_text` / `…_and_eof` / `emit_raw_without_token…`: whatever happens, the token registers are
untouched, `lexeme_start` may move -/
theorem lexEmitText_tok (hs2 : SinkSafe2 env.ops inp) (c : Common) (l : LexRegs) (x : Ctx κ)
    (h3 : c.pos ≤ inp.length) :
    ∃ ls', (lexEmitText env inp c l x).1.r = .lexer { l with lexemeStart := ls' } ∧
      (lexEmitText env inp c l x).1.x.sim = x.sim ∧ (lexEmitText env inp c l x).1.c = c ∧
      (ls' = l.lexemeStart ∨ ls' = c.pos) ∧
      ∀ e, (lexEmitText env inp c l x).2 = some (.err e) → ErrNot T2 e := by
  unfold lexEmitText
  split
  · rename_i h
    obtain ⟨a1, a2, a3⟩ := lexEmitNonTag_tok hs2 c l x (some (.text c.lastTextType)) c.pos (by omega) h3 trivial
    exact ⟨c.pos, a1, a2, (lexEmitNonTag_keep _ _ _ _ _).1, Or.inr rfl, a3⟩
  · exact ⟨l.lexemeStart, rfl, rfl, rfl, Or.inl rfl, fun e h => by cases h⟩

theorem lexEmitEof_tok (hs2 : SinkSafe2 env.ops inp) (c : Common) (l : LexRegs) (x : Ctx κ)
    (h2 : l.lexemeStart ≤ c.pos) (h3 : c.pos ≤ inp.length) :
    (lexEmitEof env inp ⟨c, .lexer l, x⟩).1.r = .lexer { l with lexemeStart := c.pos } ∧
    (lexEmitEof env inp ⟨c, .lexer l, x⟩).1.x.sim = x.sim ∧
    ∀ e, (lexEmitEof env inp ⟨c, .lexer l, x⟩).2 = some (.err e) → ErrNot T2 e := by
  unfold lexEmitEof
  exact lexEmitNonTag_tok hs2 c l x (some .eof) c.pos h2 h3 trivial

end

/-! ### `tagViewFor` on valid outlines -/

theorem mapM_isSome {α β : Type} (f : α → Option β) (l : List α) (h : ∀ a ∈ l, ∃ b, f a = some b) :
    ∃ bs, l.mapM f = some bs := by
  induction l with
  | nil => exact ⟨[], rfl⟩
  | cons a as ih =>
    obtain ⟨b, hb⟩ := h a (by simp)
    obtain ⟨bs, hbs⟩ := ih (fun x hx => h x (by simp [hx]))
    exact ⟨b :: bs, by simp only [List.mapM_cons, hb, hbs]; rfl⟩

theorem exists_map_some {α β : Type} {g : α → β} {o : Option α} (h : ∃ b, o = some b) :
    ∃ v, Option.map g o = some v := by
  obtain ⟨b, hb⟩ := h
  exact ⟨g b, by rw [hb]; rfl⟩

theorem tagViewFor_isSome {inp : Bytes} (k : RLKind) (o : TagOutline) (hv : TagValid inp.length o) :
    ∃ v, tagViewFor k inp o = some v := by
  cases o with
  | endTag n hsh =>
    cases k <;> simp only [tagViewFor]
    · exact ⟨_, rfl⟩
    · exact ⟨_, rfl⟩
    · exact ⟨_, rfl⟩
    · obtain ⟨b, hb⟩ := checkedSlice_isSome (inp := inp) hv
      rw [hb]; exact ⟨_, rfl⟩
  | startTag n hsh ns as sc =>
    obtain ⟨hn, has⟩ := hv
    cases k <;> simp only [tagViewFor]
    · exact ⟨_, rfl⟩
    · apply exists_map_some
      apply mapM_isSome
      intro a ha
      obtain ⟨b, hb⟩ := checkedSlice_isSome (inp := inp) (has a ha).1
      exact ⟨_, by rw [hb]; rfl⟩
    · obtain ⟨nb, hnb⟩ := checkedSlice_isSome (inp := inp) hn
      rw [hnb]
      dsimp only
      split
      · apply exists_map_some
        apply mapM_isSome
        intro a ha
        obtain ⟨b1, hb1⟩ := checkedSlice_isSome (inp := inp) (has a ha).1
        obtain ⟨b2, hb2⟩ := checkedSlice_isSome (inp := inp) (has a ha).2
        exact ⟨_, by rw [hb1, hb2]⟩
      · exact ⟨_, rfl⟩
    · exact ⟨_, rfl⟩

theorem lexStampTag_valid {L : Nat} (c : Common) (sim : Sim) (tok : TagOutline) (h : TagValid L tok) :
    TagValid L (lexStampTag c sim tok).2 := by
  unfold lexStampTag
  split
  · exact h
  · exact h

section
variable {env : Env κ} {inp : Bytes} {W : κ → Nat} {lo : Nat}

theorem lexGetFeedback_tok {cfg : TagCfg} {sim : Sim} (hinv : Inv sim) (fd : FeedbackDirective) (tok : TagOutline) :
    (∀ e, lexGetFeedback cfg sim fd tok = .error e → ErrNot T2 e) ∧
    (∀ r, lexGetFeedback cfg sim fd tok = .ok r → Inv r.1) := by
  unfold lexGetFeedback
  split
  · exact ⟨fun e h => (by cases h), fun r h => by simp only [Except.ok.injEq] at h; subst h; exact hinv⟩
  · exact ⟨fun e h => (by cases h), fun r h => by simp only [Except.ok.injEq] at h; subst h; exact hinv⟩
  · split
    · rename_i hsh _ _ _
      obtain ⟨g1, g2⟩ := Sim.feedbackForStartTag_inv (cfg := cfg) hinv hsh
      cases hfb : sim.feedbackForStartTag cfg hsh with
      | error e' =>
        refine ⟨fun e h => ?_, fun r h => by simp [Except.map] at h⟩
        simp [Except.map] at h; subst h; exact g1 _ hfb
      | ok v =>
        refine ⟨fun e h => by simp [Except.map] at h, fun r h => ?_⟩
        simp [Except.map] at h; subst h; exact g2 _ hfb
    · rename_i hsh
      obtain ⟨g1, g2⟩ := Sim.feedbackForEndTag_inv (cfg := cfg) hinv hsh
      cases hfb : sim.feedbackForEndTag cfg hsh with
      | error e' =>
        refine ⟨fun e h => ?_, fun r h => by simp [Except.map] at h⟩
        simp [Except.map] at h; subst h; exact g1 _ hfb
      | ok v =>
        refine ⟨fun e h => by simp [Except.map] at h, fun r h => ?_⟩
        simp [Except.map] at h; subst h; exact g2 _ hfb

theorem lexHandleFeedback_tok {c : Common} {sim : Sim} (hinv : Inv sim) (f : Feedback) (o : TagOutline)
    (hv : TagValid inp.length o) :
    (∀ e, lexHandleFeedback inp c sim f o = .error e → ErrNot T2 e) ∧
    (∀ r, lexHandleFeedback inp c sim f o = .ok r → Inv r.2) := by
  unfold lexHandleFeedback
  dsimp only
  split
  · rename_i k
    obtain ⟨v, hvw⟩ := tagViewFor_isSome (inp := inp) k o hv
    rw [hvw]
    dsimp only
    split
    · exact ⟨fun e h => by simp only [Except.error.injEq] at h; subst h; simp [ErrNot, T2], fun r h => by cases h⟩
    · rename_i s' f' hcb
      have hi' := Sim.runCallback_inv hinv hcb
      cases f' <;> dsimp only
      · exact ⟨fun e h => (by cases h), fun r h => by simp only [Except.ok.injEq] at h; subst h; exact hi'⟩
      · exact ⟨fun e h => (by cases h), fun r h => by simp only [Except.ok.injEq] at h; subst h; exact hi'⟩
      · exact ⟨fun e h => by simp only [Except.error.injEq] at h; subst h; simp [ErrNot, T2], fun r h => by cases h⟩
      · exact ⟨fun e h => (by cases h), fun r h => by simp only [Except.ok.injEq] at h; subst h; exact hi'⟩
  · cases f <;> dsimp only
    · exact ⟨fun e h => (by cases h), fun r h => by simp only [Except.ok.injEq] at h; subst h; exact hinv⟩
    · exact ⟨fun e h => (by cases h), fun r h => by simp only [Except.ok.injEq] at h; subst h; exact hinv⟩
    · exact ⟨fun e h => by simp only [Except.error.injEq] at h; subst h; simp [ErrNot, T2], fun r h => by cases h⟩
    · exact ⟨fun e h => (by cases h), fun r h => by simp only [Except.ok.injEq] at h; subst h; exact hinv⟩

theorem lexEmitTagLexeme_tok (hs2 : SinkSafe2 env.ops inp) (c : Common) (l : LexRegs) (x : Ctx κ) (sim : Sim)
    (tok : TagOutline) (rawEnd : Nat) (h2 : l.lexemeStart ≤ rawEnd) (h3 : rawEnd ≤ inp.length)
    (hv : TagValid inp.length tok) :
    (lexEmitTagLexeme env inp c l x sim tok rawEnd).1.r = .lexer { l with lexemeStart := rawEnd } ∧
    (lexEmitTagLexeme env inp c l x sim tok rawEnd).1.x.sim = sim ∧
    ∀ e, (lexEmitTagLexeme env inp c l x sim tok rawEnd).2 = some (.err e) → ErrNot T2 e := by
  unfold lexEmitTagLexeme
  have he := hs2.handleTag ⟨x.prevConsumed, ⟨l.lexemeStart, rawEnd⟩, tok⟩ x.sink ⟨h2, h3⟩ hv
  dsimp only at he ⊢
  split
  · rename_i e herr
    refine ⟨rfl, rfl, fun e' h => ?_⟩
    simp only [Option.some.injEq, Signal.err.injEq] at h
    subst h
    exact he e herr
  · exact ⟨rfl, rfl, fun e h => by cases h⟩
  · exact ⟨rfl, rfl, fun e h => by cases h⟩

theorem lexEmitTag_tok (hs2 : SinkSafe2 env.ops inp) {a : AbsL} (c : Common) (l : LexRegs) (x : Ctx κ)
    (ht : TokL a l.lexemeStart c.pos l) (hinv : Inv x.sim) (hls : l.lexemeStart ≤ c.pos + 1)
    (hlen : c.pos + 1 ≤ inp.length) (hk : a.tag = .start ∨ a.tag = .end_) :
    LexTokPost { a.kill with tag := .none } c.pos (lexEmitTag env inp c l x) := by
  obtain ⟨h1, h2, h3, h4⟩ := ht
  have htok : ∃ tok, l.curTag = some tok ∧ TagOK l.lexemeStart c.pos tok := by
    rcases hk with hk | hk <;> simp only [hk, TokTag] at h1 <;> obtain ⟨o, e1, _, e3⟩ := h1 <;> exact ⟨o, e1, e3⟩
  obtain ⟨tok, hct, hok⟩ := htok
  have hvalid : TagValid inp.length tok := hok.valid (by omega)
  -- whatever happens, the result has `curTag = none` and otherwise the registers of `l`
  have hkill : ∀ ls', TokL { a.kill with tag := .none } ls' c.pos { l with curTag := none, fd := .none, lexemeStart := ls' } := by
    intro ls'
    have h' := TokL.kill (l' := l) (ls' := ls') (hi' := c.pos)
      (⟨h1, h2, h3, h4⟩ : TokL a l.lexemeStart c.pos l) rfl rfl rfl
    exact ⟨rfl, h'.2.1, h'.2.2.1, h'.2.2.2⟩
  unfold lexEmitTag
  rw [hct]
  dsimp only
  obtain ⟨g1, g2⟩ := lexGetFeedback_tok (cfg := env.cfg) hinv l.fd tok
  split
  · rename_i e herr
    exact ⟨_, rfl, hkill l.lexemeStart, hinv, fun e' h => by
      simp only [Option.some.injEq, Signal.err.injEq] at h; subst h; exact g1 _ herr⟩
  · rename_i sf hsf
    have hi1 : Inv sf.1 := g2 _ hsf
    split
    · rename_i e herr
      refine ⟨_, rfl, hkill l.lexemeStart, hi1, fun e' h => ?_⟩
      simp only [Option.some.injEq, Signal.err.injEq] at h
      subst h
      split at herr
      · exact (lexHandleFeedback_tok (inp := inp) hi1 _ tok hvalid).1 _ herr
      · cases herr
    · rename_i cs hcs
      have hi2 : Inv cs.2 := by
        split at hcs
        · exact (lexHandleFeedback_tok (inp := inp) hi1 _ tok hvalid).2 _ hcs
        · simp only [Except.ok.injEq] at hcs; subst hcs; exact hi1
      obtain ⟨r1, r2, r3⟩ := lexEmitTagLexeme_tok hs2 (lexStampTag cs.1 cs.2 tok).1
        { l with curTag := none, fd := .none } x cs.2 (lexStampTag cs.1 cs.2 tok).2
        (({ c with lastTextType := .data } : Common).pos + 1) hls hlen (lexStampTag_valid _ _ _ hvalid)
      exact ⟨_, r1, hkill _, by rw [r2]; exact hi2, r3⟩

end
end LolHtml.Model
