import LolHtml.Lemmas.TokInv
import LolHtml.Lemmas.InvAct
import LolHtml.Lemmas.InvKeep
/-!
# C15 — token-part ranges: the abstract transformers are sound

For every action: if the abstract transformer accepts (`absStep … = some …`), the concrete action run
inside an arm re-establishes the token-part invariant for the new abstract value and signals no error
at a `T2` site.
-/
namespace LolHtml.Model

open LolHtml.Lemmas.Sim (Inv)

variable {κ : Type}

/-- token-part postcondition of an action (or action list) -/
def TokPost (a' : Abs) (pos : Nat) (r : M κ × Option Signal) : Prop :=
  TokM a' pos r.1 ∧ ∀ e, r.2 = some (.err e) → ErrNot T2 e

/-- the lexer-specific form -/
def LexTokPost (a' : AbsL) (pos : Nat) (r : M κ × Option Signal) : Prop :=
  ∃ l', r.1.r = .lexer l' ∧ TokL a' l'.lexemeStart pos l' ∧ Inv r.1.x.sim ∧ ∀ e, r.2 = some (.err e) → ErrNot T2 e

theorem TokL.kill {a : AbsL} {ls hi ls' hi' : Nat} {l l' : LexRegs} (h : TokL a ls hi l)
    (e1 : l'.curTag = l.curTag) (e2 : l'.curAttr = l.curAttr) (e3 : l'.curNonTag = l.curNonTag) :
    TokL a.kill ls' hi' l' := by
  obtain ⟨h1, h2, h3, _⟩ := h
  refine ⟨?_, ?_, ?_, fun h => by cases h⟩
  · simp only [AbsL.kill]
    cases ha : a.tag <;> simp only [ha, TokTag] at h1 ⊢
    rw [e1]; exact h1
  · simp only [AbsL.kill]
    cases ha : a.attr <;> simp only [ha, TokAttr] at h2 ⊢
    rw [e2]; exact h2
  · simp only [AbsL.kill]
    cases ha : a.nt <;> simp only [ha, TokNT] at h3 ⊢
    rw [e3]; exact h3

section
variable {env : Env κ} {inp : Bytes} {W : κ → Nat} {lo : Nat}

/-! ### lexer emits -/

theorem lexEmitNonTag_tok (hs2 : SinkSafe2 env.ops inp) (c : Common) (l : LexRegs) (x : Ctx κ)
    (o : Option NonTagOutline) (rawEnd : Nat) (h2 : l.lexemeStart ≤ rawEnd) (h3 : rawEnd ≤ inp.length)
    (hv : NTValid inp.length o) :
    (lexEmitNonTag env inp c l x o rawEnd).1.r = .lexer { l with lexemeStart := rawEnd } ∧
    (lexEmitNonTag env inp c l x o rawEnd).1.x.sim = x.sim ∧
    ∀ e, (lexEmitNonTag env inp c l x o rawEnd).2 = some (.err e) → ErrNot T2 e := by
  unfold lexEmitNonTag
  have he := hs2.handleNonTag ⟨x.prevConsumed, ⟨l.lexemeStart, rawEnd⟩, o⟩ x.sink ⟨h2, h3⟩ hv
  dsimp only at he ⊢
  split
  · exact ⟨rfl, rfl, fun e h => by cases h⟩
  · rename_i e herr
    refine ⟨rfl, rfl, fun e' h => ?_⟩
    simp only [Option.some.injEq, Signal.err.injEq] at h
    subst h
    exact he e herr

/-- a lexer result whose token registers are those of `l'` (same `lexeme_start`), same simulator -/
theorem lexQuiet_tok {a' : AbsL} {pos : Nat} {l : LexRegs} (c' : Common) (l' : LexRegs) (x : Ctx κ)
    (sig : Option Signal) (hls : l'.lexemeStart = l.lexemeStart) (ht : TokL a' l.lexemeStart pos l')
    (hinv : Inv x.sim) (herr : ∀ e, sig = some (.err e) → ErrNot T2 e) :
    LexTokPost a' pos ((⟨c', .lexer l', x⟩ : M κ), sig) :=
  ⟨l', rfl, by rw [hls]; exact ht, hinv, herr⟩

/-- after an emit: `lexeme_start` moved, token registers as in `l'` -/
theorem lexEmit_tok {a : AbsL} {pos : Nat} {l l' : LexRegs} {r : M κ × Option Signal} {x : Ctx κ} {rawEnd : Nat}
    (ht : TokL a l.lexemeStart pos l) (hr : r.1.r = .lexer { l' with lexemeStart := rawEnd })
    (e1 : l'.curTag = l.curTag) (e2 : l'.curAttr = l.curAttr) (e3 : l'.curNonTag = l.curNonTag)
    (hsim : r.1.x.sim = x.sim) (hinv : Inv x.sim) (herr : ∀ e, r.2 = some (.err e) → ErrNot T2 e) :
    LexTokPost a.kill pos r :=
  ⟨_, hr, TokL.kill ht e1 e2 e3, by rw [hsim]; exact hinv, herr⟩

theorem NTValid_text (L : Nat) (tt : TextType) : NTValid L (some (.text tt)) := trivial
theorem NTValid_eof (L : Nat) : NTValid L (some .eof) := trivial
theorem NTValid_none (L : Nat) : NTValid L none := trivial

/-- `emit_text` / `…_and_eof` / `emit_raw_without_token…`: whatever happens, the token registers are
untouched, `lexeme_start` may move -/
theorem lexEmitText_tok (hs2 : SinkSafe2 env.ops inp) (c : Common) (l : LexRegs) (x : Ctx κ)
    (h3 : c.pos ≤ inp.length) :
    ∃ ls', (lexEmitText env inp c l x).1.r = .lexer { l with lexemeStart := ls' } ∧
      (lexEmitText env inp c l x).1.x.sim = x.sim ∧ (lexEmitText env inp c l x).1.c = c ∧
      (ls' = l.lexemeStart ∨ ls' = c.pos) ∧
      ∀ e, (lexEmitText env inp c l x).2 = some (.err e) → ErrNot T2 e := by
  unfold lexEmitText
  split
  · rename_i h
    obtain ⟨a1, a2, a3⟩ := lexEmitNonTag_tok hs2 c l x (some (.text c.lastTextType)) c.pos (by omega) h3 trivial
    exact ⟨c.pos, a1, a2, (lexEmitNonTag_keep _ _ _ _ _).1, Or.inr rfl, a3⟩
  · exact ⟨l.lexemeStart, rfl, rfl, rfl, Or.inl rfl, fun e h => by cases h⟩

theorem lexEmitEof_tok (hs2 : SinkSafe2 env.ops inp) (c : Common) (l : LexRegs) (x : Ctx κ)
    (h2 : l.lexemeStart ≤ c.pos) (h3 : c.pos ≤ inp.length) :
    (lexEmitEof env inp ⟨c, .lexer l, x⟩).1.r = .lexer { l with lexemeStart := c.pos } ∧
    (lexEmitEof env inp ⟨c, .lexer l, x⟩).1.x.sim = x.sim ∧
    ∀ e, (lexEmitEof env inp ⟨c, .lexer l, x⟩).2 = some (.err e) → ErrNot T2 e := by
  unfold lexEmitEof
  exact lexEmitNonTag_tok hs2 c l x (some .eof) c.pos h2 h3 trivial

end

/-! ### `tagViewFor` on valid outlines -/

theorem mapM_isSome {α β : Type} (f : α → Option β) (l : List α) (h : ∀ a ∈ l, ∃ b, f a = some b) :
    ∃ bs, l.mapM f = some bs := by
  induction l with
  | nil => exact ⟨[], rfl⟩
  | cons a as ih =>
    obtain ⟨b, hb⟩ := h a (by simp)
    obtain ⟨bs, hbs⟩ := ih (fun x hx => h x (by simp [hx]))
    exact ⟨b :: bs, by simp only [List.mapM_cons, hb, hbs]; rfl⟩

theorem exists_map_some {α β : Type} {g : α → β} {o : Option α} (h : ∃ b, o = some b) :
    ∃ v, Option.map g o = some v := by
  obtain ⟨b, hb⟩ := h
  exact ⟨g b, by rw [hb]; rfl⟩

theorem tagViewFor_isSome {inp : Bytes} (k : RLKind) (o : TagOutline) (hv : TagValid inp.length o) :
    ∃ v, tagViewFor k inp o = some v := by
  cases o with
  | endTag n hsh =>
    cases k <;> simp only [tagViewFor]
    · exact ⟨_, rfl⟩
    · exact ⟨_, rfl⟩
    · exact ⟨_, rfl⟩
    · obtain ⟨b, hb⟩ := checkedSlice_isSome (inp := inp) hv
      rw [hb]; exact ⟨_, rfl⟩
  | startTag n hsh ns as sc =>
    obtain ⟨hn, has⟩ := hv
    cases k <;> simp only [tagViewFor]
    · exact ⟨_, rfl⟩
    · apply exists_map_some
      apply mapM_isSome
      intro a ha
      obtain ⟨b, hb⟩ := checkedSlice_isSome (inp := inp) (has a ha).1
      exact ⟨_, by rw [hb]; rfl⟩
    · obtain ⟨nb, hnb⟩ := checkedSlice_isSome (inp := inp) hn
      rw [hnb]
      dsimp only
      split
      · apply exists_map_some
        apply mapM_isSome
        intro a ha
        obtain ⟨b1, hb1⟩ := checkedSlice_isSome (inp := inp) (has a ha).1
        obtain ⟨b2, hb2⟩ := checkedSlice_isSome (inp := inp) (has a ha).2
        exact ⟨_, by rw [hb1, hb2]⟩
      · exact ⟨_, rfl⟩
    · exact ⟨_, rfl⟩

theorem lexStampTag_valid {L : Nat} (c : Common) (sim : Sim) (tok : TagOutline) (h : TagValid L tok) :
    TagValid L (lexStampTag c sim tok).2 := by
  unfold lexStampTag
  split
  · exact h
  · exact h

section
variable {env : Env κ} {inp : Bytes} {W : κ → Nat} {lo : Nat}

theorem lexGetFeedback_tok {cfg : TagCfg} {sim : Sim} (hinv : Inv sim) (fd : FeedbackDirective) (tok : TagOutline) :
    (∀ e, lexGetFeedback cfg sim fd tok = .error e → ErrNot T2 e) ∧
    (∀ r, lexGetFeedback cfg sim fd tok = .ok r → Inv r.1) := by
  unfold lexGetFeedback
  split
  · exact ⟨fun e h => (by cases h), fun r h => by simp only [Except.ok.injEq] at h; subst h; exact hinv⟩
  · exact ⟨fun e h => (by cases h), fun r h => by simp only [Except.ok.injEq] at h; subst h; exact hinv⟩
  · split
    · rename_i hsh _ _ _
      obtain ⟨g1, g2⟩ := Sim.feedbackForStartTag_inv (cfg := cfg) hinv hsh
      cases hfb : sim.feedbackForStartTag cfg hsh with
      | error e' =>
        refine ⟨fun e h => ?_, fun r h => by simp [Except.map] at h⟩
        simp [Except.map] at h; subst h; exact g1 _ hfb
      | ok v =>
        refine ⟨fun e h => by simp [Except.map] at h, fun r h => ?_⟩
        simp [Except.map] at h; subst h; exact g2 _ hfb
    · rename_i hsh
      obtain ⟨g1, g2⟩ := Sim.feedbackForEndTag_inv (cfg := cfg) hinv hsh
      cases hfb : sim.feedbackForEndTag cfg hsh with
      | error e' =>
        refine ⟨fun e h => ?_, fun r h => by simp [Except.map] at h⟩
        simp [Except.map] at h; subst h; exact g1 _ hfb
      | ok v =>
        refine ⟨fun e h => by simp [Except.map] at h, fun r h => ?_⟩
        simp [Except.map] at h; subst h; exact g2 _ hfb

theorem lexHandleFeedback_tok {c : Common} {sim : Sim} (hinv : Inv sim) (f : Feedback) (o : TagOutline)
    (hv : TagValid inp.length o) :
    (∀ e, lexHandleFeedback inp c sim f o = .error e → ErrNot T2 e) ∧
    (∀ r, lexHandleFeedback inp c sim f o = .ok r → Inv r.2) := by
  unfold lexHandleFeedback
  dsimp only
  split
  · rename_i k
    obtain ⟨v, hvw⟩ := tagViewFor_isSome (inp := inp) k o hv
    rw [hvw]
    dsimp only
    split
    · exact ⟨fun e h => by simp only [Except.error.injEq] at h; subst h; simp [ErrNot, T2], fun r h => by cases h⟩
    · rename_i s' f' hcb
      have hi' := Sim.runCallback_inv hinv hcb
      cases f' <;> dsimp only
      · exact ⟨fun e h => (by cases h), fun r h => by simp only [Except.ok.injEq] at h; subst h; exact hi'⟩
      · exact ⟨fun e h => (by cases h), fun r h => by simp only [Except.ok.injEq] at h; subst h; exact hi'⟩
      · exact ⟨fun e h => by simp only [Except.error.injEq] at h; subst h; simp [ErrNot, T2], fun r h => by cases h⟩
      · exact ⟨fun e h => (by cases h), fun r h => by simp only [Except.ok.injEq] at h; subst h; exact hi'⟩
  · cases f <;> dsimp only
    · exact ⟨fun e h => (by cases h), fun r h => by simp only [Except.ok.injEq] at h; subst h; exact hinv⟩
    · exact ⟨fun e h => (by cases h), fun r h => by simp only [Except.ok.injEq] at h; subst h; exact hinv⟩
    · exact ⟨fun e h => by simp only [Except.error.injEq] at h; subst h; simp [ErrNot, T2], fun r h => by cases h⟩
    · exact ⟨fun e h => (by cases h), fun r h => by simp only [Except.ok.injEq] at h; subst h; exact hinv⟩

theorem lexEmitTagLexeme_tok (hs2 : SinkSafe2 env.ops inp) (c : Common) (l : LexRegs) (x : Ctx κ) (sim : Sim)
    (tok : TagOutline) (rawEnd : Nat) (h2 : l.lexemeStart ≤ rawEnd) (h3 : rawEnd ≤ inp.length)
    (hv : TagValid inp.length tok) :
    (lexEmitTagLexeme env inp c l x sim tok rawEnd).1.r = .lexer { l with lexemeStart := rawEnd } ∧
    (lexEmitTagLexeme env inp c l x sim tok rawEnd).1.x.sim = sim ∧
    ∀ e, (lexEmitTagLexeme env inp c l x sim tok rawEnd).2 = some (.err e) → ErrNot T2 e := by
  unfold lexEmitTagLexeme
  have he := hs2.handleTag ⟨x.prevConsumed, ⟨l.lexemeStart, rawEnd⟩, tok⟩ x.sink ⟨h2, h3⟩ hv
  dsimp only at he ⊢
  split
  · rename_i e herr
    refine ⟨rfl, rfl, fun e' h => ?_⟩
    simp only [Option.some.injEq, Signal.err.injEq] at h
    subst h
    exact he e herr
  · exact ⟨rfl, rfl, fun e h => by cases h⟩
  · exact ⟨rfl, rfl, fun e h => by cases h⟩

theorem lexEmitTag_tok (hs2 : SinkSafe2 env.ops inp) {a : AbsL} (c : Common) (l : LexRegs) (x : Ctx κ)
    (ht : TokL a l.lexemeStart c.pos l) (hinv : Inv x.sim) (hls : l.lexemeStart ≤ c.pos + 1)
    (hlen : c.pos + 1 ≤ inp.length) (hk : a.tag = .start ∨ a.tag = .end_) :
    LexTokPost { a.kill with tag := .none } c.pos (lexEmitTag env inp c l x) := by
  obtain ⟨h1, h2, h3, h4⟩ := ht
  have htok : ∃ tok, l.curTag = some tok ∧ TagOK l.lexemeStart c.pos tok := by
    rcases hk with hk | hk <;> simp only [hk, TokTag] at h1 <;> obtain ⟨o, e1, _, e3⟩ := h1 <;> exact ⟨o, e1, e3⟩
  obtain ⟨tok, hct, hok⟩ := htok
  have hvalid : TagValid inp.length tok := hok.valid (by omega)
  -- whatever happens, the result has `curTag = none` and otherwise the registers of `l`
  have hkill : ∀ ls', TokL { a.kill with tag := .none } ls' c.pos { l with curTag := none, fd := .none, lexemeStart := ls' } := by
    intro ls'
    have h' := TokL.kill (l' := l) (ls' := ls') (hi' := c.pos)
      (⟨h1, h2, h3, h4⟩ : TokL a l.lexemeStart c.pos l) rfl rfl rfl
    exact ⟨rfl, h'.2.1, h'.2.2.1, h'.2.2.2⟩
  unfold lexEmitTag
  rw [hct]
  dsimp only
  obtain ⟨g1, g2⟩ := lexGetFeedback_tok (cfg := env.cfg) hinv l.fd tok
  split
  · rename_i e herr
    exact ⟨_, rfl, hkill l.lexemeStart, hinv, fun e' h => by
      simp only [Option.some.injEq, Signal.err.injEq] at h; subst h; exact g1 _ herr⟩
  · rename_i sf hsf
    have hi1 : Inv sf.1 := g2 _ hsf
    split
    · rename_i e herr
      refine ⟨_, rfl, hkill l.lexemeStart, hi1, fun e' h => ?_⟩
      simp only [Option.some.injEq, Signal.err.injEq] at h
      subst h
      split at herr
      · exact (lexHandleFeedback_tok (inp := inp) hi1 _ tok hvalid).1 _ herr
      · cases herr
    · rename_i cs hcs
      have hi2 : Inv cs.2 := by
        split at hcs
        · exact (lexHandleFeedback_tok (inp := inp) hi1 _ tok hvalid).2 _ hcs
        · simp only [Except.ok.injEq] at hcs; subst hcs; exact hi1
      obtain ⟨r1, r2, r3⟩ := lexEmitTagLexeme_tok hs2 (lexStampTag cs.1 cs.2 tok).1
        { l with curTag := none, fd := .none } x cs.2 (lexStampTag cs.1 cs.2 tok).2
        (({ c with lastTextType := .data } : Common).pos + 1) hls hlen (lexStampTag_valid _ _ _ hvalid)
      exact ⟨_, r1, hkill _, by rw [r2]; exact hi2, r3⟩


/-! ### the other lexer actions -/

theorem NTValid_of_tok {a : ANT} {ls hi L : Nat} {nt : Option NonTagOutline} (h : TokNT a ls hi nt)
    (hne : a ≠ .top) (hL : hi ≤ L) : NTValid L nt := by
  cases nt with
  | none => trivial
  | some o =>
    cases o with
    | comment r =>
      cases a with
      | none => simp only [TokNT] at h; cases h
      | ok => exact (h r rfl).valid hL
      | marked k => exact (h r rfl).ok.valid hL
      | top => exact absurd rfl hne
    | _ => trivial

/-- the second half of the `…_and_eof` actions -/
theorem andThenEof_tok (hs2 : SinkSafe2 env.ops inp) {c : Common} {l1 : LexRegs} {xs : Sim}
    (r : M κ × Option Signal) (hr : r.1.r = .lexer l1) (hc : r.1.c = c) (hsim : r.1.x.sim = xs)
    (hle : l1.lexemeStart ≤ c.pos) (h3 : c.pos ≤ inp.length) (herr : ∀ e, r.2 = some (.err e) → ErrNot T2 e) :
    ∃ ls2, (andThen r (lexEmitEof env inp)).1.r = .lexer { l1 with lexemeStart := ls2 } ∧
      (andThen r (lexEmitEof env inp)).1.x.sim = xs ∧
      ∀ e, (andThen r (lexEmitEof env inp)).2 = some (.err e) → ErrNot T2 e := by
  unfold andThen
  split
  · rename_i s hs
    exact ⟨l1.lexemeStart, hr, hsim, fun e h => by
      simp only [Option.some.injEq] at h; subst h; exact herr e hs⟩
  · cases hr1 : r.1 with
    | mk c0 r0 x0 =>
      rw [hr1] at hr hc hsim
      dsimp only at hr hc hsim
      subst hr hc
      obtain ⟨e1, e2, e3⟩ := lexEmitEof_tok hs2 c0 l1 x0 hle h3
      exact ⟨c0.pos, e1, by rw [e2]; exact hsim, e3⟩

theorem TokL.kill_nt {a : AbsL} {ls hi ls' hi' : Nat} {l l' : LexRegs} (h : TokL a ls hi l)
    (e1 : l'.curTag = l.curTag) (e2 : l'.curAttr = l.curAttr) (e3 : l'.curNonTag = none) :
    TokL { a.kill with nt := .none } ls' hi' l' := by
  have h' := TokL.kill (l' := { l' with curNonTag := l.curNonTag }) (ls' := ls') (hi' := hi') h e1 e2 rfl
  exact ⟨h'.1, h'.2.1, e3, h'.2.2.2⟩

/-- **Lexer actions: the abstract transformer is sound.** -/
theorem lexAct_tok (hs2 : SinkSafe2 env.ops inp) {hb f : Bool} {a a' : AbsL} (act : ActName) (c : Common)
    (l : LexRegs) (x : Ctx κ) (hm : MInvA W inp.length lo hb f ⟨c, .lexer l, x⟩)
    (hfl : ∃ f', flagStep hb act f = some f') (ht : TokL a l.lexemeStart c.pos l) (hinv : Inv x.sim)
    (hl : absTokL act f a = some a') : LexTokPost a' c.pos (lexAct env act inp c l x) := by
  obtain ⟨a1, a2, a3, a4, a5⟩ := hm
  simp only [RegsA] at a5
  dsimp only at a1 a2 a3 a4 a5
  have hpos : c.pos = c.nextPos - 1 := rfl
  have hposL : c.pos ≤ inp.length := by rw [hpos]; exact a3
  obtain ⟨f', hfl⟩ := hfl
  obtain ⟨t1, t2, t3, t4⟩ := ht
  have ht : TokL a l.lexemeStart c.pos l := ⟨t1, t2, t3, t4⟩
  cases act
  case emitText =>
    simp only [absTokL, Option.some.injEq] at hl
    subst hl
    simp only [lexAct]
    obtain ⟨ls', r1, r2, r3, r4, r5⟩ := lexEmitText_tok hs2 c l x hposL
    exact lexEmit_tok (l' := l) ht r1 rfl rfl rfl r2 hinv r5
  case emitTextAndEof =>
    simp only [absTokL, Option.some.injEq] at hl
    subst hl
    have hf : f = true := by
      simp only [flagStep, ActName.isInclEmit, ActName.isExclEmit, Bool.false_eq_true, if_false, if_true] at hfl
      split at hfl
      · assumption
      · cases hfl
    have hle := a5.2.2 hf
    simp only [lexAct]
    obtain ⟨ls', r1, r2, r3, r4, r5⟩ := lexEmitText_tok hs2 c l x hposL
    have hls' : ls' ≤ c.pos := by
      rcases r4 with h | h
      · rw [h, hpos]; exact hle
      · rw [h]; exact Nat.le_refl _
    obtain ⟨ls2, q1, q2, q3⟩ := andThenEof_tok hs2 _ r1 r3 r2 hls' hposL r5
    exact lexEmit_tok (l' := l) ht q1 rfl rfl rfl q2 hinv q3
  case emitCurrentToken =>
    have hbt : hb = true := by
      simp only [flagStep, ActName.isInclEmit, if_true] at hfl
      split at hfl
      · assumption
      · cases hfl
    have hlt := a4 hbt
    simp only [absTokL] at hl
    have hne : a.nt ≠ .top := by intro h; rw [h] at hl; cases hl
    have hl' : a' = { a.kill with nt := .none } := by
      cases hn : a.nt <;> simp only [hn] at hl <;> first | exact absurd hn hne | (simp only [Option.some.injEq] at hl; exact hl.symm)
    subst hl'
    simp only [lexAct]
    obtain ⟨r1, r2, r3⟩ := lexEmitNonTag_tok hs2 c { l with curNonTag := none } x l.curNonTag (c.pos + 1)
      (by rw [hpos]; exact a5.2.1) (by rw [hpos]; omega) (NTValid_of_tok t3 hne hposL)
    exact ⟨_, r1, TokL.kill_nt ht rfl rfl rfl, by rw [r2]; exact hinv, r3⟩
  case emitCurrentTokenAndEof =>
    have hf : f = true := by
      simp only [flagStep, ActName.isInclEmit, ActName.isExclEmit, Bool.false_eq_true, if_false, if_true] at hfl
      split at hfl
      · assumption
      · cases hfl
    have hle := a5.2.2 hf
    simp only [absTokL] at hl
    have hne : a.nt ≠ .top := by intro h; rw [h] at hl; cases hl
    have hl' : a' = { a.kill with nt := .none } := by
      cases hn : a.nt <;> simp only [hn] at hl <;> first | exact absurd hn hne | (simp only [Option.some.injEq] at hl; exact hl.symm)
    subst hl'
    simp only [lexAct]
    obtain ⟨r1, r2, r3⟩ := lexEmitNonTag_tok hs2 c { l with curNonTag := none } x l.curNonTag c.pos
      (by rw [hpos]; exact hle) hposL (NTValid_of_tok t3 hne hposL)
    obtain ⟨ls2, q1, q2, q3⟩ := andThenEof_tok hs2 _ r1 (lexEmitNonTag_keep _ _ _ _ _).1 r2 (Nat.le_refl _) hposL r3
    exact ⟨_, q1, TokL.kill_nt ht rfl rfl rfl, by rw [q2]; exact hinv, q3⟩
  case emitRawWithoutToken =>
    have hbt : hb = true := by
      simp only [flagStep, ActName.isInclEmit, if_true] at hfl
      split at hfl
      · assumption
      · cases hfl
    have hlt := a4 hbt
    simp only [absTokL, Option.some.injEq] at hl
    subst hl
    simp only [lexAct]
    obtain ⟨r1, r2, r3⟩ := lexEmitNonTag_tok hs2 c l x none (c.pos + 1)
      (by rw [hpos]; exact a5.2.1) (by rw [hpos]; omega) trivial
    exact lexEmit_tok (l' := l) ht r1 rfl rfl rfl r2 hinv r3
  case emitRawWithoutTokenAndEof =>
    have hf : f = true := by
      simp only [flagStep, ActName.isInclEmit, ActName.isExclEmit, Bool.false_eq_true, if_false, if_true] at hfl
      split at hfl
      · assumption
      · cases hfl
    have hle := a5.2.2 hf
    simp only [absTokL, Option.some.injEq] at hl
    subst hl
    simp only [lexAct]
    obtain ⟨r1, r2, r3⟩ := lexEmitNonTag_tok hs2 c l x none c.pos (by rw [hpos]; exact hle) hposL trivial
    obtain ⟨ls2, q1, q2, q3⟩ := andThenEof_tok hs2 _ r1 (lexEmitNonTag_keep _ _ _ _ _).1 r2 (Nat.le_refl _) hposL r3
    exact lexEmit_tok (l' := l) ht q1 rfl rfl rfl q2 hinv q3
  case emitTag =>
    have hbt : hb = true := by
      simp only [flagStep, ActName.isInclEmit, if_true] at hfl
      split at hfl
      · assumption
      · cases hfl
    have hlt := a4 hbt
    simp only [absTokL] at hl
    have hk : a.tag = .start ∨ a.tag = .end_ := by
      cases hn : a.tag <;> simp only [hn] at hl <;> first | exact Or.inl rfl | exact Or.inr rfl | cases hl
    have hl' : a' = { a.kill with tag := .none } := by
      rcases hk with hk | hk <;> simp only [hk, Option.some.injEq] at hl <;> exact hl.symm
    subst hl'
    simp only [lexAct]
    exact lexEmitTag_tok hs2 c l x ht hinv (by rw [hpos]; exact a5.2.1) (by rw [hpos]; omega) hk
  case createStartTag =>
    simp only [absTokL, Option.some.injEq] at hl
    subst hl
    simp only [lexAct]
    exact lexQuiet_tok c _ x none rfl
      ⟨⟨_, rfl, rfl, ⟨Nat.le_refl _, Nat.zero_le _, Or.inr rfl⟩, fun x hx => by cases hx⟩, t2, t3, t4⟩ hinv
      (fun e h => by cases h)
  case createEndTag =>
    simp only [absTokL, Option.some.injEq] at hl
    subst hl
    simp only [lexAct]
    exact lexQuiet_tok c _ x none rfl
      ⟨⟨_, rfl, rfl, ⟨Nat.le_refl _, Nat.zero_le _, Or.inr rfl⟩⟩, t2, t3, t4⟩ hinv (fun e h => by cases h)
  case createDoctype =>
    simp only [absTokL, Option.some.injEq] at hl
    subst hl
    simp only [lexAct]
    exact lexQuiet_tok c _ x none rfl ⟨t1, t2, fun r hr => (by cases hr), t4⟩ hinv (fun e h => by cases h)
  case createComment =>
    simp only [absTokL, Option.some.injEq] at hl
    subst hl
    simp only [lexAct]
    refine lexQuiet_tok c _ x none rfl ⟨t1, t2, fun r hr => ?_, t4⟩ hinv (fun e h => by cases h)
    simp only [Option.some.injEq, NonTagOutline.comment.injEq] at hr
    subst hr
    exact ⟨Nat.le_refl _, Nat.zero_le _, Or.inr rfl⟩
  case startTokenPart =>
    simp only [absTokL, Option.some.injEq] at hl
    subst hl
    simp only [lexAct]
    exact lexQuiet_tok c _ x none rfl ⟨t1, t2, t3, fun hf => ⟨by rw [hpos]; exact a5.2.2 hf, Nat.le_refl _⟩⟩ hinv
      (fun e h => by cases h)
  case markCommentTextEnd =>
    simp only [lexAct]
    have hR : a.tps = true → RangeM l.lexemeStart c.pos 0 (tokenPartRange c l) :=
      fun htps => ⟨(t4 htps).2, Nat.le_refl _, (t4 htps).1⟩
    split
    · rename_i old hcn
      cases hn : a.nt <;> simp only [absTokL, hn, Option.some.injEq] at hl <;> subst hl
      · simp only [hn, TokNT] at t3; rw [t3] at hcn; cases hcn
      · refine lexQuiet_tok c _ x none rfl ⟨t1, t2, ?_, t4⟩ hinv (fun e h => by cases h)
        dsimp only
        split
        · rename_i htps
          intro r hr
          simp only [Option.some.injEq, NonTagOutline.comment.injEq] at hr
          subst hr
          exact hR htps
        · trivial
      · refine lexQuiet_tok c _ x none rfl ⟨t1, t2, ?_, t4⟩ hinv (fun e h => by cases h)
        dsimp only
        split
        · rename_i htps
          intro r hr
          simp only [Option.some.injEq, NonTagOutline.comment.injEq] at hr
          subst hr
          exact hR htps
        · trivial
      · exact lexQuiet_tok c _ x none rfl ⟨t1, t2, trivial, t4⟩ hinv (fun e h => by cases h)
    · rename_i hnc
      cases hn : a.nt <;> simp only [absTokL, hn, Option.some.injEq] at hl <;> subst hl
      · exact lexQuiet_tok c l x none rfl ⟨t1, t2, by simpa only [hn] using t3, t4⟩ hinv (fun e h => by cases h)
      · refine lexQuiet_tok c l x none rfl ⟨t1, t2, ?_, t4⟩ hinv (fun e h => by cases h)
        dsimp only
        split
        · intro r hr; exact absurd hr (hnc r)
        · trivial
      · refine lexQuiet_tok c l x none rfl ⟨t1, t2, ?_, t4⟩ hinv (fun e h => by cases h)
        dsimp only
        split
        · intro r hr; exact absurd hr (hnc r)
        · trivial
      · exact lexQuiet_tok c l x none rfl ⟨t1, t2, trivial, t4⟩ hinv (fun e h => by cases h)
  case shiftCommentTextEndBy n =>
    simp only [lexAct]
    split
    · rename_i t hcn
      cases hn : a.nt <;> simp only [absTokL, hn, Option.some.injEq] at hl <;> subst hl
      · simp only [hn, TokNT] at t3; rw [t3] at hcn; cases hcn
      · exact lexQuiet_tok c _ x none rfl ⟨t1, t2, trivial, t4⟩ hinv (fun e h => by cases h)
      · rename_i k
        refine lexQuiet_tok c _ x none rfl ⟨t1, t2, ?_, t4⟩ hinv (fun e h => by cases h)
        dsimp only
        split
        · rename_i hnk
          simp only [hn, TokNT] at t3
          have := t3 t hcn
          intro r hr
          simp only [Option.some.injEq, NonTagOutline.comment.injEq] at hr
          subst hr
          exact ⟨by have := this.1; dsimp only; omega, by have := this.2.1; dsimp only; omega, this.2.2⟩
        · trivial
      · exact lexQuiet_tok c _ x none rfl ⟨t1, t2, trivial, t4⟩ hinv (fun e h => by cases h)
    · rename_i hnc
      cases hn : a.nt <;> simp only [absTokL, hn, Option.some.injEq] at hl <;> subst hl
      · exact lexQuiet_tok c l x none rfl ⟨t1, t2, by simpa only [hn] using t3, t4⟩ hinv (fun e h => by cases h)
      · exact lexQuiet_tok c l x none rfl ⟨t1, t2, trivial, t4⟩ hinv (fun e h => by cases h)
      · refine lexQuiet_tok c l x none rfl ⟨t1, t2, ?_, t4⟩ hinv (fun e h => by cases h)
        dsimp only
        split
        · intro r hr; exact absurd hr (hnc r)
        · trivial
      · exact lexQuiet_tok c l x none rfl ⟨t1, t2, trivial, t4⟩ hinv (fun e h => by cases h)
  case finishTagName =>
    simp only [absTokL] at hl
    simp only [lexAct]
    have hk : a.tag = .start ∨ a.tag = .end_ := by
      cases hn : a.tag <;> simp only [hn] at hl <;> first | exact Or.inl rfl | exact Or.inr rfl | cases hl
    have hex : ∃ o, l.curTag = some o ∧ TagOK l.lexemeStart c.pos o ∧
        ((a.tag = .start ∧ o.isStart = true) ∨ (a.tag = .end_ ∧ o.isStart = false)) := by
      rcases hk with hk | hk <;> simp only [hk, TokTag] at t1 <;> obtain ⟨o, e1, e2, e3⟩ := t1
      · exact ⟨o, e1, e3, Or.inl ⟨hk, e2⟩⟩
      · exact ⟨o, e1, e3, Or.inr ⟨hk, e2⟩⟩
    obtain ⟨o, hct, hok, hkind⟩ := hex
    rw [hct]
    dsimp only
    have hl' : a' = if a.tps then a else { a with tag := .top } := by
      rcases hk with hk | hk <;> simp only [hk, Option.some.injEq] at hl <;> exact hl.symm
    subst hl'
    refine lexQuiet_tok c _ x none rfl ?_ hinv (fun e h => by cases h)
    split
    · rename_i htps
      refine ⟨?_, t2, t3, t4⟩
      have hr : RangeOK l.lexemeStart c.pos 0 (tokenPartRange c l) :=
        ⟨(t4 htps).2, Nat.le_refl _, Or.inl (t4 htps).1⟩
      have hok' : TagOK l.lexemeStart c.pos (setTagName o (tokenPartRange c l)) := by
        cases o with
        | startTag n hsh ns as sc => exact ⟨hr, hok.2⟩
        | endTag n hsh => exact hr
      have his : (setTagName o (tokenPartRange c l)).isStart = o.isStart := by cases o <;> rfl
      rcases hkind with ⟨hk', hs'⟩ | ⟨hk', hs'⟩
      · simp only [hk', TokTag]; exact ⟨_, rfl, by rw [his]; exact hs', hok'⟩
      · simp only [hk', TokTag]; exact ⟨_, rfl, by rw [his]; exact hs', hok'⟩
    · exact ⟨trivial, t2, t3, t4⟩
  case updateTagNameHash =>
    simp only [absTokL] at hl
    simp only [lexAct]
    have hk : a.tag = .start ∨ a.tag = .end_ := by
      cases hn : a.tag <;> simp only [hn] at hl <;> first | exact Or.inl rfl | exact Or.inr rfl | cases hl
    have hl' : a' = a := by
      rcases hk with hk | hk <;> simp only [hk, Option.some.injEq] at hl <;> exact hl.symm
    subst hl'
    split
    · rename_i ch _
      have hex : ∃ o, l.curTag = some o := by
        rcases hk with hk | hk <;> simp only [hk, TokTag] at t1 <;> obtain ⟨o, e1, _, _⟩ := t1 <;> exact ⟨o, e1⟩
      obtain ⟨o, hct⟩ := hex
      rw [hct]
      dsimp only
      refine lexQuiet_tok c _ x none rfl ⟨?_, t2, t3, t4⟩ hinv (fun e h => by cases h)
      have hs : (updTagHash o ch).isStart = o.isStart := by cases o <;> rfl
      have hok : ∀ ls hi, TagOK ls hi o → TagOK ls hi (updTagHash o ch) := by
        intro ls hi h; cases o <;> exact h
      rcases hk with hk | hk <;> simp only [hk, TokTag, hct, Option.some.injEq] at t1 ⊢ <;>
        obtain ⟨o', e1, e2, e3⟩ := t1 <;> subst e1 <;> exact ⟨_, rfl, by rw [hs]; exact e2, hok _ _ e3⟩
    · exact lexQuiet_tok c l x none rfl ht hinv (fun e h => by cases h)
  case markAsSelfClosing =>
    simp only [absTokL, Option.some.injEq] at hl
    subst hl
    simp only [lexAct]
    split
    · rename_i n hsh ns as sc hct
      refine lexQuiet_tok c _ x none rfl ⟨?_, t2, t3, t4⟩ hinv (fun e h => by cases h)
      cases hn : a.tag <;> simp only [hn, TokTag, hct, Option.some.injEq] at t1 ⊢
      · cases t1
      · obtain ⟨o, e1, e2, e3⟩ := t1; subst e1; exact ⟨_, rfl, rfl, e3⟩
      · obtain ⟨o, e1, e2, e3⟩ := t1; subst e1; cases e2
    · exact lexQuiet_tok c l x none rfl ht hinv (fun e h => by cases h)
  case startAttr =>
    simp only [absTokL] at hl
    simp only [lexAct]
    have hdef : AttrOK l.lexemeStart c.pos AttrOutline.default :=
      ⟨⟨Nat.le_refl _, Nat.zero_le _, Or.inr rfl⟩, ⟨Nat.le_refl _, Nat.zero_le _, Or.inr rfl⟩⟩
    split
    · -- the attribute is started
      rename_i n hsh ns as sc hct
      cases hn : a.tag with
      | start =>
        simp only [hn, Option.some.injEq] at hl
        subst hl
        refine lexQuiet_tok c _ x none rfl ⟨by simpa only [hn] using t1, ?_, t3, ?_⟩ hinv (fun e h => by cases h)
        · intro y hy; simp only [Option.some.injEq] at hy; subst hy; exact hdef
        · intro hf; exact ⟨by rw [hpos]; exact a5.2.2 hf, Nat.le_refl _⟩
      | top =>
        simp only [hn, Option.some.injEq] at hl
        subst hl
        refine lexQuiet_tok c _ x none rfl ⟨trivial, ?_, t3, ?_⟩ hinv (fun e h => by cases h)
        · dsimp only
          cases a.attr <;> dsimp only <;> first | trivial | (intro y hy; simp only [Option.some.injEq] at hy; subst hy; exact hdef)
        · intro hf
          simp only [Bool.and_eq_true] at hf
          exact ⟨by rw [hpos]; exact a5.2.2 hf.2, Nat.le_refl _⟩
      | none => simp only [hn, TokTag] at t1; rw [t1] at hct; cases hct
      | end_ =>
        simp only [hn, TokTag] at t1
        obtain ⟨o, e1, e2, _⟩ := t1
        rw [hct] at e1
        simp only [Option.some.injEq] at e1
        subst e1
        cases e2
    · -- not a start tag: nothing happens
      rename_i hnot
      cases hn : a.tag with
      | start =>
        simp only [hn, TokTag] at t1
        obtain ⟨o, e1, e2, _⟩ := t1
        cases o with
        | startTag n hsh ns as sc => exact absurd e1 (hnot n hsh ns as sc)
        | endTag n hsh => cases e2
      | top =>
        simp only [hn, Option.some.injEq] at hl
        subst hl
        refine lexQuiet_tok c l x none rfl ⟨trivial, ?_, t3, ?_⟩ hinv (fun e h => by cases h)
        · dsimp only
          cases ha : a.attr <;> dsimp only <;> simp only [ha, TokAttr] at t2 ⊢
          · intro y hy; rw [t2] at hy; cases hy
          · exact t2
        · intro hf
          simp only [Bool.and_eq_true] at hf
          exact t4 hf.1
      | none =>
        simp only [hn, Option.some.injEq] at hl
        subst hl
        exact lexQuiet_tok c l x none rfl ht hinv (fun e h => by cases h)
      | end_ =>
        simp only [hn, Option.some.injEq] at hl
        subst hl
        exact lexQuiet_tok c l x none rfl ht hinv (fun e h => by cases h)
  case finishAttrName =>
    simp only [lexAct]
    split
    · rename_i y hca
      cases ha : a.attr <;> simp only [absTokL, ha, Option.some.injEq] at hl
      · simp only [ha, TokAttr] at t2; rw [t2] at hca; cases hca
      · by_cases htps : a.tps = true
        · rw [if_pos htps] at hl
          subst hl
          refine lexQuiet_tok c _ x none rfl ⟨t1, ?_, t3, t4⟩ hinv (fun e h => by cases h)
          simp only [ha, TokAttr]
          intro z hz
          simp only [Option.some.injEq] at hz
          subst hz
          have h4 := t4 htps
          simp only [tokenPartRange]
          exact ⟨⟨h4.2, Nat.le_refl _, Or.inl h4.1⟩, ⟨Nat.le_refl _, Nat.le_refl _, Or.inl (Nat.le_trans h4.1 h4.2)⟩⟩
        · rw [if_neg htps] at hl
          subst hl
          exact lexQuiet_tok c _ x none rfl ⟨t1, trivial, t3, t4⟩ hinv (fun e h => by cases h)
      · subst hl
        exact lexQuiet_tok c _ x none rfl ⟨t1, by simp only [ha, TokAttr], t3, t4⟩ hinv (fun e h => by cases h)
    · rename_i hnone
      have hcan : l.curAttr = none := hnone
      have hany : ∀ q : AAttr, TokAttr q l.lexemeStart c.pos l.curAttr := by
        intro q; rw [hcan]; cases q <;> simp [TokAttr]
      cases ha : a.attr <;> simp only [absTokL, ha, Option.some.injEq] at hl
      · subst hl; exact lexQuiet_tok c l x none rfl ht hinv (fun e h => by cases h)
      · by_cases htps : a.tps = true
        · rw [if_pos htps] at hl; subst hl
          exact lexQuiet_tok c l x none rfl ht hinv (fun e h => by cases h)
        · rw [if_neg htps] at hl; subst hl
          exact lexQuiet_tok c l x none rfl ⟨t1, hany _, t3, t4⟩ hinv (fun e h => by cases h)
      · subst hl; exact lexQuiet_tok c l x none rfl ht hinv (fun e h => by cases h)
  case finishAttrValue =>
    simp only [lexAct]
    split
    · rename_i y hca
      cases ha : a.attr <;> simp only [absTokL, ha, Option.some.injEq] at hl
      · simp only [ha, TokAttr] at t2; rw [t2] at hca; cases hca
      · by_cases htps : a.tps = true
        · rw [if_pos htps] at hl
          subst hl
          refine lexQuiet_tok c _ x none rfl ⟨t1, ?_, t3, t4⟩ hinv (fun e h => by cases h)
          simp only [ha, TokAttr] at t2 ⊢
          intro z hz
          simp only [Option.some.injEq] at hz
          subst hz
          have h4 := t4 htps
          simp only [tokenPartRange]
          exact ⟨(t2 y hca).1, ⟨h4.2, Nat.le_refl _, Or.inl h4.1⟩⟩
        · rw [if_neg htps] at hl
          subst hl
          exact lexQuiet_tok c _ x none rfl ⟨t1, trivial, t3, t4⟩ hinv (fun e h => by cases h)
      · subst hl
        exact lexQuiet_tok c _ x none rfl ⟨t1, by simp only [ha, TokAttr], t3, t4⟩ hinv (fun e h => by cases h)
    · rename_i hnone
      have hcan : l.curAttr = none := hnone
      have hany : ∀ q : AAttr, TokAttr q l.lexemeStart c.pos l.curAttr := by
        intro q; rw [hcan]; cases q <;> simp [TokAttr]
      cases ha : a.attr <;> simp only [absTokL, ha, Option.some.injEq] at hl
      · subst hl; exact lexQuiet_tok c l x none rfl ht hinv (fun e h => by cases h)
      · by_cases htps : a.tps = true
        · rw [if_pos htps] at hl; subst hl
          exact lexQuiet_tok c l x none rfl ht hinv (fun e h => by cases h)
        · rw [if_neg htps] at hl; subst hl
          exact lexQuiet_tok c l x none rfl ⟨t1, hany _, t3, t4⟩ hinv (fun e h => by cases h)
      · subst hl; exact lexQuiet_tok c l x none rfl ht hinv (fun e h => by cases h)
  case finishAttr =>
    simp only [absTokL, Option.some.injEq] at hl
    simp only [lexAct]
    -- the abstract tag after the action
    have htag : a'.tag = (match a.tag, a.attr with | .start, .top => .top | t, _ => t) ∧ a'.attr = .none ∧
        a'.nt = a.nt ∧ a'.tps = a.tps := by subst hl; exact ⟨rfl, rfl, rfl, rfl⟩
    obtain ⟨g1, g2, g3, g4⟩ := htag
    have hrest : ∀ l' : LexRegs, l'.curAttr = none → l'.curNonTag = l.curNonTag → l'.tokenPartStart = l.tokenPartStart →
        l'.lexemeStart = l.lexemeStart → TokTag a'.tag l.lexemeStart c.pos l'.curTag →
        TokL a' l.lexemeStart c.pos l' := by
      intro l' e1 e2 e3 e4 e5
      refine ⟨e5, by rw [g2]; exact e1, by rw [g3, e2]; exact t3, by rw [g4, e3]; exact t4⟩
    split
    · rename_i y hca
      split
      · -- pushed onto a start tag
        rename_i n hsh ns as sc hct
        refine lexQuiet_tok c _ x none rfl (hrest _ rfl rfl rfl rfl ?_) hinv (fun e h => by cases h)
        rw [g1]
        dsimp only
        cases hn : a.tag with
        | none => simp only [hn, TokTag] at t1; rw [t1] at hct; cases hct
        | top => cases a.attr <;> trivial
        | end_ =>
          simp only [hn, TokTag] at t1
          obtain ⟨o, e1, e2, _⟩ := t1
          rw [hct] at e1; simp only [Option.some.injEq] at e1; subst e1; cases e2
        | start =>
          simp only [hn, TokTag] at t1
          obtain ⟨o, e1, e2, e3⟩ := t1
          rw [hct] at e1; simp only [Option.some.injEq] at e1; subst e1
          cases ha : a.attr with
          | top => trivial
          | none => simp only [ha, TokAttr] at t2; rw [t2] at hca; cases hca
          | ok =>
            simp only [ha, TokAttr] at t2
            dsimp only
            refine ⟨_, rfl, rfl, e3.1, fun z hz => ?_⟩
            simp only [List.mem_append, List.mem_singleton] at hz
            rcases hz with hz | hz
            · exact e3.2 z hz
            · subst hz; exact t2 _ hca
      · rename_i hnot
        refine lexQuiet_tok c _ x none rfl (hrest _ rfl rfl rfl rfl ?_) hinv (fun e h => by cases h)
        rw [g1]
        dsimp only
        cases hn : a.tag with
        | start =>
          simp only [hn, TokTag] at t1
          obtain ⟨o, e1, e2, _⟩ := t1
          cases o with
          | startTag n hsh ns as sc => exact absurd e1 (hnot n hsh ns as sc)
          | endTag n hsh => cases e2
        | none => cases a.attr <;> simpa only [hn] using t1
        | top => cases a.attr <;> trivial
        | end_ => cases a.attr <;> simpa only [hn] using t1
    · rename_i hnone
      have hcan : l.curAttr = none := hnone
      refine lexQuiet_tok c l x none rfl (hrest l hcan rfl rfl rfl ?_) hinv (fun e h => by cases h)
      rw [g1]
      cases hn : a.tag with
      | start => cases ha : a.attr <;> first | trivial | simpa only [hn] using t1
      | none => cases a.attr <;> simpa only [hn] using t1
      | top => cases a.attr <;> trivial
      | end_ => cases a.attr <;> simpa only [hn] using t1
  case setForceQuirks =>
    simp only [absTokL, Option.some.injEq] at hl
    subst hl
    simp only [lexAct]
    split
    · rename_i d hcn
      refine lexQuiet_tok c _ x none rfl ⟨t1, t2, ?_, t4⟩ hinv (fun e h => by cases h)
      cases hn : a.nt <;> simp only [hn, TokNT] at t3 ⊢
      · rw [t3] at hcn; cases hcn
      · intro r hr; cases hr
      · intro r hr; cases hr
    · exact lexQuiet_tok c l x none rfl ht hinv (fun e h => by cases h)
  case finishDoctypeName =>
    simp only [absTokL, Option.some.injEq] at hl
    subst hl
    simp only [lexAct]
    split
    · rename_i d hcn
      refine lexQuiet_tok c _ x none rfl ⟨t1, t2, ?_, t4⟩ hinv (fun e h => by cases h)
      cases hn : a.nt <;> simp only [hn, TokNT] at t3 ⊢
      · rw [t3] at hcn; cases hcn
      · intro r hr; cases hr
      · intro r hr; cases hr
    · exact lexQuiet_tok c l x none rfl ht hinv (fun e h => by cases h)
  case finishDoctypePublicId =>
    simp only [absTokL, Option.some.injEq] at hl
    subst hl
    simp only [lexAct]
    split
    · rename_i d hcn
      refine lexQuiet_tok c _ x none rfl ⟨t1, t2, ?_, t4⟩ hinv (fun e h => by cases h)
      cases hn : a.nt <;> simp only [hn, TokNT] at t3 ⊢
      · rw [t3] at hcn; cases hcn
      · intro r hr; cases hr
      · intro r hr; cases hr
    · exact lexQuiet_tok c l x none rfl ht hinv (fun e h => by cases h)
  case finishDoctypeSystemId =>
    simp only [absTokL, Option.some.injEq] at hl
    subst hl
    simp only [lexAct]
    split
    · rename_i d hcn
      refine lexQuiet_tok c _ x none rfl ⟨t1, t2, ?_, t4⟩ hinv (fun e h => by cases h)
      cases hn : a.nt <;> simp only [hn, TokNT] at t3 ⊢
      · rw [t3] at hcn; cases hcn
      · intro r hr; cases hr
      · intro r hr; cases hr
    · exact lexQuiet_tok c l x none rfl ht hinv (fun e h => by cases h)
  all_goals
    simp only [absTokL, Option.some.injEq] at hl
    subst hl
    simp only [lexAct]
    exact lexQuiet_tok _ l x none rfl ht hinv (fun e h => by cases h)


/-! ### tag scanner -/

def ScanTokPost (a' : AbsS) (pos : Nat) (r : M κ × Option Signal) : Prop :=
  ∃ s', r.1.r = .scanner s' ∧ TokS a' pos s' ∧ Inv r.1.x.sim ∧ ∀ e, r.2 = some (.err e) → ErrNot T2 e

theorem scanEmitHint_tok (hs2 : SinkSafe2 env.ops inp) (c : Common) (s : ScanRegs) (x : Ctx κ) (p : Nat) (ie : Bool)
    (hts : s.tagStart = none) (hr : RangeIn inp.length ⟨s.tagNameStart, c.pos⟩) (hinv : Inv x.sim) :
    ScanTokPost .none c.pos (scanEmitHint env inp c s x p ie) := by
  unfold scanEmitHint
  obtain ⟨name, hname⟩ := LocalName.new_isSome (inp := inp) s.tagNameHash hr
  rw [hname]
  dsimp only
  have herr : ∀ e, (if ie = true then env.ops.endTagHint name x.sink
      else env.ops.startTagHint name x.sim.currentNs x.sink).2 = .error e → ErrNot T2 e := by
    intro e he
    split at he
    · exact hs2.endTagHint _ _ e he
    · exact hs2.startTagHint _ _ _ e he
  split
  · rename_i e he
    exact ⟨_, rfl, hts, hinv, fun e' h => by
      simp only [Option.some.injEq, Signal.err.injEq] at h; subst h; exact herr e he⟩
  · exact ⟨_, rfl, hts, hinv, fun e h => by cases h⟩
  · exact ⟨_, rfl, hts, hinv, fun e h => by cases h⟩

theorem scanFinishTagName_tok (hs2 : SinkSafe2 env.ops inp) {hb f : Bool} (c : Common) (s : ScanRegs) (x : Ctx κ)
    (hm : MInvA W inp.length lo hb f ⟨c, .scanner s, x⟩) (ht : TokS (.some true) c.pos s) (hinv : Inv x.sim) :
    ScanTokPost .none c.pos (scanFinishTagName env inp c s x) := by
  obtain ⟨a1, a2, a3, a4, a5⟩ := hm
  obtain ⟨p, hp, hlive⟩ := ht
  have hl := hlive rfl
  have hposL : c.pos ≤ inp.length := a3
  unfold scanFinishTagName
  rw [hp]
  dsimp only
  have hfb : ∀ (r : Except Err (Sim × Feedback)),
      r = (if s.isInEndTag = true then x.sim.feedbackForEndTag env.cfg s.tagNameHash
           else x.sim.feedbackForStartTag env.cfg s.tagNameHash) →
      (∀ e, r = .error e → ErrNot T2 e) ∧ (∀ v, r = .ok v → Inv v.1) := by
    intro r hr
    subst hr
    split
    · exact Sim.feedbackForEndTag_inv hinv _
    · exact Sim.feedbackForStartTag_inv hinv _
  obtain ⟨g1, g2⟩ := hfb _ rfl
  split
  · rename_i e herr
    exact ⟨_, rfl, rfl, hinv, fun e' h => by
      simp only [Option.some.injEq, Signal.err.injEq] at h; subst h; exact g1 _ herr⟩
  · rename_i sf hsf
    have hi1 := g2 _ hsf
    obtain ⟨f1, f2, f3, f4, f5⟩ := scanApplyFeedback_frame c { s with tagStart := none } sf.2
    have htn : (scanApplyFeedback c { s with tagStart := none } sf.2).2.1.tagNameStart = s.tagNameStart := by
      cases sf.2 <;> rfl
    split
    · exact ⟨_, rfl, by dsimp only [TokS]; rw [f4], hi1, fun e h => by cases h⟩
    · apply scanEmitHint_tok hs2
      · dsimp only; rw [f4]
      · dsimp only
        rw [htn]
        have hp' : (scanApplyFeedback c { s with tagStart := none } sf.2).1.pos = c.pos := by
          simp only [Common.pos, f1]
        rw [hp']
        exact ⟨hl.2, hposL⟩
      · exact hi1

/-- **Tag-scanner actions: the abstract transformer is sound.** -/
theorem scanAct_tok (hs2 : SinkSafe2 env.ops inp) {hb f : Bool} {a a' : AbsS} (act : ActName) (c : Common)
    (s : ScanRegs) (x : Ctx κ) (hm : MInvA W inp.length lo hb f ⟨c, .scanner s, x⟩) (ht : TokS a c.pos s)
    (hinv : Inv x.sim) (hl : absTokS act a = some a') : ScanTokPost a' c.pos (scanAct env act inp c s x) := by
  have hm' := hm
  obtain ⟨a1, a2, a3, a4, a5⟩ := hm'
  simp only [RegsA] at a5
  have hpos : c.pos = c.nextPos - 1 := rfl
  cases act
  case finishTagName =>
    simp only [absTokS] at hl
    simp only [scanAct]
    cases a with
    | some live =>
      cases live
      · cases hl
      · simp only [Option.some.injEq] at hl
        subst hl
        exact scanFinishTagName_tok hs2 c s x hm ht hinv
    | none => cases hl
    | top => cases hl
  case createStartTag =>
    simp only [absTokS, Option.some.injEq] at hl
    subst hl
    simp only [scanAct]
    refine ⟨_, rfl, ?_, hinv, fun e h => by cases h⟩
    cases a with
    | none => exact ht
    | top => trivial
    | some live =>
      obtain ⟨p, hp, _⟩ := ht
      exact ⟨p, hp, fun _ => ⟨by rw [hpos]; exact (a5.2.1 p hp).2.2, Nat.le_refl _⟩⟩
  case createEndTag =>
    simp only [absTokS, Option.some.injEq] at hl
    subst hl
    simp only [scanAct]
    refine ⟨_, rfl, ?_, hinv, fun e h => by cases h⟩
    cases a with
    | none => exact ht
    | top => trivial
    | some live =>
      obtain ⟨p, hp, _⟩ := ht
      exact ⟨p, hp, fun _ => ⟨by rw [hpos]; exact (a5.2.1 p hp).2.2, Nat.le_refl _⟩⟩
  case markTagStart =>
    simp only [absTokS, Option.some.injEq] at hl
    subst hl
    simp only [scanAct]
    exact ⟨_, rfl, ⟨_, rfl, fun h => by cases h⟩, hinv, fun e h => by cases h⟩
  case unmarkTagStart =>
    simp only [absTokS, Option.some.injEq] at hl
    subst hl
    simp only [scanAct]
    exact ⟨_, rfl, rfl, hinv, fun e h => by cases h⟩
  case updateTagNameHash =>
    simp only [absTokS, Option.some.injEq] at hl
    subst hl
    simp only [scanAct]
    split
    · refine ⟨_, rfl, ?_, hinv, fun e h => by cases h⟩
      cases a <;> exact ht
    · exact ⟨_, rfl, ht, hinv, fun e h => by cases h⟩
  case emitTag =>
    simp only [absTokS, Option.some.injEq] at hl
    subst hl
    simp only [scanAct]
    refine ⟨_, rfl, ?_, hinv, fun e h => by cases h⟩
    cases a <;> exact ht
  all_goals
    simp only [absTokS, Option.some.injEq] at hl
    subst hl
    simp only [scanAct]
    exact ⟨_, rfl, ht, hinv, fun e h => by cases h⟩

/-- **Every action: the abstract transformer is sound.** -/
theorem act_tok (hs2 : SinkSafe2 env.ops inp) {hb f f' : Bool} {a a' : Abs} (act : ActName) (m : M κ)
    (hm : MInvA W inp.length lo hb f m) (ht : TokM a (m.c.nextPos - 1) m)
    (hstep : absStep hb act (f, a) = some (f', a')) :
    TokPost a' (m.c.nextPos - 1) (Model.act env act inp m) := by
  unfold absStep at hstep
  dsimp only at hstep
  split at hstep
  · rename_i f1 l1 s1 hf hl hsc
    simp only [Option.some.injEq, Prod.mk.injEq] at hstep
    obtain ⟨_, rfl⟩ := hstep
    obtain ⟨htr, hinv⟩ := ht
    unfold Model.act
    cases m with
    | mk c r x =>
      cases r with
      | lexer l =>
        obtain ⟨l', e1, e2, e3, e4⟩ := lexAct_tok hs2 act c l x hm ⟨_, hf⟩ htr hinv hl
        refine ⟨⟨?_, e3⟩, e4⟩
        rw [e1]
        exact e2
      | scanner s =>
        obtain ⟨s', e1, e2, e3, e4⟩ := scanAct_tok hs2 act c s x hm htr hinv hsc
        refine ⟨⟨?_, e3⟩, e4⟩
        rw [e1]
        exact e2
  · cases hstep

end
end LolHtml.Model
