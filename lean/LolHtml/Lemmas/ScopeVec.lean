/-
Lemmas about `HandlerVec` (model of `handlers_dispatcher.rs:26-131`): closed forms of the counter
operations "by handler id", never failing under the stated preconditions.
-/
import LolHtml.Model.Handlers

namespace LolHtml.Lemmas.Scope
open LolHtml.Model.Handlers

variable {α : Type}

/-- The vector whose total is the sum of its item counts. -/
def mk (items : List (Item α)) : HandlerVec α :=
  { items := items, userCount := (items.map (·.userCount)).sum }

@[simp] theorem mk_items (items : List (Item α)) : (mk items).items = items := rfl

theorem sum_set_succ (l : List Nat) (i c : Nat) (h : l[i]? = some c) :
    (l.set i (c + 1)).sum = l.sum + 1 := by
  induction l generalizing i with
  | nil => simp at h
  | cons x xs ih =>
    cases i with
    | zero => simp at h; subst h; simp [List.sum_cons]; omega
    | succ j => simp at h; simp [List.sum_cons, ih j h]; omega

theorem sum_set_pred (l : List Nat) (i c : Nat) (h : l[i]? = some (c + 1)) :
    (l.set i c).sum + 1 = l.sum := by
  induction l generalizing i with
  | nil => simp at h
  | cons x xs ih =>
    cases i with
    | zero => simp at h; subst h; simp [List.sum_cons]; omega
    | succ j => simp at h; simp [List.sum_cons]; have := ih j h; omega

theorem sum_pos_of_getElem (l : List Nat) (i c : Nat) (h : l[i]? = some (c + 1)) : 0 < l.sum := by
  have := sum_set_pred l i c h; omega

/-- `inc_user_count` on a synchronised vector. -/
theorem inc_mk (items : List (Item α)) (p : Nat) (it : Item α) (h : items[p]? = some it) :
    (mk items).incUserCount ⟨p⟩ =
      .ok (mk (items.set p { it with userCount := it.userCount + 1 })) := by
  unfold HandlerVec.incUserCount
  simp only [mk_items, h]
  congr 1
  simp only [mk, List.map_set]
  congr 1
  rw [sum_set_succ]
  simp [h]

/-- `dec_user_count` on a synchronised vector whose item is in use. -/
theorem dec_mk (items : List (Item α)) (p : Nat) (it : Item α) (h : items[p]? = some it)
    (hpos : 0 < it.userCount) :
    (mk items).decUserCount ⟨p⟩ =
      .ok (mk (items.set p { it with userCount := it.userCount - 1 })) := by
  unfold HandlerVec.decUserCount
  obtain ⟨c, hc⟩ : ∃ c, it.userCount = c + 1 := ⟨it.userCount - 1, by omega⟩
  have hget : (items.map (·.userCount))[p]? = some (c + 1) := by simp [h, hc]
  have hsum := sum_set_pred _ _ _ hget
  simp only [mk_items, h, checkedSub, hc]
  have h1 : (1 : Nat) ≤ c + 1 := by omega
  have h2 : 1 ≤ (mk items).userCount := by simp only [mk]; omega
  simp only [h1, h2, if_true]
  congr 1
  simp only [mk, List.map_set]
  congr 1
  simp only [Nat.add_sub_cancel]
  omega

/-! ### Counter updates by handler key -/

/-- Add `f key` to the count of every item. -/
def addBy {κ : Type} (key : α → κ) (f : κ → Nat) (items : List (Item α)) : List (Item α) :=
  items.map fun it => { it with userCount := it.userCount + f (key it.handler) }

/-- Subtract `f key` from the count of every item (only used when it does not underflow). -/
def subBy {κ : Type} (key : α → κ) (f : κ → Nat) (items : List (Item α)) : List (Item α) :=
  items.map fun it => { it with userCount := it.userCount - f (key it.handler) }

@[simp] theorem addBy_handlers {κ : Type} (key : α → κ) (f : κ → Nat) (items : List (Item α)) :
    (addBy key f items).map (·.handler) = items.map (·.handler) := by
  simp [addBy, List.map_map, Function.comp_def]

@[simp] theorem subBy_handlers {κ : Type} (key : α → κ) (f : κ → Nat) (items : List (Item α)) :
    (subBy key f items).map (·.handler) = items.map (·.handler) := by
  simp [subBy, List.map_map, Function.comp_def]

def one {κ : Type} [DecidableEq κ] (m : κ) : κ → Nat := fun h => if h = m then 1 else 0

theorem set_eq_addBy {κ : Type} [DecidableEq κ] (key : α → κ) (items : List (Item α)) (p : Nat)
    (it : Item α) (m : κ) (nd : (items.map fun x => key x.handler).Nodup)
    (h : items[p]? = some it) (hm : key it.handler = m) :
    items.set p { it with userCount := it.userCount + 1 } = addBy key (one m) items := by
  induction items generalizing p with
  | nil => simp at h
  | cons x xs ih =>
    simp only [List.map_cons, List.nodup_cons] at nd
    cases p with
    | zero =>
      simp at h; subst h
      simp only [List.set_cons_zero, addBy, List.map_cons, one, hm, if_true]
      congr 1
      have : ∀ y ∈ xs, key y.handler ≠ m := by
        intro y hy hk; apply nd.1; rw [hm, ← hk]; exact List.mem_map_of_mem hy
      calc xs = xs.map id := by simp
        _ = _ := by
          apply List.map_congr_left
          intro y hy
          simp [this y hy]
    | succ j =>
      simp at h
      simp only [List.set_cons_succ, addBy, List.map_cons]
      have hx : key x.handler ≠ m := by
        intro hk; apply nd.1; rw [hk, ← hm]
        exact List.mem_map_of_mem (List.mem_of_getElem? h)
      congr 1
      · simp [one, hx]
      · exact ih j nd.2 h

theorem set_eq_subBy {κ : Type} [DecidableEq κ] (key : α → κ) (items : List (Item α)) (p : Nat)
    (it : Item α) (m : κ) (nd : (items.map fun x => key x.handler).Nodup)
    (h : items[p]? = some it) (hm : key it.handler = m) :
    items.set p { it with userCount := it.userCount - 1 } = subBy key (one m) items := by
  induction items generalizing p with
  | nil => simp at h
  | cons x xs ih =>
    simp only [List.map_cons, List.nodup_cons] at nd
    cases p with
    | zero =>
      simp at h; subst h
      simp only [List.set_cons_zero, subBy, List.map_cons, one, hm, if_true]
      congr 1
      have : ∀ y ∈ xs, key y.handler ≠ m := by
        intro y hy hk; apply nd.1; rw [hm, ← hk]; exact List.mem_map_of_mem hy
      calc xs = xs.map id := by simp
        _ = _ := by
          apply List.map_congr_left
          intro y hy
          simp [this y hy]
    | succ j =>
      simp at h
      simp only [List.set_cons_succ, subBy, List.map_cons]
      have hx : key x.handler ≠ m := by
        intro hk; apply nd.1; rw [hk, ← hm]
        exact List.mem_map_of_mem (List.mem_of_getElem? h)
      congr 1
      · simp [one, hx]
      · exact ih j nd.2 h

theorem addBy_absent {κ : Type} [DecidableEq κ] (key : α → κ) (items : List (Item α)) (m : κ)
    (h : ∀ it ∈ items, key it.handler ≠ m) : addBy key (one m) items = items := by
  calc addBy key (one m) items = items.map id := by
        apply List.map_congr_left
        intro y hy
        simp [one, h y hy]
    _ = items := by simp

theorem subBy_absent {κ : Type} [DecidableEq κ] (key : α → κ) (items : List (Item α)) (m : κ)
    (h : ∀ it ∈ items, key it.handler ≠ m) : subBy key (one m) items = items := by
  calc subBy key (one m) items = items.map id := by
        apply List.map_congr_left
        intro y hy
        simp [one, h y hy]
    _ = items := by simp

theorem addBy_addBy {κ : Type} (key : α → κ) (f g : κ → Nat) (items : List (Item α)) :
    addBy key g (addBy key f items) = addBy key (fun k => f k + g k) items := by
  simp [addBy, List.map_map, Function.comp_def, Nat.add_assoc]

theorem subBy_subBy {κ : Type} (key : α → κ) (f g : κ → Nat) (items : List (Item α)) :
    subBy key g (subBy key f items) = subBy key (fun k => f k + g k) items := by
  simp [subBy, List.map_map, Function.comp_def, Nat.sub_sub]

theorem addBy_zero {κ : Type} (key : α → κ) (items : List (Item α)) :
    addBy key (fun _ => 0) items = items := by
  simp [addBy]

theorem subBy_zero {κ : Type} (key : α → κ) (items : List (Item α)) :
    subBy key (fun _ => 0) items = items := by
  simp [subBy]

theorem addBy_congr {κ : Type} (key : α → κ) (f g : κ → Nat) (items : List (Item α))
    (h : ∀ it ∈ items, f (key it.handler) = g (key it.handler)) :
    addBy key f items = addBy key g items := by
  apply List.map_congr_left
  intro y hy
  simp [h y hy]

theorem subBy_congr {κ : Type} (key : α → κ) (f g : κ → Nat) (items : List (Item α))
    (h : ∀ it ∈ items, f (key it.handler) = g (key it.handler)) :
    subBy key f items = subBy key g items := by
  apply List.map_congr_left
  intro y hy
  simp [h y hy]

/-! ### `do_for_each_active_and_deactivate` -/

theorem sum_zero_of_all_zero (l : List Nat) (h : ∀ x ∈ l, x = 0) : l.sum = 0 := by
  induction l with
  | nil => rfl
  | cons x xs ih =>
    simp [List.sum_cons, h x (by simp), ih (fun y hy => h y (by simp [hy]))]


theorem deactivateLoop_spec (items : List (Item α)) (t : Nat)
    (ht : (items.map (·.userCount)).sum ≤ t) :
    HandlerVec.deactivateLoop items t =
      .ok (items.map (fun it => { it with userCount := 0 }),
           t - (items.map (·.userCount)).sum,
           (items.filter fun it => decide (0 < it.userCount)).map (·.handler)) := by
  induction items generalizing t with
  | nil => simp [HandlerVec.deactivateLoop]
  | cons x xs ih =>
    simp only [List.map_cons, List.sum_cons] at ht
    unfold HandlerVec.deactivateLoop
    by_cases hx : 0 < x.userCount
    · have h1 : x.userCount ≤ t := by omega
      simp only [hx, if_true, checkedSub, h1]
      rw [ih (t - x.userCount) (by omega)]
      simp [hx, List.sum_cons, Nat.sub_sub]
    · have h0 : x.userCount = 0 := by omega
      simp only [hx, if_false]
      rw [ih t (by omega)]
      have : ({ x with userCount := 0 } : Item α) = x := by cases x; simp_all
      simp [List.sum_cons, h0, this]

theorem deactivate_mk (items : List (Item α)) :
    (mk items).doForEachActiveAndDeactivate =
      .ok (mk (items.map fun it => { it with userCount := 0 }),
           (items.filter fun it => decide (0 < it.userCount)).map (·.handler)) := by
  unfold HandlerVec.doForEachActiveAndDeactivate
  have h := deactivateLoop_spec items (mk items).userCount (Nat.le_refl _)
  rw [show (mk items).items = items from rfl, h]
  clear h
  simp only [mk, Nat.sub_self, List.map_map]
  congr 3
  symm
  apply sum_zero_of_all_zero
  intro x hx
  obtain ⟨it, _, rfl⟩ := List.mem_map.1 hx
  rfl

/-! ### `do_for_each_active_and_remove_tail` -/

theorem drainLoop_all_active (items : List (Item α)) (t : Nat)
    (hact : ∀ it ∈ items, 0 < it.userCount) (ht : (items.map (·.userCount)).sum ≤ t) :
    HandlerVec.drainLoop items t =
      .ok (t - (items.map (·.userCount)).sum, items.map (·.handler)) := by
  induction items generalizing t with
  | nil => simp [HandlerVec.drainLoop]
  | cons x xs ih =>
    simp only [List.map_cons, List.sum_cons] at ht
    have hx : 0 < x.userCount := hact x (by simp)
    unfold HandlerVec.drainLoop
    have h1 : x.userCount ≤ t := by omega
    simp only [hx, if_true, checkedSub, h1]
    rw [ih (t - x.userCount) (fun it hit => hact it (by simp [hit])) (by omega)]
    simp [List.sum_cons, Nat.sub_sub]

theorem sum_reverse (l : List Nat) : l.reverse.sum = l.sum := by
  induction l with
  | nil => rfl
  | cons x xs ih => simp [List.sum_append, List.sum_cons, ih]; omega

/-- Inactive prefix `A`, fully active suffix `B`: the suffix is invoked last-to-first and dropped. -/
theorem removeTail_split (A B : List (Item α)) (hA : ∀ it ∈ A, it.userCount = 0)
    (hB : ∀ it ∈ B, 0 < it.userCount) :
    (mk (A ++ B)).doForEachActiveAndRemoveTail = .ok (mk A, B.reverse.map (·.handler)) := by
  have sumA : (A.map (·.userCount)).sum = 0 :=
    sum_zero_of_all_zero _ (by
      intro x hx
      obtain ⟨it, hit, rfl⟩ := List.mem_map.1 hx
      exact hA it hit)
  unfold HandlerVec.doForEachActiveAndRemoveTail
  cases B with
  | nil =>
    have hnone : (mk (A ++ [])).items.findIdx? (fun it => decide (0 < it.userCount)) = none := by
      simp only [mk_items, List.append_nil, List.findIdx?_eq_none_iff]
      intro it hit
      simp [hA it hit]
    rw [hnone]
    simp [mk, sumA]
  | cons b bs =>
    have hb : 0 < b.userCount := hB b (by simp)
    have hsome : (mk (A ++ b :: bs)).items.findIdx? (fun it => decide (0 < it.userCount))
        = some A.length := by
      simp only [mk_items]
      rw [List.findIdx?_eq_some_iff_getElem]
      refine ⟨by simp, ?_, ?_⟩
      · simp [hb]
      · intro j hj
        have : (A ++ b :: bs)[j]'(by simp; omega) = A[j] := by
          rw [List.getElem_append_left]
        simp only [this]
        simp [hA A[j] (List.getElem_mem hj)]
    rw [hsome]
    simp only [mk_items, List.drop_left, List.take_left]
    have hrev : ∀ it ∈ (b :: bs).reverse, 0 < it.userCount := by
      intro it hit; exact hB it (by simpa [or_comm] using hit)
    have hsumeq : (mk (A ++ b :: bs)).userCount = ((b :: bs).reverse.map (·.userCount)).sum := by
      simp only [mk, List.map_append, List.sum_append, sumA, List.map_reverse, sum_reverse]
      omega
    rw [drainLoop_all_active _ _ hrev (by rw [hsumeq]; exact Nat.le_refl _)]
    simp only [hsumeq, Nat.sub_self, if_true]
    simp [mk, sumA]

end LolHtml.Lemmas.Scope
