import LolHtml.Lemmas.TextContig
import LolHtml.Lemmas.StreamLocations
/-!
Text-chunk contiguity through `write` / `end`: between calls the joint invariant `TV` holds for the
parser's own `previously_consumed` and `lexeme_start`; in every outcome (failing calls included) the
list of tokens handed to the controller is `Good`.
-/
namespace LolHtml.Model

variable {γ : Type} {w : World γ} {log : γ → List Token}

/-- between calls -/
def Stream.TxtInv (log : γ → List Token) (s : Stream γ) : Prop :=
  TV log s.parser.x.prevConsumed s.parser.ls s.disp

/-- changes outside the controller state, the text-node registers and the flags do not matter -/
theorem TV.frame {pc : Nat} {ls : Option Nat} {d d' : Disp γ} (h : TV log pc ls d) (hc : d'.ctl = d.ctl)
    (hp : d'.textPending = d.textPending) (hts : d'.textPendingStart = d.textPendingStart) (hf : d'.flags = d.flags) :
    TV log pc ls d' := by
  refine ⟨h.1.frame (by rw [hc]) hp hts (fun _ => by rw [hf]), ?_⟩
  have h2 := h.2
  cases ls with
  | none => simp only at h2 ⊢; rw [hp]; exact h2
  | some l => simp only at h2 ⊢; rw [hp, hts]; exact h2

theorem flushRemaining_TV {pc consumed : Nat} {ls : Option Nat} {inp : Bytes} {d d' : Disp γ} (h : TV log pc ls d)
    (hf : d.flushRemaining inp consumed = .ok d') : TV log pc ls d' := by
  unfold Disp.flushRemaining at hf
  split at hf
  · split at hf
    · simp at hf
    · simp only [Except.ok.injEq] at hf
      subst hf
      refine h.frame ?_ ?_ ?_ ?_ <;> (split <;> rfl)
  · simp only [Except.ok.injEq] at hf
    subst hf
    exact h.frame rfl rfl rfl rfl

/-- after a successful `parse` of a non-final slice the invariant holds for the parser's new registers -/
theorem TV.rebase {pc c : Nat} {p : Parser (Disp γ)} (hpc : p.x.prevConsumed = pc + c)
    (h : match p.directive with
         | .lex => TV log pc (some c) p.x.sink ∧ (false = false → p.lexR.lexemeStart = 0)
         | .scan => TV log pc none p.x.sink) :
    TV log p.x.prevConsumed p.ls p.x.sink := by
  unfold Parser.ls
  cases hd : p.directive with
  | lex =>
    rw [hd] at h
    obtain ⟨⟨h1, h2⟩, h3⟩ := h
    refine ⟨h1, ?_⟩
    simp only at h2 ⊢
    intro hp
    rw [hpc, h3 rfl, ← h2 hp]
    omega
  | scan =>
    rw [hd] at h
    exact ⟨h.1, h.2⟩

/-- one `write` -/
theorem Stream.write_TxtInv (hlog : Logging w.ctl log) (ht : EmitsChecked w.tbl = true) (s : Stream γ) (data : Bytes)
    (h : s.TxtInv log) :
    Good (log (s.write w data).1.disp.ctl) ∧ ((s.write w data).2 = .ok () → (s.write w data).1.TxtInv log) := by
  unfold Stream.write
  cases hcf : s.chunkFor w data with
  | inl s' =>
    obtain ⟨_, hs'⟩ := Stream.chunkFor_inl hcf
    simp only
    refine ⟨?_, fun h => by simp at h⟩
    rw [hs', Stream.bail_log hlog]
    exact h.1.contig
  | inr sc =>
    obtain ⟨s1, chunk⟩ := sc
    obtain ⟨c1, c2, c3, c4, c5⟩ := Stream.chunkFor_inr hcf
    simp only
    have hpl := Parser.parse_view (env := w.env) (inp := chunk) (dispOps_TV hlog) ht false s.parser rfl h
    rw [c2]
    cases hpr : (s.parser.parse w.env chunk false).2 with
    | error e =>
      rw [hpr] at hpl
      simp only
      refine ⟨?_, fun h => by simp at h⟩
      rw [Stream.bail_log hlog]
      exact hpl
    | ok consumed =>
      rw [hpr] at hpl
      obtain ⟨hpc, hV⟩ := hpl
      have hT := TV.rebase hpc hV
      simp only
      cases hfl : Disp.flushRemaining (Stream.disp { s1 with parser := (s.parser.parse w.env chunk false).1 }) chunk consumed with
      | error e =>
        simp only
        exact ⟨hT.1.contig, fun h => by simp at h⟩
      | ok d =>
        simp only
        have hd := flushRemaining_TV (d := Stream.disp { s1 with parser := (s.parser.parse w.env chunk false).1 }) hT hfl
        refine ⟨?_, ?_⟩
        · rw [Stream.keepTail_log hlog]
          exact hd.1.contig
        · intro hok
          obtain ⟨k1, k2⟩ := Stream.keepTail_disp _ _ _ _ hok
          unfold Stream.TxtInv
          rw [k1, k2]
          exact hd

/-- `end` -/
theorem Stream.end_good (hlog : Logging w.ctl log) (ht : EmitsChecked w.tbl = true) (s : Stream γ)
    (h : s.TxtInv log) : Good (log (s.end w).1.disp.ctl) := by
  unfold Stream.end
  generalize (if s.hasBuffered = true then s.buf.data else []) = chunk
  have hpl := Parser.parse_view (env := w.env) (inp := chunk) (dispOps_TV hlog) ht true s.parser rfl h
  simp only
  cases hpr : (s.parser.parse w.env chunk true).2 with
  | error e =>
    rw [hpr] at hpl
    simp only
    rw [Stream.bail_log hlog]
    exact hpl
  | ok consumed =>
    rw [hpr] at hpl
    obtain ⟨_, hV⟩ := hpl
    have hg : Good (log (s.parser.parse w.env chunk true).1.x.sink.ctl) := by
      cases hd : (s.parser.parse w.env chunk true).1.directive with
      | lex => rw [hd] at hV; exact hV.1.1.contig
      | scan => rw [hd] at hV; exact hV.1.contig
    simp only [setDisp_disp]
    unfold Disp.finish
    cases hfl : Disp.flushRemaining (Stream.disp { s with parser := (s.parser.parse w.env chunk true).1 }) chunk chunk.length with
    | error e =>
      simp only [DRes.ofExcept, DRes.bind]
      exact hg
    | ok d =>
      have hdc : d.ctl = (s.parser.parse w.env chunk true).1.x.sink.ctl := by
        unfold Disp.flushRemaining at hfl
        split at hfl
        · split at hfl
          · simp at hfl
          · simp only [Except.ok.injEq] at hfl
            subst hfl
            simp only [Stream.disp]
            split <;> rfl
        · simp only [Except.ok.injEq] at hfl
          subst hfl
          rfl
      simp only [DRes.ofExcept, DRes.bind]
      split <;> simp only [hlog.handleEnd, hdc] <;> exact hg

end LolHtml.Model
