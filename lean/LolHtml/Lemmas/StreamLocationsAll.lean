import LolHtml.Lemmas.LocationsAll
/-!
`Parser::parse` over the real dispatcher, for every controller: it coincides with `parse` over the
guarded dispatcher (the guard never fires, by `inv`'s `parse_post`), which keeps the location
invariant `LInv2`. Then `write` / `end`.
-/
namespace LolHtml.Model

variable {γ : Type} {w : World γ} {log : γ → List Token}

theorem PR_eq {κ : Type} {p₁ p₂ : Parser κ} (h : PR Eq p₁ p₂) : p₁ = p₂ := by
  obtain ⟨a, b, c, d, e, f, g, i⟩ := h
  obtain ⟨l1, l2, s1, s2, dir, x⟩ := p₁
  obtain ⟨l1', l2', s1', s2', dir', x'⟩ := p₂
  obtain ⟨k, sim, pc⟩ := x
  obtain ⟨k', sim', pc'⟩ := x'
  simp only at a b c d e f g i
  subst a b c d e f g i
  rfl

/-- the parser over the guarded dispatcher -/
def World.envG (w : World γ) : Env (Disp γ) := ⟨w.tbl, w.tags, guardedOps w.ctl⟩

/-- **The guard never fires**: `parse` over the real dispatcher is `parse` over the guarded one. -/
theorem parse_eq_guarded (hc : CtlClean w.ctl) (hw : Wf w.tbl) (ht : EmitsChecked w.tbl = true)
    (inp : Bytes) (last : Bool) (p : Parser (Disp γ))
    (hp : PInv w.tbl inp.length (fun d : Disp γ => d.rcs) p) :
    Parser.parse w.env inp last p = Parser.parse w.envG inp last p := by
  have hrel := Parser.parse_rel (tbl := w.tbl) (cfg := w.tags) (inp := inp) (guardedOps_rel (ctl := w.ctl)) ht
    (by intro s; simp [guardErr]) last p p ⟨rfl, rfl, rfl, rfl, rfl, rfl, rfl, rfl⟩
  have hpost := parse_post (env := w.envG) (inp := inp) (guardedOps_safe hc) hw last p hp
  rcases hrel with ⟨hpr, hres⟩ | habort
  · have := PR_eq hpr
    exact (Prod.ext this hres).symm
  · exfalso
    unfold ParsePost at hpost
    have habort' : (Parser.parse w.envG inp last p).2 = .error guardErr := habort
    rw [habort'] at hpost
    exact guardErr_not_ok hpost

/-- **`parse`, every controller**: the location invariant on success (with `inv`'s bounds), the ordering on failure. -/
theorem parse_LInv2 (hlog : Logging w.ctl log) (hc : CtlClean w.ctl) (hw : Wf w.tbl) (ht : EmitsChecked w.tbl = true)
    (inp : Bytes) (last : Bool) (p : Parser (Disp γ))
    (hp : PInv w.tbl inp.length (fun d : Disp γ => d.rcs) p) (hl : LInv2 log p.x.prevConsumed p.x.sink) :
    match (Parser.parse w.env inp last p).2 with
    | .ok c => LInv2 log p.x.prevConsumed (Parser.parse w.env inp last p).1.x.sink ∧
        (Parser.parse w.env inp last p).1.x.prevConsumed = p.x.prevConsumed + c ∧
        (Parser.parse w.env inp last p).1.x.sink.rcs ≤ c ∧ c ≤ inp.length
    | .error _ => Ordered (log (Parser.parse w.env inp last p).1.x.sink.ctl) := by
  rw [parse_eq_guarded hc hw ht inp last p hp]
  have hok := Parser.parse_ok (env := w.envG) (inp := inp) (pc := p.x.prevConsumed) (P := LInv2 log p.x.prevConsumed)
    (Pe := fun d => Ordered (log d.ctl)) (guardedOps_LInv2 hlog) ht last p ⟨rfl, hl⟩
  have hpost := parse_post (env := w.envG) (inp := inp) (guardedOps_safe hc) hw last p hp
  unfold ParsePost at hpost
  cases hres : (Parser.parse w.envG inp last p).2 with
  | ok c =>
    rw [hres] at hok hpost
    exact ⟨hok.1, hok.2, hpost.1, hpost.2.1⟩
  | error e =>
    rw [hres] at hok
    exact hok.1

theorem flushRemaining_LInv2 {pc consumed : Nat} {inp : Bytes} {d d' : Disp γ} (h : LInv2 log pc d)
    (hle : d.rcs ≤ consumed) (hf : d.flushRemaining inp consumed = .ok d') :
    LInv2 log (pc + consumed) d' ∧ d'.rcs = 0 := by
  have key : ∀ d0 : Disp γ, d0.ctl = d.ctl → d0.textPending = d.textPending → d0.textPendingStart = d.textPendingStart →
      LInv2 log (pc + consumed) { d0 with rcs := 0 } := by
    intro d0 h1 h2 h3
    refine ⟨by simp only; rw [h1]; exact h.ordered, ?_, ?_⟩
    · intro a ha
      simp only at ha ⊢
      rw [h1] at ha
      have := h.below a ha
      omega
    · intro hp
      simp only at hp ⊢
      rw [h2] at hp
      obtain ⟨p1, p2⟩ := h.pending hp
      rw [h3, h1]
      exact ⟨by omega, p2⟩
  unfold Disp.flushRemaining at hf
  split at hf
  · split at hf
    · simp at hf
    · simp only [Except.ok.injEq] at hf
      subst hf
      refine ⟨key _ ?_ ?_ ?_, rfl⟩ <;> (split <;> rfl)
  · simp only [Except.ok.injEq] at hf
    subst hf
    exact ⟨key d rfl rfl rfl, rfl⟩

/-- between calls: `inv`'s stream invariant and the location invariant -/
def Stream.LocInv2 (w : World γ) (log : γ → List Token) (s : Stream γ) : Prop :=
  SInv w s ∧ LInv2 log s.parser.x.prevConsumed s.disp

/-- one `write`, every controller -/
theorem Stream.write_LocInv2 (hlog : Logging w.ctl log) (hc : CtlClean w.ctl) (hw : Wf w.tbl)
    (ht : EmitsChecked w.tbl = true) (s : Stream γ) (data : Bytes) (h : s.LocInv2 w log) :
    Ordered (log (s.write w data).1.disp.ctl) ∧ ((s.write w data).2 = .ok () → (s.write w data).1.LocInv2 w log) := by
  obtain ⟨hs, hinv⟩ := h
  have hsinv := (Stream.write_post hc hw s data hs).2
  unfold Stream.write at hsinv ⊢
  cases hcf : s.chunkFor w data with
  | inl s' =>
    obtain ⟨_, hs'⟩ := Stream.chunkFor_inl hcf
    simp only
    refine ⟨?_, fun h => by simp at h⟩
    rw [hs', Stream.bail_log hlog]
    exact hinv.ordered
  | inr sc =>
    obtain ⟨s1, chunk⟩ := sc
    obtain ⟨c1, c2, c3, c4, c5⟩ := Stream.chunkFor_inr hcf
    rw [hcf] at hsinv
    simp only at hsinv ⊢
    obtain ⟨hrcs, hpinv⟩ := hs
    have hlen : (if s.hasBuffered then s.buf.data.length else 0) ≤ chunk.length := by
      rw [c1]
      simp only [Stream.pending, List.length_append]
      split <;> omega
    have hp1 : PInv w.tbl chunk.length (fun d : Disp γ => d.rcs) s1.parser := by
      rw [c2]; exact PInv_mono hpinv hlen
    have hpl := parse_LInv2 hlog hc hw ht chunk false s1.parser hp1 (by rw [c2]; exact hinv)
    rw [c2] at hpl hsinv ⊢
    cases hpr : (s.parser.parse w.env chunk false).2 with
    | error e =>
      rw [hpr] at hpl
      simp only
      refine ⟨?_, fun h => by simp at h⟩
      rw [Stream.bail_log hlog]
      exact hpl
    | ok consumed =>
      rw [hpr] at hpl hsinv
      obtain ⟨hP, hpc, hle, hcl⟩ := hpl
      simp only at hsinv ⊢
      cases hfl : Disp.flushRemaining (Stream.disp { s1 with parser := (s.parser.parse w.env chunk false).1 }) chunk consumed with
      | error e =>
        simp only
        exact ⟨hP.ordered, fun h => by simp at h⟩
      | ok d =>
        rw [hfl] at hsinv
        simp only at hsinv ⊢
        obtain ⟨hd, hd0⟩ := flushRemaining_LInv2 (d := Stream.disp { s1 with parser := (s.parser.parse w.env chunk false).1 }) hP hle hfl
        refine ⟨?_, ?_⟩
        · rw [Stream.keepTail_log hlog]
          exact hd.ordered
        · intro hok
          refine ⟨hsinv hok, ?_⟩
          obtain ⟨k1, k2⟩ := Stream.keepTail_disp _ _ _ _ hok
          rw [k1, k2]
          simp only [setDisp_disp, Stream.setDisp]
          rw [hpc]
          exact hd

theorem Stream.end_ordered2 (hlog : Logging w.ctl log) (hc : CtlClean w.ctl) (hw : Wf w.tbl)
    (ht : EmitsChecked w.tbl = true) (s : Stream γ) (h : s.LocInv2 w log) : Ordered (log (s.end w).1.disp.ctl) := by
  obtain ⟨⟨hrcs, hpinv⟩, hinv⟩ := h
  unfold Stream.end
  have hp1 : PInv w.tbl (if s.hasBuffered then s.buf.data else []).length (fun d : Disp γ => d.rcs) s.parser := by
    split <;> rename_i hb <;> simpa [hb] using hpinv
  generalize (if s.hasBuffered = true then s.buf.data else []) = chunk at hp1 ⊢
  have hpl := parse_LInv2 hlog hc hw ht chunk true s.parser hp1 hinv
  simp only
  cases hpr : (s.parser.parse w.env chunk true).2 with
  | error e =>
    rw [hpr] at hpl
    simp only
    rw [Stream.bail_log hlog]
    exact hpl
  | ok consumed =>
    rw [hpr] at hpl
    obtain ⟨hP, _, hle, hcl⟩ := hpl
    simp only [setDisp_disp]
    unfold Disp.finish
    cases hfl : Disp.flushRemaining (Stream.disp { s with parser := (s.parser.parse w.env chunk true).1 }) chunk chunk.length with
    | error e =>
      simp only [DRes.ofExcept, DRes.bind]
      exact hP.ordered
    | ok d =>
      obtain ⟨hd, _⟩ := flushRemaining_LInv2 (d := Stream.disp { s with parser := (s.parser.parse w.env chunk true).1 }) hP
        (Nat.le_trans hle hcl) hfl
      simp only [DRes.ofExcept, DRes.bind]
      split <;> simp only [hlog.handleEnd] <;> exact hd.ordered

end LolHtml.Model
