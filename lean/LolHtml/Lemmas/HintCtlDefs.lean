import LolHtml.Lemmas.RunRelClean
import LolHtml.Lemmas.RelexLaws
/-!
# The kind of the outstanding tag hint as a ghost of the controller state — definitions

Both tag hints set `got_flags_from_hint`; neither the dispatcher nor the real controller records WHICH hint is
outstanding. `hintCtl ctl` is `ctl` with a ghost `Option Bool` in its state: `handle_start_tag` sets it to `some true`,
`handle_end_tag` to `some false`, every other callback keeps it. (Runs over `hintCtl ctl` are, under `Prod.fst`, the runs
over `ctl`: Lemmas/CtlHom.lean.)

* `PendS d` — a START-tag hint answered `lex` is outstanding: `pending_element_aux_info_req`, or `got_flags_from_hint`
  and the ghost is `some true` (the aux request needs no ghost: only a start-tag hint raises it — and with this form
  package scan's `PendLaw`, which quantifies over ALL sink states, holds);
* `PendE d` — an END-tag hint answered `lex` is outstanding: `got_flags_from_hint` and the ghost is `some false`.
Both are raised only by a hint of their kind answered `lex` (the other hint overwrites the ghost; a hint answered `scan`
clears both dispatcher flags), lowered by every successful `handle_tag` (it clears both dispatcher flags), untouched by
non-tag lexemes — package scan's `PendLaw` / `EndLaws` shape.
* `kindGuard` — refuses an END-tag lexeme while `PendS` (`.panic startSite`) and a START-tag lexeme while `PendE`
  (`.panic guardSite`); `guardS kindGuard ops = guardS kindGuardS (guardS kindGuardE ops)`.
-/
set_option linter.unusedVariables false
namespace LolHtml.Model.Hint
open LolHtml LolHtml.Model LolHtml.Model.RelI

variable {γ : Type}

/-- `ctl` with the ghost "kind of the last tag callback" -/
def hintCtl (ctl : Controller γ) : Controller (γ × Option Bool) :=
  { initialFlags := fun g => ctl.initialFlags g.1
    startTag := fun g n ns => (((ctl.startTag g.1 n ns).1, some true), (ctl.startTag g.1 n ns).2)
    auxInfo := fun g i => (((ctl.auxInfo g.1 i).1, g.2), (ctl.auxInfo g.1 i).2)
    endTag := fun g n => (((ctl.endTag g.1 n).1, some false), (ctl.endTag g.1 n).2)
    token := fun g t => (((ctl.token g.1 t).1, g.2), (ctl.token g.1 t).2)
    shouldEmit := fun g => ctl.shouldEmit g.1
    handleEnd := fun g => (((ctl.handleEnd g.1).1, g.2), (ctl.handleEnd g.1).2)
    bailOut := fun g e => (((ctl.bailOut g.1 e).1, g.2), (ctl.bailOut g.1 e).2) }

/-- the world with the ghost -/
def hintWorld (w : World γ) : World (γ × Option Bool) := ⟨w.tbl, w.tags, hintCtl w.ctl⟩

/-- the dispatcher with the ghost dropped -/
def projD (d : Disp (γ × Option Bool)) : Disp γ :=
  { ctl := d.ctl.1, sink := d.sink, rcs := d.rcs, flags := d.flags, emissionEnabled := d.emissionEnabled,
    lastTextType := d.lastTextType, gotFlagsFromHint := d.gotFlagsFromHint, pendingAux := d.pendingAux,
    textPending := d.textPending, textPendingStart := d.textPendingStart, encoding := d.encoding,
    nextEncoding := d.nextEncoding }

/-- a start-tag hint answered `lex` is outstanding -/
def PendS (d : Disp (γ × Option Bool)) : Bool := (d.gotFlagsFromHint && d.ctl.2 == some true) || d.pendingAux

/-- an end-tag hint answered `lex` is outstanding -/
def PendE (d : Disp (γ × Option Bool)) : Bool := d.gotFlagsFromHint && d.ctl.2 == some false

/-- the site of "an end-tag lexeme arrived while a start-tag hint is outstanding" (a `U2` site: the dispatcher raises it,
as an `internal` error, for the `pending_element_aux_info_req` half of this very situation) -/
def startSite : String := "Tag should be a start tag at this point"

def kindGuardS : SGuard (Disp (γ × Option Bool)) :=
  { tag := fun _ lx d => if PendS d && !lx.outline.isStart then some (.panic startSite) else none
    nonTag := fun _ _ _ => none }

def kindGuardE : SGuard (Disp (γ × Option Bool)) :=
  { tag := fun _ lx d => if PendE d && lx.outline.isStart then some (.panic guardSite) else none
    nonTag := fun _ _ _ => none }

/-- **the kind guard**: the tag lexeme that follows a hint answered `lex` is of the hint's kind -/
def kindGuard : SGuard (Disp (γ × Option Bool)) :=
  { tag := fun inp lx d =>
      if PendS d && !lx.outline.isStart then some (.panic startSite)
      else if PendE d && lx.outline.isStart then some (.panic guardSite) else none
    nonTag := fun _ _ _ => none }

theorem guardS_kindGuard (ops : SinkOps (Disp (γ × Option Bool))) :
    guardS kindGuard ops = guardS kindGuardS (guardS kindGuardE ops) := by
  unfold guardS kindGuard kindGuardS kindGuardE
  congr 1
  funext inp lx d
  dsimp only
  by_cases h1 : (PendS d && !lx.outline.isStart) = true
  · simp only [h1, if_true]
  · simp only [h1, if_false, Bool.false_eq_true]

theorem kindGuard_fires {e : Err} (h : (kindGuard (γ := γ)).Fires e) : e = .panic startSite ∨ e = .panic guardSite := by
  rcases h with ⟨inp, lx, k, h⟩ | ⟨inp, lx, k, h⟩
  · simp only [kindGuard] at h
    split at h
    · simp only [Option.some.injEq] at h; exact Or.inl h.symm
    · split at h
      · simp only [Option.some.injEq] at h; exact Or.inr h.symm
      · cases h
  · cases h

end LolHtml.Model.Hint
