/-
Lemmas.SelVM — helper lemmas for Thm/C04_VM.lean.
-/
import LolHtml.Model.SelVM
import LolHtml.Spec.Css

namespace LolHtml.SelVM
open LolHtml LolHtml.Sel

/-! ## one instruction: `try_exec_without_attrs` + `complete_exec_with_attrs` vs `exec` -/

/-- What `exec_without_attrs` followed by the bail-out closure computes for one instruction:
    the tag-name half, and — only when it asks for them — the attribute half. -/
def Instruction.splitEval (i : Instruction) (st : SelectorState) (name : Bytes) (m : AttributeMatcher) :
    Except Panic (Option ExecutionBranch) := do
  match ← i.tryExecWithoutAttrs st name with
  | .branch b => pure (some b)
  | .attributesRequired => pure (i.completeExecWithAttrs m)
  | .fail => pure none

theorem Instruction.splitEval_eq_exec (i : Instruction) (st : SelectorState) (name : Bytes)
    (m : AttributeMatcher) : i.splitEval st name m = i.exec st name m := by
  unfold Instruction.splitEval Instruction.tryExecWithoutAttrs Instruction.exec
    Instruction.completeExecWithAttrs
  cases h : allTagExprs st name i.localNameExprs with
  | error e => rfl
  | ok b =>
    cases b with
    | false => rfl
    | true =>
      cases ha : i.attributeExprs with
      | nil => simp [allAttrExprs, bind, Except.bind, pure, Except.pure]
      | cons a as => simp [bind, Except.bind, pure, Except.pure]

theorem Instruction.exec_of_try_branch {i : Instruction} {st name b} (m : AttributeMatcher)
    (h : i.tryExecWithoutAttrs st name = .ok (.branch b)) : i.exec st name m = .ok (some b) := by
  rw [← Instruction.splitEval_eq_exec]; unfold Instruction.splitEval; rw [h]; rfl

theorem Instruction.exec_of_try_attrs {i : Instruction} {st name} (m : AttributeMatcher)
    (h : i.tryExecWithoutAttrs st name = .ok .attributesRequired) :
    i.exec st name m = .ok (i.completeExecWithAttrs m) := by
  rw [← Instruction.splitEval_eq_exec]; unfold Instruction.splitEval; rw [h]; rfl

theorem Instruction.exec_of_try_fail {i : Instruction} {st name} (m : AttributeMatcher)
    (h : i.tryExecWithoutAttrs st name = .ok .fail) : i.exec st name m = .ok none := by
  rw [← Instruction.splitEval_eq_exec]; unfold Instruction.splitEval; rw [h]; rfl

theorem Instruction.exec_of_try_error {i : Instruction} {st name e} (m : AttributeMatcher)
    (h : i.tryExecWithoutAttrs st name = .error e) : i.exec st name m = .error e := by
  rw [← Instruction.splitEval_eq_exec]; unfold Instruction.splitEval; rw [h]; rfl

/-! ## `ExecutionCtx` fields that matching never touches -/

@[simp] theorem ExecutionCtx.addExecutionBranch_localName (ctx : ExecutionCtx) (b : ExecutionBranch) :
    (ctx.addExecutionBranch b).stackItem.localName = ctx.stackItem.localName := by
  unfold ExecutionCtx.addExecutionBranch
  cases ctx.withContent <;> cases b.jumps <;> cases b.hereditaryJumps <;> rfl

@[simp] theorem ExecutionCtx.addExecutionBranch_ns (ctx : ExecutionCtx) (b : ExecutionBranch) :
    (ctx.addExecutionBranch b).ns = ctx.ns := rfl

@[simp] theorem ExecutionCtx.addExecutionBranch_withContent (ctx : ExecutionCtx) (b : ExecutionBranch) :
    (ctx.addExecutionBranch b).withContent = ctx.withContent := rfl

@[simp] theorem ExecutionCtx.addExecutionBranch_childCounter (ctx : ExecutionCtx) (b : ExecutionBranch) :
    (ctx.addExecutionBranch b).stackItem.childCounter = ctx.stackItem.childCounter := by
  unfold ExecutionCtx.addExecutionBranch
  cases ctx.withContent <;> cases b.jumps <;> cases b.hereditaryJumps <;> rfl

@[simp] theorem ExecutionCtx.addOpt_childCounter (ctx : ExecutionCtx) (b : Option ExecutionBranch) :
    (ctx.addOpt b).stackItem.childCounter = ctx.stackItem.childCounter := by
  cases b <;> simp [ExecutionCtx.addOpt]

@[simp] theorem ExecutionCtx.addOpt_localName (ctx : ExecutionCtx) (b : Option ExecutionBranch) :
    (ctx.addOpt b).stackItem.localName = ctx.stackItem.localName := by
  cases b <;> simp [ExecutionCtx.addOpt]

@[simp] theorem ExecutionCtx.addOpt_ns (ctx : ExecutionCtx) (b : Option ExecutionBranch) :
    (ctx.addOpt b).ns = ctx.ns := by
  cases b <;> simp [ExecutionCtx.addOpt]

@[simp] theorem ExecutionCtx.addOpt_withContent (ctx : ExecutionCtx) (b : Option ExecutionBranch) :
    (ctx.addOpt b).withContent = ctx.withContent := by
  cases b <;> simp [ExecutionCtx.addOpt]

/-- the read-only fields -/
def ExecutionCtx.SameFrame (a b : ExecutionCtx) : Prop :=
  a.stackItem.localName = b.stackItem.localName ∧ a.ns = b.ns ∧ a.withContent = b.withContent ∧
    a.stackItem.childCounter = b.stackItem.childCounter

theorem ExecutionCtx.SameFrame.rfl' (a : ExecutionCtx) : a.SameFrame a := ⟨rfl, rfl, rfl, rfl⟩

theorem ExecutionCtx.SameFrame.trans {a b c : ExecutionCtx} (h₁ : a.SameFrame b) (h₂ : b.SameFrame c) :
    a.SameFrame c :=
  ⟨h₁.1.trans h₂.1, h₁.2.1.trans h₂.2.1, h₁.2.2.1.trans h₂.2.2.1, h₁.2.2.2.trans h₂.2.2.2⟩

theorem ExecutionCtx.sameFrame_addOpt (ctx : ExecutionCtx) (b : Option ExecutionBranch) :
    (ctx.addOpt b).SameFrame ctx := ⟨by simp, by simp, by simp, by simp⟩

theorem ExecutionCtx.sameFrame_add (ctx : ExecutionCtx) (b : ExecutionBranch) :
    (ctx.addExecutionBranch b).SameFrame ctx := ⟨by simp, by simp, by simp, by simp⟩

/-! ## bail-out and recovery vs. running everything with attributes -/

theorem Vm.execAddrs_sameFrame (vm : Vm) (st m) : ∀ (addrs : List Nat) (ctx ctx' : ExecutionCtx),
    vm.execAddrs st m addrs ctx = .ok ctx' → ctx'.SameFrame ctx := by
  intro addrs
  induction addrs with
  | nil => intro ctx ctx' h; simp [Vm.execAddrs, pure, Except.pure] at h; subst h; exact .rfl' _
  | cons a rest ih =>
    intro ctx ctx' h
    simp only [Vm.execAddrs, bind, Except.bind] at h
    split at h
    · cases h
    · split at h
      · cases h
      · exact (ih _ _ h).trans (ExecutionCtx.sameFrame_addOpt _ _)

theorem Vm.tryExecAddrs_sameFrame (vm : Vm) (st) : ∀ (addrs : List Nat) (k) (ctx ctx' : ExecutionCtx) (b),
    vm.tryExecAddrs st addrs k ctx = .ok (ctx', b) → ctx'.SameFrame ctx := by
  intro addrs
  induction addrs with
  | nil => intro k ctx ctx' b h; simp [Vm.tryExecAddrs, pure, Except.pure] at h; rw [← h.1]; exact .rfl' _
  | cons a rest ih =>
    intro k ctx ctx' b h
    simp only [Vm.tryExecAddrs, bind, Except.bind] at h
    split at h
    · cases h
    · split at h
      · cases h
      · split at h
        · exact (ih _ _ _ _ h).trans (ExecutionCtx.sameFrame_add _ _)
        · simp [pure, Except.pure] at h; rw [← h.1]; exact .rfl' _
        · exact ih _ _ _ _ h

/-- Bail-out inside one address list: the with-attributes run of the whole list equals completing the
    instruction at the bail-out address and running the rest from the recovery offset. -/
theorem Vm.execAddrs_of_try (vm : Vm) (st) (m : AttributeMatcher) :
    ∀ (addrs : List Nat) (k : Nat) (ctx : ExecutionCtx),
    match vm.tryExecAddrs st addrs k ctx with
    | .error e => vm.execAddrs st m addrs ctx = .error e
    | .ok (ctx', none) => vm.execAddrs st m addrs ctx = .ok ctx'
    | .ok (ctx', some b) => ∃ j, b.recoveryPoint = k + j ∧
        vm.execAddrs st m addrs ctx =
          (do let i ← vm.fetch b.atAddr
              vm.execAddrs st m (addrs.drop j) (ctx'.addOpt (i.completeExecWithAttrs m))) := by
  intro addrs
  induction addrs with
  | nil => intro k ctx; simp [Vm.tryExecAddrs, Vm.execAddrs, pure, Except.pure]
  | cons a rest ih =>
    intro k ctx
    simp only [Vm.tryExecAddrs, Vm.execAddrs, bind, Except.bind]
    cases hf : vm.fetch a with
    | error e => simp
    | ok instr =>
      simp only []
      cases ht : instr.tryExecWithoutAttrs st ctx.stackItem.localName with
      | error e => simp [Instruction.exec_of_try_error m ht]
      | ok r =>
        cases r with
        | branch b =>
          simp only [Instruction.exec_of_try_branch m ht]
          have := ih (k + 1) (ctx.addExecutionBranch b)
          revert this
          cases vm.tryExecAddrs st rest (k + 1) (ctx.addExecutionBranch b) with
          | error e => simp [ExecutionCtx.addOpt]
          | ok p =>
            obtain ⟨ctx', ob⟩ := p
            cases ob with
            | none => simp [ExecutionCtx.addOpt]
            | some bo =>
              simp only [ExecutionCtx.addOpt]
              rintro ⟨j, hj, he⟩
              exact ⟨j + 1, by omega, by simpa [bind, Except.bind] using he⟩
        | attributesRequired =>
          simp only [Instruction.exec_of_try_attrs m ht, pure, Except.pure]
          exact ⟨1, rfl, by simp [hf]⟩
        | fail =>
          simp only [Instruction.exec_of_try_fail m ht]
          have := ih (k + 1) ctx
          revert this
          cases vm.tryExecAddrs st rest (k + 1) ctx with
          | error e => simp [ExecutionCtx.addOpt]
          | ok p =>
            obtain ⟨ctx', ob⟩ := p
            cases ob with
            | none => simp [ExecutionCtx.addOpt]
            | some bo =>
              simp only [ExecutionCtx.addOpt]
              rintro ⟨j, hj, he⟩
              exact ⟨j + 1, by omega, by simpa [bind, Except.bind] using he⟩

theorem AddressRange.addrsFrom_eq_drop (r : AddressRange) (j : Nat) : r.addrsFrom j = r.addrs.drop j := by
  simp [AddressRange.addrsFrom, AddressRange.addrs, List.drop_range']
  omega

theorem Vm.execSetsFromPtr_zero (vm : Vm) (m) (sets : List AddressRange) (ctx : ExecutionCtx) :
    vm.execSetsFromPtr m sets ctx {} = vm.execSetsWithAttrs m sets ctx := by
  cases sets with
  | nil => rfl
  | cons r rest => simp [Vm.execSetsFromPtr, Vm.execSetsWithAttrs]

theorem Vm.execSets_of_try (vm : Vm) (m : AttributeMatcher) :
    ∀ (sets : List AddressRange) (i : Nat) (ctx : ExecutionCtx),
    match vm.tryExecSets sets i ctx with
    | .error e => vm.execSetsWithAttrs m sets ctx = .error e
    | .ok (ctx', none) => vm.execSetsWithAttrs m sets ctx = .ok ctx'
    | .ok (ctx', some b) => ∃ j, b.recoveryPoint.instrSetIdx = i + j ∧
        vm.execSetsWithAttrs m sets ctx =
          (do let inst ← vm.fetch b.atAddr
              vm.execSetsFromPtr m sets (ctx'.addOpt (inst.completeExecWithAttrs m))
                ⟨j, b.recoveryPoint.offset⟩) := by
  intro sets
  induction sets with
  | nil => intro i ctx; simp [Vm.tryExecSets, Vm.execSetsWithAttrs, pure, Except.pure]
  | cons r rest ih =>
    intro i ctx
    have h1 := Vm.execAddrs_of_try vm (vm.stack.buildState ctx.stackItem.localName) m r.addrs 0 ctx
    have hsf := Vm.tryExecAddrs_sameFrame vm (vm.stack.buildState ctx.stackItem.localName) r.addrs 0 ctx
    simp only [Vm.tryExecSets, Vm.execSetsWithAttrs, Vm.tryExecInstrSetWithoutAttrs,
      Vm.execInstrSetWithAttrs, bind, Except.bind]
    revert h1 hsf
    cases vm.tryExecAddrs (vm.stack.buildState ctx.stackItem.localName) r.addrs 0 ctx with
    | error e =>
      intro h1 _
      simp only [] at h1
      simp [AddressRange.addrsFrom_eq_drop, h1]
    | ok p =>
      obtain ⟨ctx1, ob⟩ := p
      intro h1 hsf
      have hname : ctx1.stackItem.localName = ctx.stackItem.localName := (hsf ctx1 ob rfl).1
      cases ob with
      | none =>
        simp only [] at h1
        simp only [AddressRange.addrsFrom_eq_drop, List.drop_zero, h1]
        have := ih (i + 1) ctx1
        revert this
        cases vm.tryExecSets rest (i + 1) ctx1 with
        | error e => simp
        | ok q =>
          obtain ⟨ctx2, ob2⟩ := q
          cases ob2 with
          | none => simp
          | some b2 =>
            simp only []
            rintro ⟨j, hj, he⟩
            refine ⟨j + 1, by omega, ?_⟩
            rw [he]
            simp [Vm.execSetsFromPtr, bind, Except.bind]
      | some b0 =>
        simp only [] at h1
        obtain ⟨j0, hj0, he⟩ := h1
        simp only [pure, Except.pure]
        refine ⟨0, rfl, ?_⟩
        simp only [AddressRange.addrsFrom_eq_drop, List.drop_zero, he, bind, Except.bind]
        cases vm.fetch b0.atAddr with
        | error e => rfl
        | ok inst =>
          simp only [Vm.execSetsFromPtr, List.getElem?_cons_zero, Vm.execInstrSetWithAttrs,
            AddressRange.addrsFrom_eq_drop, bind, Except.bind, ExecutionCtx.addOpt_localName, hname]
          have : b0.recoveryPoint = j0 := by omega
          simp [this]

theorem Vm.tryExecSets_sameFrame (vm : Vm) : ∀ (sets : List AddressRange) (i) (ctx ctx' : ExecutionCtx) (b),
    vm.tryExecSets sets i ctx = .ok (ctx', b) → ctx'.SameFrame ctx := by
  intro sets
  induction sets with
  | nil => intro i ctx ctx' b h; simp [Vm.tryExecSets, pure, Except.pure] at h; rw [← h.1]; exact .rfl' _
  | cons r rest ih =>
    intro i ctx ctx' b h
    simp only [Vm.tryExecSets, Vm.tryExecInstrSetWithoutAttrs, bind, Except.bind] at h
    have hsf := Vm.tryExecAddrs_sameFrame vm (vm.stack.buildState ctx.stackItem.localName) r.addrs 0 ctx
    revert h hsf
    cases vm.tryExecAddrs (vm.stack.buildState ctx.stackItem.localName) r.addrs 0 ctx with
    | error e => intro h; cases h
    | ok p =>
      obtain ⟨ctx1, ob⟩ := p
      cases ob with
      | none => intro h hsf; exact (ih _ _ _ _ h).trans (hsf _ _ rfl)
      | some b0 =>
        intro h hsf
        simp [pure, Except.pure] at h
        rw [← h.1]; exact hsf _ _ rfl

/-- "run everything with attributes": entry points, the parent's jumps, the active hereditary jumps
    (the body of `exec_after_immediate_aux_info_request`, mod.rs:205-213). -/
def Vm.execAllWithAttrs (vm : Vm) (m : AttributeMatcher) (ctx : ExecutionCtx) : Except Panic ExecutionCtx := do
  let ctx ← vm.execInstrSetWithAttrs vm.program.entryPoints m ctx 0
  let ctx ← vm.execJumpsWithAttrs m ctx {}
  vm.execHereditaryJumpsWithAttrs m ctx {}

/-- answer an outcome of `exec_for_start_tag` with the aux info, as the dispatcher does -/
def StartTagOutcome.resume (aux : AuxStartTagInfo) : StartTagOutcome → Except Panic (Vm × List MatchInfo)
  | .done vm ms => pure (vm, ms)
  | .infoRequest vm req => req.resume vm aux

theorem Vm.execWithoutAttrs_resume (vm : Vm) (ctx : ExecutionCtx) (aux : AuxStartTagInfo) :
    (vm.execWithoutAttrs ctx >>= StartTagOutcome.resume aux) =
      (do let ctx' ← vm.execAllWithAttrs ⟨aux.attrs, ctx.ns == .html⟩ ctx
          pure (vm.finish ctx')) := by
  have h1 := Vm.execAddrs_of_try vm (vm.stack.buildState ctx.stackItem.localName)
    ⟨aux.attrs, ctx.ns == .html⟩ vm.program.entryPoints.addrs 0 ctx
  have hsf1 := Vm.tryExecAddrs_sameFrame vm (vm.stack.buildState ctx.stackItem.localName)
    vm.program.entryPoints.addrs 0 ctx
  simp only [Vm.execWithoutAttrs, Vm.execAllWithAttrs, Vm.tryExecInstrSetWithoutAttrs,
    Vm.execInstrSetWithAttrs, AddressRange.addrsFrom_eq_drop, List.drop_zero, bind, Except.bind]
  revert h1 hsf1
  cases vm.tryExecAddrs (vm.stack.buildState ctx.stackItem.localName) vm.program.entryPoints.addrs 0 ctx with
  | error e => intro h1 _; simp only [] at h1; simp [h1]
  | ok p =>
    obtain ⟨ctx1, ob⟩ := p
    intro h1 hsf1
    have sf1 := hsf1 ctx1 ob rfl
    cases ob with
    | some b0 =>
      simp only [] at h1
      obtain ⟨j0, hj0, he⟩ := h1
      have hrp : b0.recoveryPoint = j0 := by omega
      simp only [he, pure, Except.pure, StartTagOutcome.resume, Pending.resume,
        Vm.completeInstrExecutionWithAttrs, Vm.recoverAfterBailoutInEntryPoints,
        Vm.execInstrSetWithAttrs, AddressRange.addrsFrom_eq_drop, bind, Except.bind, sf1.2.1, hrp]
      cases vm.fetch b0.atAddr with
      | error e => rfl
      | ok inst => simp [sf1.1]
    | none =>
      simp only [] at h1
      simp only [h1]
      -- jumps
      have h2 := Vm.execSets_of_try vm ⟨aux.attrs, ctx.ns == .html⟩ vm.parentJumps 0 ctx1
      have hsf2 := Vm.tryExecSets_sameFrame vm vm.parentJumps 0 ctx1
      simp only [Vm.tryExecJumpsWithoutAttrs, Vm.execJumpsWithAttrs, Vm.execSetsFromPtr_zero]
      revert h2 hsf2
      cases vm.tryExecSets vm.parentJumps 0 ctx1 with
      | error e => intro h2 _; simp only [] at h2; simp [h2]
      | ok p2 =>
        obtain ⟨ctx2, ob2⟩ := p2
        intro h2 hsf2
        have sf2 := (hsf2 ctx2 ob2 rfl).trans sf1
        cases ob2 with
        | some b1 =>
          simp only [] at h2
          obtain ⟨j1, hj1, he⟩ := h2
          have hrp : b1.recoveryPoint = ⟨j1, b1.recoveryPoint.offset⟩ := by
            cases hb : b1.recoveryPoint; simp [hb] at hj1 ⊢; omega
          simp only [he, pure, Except.pure, StartTagOutcome.resume, Pending.resume,
            Vm.completeInstrExecutionWithAttrs, Vm.recoverAfterBailoutInJumps, Vm.execJumpsWithAttrs,
            bind, Except.bind, sf2.2.1]
          rw [hrp]
          cases vm.fetch b1.atAddr with
          | error e => rfl
          | ok inst => rfl
        | none =>
          simp only [] at h2
          simp only [h2]
          have h3 := Vm.execSets_of_try vm ⟨aux.attrs, ctx.ns == .html⟩ vm.activeRanges 0 ctx2
          have hsf3 := Vm.tryExecSets_sameFrame vm vm.activeRanges 0 ctx2
          simp only [Vm.tryExecHereditaryJumpsWithoutAttrs, Vm.execHereditaryJumpsWithAttrs,
            Vm.execSetsFromPtr_zero]
          revert h3 hsf3
          cases vm.tryExecSets vm.activeRanges 0 ctx2 with
          | error e => intro h3 _; simp only [] at h3; simp [h3]
          | ok p3 =>
            obtain ⟨ctx3, ob3⟩ := p3
            intro h3 hsf3
            have sf3 := (hsf3 ctx3 ob3 rfl).trans sf2
            cases ob3 with
            | some b2 =>
              simp only [] at h3
              obtain ⟨j2, hj2, he⟩ := h3
              have hrp : b2.recoveryPoint = ⟨j2, b2.recoveryPoint.offset⟩ := by
                cases hb : b2.recoveryPoint; simp [hb] at hj2 ⊢; omega
              simp only [he, pure, Except.pure, StartTagOutcome.resume, Pending.resume,
                Vm.completeInstrExecutionWithAttrs, Vm.recoverAfterBailoutInHereditaryJumps,
                Vm.execHereditaryJumpsWithAttrs, bind, Except.bind, sf3.2.1]
              rw [hrp]
              cases vm.fetch b2.atAddr with
              | error e => rfl
              | ok inst => rfl
            | none =>
              simp only [] at h3
              simp [h3, pure, Except.pure, StartTagOutcome.resume]
/-! ## `handle_start_tag` as one with-attributes pass -/

theorem Vm.execInstrSetWithAttrs_sameFrame (vm : Vm) (r m) (ctx ctx' : ExecutionCtx) (off)
    (h : vm.execInstrSetWithAttrs r m ctx off = .ok ctx') : ctx'.SameFrame ctx :=
  Vm.execAddrs_sameFrame vm _ m _ ctx ctx' h

theorem Vm.execSetsWithAttrs_sameFrame (vm : Vm) (m) : ∀ (sets : List AddressRange) (ctx ctx' : ExecutionCtx),
    vm.execSetsWithAttrs m sets ctx = .ok ctx' → ctx'.SameFrame ctx := by
  intro sets
  induction sets with
  | nil => intro ctx ctx' h; simp [Vm.execSetsWithAttrs, pure, Except.pure] at h; subst h; exact .rfl' _
  | cons r rest ih =>
    intro ctx ctx' h
    simp only [Vm.execSetsWithAttrs, bind, Except.bind] at h
    split at h
    · cases h
    · rename_i c hc
      exact (ih _ _ h).trans (Vm.execInstrSetWithAttrs_sameFrame vm r m ctx c 0 hc)

theorem Vm.execSetsFromPtr_sameFrame (vm : Vm) (m) (sets : List AddressRange) (ctx ctx' : ExecutionCtx) (ptr)
    (h : vm.execSetsFromPtr m sets ctx ptr = .ok ctx') : ctx'.SameFrame ctx := by
  unfold Vm.execSetsFromPtr at h
  split at h
  · simp only [bind, Except.bind] at h
    split at h
    · cases h
    · rename_i c hc
      exact (Vm.execSetsWithAttrs_sameFrame vm m _ _ _ h).trans
        (Vm.execInstrSetWithAttrs_sameFrame vm _ m ctx c _ hc)
  · simp [pure, Except.pure] at h; subst h; exact .rfl' _

theorem Vm.execAllWithAttrs_sameFrame (vm : Vm) (m) (ctx ctx' : ExecutionCtx)
    (h : vm.execAllWithAttrs m ctx = .ok ctx') : ctx'.SameFrame ctx := by
  simp only [Vm.execAllWithAttrs, bind, Except.bind] at h
  split at h
  · cases h
  · rename_i c1 h1
    split at h
    · cases h
    · rename_i c2 h2
      exact ((Vm.execSetsFromPtr_sameFrame vm m _ _ _ _ h).trans
        (Vm.execSetsFromPtr_sameFrame vm m _ _ _ _ h2)).trans
        (Vm.execInstrSetWithAttrs_sameFrame vm _ m ctx c1 0 h1)

/-- the `ExecutionCtx` a start tag begins with; `with_content` is decided by the stack directive
    (and, in foreign content, by the self-closing flag) -/
def startCtx (t : StartTag) (enableEsiTags : Bool) : ExecutionCtx :=
  { stackItem := { localName := t.name }, withContent := Spec.Css.staysOpen t enableEsiTags, ns := t.ns }

theorem Vm.handleStartTag_eq_bind (vm : Vm) (t : StartTag) :
    vm.handleStartTag t = (vm.execForStartTag t.name t.ns >>= StartTagOutcome.resume ⟨t.attrs, t.selfClosing⟩) := by
  unfold Vm.handleStartTag
  congr

/-- Whatever path is taken (no request, immediate request, one of the three bail-outs), handling a
    start tag is: count the child, run every reachable instruction with the attributes, report, push. -/
theorem Vm.handleStartTag_eq (vm : Vm) (t : StartTag) :
    vm.handleStartTag t =
      (do let vm1 := { vm with stack := vm.stack.addChild t.name }
          let ctx' ← vm1.execAllWithAttrs ⟨t.attrs, t.ns == .html⟩ (startCtx t vm.enableEsiTags)
          pure (vm1.finish ctx')) := by
  rw [Vm.handleStartTag_eq_bind]
  unfold Vm.execForStartTag getStackDirective
  by_cases hns : t.ns = .html
  · simp only [hns, beq_self_eq_true, if_true]
    by_cases hv : isVoidElement t.name vm.enableEsiTags = true
    · simp only [hv, if_true]
      rw [Vm.execWithoutAttrs_resume]
      simp [startCtx, Spec.Css.staysOpen, hns, hv]
    · have hv' : isVoidElement t.name vm.enableEsiTags = false := by simpa using hv
      simp only [hv', Bool.false_eq_true, if_false]
      rw [Vm.execWithoutAttrs_resume]
      simp [startCtx, Spec.Css.staysOpen, hns, hv']
  · have : (t.ns == Ns.html) = false := by simp [hns]
    simp only [this]
    simp [bind, Except.bind, pure, Except.pure, StartTagOutcome.resume, Pending.resume,
      Vm.execAfterImmediateAuxInfoRequest, Vm.execAllWithAttrs, startCtx, Spec.Css.staysOpen, this]
    split
    · rfl
    · split
      · rfl
      · split <;> rfl
end LolHtml.SelVM
