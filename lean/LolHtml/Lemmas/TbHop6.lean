import LolHtml.Lemmas.TbHop5
/-!
Preservation of the invariant: "in column group" and the modes before / after the body.
-/
namespace LolHtml.Spec.TreeBuilder
open LolHtml.Model (Ns)

variable {b : Bool} {c : Cfg} {s : State}

theorem InvCol.currentIs (hC : InvCol b s) : s.currentIs .colgroup = true := by
  obtain ⟨e, rest, hst, he, -⟩ := hC.top
  simp [State.currentIs, Tree.currentIs, hst, he]

theorem InvCol.noTemplate (hC : InvCol b s) : s.hasOnStack .template = false := by
  obtain ⟨e, rest, hst, he, hr⟩ := hC.top
  simp only [State.hasOnStack, Tree.hasOnStack, hst, List.any_cons, Bool.or_eq_false_iff]
  constructor
  · simp only [El.isHtml, Bool.and_eq_true, beq_iff_eq] at he
    simp [El.isHtml, he.2]
  · rw [List.any_eq_false]
    intro x hx
    have := (hr.stack x hx).2.1
    simp [El.isHtml, this]

/-- leaving "in column group": pop the `colgroup`, switch to "in table" -/
theorem InvCol.leave (hC : InvCol b s) : Inv b { s.pop with mode := .inTable } := by
  obtain ⟨e, rest, hst, he, hr⟩ := hC.top
  refine ⟨⟨fun x hx => ?_, hr.afe⟩, hC.tmodes, hC.head, by simp [MF, framesetModes], by simp⟩
  have : x ∈ rest := by simpa [Tree.pop, hst] using hx
  exact hr.stack x this

theorem inColumnGroup_inv (hC : InvCol b s) (t : Token) (htok : TokOk b t) : InvPost b (inColumnGroup c s t) := by
  have hcur := hC.currentIs
  have hnt := hC.noTemplate
  have hae : InvPost b (if !s.currentIs .colgroup then Res.ignore s else Res.again { s.pop with mode := .inTable }) := by
    simp only [hcur, Bool.not_true, Bool.false_eq_true, if_false]
    exact ⟨Or.inl hC.leave, rfl⟩
  cases t with
  | char cc => cases cc <;> first | exact Or.inr hC | exact hae
  | comment => exact Or.inr hC
  | doctype d => exact Or.inr hC
  | eof =>
    simp only [inColumnGroup, inBody, hC.tmodes]
    exact Or.inr hC
  | start n sc a =>
    by_cases h1 : n = .html
    · subst h1; exact Or.inr hC
    by_cases h2 : n = .col
    · subst h2
      eval_rule [inColumnGroup]
      obtain ⟨e, rest, hst, he, hr⟩ := hC.top
      exact Or.inr ⟨hC.mode, ⟨e, rest, hst, he, ⟨hr.stack, hr.afe⟩⟩, hC.tmodes, hC.head⟩
    by_cases h3 : n = .template
    · exact (htok.2.2.1 h3).elim
    · simp only [inColumnGroup, beq_iff_eq, h1, h2, h3, if_false]
      exact hae
  | «end» n =>
    by_cases h1 : n = .colgroup
    · subst h1
      eval_rule [inColumnGroup]
      simp only [hcur, Bool.not_true, Bool.false_eq_true, if_false]
      exact Or.inl hC.leave
    by_cases h2 : n = .col
    · subst h2; exact Or.inr hC
    by_cases h3 : n = .template
    · subst h3
      eval_rule [inColumnGroup, inHead]
      simp only [hnt, Bool.not_false, if_true]
      exact Or.inr hC
    · simp only [inColumnGroup, beq_iff_eq, h1, h2, h3, if_false]
      exact hae

end LolHtml.Spec.TreeBuilder
