import LolHtml.Lemmas.TbHop2
/-!
Preservation of the invariant: "in body" end tags and other tokens, "text".
-/
namespace LolHtml.Spec.TreeBuilder
open LolHtml.Model (Ns)

variable {b : Bool} {c : Cfg} {s : State}

set_option maxHeartbeats 8000000 in
theorem inBodyEnd_inv (hleg : c.legacySelect = false) (hI : Inv b s) (h1 : s.mode ≠ .text) (h2 : s.mode ≠ .inTableText)
    (n : Name) : InvPost b (inBodyEnd c s n) := by
  by_cases ht : n = .template
  · subst ht
    have := inHead_inv (c := c) hI h1 h2 (.end .template) trivial (Or.inr rfl)
    simpa [inBodyEnd] using this
  · cases n <;> (try (exfalso; exact ht rfl))
    all_goals eval_rule [inBodyEnd, hleg]
    all_goals (repeat' split)
    all_goals hop_branch hI h1 h2

theorem inBodyChar_inv (hI : Inv b s) (cc : CharClass) : Inv b (inBodyChar s cc) := by
  cases cc <;> simp only [inBodyChar]
  · exact hI
  · inv_core hI
  · inv_core hI

theorem inTemplateEof_inv (hI : Inv b s) : InvPost b (inTemplateEof c s) := by
  simp only [inTemplateEof, State.hasOnStack, hasOnStack_template_false hI.tree]
  exact Or.inl hI

theorem inBody_inv (hleg : c.legacySelect = false) (hI : Inv b s) (h1 : s.mode ≠ .text) (h2 : s.mode ≠ .inTableText)
    (t : Token) (htok : TokOk b t) : InvPost b (inBody c s t) := by
  cases t with
  | start n sc a => exact inBodyStart_inv hleg hI h1 h2 n sc a htok
  | «end» n => exact inBodyEnd_inv hleg hI h1 h2 n
  | char cc => exact Or.inl (inBodyChar_inv hI cc)
  | comment => exact Or.inl hI
  | doctype d => exact Or.inl hI
  | eof =>
    simp only [inBody, hI.tmodes]
    exact Or.inl hI

theorem inBody_other_inv (hleg : c.legacySelect = false) (hI : Inv b s) (h1 : s.mode ≠ .text) (h2 : s.mode ≠ .inTableText)
    (t : Token) (ht : ∀ n sc a, t ≠ .start n sc a) : InvPost b (inBody c s t) := by
  apply inBody_inv hleg hI h1 h2
  cases t with
  | start n sc a => exact (ht n sc a rfl).elim
  | _ => trivial

theorem inHead_endTemplate_inv (hI : Inv b s) (h1 : s.mode ≠ .text) (h2 : s.mode ≠ .inTableText) :
    InvPost b (inHead c s (.end .template)) := inHead_inv hI h1 h2 _ trivial (Or.inr rfl)

end LolHtml.Spec.TreeBuilder
