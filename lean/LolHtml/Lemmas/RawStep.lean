import LolHtml.Lemmas.RawAct
import LolHtml.Lemmas.TokStep
/-!
# Attribute raw ranges: the certificate is an invariant of the interpreter

The structure of `Lemmas/TokStep.lean`, for the raw-range analysis of `Lemmas/RawDefs.lean`: `RawB t cert m`
between two state functions; one state-function invocation of a table whose certificate passes `checkRaw`
preserves it and signals no error at `rawSite`.
-/
set_option linter.unusedSimpArgs false
set_option linter.unusedVariables false
namespace LolHtml.Model

variable {κ : Type}

/-! ### reading the checker -/


theorem rcert_arms {t : Table} {c : RCert} (h : checkRaw t c = true) {i : StateId} {sd : StateDef}
    (hs : t.state? i = some sd) {a : RV} (ha : a ∈ c.at i) :
    ∃ succs, rawArmsSucc t i a sd.arms = some succs ∧ ∀ x ∈ succs, rsuccCovered t c x = true := by
  unfold checkRaw at h
  simp only [Bool.and_eq_true] at h
  have h2 := Table.allStates_spec h.2 hs
  simp only [List.all_eq_true] at h2
  have h3 := h2 a ha
  split at h3
  · cases h3
  · rename_i succs hsucc
    simp only [List.all_eq_true] at h3
    exact ⟨succs, hsucc, h3⟩

theorem rcert_text {t : Table} {c : RCert} (h : checkRaw t c = true) (tt : TextType) :
    rtextCovered t c (t.textState tt) = true := by
  unfold checkRaw at h
  simp only [Bool.and_eq_true] at h
  obtain ⟨⟨⟨⟨⟨⟨⟨_, h1⟩, h2⟩, h3⟩, h4⟩, h5⟩, h6⟩, _⟩ := h
  cases tt <;> simp only [Table.textState] <;> assumption

theorem rawArmsSucc_mem {t : Table} {i : StateId} {a : RV} {arms : List Arm} {succs : List RSucc}
    (h : rawArmsSucc t i a arms = some succs) {arm : Arm} (harm : arm ∈ arms) :
    ∃ l1, rawBodySucc t i arm.pat.hasByte (arm.pat == .eof) arm.body a = some l1 ∧ ∀ x ∈ l1, x ∈ succs := by
  induction arms generalizing succs with
  | nil => cases harm
  | cons x rest ih =>
    simp only [rawArmsSucc] at h
    split at h
    · rename_i l1 l2 h1 h2
      simp only [Option.some.injEq] at h
      subst h
      simp only [List.mem_cons] at harm
      rcases harm with rfl | harm
      · exact ⟨l1, h1, fun y hy => List.mem_append_left _ hy⟩
      · obtain ⟨l, e1, e2⟩ := ih h2 harm
        exact ⟨l, e1, fun y hy => List.mem_append_right _ (e2 y hy)⟩
    · cases h

theorem rawStep_flag {hb : Bool} {act : ActName} {f f' : Bool} {a a' : RV}
    (h : rawStep hb act (f, a) = some (f', a')) : flagStep hb act f = some f' := by
  unfold rawStep at h
  dsimp only at h
  split at h
  · rename_i f1 v1 hf _
    simp only [Option.some.injEq, Prod.mk.injEq] at h
    rw [hf, h.1]
  · cases h

theorem rawCalls_flag {hb : Bool} (cs : List Call) {f f' : Bool} {a a' : RV}
    (h : rawCalls hb cs (f, a) = some (f', a')) : flagCalls hb cs f = some f' := by
  induction cs generalizing f a with
  | nil => simp only [rawCalls, Option.some.injEq, Prod.mk.injEq] at h; simp only [flagCalls, h.1]
  | cons c cs ih =>
    simp only [rawCalls] at h
    split at h
    · cases h
    · rename_i fa' hstep
      obtain ⟨f1, a1⟩ := fa'
      simp only [flagCalls, rawStep_flag hstep]
      exact ih h

/-! ### the invariant between state functions -/


def RawB (t : Table) (cert : RCert) (m : M κ) : Prop :=
  ∃ a sd, t.state? m.c.state = some sd ∧ RawM a m.c.nextPos m ∧
    (if enterPending sd m.c then rsuccCovered t cert ⟨m.c.state, true, a⟩ = true
     else rcovered (cert.at m.c.state) a = true)

/-- raw-range specification of one state-function invocation -/
def RawStepP (t : Table) (cert : RCert) (r : M κ × Option Signal) : Prop :=
  match r.2 with
  | none => RawB t cert r.1
  | some (.err e) => ErrNot T3 e
  | some (.endOfInput _) => r.1.c.isLast = false → RawB t cert r.1
  | some (.directive _ _) => True

/-- a rcovered transition target establishes `RawB` once the machine has moved there -/
theorem RawB_of_succ {t : Table} {cert : RCert} {m : M κ} {a : RV} (ht : RawM a m.c.nextPos m)
    (hent : m.c.entered = false) (hcov : rsuccCovered t cert ⟨m.c.state, true, a⟩ = true) : RawB t cert m := by
  have hcov' := hcov
  unfold rsuccCovered at hcov
  simp only [if_true] at hcov
  split at hcov
  · cases hcov
  · rename_i sd hsd
    refine ⟨a, sd, hsd, ht, ?_⟩
    split
    · exact hcov'
    · rename_i hp
      simp only [enterPending, hent, Bool.not_false, Bool.and_true, Bool.not_eq_true', Bool.not_eq_false] at hp
      have : sd.enter = [] := by
        cases he : sd.enter with
        | nil => rfl
        | cons x xs => rw [he] at hp; simp at hp
      split at hcov
      · cases hcov
      · rename_i a0 ha0
        simp only [enterRaw, this, rawCalls, Option.map_some, Option.some.injEq] at ha0
        subst ha0
        exact hcov

section
variable {env : Env κ} {inp : Bytes} {W : κ → Nat} {lo : Nat}

/-! ### action lists -/

theorem runCalls_raw (hs : SinkSafe env.ops W inp U1) (hs3 : SinkSafe3 env.ops inp) {hb : Bool} (cs : List Call)
    {f f' : Bool} {a a' : RV} (m : M κ) (hm : MInvA W inp.length lo hb f m) {pos : Nat}
    (hpos : pos = m.c.nextPos - 1) (ht : RawM a pos m) (hc : rawCalls hb cs (f, a) = some (f', a')) :
    ((runCalls env inp cs m).2 = none → RawM a' pos (runCalls env inp cs m).1) ∧
    ∀ e, (runCalls env inp cs m).2 = some (.err e) → ErrNot T3 e := by
  induction cs generalizing m f a with
  | nil =>
    simp only [rawCalls, Option.some.injEq, Prod.mk.injEq] at hc
    obtain ⟨_, rfl⟩ := hc
    simp only [runCalls]
    exact ⟨fun _ => ht, fun e h => by cases h⟩
  | cons cl cs ih =>
    simp only [rawCalls] at hc
    split at hc
    · cases hc
    · rename_i fa' hstep
      obtain ⟨f1, a1⟩ := fa'
      have h1 := act_post hs cl.act m hm (rawStep_flag hstep)
      have t1 := act_raw hs3 cl.act m hm (by rw [← hpos]; exact ht) hstep
      rw [← hpos] at t1
      have ih' := ih (act env cl.act inp m).1 h1.2.1 (by rw [h1.1.1]; exact hpos) t1.1 hc
      simp only [runCalls]
      split
      · rename_i s hsig
        split
        · refine ⟨fun h => (by cases h), fun e h => ?_⟩
          simp only [Option.some.injEq] at h
          subst h
          exact t1.2 e hsig
        · exact ih'
      · exact ih'

/-! ### arm bodies -/

/-- raw-range result of an action list with its transition -/
def SeqRaw (t : Table) (cert : RCert) (hb isEof : Bool) (st : StateId) (pos : Nat)
    (r : M κ × Option Signal × SeqEnd) : Prop :=
  (∀ e, r.2.1 = some (.err e) → ErrNot T3 e) ∧
  (r.2.1 = none → r.2.2 = .transitioned → RawB t cert r.1) ∧
  (r.2.1 = none → r.2.2 = .fell → ∃ a', RawM a' pos r.1 ∧
    (if hb then rcovered (cert.at st) a' = true else (isEof = false → rcovered (cert.at st) a' = true)))

theorem RawM_regs {a : RV} {hi : Nat} {m m' : M κ} (h : RawM a hi m) (hr : m'.r = m.r) :
    RawM a hi m' := by
  unfold RawM at *
  rw [hr]
  exact h

theorem runSeq_raw {cert : RCert} (hs : SinkSafe env.ops W inp U1) (hs3 : SinkSafe3 env.ops inp) {hb isEof : Bool}
    (s : ActSeq) (m : M κ) (hm : MInvA W inp.length lo hb true m) {pos : Nat} (hpos : pos = m.c.nextPos - 1)
    {a : RV} (ht : RawM a pos m) {succs : List RSucc}
    (hsucc : rawSeqSucc env.tbl m.c.state hb isEof s a = some succs)
    (hcov : ∀ x ∈ succs, rsuccCovered env.tbl cert x = true) :
    SeqRaw env.tbl cert hb isEof m.c.state pos (runSeq env inp s m) := by
  unfold rawSeqSucc at hsucc
  split at hsucc
  · cases hsucc
  · rename_i f' a' hcalls
    have rc := runCalls_raw hs hs3 s.calls m hm hpos ht hcalls
    have h1 := runCalls_post hs s.calls m hm (rawCalls_flag s.calls hcalls)
    unfold runSeq
    dsimp only
    split
    · rename_i sig hsig
      refine ⟨fun e h => ?_, fun h => by simp at h, fun h => by simp at h⟩
      have : sig = .err e := by simpa using h
      subst this
      exact rc.2 e hsig
    · rename_i hnone
      have hA := h1.2.1 hnone
      have tk := rc.1 hnone
      obtain ⟨fN, fS, fL⟩ := h1.1
      obtain ⟨a1, a2, a3, a4, a5⟩ := hA
      have hNpos : (runCalls env inp s.calls m).1.c.nextPos = pos + 1 := by rw [fN, hpos]; omega
      split
      · -- no transition
        rename_i htr
        rw [htr] at hsucc
        refine ⟨fun e h => by simp at h, fun _ h => by simp at h, fun _ _ => ⟨a', tk, ?_⟩⟩
        cases hb
        · simp only [Bool.false_eq_true, if_false] at hsucc ⊢
          cases isEof
          · simp only [Bool.false_eq_true, if_false, Option.some.injEq] at hsucc
            subst hsucc
            intro _
            have := hcov ⟨m.c.state, false, a'⟩ (by simp)
            simpa [rsuccCovered] using this
          · intro h; cases h
        · simp only [if_true, Option.some.injEq] at hsucc ⊢
          subst hsucc
          have := hcov ⟨m.c.state, false, a'⟩ (by simp)
          simpa [rsuccCovered] using this
      · rename_i tr htr
        rw [htr] at hsucc
        cases tr with
        | goto x =>
          simp only [Option.some.injEq] at hsucc
          subst hsucc
          simp only [applyTrans]
          refine ⟨fun e h => by simp at h, fun _ _ => ?_, fun _ h => by simp at h⟩
          apply RawB_of_succ (a := a')
          · dsimp only
            rw [hNpos]
            exact RawM_regs (RawR.mono tk (Nat.le_succ _)) rfl
          · rfl
          · exact hcov _ (by simp)
        | gotoDyn =>
          simp only [Option.some.injEq] at hsucc
          subst hsucc
          simp only [applyTrans]
          refine ⟨fun e h => by simp at h, fun _ _ => ?_, fun _ h => by simp at h⟩
          apply RawB_of_succ (a := a')
          · dsimp only
            rw [hNpos]
            exact RawM_regs (RawR.mono tk (Nat.le_succ _)) rfl
          · rfl
          · dsimp only
            cases (runCalls env inp s.calls m).1.c.lastTextType <;> simp only [Table.textState] <;>
              exact hcov _ (by simp)
        | reconsume x =>
          simp only [Option.some.injEq] at hsucc
          subst hsucc
          simp only [applyTrans]
          rw [if_neg (by omega)]
          refine ⟨fun e h => by simp at h, fun _ _ => ?_, fun _ h => by simp at h⟩
          apply RawB_of_succ (a := a')
          · dsimp only
            rw [hNpos, Nat.add_sub_cancel]
            exact RawM_regs tk rfl
          · rfl
          · exact hcov _ (by simp)
theorem runBody_raw {cert : RCert} (hs : SinkSafe env.ops W inp U1) (hs3 : SinkSafe3 env.ops inp) {hb isEof : Bool}
    (b : Body) (m : M κ) (hm : MInvA W inp.length lo hb true m) {pos : Nat} (hpos : pos = m.c.nextPos - 1)
    {a : RV} (ht : RawM a pos m) {succs : List RSucc}
    (hsucc : rawBodySucc env.tbl m.c.state hb isEof b a = some succs)
    (hcov : ∀ x ∈ succs, rsuccCovered env.tbl cert x = true) :
    SeqRaw env.tbl cert hb isEof m.c.state pos (runBody env inp b m) := by
  cases b with
  | seq s => exact runSeq_raw hs hs3 s m hm hpos ht hsucc hcov
  | ite cnd x y =>
    simp only [rawBodySucc] at hsucc
    split at hsucc
    · rename_i l1 l2 h1 h2
      simp only [Option.some.injEq] at hsucc
      subst hsucc
      simp only [runBody]
      split
      · refine ⟨fun e h => ?_, fun h => by simp at h, fun h => by simp at h⟩
        have : e = .panic "debug_assert: End tag should exist at this point" := by simpa using h.symm
        subst this
        exact errNot_T3_panic (by decide)
      · exact runSeq_raw hs hs3 x m hm hpos ht h1 (fun z hz => hcov z (List.mem_append_left _ hz))
      · exact runSeq_raw hs hs3 y m hm hpos ht h2 (fun z hz => hcov z (List.mem_append_right _ hz))
    · cases hsucc

/-! ### re-basing at a break -/

theorem RawA.rebase {ls hi : Nat} {a : AttrOutline} (h : RawA ls hi a) (hl : ls ≤ hi) : RawA 0 (hi - ls) (a.align ls) := by
  obtain ⟨h1, h2, h3, h4⟩ := h
  refine ⟨Nat.zero_le _, ?_, ?_, ?_⟩ <;>
    (simp only [AttrOutline.align, Range.align, alignNat]; (repeat' split) <;> omega)

theorem RawL.rebase {v : RV} {ls hi : Nat} {l : LexRegs} (h : RawL v ls hi l) (hl : ls ≤ hi) :
    RawL v 0 (hi - ls)
      { l with tokenPartStart := alignNat l.tokenPartStart ls, curTag := l.curTag.map (·.align ls),
               curNonTag := l.curNonTag.map (·.align ls), curAttr := l.curAttr.map (·.align ls), lexemeStart := 0 } := by
  obtain ⟨h1, h2, h3⟩ := h
  refine ⟨fun hv a ha => ?_, fun hv n hs ns as sc ht a ha => ?_, fun hv => ?_⟩
  · cases hc : l.curAttr with
    | none => rw [hc] at ha; cases ha
    | some a0 =>
      rw [hc] at ha
      simp only [Option.map_some, Option.some.injEq] at ha
      subst ha
      exact (h1 hv a0 hc).rebase hl
  · cases hc : l.curTag with
    | none => rw [hc] at ht; cases ht
    | some t0 =>
      rw [hc] at ht
      simp only [Option.map_some, Option.some.injEq] at ht
      cases t0 with
      | endTag n0 h0 => simp [TagOutline.align] at ht
      | startTag n0 h0 ns0 as0 sc0 =>
        simp only [TagOutline.align, TagOutline.startTag.injEq] at ht
        obtain ⟨_, _, _, rfl, _⟩ := ht
        simp only [List.mem_map] at ha
        obtain ⟨a0, ha0, rfl⟩ := ha
        exact (h2 hv n0 h0 ns0 as0 sc0 hc a0 ha0).rebase hl
  · have := h3 hv
    dsimp only
    simp only [alignNat]
    split <;> omega

theorem break_raw {t : Table} (m : M κ) (hp : BreakPre t W inp.length m) {a : RV}
    (ht : RawM a (m.c.nextPos - 1) m) :
    (breakOnEndOfInput inp m).1.c.state = m.c.state ∧
    (breakOnEndOfInput inp m).1.c.entered = m.c.entered ∧
    ((breakOnEndOfInput inp m).1.c.isLast = false →
      RawM a (breakOnEndOfInput inp m).1.c.nextPos (breakOnEndOfInput inp m).1) := by
  obtain ⟨b1, b2, sd, hsd, b3⟩ := hp
  cases m with
  | mk c r x =>
  cases r with
  | lexer l =>
    dsimp only at b1 b2 b3 hsd
    simp only [breakOnEndOfInput, consumedByteCount]
    cases hl : c.isLast
    · simp only [Bool.false_eq_true, if_false, adjustForNextInput]
      rw [if_neg (by omega)]
      refine ⟨rfl, rfl, fun _ => ?_⟩
      exact RawL.rebase ht b3.2
    · simp only [if_true]
      rw [if_neg (by omega)]
      exact ⟨rfl, rfl, fun h => by rw [hl] at h; cases h⟩
  | scanner s =>
    have hk := (breakOnEndOfInput_keep (inp := inp) (⟨c, .scanner s, x⟩ : M κ))
    have hst := (breakOnEndOfInput_post (lo := 0) (t := t) (W := W) (⟨c, .scanner s, x⟩ : M κ) ⟨b1, b2, sd, hsd, b3⟩)
    obtain ⟨consumed, _, hsig⟩ := hst
    refine ⟨?_, ?_, fun _ => ?_⟩
    · unfold breakOnEndOfInput
      dsimp only
      (repeat' split) <;> first | rfl | (simp only [adjustForNextInput]; (repeat' split) <;> rfl)
    · unfold breakOnEndOfInput
      dsimp only
      (repeat' split) <;> first | rfl | (simp only [adjustForNextInput]; (repeat' split) <;> rfl)
    · unfold RawM
      cases hr : (breakOnEndOfInput inp (⟨c, .scanner s, x⟩ : M κ)).1.r with
      | lexer l' => have := hk.2; rw [hr] at this; cases this
      | scanner s' => trivial

/-- a break keeps `RawB` when the abstract value is rcovered at the (unchanged) state -/
theorem break_rawstep {t : Table} {cert : RCert} (m : M κ) (hp : BreakPre t W inp.length m) {a : RV}
    (ht : RawM a (m.c.nextPos - 1) m) {sd : StateDef} (hst : t.state? m.c.state = some sd)
    (hent : (sd.enter.isEmpty || m.c.entered) = true)
    (hcov : (breakOnEndOfInput inp m).1.c.isLast = false → rcovered (cert.at m.c.state) a = true) :
    RawStepP t cert (breakOnEndOfInput inp m) := by
  obtain ⟨consumed, h1, _⟩ := breakOnEndOfInput_post (lo := 0) m hp
  obtain ⟨b2, b3, b4⟩ := break_raw m hp ht
  unfold RawStepP
  rw [h1]
  refine fun hl => ⟨a, sd, by rw [b2]; exact hst, b4 hl, ?_⟩
  have : enterPending sd (breakOnEndOfInput inp m).1.c = false := by
    simp only [enterPending, b3]
    cases he : sd.enter.isEmpty <;> simp_all
  rw [this, b2]
  simp only [Bool.false_eq_true, if_false]
  exact hcov hl

/-- an arm that consumed a byte: from `SeqRaw` to `RawStepP` -/
theorem armBody_rawstep {cert : RCert} (hs : SinkSafe env.ops W inp U1) (hw : Wf env.tbl) {isEof : Bool}
    (b : Body) (m : M κ) {sd : StateDef} (hst : env.tbl.state? m.c.state = some sd)
    (hent : (sd.enter.isEmpty || m.c.entered) = true) (hm : MInvA W inp.length lo true true m)
    (hok : ∀ s ∈ b.seqs, seqOK true s = true ∧ s.targetOK env.tbl.states.length = true ∧
      ∀ x, s.trans = some (.reconsume x) → env.tbl.rank x < env.tbl.rank m.c.state)
    (htok : SeqRaw env.tbl cert true isEof m.c.state (m.c.nextPos - 1) (runBody env inp b m)) :
    RawStepP env.tbl cert ((runBody env inp b m).1, (runBody env inp b m).2.1) := by
  obtain ⟨p1, p2, p3⟩ := runBody_post (n0 := 0) hs hw b m hm hok (Nat.zero_le _)
  obtain ⟨q1, q3, q4⟩ := htok
  unfold RawStepP
  (try dsimp only)
  cases hsig : (runBody env inp b m).2.1 with
  | some sig =>
    (try dsimp only)
    cases sig with
    | err e => exact q1 e hsig
    | directive d bm => trivial
    | endOfInput k => exact absurd (p1 _ hsig) (by simp [ActSigOK])
  | none =>
    (try dsimp only)
    cases hend : (runBody env inp b m).2.2 with
    | transitioned => exact q3 hsig hend
    | fell =>
      obtain ⟨a', ta, hc⟩ := q4 hsig hend
      simp only [if_true] at hc
      obtain ⟨hfr, _⟩ := p3 hsig hend
      have hE := runBody_fell_entered b m hsig hend
      obtain ⟨a1, _⟩ := hm
      refine ⟨a', sd, by rw [hfr.2.1]; exact hst, ?_, ?_⟩
      · rw [hfr.1]
        have : m.c.nextPos = m.c.nextPos - 1 + 1 := by omega
        rw [this]
        exact RawR.mono ta (Nat.le_succ _)
      · have : enterPending sd (runBody env inp b m).1.c = false := by
          simp only [enterPending, hE]
          cases he : sd.enter.isEmpty <;> simp_all
        rw [this, hfr.2.1]
        simp only [Bool.false_eq_true, if_false]
        exact hc


theorem rcovered_of_mem {l : List RV} {a : RV} (h : a ∈ l) : rcovered l a = true := by
  unfold rcovered
  rw [List.any_eq_true]
  exact ⟨a, h, RV.le_refl a⟩

theorem rcovered_elim {l : List RV} {a : RV} (h : rcovered l a = true) : ∃ y ∈ l, a.le y = true := by
  unfold rcovered at h
  rw [List.any_eq_true] at h
  exact h

theorem RawM_enterSeq {a : RV} {hi : Nat} (m : M κ) (h : RawM a hi m) : RawM a hi (enterSeq m) := by
  cases m with
  | mk c r x =>
    cases r with
    | lexer l => exact h
    | scanner s => trivial

theorem RawM_leaveSeq {a : RV} {hi : Nat} (m : M κ) (h : RawM a hi m) : RawM a hi (leaveSeq m) := by
  cases m with
  | mk c r x =>
    cases r with
    | lexer l => exact h
    | scanner s => trivial

/-- the certificate's successors of an arm of the current state -/
theorem rcert_body {cert : RCert} (hchk : checkRaw env.tbl cert = true) {st : StateId} {sd : StateDef}
    (hst : env.tbl.state? st = some sd) {a : RV} (ha : a ∈ cert.at st) {arm : Arm} (harm : arm ∈ sd.arms) :
    ∃ l1, rawBodySucc env.tbl st arm.pat.hasByte (arm.pat == .eof) arm.body a = some l1 ∧
      ∀ x ∈ l1, rsuccCovered env.tbl cert x = true := by
  obtain ⟨succs, h1, h2⟩ := rcert_arms hchk hst ha
  obtain ⟨l1, e1, e2⟩ := rawArmsSucc_mem h1 harm
  exact ⟨l1, e1, fun x hx => h2 x (e2 x hx)⟩

def SeqArmsRaw (t : Table) (cert : RCert) (a : RV) (pos : Nat) : (M κ × Option Signal) ⊕ M κ → Prop
  | .inl r => RawStepP t cert r
  | .inr m' => RawM a pos m'

theorem runSeqArms_raw {cert : RCert} (hchk : checkRaw env.tbl cert = true) (hs : SinkSafe env.ops W inp U1)
    (hs3 : SinkSafe3 env.ops inp) (hw : Wf env.tbl) {sd : StateDef} {n0 : Nat} (ch : Option UInt8)
    (arms : List Arm) (m : M κ) (hst : env.tbl.state? m.c.state = some sd) (hsub : ∀ a ∈ arms, a ∈ sd.arms)
    (hent : (sd.enter.isEmpty || m.c.entered) = true) (hm : MInvC W inp.length lo n0 ch (hasSeqArm arms) m)
    {a : RV} (ha : a ∈ cert.at m.c.state) (ht : RawM a (m.c.nextPos - 1) m) :
    SeqArmsRaw env.tbl cert a (m.c.nextPos - 1) (runSeqArms env inp ch arms m) := by
  induction arms generalizing m with
  | nil => simp only [runSeqArms, SeqArmsRaw]; exact ht
  | cons arm rest ih =>
    have harm : arm ∈ sd.arms := hsub arm (by simp)
    have hsub' : ∀ a ∈ rest, a ∈ sd.arms := fun a ha => hsub a (by simp [ha])
    simp only [runSeqArms]
    split
    · rename_i bytes ic hpat
      have hseqarm : hasSeqArm sd.arms = true := hasSeqArm_of_mem harm (by rw [hpat]; rfl)
      have hc : (leaveSeq (enterSeq m)).c = m.c := by rw [(leaveSeq_c _).1, (enterSeq_c _).1]
      have hcont : SeqArmsRaw env.tbl cert a (m.c.nextPos - 1)
          (runSeqArms env inp ch rest (leaveSeq (enterSeq m))) := by
        have := ih (leaveSeq (enterSeq m)) (by rw [hc]; exact hst) hsub' (by rw [hc]; exact hent)
          (leave_enter_MInvC m hm) (by rw [hc]; exact ha)
          (by rw [hc]; exact RawM_leaveSeq _ (RawM_enterSeq _ ht))
        rw [hc] at this
        exact this
      split
      · exact hcont
      · rename_i e0 es
        split
        · -- need more input
          simp only [SeqArmsRaw]
          have hce := (enterSeq_c m).1
          obtain ⟨a1, a2, a3, a4, a5, a6, a7⟩ := hm
          have hbp : BreakPre env.tbl W inp.length (enterSeq m) := by
            cases m with
            | mk c r x =>
            cases r with
            | lexer l => exact ⟨a1, a4, sd, hst, a7⟩
            | scanner s =>
              refine ⟨a1, a4, sd, hst, ?_⟩
              simp only [RegsC, enterSeq] at a7 ⊢
              refine ⟨a7.1, fun p hp => ⟨(a7.2.1 p hp).1, (a7.2.1 p hp).2.2⟩, Or.inl ⟨rfl, ?_⟩⟩
              simp only [seqResume, Bool.and_eq_true]
              exact ⟨hseqarm, hent⟩
          exact break_rawstep (enterSeq m) hbp (by rw [hce]; exact RawM_enterSeq _ ht) (by rw [hce]; exact hst)
            (by rw [hce]; exact hent) (fun _ => by rw [hce]; exact rcovered_of_mem ha)
        · exact hcont
        · -- matched
          rename_i hfirst
          simp only [SeqArmsRaw]
          obtain ⟨a1, a2, a3, a4, a5, a6, a7⟩ := hm
          have hmatch : ch.isSome = true ∧ (es ≠ [] → (enterSeq m).c.nextPos + es.length - 1 < inp.length) := by
            cases ch with
            | none => dsimp only at hfirst; split at hfirst <;> cases hfirst
            | some c0 =>
              refine ⟨rfl, fun hne => ?_⟩
              dsimp only at hfirst
              split at hfirst
              · have := matchSeqFrom_matched es 1 hfirst hne
                omega
              · cases hfirst
          have hpos := a5 hmatch.1
          have hc' := (enterSeq_c m).1
          have hx := (enterSeq_c m).2
          have hbody := hw.body_ok hst harm
          rw [hpat] at hbody
          have hN : (leaveSeq { enterSeq m with c := { (enterSeq m).c with nextPos := (enterSeq m).c.nextPos + es.length } }).c.nextPos
              = m.c.nextPos + es.length := by rw [(leaveSeq_c _).1, hc']
          have hX : (leaveSeq { enterSeq m with c := { (enterSeq m).c with nextPos := (enterSeq m).c.nextPos + es.length } }).x = m.x := by
            rw [(leaveSeq_c _).2, hx]
          have hA : MInvA W inp.length lo true true
              (leaveSeq { enterSeq m with c := { (enterSeq m).c with nextPos := (enterSeq m).c.nextPos + es.length } }) := by
            have hlt : m.c.nextPos + es.length - 1 < inp.length := by
              cases es with
              | nil => simpa using hpos
              | cons e' es' => have := hmatch.2 (by simp); rw [hc'] at this; exact this
            refine ⟨by rw [hN]; omega, by rw [hN]; omega, by rw [hN]; omega, fun _ => by rw [hN]; exact hlt, ?_⟩
            rw [hN, hX]
            cases m with
            | mk c r x =>
            cases r with
            | lexer l =>
              simp only [RegsC, RegsA, enterSeq, leaveSeq] at a7 ⊢
              dsimp only at a1 a2
              refine ⟨a7.1, by omega, fun _ => by omega⟩
            | scanner s =>
              simp only [RegsC, RegsA, enterSeq, leaveSeq] at a7 ⊢
              dsimp only at a1 a2
              refine ⟨by omega, fun p hp => ?_, trivial⟩
              have := a7.2.1 p hp
              omega
          have hstate : (leaveSeq { enterSeq m with c := { (enterSeq m).c with nextPos := (enterSeq m).c.nextPos + es.length } }).c.state
              = m.c.state := by rw [(leaveSeq_c _).1, hc']
          have hentd : (leaveSeq { enterSeq m with c := { (enterSeq m).c with nextPos := (enterSeq m).c.nextPos + es.length } }).c.entered
              = m.c.entered := by rw [(leaveSeq_c _).1, hc']
          have htm : RawM a (m.c.nextPos + es.length - 1)
              (leaveSeq { enterSeq m with c := { (enterSeq m).c with nextPos := (enterSeq m).c.nextPos + es.length } }) := by
            apply RawM_leaveSeq
            have h0 := RawM_enterSeq m ht
            exact RawM_regs (RawR.mono h0 (by omega)) rfl
          obtain ⟨l1, hl1, hcov⟩ := rcert_body hchk hst ha harm
          rw [hpat] at hl1
          have hseq := runBody_raw (cert := cert) (isEof := false) hs hs3 arm.body _ hA (by rw [hN]) htm
            (by rw [hstate]; exact hl1) hcov
          have := armBody_rawstep (cert := cert) (isEof := false) hs hw arm.body _ (by rw [hstate]; exact hst)
            (by rw [hentd]; exact hent) hA (by rw [hstate]; exact hbody) (by rw [hN]; exact hseq)
          exact this
    · rename_i hnot
      apply ih m hst hsub' hent _ ha ht
      have : hasSeqArm (arm :: rest) = hasSeqArm rest := by
        simp only [hasSeqArm, List.any_cons]
        have : arm.pat.isChSeq = false := by
          cases hp : arm.pat <;> first | rfl | exact absurd hp (hnot _ _)
        rw [this, Bool.false_or]
      rw [this] at hm
      exact hm

/-- an arm that consumed no byte: signal, `reconsume`, or break -/
theorem armBody_break_raw {cert : RCert} (hs : SinkSafe env.ops W inp U1) (hw : Wf env.tbl) {isEof : Bool}
    (b : Body) (m : M κ) {sd : StateDef} (hst : env.tbl.state? m.c.state = some sd)
    (hent : (sd.enter.isEmpty || m.c.entered) = true) (hm : MInvA W inp.length lo false true m)
    (hlen : m.c.nextPos - 1 = inp.length)
    (hok : ∀ s ∈ b.seqs, seqOK false s = true ∧ s.targetOK env.tbl.states.length = true ∧
      ∀ x, s.trans = some (.reconsume x) → env.tbl.rank x < env.tbl.rank m.c.state)
    (heof : isEof = false ∨ m.c.isLast = true)
    (htok : SeqRaw env.tbl cert false isEof m.c.state (m.c.nextPos - 1) (runBody env inp b m)) :
    RawStepP env.tbl cert
      (match (runBody env inp b m).2.1, (runBody env inp b m).2.2 with
       | some sig, _ => ((runBody env inp b m).1, some sig)
       | none, .transitioned => ((runBody env inp b m).1, none)
       | none, .fell => breakOnEndOfInput inp (runBody env inp b m).1) := by
  obtain ⟨p1, p2, p3⟩ := runBody_post (n0 := 0) hs hw b m hm hok (Nat.zero_le _)
  obtain ⟨q1, q3, q4⟩ := htok
  cases hsig : (runBody env inp b m).2.1 with
  | some sig =>
    (try dsimp only)
    unfold RawStepP
    (try dsimp only)
    cases sig with
    | err e => exact q1 e hsig
    | directive d bm => trivial
    | endOfInput k => exact absurd (p1 _ hsig) (by simp [ActSigOK])
  | none =>
    cases hend : (runBody env inp b m).2.2 with
    | transitioned =>
      (try dsimp only)
      unfold RawStepP
      exact q3 hsig hend
    | fell =>
      (try dsimp only)
      obtain ⟨hfr, f', hA, hf'⟩ := p3 hsig hend
      have hf'' : f' = true := by
        rcases hf' with h | h
        · cases h
        · exact h
      subst hf''
      obtain ⟨a', ta, hc⟩ := q4 hsig hend
      simp only [Bool.false_eq_true, if_false] at hc
      have hE := runBody_fell_entered b m hsig hend
      obtain ⟨a1, a2, a3, a4, a5⟩ := hA
      have hbp : BreakPre env.tbl W inp.length (runBody env inp b m).1 := by
        refine ⟨a1, a3, sd, by rw [hfr.2.1]; exact hst, ?_⟩
        have hN := hfr.1
        cases hr : (runBody env inp b m).1.r with
        | lexer l =>
          rw [hr] at a5
          simp only [RegsA] at a5
          exact ⟨a5.1, a5.2.2 trivial⟩
        | scanner s =>
          rw [hr] at a5
          simp only [RegsA] at a5
          exact ⟨a5.1, fun p hp => ⟨(a5.2.1 p hp).1, (a5.2.1 p hp).2.2⟩, Or.inr ⟨a5.2.2, by rw [hN]; exact hlen⟩⟩
      apply break_rawstep _ hbp (a := a') (by rw [hfr.1]; exact ta) (by rw [hfr.2.1]; exact hst)
        (by rw [hE]; exact hent)
      intro hl
      rw [hfr.2.1]
      rcases heof with h | h
      · exact hc h
      · have hk := (runBody_keep (env := env) (inp := inp) b m).trans (breakOnEndOfInput_keep (inp := inp) _)
        rw [hk.1, h] at hl
        cases hl

theorem dispatch_raw {cert : RCert} (hchk : checkRaw env.tbl cert = true) (hs : SinkSafe env.ops W inp U1)
    (hs3 : SinkSafe3 env.ops inp) (hw : Wf env.tbl) {sd : StateDef} {n0 : Nat} (ch : Option UInt8) (m : M κ)
    (hst : env.tbl.state? m.c.state = some sd) (hent : (sd.enter.isEmpty || m.c.entered) = true)
    (hm : MInvC W inp.length lo n0 ch (hasSeqArm sd.arms) m) {a0 : RV}
    (hcov0 : rcovered (cert.at m.c.state) a0 = true) (ht0 : RawM a0 (m.c.nextPos - 1) m) :
    RawStepP env.tbl cert (dispatch env inp ch sd.arms m) := by
  obtain ⟨a, ha, hle⟩ := rcovered_elim hcov0
  have ht : RawM a (m.c.nextPos - 1) m := RawR.le ht0 hle
  have h1 := runSeqArms_post hs hw ch sd.arms m hst (fun _ h => h) hent hm
  have t1 := runSeqArms_raw hchk hs hs3 hw ch sd.arms m hst (fun _ h => h) hent hm ha ht
  unfold dispatch
  split
  · rename_i r hr
    rw [hr] at t1
    exact t1
  · rename_i m' hr
    rw [hr] at h1 t1
    obtain ⟨hC, hc⟩ := h1
    simp only [SeqArmsRaw] at t1
    have hst' : env.tbl.state? m'.c.state = some sd := by rw [hc]; exact hst
    have hent' : (sd.enter.isEmpty || m'.c.entered) = true := by rw [hc]; exact hent
    have ha' : a ∈ cert.at m'.c.state := by rw [hc]; exact ha
    have ht' : RawM a (m'.c.nextPos - 1) m' := by rw [hc]; exact t1
    split
    · rename_i hnone
      exact absurd hnone (findArm_exhaustive (hw.state_exhaustive hst))
    · rename_i arm hfind
      obtain ⟨harm, hpm⟩ := findArm_some hfind
      have hbody := hw.body_ok hst' harm
      obtain ⟨l1, hl1, hcov⟩ := rcert_body hchk hst' ha' harm
      split
      · -- eoc
        rename_i hpat
        rw [hpat] at hpm hbody hl1
        have hch := patMatches_none hpm rfl
        subst hch
        have hA := MInvA_of_C (hb := false) m' hC (fun h => by cases h)
        have hseq := runBody_raw (cert := cert) hs hs3 arm.body m' hA rfl ht' hl1 hcov
        exact armBody_break_raw hs hw arm.body m' hst' hent' hA (hC.2.2.2.2.2.1 rfl) hbody (Or.inl rfl) hseq
      · -- eof
        rename_i hpat
        rw [hpat] at hpm hbody hl1
        have hch := patMatches_none hpm rfl
        subst hch
        have hA := MInvA_of_C (hb := false) m' hC (fun h => by cases h)
        split
        · rename_i hlast
          have hseq := runBody_raw (cert := cert) hs hs3 arm.body m' hA rfl ht' hl1 hcov
          exact armBody_break_raw hs hw arm.body m' hst' hent' hA (hC.2.2.2.2.2.1 rfl) hbody (Or.inr hlast) hseq
        · exact break_rawstep m' (BreakPre_of_C m' hst' hC) ht' hst' hent' (fun _ => rcovered_of_mem ha')
      · rename_i hne1 hne2
        have hhb : arm.pat.hasByte = true := by
          cases hp : arm.pat <;> first | rfl | exact absurd hp hne1 | exact absurd hp hne2
        rw [hhb] at hbody hl1
        have hsome := patMatches_some hpm hhb
        have hA := MInvA_of_C (hb := true) m' hC (fun _ => hsome)
        have hseq := runBody_raw (cert := cert) hs hs3 arm.body m' hA rfl ht' hl1 hcov
        exact armBody_rawstep hs hw arm.body m' hst' hent' hA hbody hseq

end
end LolHtml.Model
