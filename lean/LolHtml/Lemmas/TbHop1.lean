import LolHtml.Lemmas.TbTactics
/-!
Preservation of the invariant `GInv` by the rules of every insertion mode (one lemma per rule function).
-/
namespace LolHtml.Spec.TreeBuilder
open LolHtml.Model (Ns)

variable {b : Bool} {c : Cfg} {s : State}

/-- tokens of the class: no `svg`, `math`, `template` start tag; a `frameset` start tag only if `b` -/
def TokOk (b : Bool) : Token → Prop
  | .start n _ _ => n ≠ .svg ∧ n ≠ .math ∧ n ≠ .template ∧ (n = .frameset → b = true)
  | _ => True

/-- the tokens for which other insertion modes use the "in head" rules -/
def callsHead : Token → Bool
  | .start n _ _ => n.isIn headStartNames
  | .end n => n == .template
  | .char .ws => true
  | .comment => true
  | _ => false

set_option maxHeartbeats 2000000 in
theorem inHead_inv (hI : Inv b s) (h1 : s.mode ≠ .text) (h2 : s.mode ≠ .inTableText) (t : Token) (htok : TokOk b t)
    (hcall : s.mode = .inHead ∨ callsHead t = true) : InvPost b (inHead c s t) := by
  cases t with
  | start n sc a =>
    obtain ⟨-, -, hn, -⟩ := htok
    simp only [inHead, htmlStartInBody, Res.ok, Res.ignore, Res.again]
    repeat' split
    all_goals (try names_norm)
    all_goals hop_branch hI h1 h2 n
  | «end» n =>
    simp only [inHead, Res.ok, Res.ignore, Res.again]
    repeat' split
    all_goals (try names_norm)
    all_goals first
      | (exfalso; rename_i h; simp [hasOnStack_template_false hI.tree] at h; done)
      | hop_branch hI h1 h2 n
  | char cc =>
    cases cc <;> simp only [inHead, Res.ok, Res.again] <;> (try simp [callsHead] at hcall) <;> hop_branch hI h1 h2
  | comment => exact Or.inl hI
  | doctype d => exact Or.inl hI
  | eof =>
    simp only [inHead, Res.again]
    simp [callsHead] at hcall
    hop_branch hI h1 h2
end LolHtml.Spec.TreeBuilder
