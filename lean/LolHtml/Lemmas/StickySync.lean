import LolHtml.Lemmas.LexOnlyDisp
import LolHtml.Lemmas.ChunkDisp
/-!
# The directive `handle_tag` answers, from the controller's point of view

`AlwaysLex` (Lemmas/LexOnlyDisp.lean) asks for sticky capture flags from EVERY controller state. A real
controller offers less: its answers are the flags OF ITS STATE (`σ g` = "a text / comment / doctype handler
is active"), and `handle_token` does not change that. Then after a successful `handle_tag` the dispatcher's
flags are sticky iff `σ` holds of the controller state it ends in — and if so the parser directive is `Lex`.
-/
namespace LolHtml.Model.LexE
open LolHtml LolHtml.Model

variable {γ : Type} {ctl : Controller γ} {σ : γ → Bool} {inp : Bytes}

/-- the capture flags the controller answers are sticky iff `σ` holds of its new state; tokens keep `σ` -/
structure StickySync (ctl : Controller γ) (σ : γ → Bool) : Prop where
  startTag : ∀ g n ns f, (ctl.startTag g n ns).2 = .flags f → f.Sticky = σ (ctl.startTag g n ns).1
  auxInfo : ∀ g i f, (ctl.auxInfo g i).2 = .ok f → f.Sticky = σ (ctl.auxInfo g i).1
  endTag : ∀ g n, (ctl.endTag g n).2.Sticky = σ (ctl.endTag g n).1
  token : ∀ g t, (ctl.token g t).2.err = none → σ (ctl.token g t).1 = σ g

def Sy (σ : γ → Bool) (d : Disp γ) : Prop := d.flags.Sticky = σ d.ctl

theorem bind_ok_inv {α β : Type} {r : DRes γ α} {f : Disp γ → α → DRes γ β} {b : β}
    (h : (DRes.bind r f).2 = .ok b) : ∃ a, r.2 = .ok a ∧ DRes.bind r f = f r.1 a := by
  unfold DRes.bind at h ⊢
  cases hr : r.2 with
  | error e => rw [hr] at h; cases h
  | ok a => exact ⟨a, rfl, rfl⟩

theorem emitChunkBefore_fields {d d' : Disp γ} {raw : Range} (h : d.emitChunkBefore inp raw = .ok d') :
    d'.ctl = d.ctl ∧ d'.flags = d.flags := by
  unfold Disp.emitChunkBefore at h
  split at h
  · cases h
  · simp only [Except.ok.injEq] at h
    rw [← h]
    dsimp only
    split <;> exact ⟨rfl, rfl⟩

theorem emitToken_sy (hs : StickySync ctl σ) (d : Disp γ) (raw : Range) (tok : Token) (hd : Sy σ d)
    (hok : (d.emitToken ctl inp raw tok).2 = .ok ()) : Sy σ (d.emitToken ctl inp raw tok).1 := by
  unfold Disp.emitToken at hok ⊢
  obtain ⟨_, h1, e1⟩ := bind_ok_inv hok
  rw [e1] at hok ⊢
  cases hc : d.emitChunkBefore inp raw with
  | error e => simp [DRes.ofExcept, hc] at h1
  | ok d1 =>
    obtain ⟨c1, c2⟩ := emitChunkBefore_fields hc
    have hd1 : (DRes.ofExcept d (Except.ok d1 : Except Err (Disp γ))).1 = d1 := rfl
    rw [hc] at hok
    rw [hd1] at hok ⊢
    obtain ⟨_, h2, e2⟩ := bind_ok_inv hok
    rw [e2]
    obtain ⟨t1, _, t3, _, _, _, _, _, _, _, _, _, t13⟩ := Chunk.tokenProduced_desc (ctl := ctl) d1 tok
    cases he : (ctl.token d1.ctl tok).2.err with
    | some e => rw [t13, he] at h2; cases h2
    | none =>
      unfold Sy
      rw [(Chunk.flushEncodingChange_desc _).1, (Chunk.flushEncodingChange_desc _).2.2.1]
      show (Disp.tokenProduced ctl d1 tok).1.flags.Sticky = σ (Disp.tokenProduced ctl d1 tok).1.ctl
      rw [t1, t3, hs.token _ _ he, c1, c2]
      exact hd

theorem tagToToken_sticky_eq {f f' : Flags} {lx : TagLexeme} {o : Option Token}
    (h : tagToToken f inp lx = some (f', o)) : f'.Sticky = f.Sticky := by
  unfold tagToToken at h
  (repeat' split at h) <;>
    first
    | (cases h; done)
    | (simp only [Option.some.injEq, Prod.mk.injEq] at h; obtain ⟨h1, _⟩ := h; subst h1; rfl)

theorem produceTag_sy (hs : StickySync ctl σ) (d : Disp γ) (lx : TagLexeme) (hd : Sy σ d)
    (hok : (d.produceTag ctl inp lx).2 = .ok ()) : Sy σ (d.produceTag ctl inp lx).1 := by
  unfold Disp.produceTag at hok ⊢
  cases htt : tagToToken d.flags inp lx with
  | none => rw [htt] at hok; cases hok
  | some ft =>
    rw [htt] at hok
    dsimp only at hok ⊢
    have hst : ft.1.Sticky = d.flags.Sticky := tagToToken_sticky_eq (o := ft.2) htt
    have hd' : Sy σ { d with flags := ft.1 } := by
      unfold Sy
      show ft.1.Sticky = σ d.ctl
      rw [hst]; exact hd
    cases hft : ft.2 with
    | none => exact hd'
    | some tok =>
      rw [hft] at hok
      exact emitToken_sy hs _ _ _ hd' hok

theorem adjust_sy (hs : StickySync ctl σ) (d : Disp γ) (lx : TagLexeme) (hp : d.pendingAux = false)
    (hok : (d.adjustFlagsForTag ctl inp lx).2 = .ok ()) : Sy σ (d.adjustFlagsForTag ctl inp lx).1 := by
  unfold Disp.adjustFlagsForTag at hok ⊢
  rw [if_neg (by rw [hp]; simp)] at hok ⊢
  cases ho : lx.outline with
  | startTag name hh ns as sc =>
    rw [ho] at hok
    dsimp only at hok ⊢
    cases hl : LocalName.new inp name hh with
    | none => rw [hl] at hok; cases hok
    | some ln =>
      rw [hl] at hok
      dsimp only at hok ⊢
      cases hr : (ctl.startTag d.ctl ln ns).2 with
      | flags f =>
        rw [hr] at hok
        exact hs.startTag _ _ _ f hr
      | err e => rw [hr] at hok; cases hok
      | infoRequest =>
        rw [hr] at hok
        dsimp only at hok ⊢
        unfold Disp.answerAux at hok ⊢
        dsimp only at hok ⊢
        cases ha : (ctl.auxInfo (ctl.startTag d.ctl ln ns).1 ⟨inp, as, sc⟩).2 with
        | ok f =>
          rw [ha] at hok
          exact hs.auxInfo _ _ f ha
        | error e => rw [ha] at hok; cases hok
  | endTag name hh =>
    rw [ho] at hok
    dsimp only at hok ⊢
    cases hl : LocalName.new inp name hh with
    | none => rw [hl] at hok; cases hok
    | some ln => exact hs.endTag _ _

/-- **the directive of a successful `handle_tag`** (no hint outstanding): `Lex` if `σ` holds of the controller
state it ends in -/
theorem handleTag_dir (hs : StickySync ctl σ) (d : Disp γ) (lx : TagLexeme) (hp : d.pendingAux = false)
    (hg : d.gotFlagsFromHint = false) (dir : Directive) (hok : (Disp.handleTag ctl inp lx d).2 = .ok dir)
    (hσ : σ (Disp.handleTag ctl inp lx d).1.ctl = true) : dir = .lex := by
  unfold Disp.handleTag at hok hσ
  obtain ⟨_, h1, e1⟩ := bind_ok_inv hok
  rw [e1] at hok hσ
  have hsame : Same d (d.flushPendingText ctl).1 := by
    unfold Disp.flushPendingText
    split
    · exact tokenProduced_same (ctl := ctl) { d with textPending := false } _
    · exact ⟨rfl, rfl, rfl⟩
  have hp1 : (d.flushPendingText ctl).1.pendingAux = false := by rw [hsame.1]; exact hp
  have hg1 : (d.flushPendingText ctl).1.gotFlagsFromHint = false := by rw [hsame.2.1]; exact hg
  generalize (d.flushPendingText ctl).1 = d1 at hok hσ hp1 hg1
  rw [if_neg (by rw [hg1]; simp)] at hok hσ
  obtain ⟨_, h2, e2⟩ := bind_ok_inv hok
  rw [e2] at hok hσ
  have hsy2 := adjust_sy hs d1 lx hp1 h2
  generalize (d1.adjustFlagsForTag ctl inp lx).1 = d2 at hok hσ hsy2
  have hsy3 : Sy σ (d2.resumeEmission ctl lx) := by
    unfold Disp.resumeEmission
    split <;> exact hsy2
  generalize d2.resumeEmission ctl lx = d3 at hok hσ hsy3
  obtain ⟨_, h4, e4⟩ := bind_ok_inv hok
  rw [e4] at hok hσ
  have hsy4 := produceTag_sy hs d3 lx hsy3 h4
  generalize (d3.produceTag ctl inp lx).1 = d4 at hok hσ hsy4
  simp only [Except.ok.injEq] at hok
  rw [← hok]
  unfold Disp.nextDirective
  dsimp only at hσ ⊢
  have : d4.flags.Sticky = true := by rw [hsy4]; exact hσ
  rw [Flags.Sticky.notEmpty this]
  rfl

end LolHtml.Model.LexE
