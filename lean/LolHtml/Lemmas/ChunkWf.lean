import LolHtml.Lemmas.ChunkAbs
/-!
The decidable side-condition on the tokenizer table under which chunk-boundary invariance is proved,
with a dataflow analysis that computes the validity flags it refers to.
-/
namespace LolHtml.Model.Chunk
open LolHtml LolHtml.Model

/-- validity flags per state: at entry (`entered = false`) and after the enter actions -/
abbrev FlagMap := StateId → Ab × Ab

def Ab.inStep (ab : Ab) : Ab := { ab with P := true }
def Ab.boundary (ab : Ab) : Ab := { ab with P := false }

def Ab.top : Ab := ⟨false, true, true, true, true, true, true, true, true⟩

def Ab.meet (a b : Ab) : Ab :=
  ⟨a.P && b.P, a.T && b.T, a.Gn && b.Gn, a.Ga && b.Ga, a.A && b.A, a.N && b.N, a.Nc && b.Nc, a.St && b.St, a.Sn && b.Sn⟩

def textStates (t : Table) : List StateId :=
  [t.dataState, t.plaintextState, t.rcdataState, t.rawtextState, t.scriptDataState, t.cdataSectionState]

def flagsAt (fs : FlagMap) (sd : StateDef) (st : StateId) (entered : Bool) : Ab :=
  if !sd.enter.isEmpty && !entered then (fs st).1 else (fs st).2

/-- targets of a transition -/
def transTargets (t : Table) (st : StateId) : Option Trans → List StateId
  | none => []
  | some (.goto s) => [s]
  | some .gotoDyn => textStates t
  | some (.reconsume s) => [s]

def seqOk (t : Table) (fs : FlagMap) (st : StateId) (ab : Ab) (loops : Bool) (s : ActSeq) : Bool :=
  match absCalls s.calls ab with
  | none => false
  | some ab' =>
    match s.trans with
    | none => if loops then (fs st).2.le ab' else ab'.P
    | some (.reconsume tg) => ab'.P && !(fs tg).1.P && (fs tg).1.le ab'
    | tr => (transTargets t st tr).all fun tg => (fs tg).1.le ab'

def bodyOk (t : Table) (fs : FlagMap) (st : StateId) (ab : Ab) (loops : Bool) : Body → Bool
  | .seq s => seqOk t fs st ab loops s
  | .ite _ a b => seqOk t fs st ab loops a && seqOk t fs st ab loops b

def eocBody : Body := .seq ⟨[⟨.emitText, true⟩], none⟩

def armOk (t : Table) (fs : FlagMap) (st : StateId) (ab : Ab) (arm : Arm) : Bool :=
  match arm.pat with
  | .eoc => arm.body == eocBody
  | .eof => bodyOk t fs st ab false arm.body   -- an `eof` arm that falls through breaks: the state is never re-run
  | _ => bodyOk t fs st ab true arm.body

def isSeqPat : Pat → Bool
  | .chSeq .. => true
  | _ => false

def isEoc : Pat → Bool
  | .eoc => true
  | _ => false

def isEof : Pat → Bool
  | .eof => true
  | _ => false

/-- arms of a state that has an `eoc` arm: do nothing and stay, or start with `emit_text`; the `eof` arm does
the latter (so that no text is left undelivered at the end of the document) -/
def debtArmOk (arm : Arm) : Bool :=
  (match arm.pat, arm.body with
  | .eoc, _ => true
  | _, .seq ⟨[], none⟩ => true
  | _, .seq ⟨⟨.emitText, true⟩ :: _, _⟩ => true
  | _, .seq ⟨⟨.emitTextAndEof, true⟩ :: _, _⟩ => true
  | _, _ => false) && (!isEof arm.pat || arm.body != .seq ⟨[], none⟩)

/-- at the end of a (not last) chunk the `eoc` arm is selected, not the `eof` arm -/
def eocFirst : List Arm → Bool
  | [] => true
  | a :: rest => if isEoc a.pat then true else if isEof a.pat then false else eocFirst rest

/-- enter actions: no emission, no read of the input -/
def enterOk : ActName → Bool
  | .createComment | .createDoctype | .startTokenPart => true
  | _ => false

def Ab.none : Ab := {}

def stateOk (t : Table) (fs : FlagMap) (st : StateId) (sd : StateDef) : Bool :=
  !(fs st).1.P && !(fs st).2.P &&
  (!(fs st).1.Sn || (fs st).1.St) && (!(fs st).2.Sn || (fs st).2.St) &&
  (if sd.enter.isEmpty then (fs st).2.le (fs st).1
   else sd.enter.all (fun c => enterOk c.act) &&
     match absCalls sd.enter (fs st).1.inStep with
     | none => false
     | some e => (fs st).2.le e.boundary) &&
  sd.arms.all (armOk t fs st (fs st).2.inStep) &&
  (!(sd.arms.any fun a => isEoc a.pat) ||
    (sd.enter.isEmpty && (fs st).2 == Ab.none && (fs st).1 == Ab.none && !(sd.arms.any fun a => isSeqPat a.pat) &&
     sd.arms.all debtArmOk)) &&
  (sd.memchr.isNone || !(sd.arms.any fun a => isSeqPat a.pat)) &&
  (!(sd.arms.any fun a => isEoc a.pat) || eocFirst sd.arms)

/-! ### Dataflow analysis (computes the flags; its result is *checked*, not trusted) -/

def setAt (l : List (Ab × Ab)) (i : Nat) (f : Ab × Ab → Ab × Ab) : List (Ab × Ab) :=
  match l[i]? with
  | some v => l.set i (f v)
  | none => l

def flowSeq (t : Table) (st : StateId) (ab : Ab) (loops : Bool) (s : ActSeq) (l : List (Ab × Ab)) : List (Ab × Ab) :=
  match absCalls s.calls ab with
  | none => l
  | some ab' =>
    match s.trans with
    | none => if loops then setAt l st fun v => (v.1, v.2.meet ab'.boundary) else l
    | tr => (transTargets t st tr).foldl (fun l tg => setAt l tg fun v => (v.1.meet ab'.boundary, v.2)) l

def flowBody (t : Table) (st : StateId) (ab : Ab) (loops : Bool) (b : Body) (l : List (Ab × Ab)) : List (Ab × Ab) :=
  match b with
  | .seq s => flowSeq t st ab loops s l
  | .ite _ a b => flowSeq t st ab loops b (flowSeq t st ab loops a l)

def flowState (t : Table) (l : List (Ab × Ab)) (st : StateId) (sd : StateDef) : List (Ab × Ab) :=
  let cur := l[st]?.getD (Ab.none, Ab.none)
  -- enter actions / empty enter
  let l := if sd.enter.isEmpty then setAt l st fun v => (v.1, v.2.meet v.1)
    else match absCalls sd.enter cur.1.inStep with
      | none => setAt l st fun v => (v.1, Ab.none)
      | some e => setAt l st fun v => (v.1, v.2.meet e.boundary)
  let cur := l[st]?.getD (Ab.none, Ab.none)
  let l := sd.arms.foldl (fun l arm => if isEoc arm.pat then l else flowBody t st cur.2.inStep (!isEof arm.pat) arm.body l) l
  -- `Sn` needs `St`
  setAt l st fun v => ({ v.1 with Sn := v.1.Sn && v.1.St }, { v.2 with Sn := v.2.Sn && v.2.St })

def flowRound (t : Table) (l : List (Ab × Ab)) : List (Ab × Ab) :=
  (t.states.zipIdx).foldl (fun l p => flowState t l p.2 p.1) l

def flowInit (t : Table) : List (Ab × Ab) :=
  (t.states.zipIdx).map fun p =>
    if (textStates t).contains p.2 || p.1.arms.any (fun a => isEoc a.pat) then (Ab.none, Ab.none) else (Ab.top, Ab.top)

def iter {α : Type} (f : α → α) : Nat → α → α
  | 0, a => a
  | n + 1, a => iter f n (f a)

def analyze (t : Table) : List (Ab × Ab) := iter (flowRound t) 1 (flowInit t)

def flagMap (t : Table) : FlagMap := fun i => (analyze t)[i]?.getD (Ab.none, Ab.none)

/-- **The side-condition on the table.** -/
def WfChunkWith (t : Table) (fs : FlagMap) : Bool :=
  (t.states.zipIdx).all (fun p => stateOk t fs p.2 p.1) &&
  (textStates t).all (fun s => (fs s).1 == Ab.none)

def WfChunk (t : Table) : Bool := WfChunkWith t (flagMap t)

/-- diagnostics: the states (by name) that fail the check -/
def WfChunkWitness (t : Table) : List String :=
  ((t.states.zipIdx).filter (fun p => !stateOk t (flagMap t) p.2 p.1)).map (fun p => p.1.name) ++
  ((textStates t).filter (fun s => !((flagMap t s).1 == Ab.none))).map (fun s => s!"text state {s}")

end LolHtml.Model.Chunk
