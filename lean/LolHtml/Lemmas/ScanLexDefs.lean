import LolHtml.Model.SM
/-!
C06, scanner ⇄ lexer simulation: definitions.

Both machines run the same table over the same input. The scanner's sink answers "keep scanning",
the lexer's sink "keep lexing"; both log the tag events they receive (`TagEv`), so that the
correspondence "hint ⇄ tag lexeme" is part of the relation.

The relation has three shapes, selected per table state by a labelling `PLabels` that a decidable
checker (`PhaseOk`) validates on the table:
* `outClean` — outside a tag or inside a tag name, `is_in_end_tag = false`;
* `outEnd`   — same, but an end tag name may have been started (`is_in_end_tag` may be set);
* `inTag`    — between `finish_tag_name` and `emit_tag`: the scanner has already consulted the
  tree-builder simulator and emitted its hint, the lexer will do both at `emit_tag`.
-/
namespace LolHtml.Model

/-- a tag event as seen by either sink: name hash (+ namespace for start tags) -/
inductive TagEv
  | start (hash : Nat) (ns : Ns)
  | end_ (hash : Nat)
  deriving DecidableEq, Repr

def lnHash : LocalName → Nat
  | .hash h => h
  | .bytes _ => emptyHash

/-- the scanner's sink: logs hints, never asks for the lexer -/
def scanLog : SinkOps (List TagEv) :=
  { handleTag := fun _ _ k => (k, .ok .scan)
    handleNonTag := fun _ _ k => (k, .ok ())
    startTagHint := fun n ns k => (k ++ [.start (lnHash n) ns], .ok .scan)
    endTagHint := fun n k => (k ++ [.end_ (lnHash n)], .ok .scan) }

/-- (is start tag, name hash) -/
def tagKey : TagOutline → Bool × Nat
  | .startTag _ h _ _ _ => (true, h)
  | .endTag _ h => (false, h)

def evOf (key : Bool × Nat) (ns : Ns) : TagEv := if key.1 then .start key.2 ns else .end_ key.2

/-- the lexer's sink: logs tag lexemes, never asks for the scanner -/
def lexLog : SinkOps (List TagEv) :=
  { handleTag := fun _ lx k =>
      (k ++ [match lx.outline with
             | .startTag _ h ns _ _ => .start h ns
             | .endTag _ h => .end_ h], .ok .lex)
    handleNonTag := fun _ _ k => (k, .ok ())
    startTagHint := fun _ _ k => (k, .ok .lex)
    endTagHint := fun _ k => (k, .ok .lex) }

/-- the simulator's answer for a tag, by kind and name hash -/
def feedbackOf (cfg : TagCfg) (sim : Sim) (key : Bool × Nat) : Except Err (Sim × Feedback) :=
  if key.1 then sim.feedbackForStartTag cfg key.2 else sim.feedbackForEndTag cfg key.2

def Feedback.isRL : Feedback → Bool
  | .requestLexeme _ => true
  | _ => false

/-- text type a feedback asks for -/
def ttOf : Feedback → Option TextType
  | .switchTextType t => some t
  | _ => none

/-- the registers the scanner commits at `finish_tag_name`, the lexer only at `emit_tag` -/
def commit (c : Common) (f : Feedback) (key : Bool × Nat) : Common :=
  { c with
    cdataAllowed := (match f with | .setAllowCdata b => b | _ => c.cdataAllowed)
    lastStartTagNameHash := if key.1 then key.2 else c.lastStartTagNameHash }

/-- scanner `tag_name_hash`/`is_in_end_tag` ⇄ lexer `current_tag_token` -/
def TagCorr (s : ScanRegs) (l : LexRegs) : Prop :=
  match l.curTag.map tagKey with
  | none => s.isInEndTag = false
  | some key => key = (!s.isInEndTag, s.tagNameHash)

/-- outside a tag / inside a tag name -/
structure RA (cs : Common) (s : ScanRegs) (xs : Ctx (List TagEv)) (cl : Common) (l : LexRegs)
    (xl : Ctx (List TagEv)) : Prop where
  c_eq : cs = cl
  sim_eq : xs.sim = xl.sim
  log_eq : xs.sink = xl.sink
  pend : s.pendingTextTypeChange = none
  fd : l.fd = .none
  tag : TagCorr s l

/-- between `finish_tag_name` and `emit_tag` -/
structure RB (cfg : TagCfg) (cs : Common) (s : ScanRegs) (xs : Ctx (List TagEv)) (cl : Common) (l : LexRegs)
    (xl : Ctx (List TagEv)) : Prop where
  ex : ∃ key S1 f, l.curTag.map tagKey = some key ∧ feedbackOf cfg xl.sim key = .ok (S1, f) ∧
    f.isRL = false ∧ xs.sim = S1 ∧ s.pendingTextTypeChange = ttOf f ∧ cs = commit cl f key ∧
    xs.sink = xl.sink ++ [evOf key S1.currentNs]
  inEnd : s.isInEndTag = false
  fd : l.fd = .none

inductive Ab | unreach | outClean | outEnd | inTag
  deriving DecidableEq, Repr

/-- the relation, by label -/
def Conc (cfg : TagCfg) (ab : Ab) (cs : Common) (s : ScanRegs) (xs : Ctx (List TagEv)) (cl : Common)
    (l : LexRegs) (xl : Ctx (List TagEv)) : Prop :=
  match ab with
  | .unreach => False
  | .outClean => RA cs s xs cl l xl ∧ s.isInEndTag = false
  | .outEnd => RA cs s xs cl l xl
  | .inTag => RB cfg cs s xs cl l xl

/-- relation between a scanner machine and a lexer machine -/
def Rel (cfg : TagCfg) (ab : Ab) (ms ml : M (List TagEv)) : Prop :=
  match ms.r, ml.r with
  | .scanner s, .lexer l => Conc cfg ab ms.c s ms.x ml.c l ml.x
  | _, _ => False

/-- abstract effect of an action on the label; `none` = the action must not occur there -/
def phAct (a : ActName) (ab : Ab) : Option Ab :=
  match a, ab with
  | _, .unreach => none
  | .createStartTag, .outClean => some .outClean
  | .createStartTag, _ => none
  | .createEndTag, .inTag => none
  | .createEndTag, _ => some .outEnd
  | .updateTagNameHash, .inTag => none
  | .updateTagNameHash, ab => some ab
  | .finishTagName, .inTag => none
  | .finishTagName, _ => some .inTag
  | .emitTag, .inTag => some .outClean
  | .emitTag, _ => none
  | _, ab => some ab

def phCalls : List Call → Ab → Option Ab
  | [], ab => some ab
  | c :: cs, ab => match phAct c.act ab with | some ab' => phCalls cs ab' | none => none

/-- `ab` may flow into a state labelled `tgt` -/
def Ab.le : Ab → Ab → Bool
  | .outClean, .outClean => true
  | .outClean, .outEnd => true
  | .outEnd, .outEnd => true
  | .inTag, .inTag => true
  | _, _ => false

/-- actions whose signal may be dropped (called without `?`): they must not be able to signal, except
`update_tag_name_hash`, whose failure leaves the lexer unchanged -/
def silentAct : ActName → Bool
  | .finishTagName => false
  | .emitTag => false
  | _ => true

abbrev PLabels := List Ab

def PLabels.at (P : PLabels) (i : StateId) : Ab := match P[i]? with | some a => a | none => .unreach

def textStates (t : Table) : List StateId :=
  [t.dataState, t.plaintextState, t.rcdataState, t.rawtextState, t.scriptDataState, t.cdataSectionState]

def transOk (t : Table) (P : PLabels) (self : StateId) (ab : Ab) : Option Trans → Bool
  | none => ab.le (P.at self)
  | some (.goto j) => ab.le (P.at j)
  | some (.reconsume j) => ab.le (P.at j)
  | some .gotoDyn => (textStates t).all fun j => ab.le (P.at j)

def callsOk (cs : List Call) : Bool := cs.all fun c => c.q || silentAct c.act

def seqOkP (t : Table) (P : PLabels) (self : StateId) (q : ActSeq) : Bool :=
  callsOk q.calls &&
  match phCalls q.calls (P.at self) with
  | some ab => transOk t P self ab q.trans
  | none => false

def bodyOkP (t : Table) (P : PLabels) (self : StateId) : Body → Bool
  | .seq q => seqOkP t P self q
  | .ite _ a b => (P.at self == .outClean || P.at self == .outEnd) && seqOkP t P self a && seqOkP t P self b

def stateOkP (t : Table) (P : PLabels) (i : StateId) (sd : StateDef) : Bool :=
  P.at i != .unreach &&
  callsOk sd.enter && phCalls sd.enter (P.at i) == some (P.at i) &&
  sd.arms.all fun a => bodyOkP t P i a.body

def allIdxP (p : StateId → StateDef → Bool) : List StateDef → StateId → Bool
  | [], _ => true
  | sd :: rest, i => p i sd && allIdxP p rest (i + 1)

/-- **`PhaseOk`**: the labelling is a fixed point of the abstract interpretation of every arm:
`finish_tag_name` only outside a tag, `emit_tag` only after it, no tag creation / hash update /
condition in between, `create_start_tag` only where `is_in_end_tag` is surely clear. -/
def PhaseOk (t : Table) (P : PLabels) : Bool := allIdxP (stateOkP t P) t.states 0

/-! ### computing the labelling -/

def Ab.join : Ab → Ab → Ab
  | .unreach, b => b
  | a, .unreach => a
  | .outClean, .outEnd => .outEnd
  | .outEnd, .outClean => .outEnd
  | a, _ => a   -- equal labels, or a conflict (left to the checker)

def PLabels.flow (P : PLabels) (j : StateId) (ab : Ab) : PLabels := P.set j (Ab.join (P.at j) ab)

def flowTrans (t : Table) (P : PLabels) (self : StateId) (ab : Ab) : Option Trans → PLabels
  | none => P.flow self ab
  | some (.goto j) => P.flow j ab
  | some (.reconsume j) => P.flow j ab
  | some .gotoDyn => (textStates t).foldl (fun P j => P.flow j ab) P

def flowSeq (t : Table) (self : StateId) (P : PLabels) (q : ActSeq) : PLabels :=
  match phCalls q.calls (P.at self) with
  | some ab => flowTrans t P self ab q.trans
  | none => P

def flowState (t : Table) (P : PLabels) (sd : StateDef) (i : StateId) : PLabels :=
  sd.arms.foldl (fun P a => a.body.seqs.foldl (flowSeq t i) P) P

def flowFrom (t : Table) : PLabels → List StateDef → StateId → PLabels
  | P, [], _ => P
  | P, sd :: rest, i => flowFrom t (flowState t P sd i) rest (i + 1)

/-- least labelling with `data_state ↦ outClean` (iterated a fixed number of times; `PhaseOk` checks
that it is a fixed point) -/
def phaseLabels (t : Table) : PLabels :=
  (List.range 8).foldl (fun P _ => flowFrom t P t.states 0)
    ((List.replicate t.states.length Ab.unreach).set t.dataState .outClean)

def PhaseSide (t : Table) : Bool := PhaseOk t (phaseLabels t)

/-- offending (state, arm) pairs; arm 1000 = the state's label or enter actions -/
def phaseWitnessFrom (t : Table) (P : PLabels) : List StateDef → StateId → List (StateId × Nat)
  | [], _ => []
  | sd :: rest, i =>
    (if P.at i != .unreach && callsOk sd.enter && phCalls sd.enter (P.at i) == some (P.at i) then [] else [(i, 1000)]) ++
    ((List.range sd.arms.length).filter fun k =>
      match sd.arms[k]? with | some a => !bodyOkP t P i a.body | none => false).map (fun k => (i, k)) ++
    phaseWitnessFrom t P rest (i + 1)

def phaseWitness (t : Table) : List (StateId × Nat) := phaseWitnessFrom t (phaseLabels t) t.states 0

end LolHtml.Model
