import LolHtml.Lemmas.TbPhase4
/-!
The induction behind `C03_tb_text_feedback` without the restriction "no `frameset` start tag after a
`select` start tag": while the ambiguity guard is in a select state the standard's parser is in the body
phase with the frameset-ok flag off, where a `frameset` start tag is ignored.
-/
namespace LolHtml.Spec.TreeBuilder
open LolHtml LolHtml.Model LolHtml.Lemmas.Sim

theorem sel_not_sticky (g : GuardState) (h : inSelectState g = true) : isSticky g = false := by
  cases g <;> simp_all [inSelectState, isSticky]

theorem rank_le (m : Mode) : rank m ≤ 16 := by cases m <;> simp [rank]

/-- one token keeps the phase -/
theorem phase_step {s : State} (hG : GInv false s) (hns : NsOk cfgStd s) (hPh : Phase s) (t : Token) (htok : TokP s t)
    (htext : s.mode = .text → TextTok t) :
    GInv false (step cfgStd s t).st ∧ Phase (step cfgStd s t).st ∧ (D s → D (step cfgStd s t).st) := by
  rw [step_eq_loop rfl hG t]
  exact loop_phase (c := cfgStd) rfl rfl t false 16 s hG hns hPh htok htext

theorem select_step {s : State} (hG : GInv false s) (hns : NsOk cfgStd s) (hPh : Phase s) (h1 : s.mode ≠ .text)
    (sc : Bool) (a : Attrs) : D (step cfgStd s (.start .select sc a)).st := by
  rw [step_eq_loop rfl hG _]
  exact loop_select (c := cfgStd) rfl rfl sc a false 16 s hG hns hPh h1 (rank_le _)

/-- the relation between lol-html's state and the standard's state kept by the joint run -/
structure JRel2 (c : Cfg) (sim : Sim) (s : State) (tk : TkState) : Prop where
  simOk : SimHtml sim
  inv : GInv (isSticky sim.guard) s
  ns : NsOk c s
  tk : TkRel tk s
  /-- no `frameset` start tag acted upon: before the body or in the body phase -/
  ph : isSticky sim.guard = false → Phase s
  /-- the guard in a select state: body phase, frameset-ok flag off -/
  sel : inSelectState sim.guard = true → D s

theorem phase_init : Phase State.init := Or.inl ⟨rfl, rfl⟩

/-- the new fields after a token that is not a start tag -/
theorem nonstart_fields {sim : Sim} {s : State} {tk : TkState} (hJ : JRel2 cfgStd sim s tk) (t : Token)
    (hnot : ∀ n sc a, t ≠ .start n sc a) (htext : s.mode = .text → TextTok t) (g' : GuardState)
    (e1 : isSticky g' = isSticky sim.guard) (e2 : inSelectState g' = true → inSelectState sim.guard = true) :
    (isSticky g' = false → Phase (step cfgStd s t).st) ∧ (inSelectState g' = true → D (step cfgStd s t).st) := by
  have htok : TokP s t := fun n sc a h => absurd h (hnot n sc a)
  cases hst : isSticky sim.guard with
  | true =>
    refine ⟨fun h => ?_, fun h => ?_⟩
    · rw [e1, hst] at h; cases h
    · have := sel_not_sticky _ (e2 h); rw [hst] at this; cases this
  | false =>
    have hG : GInv false s := hst ▸ hJ.inv
    obtain ⟨_, r2, r3⟩ := phase_step hG hJ.ns (hJ.ph hst) t htok htext
    exact ⟨fun _ => r2, fun h => r3 (hJ.sel (e2 h))⟩

/-- what one token that passes the tokenizer does to the joint state: the switches agree and the relation
holds again (or the strict simulator refuses the tag) -/
def StepOk (cfg : TagCfg) (sim : Sim) (s : State) (tk : TkState) (ev : TbEv)
    (R : Sim → State → TkState → Prop) : Prop :=
  match simStep cfg sim ev with
  | .error _ => True
  | .ok (sim', fb) =>
    (switchOfFeedback fb = (step cfgStd s ev.tok).sw ∧ switchOfFeedback fb = expSw cfgStd ev.tok) ∧
    R sim' (step cfgStd s ev.tok).st (nextTk tk ev.tok (switchOfFeedback fb))

set_option maxHeartbeats 2000000 in
theorem jrel2_step (cfg : TagCfg) {sim : Sim} {s : State} {tk : TkState} (hJ : JRel2 cfgStd sim s tk) (ev : TbEv)
    (hev : ev.Ok cfg) (hcl : HtmlNoTemplate ev.tok) (hpass : passes tk ev.tok = true) :
    StepOk cfg sim s tk ev (JRel2 cfgStd) := by
  unfold StepOk
  have htext : s.mode = .text → TextTok ev.tok := by
    intro hm
    obtain ⟨n, hn⟩ := hJ.tk.mp hm
    subst hn
    cases htk : ev.tok <;> simp_all [passes, TextTok]
  have hdata_of_start : ∀ n sc a, ev.tok = .start n sc a → tk = .data := by
    intro n sc a h
    cases tk <;> simp_all [passes]
  cases htok : ev.tok with
  | start n sc a =>
    obtain ⟨hv, hag⟩ : ev.view.isStart = true ∧ Agree cfg ev.hash n := by simpa [TbEv.Ok, htok] using hev
    obtain ⟨hsvg, hmath, htpl⟩ := hcl n sc a htok
    have htkd := hdata_of_start n sc a htok
    have hs1 : s.mode ≠ .text := by
      intro hm; obtain ⟨m, hm'⟩ := hJ.tk.mp hm; rw [htkd] at hm'; cases hm'
    have hstep := sim_start_html cfg sim hJ.simOk ev.hash ev.view hv (fun h => hsvg (hag.svg.mp h)) (fun h => hmath (hag.math.mp h))
    simp only [simStep, htok, hstep]
    cases hg : Guard.trackStartTag cfg sim.guard ev.hash with
    | error e => trivial
    | ok g' =>
      simp only
      obtain ⟨f1, f2, f3, f4⟩ := guard_start_facts cfg sim.guard g' ev.hash hg
      by_cases hα : n = .frameset ∧ inSelectState sim.guard = true
      · -- a `frameset` start tag while the guard is in a select state: ignored by the standard's parser
        obtain ⟨hn, hsel⟩ := hα
        subst hn
        have hD := hJ.sel hsel
        have hns0 := sel_not_sticky _ hsel
        have hG0 : GInv false s := hns0 ▸ hJ.inv
        have htokP : TokP s (.start .frameset sc a) := by
          intro n' sc' a' h; cases h
          exact ⟨by decide, by decide, by decide, fun _ => ⟨hD.2.1, hD.2.2⟩⟩
        obtain ⟨r1, r2, r3⟩ := phase_step hG0 hJ.ns hD.phase _ htokP (fun h => (hs1 h).elim)
        have hpost := step_post (c := cfgStd) (b := true) rfl rfl (GInv.mono hG0) hJ.ns (.start .frameset sc a)
          ⟨by decide, by decide, by decide, fun _ => rfl⟩ (fun h => (hs1 h).elim)
        have hsw : switchOfFeedback (textTypeAdjustment cfg ev.hash) = (step cfgStd s (.start .frameset sc a)).sw := by
          rw [hag.tta]
          rcases hpost.swStart .frameset sc a rfl with h | h <;> rw [h] <;> rfl
        refine ⟨⟨hsw, hag.tta⟩, ⟨hJ.simOk.stack, hJ.simOk.cur, hJ.simOk.strict⟩, GInv.cast r1 (fun h => by cases h),
          hpost.ns hJ.ns, ?_, fun _ => r2, fun _ => r3 hD⟩
        rw [hsw]
        unfold TkRel
        rw [hpost.text]
        simp only [hs1, false_and, or_false, htkd]
        generalize (step cfgStd s (Token.start Name.frameset sc a)).sw = sw
        cases sw <;> simp [nextTk, Switch.isRaw]
      -- every other start tag
      have hinv' : GInv (isSticky g') s := hJ.inv.cast (fun h => (f2 h).1)
      have htokok : TokOk (isSticky g') (.start n sc a) := by
        refine ⟨hsvg, hmath, htpl, fun hn => ?_⟩
        subst hn
        have hhash : ev.hash = cfg.gFrameset := hag.gFrameset.mpr rfl
        have hnsel : ev.hash ≠ cfg.gSelect := fun h => by have := hag.gSelect.mp h; cases this
        cases hgd : sim.guard with
        | default => exact f3 hgd hhash hnsel
        | inOrAfterFrameset => exact (f2 (by simp [hgd, isSticky])).1
        | inSelect => exact absurd ⟨rfl, by simp [hgd, inSelectState]⟩ hα
        | inTemplateInSelect d => exact absurd ⟨rfl, by simp [hgd, inSelectState]⟩ hα
      have hpost := step_post (c := cfgStd) rfl rfl hinv' hJ.ns (.start n sc a) htokok (fun h => (hs1 h).elim)
      have hsw : switchOfFeedback (textTypeAdjustment cfg ev.hash) = (step cfgStd s (.start n sc a)).sw := by
        rw [hag.tta]
        by_cases hnone : switchOf cfgStd n = .none
        · rcases hpost.swStart n sc a rfl with h | h
          · rw [h, hnone]
          · rw [h]
        · have hb : isSticky g' = false ∨ n = .noframes := by
            cases hst : isSticky g' with
            | false => exact Or.inl rfl
            | true =>
              right
              rcases f1 hst with h | ⟨-, h⟩
              · exact hag.gNoframes.mp ((f2 h).2 (hag.gText.mpr hnone))
              · have := hag.gFrameset.mp h
                subst this
                exact absurd rfl hnone
          exact ((hpost.swAct n sc a rfl hnone hb (by have := (show rank s.mode ≤ 7 by cases s.mode <;> simp [rank]); omega)).1).symm
      -- the token is of the class in the state `s` whenever no frameset has been acted upon
      have htokP : isSticky g' = false → TokP s (.start n sc a) := by
        intro hst n' sc' a' h
        cases h
        refine ⟨hsvg, hmath, htpl, fun hn => ?_⟩
        subst hn
        have hhash : ev.hash = cfg.gFrameset := hag.gFrameset.mpr rfl
        have hnsel : ev.hash ≠ cfg.gSelect := fun h => by have := hag.gSelect.mp h; cases this
        cases hgd : sim.guard with
        | default => have := f3 hgd hhash hnsel; rw [hst] at this; cases this
        | inOrAfterFrameset => have := (f2 (by simp [hgd, isSticky])).1; rw [hst] at this; cases this
        | inSelect => exact absurd ⟨rfl, by simp [hgd, inSelectState]⟩ hα
        | inTemplateInSelect d => exact absurd ⟨rfl, by simp [hgd, inSelectState]⟩ hα
      have hstg : isSticky g' = false → isSticky sim.guard = false := by
        intro h
        cases hq : isSticky sim.guard
        · rfl
        · rw [(f2 hq).1] at h; cases h
      refine ⟨⟨hsw, hag.tta⟩, ⟨hJ.simOk.stack, hJ.simOk.cur, hJ.simOk.strict⟩, hpost.inv, hpost.ns hJ.ns, ?_, ?_, ?_⟩
      · rw [hsw]
        unfold TkRel
        rw [hpost.text]
        simp only [hs1, false_and, or_false, htkd]
        generalize (step cfgStd s (Token.start n sc a)).sw = sw
        cases sw <;> simp [nextTk, Switch.isRaw]
      · intro hst
        have hG0 : GInv false s := (hstg hst) ▸ hJ.inv
        exact (phase_step hG0 hJ.ns (hJ.ph (hstg hst)) _ (htokP hst) (fun h => (hs1 h).elim)).2.1
      · intro hsel
        have hst := sel_not_sticky _ hsel
        have hG0 : GInv false s := (hstg hst) ▸ hJ.inv
        rcases f4 hsel with h | ⟨hgd, h⟩
        · exact (phase_step hG0 hJ.ns (hJ.ph (hstg hst)) _ (htokP hst) (fun h => (hs1 h).elim)).2.2 (hJ.sel h)
        · have := hag.gSelect.mp h
          subst this
          exact select_step hG0 hJ.ns (hJ.ph (hstg hst)) hs1 sc a
  | «end» n =>
    obtain ⟨hv, hag⟩ : ev.view.isStart = false ∧ Agree cfg ev.hash n := by simpa [TbEv.Ok, htok] using hev
    have hstep := sim_end_html cfg sim hJ.simOk ev.hash ev.view hv
    simp only [simStep, htok, hstep]
    obtain ⟨e1, e2⟩ := guard_end_facts cfg sim.guard ev.hash
    have hinv' : GInv (isSticky (Guard.trackEndTag cfg sim.guard ev.hash)) s := by rw [e1]; exact hJ.inv
    have htx : s.mode = .text → TextTok (.end n) := fun h => by have := htext h; simpa [htok] using this
    have hpost := step_post (c := cfgStd) rfl rfl hinv' hJ.ns (.end n) trivial htx
    have hsw : (step cfgStd s (.end n)).sw = .none := hpost.swOther (fun _ _ _ h => by cases h)
    obtain ⟨q1, q2⟩ := nonstart_fields hJ (.end n) (fun _ _ _ h => by cases h) htx _ e1 e2
    refine ⟨by simp [switchOfFeedback, hsw, expSw], ⟨hJ.simOk.stack, hJ.simOk.cur, hJ.simOk.strict⟩, hpost.inv,
      hpost.ns hJ.ns, ?_, q1, q2⟩
    unfold TkRel
    rw [hpost.text, hsw]
    simp only [Switch.isRaw, Bool.false_eq_true, false_or, switchOfFeedback]
    constructor
    · rintro ⟨_, cc, hcc⟩; cases hcc
    · rintro ⟨m, hm⟩
      exfalso
      cases tk <;> simp [nextTk] at hm
  | char cc =>
    simp only [simStep, htok]
    have htkd : tk = .data := by cases tk <;> simp_all [passes]
    have hs1 : s.mode ≠ .text := by
      intro hm; obtain ⟨m, hm'⟩ := hJ.tk.mp hm; rw [htkd] at hm'; cases hm'
    have hpost := step_post (c := cfgStd) rfl rfl hJ.inv hJ.ns (.char cc) trivial (fun h => (hs1 h).elim)
    have hsw : (step cfgStd s (.char cc)).sw = .none := hpost.swOther (fun _ _ _ h => by cases h)
    obtain ⟨q1, q2⟩ := nonstart_fields hJ (.char cc) (fun _ _ _ h => by cases h) (fun h => (hs1 h).elim) _ rfl (fun h => h)
    refine ⟨by simp [switchOfFeedback, hsw, expSw], hJ.simOk, hpost.inv, hpost.ns hJ.ns, ?_, q1, q2⟩
    unfold TkRel
    rw [hpost.text, hsw, htkd]
    simp [Switch.isRaw, hs1, nextTk, switchOfFeedback]
  | comment =>
    simp only [simStep, htok]
    have htkd : tk = .data := by cases tk <;> simp_all [passes]
    have hs1 : s.mode ≠ .text := by
      intro hm; obtain ⟨m, hm'⟩ := hJ.tk.mp hm; rw [htkd] at hm'; cases hm'
    have hpost := step_post (c := cfgStd) rfl rfl hJ.inv hJ.ns .comment trivial (fun h => (hs1 h).elim)
    have hsw : (step cfgStd s .comment).sw = .none := hpost.swOther (fun _ _ _ h => by cases h)
    obtain ⟨q1, q2⟩ := nonstart_fields hJ .comment (fun _ _ _ h => by cases h) (fun h => (hs1 h).elim) _ rfl (fun h => h)
    refine ⟨by simp [switchOfFeedback, hsw, expSw], hJ.simOk, hpost.inv, hpost.ns hJ.ns, ?_, q1, q2⟩
    unfold TkRel
    rw [hpost.text, hsw, htkd]
    simp [Switch.isRaw, hs1, nextTk, switchOfFeedback]
  | doctype d =>
    simp only [simStep, htok]
    have htkd : tk = .data := by cases tk <;> simp_all [passes]
    have hs1 : s.mode ≠ .text := by
      intro hm; obtain ⟨m, hm'⟩ := hJ.tk.mp hm; rw [htkd] at hm'; cases hm'
    have hpost := step_post (c := cfgStd) rfl rfl hJ.inv hJ.ns (.doctype d) trivial (fun h => (hs1 h).elim)
    have hsw : (step cfgStd s (.doctype d)).sw = .none := hpost.swOther (fun _ _ _ h => by cases h)
    obtain ⟨q1, q2⟩ := nonstart_fields hJ (.doctype d) (fun _ _ _ h => by cases h) (fun h => (hs1 h).elim) _ rfl (fun h => h)
    refine ⟨by simp [switchOfFeedback, hsw, expSw], hJ.simOk, hpost.inv, hpost.ns hJ.ns, ?_, q1, q2⟩
    unfold TkRel
    rw [hpost.text, hsw, htkd]
    simp [Switch.isRaw, hs1, nextTk, switchOfFeedback]
  | eof =>
    simp only [simStep, htok]
    have htx : s.mode = .text → TextTok .eof := fun h => by have := htext h; simpa [htok] using this
    have hpost := step_post (c := cfgStd) rfl rfl hJ.inv hJ.ns .eof trivial htx
    have hsw : (step cfgStd s .eof).sw = .none := hpost.swOther (fun _ _ _ h => by cases h)
    obtain ⟨q1, q2⟩ := nonstart_fields hJ .eof (fun _ _ _ h => by cases h) htx _ rfl (fun h => h)
    refine ⟨by simp [switchOfFeedback, hsw, expSw], hJ.simOk, hpost.inv, hpost.ns hJ.ns, ?_, q1, q2⟩
    unfold TkRel
    rw [hpost.text, hsw]
    simp only [Switch.isRaw, Bool.false_eq_true, false_or, switchOfFeedback]
    constructor
    · rintro ⟨_, cc, hcc⟩; cases hcc
    · rintro ⟨m, hm⟩
      cases tk <;> simp [nextTk] at hm

theorem joint_agree2 (cfg : TagCfg) (evs : List TbEv) :
    ∀ (sim : Sim) (s : State) (tk : TkState), JRel2 cfgStd sim s tk →
      (∀ ev ∈ evs, ev.Ok cfg) → (∀ ev ∈ evs, HtmlNoTemplate ev.tok) →
      ∀ p ∈ joint cfg cfgStd sim s tk evs, p.2.1 = p.2.2 ∧ p.2.1 = expSw cfgStd p.1 := by
  induction evs with
  | nil => intro sim s tk _ _ _ p hp; cases hp
  | cons ev evs ih =>
    intro sim s tk hJ hok hcls p hp
    have hok' : ∀ e ∈ evs, e.Ok cfg := fun e he => hok e (List.mem_cons_of_mem _ he)
    have hcls' : ∀ e ∈ evs, HtmlNoTemplate e.tok := fun e he => hcls e (List.mem_cons_of_mem _ he)
    unfold joint at hp
    by_cases hpass' : passes tk ev.tok = false
    · simp only [hpass', Bool.not_false, if_true] at hp
      exact ih sim s tk hJ hok' hcls' p hp
    have hpass : passes tk ev.tok = true := by simpa using hpass'
    simp only [hpass, Bool.not_true, Bool.false_eq_true, if_false] at hp
    have hstep := jrel2_step cfg hJ ev (hok ev (by simp)) (hcls ev (by simp)) hpass
    unfold StepOk at hstep
    cases hsim : simStep cfg sim ev with
    | error e => simp [hsim] at hp
    | ok r =>
      obtain ⟨sim', fb⟩ := r
      rw [hsim] at hstep
      simp only [hsim, List.mem_cons] at hp
      rcases hp with rfl | hp
      · exact hstep.1
      · exact ih _ _ _ hstep.2 hok' hcls' p hp

end LolHtml.Spec.TreeBuilder
