import LolHtml.Lemmas.Esc

/-! Escaping is transparent to entity decoding even when `&` itself is not escaped
(`escape_double_quotes_only`): `unescape (escape v) = unescape v`. -/
namespace LolHtml.Lemmas.EscUnescape
open LolHtml LolHtml.Model.Esc LolHtml.Spec.Esc LolHtml.Lemmas.Esc

/-- Replacements are non-empty, their first byte is not a trigger, and their other bytes are neither
triggers nor the first byte of a replacement. -/
def entitiesClean (t : EscTable) : Bool :=
  t.triggers.all fun b =>
    match t.repl b with
    | x :: tl =>
      !t.triggers.contains x &&
        tl.all fun y => !t.triggers.contains y && t.triggers.all fun b' => (t.repl b').head? != some y
    | [] => false

theorem find?_congr' {α} {p q : α → Bool} : ∀ {l : List α}, (∀ x ∈ l, p x = q x) → l.find? p = l.find? q
  | [], _ => rfl
  | a :: l, h => by
    simp only [List.find?_cons, h a (by simp)]
    cases q a
    · exact find?_congr' (fun x hx => h x (by simp [hx]))
    · rfl

theorem clean_shape {t : EscTable} (hc : entitiesClean t = true) {b : UInt8} (hb : t.triggers.contains b = true) :
    ∃ x tl, t.repl b = x :: tl ∧ t.triggers.contains x = false ∧
      ∀ y ∈ tl, t.triggers.contains y = false ∧ ∀ b', t.triggers.contains b' = true → (t.repl b').head? ≠ some y := by
  simp only [entitiesClean, List.all_eq_true] at hc
  have := hc b (by simpa using hb)
  split at this
  · rename_i x tl heq
    simp only [Bool.and_eq_true, Bool.not_eq_true', List.all_eq_true, bne_iff_ne, ne_eq] at this
    refine ⟨x, tl, heq, this.1, ?_⟩
    intro y hy
    refine ⟨(this.2 y hy).1, ?_⟩
    intro b' hb'
    exact (this.2 y hy).2 b' (by simpa using hb')
  · cases this

/-- A byte string made of bytes that are neither triggers nor entity heads is a prefix of the escaped
text iff it is a prefix of the text. -/
theorem isPrefixOf_escapeSpec {t : EscTable} (hc : entitiesClean t = true) : ∀ (tl r : Bytes),
    (∀ y ∈ tl, t.triggers.contains y = false ∧
      ∀ b', t.triggers.contains b' = true → (t.repl b').head? ≠ some y) →
    tl.isPrefixOf (escapeSpec t r) = tl.isPrefixOf r
  | [], r, _ => by simp [List.isPrefixOf]
  | z :: tl', [], _ => by simp [escapeSpec_nil, List.isPrefixOf]
  | z :: tl', y :: r', h => by
    rw [escapeSpec_cons]
    have hz := h z (by simp)
    by_cases hy : t.triggers.contains y = true
    · rw [if_pos hy]
      obtain ⟨x, xtl, hshape, _, _⟩ := clean_shape hc hy
      rw [hshape]
      simp only [List.cons_append, List.isPrefixOf_cons_cons]
      have hzx : (z == x) = false := by
        have := hz.2 y hy
        rw [hshape] at this
        simp only [List.head?_cons, ne_eq, Option.some.injEq] at this
        simp only [beq_eq_false_iff_ne, ne_eq]
        intro h'; exact this h'.symm
      have hzy : (z == y) = false := by
        simp only [beq_eq_false_iff_ne, ne_eq]
        intro h'; subst h'; rw [hy] at hz; cases hz.1
      rw [hzx, hzy]; rfl
    · rw [if_neg hy]
      simp only [List.cons_append, List.nil_append, List.isPrefixOf_cons_cons]
      rw [isPrefixOf_escapeSpec hc tl' r' (fun y hy' => h y (by simp [hy']))]

theorem unescapeAux_succ_cons (ents : List (Bytes × UInt8)) (k : Nat) (y : UInt8) (r : Bytes) :
    unescapeAux ents (k + 1) (y :: r) = unescapeAux ents k r := by
  rw [unescapeAux]

/-- Entity decoding does not see the escaping (generalised over the pending skip count). -/
theorem unescapeAux_escapeSpec {t : EscTable} (hc : entitiesClean t = true) (hpf : prefixFree t = true) :
    ∀ (r : Bytes) (k : Nat), (∀ x ∈ r.take k, t.triggers.contains x = false) →
      unescapeAux (EscTable.entities t) k (escapeSpec t r) = unescapeAux (EscTable.entities t) k r
  | [], k, _ => by rw [escapeSpec_nil]
  | y :: r', k + 1, h => by
    have hy : t.triggers.contains y = false := h y (by simp)
    rw [escapeSpec_cons, hy]
    simp only [Bool.false_eq_true, if_false, List.cons_append, List.nil_append, unescapeAux_succ_cons]
    exact unescapeAux_escapeSpec hc hpf r' k (fun x hx => h x (by simp [hx]))
  | y :: r', 0, _ => by
    have ih0 := unescapeAux_escapeSpec hc hpf r' 0 (by simp)
    rw [escapeSpec_cons]
    by_cases hy : t.triggers.contains y = true
    · rw [if_pos hy]
      obtain ⟨x, xtl, hshape, hx, _⟩ := clean_shape hc hy
      rw [unescapeAux_entity hpf hy hshape, ih0]
      -- right-hand side: no entity starts with the trigger byte `y`
      have hnone : (EscTable.entities t).find? (fun e => e.1.isPrefixOf (y :: r')) = none := by
        rw [List.find?_eq_none]
        intro e he hp
        simp only [EscTable.entities, List.mem_map] at he
        obtain ⟨b', hb', hee⟩ := he
        obtain ⟨x', xtl', hshape', hx', _⟩ := clean_shape hc (b := b') (by simpa using hb')
        rw [← hee] at hp
        simp only [hshape', List.isPrefixOf_cons_cons, Bool.and_eq_true, beq_iff_eq] at hp
        rw [hp.1, hy] at hx'; cases hx'
      rw [unescapeAux_zero_cons, hnone]
    · rw [if_neg hy]
      simp only [List.cons_append, List.nil_append]
      have hpred : ∀ e ∈ EscTable.entities t,
          e.1.isPrefixOf (y :: escapeSpec t r') = e.1.isPrefixOf (y :: r') := by
        intro e he
        simp only [EscTable.entities, List.mem_map] at he
        obtain ⟨b', hb', hee⟩ := he
        obtain ⟨x', xtl', hshape', _, htl'⟩ := clean_shape hc (b := b') (by simpa using hb')
        rw [← hee]
        simp only [hshape', List.isPrefixOf_cons_cons]
        rw [isPrefixOf_escapeSpec hc xtl' r' htl']
      rw [unescapeAux_zero_cons, unescapeAux_zero_cons, find?_congr' hpred]
      cases hf : (EscTable.entities t).find? (fun e => e.1.isPrefixOf (y :: r')) with
      | none => simp only; rw [ih0]
      | some e =>
        simp only
        have he := List.mem_of_find?_eq_some hf
        have hp := List.find?_some hf
        simp only [EscTable.entities, List.mem_map] at he
        obtain ⟨b', hb', hee⟩ := he
        obtain ⟨x', xtl', hshape', _, htl'⟩ := clean_shape hc (b := b') (by simpa using hb')
        rw [← hee] at hp ⊢
        simp only [hshape', List.isPrefixOf_cons_cons, Bool.and_eq_true] at hp
        simp only [hshape', List.length_cons, Nat.add_sub_cancel]
        have hpre : xtl' <+: r' := List.isPrefixOf_iff_prefix.mp hp.2
        congr 1
        apply unescapeAux_escapeSpec hc hpf r' xtl'.length
        intro x hx
        have : r'.take xtl'.length = xtl' := by
          obtain ⟨c, hc'⟩ := hpre
          rw [← hc']; simp
        rw [this] at hx
        exact (htl' x hx).1

theorem unescape_escapeSpec_transparent {t : EscTable} (hc : entitiesClean t = true)
    (hpf : prefixFree t = true) (v : Bytes) :
    unescapeWith (EscTable.entities t) (escapeSpec t v) = unescapeWith (EscTable.entities t) v :=
  unescapeAux_escapeSpec hc hpf v 0 (by simp)

/-- Decoding is the identity on a text in which no entity of the table occurs. -/
theorem unescape_of_no_entity (ents : List (Bytes × UInt8)) : ∀ (v : Bytes),
    (∀ e ∈ ents, ¬ e.1 <:+: v) → unescapeWith ents v = v
  | [], _ => rfl
  | b :: rest, h => by
    unfold unescapeWith
    have hnone : ents.find? (fun e => e.1.isPrefixOf (b :: rest)) = none := by
      rw [List.find?_eq_none]
      intro e he hp
      exact h e he (List.isPrefixOf_iff_prefix.mp hp).isInfix
    rw [unescapeAux_zero_cons, hnone]
    simp only
    have := unescape_of_no_entity ents rest (fun e he hi => h e he (List.infix_cons hi))
    unfold unescapeWith at this
    rw [this]

end LolHtml.Lemmas.EscUnescape
