import LolHtml.Lemmas.RewriteIndep
/-!
Independence of rewrites, at the level of `TransformStream` / `HtmlRewriter`: with `rechunk`ed handlers
every call returns the same result and leaves the same state, except for the sink log.
-/
namespace LolHtml.Model
variable {γ : Type}

section
variable {w : World γ} {ch : γ → Token → List Bytes} {he : γ → List Bytes} {bo : γ → Err → List Bytes}

/-- the world with the re-chunked controller -/
def World.rechunk (w : World γ) (ch : γ → Token → List Bytes) (he : γ → List Bytes) (bo : γ → Err → List Bytes) :
    World γ := ⟨w.tbl, w.tags, Model.rechunk w.ctl ch he bo⟩

local notation "w'" => World.rechunk w ch he bo

/-- `parse` with re-chunked handlers: same result, related parsers (no side-condition needed beyond `EmitsChecked`) -/
theorem parse_rechunk (ht : EmitsChecked w.tbl = true) (inp : Bytes) (last : Bool) (p₁ p₂ : Parser (Disp γ))
    (hp : PR DR p₁ p₂) :
    PR DR (Parser.parse (w').env inp last p₁).1 (Parser.parse w.env inp last p₂).1 ∧
    (Parser.parse (w').env inp last p₁).2 = (Parser.parse w.env inp last p₂).2 := by
  have h1 := Parser.parse_rel (tbl := w.tbl) (cfg := w.tags) (inp := inp)
    (dispOps_rechunk (ctl := w.ctl) (ch := ch) (he := he) (bo := bo) (.panic "a")) ht (by intro s; simp) last p₁ p₂ hp
  have h2 := Parser.parse_rel (tbl := w.tbl) (cfg := w.tags) (inp := inp)
    (dispOps_rechunk (ctl := w.ctl) (ch := ch) (he := he) (bo := bo) (.panic "b")) ht (by intro s; simp) last p₁ p₂ hp
  rcases h1 with h1 | h1
  · exact h1
  · rcases h2 with h2 | h2
    · exact h2
    · exfalso
      have e1 : (Parser.parse (w').env inp last p₁).2 = .error (.panic "a") := h1
      have e2 : (Parser.parse (w').env inp last p₁).2 = .error (.panic "b") := h2
      rw [e1] at e2
      simp at e2

/-- related transform streams: everything equal except the sink log -/
def SR (s₁ s₂ : Stream γ) : Prop :=
  PR DR s₁.parser s₂.parser ∧ s₁.buf = s₂.buf ∧ s₁.hasBuffered = s₂.hasBuffered ∧ s₁.cfg = s₂.cfg ∧
  s₁.bailOutRuns = s₂.bailOutRuns

theorem SR.disp {s₁ s₂ : Stream γ} (h : SR s₁ s₂) : DR s₁.disp s₂.disp := h.1.2.2.2.2.2.1

theorem SR.setDisp {s₁ s₂ : Stream γ} (h : SR s₁ s₂) {d₁ d₂ : Disp γ} (hd : DR d₁ d₂) :
    SR (s₁.setDisp d₁) (s₂.setDisp d₂) := by
  obtain ⟨⟨a, b, c, d, e, f, g, i⟩, h2, h3, h4, h5⟩ := h
  exact ⟨⟨a, b, c, d, e, hd, g, i⟩, h2, h3, h4, h5⟩

theorem dr_flushForBailOut {d₁ d₂ : Disp γ} (sl : Bytes) (h : DR d₁ d₂) :
    DR (match d₁.flushForBailOut sl with | .ok d => d | .error _ => d₁)
       (match d₂.flushForBailOut sl with | .ok d => d | .error _ => d₂) := by
  rw [h.eq_setSink]
  unfold Disp.flushForBailOut
  simp only
  cases checkedSlice sl ⟨d₂.rcs, sl.length⟩ with
  | none => rfl
  | some out => simp only; split <;> rfl

theorem dr_runBailOut {d₁ d₂ : Disp γ} (e : Err) (h : DR d₁ d₂) :
    DR (d₁.runBailOut (w').ctl e) (d₂.runBailOut w.ctl e) := by
  rw [h.eq_setSink]; rfl

theorem bail_rel {s₁ s₂ : Stream γ} (e : Err) (sl : List Bytes) (h : SR s₁ s₂) :
    SR (s₁.bail w' e sl) (s₂.bail w e sl) := by
  unfold Stream.bail Stream.shouldBailOutFor
  rw [h.2.2.2.1]
  split
  · have hfold : ∀ (sl : List Bytes) (d₁ d₂ : Disp γ), DR d₁ d₂ →
        DR (sl.foldl (fun d sl => match d.flushForBailOut sl with | .ok d => d | .error _ => d) d₁)
           (sl.foldl (fun d sl => match d.flushForBailOut sl with | .ok d => d | .error _ => d) d₂) := by
      intro sl
      induction sl with
      | nil => intro d₁ d₂ hd; exact hd
      | cons a as ih => intro d₁ d₂ hd; exact ih _ _ (dr_flushForBailOut a hd)
    have := h.setDisp (hfold sl _ _ (dr_runBailOut (w := w) (ch := ch) (he := he) (bo := bo) e h.disp))
    obtain ⟨a, b, c, d, e'⟩ := this
    exact ⟨a, b, c, d, congrArg (· + 1) h.2.2.2.2⟩
  · exact h

theorem dr_flushRemaining {d₁ d₂ : Disp γ} (inp : Bytes) (consumed : Nat) (h : DR d₁ d₂) :
    (∃ e, d₁.flushRemaining inp consumed = .error e ∧ d₂.flushRemaining inp consumed = .error e) ∨
    (∃ a b, d₁.flushRemaining inp consumed = .ok a ∧ d₂.flushRemaining inp consumed = .ok b ∧ DR a b) := by
  rw [h.eq_setSink]
  unfold Disp.flushRemaining
  simp only
  split
  · cases checkedSlice inp ⟨d₂.rcs, consumed⟩ with
    | none => exact Or.inl ⟨_, rfl, rfl⟩
    | some out => exact Or.inr ⟨_, _, rfl, rfl, by split <;> rfl⟩
  · exact Or.inr ⟨_, _, rfl, rfl, rfl⟩

theorem SR.mk' {p₁ p₂ : Parser (Disp γ)} (hp : PR DR p₁ p₂) (b : Buf) (hb : Bool) (c : Settings) (n : Nat) :
    SR ⟨p₁, b, hb, c, n⟩ ⟨p₂, b, hb, c, n⟩ := ⟨hp, rfl, rfl, rfl, rfl⟩

theorem keepTail_rel {s₁ s₂ : Stream γ} (data chunk : Bytes) (consumed : Nat) (h : SR s₁ s₂) :
    SR (s₁.keepTail w' data chunk consumed).1 (s₂.keepTail w data chunk consumed).1 ∧
    (s₁.keepTail w' data chunk consumed).2 = (s₂.keepTail w data chunk consumed).2 := by
  obtain ⟨hp, hb, hh, hc, hn⟩ := h
  obtain ⟨p₁, buf₁, hb₁, cfg₁, n₁⟩ := s₁
  obtain ⟨p₂, buf₂, hb₂, cfg₂, n₂⟩ := s₂
  simp only at hp hb hh hc hn
  subst hb hh hc hn
  unfold Stream.keepTail
  simp only
  by_cases hlt : consumed < chunk.length
  · simp only [hlt, if_true]
    cases hb₁ with
    | true =>
      simp only [if_true]
      cases buf₁.shift consumed with
      | some b => exact ⟨SR.mk' hp _ _ _ _, by first | rfl | trivial⟩
      | none => exact ⟨SR.mk' hp _ _ _ _, by first | rfl | trivial⟩
    | false =>
      simp only [Bool.false_eq_true, if_false]
      by_cases hi : (buf₁.initWith (List.drop consumed data)).2 = true
      · simp only [hi, if_true]
        exact ⟨SR.mk' hp _ _ _ _, by first | rfl | trivial⟩
      · simp only [hi, if_false]
        exact ⟨bail_rel _ _ (SR.mk' hp _ _ _ _), by first | rfl | trivial⟩
  · simp only [hlt, if_false]
    exact ⟨SR.mk' hp _ _ _ _, by first | rfl | trivial⟩

/-- the part of `write` after the chunk has been determined -/
theorem write_tail_rel (ht : EmitsChecked w.tbl = true) {s₁ s₂ : Stream γ} (data chunk : Bytes) (h : SR s₁ s₂) :
    SR (match (s₁.parser.parse (w').env chunk false).2 with
          | .error e => (({ s₁ with parser := (s₁.parser.parse (w').env chunk false).1 } : Stream γ).bail w' e [chunk], Except.error e)
          | .ok consumed =>
            match ({ s₁ with parser := (s₁.parser.parse (w').env chunk false).1 } : Stream γ).disp.flushRemaining chunk consumed with
            | .error e => (({ s₁ with parser := (s₁.parser.parse (w').env chunk false).1 } : Stream γ), Except.error e)
            | .ok d => (({ s₁ with parser := (s₁.parser.parse (w').env chunk false).1 } : Stream γ).setDisp d).keepTail w' data chunk consumed).1
       (match (s₂.parser.parse w.env chunk false).2 with
          | .error e => (({ s₂ with parser := (s₂.parser.parse w.env chunk false).1 } : Stream γ).bail w e [chunk], Except.error e)
          | .ok consumed =>
            match ({ s₂ with parser := (s₂.parser.parse w.env chunk false).1 } : Stream γ).disp.flushRemaining chunk consumed with
            | .error e => (({ s₂ with parser := (s₂.parser.parse w.env chunk false).1 } : Stream γ), Except.error e)
            | .ok d => (({ s₂ with parser := (s₂.parser.parse w.env chunk false).1 } : Stream γ).setDisp d).keepTail w data chunk consumed).1 ∧
    (match (s₁.parser.parse (w').env chunk false).2 with
          | .error e => (({ s₁ with parser := (s₁.parser.parse (w').env chunk false).1 } : Stream γ).bail w' e [chunk], Except.error e)
          | .ok consumed =>
            match ({ s₁ with parser := (s₁.parser.parse (w').env chunk false).1 } : Stream γ).disp.flushRemaining chunk consumed with
            | .error e => (({ s₁ with parser := (s₁.parser.parse (w').env chunk false).1 } : Stream γ), Except.error e)
            | .ok d => (({ s₁ with parser := (s₁.parser.parse (w').env chunk false).1 } : Stream γ).setDisp d).keepTail w' data chunk consumed).2 =
       (match (s₂.parser.parse w.env chunk false).2 with
          | .error e => (({ s₂ with parser := (s₂.parser.parse w.env chunk false).1 } : Stream γ).bail w e [chunk], Except.error e)
          | .ok consumed =>
            match ({ s₂ with parser := (s₂.parser.parse w.env chunk false).1 } : Stream γ).disp.flushRemaining chunk consumed with
            | .error e => (({ s₂ with parser := (s₂.parser.parse w.env chunk false).1 } : Stream γ), Except.error e)
            | .ok d => (({ s₂ with parser := (s₂.parser.parse w.env chunk false).1 } : Stream γ).setDisp d).keepTail w data chunk consumed).2 := by
  obtain ⟨hp, hb, hh, hc, hn⟩ := h
  obtain ⟨p₁, buf₁, hb₁, cfg₁, n₁⟩ := s₁
  obtain ⟨p₂, buf₂, hb₂, cfg₂, n₂⟩ := s₂
  simp only at hp hb hh hc hn
  subst hb hh hc hn
  obtain ⟨hpr, hres⟩ := parse_rechunk (w := w) (ch := ch) (he := he) (bo := bo) ht chunk false p₁ p₂ hp
  simp only
  rw [hres]
  cases (Parser.parse w.env chunk false p₂).2 with
  | error e => exact ⟨bail_rel _ _ (SR.mk' hpr _ _ _ _), by first | rfl | trivial⟩
  | ok consumed =>
    simp only
    rcases dr_flushRemaining chunk consumed hpr.2.2.2.2.2.1 with ⟨e, e1, e2⟩ | ⟨a, b, e1, e2, hab⟩
    · simp only [Stream.disp, e1, e2]
      exact ⟨SR.mk' hpr _ _ _ _, by first | rfl | trivial⟩
    · simp only [Stream.disp, e1, e2]
      exact keepTail_rel _ _ _ ((SR.mk' hpr _ _ _ _).setDisp hab)

/-- **`write` with re-chunked handlers.** -/
theorem write_rel (ht : EmitsChecked w.tbl = true) {s₁ s₂ : Stream γ} (data : Bytes) (h : SR s₁ s₂) :
    SR (s₁.write w' data).1 (s₂.write w data).1 ∧ (s₁.write w' data).2 = (s₂.write w data).2 := by
  obtain ⟨hp, hb, hh, hc, hn⟩ := h
  obtain ⟨p₁, buf₁, hb₁, cfg₁, n₁⟩ := s₁
  obtain ⟨p₂, buf₂, hb₂, cfg₂, n₂⟩ := s₂
  simp only at hp hb hh hc hn
  subst hb hh hc hn
  unfold Stream.write Stream.chunkFor
  cases hb₁ with
  | true =>
    simp only [if_true]
    by_cases ha : (buf₁.append data).2 = true
    · simp only [ha, if_true]
      exact write_tail_rel ht data _ (SR.mk' hp _ _ _ _)
    · simp only [ha, if_false]
      exact ⟨bail_rel _ _ (SR.mk' hp _ _ _ _), by first | rfl | trivial⟩
  | false =>
    simp only [Bool.false_eq_true, if_false]
    exact write_tail_rel ht data _ (SR.mk' hp _ _ _ _)

/-- **`end` with re-chunked handlers.** -/
theorem end_rel (ht : EmitsChecked w.tbl = true) {s₁ s₂ : Stream γ} (h : SR s₁ s₂) :
    SR (s₁.end w').1 (s₂.end w).1 ∧ (s₁.end w').2 = (s₂.end w).2 := by
  obtain ⟨hp, hb, hh, hc, hn⟩ := h
  obtain ⟨p₁, buf₁, hb₁, cfg₁, n₁⟩ := s₁
  obtain ⟨p₂, buf₂, hb₂, cfg₂, n₂⟩ := s₂
  simp only at hp hb hh hc hn
  subst hb hh hc hn
  unfold Stream.end
  simp only
  generalize (if hb₁ = true then buf₁.data else []) = chunk
  obtain ⟨hpr, hres⟩ := parse_rechunk (w := w) (ch := ch) (he := he) (bo := bo) ht chunk true p₁ p₂ hp
  rw [hres]
  cases (Parser.parse w.env chunk true p₂).2 with
  | error e => exact ⟨bail_rel _ _ (SR.mk' hpr _ _ _ _), by first | rfl | trivial⟩
  | ok consumed =>
    simp only
    unfold Disp.finish
    rcases dr_flushRemaining chunk chunk.length hpr.2.2.2.2.2.1 with ⟨e, e1, e2⟩ | ⟨a, b, e1, e2, hab⟩
    · simp only [Stream.disp, e1, e2, DRes.ofExcept, DRes.bind]
      exact ⟨(SR.mk' hpr _ _ _ _).setDisp hpr.2.2.2.2.2.1, by first | rfl | trivial⟩
    · simp only [Stream.disp, e1, e2, DRes.ofExcept, DRes.bind]
      rw [hab.eq_setSink]
      simp only [World.rechunk, Model.rechunk]
      cases (w.ctl.handleEnd b.ctl).2.2 with
      | some err => exact ⟨(SR.mk' hpr _ _ _ _).setDisp rfl, by first | rfl | trivial⟩
      | none => exact ⟨(SR.mk' hpr _ _ _ _).setDisp rfl, by first | rfl | trivial⟩

end
end LolHtml.Model
