/-
Package `full`: the `HandlerVec` totals stay equal to the sum of their item counts under every
operation of `ContentHandlersDispatcher` — whatever the operations return — so that
`has_active()` (a test of the TOTAL, handlers_dispatcher.rs:79) is equivalent to "some item is
active". Used for `Full_flags`.
-/
import LolHtml.Lemmas.ScopeVec

namespace LolHtml.Lemmas.Full
open LolHtml.Model.Handlers LolHtml.Lemmas.Scope

variable {α : Type}

/-- the total of a `HandlerVec` is the sum of the counts of its items -/
def VecWf (v : HandlerVec α) : Prop := v.userCount = (v.items.map (·.userCount)).sum

theorem VecWf.eq_mk {v : HandlerVec α} (h : VecWf v) : v = mk v.items := by
  cases v; simp only [VecWf] at h; simp [mk, h]

theorem vecWf_mk (items : List (Item α)) : VecWf (mk items) := rfl

theorem vecWf_empty : VecWf (HandlerVec.empty : HandlerVec α) := rfl

theorem push_wf {v : HandlerVec α} (h : VecWf v) (x : α) (b : Bool) : VecWf (v.push x b).1 := by
  simp only [VecWf, HandlerVec.push] at *
  simp [List.sum_append, h]

theorem inc_wf {v v' : HandlerVec α} (h : VecWf v) (l : Locator) (hr : v.incUserCount l = .ok v') : VecWf v' := by
  rw [h.eq_mk] at hr
  cases hi : v.items[l.idx]? with
  | none => simp [HandlerVec.incUserCount, hi] at hr
  | some it =>
    rw [show l = ⟨l.idx⟩ from rfl, inc_mk _ _ it hi] at hr
    simp only [Except.ok.injEq] at hr
    subst hr; exact vecWf_mk _

theorem dec_wf {v v' : HandlerVec α} (h : VecWf v) (l : Locator) (hr : v.decUserCount l = .ok v') : VecWf v' := by
  cases hi : v.items[l.idx]? with
  | none => simp [HandlerVec.decUserCount, hi] at hr
  | some it =>
    by_cases hpos : 0 < it.userCount
    · rw [h.eq_mk, show l = ⟨l.idx⟩ from rfl, dec_mk _ _ it hi hpos] at hr
      simp only [Except.ok.injEq] at hr
      subst hr; exact vecWf_mk _
    · have h0 : it.userCount = 0 := by omega
      simp [HandlerVec.decUserCount, hi, checkedSub, h0] at hr

theorem incOptional_wf {v v' : HandlerVec α} (h : VecWf v) (l : Option Locator)
    (hr : v.incOptional l = .ok v') : VecWf v' := by
  cases l with
  | none => simp only [HandlerVec.incOptional, Except.ok.injEq] at hr; subst hr; exact h
  | some l => exact inc_wf h l hr

theorem decOptional_wf {v v' : HandlerVec α} (h : VecWf v) (l : Option Locator)
    (hr : v.decOptional l = .ok v') : VecWf v' := by
  cases l with
  | none => simp only [HandlerVec.decOptional, Except.ok.injEq] at hr; subst hr; exact h
  | some l => exact dec_wf h l hr

theorem deactivate_wf {v v' : HandlerVec α} {inv : List α} (h : VecWf v)
    (hr : v.doForEachActiveAndDeactivate = .ok (v', inv)) : VecWf v' ∧ inv = v.forEachActive := by
  rw [h.eq_mk, deactivate_mk] at hr
  simp only [Except.ok.injEq, Prod.mk.injEq] at hr
  obtain ⟨h1, h2⟩ := hr
  subst h1
  exact ⟨vecWf_mk _, by rw [← h2]; rfl⟩

theorem sum_zero_of_inactive (items : List (Item α))
    (h : ∀ it ∈ items, ¬ (decide (0 < it.userCount) = true)) : (items.map (·.userCount)).sum = 0 := by
  apply sum_zero_of_all_zero
  intro x hx
  obtain ⟨it, hit, rfl⟩ := List.mem_map.1 hx
  have := h it hit
  simp only [decide_eq_true_eq] at this
  omega

/-- `do_for_each_active_and_remove_tail` always leaves a synchronised vector (its final
`debug_assert_eq!(self.user_count, 0)` is modelled as a failure). -/
theorem removeTail_wf {v v' : HandlerVec α} {inv : List α}
    (hr : v.doForEachActiveAndRemoveTail = .ok (v', inv)) : VecWf v' := by
  unfold HandlerVec.doForEachActiveAndRemoveTail at hr
  split at hr
  · rename_i hnone
    split at hr
    · rename_i h0
      simp only [Except.ok.injEq, Prod.mk.injEq] at hr
      rw [← hr.1]
      rw [List.findIdx?_eq_none_iff] at hnone
      simp only [VecWf, h0]
      exact (sum_zero_of_inactive _ (fun it hit => by simpa using hnone it hit)).symm
    · simp at hr
  · rename_i first hsome
    split at hr
    · simp at hr
    · rename_i t inv' _
      split at hr
      · rename_i ht
        simp only [Except.ok.injEq, Prod.mk.injEq] at hr
        rw [← hr.1]
        simp only [VecWf, ht]
        rw [List.findIdx?_eq_some_iff_getElem] at hsome
        obtain ⟨hlt, _, hbefore⟩ := hsome
        symm
        apply sum_zero_of_inactive
        intro it hit
        obtain ⟨j, hj, rfl⟩ := List.getElem_of_mem hit
        have hj' : j < first := by simpa using (by simpa using hj : j < (v.items.take first).length) |> fun h => (by
          simp only [List.length_take] at h; omega)
        have := hbefore j hj'
        simpa [List.getElem_take] using this
      · simp at hr

theorem hasActive_iff {v : HandlerVec α} (h : VecWf v) :
    v.hasActive = true ↔ ∃ it ∈ v.items, 0 < it.userCount := by
  simp only [HandlerVec.hasActive, decide_eq_true_eq]
  rw [h]
  constructor
  · intro hpos
    by_cases hex : ∃ it ∈ v.items, 0 < it.userCount
    · exact hex
    · exfalso
      have : (v.items.map (·.userCount)).sum = 0 := by
        apply sum_zero_of_all_zero
        intro x hx
        obtain ⟨it, hit, rfl⟩ := List.mem_map.1 hx
        by_cases hz : it.userCount = 0
        · exact hz
        · exact absurd ⟨it, hit, by omega⟩ hex
      omega
  · rintro ⟨it, hit, hpos⟩
    obtain ⟨j, hj, rfl⟩ := List.getElem_of_mem hit
    obtain ⟨c, hc⟩ : ∃ c, v.items[j].userCount = c + 1 := ⟨v.items[j].userCount - 1, by omega⟩
    exact sum_pos_of_getElem (v.items.map (·.userCount)) j c (by simp [hj, hc])


/-! ### the `HandlerVec` loops cannot fail on a synchronised vector -/

theorem deactivate_ok {v : HandlerVec α} (h : VecWf v) : ∃ r, v.doForEachActiveAndDeactivate = .ok r := by
  rw [h.eq_mk, deactivate_mk]; exact ⟨_, rfl⟩

theorem drainLoop_spec (items : List (Item α)) (t : Nat) (ht : (items.map (·.userCount)).sum ≤ t) :
    HandlerVec.drainLoop items t =
      .ok (t - (items.map (·.userCount)).sum, (items.filter fun it => decide (0 < it.userCount)).map (·.handler)) := by
  induction items generalizing t with
  | nil => simp [HandlerVec.drainLoop]
  | cons x xs ih =>
    simp only [List.map_cons, List.sum_cons] at ht
    unfold HandlerVec.drainLoop
    by_cases hx : 0 < x.userCount
    · have h1 : x.userCount ≤ t := by omega
      simp only [hx, if_true, checkedSub, h1]
      rw [ih (t - x.userCount) (by omega)]
      simp [hx, List.sum_cons, Nat.sub_sub]
    · have h0 : x.userCount = 0 := by omega
      simp only [hx, if_false]
      rw [ih t (by omega)]
      simp [List.sum_cons, h0]

/-- neither the `-=` on the total (handlers_dispatcher.rs:123) nor the final
`debug_assert_eq!(self.user_count, 0)` (:128) of `do_for_each_active_and_remove_tail` can fire -/
theorem removeTail_ok {v : HandlerVec α} (h : VecWf v) : ∃ r, v.doForEachActiveAndRemoveTail = .ok r := by
  unfold HandlerVec.doForEachActiveAndRemoveTail
  split
  · rename_i hnone
    rw [List.findIdx?_eq_none_iff] at hnone
    have : v.userCount = 0 := by
      rw [h]; exact sum_zero_of_inactive _ (fun it hit => by simpa using hnone it hit)
    simp [this]
  · rename_i first hsome
    rw [List.findIdx?_eq_some_iff_getElem] at hsome
    obtain ⟨hlt, _, hbefore⟩ := hsome
    have hsplit : (v.items.map (·.userCount)).sum =
        ((v.items.take first).map (·.userCount)).sum + ((v.items.drop first).map (·.userCount)).sum := by
      rw [← List.sum_append, ← List.map_append, List.take_append_drop]
    have htake : ((v.items.take first).map (·.userCount)).sum = 0 := by
      apply sum_zero_of_inactive
      intro it hit
      obtain ⟨j, hj, rfl⟩ := List.getElem_of_mem hit
      have hj' : j < first := by simp only [List.length_take] at hj; omega
      have := hbefore j hj'
      simpa [List.getElem_take] using this
    have hsum : ((v.items.drop first).reverse.map (·.userCount)).sum = v.userCount := by
      rw [List.map_reverse, sum_reverse, h, hsplit, htake]; omega
    rw [drainLoop_spec _ _ (by rw [hsum]; exact Nat.le_refl _), hsum]
    simp

/-! ### the dispatcher -/

/-- every vector of the dispatcher is synchronised -/
structure DispWf (d : Dispatcher) : Prop where
  doctype : VecWf d.doctype
  comment : VecWf d.comment
  text : VecWf d.text
  endTag : VecWf d.endTag
  element : VecWf d.element
  end_ : VecWf d.end_

theorem default_wf : DispWf Dispatcher.default :=
  ⟨vecWf_empty, vecWf_empty, vecWf_empty, vecWf_empty, vecWf_empty, vecWf_empty⟩

theorem addSel_wf {d : Dispatcher} (h : DispWf d) (r : SelReg) : DispWf (d.addSelectorAssociatedHandlers r) := by
  unfold Dispatcher.addSelectorAssociatedHandlers
  refine ⟨h.doctype, ?_, ?_, h.endTag, ?_, h.end_⟩
  · dsimp only; split <;> first | exact push_wf h.comment _ _ | exact h.comment
  · dsimp only; split <;> first | exact push_wf h.text _ _ | exact h.text
  · dsimp only; split <;> first | exact push_wf h.element _ _ | exact h.element

theorem addDoc_wf {d : Dispatcher} (h : DispWf d) (id : HId) (r : DocReg) :
    DispWf (d.addDocumentContentHandlers id r) := by
  have s1 : ∀ d : Dispatcher, DispWf d →
      DispWf (if r.doctype then { d with doctype := (d.doctype.push id true).1 } else d) := by
    intro d h; split
    · exact ⟨push_wf h.doctype _ _, h.comment, h.text, h.endTag, h.element, h.end_⟩
    · exact h
  have s2 : ∀ d : Dispatcher, DispWf d →
      DispWf (if r.comments then { d with comment := (d.comment.push id true).1 } else d) := by
    intro d h; split
    · exact ⟨h.doctype, push_wf h.comment _ _, h.text, h.endTag, h.element, h.end_⟩
    · exact h
  have s3 : ∀ d : Dispatcher, DispWf d →
      DispWf (if r.text then { d with text := (d.text.push id true).1 } else d) := by
    intro d h; split
    · exact ⟨h.doctype, h.comment, push_wf h.text _ _, h.endTag, h.element, h.end_⟩
    · exact h
  have s4 : ∀ d : Dispatcher, DispWf d →
      DispWf (if r.end_ then { d with end_ := (d.end_.push id true).1 } else d) := by
    intro d h; split
    · exact ⟨h.doctype, h.comment, h.text, h.endTag, h.element, push_wf h.end_ _ _⟩
    · exact h
  exact s4 _ (s3 _ (s2 _ (s1 _ h)))

theorem addDocs_wf {d : Dispatcher} (h : DispWf d) (base : Nat) (rs : List DocReg) : DispWf (d.addDocs base rs) := by
  induction rs generalizing d base with
  | nil => exact h
  | cons r rs ih => exact ih (addDoc_wf h base r) (base + 1)

theorem foldl_addSel_wf {d : Dispatcher} (h : DispWf d) (rs : List SelReg) :
    DispWf (rs.foldl Dispatcher.addSelectorAssociatedHandlers d) := by
  induction rs generalizing d with
  | nil => exact h
  | cons r rs ih => exact ih (addSel_wf h r)

theorem fromSettings_wf (sels : List SelReg) (docs : List DocReg) : DispWf (Dispatcher.fromSettings sels docs) :=
  addDocs_wf (foldl_addSel_wf default_wf sels) _ docs

theorem startMatching_wf {d d' : Dispatcher} (h : DispWf d) (m : Nat) (wc : Bool)
    (hr : d.startMatching m wc = .ok d') : DispWf d' := by
  unfold Dispatcher.startMatching at hr
  split at hr
  · simp at hr
  · rename_i loc _
    split at hr
    · simp at hr
    · rename_i co hco
      split at hr
      · simp at hr
      · rename_i tx htx
        split at hr
        · simp at hr
        · rename_i el hel
          simp only [Except.ok.injEq] at hr
          subst hr
          have hc : VecWf co := by
            split at hco
            · exact incOptional_wf h.comment _ hco
            · simp only [Except.ok.injEq] at hco; subst hco; exact h.comment
          have ht : VecWf tx := by
            split at htx
            · exact incOptional_wf h.text _ htx
            · simp only [Except.ok.injEq] at htx; subst htx; exact h.text
          exact ⟨h.doctype, hc, ht, h.endTag, incOptional_wf h.element _ hel, h.end_⟩

theorem stopMatchingId_wf {d d' : Dispatcher} (h : DispWf d) (m : Nat)
    (hr : d.stopMatchingId m = .ok d') : DispWf d' := by
  unfold Dispatcher.stopMatchingId at hr
  split at hr
  · simp at hr
  · split at hr
    · simp at hr
    · rename_i co hco
      split at hr
      · simp at hr
      · rename_i tx htx
        simp only [Except.ok.injEq] at hr
        subst hr
        exact ⟨h.doctype, decOptional_wf h.comment _ hco, decOptional_wf h.text _ htx, h.endTag, h.element, h.end_⟩

theorem stopMatchingIds_wf {d d' : Dispatcher} (h : DispWf d) (ms : List Nat)
    (hr : d.stopMatchingIds ms = .ok d') : DispWf d' := by
  induction ms generalizing d with
  | nil => simp only [Dispatcher.stopMatchingIds, Except.ok.injEq] at hr; subst hr; exact h
  | cons m ms ih =>
    unfold Dispatcher.stopMatchingIds at hr
    split at hr
    · simp at hr
    · rename_i d1 h1
      exact ih (stopMatchingId_wf h m h1) hr

theorem stopMatching_wf {d d' : Dispatcher} (h : DispWf d) (desc : ElementDescriptor)
    (hr : d.stopMatching desc = .ok d') : DispWf d' := by
  unfold Dispatcher.stopMatching at hr
  split at hr
  · simp at hr
  · rename_i d1 h1
    have w1 := stopMatchingIds_wf h _ h1
    split at hr
    · simp at hr
    · rename_i et het
      have we := incOptional_wf w1.endTag _ het
      split at hr
      · split at hr
        · simp at hr
        · simp only [Except.ok.injEq] at hr
          subst hr
          exact ⟨w1.doctype, w1.comment, w1.text, we, w1.element, w1.end_⟩
      · simp only [Except.ok.injEq] at hr
        subst hr
        exact ⟨w1.doctype, w1.comment, w1.text, we, w1.element, w1.end_⟩

theorem handleStartTag_wf {d d' : Dispatcher} (h : DispWf d) (script : ElemScript) (ord : Nat)
    (cur : Option ElementDescriptor) {desc : Option ElementDescriptor} {inv : List Invocation}
    (hr : d.handleStartTag script ord cur = .ok (d', desc, inv)) : DispWf d' := by
  unfold Dispatcher.handleStartTag at hr
  split at hr
  · simp at hr
  · rename_i el invoked hel
    have wel := (deactivate_wf h.element hel).1
    dsimp only at hr
    split at hr
    · split at hr
      · split at hr
        · simp only [Except.ok.injEq, Prod.mk.injEq] at hr
          rw [← hr.1]
          exact ⟨h.doctype, h.comment, h.text, push_wf h.endTag _ _, wel, h.end_⟩
        · simp only [Except.ok.injEq, Prod.mk.injEq] at hr
          rw [← hr.1]
          exact ⟨h.doctype, h.comment, h.text, h.endTag, wel, h.end_⟩
      · simp only [Except.ok.injEq, Prod.mk.injEq] at hr
        rw [← hr.1]
        exact ⟨h.doctype, h.comment, h.text, h.endTag, wel, h.end_⟩
    · simp only [Except.ok.injEq, Prod.mk.injEq] at hr
      rw [← hr.1]
      exact ⟨h.doctype, h.comment, h.text, h.endTag, wel, h.end_⟩

end LolHtml.Lemmas.Full
