import LolHtml.Lemmas.TbBody0
import LolHtml.Lemmas.TbSw1
/-!
Step lemmas (`ks_*`: the anchor suffix is kept along a chain of stack operations) and the tactic `keeps_ok`;
`BodyPost`: what a rule of "in body" leaves behind in the body phase.
-/
namespace LolHtml.Spec.TreeBuilder
open LolHtml.Model (Ns)

variable {c : Cfg} {t X : Tree}

theorem AT.step (hAT : AT t) (hk : Keeps t X) (hok : TreeOk (PNoCol false) X) : AT X := hAT.of_keeps hk hok

theorem ks_pushNew (hk : Keeps t X) (ns : Ns) (n : Name) (a : Attrs) (h : ns ≠ .html ∨ n.isIn anchorNames = false) :
    Keeps t (X.pushNew ns n a) := hk.trans (keeps_pushNew X ns n a h)

theorem ks_insertHtml (hk : Keeps t X) (n : Name) (a : Attrs) (h : n.isIn anchorNames = false) :
    Keeps t (X.insertHtml n a) := hk.trans (keeps_pushNew X .html n a (Or.inr h))

theorem ks_insertAndPop (hk : Keeps t X) (n : Name) (a : Attrs) : Keeps t (X.insertAndPop n a) := hk

theorem ks_insertFormatting (hk : Keeps t X) (n : Name) (a : Attrs) (h : n.isIn formattingNames = true) :
    Keeps t (X.insertFormatting n a) := hk.trans (keeps_insertFormatting X n a h)

theorem ks_reconstructAfe (hk : Keeps t X) (hok : TreeOk (PNoCol false) X) : Keeps t X.reconstructAfe :=
  hk.trans (keeps_reconstructAfe hok.afe)

theorem ks_closePInButtonScope (hAT : AT t) (hk : Keeps t X) (hok : TreeOk (PNoCol false) X) :
    Keeps t (X.closePInButtonScope c) := hk.trans (keeps_closePInButtonScope c (hAT.step hk hok))

theorem ks_genImplied (hk : Keeps t X) (ex : Option Name) : Keeps t (X.genImplied ex) :=
  hk.trans (keeps_genImplied X ex)

/-- the guards in front of "pop until an `n` element has been popped" -/
def Guard (c : Cfg) (X : Tree) (n : Name) : Prop :=
  X.inScope c n = true ∨ X.inButtonScope c n = true ∨ X.inListItemScope c n = true

theorem ks_genPop (hAT : AT t) (hk : Keeps t X) (hok : TreeOk (PNoCol false) X) (ex : Option Name) (n : Name)
    (hg : Guard c X n) (hn : n.isIn anchorNames = false) (hex : ex = some n ∨ n.isIn impliedNames = false) :
    Keeps t ((X.genImplied ex).popUntilNamed n) := by
  have hX := hAT.step hk hok
  have hf : foundAbove (·.isHtml n) X.stack = true := by
    rcases hg with hg | hg | hg
    · exact inScope_found c hX n hn hg
    · exact inButtonScope_found c hX n hn hg
    · exact inListItemScope_found c hX n hn hg
  exact hk.trans (keeps_genImplied_popUntil X ex n hex hf)

theorem ks_closeP_after_insert (hk : Keeps t X) : Keeps t (X.insertHtml .p).closeP := by
  refine hk.trans ?_
  have : foundAbove (·.isHtml .p) (X.insertHtml .p).stack = true := by
    simp [Tree.insertHtml, Tree.pushNew, foundAbove, El.isAnchor, El.isHtmlIn, El.isHtml, anchorNames, Name.isIn]
  exact (keeps_pushNew X .html .p {} (Or.inr (by decide))).trans
    (keeps_genImplied_popUntil _ (some .p) .p (Or.inl rfl) this)

theorem ks_closeP (hAT : AT t) (hk : Keeps t X) (hok : TreeOk (PNoCol false) X) (hg : X.inButtonScope c .p = true) :
    Keeps t X.closeP := hk.trans (keeps_closeP c (hAT.step hk hok) hg)

theorem ks_genPopIn (hAT : AT t) (hk : Keeps t X) (hok : TreeOk (PNoCol false) X) (l : List Name)
    (hg : X.inScopeIn c l = true) (hl : ∀ n : Name, n.isIn l = true → n.isIn anchorNames = false)
    (hli : ∀ n : Name, n.isIn l = true → n.isIn impliedNames = false) :
    Keeps t ((X.genImplied).popUntilIn l) := by
  have hX := hAT.step hk hok
  have hf := inScopeIn_found c hX l hl hg
  refine hk.trans (keeps_popUntilIn X l (popImplied_foundAbove _ _ _ ?_ _ hf))
  intro e he
  simp only [Bool.and_eq_true, El.isHtmlIn] at he
  cases hq : e.isHtmlIn l
  · rfl
  · simp only [El.isHtmlIn, Bool.and_eq_true] at hq
    rw [hli _ hq.2] at he; exact absurd he.1.2 (by simp)

theorem ks_pop (hk : Keeps t X) (h : ∀ e r, X.stack = e :: r → e.isAnchor = false) : Keeps t X.pop :=
  hk.trans (keeps_pop_nonanchor X h)

theorem ks_pop_currentIsIn (hk : Keeps t X) {l : List Name} (hc : X.currentIsIn l = true)
    (hl : ∀ n : Name, n.isIn l = true → n.isIn anchorNames = false) : Keeps t X.pop := by
  apply ks_pop hk
  intro e r he
  simp only [Tree.currentIsIn, he] at hc
  exact nonanchor_of_names hc hl

theorem ks_pop_currentIs (hk : Keeps t X) {n : Name} (hc : X.currentIs n = true) (hn : n.isIn anchorNames = false) :
    Keeps t X.pop := by
  apply ks_pop hk
  intro e r he
  simp only [Tree.currentIs, he] at hc
  exact nonanchor_of_name hc hn

theorem ks_popNamed (hAT : AT t) (hk : Keeps t X) (hok : TreeOk (PNoCol false) X) (n : Name)
    (hg : Guard c X n) (hn : n.isIn anchorNames = false) : Keeps t (X.popUntilNamed n) := by
  have hX := hAT.step hk hok
  have hf : foundAbove (·.isHtml n) X.stack = true := by
    rcases hg with hg | hg | hg
    · exact inScope_found c hX n hn hg
    · exact inButtonScope_found c hX n hn hg
    · exact inListItemScope_found c hX n hn hg
  exact hk.trans (popUntil_keep _ _ hf)

theorem ks_pop_pushNew (hk : Keeps t X) (ns : Ns) (n : Name) (a : Attrs) : Keeps t (X.pushNew ns n a).pop := hk
theorem ks_pop_insertHtml (hk : Keeps t X) (n : Name) (a : Attrs) : Keeps t (X.insertHtml n a).pop := hk

theorem ks_anyOtherEndTag (hk : Keeps t X) (n : Name) (hn : n.isIn anchorNames = false) :
    Keeps t (X.anyOtherEndTag c n) := hk.trans (keeps_anyOtherEndTag c X n hn)

theorem ks_closeListItem (hk : Keeps t X) (close : List Name)
    (hclose : ∀ n : Name, n.isIn close = true → n.isIn anchorNames = false) : Keeps t (X.closeListItem c close) :=
  hk.trans (keeps_closeListItem c X close hclose)

theorem ks_adoptionAgency (hAT : AT t) (hk : Keeps t X) (hok : TreeOk (PNoCol false) X) (subject : Name)
    (hs : subject.isIn formattingNames = true) : Keeps t (X.adoptionAgency c subject) :=
  hk.trans (keeps_adoptionAgency c (hAT.step hk hok) subject hs)

theorem ks_pushMarker (hk : Keeps t X) : Keeps t X.pushMarker := hk
theorem ks_clearAfeToMarker (hk : Keeps t X) : Keeps t X.clearAfeToMarker := hk
theorem ks_removeFromAfe (hk : Keeps t X) (x : El) : Keeps t (X.removeFromAfe x) := hk

/-- side conditions about concrete names -/
macro "name_side" : tactic =>
  `(tactic| first
    | decide
    | exact other_isIn _ _ (by decide)
    | (intro n hn; cases n <;> simp [Name.isIn, headingNames] at hn <;> decide))

/-- `Keeps t <tree expression over t>`; `hAT : AT t` -/
syntax "keeps_ok" ident : tactic
macro_rules
  | `(tactic| keeps_ok $h:ident) => `(tactic| first
    | (with_reducible exact Keeps.refl _)
    | ((with_reducible apply ks_insertAndPop); keeps_ok $h)
    | ((with_reducible apply ks_insertHtml) <;> first | keeps_ok $h | name_side)
    | ((with_reducible apply ks_pop_pushNew); keeps_ok $h)
    | ((with_reducible apply ks_pop_insertHtml); keeps_ok $h)
    | ((with_reducible apply ks_pushNew) <;> first | keeps_ok $h | (left; decide) | (right; decide))
    | ((with_reducible apply ks_insertFormatting) <;> first | keeps_ok $h | name_side)
    | ((with_reducible apply ks_reconstructAfe) <;> first | keeps_ok $h | tree_ok)
    | ((with_reducible apply ks_closePInButtonScope $h) <;> first | keeps_ok $h | tree_ok)
    | ((with_reducible apply ks_closeP_after_insert); keeps_ok $h)
    | ((with_reducible apply ks_closeP $h) <;> first | keeps_ok $h | tree_ok | assumption)
    | ((with_reducible apply ks_genPop $h) <;>
        first | keeps_ok $h | tree_ok | (exact Or.inl ‹_›) | (exact Or.inr (Or.inl ‹_›)) | (exact Or.inr (Or.inr ‹_›))
              | decide | (left; rfl) | (right; decide))
    | ((with_reducible apply ks_genPopIn $h) <;> first | keeps_ok $h | tree_ok | assumption | name_side)
    | ((with_reducible apply ks_popNamed $h) <;>
        first | keeps_ok $h | tree_ok | (exact Or.inl ‹_›) | (exact Or.inr (Or.inl ‹_›)) | (exact Or.inr (Or.inr ‹_›)) | decide)
    | ((with_reducible apply ks_genImplied); keeps_ok $h)
    | ((with_reducible apply ks_pop_currentIsIn) <;> first | keeps_ok $h | assumption | name_side)
    | ((with_reducible apply ks_pop_currentIs) <;> first | keeps_ok $h | assumption | name_side)
    | ((with_reducible apply ks_anyOtherEndTag) <;> first | keeps_ok $h | name_side)
    | ((with_reducible apply ks_closeListItem) <;> first | keeps_ok $h | name_side)
    | ((with_reducible apply ks_adoptionAgency $h) <;> first | keeps_ok $h | tree_ok | name_side)
    | ((with_reducible apply ks_pushMarker); keeps_ok $h)
    | ((with_reducible apply ks_clearAfeToMarker); keeps_ok $h)
    | ((with_reducible apply ks_removeFromAfe); keeps_ok $h))

/-- `PNoSel n ns` from the branch hypotheses -/
macro "psel" : tactic =>
  `(tactic| first
    | (simp [PNoSel]; done)
    | (simp_all [PNoSel]; done))

/-- `TreeOk PNoSel <tree expression>`, as `tree_ok` -/
syntax "sel_ok" : tactic
macro_rules
  | `(tactic| sel_ok) => `(tactic| first
    | assumption
    | (refine TreeOk.insertAndPop ?_ _ _; sel_ok)
    | (refine TreeOk.insertHtml ?_ _ _ ?_ <;> first | sel_ok | psel)
    | (refine TreeOk.pushNew ?_ _ _ _ ?_ <;> first | sel_ok | psel)
    | (refine TreeOk.insertFormatting ?_ _ _ ?_ ?_ <;> first | sel_ok | psel | fmt_name)
    | (refine TreeOk.reconstructAfe fmtOk_PNoSel ?_; sel_ok)
    | (refine TreeOk.adoptionAgency fmtOk_PNoSel _ _ ?_; sel_ok)
    | (refine TreeOk.pop' ?_; sel_ok)
    | (refine TreeOk.popUntilNamed' _ ?_; sel_ok)
    | (refine TreeOk.popUntilIn' _ ?_; sel_ok)
    | (refine TreeOk.clearToTableContext' ?_; sel_ok)
    | (refine TreeOk.clearToTableBodyContext' ?_; sel_ok)
    | (refine TreeOk.clearToTableRowContext' ?_; sel_ok)
    | (refine TreeOk.genImplied' _ ?_; sel_ok)
    | (refine TreeOk.closeP' ?_; sel_ok)
    | (refine TreeOk.closePInButtonScope' _ ?_; sel_ok)
    | (refine TreeOk.removeFromStack' _ ?_; sel_ok)
    | (refine TreeOk.anyOtherEndTag' _ _ ?_; sel_ok)
    | (refine TreeOk.pushMarker' ?_; sel_ok)
    | (refine TreeOk.clearAfeToMarker' ?_; sel_ok)
    | (refine TreeOk.removeFromAfe' _ ?_; sel_ok)
    | (refine TreeOk.closeListItem' _ _ ?_; sel_ok))

end LolHtml.Spec.TreeBuilder
