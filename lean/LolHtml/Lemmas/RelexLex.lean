import LolHtml.Lemmas.ScanHead
/-!
The lexer restarted by the tag scanner re-lexes the hinted tag: from the bookmark (`<` of the tag,
text state of the bookmark's text type) it walks the lexer-side head path silently, runs
`finish_tag_name` at the same terminator with a tag token of the same kind, name hash and name range,
and keeps that token untouched until `emit_tag`.
-/
set_option linter.unusedSimpArgs false
set_option linter.unusedVariables false

namespace LolHtml.Model

variable {κ : Type} {env : Env κ} {inp : Bytes}

/-! ### state functions of simple shape -/

theorem runSeqArms_noseq (ch : Option UInt8) (arms : List Arm) (h : hasSeq arms = false) (m : M κ) :
    runSeqArms env inp ch arms m = .inr m := by
  induction arms with
  | nil => rfl
  | cons a rest ih =>
    simp only [hasSeq, List.any_cons, Bool.or_eq_false_iff] at h
    have hnp : ∀ b ic, a.pat ≠ .chSeq b ic := by
      intro b ic hp; rw [hp] at h; simp at h
    rw [runSeqArms_cons_other ch a rest m hnp]
    exact ih (by simpa [hasSeq] using h.2)

theorem afterSeq_byte {ch : UInt8} {arms : List Arm} {m : M κ} {arm : Arm}
    (hf : findArm env.tbl m.c (some ch) arms = some arm) :
    afterSeq env inp (some ch) arms m = ((runBody env inp arm.body m).1, (runBody env inp arm.body m).2.1) := by
  have hm := (findArm_sel hf).2
  unfold afterSeq
  rw [hf]
  dsimp only
  cases hp : arm.pat <;> simp only [hp] <;> first | rfl | (rw [hp] at hm; simp [patMatches] at hm)

/-- a state without enter actions, `memchr` and sequence arms, on a byte -/
theorem stateFn_plain_byte {sd : StateDef} {m : M κ} {b : UInt8} {arm : Arm}
    (hsd : env.tbl.state? m.c.state = some sd) (he : sd.enter = []) (hm : sd.memchr = none) (hs : hasSeq sd.arms = false)
    (hb : inp[m.c.nextPos]? = some b)
    (hf : findArm env.tbl { m.c with nextPos := m.c.nextPos + 1 } (some b) sd.arms = some arm) :
    stateFn env inp m =
      ((runBody env inp arm.body { m with c := { m.c with nextPos := m.c.nextPos + 1 } }).1,
       (runBody env inp arm.body { m with c := { m.c with nextPos := m.c.nextPos + 1 } }).2.1) := by
  rw [stateFn_preConsume, hsd]
  have hpre : preStep env inp sd m = (m, none) := by unfold preStep; simp [he]
  simp only [hpre]
  unfold consumeStep
  simp only [hm, hb]
  rw [dispatch_eq, runSeqArms_noseq _ _ hs]
  exact afterSeq_byte hf

/-- a `memchr(b'<')` state without enter actions and sequence arms, standing on a `<` -/
theorem stateFn_memchr_lt {sd : StateDef} {m : M κ} {arm : Arm}
    (hsd : env.tbl.state? m.c.state = some sd) (he : sd.enter = []) (hm : sd.memchr = some 60) (hs : hasSeq sd.arms = false)
    (hb : inp[m.c.nextPos]? = some 60)
    (hf : findArm env.tbl { m.c with nextPos := m.c.nextPos + 1 } (some 60) sd.arms = some arm) :
    stateFn env inp m =
      ((runBody env inp arm.body { m with c := { m.c with nextPos := m.c.nextPos + 1 } }).1,
       (runBody env inp arm.body { m with c := { m.c with nextPos := m.c.nextPos + 1 } }).2.1) := by
  rw [stateFn_preConsume, hsd]
  have hpre : preStep env inp sd m = (m, none) := by unfold preStep; simp [he]
  simp only [hpre]
  unfold consumeStep
  have hfind : findByte 60 (inp.drop m.c.nextPos) = some 0 := by
    have hlt : m.c.nextPos < inp.length := by
      rcases Nat.lt_or_ge m.c.nextPos inp.length with h | h
      · exact h
      · rw [List.getElem?_eq_none h] at hb; simp at hb
    rw [List.drop_eq_getElem_cons hlt]
    have : inp[m.c.nextPos] = 60 := by rw [List.getElem?_eq_getElem hlt] at hb; simpa using hb
    simp [findByte, this]
  simp only [hm, hfind, Nat.add_zero]
  rw [dispatch_eq, runSeqArms_noseq _ _ hs]
  exact afterSeq_byte hf

/-! ### the lexer on the canonical lists of the tag head -/

/-- `emit_text` / `mark_tag_start` right at `lexeme_start` do nothing -/
theorem runCalls_silentMark (cs : List Call) (h : silentMarkCalls cs = true) (c : Common) (l : LexRegs) (x : Ctx κ)
    (hp : c.pos = l.lexemeStart) :
    runCalls env inp cs (⟨c, .lexer l, x⟩ : M κ) = (⟨c, .lexer l, x⟩, none) := by
  induction cs with
  | nil => rfl
  | cons cl rest ih =>
    simp only [silentMarkCalls, List.all_cons, Bool.and_eq_true, Bool.or_eq_true, beq_iff_eq] at h
    have hact : act env cl.act inp (⟨c, .lexer l, x⟩ : M κ) = (⟨c, .lexer l, x⟩, none) := by
      rcases h.1 with h1 | h1
      · rw [h1]; simp [act, lexAct, lexEmitText, hp]
      · rw [h1]; simp [act, lexAct]
    simp only [runCalls, hact]
    exact ih (by simpa [silentMarkCalls] using h.2)

/-- the lexer registers after a canonical keep list -/
def keepRegsL (acts : List ActName) (pos : Nat) (b : UInt8) (l : LexRegs) : LexRegs :=
  if acts = [.updateTagNameHash] then { l with curTag := l.curTag.map fun t => updTagHash t b }
  else if acts = [.createStartTag, .startTokenPart, .updateTagNameHash] then
    { l with curTag := some (.startTag .default (NameHash.update NameHash.new b) .html [] false), tokenPartStart := pos }
  else if acts = [.createEndTag, .startTokenPart, .updateTagNameHash] then
    { l with curTag := some (.endTag .default (NameHash.update NameHash.new b)), tokenPartStart := pos }
  else l

theorem runCalls_keep_lex (ph : Phase) (cs : List Call) (hk : keepCallsOk ph cs = true) (c : Common) (l : LexRegs)
    (x : Ctx κ) (b : UInt8) (hb : inp[c.pos]? = some b) (hname : ph = .name → l.curTag.isSome = true) :
    runCalls env inp cs (⟨c, .lexer l, x⟩ : M κ) = (⟨c, .lexer (keepRegsL (actsOf cs) c.pos b l), x⟩, none) := by
  simp only [keepCallsOk, Bool.and_eq_true] at hk
  obtain ⟨_, hk⟩ := hk
  have h0 : actsOf cs = [] → runCalls env inp cs (⟨c, .lexer l, x⟩ : M κ) = (⟨c, .lexer (keepRegsL (actsOf cs) c.pos b l), x⟩, none) := by
    intro h
    rw [h, actsOf_nil h]
    simp [runCalls, keepRegsL]
  have h1 : actsOf cs = [.updateTagNameHash] → l.curTag.isSome = true →
      runCalls env inp cs (⟨c, .lexer l, x⟩ : M κ) = (⟨c, .lexer (keepRegsL (actsOf cs) c.pos b l), x⟩, none) := by
    intro h hs
    obtain ⟨c1, rfl, e1⟩ := actsOf_one h
    rw [h]
    cases hct : l.curTag with
    | none => rw [hct] at hs; simp at hs
    | some t => simp [runCalls, act, e1, lexAct, hb, keepRegsL, hct]
  have h3 : actsOf cs = [.createStartTag, .startTokenPart, .updateTagNameHash] →
      runCalls env inp cs (⟨c, .lexer l, x⟩ : M κ) = (⟨c, .lexer (keepRegsL (actsOf cs) c.pos b l), x⟩, none) := by
    intro h
    obtain ⟨c1, c2, c3, rfl, e1, e2, e3⟩ := actsOf_three h
    rw [h]
    simp [runCalls, act, e1, e2, e3, lexAct, hb, keepRegsL, updTagHash]
  have h4 : actsOf cs = [.createEndTag, .startTokenPart, .updateTagNameHash] →
      runCalls env inp cs (⟨c, .lexer l, x⟩ : M κ) = (⟨c, .lexer (keepRegsL (actsOf cs) c.pos b l), x⟩, none) := by
    intro h
    obtain ⟨c1, c2, c3, rfl, e1, e2, e3⟩ := actsOf_three h
    rw [h]
    simp [runCalls, act, e1, e2, e3, lexAct, hb, keepRegsL, updTagHash]
  cases ph <;> simp only [Bool.or_eq_true, beq_iff_eq] at hk
  · rcases hk with hk | hk
    · exact h0 hk
    · exact h3 hk
  · rcases hk with hk | hk
    · exact h0 hk
    · exact h4 hk
  · exact h1 hk (hname rfl)


/-! ### the head phase of a re-lexing run -/

/-- ghost data of a re-lexing run: the head, its terminator, the lexer-side states after `<` and at
the terminator, the bookmark's `last_start_tag_name_hash` -/
structure RG where
  H : Bytes
  term : UInt8
  s1 : StateId
  sfin : StateId
  L0 : Nat

structure RGOk (t : Table) (L : Labels) (S : SLabels) (G : RG) : Prop where
  shape : shapeB .name G.H = true
  path : absHead t G.s1 G.H.tail = some G.sfin
  img : PathImg t L S G.s1 G.H.tail
  fin : LexFin t G.sfin G.term (headKey G.H) G.L0

/-- lexer registers as functions of the head bytes seen so far (phase `name`) -/
structure LexSem (ls : Nat) (w : Bytes) (l : LexRegs) : Prop where
  tag : ∃ tok, l.curTag = some tok ∧ tagKey tok = headKey w
  start : l.tokenPartStart + (headName w).length = ls + w.length

/-- the lexer has consumed the bytes `w` of the tag (`w = []`: it stands on `<` in the text state) -/
structure RelexHead (t : Table) (L : Labels) (G : RG) (inp : Bytes) (c : Common) (l : LexRegs) (w : Bytes) : Prop where
  l0 : c.lastStartTagNameHash = G.L0
  pre : (G.H ++ [G.term]) <+: inp.drop l.lexemeStart
  wpre : w <+: G.H
  pos : l.lexemeStart + w.length = c.nextPos
  st0 : w = [] → ltOf t c.state = some G.s1
  st : w ≠ [] → absHead t G.s1 w.tail = some c.state ∧ ∃ ph, L.at c.state = some ph ∧ shapeB ph w = true ∧
    (ph = .name → LexSem l.lexemeStart w l)

theorem prefix_getElem {w H rest : Bytes} (h : w <+: H) (hlt : w.length < H.length) :
    ∃ b, H[w.length]? = some b ∧ (w ++ [b]) <+: H := by
  obtain ⟨r, hr⟩ := h
  subst hr
  cases r with
  | nil => simp at hlt
  | cons b r' => exact ⟨b, by simp, ⟨r', by simp⟩⟩

theorem absHead_take_tail {t : Table} {s1 : StateId} {H w : Bytes} {b : UInt8} (hw : (w ++ [b]) <+: H) (hne : w ≠ []) :
    H.tail.take w.length = w.tail ++ [b] := by
  obtain ⟨r, hr⟩ := hw
  subst hr
  cases w with
  | nil => exact absurd rfl hne
  | cons x xs =>
    simp only [List.cons_append, List.tail_cons, List.length_cons, List.append_assoc, List.singleton_append, List.nil_append]
    have : xs ++ b :: r = (xs ++ [b]) ++ r := by simp
    rw [this, List.take_append_of_le_length (by simp)]
    exact List.take_of_length_le (by simp)

section
variable {L : Labels} {S : SLabels} {TT : TLabels}

/-- facts about a lexer-side state of the head -/
theorem lexSide_facts (hrel : RelexOk env.tbl L TT S = true) {s' : StateId} (h : lexSide L S s' = true) :
    ∃ sd' ph, env.tbl.state? s' = some sd' ∧ sd'.enter = [] ∧ sd'.memchr = none ∧ hasSeq sd'.arms = false ∧
      (∀ a ∈ sd'.arms, a.pat ≠ .closingQuote) ∧ L.at s' = some ph ∧ S.at s' = s' := by
  simp only [lexSide, List.any_eq_true, List.mem_range, Bool.and_eq_true, beq_iff_eq, Option.isSome_iff_exists] at h
  obtain ⟨s, hlt, ⟨ph, hph⟩, hs⟩ := h
  have hlen := RelexOk_len hrel
  have hex : ∃ sd, env.tbl.state? s = some sd := by
    have : s < env.tbl.states.length := by omega
    exact ⟨env.tbl.states[s], by simp [Table.state?, List.getElem?_eq_getElem this]⟩
  obtain ⟨sd, hsd⟩ := hex
  have hst := RelexOk_state hrel hsd
  simp only [relexStateOk, hph, headPairOk, Bool.and_eq_true] at hst
  obtain ⟨_, hst⟩ := hst
  rw [hs] at hst
  cases hsd' : env.tbl.state? s' with
  | none => simp [hsd'] at hst
  | some sd' =>
    simp only [hsd', Bool.and_eq_true, List.isEmpty_iff, Option.isNone_iff_eq_none, Bool.not_eq_true', List.all_eq_true,
      bne_iff_ne, ne_eq, beq_iff_eq] at hst
    obtain ⟨⟨⟨⟨⟨⟨h1, h2⟩, h3⟩, h4⟩, h5⟩, h6⟩, _⟩ := hst
    exact ⟨sd', ph, rfl, h1, h2, h3, h4, h5, h6⟩


theorem prefix_tail {w H : Bytes} (h : w <+: H) (hne : w ≠ []) : w.tail <+: H.tail := by
  obtain ⟨r, hr⟩ := h
  subst hr
  cases w with
  | nil => exact absurd rfl hne
  | cons x xs => exact ⟨r, rfl⟩

theorem take_of_prefix {w H : Bytes} (h : w <+: H) : H.take w.length = w := by
  obtain ⟨r, hr⟩ := h
  subst hr
  simp

theorem input_byte {H : Bytes} {term : UInt8} {inp : Bytes} {ls k : Nat} {b : UInt8}
    (hpre : (H ++ [term]) <+: inp.drop ls) (hb : (H ++ [term])[k]? = some b) : inp[ls + k]? = some b := by
  obtain ⟨r, hr⟩ := hpre
  have : (inp.drop ls)[k]? = some b := by
    rw [← hr]
    have hk : k < (H ++ [term]).length := by
      rcases Nat.lt_or_ge k (H ++ [term]).length with h | h
      · exact h
      · rw [List.getElem?_eq_none h] at hb; simp at hb
    rw [List.getElem?_append_left hk]; exact hb
  rw [List.getElem?_drop] at this
  exact this

/-- **one more byte of the head** -/
theorem relex_step_keep (hhead : HeadOk env.tbl L = true) (hrel : RelexOk env.tbl L TT S = true)
    {G : RG} (hG : RGOk env.tbl L S G) {c : Common} {l : LexRegs} {x : Ctx κ} {w : Bytes}
    (h : RelexHead env.tbl L G inp c l w) (hne : w ≠ []) (hlt : w.length < G.H.length) :
    ∃ c' l' b, stateFn env inp (⟨c, .lexer l, x⟩ : M κ) = (⟨c', .lexer l', x⟩, none) ∧
      RelexHead env.tbl L G inp c' l' (w ++ [b]) ∧ l'.lexemeStart = l.lexemeStart ∧ l'.fd = l.fd ∧
      c'.isLast = c.isLast := by
  obtain ⟨hst, ph, hlab, hshape, hsem⟩ := h.st hne
  -- the byte
  obtain ⟨b, hHb, hwb⟩ := prefix_getElem (rest := []) h.wpre hlt
  have hinb : inp[c.nextPos]? = some b := by
    rw [← h.pos]
    apply input_byte h.pre
    rw [List.getElem?_append_left hlt]; exact hHb
  -- the lexer-side path
  have htake : G.H.tail.take w.tail.length = w.tail := take_of_prefix (prefix_tail h.wpre hne)
  have hwl : w.tail.length + 1 = w.length := by cases w with | nil => exact absurd rfl hne | cons _ _ => simp
  obtain ⟨s0, hs0, hside⟩ := hG.img w.tail.length (by simp only [List.length_tail]; omega)
  rw [htake, hst] at hs0
  simp only [Option.some.injEq] at hs0
  subst hs0
  obtain ⟨s'', hs'', hside''⟩ := hG.img w.length (by simp only [List.length_tail]; omega)
  rw [absHead_take_tail (t := env.tbl) (s1 := G.s1) hwb hne, absHead_snoc, hst] at hs''
  simp only [Option.bind_some] at hs''
  have habs := hs''
  obtain ⟨sd', ph0, hsd', he, hm, hsq, hcq, hl0, hS⟩ := lexSide_facts hrel hside
  rw [hlab] at hl0
  simp only [Option.some.injEq] at hl0
  subst hl0
  -- the arm
  simp only [headStep, selArm, hsd'] at hs''
  cases harm : findArm env.tbl c0 (some b) sd'.arms with
  | none => simp [harm] at hs''
  | some arm =>
    obtain ⟨pat, body⟩ := arm
    cases body with
    | ite _ _ _ => simp [harm] at hs''
    | seq q =>
      simp only [harm] at hs''
      cases hk : tsCalls q.calls with
      | clear => simp [hk] at hs''
      | mark => simp [hk] at hs''
      | keep =>
        simp only [hk, beq_self_eq_true, if_true] at hs''
        have hf : findArm env.tbl { c with nextPos := c.nextPos + 1 } (some b) sd'.arms = some ⟨pat, .seq q⟩ := by
          rw [findArm_c0 (c := { c with nextPos := c.nextPos + 1 }) b sd'.arms hcq]; exact harm
        rw [stateFn_plain_byte (m := (⟨c, .lexer l, x⟩ : M κ)) hsd' he hm hsq hinb hf]
        simp only [runBody]
        -- the checkers on this arm
        have hstok := HeadOk_state hhead hsd'
        obtain ⟨_, _, hkeepall⟩ := head_arm_facts (c := { c with nextPos := c.nextPos + 1 }) hstok hlab hf
        have hkq := hkeepall q (by simp [Body.seqs])
        have hrs := RelexOk_state hrel hsd'
        obtain ⟨_, _, hpair⟩ := relex_arm_facts (c := { c with nextPos := c.nextPos + 1 }) hrs hlab hcq hf
        rw [hS] at hpair
        simp only [selArm, hsd', harm, armPair, Body.seqs, List.all_cons, List.all_nil, Bool.and_true, hk] at hpair
        simp only [show (TSK.keep == TSK.clear) = false from rfl, Bool.false_and, Bool.false_eq_true, if_false] at hpair
        simp only [seqPair, hk, Bool.and_eq_true, Bool.not_false, true_and, beq_self_eq_true] at hpair
        obtain ⟨hkc, hphase⟩ := hpair
        -- run the list
        have hposb : inp[({ c with nextPos := c.nextPos + 1 } : Common).pos]? = some b := by
          simpa [Common.pos] using hinb
        have hrc := runCalls_keep_lex (env := env) (inp := inp) ph q.calls hkc { c with nextPos := c.nextPos + 1 } l x b hposb
          (by intro hn; obtain ⟨tok, ht, _⟩ := (hsem hn).tag; rw [ht]; rfl)
        have hsn : shapeB ph w = true := hshape
        -- common part of the new invariant
        have hnew : ∀ (st' : StateId) (c' : Common), c'.state = st' → c'.nextPos = c.nextPos + 1 →
            c'.lastStartTagNameHash = c.lastStartTagNameHash → s'' = st' →
            (∀ ph', L.at st' = some ph' → stepOk ph b ph' = true ∧
              ((ph' == .name) = (hasAct .createStartTag q.calls || hasAct .createEndTag q.calls || ph == .name))) →
            (∃ ph', L.at st' = some ph') →
            RelexHead env.tbl L G inp c' (keepRegsL (actsOf q.calls) c.nextPos b l) (w ++ [b]) := by
          intro st' c' e1 e2 e3 e4 e5 e6
          have hls : (keepRegsL (actsOf q.calls) c.nextPos b l).lexemeStart = l.lexemeStart := by
            unfold keepRegsL; split <;> (try split) <;> (try split) <;> rfl
          refine ⟨by rw [e3]; exact h.l0, by rw [hls]; exact h.pre, hwb, by rw [hls, e2]; simp; have := h.pos; omega,
            fun hn => by simp at hn, fun _ => ?_⟩
          obtain ⟨ph', hl'⟩ := e6
          obtain ⟨hstep, hname⟩ := e5 ph' hl'
          refine ⟨by rw [tail_snoc hne, absHead_snoc, hst]; simp only [Option.bind_some]; rw [e1, ← e4]; exact habs, ph', by rw [e1]; exact hl',
            shape_step _ _ _ _ hshape hstep, fun hn => ?_⟩
          subst hn
          rw [hls]
          simp only [beq_self_eq_true] at hname
          have hacts := hkc
          simp only [keepCallsOk, Bool.and_eq_true] at hacts
          cases ph with
          | name =>
            have ha : actsOf q.calls = [.updateTagNameHash] := by simpa using hacts.2
            obtain ⟨⟨tok, k1, k2⟩, k3⟩ := hsem rfl
            obtain ⟨n1, n2⟩ := headName_snoc (w := w) (b := b) (shape_name_len hshape)
            refine ⟨⟨updTagHash tok b, by simp [keepRegsL, ha, k1], ?_⟩, ?_⟩
            · rw [tagKey_updTagHash, k2]
              simp only [headKey, n1, n2, ofBytes_snoc]
            · rw [n2]; simp only [keepRegsL, ha, if_true, List.length_append, List.length_singleton]; omega
          | lt =>
            have hw := shape_lt hshape
            subst hw
            have hcr : hasAct .createStartTag q.calls = true ∨ hasAct .createEndTag q.calls = true := by
              simpa using hname.symm
            have ha : actsOf q.calls = [.createStartTag, .startTokenPart, .updateTagNameHash] := by
              have h2 := hacts.2
              simp only [Bool.or_eq_true, beq_iff_eq] at h2
              rcases h2 with h2 | h2
              · rw [hasAct_acts, hasAct_acts, h2] at hcr; simp at hcr
              · exact h2
            have halpha : isAsciiAlpha b = true := by simpa [stepOk] using hstep
            have hb47 : b ≠ 47 := by intro h'; subst h'; simp [isAsciiAlpha] at halpha
            have hpos := h.pos
            simp only [List.length_singleton] at hpos
            refine ⟨⟨.startTag .default (NameHash.update NameHash.new b) .html [] false, by simp [keepRegsL, ha], ?_⟩, ?_⟩
            · simp [tagKey, headKey, headKind, headName, hb47, NameHash.ofBytes]
            · simp only [keepRegsL, ha, headName]
              simp [hb47]
              omega
          | slash =>
            have hw := shape_slash hshape
            subst hw
            have hcr : hasAct .createStartTag q.calls = true ∨ hasAct .createEndTag q.calls = true := by
              simpa using hname.symm
            have ha : actsOf q.calls = [.createEndTag, .startTokenPart, .updateTagNameHash] := by
              have h2 := hacts.2
              simp only [Bool.or_eq_true, beq_iff_eq] at h2
              rcases h2 with h2 | h2
              · rw [hasAct_acts, hasAct_acts, h2] at hcr; simp at hcr
              · exact h2
            have hpos := h.pos
            simp only [List.length_cons, List.length_nil] at hpos
            refine ⟨⟨.endTag .default (NameHash.update NameHash.new b), by simp [keepRegsL, ha], ?_⟩, ?_⟩
            · simp [tagKey, headKey, headKind, headName, NameHash.ofBytes]
            · simp only [keepRegsL, ha, headName]
              simp
              omega
        have hfd : (keepRegsL (actsOf q.calls) c.nextPos b l).fd = l.fd := by
          unfold keepRegsL; split <;> (try split) <;> (try split) <;> rfl
        have hls : (keepRegsL (actsOf q.calls) c.nextPos b l).lexemeStart = l.lexemeStart := by
          unfold keepRegsL; split <;> (try split) <;> (try split) <;> rfl
        have hposc : ({ c with nextPos := c.nextPos + 1 } : Common).pos = c.nextPos := by simp [Common.pos]
        rw [hposc] at hrc
        unfold seqKeepOk at hkq
        simp only [hk] at hkq
        unfold runSeq
        rw [hrc]
        dsimp only
        cases htr : q.trans with
        | none =>
          simp only [htr] at hs'' hkq hphase ⊢
          simp only [Option.some.injEq] at hs''
          refine ⟨_, _, b, rfl, hnew c.state _ rfl rfl rfl hs''.symm ?_ ⟨ph, hlab⟩, hls, hfd, rfl⟩
          intro ph' hl'
          rw [hlab] at hl'
          simp only [Option.some.injEq] at hl'
          subst hl'
          refine ⟨hkq, ?_⟩
          have hacts := hkc
          simp only [keepCallsOk, Bool.and_eq_true] at hacts
          cases ph <;> simp only [stepOk, Bool.false_eq_true] at hkq
          simp [hasAct_acts, (by simpa using hacts.2 : actsOf q.calls = [.updateTagNameHash])]
        | some tr =>
          cases tr with
          | goto j =>
            simp only [htr, Option.some.injEq] at hs'' hkq hphase ⊢
            simp only [applyTrans]
            cases hlj : L.at j with
            | none => simp [hlj] at hkq
            | some ph' =>
              simp only [hlj] at hkq hphase
              simp only [Bool.and_eq_true, beq_iff_eq] at hphase
              refine ⟨_, _, b, rfl, hnew j _ rfl rfl rfl hs''.symm ?_ ⟨ph', hlj⟩, hls, hfd, rfl⟩
              intro ph2 hl2
              rw [hlj] at hl2
              simp only [Option.some.injEq] at hl2
              subst hl2
              exact ⟨hkq, by simpa using hphase.2⟩
          | gotoDyn => simp [htr] at hs''
          | reconsume _ => simp [htr] at hs''


theorem head_first_byte {H : Bytes} (h : shapeB .name H = true) : H[0]? = some 60 ∧ ([60] : Bytes) <+: H := by
  obtain ⟨_, hw⟩ := shape_name h
  rw [hw]
  split <;> exact ⟨rfl, ⟨_, rfl⟩⟩

/-- **the `<`**: from the text state of the bookmark the lexer goes, silently, to the first head state -/
theorem relex_step0 (hhead : HeadOk env.tbl L = true) (hrel : RelexOk env.tbl L TT S = true)
    {G : RG} (hG : RGOk env.tbl L S G) {c : Common} {l : LexRegs} {x : Ctx κ}
    (h : RelexHead env.tbl L G inp c l []) :
    ∃ c', stateFn env inp (⟨c, .lexer l, x⟩ : M κ) = (⟨c', .lexer l, x⟩, none) ∧
      RelexHead env.tbl L G inp c' l [60] ∧ c'.isLast = c.isLast := by
  have hlt := h.st0 rfl
  have hpos : l.lexemeStart = c.nextPos := by simpa using h.pos
  obtain ⟨hH0, hHpre⟩ := head_first_byte hG.shape
  have hinb : inp[c.nextPos]? = some 60 := by
    have := input_byte (k := 0) h.pre (by rw [List.getElem?_append_left (by
      have := shape_name_len hG.shape; omega)]; exact hH0)
    simpa [hpos] using this
  -- decode `ltOf`
  unfold ltOf at hlt
  cases hsd : env.tbl.state? c.state with
  | none => simp [hsd] at hlt
  | some sd =>
    simp only [hsd] at hlt
    split at hlt
    · rename_i hcond
      simp only [Bool.and_eq_true, List.isEmpty_iff, Bool.not_eq_true', Bool.or_eq_true, Option.isNone_iff_eq_none,
        beq_iff_eq, List.all_eq_true, bne_iff_ne, ne_eq] at hcond
      obtain ⟨⟨⟨he, hsq⟩, hmem⟩, hcq⟩ := hcond
      cases harm : findArm env.tbl c0 (some 60) sd.arms with
      | none => simp [harm] at hlt
      | some arm =>
        obtain ⟨pat, body⟩ := arm
        cases body with
        | ite _ _ _ => simp [harm] at hlt
        | seq q =>
          simp only [harm] at hlt
          split at hlt
          · rename_i hq
            simp only [Bool.and_eq_true, beq_iff_eq] at hq
            obtain ⟨hmark, hsil⟩ := hq
            cases htr : q.trans with
            | none => simp [htr] at hlt
            | some tr =>
              cases tr with
              | gotoDyn => simp [htr] at hlt
              | reconsume _ => simp [htr] at hlt
              | goto j =>
                simp only [htr, Option.some.injEq] at hlt
                subst hlt
                have hf : findArm env.tbl { c with nextPos := c.nextPos + 1 } (some 60) sd.arms = some ⟨pat, .seq q⟩ := by
                  rw [findArm_c0 (c := { c with nextPos := c.nextPos + 1 }) 60 sd.arms hcq]; exact harm
                have hstep : stateFn env inp (⟨c, .lexer l, x⟩ : M κ) =
                    ((runBody env inp (.seq q) { (⟨c, .lexer l, x⟩ : M κ) with c := { c with nextPos := c.nextPos + 1 } }).1,
                     (runBody env inp (.seq q) { (⟨c, .lexer l, x⟩ : M κ) with c := { c with nextPos := c.nextPos + 1 } }).2.1) := by
                  rcases hmem with hm | hm
                  · exact stateFn_plain_byte (m := (⟨c, .lexer l, x⟩ : M κ)) hsd he hm hsq hinb hf
                  · exact stateFn_memchr_lt (m := (⟨c, .lexer l, x⟩ : M κ)) hsd he hm hsq hinb hf
                rw [hstep]
                simp only [runBody]
                unfold runSeq
                rw [runCalls_silentMark q.calls hsil _ l x (by simp [Common.pos, hpos])]
                simp only [htr, applyTrans]
                -- the label of the first head state
                have hlabj : L.at G.s1 = some .lt := by
                  have hstok := HeadOk_state hhead hsd
                  cases hlT : L.at c.state with
                  | some ph =>
                    obtain ⟨_, _, hk⟩ := head_arm_facts (c := { c with nextPos := c.nextPos + 1 }) hstok hlT hf
                    have := hk q (by simp [Body.seqs])
                    simp [seqKeepOk, hmark] at this
                  | none =>
                    simp only [stateOk, hlT, Bool.and_eq_true, plainStateOk, List.all_eq_true] at hstok
                    have := hstok.2 ⟨pat, .seq q⟩ (findArm_sel hf).1 q (by simp [Body.seqs])
                    simp only [markSeqOk, hmark, bne_self_eq_false, Bool.false_or, Bool.and_eq_true, htr, beq_iff_eq] at this
                    exact this.2
                refine ⟨_, rfl, ⟨h.l0, h.pre, hHpre, by simp only [List.length_singleton]; omega, fun hn => by simp at hn, fun _ => ?_⟩, rfl⟩
                exact ⟨rfl, .lt, hlabj, rfl, fun hn => by cases hn⟩
          · simp at hlt
    · simp at hlt


/-- the tag token after `finish_tag_name` of the re-lexed tag is the hinted one: same kind, same
name hash, name range = the name bytes of the head -/
structure RelexTag (G : RG) (l : LexRegs) : Prop where
  tag : ∃ tok, l.curTag = some tok ∧ tagKey tok = headKey G.H ∧
    tok.name = ⟨l.lexemeStart + G.H.length - (headName G.H).length, l.lexemeStart + G.H.length⟩

theorem prefix_eq_of_length {w H : Bytes} (h : w <+: H) (hl : w.length = H.length) : w = H := by
  obtain ⟨r, hr⟩ := h
  have : r = [] := by
    have := congrArg List.length hr
    simp at this
    cases r with
    | nil => rfl
    | cons _ _ => simp at this; omega
  subst this
  simpa using hr

theorem shape_name_phase {ph : Phase} {w : Bytes} (h1 : shapeB ph w = true) (h2 : shapeB .name w = true) : ph = .name := by
  have hl := shape_name_len h2
  obtain ⟨hn, hw⟩ := shape_name h2
  cases ph with
  | name => rfl
  | lt => have := shape_lt h1; subst this; simp at hl
  | slash =>
    have := shape_slash h1
    subst this
    simp [headName, nameOk] at hn

theorem setTagName_name (t : TagOutline) (r : Range) : (setTagName t r).name = r := by
  cases t <;> rfl

/-- **the terminator**: the lexer runs `finish_tag_name` here, on a tag token of the hinted kind and
hash; the rest of the arm (`emit_tag`, if any, and the transition) follows -/
theorem relex_step_fin (hrel : RelexOk env.tbl L TT S = true)
    {G : RG} (hG : RGOk env.tbl L S G) {c : Common} {l : LexRegs} {x : Ctx κ}
    (h : RelexHead env.tbl L G inp c l G.H) :
    ((stateFn env inp (⟨c, .lexer l, x⟩ : M κ)).2 = some (.err (.panic "debug_assert: End tag should exist at this point")) ∧
      (stateFn env inp (⟨c, .lexer l, x⟩ : M κ)).1.x = x) ∨
    (∃ (l1 : LexRegs) (q : ActSeq) (A' : Arm), selArm env.tbl G.sfin G.term = some A' ∧ q ∈ A'.body.seqs ∧
      finishCalls q.calls = true ∧ c.state = G.sfin ∧
      RelexTag G l1 ∧ l1.fd = l.fd ∧ l1.lexemeStart = l.lexemeStart ∧
      stateFn env inp (⟨c, .lexer l, x⟩ : M κ) =
        ((runSeq env inp ⟨q.calls.tail, q.trans⟩ (⟨{ c with nextPos := c.nextPos + 1 }, .lexer l1, x⟩ : M κ)).1,
         (runSeq env inp ⟨q.calls.tail, q.trans⟩ (⟨{ c with nextPos := c.nextPos + 1 }, .lexer l1, x⟩ : M κ)).2.1)) := by
  have hne : G.H ≠ [] := shape_ne_nil hG.shape
  obtain ⟨hst, ph, hlab, hshape, hsem⟩ := h.st hne
  have hph : ph = .name := shape_name_phase hshape hG.shape
  subst hph
  obtain ⟨⟨tok, htok, hkey⟩, hstart⟩ := hsem rfl
  -- the state is `sfin`
  have hsf : c.state = G.sfin := by
    have := hG.path; rw [hst] at this; simpa using this
  -- lexer-side facts
  obtain ⟨s0, hs0, hside⟩ := hG.img G.H.tail.length (Nat.le_refl _)
  rw [List.take_length, hst] at hs0
  simp only [Option.some.injEq] at hs0
  subst hs0
  obtain ⟨sd', ph0, hsd', he, hm, hsq, hcq, _, _⟩ := lexSide_facts hrel hside
  -- the byte
  have hinb : inp[c.nextPos]? = some G.term := by
    rw [← h.pos]
    apply input_byte h.pre
    simp
  obtain ⟨A', hsel, hfin⟩ := hG.fin
  rw [← hsf] at hsel
  simp only [selArm, hsd'] at hsel
  have hf : findArm env.tbl { c with nextPos := c.nextPos + 1 } (some G.term) sd'.arms = some A' := by
    rw [findArm_c0 (c := { c with nextPos := c.nextPos + 1 }) G.term sd'.arms hcq]; exact hsel
  rw [stateFn_plain_byte (m := (⟨c, .lexer l, x⟩ : M κ)) hsd' he hm hsq hinb hf]
  have hselG : selArm env.tbl G.sfin G.term = some A' := by rw [← hsf]; simp only [selArm, hsd']; exact hsel
  -- running a finishing list
  have hrunfin : ∀ q, finishCalls q.calls = true → q ∈ A'.body.seqs →
      ∃ l1, RelexTag G l1 ∧ l1.fd = l.fd ∧ l1.lexemeStart = l.lexemeStart ∧
        runSeq env inp q (⟨{ c with nextPos := c.nextPos + 1 }, .lexer l, x⟩ : M κ) =
          runSeq env inp ⟨q.calls.tail, q.trans⟩ (⟨{ c with nextPos := c.nextPos + 1 }, .lexer l1, x⟩ : M κ) := by
    intro q hfc hq
    obtain ⟨rest, hc⟩ : ∃ rest, q.calls = ⟨.finishTagName, true⟩ :: rest := by
      rcases finishCalls_cases hfc with h' | h' <;> exact ⟨_, h'⟩
    refine ⟨{ l with curTag := some (setTagName tok (tokenPartRange { c with nextPos := c.nextPos + 1 } l)) }, ⟨⟨_, rfl, ?_, ?_⟩⟩, rfl, rfl, ?_⟩
    · rw [tagKey_setTagName]; exact hkey
    · rw [setTagName_name]
      simp only [tokenPartRange, Nat.add_sub_cancel]
      have := h.pos
      congr 1 <;> omega
    · unfold runSeq
      rw [hc, runCalls_cons_q _ _ _ rfl]
      simp [act, lexAct, htok]
  cases hbody : A'.body with
  | seq q =>
    rw [hbody] at hfin
    simp only at hfin
    right
    obtain ⟨l1, r1, r2, r3, r4⟩ := hrunfin q hfin (by simp [hbody, Body.seqs])
    refine ⟨l1, q, A', hselG, by simp [hbody, Body.seqs], hfin, hsf, r1, r2, r3, ?_⟩
    simp only [runBody]
    rw [r4]
  | ite cnd xq yq =>
    rw [hbody] at hfin
    simp only at hfin
    obtain ⟨hc, hbr⟩ := hfin
    subst hc
    cases tok with
    | startTag n hh ns as sc =>
      -- the lexer's assertion fires: `is_appropriate_end_tag` on a start tag
      left
      simp [runBody, cond, htok]
    | endTag n hh =>
      right
      have hK : (headKey G.H).1 = false := by rw [← hkey]; rfl
      have hK2 : (headKey G.H).2 = hh := by rw [← hkey]; rfl
      have hbr' := hbr hK
      have hcond : cond .isAppropriateEndTag (⟨{ c with nextPos := c.nextPos + 1 }, .lexer l, x⟩ : M κ) = some (G.L0 == (headKey G.H).2) := by
        simp [cond, htok, h.l0, hK2]
      have hqsel : (if G.L0 == (headKey G.H).2 then xq else yq) ∈ A'.body.seqs := by
        rw [hbody]; cases G.L0 == (headKey G.H).2 <;> simp [Body.seqs]
      obtain ⟨l1, r1, r2, r3, r4⟩ := hrunfin _ hbr' hqsel
      refine ⟨l1, _, A', hselG, hqsel, hbr', hsf, r1, r2, r3, ?_⟩
      have : runBody env inp (.ite .isAppropriateEndTag xq yq) (⟨{ c with nextPos := c.nextPos + 1 }, .lexer l, x⟩ : M κ) =
          runSeq env inp (if G.L0 == (headKey G.H).2 then xq else yq) (⟨{ c with nextPos := c.nextPos + 1 }, .lexer l, x⟩ : M κ) := by
        simp only [runBody, hcond]
        cases G.L0 == (headKey G.H).2 <;> rfl
      rw [this, r4]


/-! ### the whole head, silently -/

/-- `n` state-function calls that signal nothing -/
inductive SilentSteps (env : Env κ) (inp : Bytes) : Nat → M κ → M κ → Prop
  | zero (m : M κ) : SilentSteps env inp 0 m m
  | succ {n : Nat} {m m' : M κ} : (stateFn env inp m).2 = none → SilentSteps env inp n (stateFn env inp m).1 m' →
      SilentSteps env inp (n + 1) m m'

theorem SilentSteps.trans {n k : Nat} {a b c : M κ} (h1 : SilentSteps env inp n a b) (h2 : SilentSteps env inp k b c) :
    SilentSteps env inp (n + k) a c := by
  induction h1 with
  | zero m => simpa using h2
  | @succ n' _ _ hs _ ih =>
    have := SilentSteps.succ hs (ih h2)
    rw [show n' + 1 + k = n' + k + 1 by omega]
    exact this

/-- the loop follows silent steps -/
theorem runLoop_silent {n : Nat} {m m' : M κ} (h : SilentSteps env inp n m m') (fuel : Nat) :
    runLoop env inp (n + fuel) m = runLoop env inp fuel m' := by
  induction h with
  | zero m => simp
  | @succ n' _ _ hs _ ih =>
    rw [show n' + 1 + fuel = (n' + fuel) + 1 by omega]
    simp only [runLoop, hs]
    exact ih

/-- from the `<` to the terminator: `|H| - |w|` more silent calls, the context untouched -/
theorem relex_head_run (hhead : HeadOk env.tbl L = true) (hrel : RelexOk env.tbl L TT S = true)
    {G : RG} (hG : RGOk env.tbl L S G) (x : Ctx κ) (k : Nat) :
    ∀ (c : Common) (l : LexRegs) (w : Bytes), RelexHead env.tbl L G inp c l w → w.length + k = G.H.length →
      ∃ c' l', SilentSteps env inp k (⟨c, .lexer l, x⟩ : M κ) (⟨c', .lexer l', x⟩ : M κ) ∧
        RelexHead env.tbl L G inp c' l' G.H ∧ l'.lexemeStart = l.lexemeStart ∧ l'.fd = l.fd ∧ c'.isLast = c.isLast := by
  induction k with
  | zero =>
    intro c l w h hl
    have : w = G.H := prefix_eq_of_length h.wpre (by omega)
    subst this
    exact ⟨c, l, .zero _, h, rfl, rfl, rfl⟩
  | succ k ih =>
    intro c l w h hl
    by_cases hw : w = []
    · subst hw
      obtain ⟨c', hs, hh, hlast⟩ := relex_step0 (x := x) hhead hrel hG h
      obtain ⟨c2, l2, s2, h2, e1, e2, e3⟩ := ih c' l [60] hh (by simp at hl ⊢; omega)
      exact ⟨c2, l2, .succ (by rw [hs]) (by rw [hs]; exact s2), h2, e1, e2, by rw [e3, hlast]⟩
    · obtain ⟨c', l', b, hs, hh, e1, e2, e3⟩ := relex_step_keep (x := x) hhead hrel hG h hw (by omega)
      obtain ⟨c2, l2, s2, h2, f1, f2, f3⟩ := ih c' l' (w ++ [b]) hh (by simp; omega)
      exact ⟨c2, l2, .succ (by rw [hs]) (by rw [hs]; exact s2), h2, by rw [f1, e1], by rw [f2, e2], by rw [f3, e3]⟩

/-! ### between `finish_tag_name` and `emit_tag` -/

/-- kind, name hash and name range of a tag token -/
def tagId (t : TagOutline) : (Bool × Nat) × Range := (tagKey t, t.name)

theorem updTagHash_never (t : TagOutline) : True := trivial

/-- actions allowed between `finish_tag_name` and `emit_tag` (`phAct · inTag = some inTag`) do not touch
kind, hash and name of the tag token, nor the feedback directive, nor the simulator -/
theorem lexAct_inTag (a : ActName) (ha : phAct a .inTag = some .inTag) (c : Common) (l : LexRegs) (x : Ctx κ) :
    ∃ c' l' x', (lexAct env a inp c l x).1 = ⟨c', .lexer l', x'⟩ ∧ l'.curTag.map tagId = l.curTag.map tagId ∧
      l'.fd = l.fd ∧ x'.sim = x.sim := by
  have hnt : ∀ c l x o e, ∃ l' x', (lexEmitNonTag env inp c l x o e).1 = ⟨c, .lexer l', x'⟩ ∧ l'.curTag = l.curTag ∧
      l'.fd = l.fd ∧ x'.sim = x.sim := by
    intro c l x o e
    unfold lexEmitNonTag
    dsimp only
    split <;> exact ⟨_, _, rfl, rfl, rfl, rfl⟩
  have htx : ∀ c l x, ∃ l' x', (lexEmitText env inp c l x).1 = ⟨c, .lexer l', x'⟩ ∧ l'.curTag = l.curTag ∧
      l'.fd = l.fd ∧ x'.sim = x.sim := by
    intro c l x
    unfold lexEmitText
    split
    · exact hnt _ _ _ _ _
    · exact ⟨_, _, rfl, rfl, rfl, rfl⟩
  have hand : ∀ (r : M κ × Option Signal) c l x, r.1 = ⟨c, .lexer l, x⟩ →
      ∃ l' x', (andThen r (lexEmitEof env inp)).1 = ⟨c, .lexer l', x'⟩ ∧ l'.curTag = l.curTag ∧ l'.fd = l.fd ∧ x'.sim = x.sim := by
    intro r c l x hr
    unfold andThen
    split
    · exact ⟨l, x, hr, rfl, rfl, rfl⟩
    · rw [hr]
      exact hnt _ _ _ _ _
  cases a <;> simp only [phAct, Option.some.injEq, reduceCtorEq] at ha <;> simp only [lexAct]
  case emitText => obtain ⟨l', x', h1, h2, h3, h4⟩ := htx c l x; exact ⟨c, l', x', h1, by rw [h2], h3, h4⟩
  case emitTextAndEof =>
    obtain ⟨l1, x1, h1, h2, h3, h4⟩ := htx c l x
    obtain ⟨l', x', g1, g2, g3, g4⟩ := hand _ c l1 x1 h1
    exact ⟨c, l', x', g1, by rw [g2, h2], by rw [g3, h3], by rw [g4, h4]⟩
  case emitCurrentToken => obtain ⟨l', x', h1, h2, h3, h4⟩ := hnt c { l with curNonTag := none } x l.curNonTag (c.pos + 1); exact ⟨c, l', x', h1, by rw [h2], h3, h4⟩
  case emitCurrentTokenAndEof =>
    obtain ⟨l1, x1, h1, h2, h3, h4⟩ := hnt c { l with curNonTag := none } x l.curNonTag c.pos
    obtain ⟨l', x', g1, g2, g3, g4⟩ := hand _ c l1 x1 h1
    exact ⟨c, l', x', g1, by rw [g2, h2], by rw [g3, h3], by rw [g4, h4]⟩
  case emitRawWithoutToken => obtain ⟨l', x', h1, h2, h3, h4⟩ := hnt c l x none (c.pos + 1); exact ⟨c, l', x', h1, by rw [h2], h3, h4⟩
  case emitRawWithoutTokenAndEof =>
    obtain ⟨l1, x1, h1, h2, h3, h4⟩ := hnt c l x none c.pos
    obtain ⟨l', x', g1, g2, g3, g4⟩ := hand _ c l1 x1 h1
    exact ⟨c, l', x', g1, by rw [g2, h2], by rw [g3, h3], by rw [g4, h4]⟩
  case markAsSelfClosing =>
    split
    · rename_i n h ns as sc heq
      exact ⟨_, _, _, rfl, by simp [heq, tagId, tagKey, TagOutline.name], rfl, rfl⟩
    · exact ⟨_, _, _, rfl, rfl, rfl, rfl⟩
  case finishAttr =>
    split
    · split
      · rename_i n h ns as sc heq
        exact ⟨_, _, _, rfl, by simp [heq, tagId, tagKey, TagOutline.name], rfl, rfl⟩
      · exact ⟨_, _, _, rfl, rfl, rfl, rfl⟩
    · exact ⟨_, _, _, rfl, rfl, rfl, rfl⟩
  all_goals (first
    | exact ⟨_, _, _, rfl, rfl, rfl, rfl⟩
    | (split <;> exact ⟨_, _, _, rfl, rfl, rfl, rfl⟩))

/-- **`emit_tag`**: either the tag is refused (simulator / callback error) and the sink is not called, or
`handle_tag` is called once with a lexeme that starts at `lexeme_start` and whose outline has the
token's kind, hash and name -/
theorem lexEmitTag_outcome (c : Common) (l : LexRegs) (x : Ctx κ) (tok : TagOutline) (hct : l.curTag = some tok) :
    (∃ e, (lexEmitTag env inp c l x).2 = some (.err e) ∧ (lexEmitTag env inp c l x).1.x.sink = x.sink) ∨
    (∃ c2 sim2 tok', tagId tok' = tagId tok ∧
      lexEmitTag env inp c l x = lexEmitTagLexeme env inp c2 { l with curTag := none, fd := .none } x sim2 tok' (c.pos + 1)) := by
  unfold lexEmitTag
  rw [hct]
  dsimp only
  split
  · left; exact ⟨_, rfl, rfl⟩
  · rename_i sf _
    split
    · left; exact ⟨_, rfl, rfl⟩
    · rename_i cs _
      right
      refine ⟨_, _, _, ?_, rfl⟩
      cases tok <;> simp [lexStampTag, tagId, tagKey, TagOutline.name]

theorem lexEmitTagLexeme_call (c : Common) (l : LexRegs) (x : Ctx κ) (sim : Sim) (tok : TagOutline) (e : Nat) :
    (lexEmitTagLexeme env inp c l x sim tok e).1.x.sink =
      (env.ops.handleTag inp ⟨x.prevConsumed, ⟨l.lexemeStart, e⟩, tok⟩ x.sink).1 := by
  unfold lexEmitTagLexeme
  dsimp only
  split <;> rfl


/-! ### the restart -/

/-- the lexer loaded from the scanner's bookmark stands on the `<` of the hinted tag, in the head
phase with nothing consumed -/
theorem relex_start {Pend : κ → Bool} {K : Bool} {m' : M κ} {bm : Bookmark} (hd : HeadDone env L S Pend K inp m' bm)
    (cl : Common) (l : LexRegs) (h1 : cl.state = env.tbl.textState bm.textType) (h2 : cl.nextPos = bm.pos)
    (h3 : l.lexemeStart = bm.pos) (h4 : cl.lastStartTagNameHash = bm.lastStartTagNameHash) :
    ∃ G : RG, RGOk env.tbl L S G ∧ RelexHead env.tbl L G inp cl l [] ∧ G.L0 = bm.lastStartTagNameHash ∧
      (Pend m'.x.sink = true → headKind G.H = K) ∧
      (∀ k, bm.fd = .applyUnhandled (.requestLexeme k) →
        ∃ sim0, feedbackOf env.cfg sim0 (headKey G.H) = .ok (m'.x.sim, .requestLexeme k)) := by
  obtain ⟨H, term, s1', sfin, a1, a2, a3, a4, a5, a6, a7, a8⟩ := hd.ex
  refine ⟨⟨H, term, s1', sfin, bm.lastStartTagNameHash⟩, ⟨a1, a4, a5, a6⟩, ?_, rfl, a7, a8⟩
  exact ⟨h4, by rw [h3]; exact a2, List.nil_prefix, by simp [h3, h2], fun _ => by rw [h1]; exact a3,
    fun hn => absurd rfl hn⟩

end
end LolHtml.Model
