import LolHtml.Lemmas.TbBody2
/-!
The start tags of "in body" in the body phase.
-/
namespace LolHtml.Spec.TreeBuilder
open LolHtml.Model (Ns)

variable {c : Cfg} {s : State}

theorem afe_el_nonanchor {t : Tree} (h : AfeFmt t) (e : El) (he : AfeEntry.el e ∈ t.afe) : e.isAnchor = false := by
  simp [El.isAnchor, El.isHtmlIn, formatting_nonanchor _ (h e he)]

/-- the `a` start tag with an `a` element in the list of active formatting elements -/
theorem bstep_a (hI : Inv false s) (hB : BInv s) (hph : BodyPhase s) (h1 : s.mode ≠ .text) (h2 : s.mode ≠ .inTableText)
    (e : El) (he : findAfeA s.afe = some e) (a : Attrs) :
    BStep s ((((s.adoptionAgency c .a).removeFromAfe e).removeFromStack e).reconstructAfe.insertFormatting .a a) := by
  have hAT := AT.ofInv hI hB
  have hen : e.isAnchor = false := afe_el_nonanchor hI.tree.afe e (findFormatting_mem _ _ _ he)
  have hk1 : Keeps s.tree (s.tree.adoptionAgency c .a) := keeps_adoptionAgency c hAT .a (by decide)
  have hok1 : TreeOk (PNoCol false) (s.tree.adoptionAgency c .a) := by (tree_ok)
  have hok3 : TreeOk (PNoCol false) (((s.tree.adoptionAgency c .a).removeFromAfe e).removeFromStack e) := by (tree_ok)
  refine bstep_filter hB hph h1 h2 e hen ?_ ⟨rfl, rfl⟩ (Or.inl rfl) (Or.inl rfl) ?_
  rotate_left 1
  · intro _ hS
    have hT : TreeOk PNoSel s.tree := ⟨hS, hI.tree.afe⟩
    have : TreeOk PNoSel (((((s.tree.adoptionAgency c .a).removeFromAfe e).removeFromStack e).reconstructAfe).insertFormatting .a a) := by
      sel_ok
    exact this.stack
  show anchorSuffix (((((s.tree.adoptionAgency c .a).removeFromAfe e).removeFromStack e).reconstructAfe).insertFormatting .a a).stack = _
  rw [(keeps_insertFormatting _ .a a (by decide) : Keeps _ _), (keeps_reconstructAfe hok3.afe : Keeps _ _)]
  show anchorSuffix ((s.tree.adoptionAgency c .a).stack.filter (· != e)) = _
  rw [anchorSuffix_filter e hen, hk1]

set_option maxHeartbeats 8000000 in
theorem inBodyStart_body (hleg : c.legacySelect = false) (hI : Inv false s) (hB : BInv s) (hph : BodyPhase s)
    (h1 : s.mode ≠ .text) (h2 : s.mode ≠ .inTableText) (n : Name) (sc : Bool) (a : Attrs)
    (hn : n ≠ .svg ∧ n ≠ .math ∧ n ≠ .template ∧ n ≠ .table) (hfs : n = .frameset → s.framesetOk = false) :
    BodyPost s (inBodyStart c s n a sc) := by
  have hAT := AT.ofInv hI hB
  obtain ⟨hsvg, hmath, htpl, htab⟩ := hn
  cases n <;> (try (exfalso; first | exact hsvg rfl | exact hmath rfl | exact htpl rfl | exact htab rfl))
  all_goals eval_rule [inBodyStart, hleg, inHead, rawText]
  all_goals (repeat' split)
  all_goals first
    | body_branch hAT hB hph h1 h2
    | (rename_i e he; exact bstep_a hI hB hph h1 h2 e he a)

end LolHtml.Spec.TreeBuilder
