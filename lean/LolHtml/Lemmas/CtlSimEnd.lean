import LolHtml.Lemmas.CtlSim
/-!
The `end` step of the controller simulation (Lemmas/CtlSim.lean has `write_sim` / `writeAll_sim` only), and the
simulation of complete runs `write* ; end`.

`end` has two places at which the first controller may part from the second one: a callback under the last `parse`
(the error comes back through `parseErr`, as for `write`), and `handle_end` itself (dispatcher.rs:98; the error comes
back as it is).
-/
set_option linter.unusedSimpArgs false
set_option linter.unusedVariables false

namespace LolHtml.Model.Chunk.R
open LolHtml LolHtml.Model LolHtml.Model.Chunk LolHtml.Thm

variable {γ : Type}

section
variable {w : World γ} {c2 : Controller γ} {D : γ → Prop} {G : Err → Prop}

local notation "w2" => World.withCtl w c2

variable (h : CtlSim w.ctl c2 D G)
include h

/-- `Dispatcher::finish` over the two controllers -/
theorem finish_step (d : Disp γ) (inp : Bytes) (hd : D d.ctl) :
    DStep D G (d.finish w.ctl inp) (d.finish c2 inp) := by
  unfold Disp.finish
  refine DStep.bind (DStep.same _ ?_) fun d1 _ h1 => ?_
  · cases hfl : d.flushRemaining inp inp.length with
    | error e => exact hd
    | ok d' =>
      show D d'.ctl
      rw [flushRemaining_ctl hfl]; exact hd
  · rcases h.handleEnd d1.ctl h1 with ⟨he, hD⟩ | ⟨e, hG, he⟩
    · rw [← he]
      refine DStep.same _ ?_
      dsimp only
      split <;> exact hD
    · right
      refine ⟨e, hG, ?_⟩
      dsimp only
      rw [he]

variable (ht : EmitsChecked w.tbl = true)
include ht

/-- `TransformStream::end` -/
theorem streamEnd_sim (s : Stream γ) (hd : D s.disp.ctl) :
    (s.end w = s.end (w2) ∧ ((s.end w).2 = .ok () → D (s.end w).1.disp.ctl)) ∨
    ∃ e, G e ∧ ((s.end w).2 = .error (RelE.parseErr e) ∨ (s.end w).2 = .error e) := by
  unfold Stream.end
  rw [← bail_eq h]
  dsimp only
  generalize (if s.hasBuffered = true then s.buf.data else []) = chunk
  rcases parse_sim h ht chunk true s.parser hd with ⟨he, hD⟩ | ⟨e, hGe, he⟩
  · rw [← he]
    cases hpr : (s.parser.parse w.env chunk true).2 with
    | error e => exact Or.inl ⟨rfl, fun hh => by cases hh⟩
    | ok consumed =>
      dsimp only
      rcases finish_step h (Stream.disp { s with parser := (s.parser.parse w.env chunk true).1 }) chunk hD with
        ⟨hf, hDf⟩ | ⟨e, hGe, hf⟩
      · left
        refine ⟨?_, fun _ => hDf⟩
        show _ = (Stream.setDisp _ (Disp.finish c2 _ chunk).1, (Disp.finish c2 _ chunk).2)
        rw [← hf]
      · right
        exact ⟨e, hGe, Or.inr hf⟩
  · right
    refine ⟨e, hGe, Or.inl ?_⟩
    rw [he]

/-- `HtmlRewriter::end` -/
theorem rewriter_end_sim (r : Rewriter γ) (hr : RD D r) :
    r.end w = r.end (w2) ∨
    ∃ e, G e ∧ ((r.end w).2 = .err (RelE.parseErr e) ∨ (r.end w).2 = .err e) := by
  unfold Rewriter.end
  by_cases hp : r.poisoned = true
  · rw [if_pos hp, if_pos hp]
    exact Or.inl rfl
  · rw [if_neg hp, if_neg hp]
    have hd : D r.stream.disp.ctl := by rcases hr with hh | hh; exact absurd hh hp; exact hh
    rcases streamEnd_sim h ht r.stream hd with ⟨he, _⟩ | ⟨e, hGe, he⟩
    · rw [← he]
      exact Or.inl rfl
    · right
      refine ⟨e, hGe, ?_⟩
      dsimp only
      rcases he with he | he
      · left; rw [he]
      · right; rw [he]

/-- a complete run `write* ; end`: the same run, or a call returned an error of the class (a callback under `parse`:
through `parseErr`; `handle_end`: as it is) -/
theorem run_sim (cs : List Bytes) (r : Rewriter γ) (hr : RD D r) :
    C01.run w r cs = C01.run (w2) r cs ∨
    ∃ e, G e ∧ (CallRes.err (RelE.parseErr e) ∈ (C01.run w r cs).2 ∨ CallRes.err e ∈ (C01.run w r cs).2) := by
  unfold C01.run
  dsimp only
  rcases writeAll_sim h ht cs r hr with ⟨he, hD⟩ | ⟨_, e, hGe, hm⟩
  · rw [← he]
    rcases rewriter_end_sim h ht _ hD with he2 | ⟨e, hGe, he2⟩
    · rw [← he2]
      exact Or.inl rfl
    · right
      refine ⟨e, hGe, ?_⟩
      rcases he2 with he2 | he2
      · left; rw [he2]; exact List.mem_append_right _ List.mem_cons_self
      · right; rw [he2]; exact List.mem_append_right _ List.mem_cons_self
  · right
    exact ⟨e, hGe, Or.inl (List.mem_append_left _ hm)⟩

end

end LolHtml.Model.Chunk.R
