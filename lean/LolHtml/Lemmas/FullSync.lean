/-
Package `full`: the controller-owned part of the element descriptors (`St.descs`) stays parallel to the
selector VM's open-element stack (`vm.stack.items`): same length after every callback — so
`current_element_data_mut()` pairs each descriptor with the element it was created for, and
`handle_end_tag` hands every popped element its own descriptor.
-/
import LolHtml.Lemmas.FullInv

namespace LolHtml.Model.Full
open LolHtml LolHtml.Model LolHtml.Model.Handlers LolHtml.EditModel LolHtml.SelVM

/-- one controller descriptor per open element of the VM (no VM: no descriptors) -/
def Sync (s : St) : Prop :=
  match s.vm with
  | some vm => s.descs.length = vm.stack.items.length
  | none => s.descs = []

/-! ### the VM changes its stack depth by at most one push -/

theorem incLast_length (l : List StackItem) : (incLastChildCounter l).length = l.length := by
  induction l with
  | nil => rfl
  | cons x xs ih =>
    cases xs with
    | nil => rfl
    | cons y ys => simp only [incLastChildCounter, List.length_cons] at ih ⊢; omega

theorem addChild_length (s : Stack) (n : Bytes) : (s.addChild n).items.length = s.items.length := by
  unfold Stack.addChild
  dsimp only
  split
  · rfl
  · simp [incLast_length]

theorem finish_length (vm : Vm) (ctx : ExecutionCtx) :
    (vm.finish ctx).1.stack.items.length = vm.stack.items.length + (if ctx.withContent then 1 else 0) := by
  unfold Vm.finish
  split <;> simp [Stack.pushItem, *]

/-- depth after a completed start tag: unchanged or one more -/
def DepthStep (vm vm' : Vm) : Prop :=
  vm'.stack.items.length = vm.stack.items.length ∨ vm'.stack.items.length = vm.stack.items.length + 1

theorem finish_depth (vm : Vm) (ctx : ExecutionCtx) : DepthStep vm (vm.finish ctx).1 := by
  unfold DepthStep
  rw [finish_length]
  split
  · exact Or.inr rfl
  · exact Or.inl rfl

theorem execWithoutAttrs_shape (vm : Vm) (ctx : ExecutionCtx) (o : StartTagOutcome)
    (h : vm.execWithoutAttrs ctx = .ok o) :
    (∃ vm' ms, o = .done vm' ms ∧ DepthStep vm vm') ∨ (∃ req, o = .infoRequest vm req) := by
  unfold Vm.execWithoutAttrs at h
  simp only [bind, Except.bind, pure, Except.pure] at h
  split at h
  · cases h
  · split at h
    · simp only [Except.ok.injEq] at h; exact Or.inr ⟨_, h.symm⟩
    · split at h
      · cases h
      · split at h
        · simp only [Except.ok.injEq] at h; exact Or.inr ⟨_, h.symm⟩
        · split at h
          · cases h
          · split at h
            · simp only [Except.ok.injEq] at h; exact Or.inr ⟨_, h.symm⟩
            · simp only [Except.ok.injEq] at h
              exact Or.inl ⟨_, _, h.symm, finish_depth _ _⟩

theorem execForStartTag_shape (vm : Vm) (name : Bytes) (ns : Sel.Ns) (o : StartTagOutcome)
    (h : vm.execForStartTag name ns = .ok o) :
    (∃ vm' ms, o = .done vm' ms ∧ DepthStep vm vm') ∨
    (∃ vm1 req, o = .infoRequest vm1 req ∧ vm1.stack.items.length = vm.stack.items.length) := by
  unfold Vm.execForStartTag at h
  dsimp only at h
  have hl : ({ vm with stack := vm.stack.addChild name } : Vm).stack.items.length = vm.stack.items.length :=
    addChild_length _ _
  split at h
  · rcases execWithoutAttrs_shape _ _ _ h with ⟨vm', ms, ho, hd⟩ | ⟨req, ho⟩
    · exact Or.inl ⟨vm', ms, ho, by unfold DepthStep at *; rw [hl] at hd; exact hd⟩
    · exact Or.inr ⟨_, req, ho, hl⟩
  · simp only [pure, Except.pure, Except.ok.injEq] at h
    exact Or.inr ⟨_, _, h.symm, hl⟩
  · rcases execWithoutAttrs_shape _ _ _ h with ⟨vm', ms, ho, hd⟩ | ⟨req, ho⟩
    · exact Or.inl ⟨vm', ms, ho, by unfold DepthStep at *; rw [hl] at hd; exact hd⟩
    · exact Or.inr ⟨_, req, ho, hl⟩

theorem resume_depth (vm vm' : Vm) (aux : AuxStartTagInfo) (req : Pending) (ms : List MatchInfo)
    (h : req.resume vm aux = .ok (vm', ms)) : DepthStep vm vm' := by
  cases req with
  | immediate ctx =>
    simp only [Pending.resume, Vm.execAfterImmediateAuxInfoRequest, bind, Except.bind, pure, Except.pure] at h
    split at h
    · cases h
    · split at h
      · cases h
      · split at h
        · cases h
        · simp only [Except.ok.injEq] at h
          have := finish_depth vm (by assumption)
          rw [h] at this; exact this
  | bailoutInEntryPoints ctx b =>
    simp only [Pending.resume, bind, Except.bind, pure, Except.pure] at h
    split at h
    · cases h
    · split at h
      · cases h
      · simp only [Except.ok.injEq] at h
        have := finish_depth vm (by assumption)
        rw [h] at this; exact this
  | bailoutInJumps ctx b =>
    simp only [Pending.resume, bind, Except.bind, pure, Except.pure] at h
    split at h
    · cases h
    · split at h
      · cases h
      · simp only [Except.ok.injEq] at h
        have := finish_depth vm (by assumption)
        rw [h] at this; exact this
  | bailoutInHereditaryJumps ctx b =>
    simp only [Pending.resume, bind, Except.bind, pure, Except.pure] at h
    split at h
    · cases h
    · split at h
      · cases h
      · simp only [Except.ok.injEq] at h
        have := finish_depth vm (by assumption)
        rw [h] at this; exact this

theorem popUpTo_length (s s' : Stack) (name : Bytes) (popped : List StackItem)
    (h : s.popUpTo name = .ok (s', popped)) : s'.items.length + popped.length = s.items.length := by
  unfold Stack.popUpTo at h
  split at h
  · simp only [pure, Except.pure, Except.ok.injEq, Prod.mk.injEq] at h
    rw [← h.1, ← h.2]; simp
  · split at h
    · simp only [pure, Except.pure, Except.ok.injEq, Prod.mk.injEq] at h
      rw [← h.1, ← h.2]; simp
    · rename_i index _
      simp only [bind, Except.bind, pure, Except.pure] at h
      split at h
      · cases h
      · simp only [Except.ok.injEq, Prod.mk.injEq] at h
        rw [← h.1, ← h.2]
        simp only [List.length_take, List.length_drop]
        omega

/-! ### preservation of `Sync` -/

theorem afterVm_sync {s : St} (vm vm' : Vm) (infos : List MatchInfo) (hs : s.descs.length = vm.stack.items.length)
    (hd : DepthStep vm vm') : Sync (s.afterVm vm.stack.items.length vm' infos).1 ∨
      (s.afterVm vm.stack.items.length vm' infos).1 = s := by
  unfold St.afterVm
  split
  · exact Or.inr rfl
  · refine Or.inl ?_
    simp only [Sync]
    rcases hd with hd | hd
    · have : ¬ (vm'.stack.items.length > vm.stack.items.length) := by omega
      simp [this, hs, hd]
    · have : vm'.stack.items.length > vm.stack.items.length := by omega
      simp [this, hs, hd]

theorem startTagCore_sync {s : St} (h : Sync s) (name : LocalName) (ns : Model.Ns) : Sync (startTagCore s name ns).1 := by
  unfold startTagCore
  split
  · exact h
  · rename_i vm hv
    have hs : s.descs.length = vm.stack.items.length := by simpa [Sync, hv] using h
    split
    · exact h
    · rename_i vm' infos he
      rcases execForStartTag_shape _ _ _ _ he with ⟨vm2, ms, ho, hd⟩ | ⟨vm1, req, ho, _⟩
      · cases ho
        dsimp only
        rcases afterVm_sync vm vm' infos hs hd with h1 | h1
        · split <;> exact h1
        · split <;> (rw [h1]; exact h)
      · cases ho
    · rename_i vm' req he
      rcases execForStartTag_shape _ _ _ _ he with ⟨vm2, ms, ho, hd⟩ | ⟨vm1, req', ho, hl⟩
      · cases ho
      · cases ho
        simp only [Sync]
        rw [hl]; exact hs

theorem startTag_sync {s : St} (h : Sync s) (name : LocalName) (ns : Model.Ns) : Sync (startTag s name ns).1 := by
  unfold startTag
  split
  · exact h
  · exact startTagCore_sync (s := { s with ord := s.ord + 1 }) (by unfold Sync at *; exact h) name ns

theorem auxInfo_sync {s : St} (h : Sync s) (info : AuxInfo) : Sync (auxInfo s info).1 := by
  unfold auxInfo
  split
  · rename_i vm req hv hp
    have hs : s.descs.length = vm.stack.items.length := by simpa [Sync, hv] using h
    split
    · exact h
    · split
      · exact h
      · rename_i vm' infos hr
        rcases afterVm_sync vm vm' infos hs (resume_depth _ _ _ _ _ hr) with h1 | h1
        · exact h1
        · rw [h1]; exact h
  · exact h

theorem endTag_sync {s : St} (h : Sync s) (name : LocalName) : Sync (endTag s name).1 := by
  unfold endTag
  split
  · exact h
  · rename_i vm hv
    have hs : s.descs.length = vm.stack.items.length := by simpa [Sync, hv] using h
    split
    · simpa [Sync, hv] using hs
    · rename_i vm' popped he
      have hlen : vm'.stack.items.length + popped.length = vm.stack.items.length := by
        unfold Vm.execForEndTag at he
        simp only [bind, Except.bind, pure, Except.pure] at he
        split at he
        · cases he
        · rename_i r hr
          simp only [Except.ok.injEq, Prod.mk.injEq] at he
          rw [← he.1, ← he.2]
          exact popUpTo_length _ _ _ _ (by rw [hr])
      split
      · dsimp only
        split
        · simpa [Sync, hv] using hs
        · simp only [Sync, List.length_take]
          omega
      · simpa [Sync, hv] using hs

theorem handleStartTag_desc_some {d d' : Dispatcher} (script : ElemScript) (ord : Nat)
    (cur : Option ElementDescriptor) {desc : Option ElementDescriptor} {inv : List Invocation}
    (hr : d.handleStartTag script ord cur = .ok (d', desc, inv)) (hd : desc.isSome) : cur.isSome := by
  unfold Dispatcher.handleStartTag at hr
  split at hr
  · simp at hr
  · dsimp only at hr
    split at hr
    · split at hr
      · rfl
      · simp only [Except.ok.injEq, Prod.mk.injEq] at hr
        rw [← hr.2.1] at hd; simp at hd
    · simp only [Except.ok.injEq, Prod.mk.injEq] at hr
      rw [← hr.2.1] at hd; exact hd

theorem currentElementData_some {s : St} (h : s.currentElementData.isSome) : s.descs ≠ [] := by
  unfold St.currentElementData at h
  split at h
  · simp at h
  · split at h
    · rename_i de hde
      intro hn; rw [hn] at hde; simp at hde
    · simp at h

theorem writeBack_length (descs : List Desc) (d : Option ElementDescriptor) :
    (writeBack descs d).length = descs.length := by
  cases d with
  | none => rfl
  | some x =>
    cases hl : descs.getLast? with
    | none => simp [writeBack, hl]
    | some top =>
      have hne : descs ≠ [] := by intro hn; rw [hn] at hl; simp at hl
      have : 0 < descs.length := List.length_pos_iff.2 hne
      simp only [writeBack, hl, List.length_append, List.length_dropLast, List.length_singleton]
      omega

variable {cfg : Cfg}

theorem token_sync {s : St} (h : Sync s) (t : Model.Token) : Sync (token cfg s t).1 := by
  have frame : ∀ s' : St, s'.vm = s.vm → s'.descs = s.descs → Sync s' := by
    intro s' hv hd; unfold Sync at *; rw [hv, hd]; exact h
  unfold token
  split
  · exact h
  · split
    · -- start tag
      unfold tokStartTag
      split
      · split
        · exact h
        · rename_i as _
          dsimp only
          generalize (if 0 < s.disp.removedContent then
            StartTag.apply { name := _, attributes := as, ns := nsEdit _, selfClosing := _, raw := _ } (StartTagOp.mut MutOp.remove)
            else { name := _, attributes := as, ns := nsEdit _, selfClosing := _, raw := _ }) = st
          obtain ⟨_, _, fv, fd, _⟩ := runClosures_frame cfg.elementScripts kElement Who.element (seeElement _)
            Element.applyOps _ s.disp.element.forEachActive s (Element.new st s.disp.nextElementCanHaveContent)
          generalize runClosures cfg.elementScripts kElement Who.element (seeElement _)
            Element.applyOps _ s.disp.element.forEachActive s (Element.new st s.disp.nextElementCanHaveContent) = r at fv fd ⊢
          split
          · exact frame _ fv fd
          · split
            · exact frame _ fv fd
            · rename_i d desc _ hh
              have hs1 : Sync r.1 := frame _ fv fd
              have hwb : (writeBack r.1.descs desc).length = r.1.descs.length := writeBack_length _ _
              unfold Sync at hs1 ⊢
              dsimp only
              split
              · rename_i vm hv
                rw [hv] at hs1
                rw [hwb]; exact hs1
              · rename_i hv
                rw [hv] at hs1
                have : (writeBack r.1.descs desc).length = 0 := by rw [hwb, hs1]; rfl
                exact List.eq_nil_of_length_eq_zero this
      · exact h
    · -- end tag
      unfold tokEndTag
      split
      · exact h
      · dsimp only
        split
        · exact frame _ rfl rfl
        · rename_i s' t' hr
          have key : ∀ (src : Range) (hs : List EndTagH) (s0 s1 : St) (t0 t1 : EndTag),
              runEndTagHandlers src hs s0 t0 = some (s1, t1) → s1.vm = s0.vm ∧ s1.descs = s0.descs := by
            intro src hs
            induction hs with
            | nil => intro s0 s1 t0 t1 h; simp only [runEndTagHandlers, Option.some.injEq, Prod.mk.injEq] at h; rw [← h.1]; exact ⟨rfl, rfl⟩
            | cons x xs ih =>
              intro s0 s1 t0 t1 h
              simp only [runEndTagHandlers] at h
              split at h
              · simp at h
              · rename_i p _
                obtain ⟨a, b⟩ := ih _ _ _ _ h
                have user : ∀ (user : List (List EndTagOp)) (subs : List (HId × Nat)) (s2 : St) (t2 : EndTag),
                    (runEndTagUser src subs user s2 t2).1.vm = s2.vm ∧ (runEndTagUser src subs user s2 t2).1.descs = s2.descs := by
                  intro user
                  induction user with
                  | nil => intro subs s2 t2; cases subs <;> exact ⟨rfl, rfl⟩
                  | cons o os ih2 =>
                    intro subs s2 t2
                    cases subs with
                    | nil => simpa [runEndTagUser] using ih2 [] s2 _
                    | cons sb sbs => simpa [runEndTagUser] using ih2 sbs _ _
                simp only [runEndTagHandler] at a b
                obtain ⟨c, d⟩ := user p.handler.user x.subs s0 _
                exact ⟨a.trans c, b.trans d⟩
          obtain ⟨a, b⟩ := key _ _ _ _ _ _ hr
          exact frame _ a b
    · simp only [tokComment]
      rename_i text raw src
      obtain ⟨_, _, fv, fd, _⟩ := runClosures_frame cfg.commentScripts kComment Who.comment seeComment Comment.applyOps
        src s.disp.comment.forEachActive s ({ text := text, raw := raw } : Comment)
      exact frame _ fv fd
    · simp only [tokDoctype]
      rename_i name publicId systemId _ raw src
      obtain ⟨_, _, fv, fd, _⟩ := runClosures_frame cfg.doctypeScripts kDoctype Who.doctype
        (fun _ => Seen.doctype (name.map asciiLowerBytes) publicId systemId) Doctype.applyOps src
        s.disp.doctype.forEachActive s ({ raw := raw } : Doctype)
      exact frame _ fv fd
    · simp only [tokText]
      rename_i bytes _ last src
      obtain ⟨_, _, fv, fd, _⟩ := runClosures_frame cfg.textScripts kText Who.text seeText TextChunk.applyOps src
        s.disp.text.forEachActive s ({ text := bytes, lastInTextNode := last } : TextChunk)
      exact frame _ fv fd

theorem runEndClosures_frame2 (cfg : Cfg) (hs : List HId) (s : St) (out : List Bytes) :
    (runEndClosures cfg hs s out).1.vm = s.vm ∧ (runEndClosures cfg hs s out).1.descs = s.descs := by
  induction hs generalizing s out with
  | nil => simp [runEndClosures]
  | cons h hs ih =>
    simp only [runEndClosures]
    split
    · simp
    · have := ih { s with inv := invBump s.inv (kEnd, h), log := ⟨.end_ h, ⟨0, 0⟩, .docEnd⟩ :: s.log }
        (out ++ ((cyc (cfg.endScripts h) (invGet s.inv (kEnd, h))).1.map fun c => encUtf8 c.2 c.1).filter fun b => !b.isEmpty)
      simpa using this

theorem handleEnd_sync {s : St} (h : Sync s) : Sync (handleEnd cfg s).1 := by
  unfold handleEnd
  split
  · exact h
  · split
    · exact h
    · rename_i en hs _
      obtain ⟨a, b⟩ := runEndClosures_frame2 cfg hs { s with disp := { s.disp with end_ := en } } []
      unfold Sync at *
      dsimp only
      rw [a, b]; exact h

theorem init_sync (cfg : Cfg) : Sync (St.init cfg) := by
  unfold Sync St.init
  dsimp only
  split
  · rename_i vm hv
    split at hv
    · cases hv
    · simp only [Option.some.injEq] at hv
      rw [← hv]; rfl
  · rfl

end LolHtml.Model.Full
