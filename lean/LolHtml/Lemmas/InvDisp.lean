import LolHtml.Lemmas.InvDefs
import LolHtml.Lemmas.Tiling
/-!
# C15 — the dispatcher as a safe sink

For every controller that itself never returns a panic/internal-class error, the dispatcher's four
sink operations satisfy `SinkSafe` with watermark `remaining_content_start`: given a lexeme whose raw
range is a valid slice of the input starting at or after `rcs`, no flush / chunk / raw slice is out
of range, and afterwards `rcs ≤ raw.end`.
-/
namespace LolHtml.Model

variable {γ : Type}

/-- the controller never fails with a panic / internal-class error -/
structure CtlClean (ctl : Controller γ) : Prop where
  token : ∀ g t e, (ctl.token g t).2.err = some e → e.Clean
  startTag : ∀ g n ns e, (ctl.startTag g n ns).2 = .err e → e.Clean
  auxInfo : ∀ g i e, (ctl.auxInfo g i).2 = .error e → e.Clean
  handleEnd : ∀ g e, (ctl.handleEnd g).2.2 = some e → e.Clean

/-- postcondition of a dispatcher step: a predicate on the resulting dispatcher (kept on failure as
well) and only uncovered-site errors -/
def DPost {α : Type} (P : Disp γ → Prop) (r : DRes γ α) : Prop :=
  P r.1 ∧ ∀ e, r.2 = .error e → ErrOK U1 e

theorem DPost.bind {α β : Type} {P Q : Disp γ → Prop} {r : DRes γ α} {f : Disp γ → α → DRes γ β}
    (hr : DPost P r) (hpq : ∀ d, P d → Q d) (hf : ∀ d a, P d → DPost Q (f d a)) : DPost Q (DRes.bind r f) := by
  unfold DRes.bind
  split
  · rename_i e he
    exact ⟨hpq _ hr.1, fun e' h' => by simp only [Except.error.injEq] at h'; subst h'; exact hr.2 _ he⟩
  · exact hf _ _ hr.1

section
variable {ctl : Controller γ} {inp : Bytes}

theorem tokenProduced_rcs (d : Disp γ) (t : Token) : (Disp.tokenProduced ctl d t).1.rcs = d.rcs := by
  unfold Disp.tokenProduced
  obtain ⟨_, h2, _⟩ := noteNextEncoding_frame { d with ctl := (ctl.token d.ctl t).1 } (ctl.token d.ctl t).2.nextEncoding
  obtain ⟨p1, _, _⟩ := pushChunks_spec (({ d with ctl := (ctl.token d.ctl t).1 }).noteNextEncoding (ctl.token d.ctl t).2.nextEncoding) (ctl.token d.ctl t).2.chunks
  dsimp only at h2 ⊢
  split <;> (dsimp only; rw [p1, h2])

theorem tokenProduced_post (hc : CtlClean ctl) (d : Disp γ) (t : Token) (P : Nat → Prop) (hp : P d.rcs) :
    DPost (fun d' => P d'.rcs) (Disp.tokenProduced ctl d t) := by
  refine ⟨by show P (Disp.tokenProduced ctl d t).1.rcs; rw [tokenProduced_rcs]; exact hp, ?_⟩
  intro e he
  unfold Disp.tokenProduced at he
  dsimp only at he
  split at he
  · rename_i e' herr
    simp only [Except.error.injEq] at he
    subst he
    exact ErrOK_of_clean (hc.token _ _ _ herr)
  · cases he

theorem flushPendingText_post (hc : CtlClean ctl) (d : Disp γ) (P : Nat → Prop) (hp : P d.rcs) :
    DPost (fun d' => P d'.rcs) (d.flushPendingText ctl) := by
  unfold Disp.flushPendingText
  split
  · exact tokenProduced_post hc _ _ P hp
  · exact ⟨hp, fun e he => by cases he⟩

theorem flushEncodingChange_rcs (d : Disp γ) : d.flushEncodingChange.rcs = d.rcs := by
  unfold Disp.flushEncodingChange
  (repeat' split) <;> rfl

theorem emitChunkBefore_ok (d : Disp γ) (raw : Range) (h1 : d.rcs ≤ raw.start) (h2 : raw.start ≤ inp.length) :
    ∃ d', d.emitChunkBefore inp raw = .ok d' ∧ d'.rcs = raw.start := by
  unfold Disp.emitChunkBefore
  have : checkedSlice inp ⟨d.rcs, raw.start⟩ = some (slice inp d.rcs raw.start) := by
    unfold checkedSlice
    rw [if_pos ⟨h1, h2⟩]
  rw [this]
  exact ⟨_, rfl, by split <;> rfl⟩

theorem emitToken_post (hc : CtlClean ctl) (d : Disp γ) (raw : Range) (tok : Token)
    (h1 : d.rcs ≤ raw.start) (h2 : raw.start ≤ raw.end) (h3 : raw.end ≤ inp.length) :
    DPost (fun d' => d'.rcs ≤ raw.end) (d.emitToken ctl inp raw tok) := by
  unfold Disp.emitToken
  obtain ⟨d1, he, hr⟩ := emitChunkBefore_ok (inp := inp) d raw h1 (by omega)
  rw [he]
  simp only [DRes.ofExcept]
  apply DPost.bind (P := fun d' => d'.rcs ≤ raw.end) (r := ((d1, .ok ()) : DRes γ Unit))
  · exact ⟨by (try dsimp only); omega, fun e he => by cases he⟩
  · exact fun _ h => h
  · intro d2 _ hd2
    apply DPost.bind (tokenProduced_post hc d2 tok (fun n => n ≤ raw.end) hd2)
    · exact fun _ h => h
    · intro d3 _ _
      exact ⟨by dsimp only; rw [flushEncodingChange_rcs]; exact Nat.le_refl _, fun e he => by cases he⟩

theorem produceTag_post (hc : CtlClean ctl) (d : Disp γ) (lx : TagLexeme)
    (h1 : d.rcs ≤ lx.raw.start) (h2 : lx.raw.start ≤ lx.raw.end) (h3 : lx.raw.end ≤ inp.length) :
    DPost (fun d' => d'.rcs ≤ lx.raw.end) (d.produceTag ctl inp lx) := by
  unfold Disp.produceTag
  split
  · refine ⟨by (try dsimp only); omega, fun e he => ?_⟩
    simp only [Except.error.injEq] at he
    subst he
    simp [ErrOK, U1]
  · dsimp only
    split
    · exact ⟨by (try dsimp only); omega, fun e he => by cases he⟩
    · exact emitToken_post hc _ _ _ h1 h2 h3

theorem produceText_post (hc : CtlClean ctl) (d : Disp γ) (lx : NonTagLexeme) (tt : TextType)
    (h1 : d.rcs ≤ lx.raw.start) (h2 : lx.raw.start ≤ lx.raw.end) (h3 : lx.raw.end ≤ inp.length) :
    DPost (fun d' => d'.rcs ≤ lx.raw.end) (d.produceText ctl inp lx tt) := by
  unfold Disp.produceText
  have : checkedSlice inp lx.raw = some (slice inp lx.raw.start lx.raw.end) := by
    unfold checkedSlice
    rw [if_pos ⟨h2, h3⟩]
  rw [this]
  dsimp only
  obtain ⟨d1, he, hr⟩ := emitChunkBefore_ok (inp := inp) d lx.raw h1 (by omega)
  rw [he]
  simp only [DRes.ofExcept]
  apply DPost.bind (P := fun d' => d'.rcs ≤ lx.raw.end) (r := ((d1, .ok ()) : DRes γ Unit))
  · exact ⟨by (try dsimp only); omega, fun e he => by cases he⟩
  · exact fun _ h => h
  · intro d2 _ hd2
    apply DPost.bind (tokenProduced_post hc { d2 with lastTextType := tt } _ (fun n => n ≤ lx.raw.end) hd2)
    · exact fun _ h => h
    · intro d3 _ _
      exact ⟨Nat.le_refl _, fun e he => by cases he⟩

theorem produceNonTag_post (hc : CtlClean ctl) (d : Disp γ) (lx : NonTagLexeme)
    (h1 : d.rcs ≤ lx.raw.start) (h2 : lx.raw.start ≤ lx.raw.end) (h3 : lx.raw.end ≤ inp.length) :
    DPost (fun d' => d'.rcs ≤ lx.raw.end) (d.produceNonTag ctl inp lx) := by
  unfold Disp.produceNonTag
  split
  · split
    · exact produceText_post hc d lx _ h1 h2 h3
    · exact ⟨by (try dsimp only); omega, fun e he => by cases he⟩
  · split
    · refine ⟨by (try dsimp only); omega, fun e he => ?_⟩
      simp only [Except.error.injEq] at he
      subst he
      simp [ErrOK, U1]
    · exact ⟨by (try dsimp only); omega, fun e he => by cases he⟩
    · exact emitToken_post hc _ _ _ h1 h2 h3

theorem answerAux_post (hc : CtlClean ctl) (d : Disp γ) (info : AuxInfo) (P : Nat → Prop) (hp : P d.rcs) :
    DPost (fun d' => P d'.rcs) (d.answerAux ctl info) := by
  unfold Disp.answerAux
  dsimp only
  split
  · exact ⟨hp, fun e he => by cases he⟩
  · rename_i e herr
    refine ⟨hp, fun e' he => ?_⟩
    simp only [Except.error.injEq] at he
    subst he
    exact ErrOK_of_clean (hc.auxInfo _ _ _ herr)

theorem adjustFlagsForTag_post (hc : CtlClean ctl) (d : Disp γ) (lx : TagLexeme) (P : Nat → Prop) (hp : P d.rcs) :
    DPost (fun d' => P d'.rcs) (d.adjustFlagsForTag ctl inp lx) := by
  unfold Disp.adjustFlagsForTag
  split
  · dsimp only
    split
    · exact answerAux_post hc _ _ P hp
    · refine ⟨hp, fun e he => ?_⟩
      simp only [Except.error.injEq] at he
      subst he
      simp [ErrOK, U1]
  · split
    · split
      · refine ⟨hp, fun e he => ?_⟩
        simp only [Except.error.injEq] at he
        subst he
        simp [ErrOK, U1]
      · dsimp only
        split
        · exact ⟨hp, fun e he => by cases he⟩
        · exact answerAux_post hc _ _ P hp
        · rename_i e herr
          refine ⟨hp, fun e' he => ?_⟩
          simp only [Except.error.injEq] at he
          subst he
          exact ErrOK_of_clean (hc.startTag _ _ _ _ herr)
    · split
      · refine ⟨hp, fun e he => ?_⟩
        simp only [Except.error.injEq] at he
        subst he
        simp [ErrOK, U1]
      · exact ⟨hp, fun e he => by cases he⟩

theorem handleTag_post (hc : CtlClean ctl) (lx : TagLexeme) (d : Disp γ)
    (h1 : d.rcs ≤ lx.raw.start) (h2 : lx.raw.start ≤ lx.raw.end) (h3 : lx.raw.end ≤ inp.length) :
    DPost (fun d' => d'.rcs ≤ lx.raw.end) (Disp.handleTag ctl inp lx d) := by
  unfold Disp.handleTag
  apply DPost.bind (flushPendingText_post hc d (fun n => n ≤ lx.raw.start) h1)
  · intro d' h; (try dsimp only at h); (try dsimp only); omega
  · intro d1 _ hd1
    apply DPost.bind (P := fun d' => d'.rcs ≤ lx.raw.start)
    · split
      · exact ⟨hd1, fun e he => by cases he⟩
      · exact adjustFlagsForTag_post hc d1 lx (fun n => n ≤ lx.raw.start) hd1
    · intro d' h; (try dsimp only at h); (try dsimp only); omega
    · intro d2 _ hd2
      apply DPost.bind (P := fun d' => d'.rcs ≤ lx.raw.end)
      · apply produceTag_post hc _ lx _ h2 h3
        unfold Disp.resumeEmission
        split
        · exact Nat.le_refl _
        · exact hd2
      · exact fun _ h => h
      · intro d3 _ hd3
        exact ⟨hd3, fun e he => by cases he⟩

theorem handleNonTag_post (hc : CtlClean ctl) (lx : NonTagLexeme) (d : Disp γ)
    (h1 : d.rcs ≤ lx.raw.start) (h2 : lx.raw.start ≤ lx.raw.end) (h3 : lx.raw.end ≤ inp.length) :
    DPost (fun d' => d'.rcs ≤ lx.raw.end) (Disp.handleNonTag ctl inp lx d) := by
  unfold Disp.handleNonTag
  apply DPost.bind (P := fun d' => d'.rcs ≤ lx.raw.start)
  · split
    · exact ⟨h1, fun e he => by cases he⟩
    · exact flushPendingText_post hc d (fun n => n ≤ lx.raw.start) h1
  · intro d' h; (try dsimp only at h); (try dsimp only); omega
  · intro d1 _ hd1
    exact produceNonTag_post hc d1 lx hd1 h2 h3

theorem applyHintFlags_post (d : Disp γ) (f : Flags) (P : Nat → Prop) (hp : P d.rcs) :
    DPost (fun d' => P d'.rcs) (d.applyHintFlags f) := by
  unfold Disp.applyHintFlags
  exact ⟨hp, fun e he => by cases he⟩

theorem startTagHint_post (hc : CtlClean ctl) (name : LocalName) (ns : Ns) (d : Disp γ) :
    DPost (fun d' => d'.rcs ≤ d.rcs) (Disp.startTagHint ctl name ns d) := by
  unfold Disp.startTagHint
  dsimp only
  split
  · exact applyHintFlags_post _ _ (fun n => n ≤ d.rcs) (Nat.le_refl _)
  · exact ⟨Nat.le_refl _, fun e he => by cases he⟩
  · rename_i e herr
    refine ⟨Nat.le_refl _, fun e' he => ?_⟩
    simp only [Except.error.injEq] at he
    subst he
    exact ErrOK_of_clean (hc.startTag _ _ _ _ herr)

theorem endTagHint_post (hc : CtlClean ctl) (name : LocalName) (d : Disp γ) :
    DPost (fun d' => d'.rcs ≤ d.rcs) (Disp.endTagHint ctl name d) := by
  unfold Disp.endTagHint
  apply DPost.bind (flushPendingText_post hc d (fun n => n ≤ d.rcs) (Nat.le_refl _))
  · exact fun _ h => h
  · intro d1 _ hd1
    dsimp only
    exact applyHintFlags_post _ _ (fun n => n ≤ d.rcs) hd1

/-- **The dispatcher is a safe sink** (cursor / raw-range part). -/
theorem dispOps_safe (hc : CtlClean ctl) : SinkSafe (dispOps ctl) (fun d : Disp γ => d.rcs) inp U1 where
  handleTag := fun lx k h1 h2 h3 => handleTag_post hc lx k h1 h2 h3
  handleNonTag := fun lx k h1 h2 h3 => handleNonTag_post hc lx k h1 h2 h3
  startTagHint := fun n ns k => startTagHint_post hc n ns k
  endTagHint := fun n k => endTagHint_post hc n k

end
end LolHtml.Model
