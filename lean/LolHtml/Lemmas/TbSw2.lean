import LolHtml.Lemmas.TbSw1
import LolHtml.Lemmas.TbHop9
/-!
`SwPost` for the rules of every insertion mode.
-/
namespace LolHtml.Spec.TreeBuilder
open LolHtml.Model (Ns)

variable {c : Cfg} {s : State}

/-- `eval_rule` that also evaluates the name tests for `Name.other k` -/
macro "eval_rule'" "[" defs:Lean.Parser.Tactic.simpLemma,* "]" : tactic =>
  `(tactic| simp +decide only [$defs,*, other_isIn, other_beq, htmlStartInBody, Res.ok, Res.ignore, Res.again, if_true,
      if_false, Bool.false_eq_true, beq_iff_eq, reduceCtorEq, Bool.true_and, Bool.false_and, bne_iff_ne, ne_eq,
      Bool.not_false])

/-- close a `SwPost` goal whose result is explicit -/
syntax "sw_branch" : tactic
macro_rules
  | `(tactic| sw_branch) => `(tactic| first
    | (simp_all [SwPost, NsOk, switchOf, Name.isIn, rank, isFramesetMode, Switch.isRaw, callsHead, headStartNames]; done)
    | (simp_all +decide [SwPost, NsOk, switchOf, Name.isIn, rank, isFramesetMode, Switch.isRaw, callsHead, headStartNames]; done))

set_option maxHeartbeats 8000000 in
theorem inHead_sw (h1 : s.mode ≠ .text) (htm : s.tmodes = []) (t : Token)
    (hcall : s.mode = .inHead ∨ callsHead t = true) : SwPost c t s (inHead c s t) := by
  cases t with
  | start n sc a =>
    cases n
    all_goals eval_rule' [inHead, rawText]
    all_goals (repeat' split)
    all_goals sw_branch
  | «end» n =>
    cases n
    all_goals eval_rule' [inHead, rawText]
    all_goals (repeat' split)
    all_goals sw_branch
  | char cc =>
    cases cc
    all_goals eval_rule' [inHead]
    all_goals sw_branch
  | comment => eval_rule' [inHead]; sw_branch
  | doctype d => eval_rule' [inHead]; sw_branch
  | eof => eval_rule' [inHead]; sw_branch

/-- per-function proof of `SwPost`: case on the token and the tag name, evaluate, split, close;
`$alt` closes the branches that call another rule function -/
syntax "sw_cases" ident "[" Lean.Parser.Tactic.simpLemma,* "]" "(" tactic ")" : tactic
macro_rules
  | `(tactic| sw_cases $t:ident [$defs,*] ($alt:tactic)) => `(tactic|
    (cases $t:ident with
     | start n sc a =>
       cases n
       all_goals eval_rule' [$defs,*]
       all_goals (repeat' split)
       all_goals first | sw_branch | ($alt:tactic)
     | «end» n =>
       cases n
       all_goals eval_rule' [$defs,*]
       all_goals (repeat' split)
       all_goals first | sw_branch | ($alt:tactic)
     | char cc =>
       cases cc
       all_goals eval_rule' [$defs,*]
       all_goals (repeat' split)
       all_goals first | sw_branch | ($alt:tactic)
     | comment =>
       eval_rule' [$defs,*]
       (repeat' split)
       all_goals first | sw_branch | ($alt:tactic)
     | doctype d =>
       eval_rule' [$defs,*]
       (repeat' split)
       all_goals first | sw_branch | ($alt:tactic)
     | eof =>
       eval_rule' [$defs,*]
       (repeat' split)
       all_goals first | sw_branch | ($alt:tactic)))


set_option maxHeartbeats 8000000 in
theorem inBody_sw (h1 : s.mode ≠ .text) (htm : s.tmodes = []) (t : Token) : SwPost c t s (inBody c s t) := by
  sw_cases t [inBody, inBodyStart, inBodyEnd, inBodyChar, inTemplateEof, rawText]
    (first | exact inHead_sw h1 htm _ (Or.inr (by rfl)))

end LolHtml.Spec.TreeBuilder
