import LolHtml.Spec.Attrs
/-!
Well-formedness of what `Spec.Attrs` returns: every range lies inside the tag, name < value ≤ raw end,
attributes are ordered and disjoint. (Pure facts about the specification; through `C16_outline` they
are facts about the lexer's outlines.)
-/
namespace LolHtml.Spec.Attrs
open LolHtml LolHtml.Model

/-- an attribute outline inside `[lo, hi)`: non-empty name, then the value, raw = name start … ≥ value end -/
def AttrWF (lo hi : Nat) (a : AttrOutline) : Prop :=
  lo ≤ a.name.start ∧ a.name.start < a.name.end ∧ a.name.end ≤ a.value.start ∧ a.value.start ≤ a.value.end ∧
  a.value.end ≤ a.raw.end ∧ a.raw.start = a.name.start ∧ a.raw.end ≤ hi

/-- where the attribute being read (or the next one) starts -/
def St.lb (p : Nat) : St → Nat
  | .beforeAttrName _ => p
  | .attrName s => s
  | .afterAttrName n => n.start
  | .beforeAttrValue n => n.start
  | .valueQuoted _ n _ => n.start
  | .valueUnquoted n _ => n.start

def St.WF (lo p : Nat) : St → Prop
  | .beforeAttrName _ => lo ≤ p
  | .attrName s => lo ≤ s ∧ s < p
  | .afterAttrName n => lo ≤ n.start ∧ n.start < n.end ∧ n.end ≤ p
  | .beforeAttrValue n => lo ≤ n.start ∧ n.start < n.end ∧ n.end ≤ p
  | .valueQuoted _ n vs => lo ≤ n.start ∧ n.start < n.end ∧ n.end ≤ vs ∧ vs ≤ p
  | .valueUnquoted n vs => lo ≤ n.start ∧ n.start < n.end ∧ n.end ≤ vs ∧ vs ≤ p

def Sorted (l : List AttrOutline) : Prop := l.Pairwise fun a b => a.raw.end ≤ b.name.start

theorem Sorted.snoc {l : List AttrOutline} {a : AttrOutline} (h : Sorted l) (ha : ∀ x ∈ l, x.raw.end ≤ a.name.start) :
    Sorted (l ++ [a]) := by
  unfold Sorted
  rw [List.pairwise_append]
  refine ⟨h, List.pairwise_singleton _ _, ?_⟩
  intro x hx y hy
  simp only [List.mem_singleton] at hy
  subst hy
  exact ha x hx

theorem attrs_wf (nm : Range) (lo : Nat) (rest : List UInt8) :
    ∀ (acc : List AttrOutline) (st : St) (p : Nat) (t : Tag), attrs nm acc st rest p = .finished t →
    st.WF lo p → (∀ a ∈ acc, AttrWF lo (st.lb p) a) → Sorted acc →
    (∀ a ∈ t.attrs, AttrWF lo t.stop a) ∧ Sorted t.attrs ∧ p < t.stop ∧ t.stop ≤ p + rest.length := by
  induction rest with
  | nil => intro acc st p t h; cases st <;> simp [attrs] at h
  | cons b rest ih =>
    intro acc st p t h hst hacc hsort
    have fin : ∀ (acc' : List AttrOutline) (sc : Bool), (∀ a ∈ acc', AttrWF lo (p + 1) a) → Sorted acc' →
        Res.finished ⟨nm, acc', sc, p + 1⟩ = Res.finished t →
        (∀ a ∈ t.attrs, AttrWF lo t.stop a) ∧ Sorted t.attrs ∧ p < t.stop ∧ t.stop ≤ p + (b :: rest).length := by
      intro acc' sc h1 h2 h3
      simp only [Res.finished.injEq] at h3
      subst h3
      exact ⟨h1, h2, by simp, by simp⟩
    have step : ∀ (acc' : List AttrOutline) (st' : St), attrs nm acc' st' rest (p + 1) = .finished t →
        st'.WF lo (p + 1) → (∀ a ∈ acc', AttrWF lo (st'.lb (p + 1)) a) → Sorted acc' →
        (∀ a ∈ t.attrs, AttrWF lo t.stop a) ∧ Sorted t.attrs ∧ p < t.stop ∧ t.stop ≤ p + (b :: rest).length := by
      intro acc' st' h1 h2 h3 h4
      obtain ⟨r1, r2, r3, r4⟩ := ih acc' st' (p + 1) t h1 h2 h3 h4
      exact ⟨r1, r2, by omega, by simp only [List.length_cons]; omega⟩
    have mono : ∀ (hi hi' : Nat) (a : AttrOutline), hi ≤ hi' → AttrWF lo hi a → AttrWF lo hi' a := by
      intro hi hi' a hle ⟨a1, a2, a3, a4, a5, a6, a7⟩
      exact ⟨a1, a2, a3, a4, a5, a6, by omega⟩
    have snocWF : ∀ (a : AttrOutline) (hi : Nat), AttrWF lo hi a → st.lb p ≤ a.name.start →
        (∀ x ∈ acc, AttrWF lo hi x) → ∀ x ∈ acc ++ [a], AttrWF lo hi x := by
      intro a hi ha _ hx x hxm
      rcases List.mem_append.mp hxm with h1 | h1
      · exact hx x h1
      · simp only [List.mem_singleton] at h1; subst h1; exact ha
    have snocSorted : ∀ (a : AttrOutline), st.lb p ≤ a.name.start → Sorted (acc ++ [a]) := by
      intro a ha
      apply hsort.snoc
      intro x hx
      have := (hacc x hx).2.2.2.2.2.2
      omega
    cases st with
    | beforeAttrName sol =>
      simp only [St.WF, St.lb] at hst hacc snocWF snocSorted
      simp only [attrs] at h
      split at h
      · exact step _ _ h (by simp only [St.WF]; omega) (fun a ha => mono _ _ a (by simp [St.lb]) (hacc a ha)) hsort
      · split at h
        · exact step _ _ h (by simp only [St.WF]; omega) (fun a ha => mono _ _ a (by simp [St.lb]) (hacc a ha)) hsort
        · split at h
          · exact fin _ _ (fun a ha => mono _ _ a (by first | omega | (simp only [St.lb]; omega)) (hacc a ha)) hsort h
          · exact step _ _ h (by simp only [St.WF]; omega) (fun a ha => by simpa [St.lb] using hacc a ha) hsort
    | attrName s =>
      simp only [St.WF, St.lb] at hst hacc snocWF snocSorted
      simp only [attrs] at h
      split at h
      · exact step _ _ h (by simp only [St.WF]; omega) (fun a ha => by simpa [St.lb] using hacc a ha) hsort
      · split at h
        · exact step _ _ h (by simp only [St.WF]; omega) (fun a ha => by simpa [St.lb] using hacc a ha) hsort
        · split at h
          · refine step _ _ h (by simp only [St.WF]; omega) ?_ (snocSorted _ (by simp [valueless]))
            simp only [St.lb]
            exact snocWF _ _ (by simp [AttrWF, valueless] <;> omega) (by simp [valueless])
              (fun a ha => mono _ _ a (by first | omega | (simp only [St.lb]; omega)) (hacc a ha))
          · split at h
            · refine fin _ _ ?_ (snocSorted _ (by simp [valueless])) h
              exact snocWF _ _ (by simp [AttrWF, valueless] <;> omega) (by simp [valueless])
                (fun a ha => mono _ _ a (by first | omega | (simp only [St.lb]; omega)) (hacc a ha))
            · exact step _ _ h (by simp only [St.WF]; omega) (fun a ha => by simpa [St.lb] using hacc a ha) hsort
    | afterAttrName n =>
      simp only [St.WF, St.lb] at hst hacc snocWF snocSorted
      simp only [attrs] at h
      split at h
      · exact step _ _ h (by simp only [St.WF]; omega) (fun a ha => by simpa [St.lb] using hacc a ha) hsort
      · split at h
        · refine step _ _ h (by simp only [St.WF]; omega) ?_ (snocSorted _ (by simp [valueless]))
          simp only [St.lb]
          exact snocWF _ _ (by simp [AttrWF, valueless] <;> omega) (by simp [valueless])
            (fun a ha => mono _ _ a (by first | omega | (simp only [St.lb]; omega)) (hacc a ha))
        · split at h
          · exact step _ _ h (by simp only [St.WF]; omega) (fun a ha => by simpa [St.lb] using hacc a ha) hsort
          · split at h
            · refine fin _ _ ?_ (snocSorted _ (by simp [valueless])) h
              exact snocWF _ _ (by simp [AttrWF, valueless] <;> omega) (by simp [valueless])
                (fun a ha => mono _ _ a (by first | omega | (simp only [St.lb]; omega)) (hacc a ha))
            · refine step _ _ h (by simp only [St.WF]; omega) ?_ (snocSorted _ (by simp [valueless]))
              simp only [St.lb]
              exact snocWF _ _ (by simp [AttrWF, valueless] <;> omega) (by simp [valueless])
                (fun a ha => mono _ _ a (by first | omega | (simp only [St.lb]; omega)) (hacc a ha))
    | beforeAttrValue n =>
      simp only [St.WF, St.lb] at hst hacc snocWF snocSorted
      simp only [attrs] at h
      split at h
      · exact step _ _ h (by simp only [St.WF]; omega) (fun a ha => by simpa [St.lb] using hacc a ha) hsort
      · split at h
        · exact step _ _ h (by simp only [St.WF]; omega) (fun a ha => by simpa [St.lb] using hacc a ha) hsort
        · split at h
          · refine fin _ _ ?_ (snocSorted _ (by simp [valueless])) h
            exact snocWF _ _ (by simp [AttrWF, valueless] <;> omega) (by simp [valueless])
              (fun a ha => mono _ _ a (by first | omega | (simp only [St.lb]; omega)) (hacc a ha))
          · exact step _ _ h (by simp only [St.WF]; omega) (fun a ha => by simpa [St.lb] using hacc a ha) hsort
    | valueQuoted q n vs =>
      simp only [St.WF, St.lb] at hst hacc snocWF snocSorted
      simp only [attrs] at h
      split at h
      · refine step _ _ h (by simp only [St.WF]; omega) ?_ (snocSorted _ (by simp [valued]))
        simp only [St.lb]
        exact snocWF _ _ (by simp [AttrWF, valued] <;> omega) (by simp [valued])
          (fun a ha => mono _ _ a (by first | omega | (simp only [St.lb]; omega)) (hacc a ha))
      · exact step _ _ h (by simp only [St.WF]; omega) (fun a ha => by simpa [St.lb] using hacc a ha) hsort
    | valueUnquoted n vs =>
      simp only [St.WF, St.lb] at hst hacc snocWF snocSorted
      simp only [attrs] at h
      split at h
      · refine step _ _ h (by simp only [St.WF]; omega) ?_ (snocSorted _ (by simp [valued]))
        simp only [St.lb]
        exact snocWF _ _ (by simp [AttrWF, valued] <;> omega) (by simp [valued])
          (fun a ha => mono _ _ a (by first | omega | (simp only [St.lb]; omega)) (hacc a ha))
      · split at h
        · refine fin _ _ ?_ (snocSorted _ (by simp [valued])) h
          exact snocWF _ _ (by simp [AttrWF, valued] <;> omega) (by simp [valued])
            (fun a ha => mono _ _ a (by first | omega | (simp only [St.lb]; omega)) (hacc a ha))
        · exact step _ _ h (by simp only [St.WF]; omega) (fun a ha => by simpa [St.lb] using hacc a ha) hsort

theorem attrs_name' (nm : Range) (rest : List UInt8) : ∀ (acc : List AttrOutline) (st : St) (p : Nat) (t : Tag),
    attrs nm acc st rest p = .finished t → t.name = nm := by
  induction rest with
  | nil => intro acc st p t h; cases st <;> simp [attrs] at h
  | cons b rest ih =>
    intro acc st p t h
    cases st <;> simp only [attrs] at h <;>
      (repeat' split at h) <;>
      first
        | exact ih _ _ _ _ h
        | (simp only [Res.finished.injEq] at h; subst h; rfl)

/-- **Well-formedness of a finished start tag** read at `i`: `i < name.start < name.end ≤ stop ≤ |bs|`;
every attribute lies between the end of the name and `stop`; attributes are ordered and disjoint. -/
theorem startTagAt_wf (bs : Bytes) (i : Nat) (t : Tag) (h : startTagAt bs i = some (.finished t)) :
    t.name.start = i + 1 ∧ t.name.start < t.name.end ∧ t.name.end < t.stop ∧ t.stop ≤ bs.length ∧
    (∀ a ∈ t.attrs, AttrWF t.name.end t.stop a) ∧ Sorted t.attrs := by
  unfold startTagAt at h
  split at h
  · rename_i b rest hdrop
    split at h
    · simp only [Option.some.injEq] at h
      have hlen : i + 2 + rest.length = bs.length := by
        have := congrArg List.length hdrop
        simp only [List.length_drop, List.length_cons] at this
        omega
      -- the tag name loop
      have key : ∀ (rest : List UInt8) (p : Nat), i + 2 ≤ p → tagName (i + 1) rest p = .finished t →
          t.name.start = i + 1 ∧ t.name.start < t.name.end ∧ t.name.end < t.stop ∧ t.stop ≤ p + rest.length ∧
          (∀ a ∈ t.attrs, AttrWF t.name.end t.stop a) ∧ Sorted t.attrs := by
        intro rest
        induction rest with
        | nil => intro p _ h; simp [tagName] at h
        | cons c rest ih =>
          intro p hp h
          simp only [tagName] at h
          split at h
          · have hn := attrs_name' _ _ _ _ _ _ h
            obtain ⟨r1, r2, r3, r4⟩ := attrs_wf ⟨i + 1, p⟩ p rest [] (.beforeAttrName false) (p + 1) t h
              (by simp [St.WF]) (by simp) List.Pairwise.nil
            rw [hn]
            simp only [List.length_cons]
            exact ⟨by simp, by omega, by omega, by omega, by simpa using r1, r2⟩
          · split at h
            · have hn := attrs_name' _ _ _ _ _ _ h
              obtain ⟨r1, r2, r3, r4⟩ := attrs_wf ⟨i + 1, p⟩ p rest [] (.beforeAttrName true) (p + 1) t h
                (by simp [St.WF]) (by simp) List.Pairwise.nil
              rw [hn]
              simp only [List.length_cons]
              exact ⟨by simp, by omega, by omega, by omega, by simpa using r1, r2⟩
            · split at h
              · simp only [Res.finished.injEq] at h
                subst h
                simp only [List.length_cons]
                exact ⟨by simp, by omega, by omega, by omega, by simp, List.Pairwise.nil⟩
              · obtain ⟨r1, r2, r3, r4, r5, r6⟩ := ih (p + 1) (by omega) h
                simp only [List.length_cons]
                exact ⟨r1, r2, r3, by omega, r5, r6⟩
      obtain ⟨r1, r2, r3, r4, r5, r6⟩ := key rest (i + 2) (Nat.le_refl _) h
      exact ⟨r1, r2, r3, by omega, r5, r6⟩
    · simp at h
  · simp at h

end LolHtml.Spec.Attrs
