import LolHtml.Lemmas.InvWf
/-!
# C15 — the invariants of the cursor / raw-range / fuel part

`MInvB` holds between two state-function invocations, `MInvA` inside an arm (after the consume),
`SigOK` is what a signal handed to the parsing loop guarantees. All of them are relative to

* `L`  the length of the current input slice,
* `W`  the sink's watermark (for the dispatcher: `remaining_content_start`); the parser only ever
       hands over lexemes that start at or after it,
* `lo` a ghost lower bound (the position at which the current run of this machine started), used for
       the bound on the number of lexer⇄scanner switches.
-/
namespace LolHtml.Model

variable {κ : Type}

/-- not a panic / internal-assertion outcome -/
def Err.Clean : Err → Prop
  | .panic _ => False
  | .internal _ => False
  | _ => True

/-- the error is not a panic / internal assertion, except possibly at a site in `U` -/
def ErrOK (U : String → Prop) : Err → Prop
  | .panic s => U s
  | .internal s => U s
  | _ => True

theorem ErrOK_of_clean {U : String → Prop} {e : Err} (h : e.Clean) : ErrOK U e := by
  cases e <;> simp_all [Err.Clean, ErrOK]

/-- The panic / internal-assertion sites NOT covered by the cursor / raw-range / fuel part: the
token-part ranges, the "token exists" assertions and the `RequestLexeme` callbacks. -/
def U1 (s : String) : Prop :=
  s = "leave_ns: namespace stack empty" ∨
  s = "Tag token should exist at this point" ∨
  s = "Tag should exist at this point" ∨
  s = "debug_assert: Tag should exist at this point" ∨
  s = "debug_assert: End tag should exist at this point" ∨
  s = "Tag start should be set at this point" ∨
  s = "Tag should be a start tag at this point" ∨
  s = "Bytes::slice out of range in RequestLexeme callback" ∨
  s = "RequestLexeme callback: unexpected tag type / empty ns stack" ∨
  s = "Bytes::slice out of range in emit_tag_hint" ∨
  s = "Bytes::slice out of range in to_token" ∨
  s = "Bytes::slice out of range (tag name)"

/-- What the parser needs from its sink: given a lexeme whose raw range is a valid slice starting at
or after the watermark, the sink does not fail at a covered site and its watermark stays at or
before the end of the lexeme; hints do not move the watermark forward. -/
structure SinkSafe (ops : SinkOps κ) (W : κ → Nat) (inp : Bytes) (U : String → Prop) : Prop where
  handleTag : ∀ lx k, W k ≤ lx.raw.start → lx.raw.start ≤ lx.raw.end → lx.raw.end ≤ inp.length →
    W (ops.handleTag inp lx k).1 ≤ lx.raw.end ∧ ∀ e, (ops.handleTag inp lx k).2 = .error e → ErrOK U e
  handleNonTag : ∀ lx k, W k ≤ lx.raw.start → lx.raw.start ≤ lx.raw.end → lx.raw.end ≤ inp.length →
    W (ops.handleNonTag inp lx k).1 ≤ lx.raw.end ∧ ∀ e, (ops.handleNonTag inp lx k).2 = .error e → ErrOK U e
  startTagHint : ∀ n ns k,
    W (ops.startTagHint n ns k).1 ≤ W k ∧ ∀ e, (ops.startTagHint n ns k).2 = .error e → ErrOK U e
  endTagHint : ∀ n k,
    W (ops.endTagHint n k).1 ≤ W k ∧ ∀ e, (ops.endTagHint n k).2 = .error e → ErrOK U e

/-- register invariant between state functions; `N` = `next_pos` -/
def RegsB (w lo N : Nat) (hasSeq : Bool) : Regs → Prop
  | .lexer l => w ≤ l.lexemeStart ∧ l.lexemeStart ≤ N
  | .scanner s =>
      w ≤ N ∧ (∀ p, s.tagStart = some p → w ≤ p ∧ lo ≤ p ∧ p ≤ N) ∧ (s.chSeqStart = none ∨ hasSeq = true)

/-- register invariant inside an arm; `pos` = `next_pos - 1`; `f` = "lexeme_start ≤ pos" -/
def RegsA (w lo pos : Nat) (f : Bool) : Regs → Prop
  | .lexer l => w ≤ l.lexemeStart ∧ l.lexemeStart ≤ pos + 1 ∧ (f = true → l.lexemeStart ≤ pos)
  | .scanner s => w ≤ pos ∧ (∀ p, s.tagStart = some p → w ≤ p ∧ lo ≤ p ∧ p ≤ pos) ∧ s.chSeqStart = none

/-- a stale `ch_sequence_matching_start` can only be left behind by the "need more input" break of a
sequence arm, i.e. in a state that has a sequence arm and whose enter actions have already run -/
def seqResume (sd : StateDef) (c : Common) : Bool := hasSeqArm sd.arms && (sd.enter.isEmpty || c.entered)

/-- between state functions -/
def MInvB (t : Table) (L w lo : Nat) (m : M κ) : Prop :=
  lo ≤ m.c.nextPos ∧ m.c.nextPos ≤ L ∧
  ∃ sd, t.state? m.c.state = some sd ∧ RegsB w lo m.c.nextPos (seqResume sd m.c) m.r

/-- inside an arm, after the consume -/
def MInvA (W : κ → Nat) (L lo : Nat) (hasByte f : Bool) (m : M κ) : Prop :=
  1 ≤ m.c.nextPos ∧ lo ≤ m.c.nextPos - 1 ∧ m.c.nextPos - 1 ≤ L ∧ (hasByte = true → m.c.nextPos - 1 < L) ∧
  RegsA (W m.x.sink) lo (m.c.nextPos - 1) f m.r

/-- what an action may signal -/
def ActSigOK (U : String → Prop) (W : κ → Nat) (L lo : Nat) (m : M κ) : Signal → Prop
  | .err e => ErrOK U e
  | .directive d bm =>
      W m.x.sink ≤ bm.pos ∧ bm.pos ≤ L ∧
      (match m.r with
       | .lexer _ => d = .scan ∧ lo + 1 ≤ bm.pos
       | .scanner s => d = .lex ∧ lo ≤ bm.pos ∧ s.tagStart = none ∧ s.chSeqStart = none)
  | .endOfInput _ => False

/-- what a state function may signal to the parsing loop -/
def SigOK (U : String → Prop) (t : Table) (W : κ → Nat) (L lo : Nat) (m : M κ) : Signal → Prop
  | .endOfInput consumed =>
      W m.x.sink ≤ consumed ∧ consumed ≤ L ∧ (m.c.isLast = false → MInvB t (L - consumed) 0 0 m)
  | s => ActSigOK U W L lo m s

/-- the cursor and the state are not touched by actions -/
def Frame (m m' : M κ) : Prop :=
  m'.c.nextPos = m.c.nextPos ∧ m'.c.state = m.c.state ∧ m'.c.isLast = m.c.isLast

theorem Frame.refl (m : M κ) : Frame m m := ⟨rfl, rfl, rfl⟩

theorem Frame.trans {a b c : M κ} (h1 : Frame a b) (h2 : Frame b c) : Frame a c :=
  ⟨h2.1.trans h1.1, h2.2.1.trans h1.2.1, h2.2.2.trans h1.2.2⟩

/-- postcondition of one action (or of an action list) run inside an arm -/
def ActPost (U : String → Prop) (W : κ → Nat) (L lo : Nat) (hasByte f' : Bool) (m : M κ)
    (r : M κ × Option Signal) : Prop :=
  Frame m r.1 ∧ MInvA W L lo hasByte f' r.1 ∧ ∀ sig, r.2 = some sig → ActSigOK U W L lo r.1 sig

/-- register invariant right after the consume, before the sequence arms are tried: as `RegsA` with the
flag set, except that `ch_sequence_matching_start` may still hold a stale value while sequence arms
remain (`rem`) -/
def RegsC (w lo pos : Nat) (rem : Bool) : Regs → Prop
  | .lexer l => w ≤ l.lexemeStart ∧ l.lexemeStart ≤ pos
  | .scanner s => w ≤ pos ∧ (∀ p, s.tagStart = some p → w ≤ p ∧ lo ≤ p ∧ p ≤ pos) ∧ (s.chSeqStart = none ∨ rem = true)

/-- right after the consume; `n0` = `next_pos` before it, `ch` = the consumed byte -/
def MInvC (W : κ → Nat) (L lo n0 : Nat) (ch : Option UInt8) (rem : Bool) (m : M κ) : Prop :=
  1 ≤ m.c.nextPos ∧ lo ≤ m.c.nextPos - 1 ∧ n0 ≤ m.c.nextPos - 1 ∧ m.c.nextPos - 1 ≤ L ∧
  (ch.isSome = true → m.c.nextPos - 1 < L) ∧ (ch = none → m.c.nextPos - 1 = L) ∧
  RegsC (W m.x.sink) lo (m.c.nextPos - 1) rem m.r

/-- progress of one state-function invocation that does not signal: the cursor advanced, or it
stayed and the rank of the state went down -/
def Prog (t : Table) (n0 : Nat) (st0 : StateId) (m : M κ) : Prop :=
  n0 + 1 ≤ m.c.nextPos ∨ (n0 ≤ m.c.nextPos ∧ t.rank m.c.state < t.rank st0)

/-- specification of one state-function invocation started at cursor `n0` in state `st0` -/
def StepPost (t : Table) (W : κ → Nat) (L lo n0 : Nat) (st0 : StateId) (r : M κ × Option Signal) : Prop :=
  match r.2 with
  | none => MInvB t L (W r.1.x.sink) lo r.1 ∧ Prog t n0 st0 r.1
  | some sig => SigOK U1 t W L lo r.1 sig

end LolHtml.Model
