import LolHtml.Lemmas.TbBody9
/-!
"in cell", "in column group", "after body", "after after body" in the body phase; all insertion modes of the
body phase together (`stepMode_body`).
-/
namespace LolHtml.Spec.TreeBuilder
open LolHtml.Model (Ns)

variable {c : Cfg} {s : State}

/-- a scope walk skips the elements above the first anchor when target and boundary are anchors -/
theorem scope_skip (p bnd : El → Bool) (hp : ∀ e, p e = true → e.isAnchor = true)
    (hb : ∀ e, bnd e = true → e.isAnchor = true) (st : List El) :
    hasInScopeBy p bnd st = hasInScopeBy p bnd (anchorSuffix st) := by
  induction st with
  | nil => rfl
  | cons x xs ih =>
    by_cases hx : x.isAnchor = true
    · rw [anchorSuffix_cons_anchor x xs hx]
    · have hx' : x.isAnchor = false := by simpa using hx
      have h1 : p x = false := by
        cases hq : p x
        · rfl
        · rw [hp x hq] at hx'; cases hx'
      have h2 : bnd x = false := by
        cases hq : bnd x
        · rfl
        · rw [hb x hq] at hx'; cases hx'
      rw [anchorSuffix_cons_non x xs hx', ← ih]
      simp [hasInScopeBy, h1, h2]

/-- in a cell, a `td` / `th` in table scope is the cell itself -/
theorem cell_scope (n : Name) (hn : n = .td ∨ n = .th) {a0 : El} {r0 : List El} (hW : W (a0 :: r0))
    (hc : a0.isHtmlIn [.td, .th] = true)
    (h : hasInScopeBy (·.isHtml n) (·.isTableScopeBoundary) (a0 :: r0) = true) : a0.isHtml n = true := by
  obtain ⟨hWr, -, -, w3, -⟩ := hW
  have hy := w3 hc
  cases r0 with
  | nil => exact hy.elim
  | cons y r1 =>
    obtain ⟨hWr1, v1, -⟩ := hWr
    have hy' : y.isHtml .tr = true := by rw [← isHtmlIn_single]; exact hy
    have hz := v1 hy'
    cases r1 with
    | nil => exact hz.elim
    | cons z r2 =>
      obtain ⟨-, -, u2, -⟩ := hWr1
      have htb := u2 hz
      cases r2 with
      | nil => exact htb.elim
      | cons tb r3 =>
        obtain ⟨a1, a2⟩ := isHtmlIn_name hc
        obtain ⟨y1, y2⟩ := isHtml_name hy'
        obtain ⟨z1, z2⟩ := isHtmlIn_name hz
        obtain ⟨t1, t2⟩ := isHtmlIn_name htb
        have a2' : a0.name = .td ∨ a0.name = .th := by simpa [Name.isIn] using a2
        have z2' : z.name = .tbody ∨ z.name = .thead ∨ z.name = .tfoot := by simpa [secNames, Name.isIn] using z2
        have t2' : tb.name = .table := by simpa [Name.isIn] using t2
        cases hq : a0.isHtml n
        · exfalso
          rcases hn with rfl | rfl <;> rcases a2' with e | e <;> rcases z2' with f | f | f <;>
            simp [hasInScopeBy, El.isHtml, El.isTableScopeBoundary, El.isHtmlIn, Name.isIn, a1, y1, y2, z1, t1, t2', e, f] at h hq
        · rfl

set_option maxHeartbeats 16000000 in
theorem inCell_body (hleg : c.legacySelect = false) (hI : Inv false s) (hB : BInv s) (hph : BodyPhase s)
    (hm : s.mode = .inCell) (t : Token) (htok : TokB s t) : BodyPost s (inCell c s t) := by
  have h1 : s.mode ≠ .text := by simp [hm]
  have h2 : s.mode ≠ .inTableText := by simp [hm]
  have hL : modeAnchors s.mode = some [.td, .th] := by simp [hm, modeAnchors]
  obtain ⟨a0, r0, hA, ha0⟩ := hB.anchor h1 h2 _ hL
  have hW : W (a0 :: r0) := hA ▸ hB.ba.w
  have hcellAnch : ∀ e : El, e.isHtmlIn [.td, .th] = true → e.isAnchor = true := fun e he =>
    isHtmlIn_anchor e _ (by intro n hn; cases n <;> simp [Name.isIn] at hn <;> decide) he
  have hclose : BStep s s.closeCell := by
    unfold State.closeCell
    apply bstep_popTo hB hA
    case hst => exact popUntil_implied_anchor _ hcellAnch s.tree none a0 r0 hA ha0
    case hm => rfl
    case hp => exact Or.inr (Or.inr ⟨ha0, rfl⟩)
    case hform => rfl
    case hfo => rfl
  have hcellN : ∀ n, (n = .td ∨ n = .th) → s.inTableScope n = true →
      BStep s { (((s.genImplied).popUntilNamed n).clearAfeToMarker) with mode := .inRow } := by
    intro n hn hsc
    have hna : n.isIn anchorNames = true := by rcases hn with rfl | rfl <;> decide
    have hsc' : hasInScopeBy (·.isHtml n) (·.isTableScopeBoundary) (a0 :: r0) = true := by
      rw [← hA, ← scope_skip _ _ (fun e he => isHtml_anchor e n hna he) ?_]
      · exact hsc
      · intro e he
        exact isHtmlIn_anchor e _ (by intro n hn; cases n <;> simp [Name.isIn] at hn <;> decide) he
    have han : a0.isHtml n = true := cell_scope n hn hW ha0 hsc'
    apply bstep_popTo hB hA
    case hst => exact popUntil_implied_anchor _ (fun e he => isHtml_anchor e n hna he) s.tree none a0 r0 hA han
    case hm => rfl
    case hp => exact Or.inr (Or.inr ⟨ha0, rfl⟩)
    case hform => rfl
    case hfo => rfl
  cases t with
  | char cc => exact inBody_fall hleg hI hB hph h1 h2 _ hL _ htok (fun n h => by cases h)
  | comment => exact bstep_same hB hph
  | doctype d => exact bstep_same hB hph
  | eof => exact inBody_fall hleg hI hB hph h1 h2 _ hL _ htok (fun n h => by cases h)
  | «end» n =>
    cases n
    all_goals eval_rule [inCell]
    all_goals (repeat' split)
    all_goals (try simp only [Bool.not_eq_true', Bool.not_eq_true, Bool.not_eq_false, Bool.not_eq_false'] at *)
    all_goals first
      | exact bstep_same hB hph
      | exact hclose
      | exact hcellN _ (Or.inl rfl) ‹_›
      | exact hcellN _ (Or.inr rfl) ‹_›
      | (refine inBody_fall hleg hI hB hph h1 h2 _ hL _ htok ?_; end_side_dec)
  | start n sc a =>
    cases n
    all_goals eval_rule [inCell, tableSectionStartNames]
    all_goals (repeat' split)
    all_goals first
      | exact bstep_same hB hph
      | exact hclose
      | exact inBody_fall hleg hI hB hph h1 h2 _ hL _ htok (fun n h => by cases h)

theorem inColumnGroup_body (hC : InvCol false s) (hB : BInv s) (hph : BodyPhase s) (t : Token) (htok : TokB s t) :
    BodyPost s (inColumnGroup c s t) := by
  have hcur := hC.currentIs
  have hnt := hC.noTemplate
  obtain ⟨e, rest, hst, hcol, -⟩ := hC.top
  have hea : e.isAnchor = true := isHtml_anchor e .colgroup (by decide) hcol
  have hA : anchorSuffix s.tree.stack = e :: rest := by rw [hst]; exact anchorSuffix_cons_anchor e rest hea
  have hpop : BStep s { s.pop with mode := .inTable } := by
    apply bstep_popTo hB hA
    case hst =>
      show s.tree.stack.tail = _
      rw [hst]; rfl
    case hm => rfl
    case hp => exact Or.inl ⟨Or.inr (Or.inl hcol), rfl⟩
    case hform => rfl
    case hfo => rfl
  have hae : BodyPost s (if !s.currentIs .colgroup then Res.ignore s else Res.again { s.pop with mode := .inTable }) := by
    simp only [hcur, Bool.not_true, Bool.false_eq_true, if_false]
    exact hpop
  cases t with
  | char cc => cases cc <;> first | exact bstep_same hB hph | exact hae
  | comment => exact bstep_same hB hph
  | doctype d => exact bstep_same hB hph
  | eof =>
    simp only [inColumnGroup, inBody, hC.tmodes]
    exact bstep_same hB hph
  | start n sc a =>
    by_cases h1 : n = .html
    · subst h1; exact bstep_same hB hph
    by_cases h2 : n = .col
    · subst h2
      eval_rule [inColumnGroup]
      exact ⟨⟨hB.ba, hB.form, hB.txt, hB.sel⟩, fun h => h, hph⟩
    by_cases h3 : n = .template
    · exact ((htok n sc a rfl).2.2.1 h3).elim
    · simp only [inColumnGroup, beq_iff_eq, h1, h2, h3, if_false]
      exact hae
  | «end» n =>
    by_cases h1 : n = .colgroup
    · subst h1
      eval_rule [inColumnGroup]
      simp only [hcur, Bool.not_true, Bool.false_eq_true, if_false]
      exact hpop
    by_cases h2 : n = .col
    · subst h2; exact bstep_same hB hph
    by_cases h3 : n = .template
    · subst h3
      eval_rule [inColumnGroup, inHead]
      simp only [hnt, Bool.not_false, if_true]
      exact bstep_same hB hph
    · simp only [inColumnGroup, beq_iff_eq, h1, h2, h3, if_false]
      exact hae

/-- a switch among "in body" / "after body" / "after after body" -/
theorem bstep_bodyMode (hI : Inv false s) (hB : BInv s) (hph : BodyPhase s) (h1 : s.mode ≠ .text)
    (h2 : s.mode ≠ .inTableText) (hL : modeAnchors s.mode = some [.body]) (m' : Mode)
    (hm' : m' = .afterBody ∨ m' = .inBody ∨ m' = .afterAfterBody) : BStep s { s with mode := m' } :=
  bstep_keep hB hph h1 h2 hI.tree.afe (Keeps.refl _) (Or.inr (Or.inr ⟨hL, hm'⟩)) (Or.inl rfl) (Or.inl rfl)
    (fun h => by rcases hm' with e | e | e <;> (rw [e] at h; cases h)) (fun _ h => h)

theorem body_end_side (n : Name) :
    (n = .body ∨ n = .html → [Name.body] = [.body]) ∧ (n ≠ .body → n.isIn anchorNames = true → n.isIn [.body] = false) := by
  refine ⟨fun _ => rfl, fun h _ => ?_⟩
  simp [Name.isIn, h]

theorem afterBody_body (hleg : c.legacySelect = false) (hI : Inv false s) (hB : BInv s) (hph : BodyPhase s)
    (hm : s.mode = .afterBody) (t : Token) (htok : TokB s t) : BodyPost s (afterBody c s t) := by
  have h1 : s.mode ≠ .text := by simp [hm]
  have h2 : s.mode ≠ .inTableText := by simp [hm]
  have hL : modeAnchors s.mode = some [.body] := by simp [hm, modeAnchors]
  unfold afterBody
  split
  · exact inBody_fall hleg hI hB hph h1 h2 _ hL _ htok (fun n _ => body_end_side n)
  · exact bstep_same hB hph
  · exact bstep_same hB hph
  · exact bstep_same hB hph
  · exact bstep_bodyMode hI hB hph h1 h2 hL _ (Or.inr (Or.inr rfl))
  · exact bstep_same hB hph
  · exact bstep_bodyMode hI hB hph h1 h2 hL _ (Or.inr (Or.inl rfl))

theorem afterAfterBody_body (hleg : c.legacySelect = false) (hI : Inv false s) (hB : BInv s) (hph : BodyPhase s)
    (hm : s.mode = .afterAfterBody) (t : Token) (htok : TokB s t) : BodyPost s (afterAfterBody c s t) := by
  have h1 : s.mode ≠ .text := by simp [hm]
  have h2 : s.mode ≠ .inTableText := by simp [hm]
  have hL : modeAnchors s.mode = some [.body] := by simp [hm, modeAnchors]
  unfold afterAfterBody
  split
  · exact bstep_same hB hph
  · exact inBody_fall hleg hI hB hph h1 h2 _ hL _ htok (fun n _ => body_end_side n)
  · exact inBody_fall hleg hI hB hph h1 h2 _ hL _ htok (fun n _ => body_end_side n)
  · exact bstep_same hB hph
  · exact bstep_same hB hph
  · exact bstep_bodyMode hI hB hph h1 h2 hL _ (Or.inr (Or.inl rfl))

/-- every insertion mode of the body phase -/
theorem stepMode_body (hleg : c.legacySelect = false) (hG : GInv false s) (hB : BInv s) (hph : BodyPhase s)
    (t : Token) (htok : TokB s t) : BodyPost s (stepMode c s t) := by
  rcases hG with hI | hC
  · have hmf := hI.modes
    have hnc := hI.notCol
    obtain ⟨hp1, hp2⟩ := hph
    have hpre : s.mode ≠ .text → s.mode ≠ .inTableText → s.mode ∉ preBody ∧ s.mode ∉ framesetModes := by
      intro a b; rw [effMode_eq a b] at hp1 hp2; exact ⟨hp1, hp2⟩
    unfold stepMode
    cases hmode : s.mode <;> simp only
    case initial => exact absurd (hpre (by simp [hmode]) (by simp [hmode])).1 (by simp [hmode, preBody])
    case beforeHtml => exact absurd (hpre (by simp [hmode]) (by simp [hmode])).1 (by simp [hmode, preBody])
    case beforeHead => exact absurd (hpre (by simp [hmode]) (by simp [hmode])).1 (by simp [hmode, preBody])
    case inHead => exact absurd (hpre (by simp [hmode]) (by simp [hmode])).1 (by simp [hmode, preBody])
    case inHeadNoscript => exact absurd (hpre (by simp [hmode]) (by simp [hmode])).1 (by simp [hmode, preBody])
    case afterHead => exact absurd (hpre (by simp [hmode]) (by simp [hmode])).1 (by simp [hmode, preBody])
    case inBody =>
      exact inBody_fall hleg hI hB ⟨hp1, hp2⟩ (by simp [hmode]) (by simp [hmode]) [.body] (by simp [hmode, modeAnchors]) t htok
        (fun n _ => body_end_side n)
    case text => exact text_body hI hB ⟨hp1, hp2⟩ hmode t
    case inTable => exact inTable_body hleg hI hB ⟨hp1, hp2⟩ _ (Or.inl ⟨hmode, rfl⟩) t htok (fun h => absurd hmode h)
    case inTableText => exact inTableText_body hI hB ⟨hp1, hp2⟩ hmode t
    case inCaption => exact inCaption_body hleg hI hB ⟨hp1, hp2⟩ hmode t htok
    case inColumnGroup => exact (hnc hmode).elim
    case inTableBody => exact inTableBody_body hleg hI hB ⟨hp1, hp2⟩ hmode t htok
    case inRow => exact inRow_body hleg hI hB ⟨hp1, hp2⟩ hmode t htok
    case inCell => exact inCell_body hleg hI hB ⟨hp1, hp2⟩ hmode t htok
    case inSelect => simp [MF, hmode] at hmf
    case inSelectInTable => simp [MF, hmode] at hmf
    case inTemplate => simp [MF, hmode] at hmf
    case afterBody => exact afterBody_body hleg hI hB ⟨hp1, hp2⟩ hmode t htok
    case inFrameset => exact absurd (hpre (by simp [hmode]) (by simp [hmode])).2 (by simp [hmode, framesetModes])
    case afterFrameset => exact absurd (hpre (by simp [hmode]) (by simp [hmode])).2 (by simp [hmode, framesetModes])
    case afterAfterBody => exact afterAfterBody_body hleg hI hB ⟨hp1, hp2⟩ hmode t htok
    case afterAfterFrameset => exact absurd (hpre (by simp [hmode]) (by simp [hmode])).2 (by simp [hmode, framesetModes])
  · have := inColumnGroup_body (c := c) hC hB hph t htok
    simpa [stepMode, hC.mode] using this

end LolHtml.Spec.TreeBuilder
