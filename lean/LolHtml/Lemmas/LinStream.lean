import LolHtml.Lemmas.LinParse
/-!
# Linear work: across `write` calls

The head invariant of the scanner survives `parse` (`parse_head`) and `write` (`Stream.write_head`),
so every `write` hands `retained ++ data` to a `parse` call whose work is linear in that length
(`Stream.writeSteps_le`). Total work over a history is therefore `Σ 32·(|retained_i| + |data_i| + 1)`.
-/
namespace LolHtml.Model

open LolHtml.Thm.C09 (HInv.congr)

variable {κ : Type}

section
variable {env : Env κ} {inp : Bytes} {W : κ → Nat} {L : Labels}

/-- `parseLoop_reach` with one more invariant of the parser carried along -/
theorem parseLoop_reach2 {cert : Cert} (hchk : checkCert env.tbl cert = true) (hs : SinkSafe env.ops W inp U1)
    (hs2 : SinkSafe2 env.ops inp) (hw : Wf env.tbl) (last : Bool) (Q : Parser κ → Prop)
    (hQ : ∀ (p : Parser κ) d bm, PInv env.tbl inp.length W p → PTok env.tbl cert p → Q p →
      (runLoop env inp (defaultFuel inp) (p.machine last)).2 = .directive d bm →
      Q (loadBookmark env d bm (p.store (runLoop env inp (defaultFuel inp) (p.machine last)).1)))
    (n : Nat) (p : Parser κ) (hp : PInv env.tbl inp.length W p) (htp : PTok env.tbl cert p) (hq : Q p)
    (hn : p.nu inp.length < n) :
    ∃ p' k, PInv env.tbl inp.length W p' ∧ PTok env.tbl cert p' ∧ Q p' ∧
      Parser.parseLoop env inp last n p = Parser.parseLoop env inp last (k + 1) p' ∧
      ∀ d bm, (runLoop env inp (defaultFuel inp) (p'.machine last)).2 ≠ .directive d bm := by
  induction n generalizing p with
  | zero => omega
  | succ n ih =>
    cases hsig : (runLoop env inp (defaultFuel inp) (p.machine last)).2 with
    | directive d bm =>
      obtain ⟨q1, q2, q3⟩ := directive_step hchk hs hs2 hw last p hp htp hsig
      obtain ⟨p', k, r1, r2, r3, r4, r5⟩ := ih _ q1 q2 (hQ p d bm hp htp hq hsig) (by omega)
      refine ⟨p', k, r1, r2, r3, ?_, r5⟩
      rw [← r4]
      simp only [Parser.parseLoop, hsig]
    | err e => exact ⟨p, n, hp, htp, hq, rfl, fun d bm h => by rw [hsig] at h; cases h⟩
    | endOfInput c => exact ⟨p, n, hp, htp, hq, rfl, fun d bm h => by rw [hsig] at h; cases h⟩

/-- a lexer ⇄ scanner switch keeps `PHead` -/
theorem PHead_step (hs : SinkSafe env.ops W inp U1) (hw : Wf env.tbl) (last : Bool) (p : Parser κ)
    (hp : PInv env.tbl inp.length W p) {d : Directive} {bm : Bookmark}
    (hsig : (runLoop env inp (defaultFuel inp) (p.machine last)).2 = .directive d bm) :
    PHead env.tbl L inp (loadBookmark env d bm (p.store (runLoop env inp (defaultFuel inp) (p.machine last)).1)) := by
  cases hd : p.directive with
  | lex =>
    obtain ⟨l, hl, _, hsg⟩ := lexRun_post hs hw last p hp hd
    rw [hsig] at hsg
    obtain ⟨_, _, s3⟩ := hsg
    rw [hl] at s3
    obtain ⟨s3a, _⟩ := s3
    subst s3a
    obtain ⟨ht1, ht2⟩ := hp.2 hd
    rw [store_lex p _ hl]
    intro _
    apply HInv.of_none
    · rfl
    · simpa [loadBookmark, M.cs] using ht2
    · simpa [loadBookmark, M.ts] using ht1
  | scan =>
    obtain ⟨s, hsr, _, hsg⟩ := scanRun_post hs hw last p hp hd
    rw [hsig] at hsg
    obtain ⟨_, _, s3⟩ := hsg
    rw [hsr] at s3
    obtain ⟨s3a, _⟩ := s3
    subst s3a
    rw [store_scan p _ hsr]
    intro hc
    simp [loadBookmark] at hc

/-- after a successful non-final `parse`, the scanner (if it is the machine to resume) satisfies the
head invariant over the unconsumed tail followed by anything -/
theorem parse_head {cert : Cert} (hchk : checkCert env.tbl cert = true) (hs : SinkSafe env.ops W inp U1)
    (hs2 : SinkSafe2 env.ops inp) (hw : Wf env.tbl) (hhead : HeadOk env.tbl L = true) (p : Parser κ)
    (hp : PInv env.tbl inp.length W p) (htp : PTok env.tbl cert p) (hph : PHead env.tbl L inp p)
    (consumed : Nat) (hok : (Parser.parse env inp false p).2 = .ok consumed) :
    ∀ data, PHead env.tbl L (inp.drop consumed ++ data) (Parser.parse env inp false p).1 := by
  obtain ⟨p', k, r1, r2, r3, r4, r5⟩ := parseLoop_reach2 hchk hs hs2 hw false (PHead env.tbl L inp)
    (fun q d bm hq _ _ hsig => PHead_step hs hw false q hq hsig) (2 * inp.length + 8) p hp htp hph (nu_lt p hp)
  unfold Parser.parse at hok ⊢
  rw [r4] at hok ⊢
  intro data
  cases hd : p'.directive with
  | lex =>
    obtain ⟨l, hl, _, _⟩ := lexRun_post hs hw false p' r1 hd
    simp only [Parser.parseLoop] at hok ⊢
    rw [store_lex p' _ hl] at hok ⊢
    intro hc
    exfalso
    revert hc
    split <;> simp [hd, loadBookmark] <;> (try exact fun h => absurd ‹_› (r5 _ _))
    all_goals first | (intro h; exact absurd ‹(runLoop env inp (defaultFuel inp) (p'.machine false)).2 = _› (r5 _ _)) | skip
  | scan =>
    obtain ⟨s, hsr, _, _⟩ := scanRun_post hs hw false p' r1 hd
    have hh : HInv env.tbl L inp (p'.machine false) := by
      have := r3 hd
      simp only [Parser.machine, hd]
      exact HInv.congr this rfl rfl rfl
    simp only [Parser.parseLoop] at hok ⊢
    rw [store_scan p' _ hsr] at hok ⊢
    cases hsig : (runLoop env inp (defaultFuel inp) (p'.machine false)).2 with
    | directive d bm => exact absurd hsig (r5 d bm)
    | err e =>
      rw [hsig] at hok
      exfalso
      revert hok
      cases e <;> simp
    | endOfInput c =>
      rw [hsig] at hok
      dsimp only at hok ⊢
      simp only [Except.ok.injEq] at hok
      subst hok
      have hb := (LolHtml.Thm.C09.C09_scanner_bound_loop env L hhead inp (defaultFuel inp) (p'.machine false) hh c hsig).2.1
        (by simp [Parser.machine, hd]) data
      intro _
      dsimp only
      exact HInv.congr hb hsr.symm rfl rfl

theorem PHead_new (t : Table) (sink : κ) (d : Directive) (strict : Bool) (inp : Bytes) :
    PHead t L inp (Parser.new t sink d strict) := by
  intro _
  apply HInv.of_none <;> rfl

theorem PHead_setSink {t : Table} {inp : Bytes} {p : Parser κ} (k : κ) (h : PHead t L inp p) :
    PHead t L inp { p with x := { p.x with sink := k } } := by
  intro hd
  exact HInv.congr (h hd) rfl rfl rfl

end

/-! ### streams -/

variable {γ : Type}

/-- work of one `write`: state-function invocations of its `parse` call -/
def Stream.writeSteps (w : World γ) (s : Stream γ) (data : Bytes) : Nat :=
  match s.chunkFor w data with
  | .inl _ => 0
  | .inr sc => Parser.parseSteps w.env sc.2 false sc.1.parser

/-- bytes handed to `Parser::parse` by one `write` (what lane `patho` counts on the real code) -/
def Stream.writeHanded (w : World γ) (s : Stream γ) (data : Bytes) : Nat :=
  match s.chunkFor w data with
  | .inl _ => 0
  | .inr sc => sc.2.length

/-- total work of a history of writes (stops at the first failing one, as the rewriter does) -/
def Stream.totalSteps (w : World γ) : Stream γ → List Bytes → Nat
  | _, [] => 0
  | s, c :: cs =>
    s.writeSteps w c + (match (s.write w c).2 with | .ok _ => Stream.totalSteps w (s.write w c).1 cs | .error _ => 0)

def Stream.totalHanded (w : World γ) : Stream γ → List Bytes → Nat
  | _, [] => 0
  | s, c :: cs =>
    s.writeHanded w c + (match (s.write w c).2 with | .ok _ => Stream.totalHanded w (s.write w c).1 cs | .error _ => 0)

/-- the scanner's head invariant over whatever the next `write` will hand to the parser -/
def SHead (w : World γ) (L : Labels) (s : Stream γ) : Prop :=
  ∀ data, PHead w.tbl L (s.pending ++ data) s.parser

section
variable {w : World γ} {cert : Cert} {L : Labels}

theorem Stream.writeHanded_le (s : Stream γ) (data : Bytes) : s.writeHanded w data ≤ s.pending.length + data.length := by
  unfold Stream.writeHanded
  cases hcf : s.chunkFor w data with
  | inl s' => exact Nat.zero_le _
  | inr sc =>
    obtain ⟨s1, chunk⟩ := sc
    obtain ⟨c1, _⟩ := Stream.chunkFor_inr hcf
    dsimp only
    rw [c1]
    simp

/-- **One `write`: work linear in the bytes handed to the parser.** -/
theorem Stream.writeSteps_le (hc : CtlClean w.ctl) (hw : Wf w.tbl) (hchk : checkCert w.tbl cert = true)
    (hgt : EmitTagGt w.tbl = true) (hhead : HeadOk w.tbl L = true) (s : Stream γ) (data : Bytes)
    (hs : SInv2 w cert s) (hh : SHead w L s) :
    s.writeSteps w data ≤ 32 * (s.pending.length + data.length + 1) := by
  unfold Stream.writeSteps
  cases hcf : s.chunkFor w data with
  | inl s' => exact Nat.zero_le _
  | inr sc =>
    obtain ⟨s1, chunk⟩ := sc
    obtain ⟨c1, c2, c3, c4, c5⟩ := Stream.chunkFor_inr hcf
    obtain ⟨⟨hrcs, hpinv⟩, hptok⟩ := hs
    dsimp only
    have hlen : (if s.hasBuffered then s.buf.data.length else 0) ≤ chunk.length := by
      rw [c1]
      simp only [Stream.pending, List.length_append]
      split <;> omega
    have hp1 : PInv w.tbl chunk.length (fun d : Disp γ => d.rcs) s1.parser := by
      rw [c2]; exact PInv_mono hpinv hlen
    have := parseSteps_le (env := w.env) (inp := chunk) (cert := cert) (L := L) hchk (dispOps_safe hc) (dispOps_safe2 hc) hw hgt hhead
      false s1.parser hp1 (by rw [c2]; exact hptok) (by rw [c2, c1]; exact hh data)
    have hl : chunk.length = s.pending.length + data.length := by rw [c1]; simp
    rw [hl] at this
    exact this

/-- a successful `write` keeps the scanner's head invariant -/
theorem Stream.write_head (hc : CtlClean w.ctl) (hw : Wf w.tbl) (hchk : checkCert w.tbl cert = true)
    (hhead : HeadOk w.tbl L = true) (s : Stream γ) (data : Bytes) (hs : SInv2 w cert s) (hh : SHead w L s)
    (hok : (s.write w data).2 = .ok ()) : SHead w L (s.write w data).1 := by
  obtain ⟨⟨hrcs, hpinv⟩, hptok⟩ := hs
  unfold Stream.write at hok ⊢
  cases hcf : s.chunkFor w data with
  | inl s' => rw [hcf] at hok; cases hok
  | inr sc =>
    obtain ⟨s1, chunk⟩ := sc
    obtain ⟨c1, c2, c3, c4, c5⟩ := Stream.chunkFor_inr hcf
    rw [hcf] at hok
    dsimp only at hok ⊢
    have hlen : (if s.hasBuffered then s.buf.data.length else 0) ≤ chunk.length := by
      rw [c1]
      simp only [Stream.pending, List.length_append]
      split <;> omega
    have hp1 : PInv w.tbl chunk.length (fun d : Disp γ => d.rcs) s1.parser := by
      rw [c2]; exact PInv_mono hpinv hlen
    have hpost := parse_post (env := w.env) (inp := chunk) (dispOps_safe hc) hw false s1.parser hp1
    unfold ParsePost at hpost
    cases hpr : (s1.parser.parse w.env chunk false).2 with
    | error e => rw [hpr] at hok; cases hok
    | ok consumed =>
      rw [hpr] at hpost hok
      obtain ⟨p1, p2, _⟩ := hpost
      have hph := parse_head (env := w.env) (inp := chunk) (cert := cert) (L := L) hchk (dispOps_safe hc) (dispOps_safe2 hc)
        hw hhead s1.parser hp1 (by rw [c2]; exact hptok) (by rw [c2, c1]; exact hh data) consumed hpr
      dsimp only at hok ⊢
      cases hfl : Disp.flushRemaining (Stream.disp { s1 with parser := (s1.parser.parse w.env chunk false).1 }) chunk consumed with
      | error e => rw [hfl] at hok; cases hok
      | ok d =>
        rw [hfl] at hok
        dsimp only at hok ⊢
        obtain ⟨k1, _⟩ := Stream.keepTail_ok (w := w)
          (s := Stream.setDisp { s1 with parser := (s1.parser.parse w.env chunk false).1 } d)
          (data := data) (chunk := chunk) (consumed := consumed) p2
          (by intro hb; exact c5 (by simpa [Stream.setDisp, c3] using hb))
          (by intro hb
              have : s.hasBuffered = false := by simpa [Stream.setDisp, c3] using hb
              rw [c1]; simp [Stream.pending, this])
          hok
        have k2 := Stream.keepTail_parser (w := w)
          (Stream.setDisp { s1 with parser := (s1.parser.parse w.env chunk false).1 } d) data chunk consumed hok
        intro data'
        rw [k1, k2]
        exact PHead_setSink d (hph data')

end
end LolHtml.Model
