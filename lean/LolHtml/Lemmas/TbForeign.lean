import LolHtml.Lemmas.TbSw2
import LolHtml.Spec.Island
/-!
`Spec.TreeBuilder` over the flattened tag sequence of a `Spec.Island` derivation (the well-nested
foreign-content grammar of package simthm): single steps in foreign content, inside integration points,
and the induction over the derivation.
-/
namespace LolHtml.Spec.TreeBuilder
open LolHtml LolHtml.Model

def Token.isDoctype : Token → Bool | .doctype _ => true | _ => false

/-- a token whose first dispatch finishes it -/
theorem step_of_done (c : Cfg) (s s' : State) (t : Token) (sw : Switch) (ht : t.isDoctype = false)
    (h : stepOnce c s t false = .done s' sw) :
    step c s t = { st := s', sw := sw, foreignRules := !useHtmlRules s t } := by
  have : fuelFor s = (s.tmodes.length + 15) + 1 := rfl
  cases t <;> first | (simp [Token.isDoctype] at ht; done) | simp [step, this, loop, h]

theorem other_not_breakout (k : Nat) : (Name.other k).isIn breakoutNames = false := other_isIn k _ (by decide)

/-- what a single step of this file does: no switch, same insertion mode, same list of active formatting
elements, and the stack `st` -/
def StepTo (c : Cfg) (s : State) (t : Token) (st : List El) : Prop :=
  (step c s t).sw = .none ∧ (step c s t).impossible = false ∧ (step c s t).st.mode = s.mode ∧
    (step c s t).st.tree.afe = s.tree.afe ∧ (step c s t).st.tree.stack = st

/-- §13.2.6.5 "any other start tag": a start tag that is not a breakout tag, in foreign content -/
theorem step_foreign_push (c : Cfg) (s : State) (e : El) (es : List El) (n : Name) (sc : Bool) (a : Attrs)
    (hst : s.tree.stack = e :: es) (hns : e.ns ≠ .html) (h1 : e.isMathmlTextIP = false) (h2 : e.isHtmlIP = false)
    (hsvg : e.name = .annotationXml → n ≠ .svg)
    (hb : n.isIn breakoutNames = false) (hf : n ≠ .font) :
    StepTo c s (.start n sc a) (if sc then e :: es else ⟨s.tree.nextId, e.ns, n, a⟩ :: e :: es) := by
  have hu : useHtmlRules s (.start n sc a) = false := by
    simp only [useHtmlRules, State.stack, hst, h1, h2, Bool.false_and, Bool.or_false, Bool.false_or]
    cases hn : e.ns <;> simp_all
  have hstep := step_of_done c s (if sc then (s.pushNew e.ns n a).pop else s.pushNew e.ns n a)
    (.start n sc a) .none rfl
    (by simp [stepOnce, hu, foreignRules, hb, hf, Res.ok, State.current, Tree.current, hst])
  unfold StepTo
  rw [hstep]
  refine ⟨rfl, rfl, ?_, ?_, ?_⟩ <;> cases sc <;>
    simp [State.pushNew, State.onTree, Tree.pushNew, Tree.pop, State.pop, hst]

/-- §13.2.6.5 "any other end tag": the current node is a foreign element with the token's name -/
theorem step_foreign_end (c : Cfg) (s : State) (e e' : El) (es : List El) (n : Name)
    (hst : s.tree.stack = e :: e' :: es) (hns : e.ns ≠ .html) (hn : e.name = n) (hbr : n.isIn [.br, .p] = false) :
    StepTo c s (.end n) (e' :: es) := by
  have hu : useHtmlRules s (.end n) = false := by
    simp only [useHtmlRules, State.stack, hst]
    cases hn' : e.ns <;> simp_all
  have hstep := step_of_done c s (s.onTree (·.setStack (e' :: es))) (.end n) .none rfl
    (by simp [stepOnce, hu, foreignRules, hbr, Res.ok, State.stack, hst, hn])
  unfold StepTo
  rw [hstep]
  exact ⟨rfl, rfl, rfl, rfl, rfl⟩

theorem reconstructAfe_nil (t : Tree) (h : t.afe = []) : t.reconstructAfe = t := by
  cases t with
  | mk st afe nid =>
    simp only at h
    subst h
    simp [Tree.reconstructAfe, reconstructCreate]

/-- the adjusted current node is an HTML element or an integration point: start tags (other than
`mglyph` / `malignmark`) go to the insertion mode -/
def HtmlTop (e : El) : Prop := e.ns = .html ∨ e.isMathmlTextIP = true ∨ e.isHtmlIP = true

theorem useHtml_start (s : State) (e : El) (es : List El) (n : Name) (sc : Bool) (a : Attrs)
    (hst : s.tree.stack = e :: es) (he : HtmlTop e) (hn : n ≠ .mglyph ∧ n ≠ .malignmark) :
    useHtmlRules s (.start n sc a) = true := by
  simp only [useHtmlRules, State.stack, hst]
  rcases he with h | h | h <;> simp [h, hn.1, hn.2]

/-- §13.2.6.4.7 "any other start tag", in body, nothing to reconstruct -/
theorem step_html_start_other (c : Cfg) (s : State) (e : El) (es : List El) (k : Nat) (sc : Bool) (a : Attrs)
    (hst : s.tree.stack = e :: es) (he : HtmlTop e) (hm : s.mode = .inBody) (hafe : s.tree.afe = []) :
    StepTo c s (.start (.other k) sc a) (⟨s.tree.nextId, .html, .other k, a⟩ :: e :: es) := by
  have hu := useHtml_start s e es (.other k) sc a hst he (by simp)
  have hr : s.tree.reconstructAfe = s.tree := reconstructAfe_nil _ hafe
  have hstep := step_of_done c s ((s.reconstructAfe).insertHtml (.other k) a) (.start (.other k) sc a) .none rfl
    (by eval_rule' [stepOnce, hu, stepMode, hm, inBody, inBodyStart, Bool.or_true, Bool.true_or])
  unfold StepTo
  rw [hstep]
  refine ⟨rfl, rfl, rfl, ?_, ?_⟩
  · simp [State.reconstructAfe, State.insertHtml, State.onTree, hr, Tree.insertHtml, Tree.pushNew]
  · simp [State.reconstructAfe, State.insertHtml, State.onTree, hr, Tree.insertHtml, Tree.pushNew, hst]

/-- §13.2.6.4.7 "any other end tag", the current node being the HTML element to close -/
theorem step_html_end_other (c : Cfg) (s : State) (e : El) (es : List El) (k : Nat)
    (hst : s.tree.stack = e :: es) (hns : e.ns = .html) (hn : e.name = .other k) (hm : s.mode = .inBody) :
    StepTo c s (.end (.other k)) es := by
  have hu : useHtmlRules s (.end (.other k)) = true := by simp [useHtmlRules, State.stack, hst, hns]
  have hf : findEndTarget c.dev (.other k) s.tree.stack = some 0 := by
    simp [hst, findEndTarget, El.isHtml, hns, hn]
  have hstep := step_of_done c s (s.anyOtherEndTag c (.other k)) (.end (.other k)) .none rfl
    (by eval_rule' [stepOnce, hu, stepMode, hm, inBody, inBodyEnd, Bool.or_true, Bool.true_or, Bool.and_false,
          Bool.or_false])
  unfold StepTo
  rw [hstep]
  refine ⟨rfl, rfl, rfl, ?_, ?_⟩
  · simp only [State.anyOtherEndTag, State.onTree, Tree.anyOtherEndTag, hf]
  · simp only [State.anyOtherEndTag, State.onTree, Tree.anyOtherEndTag, hf]
    simp [hst]

/-- void elements that "in body" inserts and pops at once, without looking at the stack -/
def voidNames : List Name := [.area, .br, .embed, .img, .keygen, .wbr]

theorem inBodyStart_void (c : Cfg) (s : State) (n : Name) (sc : Bool) (a : Attrs) (hn : n.isIn voidNames = true) :
    ∃ fo, inBodyStart c s n a sc = .done { (s.reconstructAfe).insertAndPop n a with framesetOk := fo } .none := by
  cases n <;> simp [voidNames, Name.isIn] at hn
  all_goals exact ⟨false, by eval_rule' [inBodyStart]⟩

theorem step_html_void (c : Cfg) (s : State) (e : El) (es : List El) (n : Name) (sc : Bool) (a : Attrs)
    (hst : s.tree.stack = e :: es) (he : HtmlTop e) (hm : s.mode = .inBody) (hafe : s.tree.afe = [])
    (hn : n.isIn voidNames = true) : StepTo c s (.start n sc a) (e :: es) := by
  have hnm : n ≠ .mglyph ∧ n ≠ .malignmark := by
    cases n <;> simp [voidNames, Name.isIn] at hn <;> simp
  have hu := useHtml_start s e es n sc a hst he hnm
  have hr : s.tree.reconstructAfe = s.tree := reconstructAfe_nil _ hafe
  obtain ⟨fo, hb⟩ := inBodyStart_void c s n sc a hn
  have hstep := step_of_done c s _ (.start n sc a) .none rfl
    (show stepOnce c s (.start n sc a) false = _ by simp only [stepOnce, hu, Bool.or_true, if_true, stepMode, hm, inBody]; exact hb)
  unfold StepTo
  rw [hstep]
  refine ⟨rfl, rfl, rfl, ?_, ?_⟩ <;>
    simp [State.reconstructAfe, State.insertAndPop, State.onTree, hr, Tree.insertAndPop, Tree.insertHtml,
      Tree.pushNew, Tree.pop, hst, hafe]

/-- names of the enumeration that "in body" treats by "any other start tag" / "any other end tag", whatever the
state (no scope test, no implied end tags): besides `Name.other` -/
def ordNames : List Name :=
  [.span, .sub, .sup, .var, .mi, .mo, .mn, .ms, .mtext, .annotationXml, .foreignobject, .desc, .ruby]

/-- the ordinary HTML elements: unknown names and `ordNames` -/
def Name.isOrd (n : Name) : Bool := n.isOther || n.isIn ordNames

theorem inBodyStart_ord (c : Cfg) (s : State) (n : Name) (sc : Bool) (a : Attrs) (hn : n.isOrd = true) :
    inBodyStart c s n a sc = .done ((s.reconstructAfe).insertHtml n a) .none := by
  cases n <;> simp [Name.isOrd, Name.isOther, ordNames, Name.isIn] at hn
  all_goals eval_rule' [inBodyStart]
  all_goals (try simp +decide [Name.isIn, other_isIn, other_beq])

theorem inBodyEnd_ord (c : Cfg) (s : State) (n : Name) (hn : n.isOrd = true) :
    inBodyEnd c s n = .done (s.anyOtherEndTag c n) .none := by
  cases n <;> simp [Name.isOrd, Name.isOther, ordNames, Name.isIn] at hn
  all_goals eval_rule' [inBodyEnd]
  all_goals (try simp +decide [Name.isIn, blockEndNames, other_isIn, other_beq])

theorem ord_not_mglyph (n : Name) (hn : n.isOrd = true) : n ≠ .mglyph ∧ n ≠ .malignmark := by
  cases n <;> simp [Name.isOrd, Name.isOther, ordNames, Name.isIn] at hn <;> simp

/-- §13.2.6.4.7 "any other start tag", in body, nothing to reconstruct -/
theorem step_html_start_ord (c : Cfg) (s : State) (e : El) (es : List El) (n : Name) (sc : Bool) (a : Attrs)
    (hn : n.isOrd = true)
    (hst : s.tree.stack = e :: es) (he : HtmlTop e) (hm : s.mode = .inBody) (hafe : s.tree.afe = []) :
    StepTo c s (.start n sc a) (⟨s.tree.nextId, .html, n, a⟩ :: e :: es) := by
  have hu := useHtml_start s e es n sc a hst he (ord_not_mglyph n hn)
  have hr : s.tree.reconstructAfe = s.tree := reconstructAfe_nil _ hafe
  have hstep := step_of_done c s ((s.reconstructAfe).insertHtml n a) (.start n sc a) .none rfl
    (show stepOnce c s (.start n sc a) false = _ by
      simp only [stepOnce, hu, Bool.or_true, if_true, stepMode, hm, inBody]; exact inBodyStart_ord c s n sc a hn)
  unfold StepTo
  rw [hstep]
  refine ⟨rfl, rfl, rfl, ?_, ?_⟩
  · simp [State.reconstructAfe, State.insertHtml, State.onTree, hr, Tree.insertHtml, Tree.pushNew]
  · simp [State.reconstructAfe, State.insertHtml, State.onTree, hr, Tree.insertHtml, Tree.pushNew, hst]

/-- §13.2.6.4.7 "any other end tag", the current node being the HTML element to close -/
theorem step_html_end_ord (c : Cfg) (s : State) (e : El) (es : List El) (n : Name) (hno : n.isOrd = true)
    (hst : s.tree.stack = e :: es) (hns : e.ns = .html) (hn : e.name = n) (hm : s.mode = .inBody) :
    StepTo c s (.end n) es := by
  have hu : useHtmlRules s (.end n) = true := by simp [useHtmlRules, State.stack, hst, hns]
  have hf : findEndTarget c.dev n s.tree.stack = some 0 := by
    simp [hst, findEndTarget, El.isHtml, hns, hn]
  have hstep := step_of_done c s (s.anyOtherEndTag c n) (.end n) .none rfl
    (show stepOnce c s (.end n) false = _ by
      simp only [stepOnce, hu, Bool.or_true, if_true, stepMode, hm, inBody]; exact inBodyEnd_ord c s n hno)
  unfold StepTo
  rw [hstep]
  refine ⟨rfl, rfl, rfl, ?_, ?_⟩
  · simp only [State.anyOtherEndTag, State.onTree, Tree.anyOtherEndTag, hf]
  · simp only [State.anyOtherEndTag, State.onTree, Tree.anyOtherEndTag, hf]
    simp [hst]

/-- start tags "in body" disposes of without touching the stack, whatever the state: void elements inserted
and popped at once, the head-only elements, the start tags "in body" ignores, `html` / `body` -/
def voidLikeNames : List Name :=
  [.area, .br, .embed, .img, .keygen, .wbr, .param, .source, .track, .image, .base, .basefont, .bgsound, .link, .«meta»,
   .caption, .col, .colgroup, .frame, .head, .tbody, .td, .tfoot, .th, .thead, .tr, .html, .body]

set_option maxHeartbeats 2000000 in
theorem inBodyStart_voidLike (c : Cfg) (s : State) (n : Name) (sc : Bool) (a : Attrs) (hn : n.isIn voidLikeNames = true)
    (hafe : s.tree.afe = []) :
    ∃ s', inBodyStart c s n a sc = .done s' .none ∧ s'.mode = s.mode ∧ s'.tree.afe = [] ∧ s'.tree.stack = s.tree.stack := by
  have hr : s.tree.reconstructAfe = s.tree := reconstructAfe_nil _ hafe
  cases n <;> simp [voidLikeNames, Name.isIn] at hn
  all_goals eval_rule' [inBodyStart, inHead, headStartNames]
  all_goals (try simp only [Name.isIn, List.contains_cons, List.contains_nil, beq_iff_eq, reduceCtorEq, Bool.or_false,
    Bool.or_self, Bool.false_eq_true, if_false, Bool.and_eq_true, false_and, Bool.or_eq_true, or_self, or_false, false_or])
  all_goals (repeat' split)
  all_goals first
    | exact ⟨_, rfl, rfl, hafe, rfl⟩
    | (refine ⟨_, rfl, rfl, ?_, ?_⟩ <;>
        simp [State.reconstructAfe, State.insertAndPop, State.onTree, hr, Tree.insertAndPop, Tree.insertHtml,
          Tree.pushNew, Tree.pop, hafe])

theorem step_html_voidLike (c : Cfg) (s : State) (e : El) (es : List El) (n : Name) (sc : Bool) (a : Attrs)
    (hst : s.tree.stack = e :: es) (he : HtmlTop e) (hm : s.mode = .inBody) (hafe : s.tree.afe = [])
    (hn : n.isIn voidLikeNames = true) : StepTo c s (.start n sc a) (e :: es) := by
  have hnm : n ≠ .mglyph ∧ n ≠ .malignmark := by
    cases n <;> simp [voidLikeNames, Name.isIn] at hn <;> simp
  have hu := useHtml_start s e es n sc a hst he hnm
  obtain ⟨s', hb, h1, h2, h3⟩ := inBodyStart_voidLike c s n sc a hn hafe
  have hstep := step_of_done c s s' (.start n sc a) .none rfl
    (show stepOnce c s (.start n sc a) false = _ by simp only [stepOnce, hu, Bool.or_true, if_true, stepMode, hm, inBody]; exact hb)
  unfold StepTo
  rw [hstep]
  exact ⟨rfl, rfl, h1, h2.trans hafe.symm, h3.trans hst⟩

/-- §13.2.6.4.7 a start tag whose tag name is "math" / "svg" -/
theorem step_html_root (c : Cfg) (s : State) (e : El) (es : List El) (n : Name) (ns : Ns) (a : Attrs)
    (hst : s.tree.stack = e :: es) (he : HtmlTop e) (hm : s.mode = .inBody) (hafe : s.tree.afe = [])
    (hn : (n = .svg ∧ ns = .svg) ∨ (n = .math ∧ ns = .mathml)) :
    StepTo c s (.start n false a) (⟨s.tree.nextId, ns, n, a⟩ :: e :: es) := by
  have hnm : n ≠ .mglyph ∧ n ≠ .malignmark := by rcases hn with ⟨h, -⟩ | ⟨h, -⟩ <;> simp [h]
  have hu := useHtml_start s e es n false a hst he hnm
  have hr : s.tree.reconstructAfe = s.tree := reconstructAfe_nil _ hafe
  have hb : inBodyStart c s n a false = .done ((s.reconstructAfe).pushNew ns n a) .none := by
    rcases hn with ⟨rfl, rfl⟩ | ⟨rfl, rfl⟩ <;> (eval_rule' [inBodyStart]; rfl)
  have hstep := step_of_done c s _ (.start n false a) .none rfl
    (show stepOnce c s (.start n false a) false = _ by simp only [stepOnce, hu, Bool.or_true, if_true, stepMode, hm, inBody]; exact hb)
  unfold StepTo
  rw [hstep]
  refine ⟨rfl, rfl, rfl, ?_, ?_⟩ <;>
    simp [State.reconstructAfe, State.pushNew, State.onTree, hr, Tree.pushNew, hst, hafe]

end LolHtml.Spec.TreeBuilder
