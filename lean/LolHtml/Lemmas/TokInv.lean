import LolHtml.Lemmas.TokDefs
import LolHtml.Lemmas.InvDisp
import LolHtml.Lemmas.Sim
/-!
# C15 — token-part ranges: concretisation of the abstract registers, validity of emitted lexemes,
the dispatcher on valid lexemes, the tree-builder simulator under its invariant
-/
namespace LolHtml.Model

open LolHtml.Lemmas.Sim (Inv)

variable {κ : Type}

/-- sites shown unreachable by the token-part analysis (`U1` minus the two sites of `U2`) -/
def T2 (s : String) : Prop :=
  s = "leave_ns: namespace stack empty" ∨
  s = "Tag token should exist at this point" ∨
  s = "Tag should exist at this point" ∨
  s = "debug_assert: Tag should exist at this point" ∨
  s = "debug_assert: End tag should exist at this point" ∨
  s = "Tag start should be set at this point" ∨
  s = "Bytes::slice out of range in RequestLexeme callback" ∨
  s = "Bytes::slice out of range in emit_tag_hint" ∨
  s = "Bytes::slice out of range in to_token" ∨
  s = "Bytes::slice out of range (tag name)"

/-- The two sites that remain: both need agreement between the tag scanner and the lexer restarted
by it (that the lexer's first tag is the tag the scanner saw) — the business of C06. -/
def U2 (s : String) : Prop :=
  s = "Tag should be a start tag at this point" ∨
  s = "RequestLexeme callback: unexpected tag type / empty ns stack"

/-- the error is not a panic / internal assertion at a site of `T` -/
def ErrNot (T : String → Prop) : Err → Prop
  | .panic s => ¬ T s
  | .internal s => ¬ T s
  | _ => True

theorem ErrNot_of_clean {T : String → Prop} {e : Err} (h : e.Clean) : ErrNot T e := by
  cases e <;> simp_all [Err.Clean, ErrNot]

theorem ErrOK_U2 {e : Err} (h1 : ErrOK U1 e) (h2 : ErrNot T2 e) : ErrOK U2 e := by
  cases e with
  | panic s =>
    simp only [ErrOK, ErrNot, U1, T2, U2] at *
    rcases h1 with h | h | h | h | h | h | h | h | h | h | h | h <;> simp_all
  | internal s =>
    simp only [ErrOK, ErrNot, U1, T2, U2] at *
    rcases h1 with h | h | h | h | h | h | h | h | h | h | h | h <;> simp_all
  | _ => trivial

/-! ### concretisation -/

/-- a stored range that is a valid part of the current lexeme (or still the default `0..0`), ending at
least `k` bytes before `hi` -/
def RangeOK (ls hi k : Nat) (r : Range) : Prop := r.start ≤ r.end ∧ r.end + k ≤ hi ∧ (ls ≤ r.start ∨ r.end = 0)

/-- a range marked after the last move of `lexeme_start` -/
def RangeM (ls hi k : Nat) (r : Range) : Prop := r.start ≤ r.end ∧ r.end + k ≤ hi ∧ ls ≤ r.start

def AttrOK (ls hi : Nat) (a : AttrOutline) : Prop := RangeOK ls hi 0 a.name ∧ RangeOK ls hi 0 a.value

def TagOK (ls hi : Nat) : TagOutline → Prop
  | .startTag n _ _ as _ => RangeOK ls hi 0 n ∧ ∀ a ∈ as, AttrOK ls hi a
  | .endTag n _ => RangeOK ls hi 0 n

def TokTag (a : ATag) (ls hi : Nat) (t : Option TagOutline) : Prop :=
  match a with
  | .none => t = none
  | .start => ∃ o, t = some o ∧ o.isStart = true ∧ TagOK ls hi o
  | .end_ => ∃ o, t = some o ∧ o.isStart = false ∧ TagOK ls hi o
  | .top => True

def TokAttr (a : AAttr) (ls hi : Nat) (t : Option AttrOutline) : Prop :=
  match a with
  | .none => t = none
  | .ok => ∀ x, t = some x → AttrOK ls hi x
  | .top => True

def TokNT (a : ANT) (ls hi : Nat) (t : Option NonTagOutline) : Prop :=
  match a with
  | .none => t = none
  | .ok => ∀ r, t = some (.comment r) → RangeOK ls hi 0 r
  | .marked k => ∀ r, t = some (.comment r) → RangeM ls hi k r
  | .top => True

/-- what an abstract lexer value says about the concrete registers, relative to `lexeme_start = ls`
and an upper bound `hi` (the cursor) -/
def TokL (a : AbsL) (ls hi : Nat) (l : LexRegs) : Prop :=
  TokTag a.tag ls hi l.curTag ∧ TokAttr a.attr ls hi l.curAttr ∧ TokNT a.nt ls hi l.curNonTag ∧
  (a.tps = true → ls ≤ l.tokenPartStart ∧ l.tokenPartStart ≤ hi)

def TokS (a : AbsS) (hi : Nat) (s : ScanRegs) : Prop :=
  match a with
  | .none => s.tagStart = none
  | .some live => ∃ p, s.tagStart = some p ∧ (live = true → p ≤ s.tagNameStart ∧ s.tagNameStart ≤ hi)
  | .top => True

def TokR (a : Abs) (hi : Nat) : Regs → Prop
  | .lexer l => TokL a.l l.lexemeStart hi l
  | .scanner s => TokS a.s hi s

/-- token-part invariant of a machine: abstract registers and the simulator invariant -/
def TokM (a : Abs) (hi : Nat) (m : M κ) : Prop := TokR a hi m.r ∧ Inv m.x.sim

/-! ### basic facts -/

theorem RangeOK.mono {ls hi hi' k : Nat} {r : Range} (h : RangeOK ls hi k r) (hh : hi ≤ hi') : RangeOK ls hi' k r :=
  ⟨h.1, by have := h.2.1; omega, h.2.2⟩

theorem RangeM.mono {ls hi hi' k : Nat} {r : Range} (h : RangeM ls hi k r) (hh : hi ≤ hi') : RangeM ls hi' k r :=
  ⟨h.1, by have := h.2.1; omega, h.2.2⟩

theorem RangeM.ok {ls hi k : Nat} {r : Range} (h : RangeM ls hi k r) : RangeOK ls hi 0 r :=
  ⟨h.1, by have := h.2.1; omega, Or.inl h.2.2⟩

theorem TagOK.mono {ls hi hi' : Nat} {t : TagOutline} (h : TagOK ls hi t) (hh : hi ≤ hi') : TagOK ls hi' t := by
  cases t with
  | startTag n hsh ns as sc => exact ⟨h.1.mono hh, fun a ha => ⟨(h.2 a ha).1.mono hh, (h.2 a ha).2.mono hh⟩⟩
  | endTag n hsh => exact RangeOK.mono h hh

theorem TokL.mono {a : AbsL} {ls hi hi' : Nat} {l : LexRegs} (h : TokL a ls hi l) (hh : hi ≤ hi') : TokL a ls hi' l := by
  obtain ⟨h1, h2, h3, h4⟩ := h
  refine ⟨?_, ?_, ?_, fun ht => ⟨(h4 ht).1, by have := (h4 ht).2; omega⟩⟩
  · cases ha : a.tag <;> simp only [TokTag, ha] at h1 ⊢
    · exact h1
    · obtain ⟨o, e1, e2, e3⟩ := h1; exact ⟨o, e1, e2, e3.mono hh⟩
    · obtain ⟨o, e1, e2, e3⟩ := h1; exact ⟨o, e1, e2, e3.mono hh⟩
  · cases ha : a.attr <;> simp only [TokAttr, ha] at h2 ⊢
    · exact h2
    · exact fun x hx => ⟨(h2 x hx).1.mono hh, (h2 x hx).2.mono hh⟩
  · cases ha : a.nt <;> simp only [TokNT, ha] at h3 ⊢
    · exact h3
    · exact fun r hr => (h3 r hr).mono hh
    · exact fun r hr => (h3 r hr).mono hh

theorem TokS.mono {a : AbsS} {hi hi' : Nat} {s : ScanRegs} (h : TokS a hi s) (hh : hi ≤ hi') : TokS a hi' s := by
  cases a with
  | none => exact h
  | top => trivial
  | some live =>
    obtain ⟨p, h1, h2⟩ := h
    exact ⟨p, h1, fun hl => ⟨(h2 hl).1, by have := (h2 hl).2; omega⟩⟩

theorem TokR.mono {a : Abs} {hi hi' : Nat} {r : Regs} (h : TokR a hi r) (hh : hi ≤ hi') : TokR a hi' r := by
  cases r with
  | lexer l => exact TokL.mono h hh
  | scanner s => exact TokS.mono h hh

theorem TokL.le {a b : AbsL} {ls hi : Nat} {l : LexRegs} (h : TokL a ls hi l) (hab : a.le b = true) : TokL b ls hi l := by
  obtain ⟨h1, h2, h3, h4⟩ := h
  simp only [AbsL.le, Bool.and_eq_true, Bool.or_eq_true, Bool.not_eq_true'] at hab
  obtain ⟨⟨⟨l1, l2⟩, l3⟩, l4⟩ := hab
  refine ⟨?_, ?_, ?_, ?_⟩
  · cases hb : b.tag <;> cases ha : a.tag <;> simp_all [ATag.le, TokTag]
  · cases hb : b.attr <;> cases ha : a.attr <;> simp_all [AAttr.le, TokAttr]
  · cases hb : b.nt <;> cases ha : a.nt <;> simp_all [ANT.le, TokNT]
    · intro r hr; exact (h3 r hr).ok
    · intro r hr
      have := h3 r hr
      exact ⟨this.1, by have := this.2.1; omega, this.2.2⟩
  · intro hb
    rcases l4 with h | h
    · rw [h] at hb; cases hb
    · exact h4 h

theorem TokS.le {a b : AbsS} {hi : Nat} {s : ScanRegs} (h : TokS a hi s) (hab : a.le b = true) : TokS b hi s := by
  cases b with
  | top => trivial
  | none => cases a <;> simp_all [AbsS.le]
  | some lb =>
    cases a with
    | none => simp [AbsS.le] at hab
    | top => simp [AbsS.le] at hab
    | some la =>
      obtain ⟨p, h1, h2⟩ := h
      refine ⟨p, h1, fun hl => ?_⟩
      subst hl
      cases la
      · simp [AbsS.le] at hab
      · exact h2 rfl

theorem TokR.le {a b : Abs} {hi : Nat} {r : Regs} (h : TokR a hi r) (hab : a.le b = true) : TokR b hi r := by
  simp only [Abs.le, Bool.and_eq_true] at hab
  cases r with
  | lexer l => exact TokL.le h hab.1
  | scanner s => exact TokS.le h hab.2

theorem TokR.top (hi : Nat) (r : Regs) : TokR Abs.top hi r := by
  cases r with
  | lexer l => exact ⟨trivial, trivial, trivial, fun h => by cases h⟩
  | scanner s => trivial

/-- the cursor moved forward by one -/
theorem TokR.bump {a : Abs} {hi : Nat} {r : Regs} (h : TokR a hi r) : TokR a.bump (hi + 1) r := by
  cases r with
  | scanner s => exact TokS.mono h (Nat.le_succ _)
  | lexer l =>
    have h' := TokL.mono h (Nat.le_succ hi)
    obtain ⟨h1, h2, h3, h4⟩ := h'
    refine ⟨h1, h2, ?_, h4⟩
    simp only [Abs.bump, AbsL.bump]
    cases hn : a.l.nt with
    | marked k =>
      simp only [hn, TokNT] at h3 ⊢
      intro r hr
      have h0 := h.2.2.1
      simp only [hn, TokNT] at h0
      have := h0 r hr
      exact ⟨this.1, by have := this.2.1; simp only [slackCap]; omega, this.2.2⟩
    | _ => simpa only [hn] using h3

/-! ### validity of emitted lexemes -/

def RangeIn (L : Nat) (r : Range) : Prop := r.start ≤ r.end ∧ r.end ≤ L

def TagValid (L : Nat) : TagOutline → Prop
  | .startTag n _ _ as _ => RangeIn L n ∧ ∀ a ∈ as, RangeIn L a.name ∧ RangeIn L a.value
  | .endTag n _ => RangeIn L n

def NTValid (L : Nat) : Option NonTagOutline → Prop
  | some (.comment t) => RangeIn L t
  | _ => True

theorem RangeOK.valid {ls hi k L : Nat} {r : Range} (h : RangeOK ls hi k r) (hL : hi ≤ L) : RangeIn L r :=
  ⟨h.1, by have := h.2.1; omega⟩

theorem TagOK.valid {ls hi L : Nat} {t : TagOutline} (h : TagOK ls hi t) (hL : hi ≤ L) : TagValid L t := by
  cases t with
  | startTag n hsh ns as sc => exact ⟨h.1.valid hL, fun a ha => ⟨(h.2 a ha).1.valid hL, (h.2 a ha).2.valid hL⟩⟩
  | endTag n hsh => exact RangeOK.valid h hL

theorem checkedSlice_isSome {inp : Bytes} {r : Range} (h : RangeIn inp.length r) : ∃ b, checkedSlice inp r = some b := by
  unfold checkedSlice
  rw [if_pos (show r.start ≤ r.end ∧ r.end ≤ inp.length from h)]
  exact ⟨_, rfl⟩

theorem LocalName.new_isSome {inp : Bytes} {r : Range} (hsh : Nat) (h : RangeIn inp.length r) :
    ∃ n, LocalName.new inp r hsh = some n := by
  unfold LocalName.new
  split
  · obtain ⟨b, hb⟩ := checkedSlice_isSome h
    rw [hb]; exact ⟨_, rfl⟩
  · exact ⟨_, rfl⟩

theorem attrsOf_isSome {inp : Bytes} (as : List AttrOutline)
    (h : ∀ a ∈ as, RangeIn inp.length a.name ∧ RangeIn inp.length a.value) : ∃ l, attrsOf inp as = some l := by
  unfold attrsOf
  induction as with
  | nil => exact ⟨[], rfl⟩
  | cons a as ih =>
    obtain ⟨l, hl⟩ := ih (fun x hx => h x (by simp [hx]))
    obtain ⟨n, hn⟩ := checkedSlice_isSome (h a (by simp)).1
    obtain ⟨v, hv⟩ := checkedSlice_isSome (h a (by simp)).2
    refine ⟨(n, v, a) :: l, ?_⟩
    simp only [List.mapM_cons, hn, hv, hl]
    rfl

/-! ### the dispatcher on valid lexemes -/

section
variable {γ : Type} {ctl : Controller γ} {inp : Bytes}

def DNot {α : Type} (r : DRes γ α) : Prop := ∀ e, r.2 = .error e → ErrNot T2 e

theorem DNot.bind {α β : Type} {r : DRes γ α} {f : Disp γ → α → DRes γ β}
    (hr : DNot r) (hf : ∀ d a, DNot (f d a)) : DNot (DRes.bind r f) := by
  unfold DRes.bind
  split
  · rename_i e he
    intro e' h'
    simp only [Except.error.injEq] at h'
    subst h'
    exact hr _ he
  · exact hf _ _

theorem DNot.ok {α : Type} (d : Disp γ) (a : α) : DNot ((d, .ok a) : DRes γ α) := fun e h => by cases h

theorem DNot.of_post {α : Type} {r : DRes γ α} (h : ∀ e, r.2 = .error e → e.Clean) : DNot r :=
  fun e he => ErrNot_of_clean (h e he)

theorem tokenProduced_not (hc : CtlClean ctl) (d : Disp γ) (t : Token) : DNot (Disp.tokenProduced ctl d t) := by
  intro e he
  unfold Disp.tokenProduced at he
  dsimp only at he
  split at he
  · rename_i e' herr
    simp only [Except.error.injEq] at he
    subst he
    exact ErrNot_of_clean (hc.token _ _ _ herr)
  · cases he

theorem flushPendingText_not (hc : CtlClean ctl) (d : Disp γ) : DNot (d.flushPendingText ctl) := by
  unfold Disp.flushPendingText
  split
  · exact tokenProduced_not hc _ _
  · exact DNot.ok _ _

theorem ofExcept_emitChunkBefore_not (d : Disp γ) (raw : Range) :
    DNot (DRes.ofExcept d (d.emitChunkBefore inp raw)) := by
  intro e he
  unfold Disp.emitChunkBefore DRes.ofExcept at he
  split at he
  · rename_i e' h'
    simp only [Except.error.injEq] at he
    subst he
    split at h'
    · simp only [Except.error.injEq] at h'
      subst h'
      simp [ErrNot, T2]
    · cases h'
  · cases he

theorem emitToken_not (hc : CtlClean ctl) (d : Disp γ) (raw : Range) (tok : Token) :
    DNot (d.emitToken ctl inp raw tok) := by
  unfold Disp.emitToken
  apply DNot.bind (ofExcept_emitChunkBefore_not d raw)
  intro d1 _
  apply DNot.bind (tokenProduced_not hc d1 tok)
  intro d2 _
  exact DNot.ok _ _

theorem produceTag_not (hc : CtlClean ctl) (d : Disp γ) (lx : TagLexeme)
    (hraw : RangeIn inp.length lx.raw) (hv : TagValid inp.length lx.outline) :
    DNot (d.produceTag ctl inp lx) := by
  unfold Disp.produceTag
  obtain ⟨rb, hrb⟩ := checkedSlice_isSome hraw
  have hsome : ∃ ft, tagToToken d.flags inp lx = some ft := by
    unfold tagToToken
    cases ho : lx.outline with
    | startTag n hsh ns as sc =>
      rw [ho] at hv
      obtain ⟨nb, hnb⟩ := checkedSlice_isSome hv.1
      obtain ⟨al, hal⟩ := attrsOf_isSome as hv.2
      dsimp only
      split
      · rw [hnb, hal, hrb]; exact ⟨_, rfl⟩
      · exact ⟨_, rfl⟩
    | endTag n hsh =>
      rw [ho] at hv
      obtain ⟨nb, hnb⟩ := checkedSlice_isSome hv
      dsimp only
      split
      · rw [hnb, hrb]; exact ⟨_, rfl⟩
      · exact ⟨_, rfl⟩
  obtain ⟨ft, hft⟩ := hsome
  rw [hft]
  dsimp only
  split
  · exact DNot.ok _ _
  · exact emitToken_not hc _ _ _

theorem produceText_not (hc : CtlClean ctl) (d : Disp γ) (lx : NonTagLexeme) (tt : TextType) :
    DNot (d.produceText ctl inp lx tt) := by
  unfold Disp.produceText
  split
  · intro e he
    simp only [Except.error.injEq] at he
    subst he
    simp [ErrNot, T2]
  · apply DNot.bind (ofExcept_emitChunkBefore_not d lx.raw)
    intro d1 _
    apply DNot.bind (tokenProduced_not hc _ _)
    intro d2 _
    exact DNot.ok _ _

theorem produceNonTag_not (hc : CtlClean ctl) (d : Disp γ) (lx : NonTagLexeme)
    (hraw : RangeIn inp.length lx.raw) (hv : NTValid inp.length lx.outline) :
    DNot (d.produceNonTag ctl inp lx) := by
  unfold Disp.produceNonTag
  obtain ⟨rb, hrb⟩ := checkedSlice_isSome hraw
  split
  · split
    · exact produceText_not hc d lx _
    · exact DNot.ok _ _
  · have hsome : ∃ ot, nonTagToToken d.flags inp lx = some ot := by
      unfold nonTagToToken
      dsimp only
      split
      · rename_i text ho
        rw [ho] at hv
        obtain ⟨tb, htb⟩ := checkedSlice_isSome hv
        split
        · rw [htb, hrb]; exact ⟨_, rfl⟩
        · exact ⟨_, rfl⟩
      · split
        · rw [hrb]; exact ⟨_, rfl⟩
        · exact ⟨_, rfl⟩
      · exact ⟨_, rfl⟩
    obtain ⟨ot, hot⟩ := hsome
    rw [hot]
    cases ot with
    | none => exact DNot.ok _ _
    | some tok => exact emitToken_not hc _ _ _

theorem answerAux_not (hc : CtlClean ctl) (d : Disp γ) (info : AuxInfo) : DNot (d.answerAux ctl info) := by
  unfold Disp.answerAux
  dsimp only
  split
  · exact DNot.ok _ _
  · rename_i e herr
    intro e' he
    simp only [Except.error.injEq] at he
    subst he
    exact ErrNot_of_clean (hc.auxInfo _ _ _ herr)

theorem adjustFlagsForTag_not (hc : CtlClean ctl) (d : Disp γ) (lx : TagLexeme)
    (hv : TagValid inp.length lx.outline) : DNot (d.adjustFlagsForTag ctl inp lx) := by
  unfold Disp.adjustFlagsForTag
  split
  · dsimp only
    split
    · exact answerAux_not hc _ _
    · intro e he
      simp only [Except.error.injEq] at he
      subst he
      simp [ErrNot, T2]
  · cases ho : lx.outline with
    | startTag n hsh ns as sc =>
      rw [ho] at hv
      obtain ⟨ln, hln⟩ := LocalName.new_isSome hsh hv.1
      dsimp only
      rw [hln]
      dsimp only
      split
      · exact DNot.ok _ _
      · exact answerAux_not hc _ _
      · rename_i e herr
        intro e' he
        simp only [Except.error.injEq] at he
        subst he
        exact ErrNot_of_clean (hc.startTag _ _ _ _ herr)
    | endTag n hsh =>
      rw [ho] at hv
      obtain ⟨ln, hln⟩ := LocalName.new_isSome hsh hv
      dsimp only
      rw [hln]
      exact DNot.ok _ _

theorem handleTag_not (hc : CtlClean ctl) (lx : TagLexeme) (d : Disp γ)
    (hraw : RangeIn inp.length lx.raw) (hv : TagValid inp.length lx.outline) :
    DNot (Disp.handleTag ctl inp lx d) := by
  unfold Disp.handleTag
  apply DNot.bind (flushPendingText_not hc d)
  intro d1 _
  apply DNot.bind
  · split
    · exact DNot.ok _ _
    · exact adjustFlagsForTag_not hc d1 lx hv
  · intro d2 _
    apply DNot.bind (produceTag_not hc _ lx hraw hv)
    intro d3 _
    exact DNot.ok _ _

theorem handleNonTag_not (hc : CtlClean ctl) (lx : NonTagLexeme) (d : Disp γ)
    (hraw : RangeIn inp.length lx.raw) (hv : NTValid inp.length lx.outline) :
    DNot (Disp.handleNonTag ctl inp lx d) := by
  unfold Disp.handleNonTag
  apply DNot.bind
  · split
    · exact DNot.ok _ _
    · exact flushPendingText_not hc d
  · intro d1 _
    exact produceNonTag_not hc d1 lx hraw hv

theorem startTagHint_not (hc : CtlClean ctl) (name : LocalName) (ns : Ns) (d : Disp γ) :
    DNot (Disp.startTagHint ctl name ns d) := by
  unfold Disp.startTagHint
  dsimp only
  split
  · unfold Disp.applyHintFlags; exact DNot.ok _ _
  · exact DNot.ok _ _
  · rename_i e herr
    intro e' he
    simp only [Except.error.injEq] at he
    subst he
    exact ErrNot_of_clean (hc.startTag _ _ _ _ herr)

theorem endTagHint_not (hc : CtlClean ctl) (name : LocalName) (d : Disp γ) :
    DNot (Disp.endTagHint ctl name d) := by
  unfold Disp.endTagHint
  apply DNot.bind (flushPendingText_not hc d)
  intro d1 _
  dsimp only
  unfold Disp.applyHintFlags
  exact DNot.ok _ _

end

/-- What the token-part analysis needs from the sink: on lexemes whose raw range and outline ranges
are valid slices, it does not fail at a `T2` site. -/
structure SinkSafe2 (ops : SinkOps κ) (inp : Bytes) : Prop where
  handleTag : ∀ lx k, RangeIn inp.length lx.raw → TagValid inp.length lx.outline →
    ∀ e, (ops.handleTag inp lx k).2 = .error e → ErrNot T2 e
  handleNonTag : ∀ lx k, RangeIn inp.length lx.raw → NTValid inp.length lx.outline →
    ∀ e, (ops.handleNonTag inp lx k).2 = .error e → ErrNot T2 e
  startTagHint : ∀ n ns k e, (ops.startTagHint n ns k).2 = .error e → ErrNot T2 e
  endTagHint : ∀ n k e, (ops.endTagHint n k).2 = .error e → ErrNot T2 e

theorem dispOps_safe2 {γ : Type} {ctl : Controller γ} {inp : Bytes} (hc : CtlClean ctl) :
    SinkSafe2 (dispOps ctl) inp where
  handleTag := fun lx k h1 h2 => handleTag_not hc lx k h1 h2
  handleNonTag := fun lx k h1 h2 => handleNonTag_not hc lx k h1 h2
  startTagHint := fun n ns k => startTagHint_not hc n ns k
  endTagHint := fun n k => endTagHint_not hc n k

/-! ### the simulator under its invariant -/

open LolHtml.Lemmas.Sim in
theorem Sim.feedbackForStartTag_inv {cfg : TagCfg} {s : Sim} (h : Inv s) (t : Nat) :
    (∀ e, s.feedbackForStartTag cfg t = .error e → ErrNot T2 e) ∧
    (∀ r, s.feedbackForStartTag cfg t = .ok r → Inv r.1) := by
  rw [start_eq]
  rcases guardStart_cases cfg s t with ⟨g, hg⟩ | ⟨_, hg⟩
  · rw [hg]
    dsimp only
    obtain ⟨s', fb, h1, h2, _⟩ := startCore_good cfg { s with guard := g } (inv_guard s h g) t
    rw [h1]
    exact ⟨fun e he => (by cases he), fun r hr => by simp only [Except.ok.injEq] at hr; subst hr; exact h2⟩
  · rw [hg]
    dsimp only
    exact ⟨fun e he => by simp only [Except.error.injEq] at he; subst he; trivial, fun r hr => by cases hr⟩

open LolHtml.Lemmas.Sim in
theorem Sim.feedbackForEndTag_inv {cfg : TagCfg} {s : Sim} (h : Inv s) (t : Nat) :
    (∀ e, s.feedbackForEndTag cfg t = .error e → ErrNot T2 e) ∧
    (∀ r, s.feedbackForEndTag cfg t = .ok r → Inv r.1) := by
  rw [end_eq]
  obtain ⟨g, hg⟩ := guardEnd_eq cfg s t
  rw [hg]
  obtain ⟨s', fb, h1, h2, _⟩ := endCore_good cfg { s with guard := g } (inv_guard s h g) t
  rw [h1]
  exact ⟨fun e he => (by cases he), fun r hr => by simp only [Except.ok.injEq] at hr; subst hr; exact h2⟩

open LolHtml.Lemmas.Sim in
theorem Sim.leaveNs_inv {s s' : Sim} {f : Feedback} (h : Inv s) (hl : s.leaveNs = some (s', f)) : Inv s' := by
  unfold Sim.leaveNs at hl
  split at hl
  · rename_i x top rest hs
    simp only [Option.some.injEq, Prod.mk.injEq] at hl
    obtain ⟨rfl, _⟩ := hl
    refine ⟨rfl, ?_⟩
    have := h.bottom
    rw [hs] at this
    simpa [List.getLast?_cons_cons] using this
  · cases hl

open LolHtml.Lemmas.Sim in
/-- every callback that succeeds keeps the invariant -/
theorem Sim.runCallback_inv {s s' : Sim} {k : RLKind} {v : TagView} {f : Feedback} (h : Inv s)
    (hc : s.runCallback k v = some (s', f)) : Inv s' := by
  unfold Sim.runCallback at hc
  (repeat' split at hc) <;>
    first
    | (cases hc; done)
    | exact Sim.leaveNs_inv h hc
    | (simp only [Option.some.injEq, Prod.mk.injEq] at hc
       obtain ⟨rfl, _⟩ := hc
       first | exact h | exact (inv_enter s h _).1)

end LolHtml.Model
