/-
Lemmas for C07_attrs_preserved: `set_attribute` / `remove_attribute` on the attribute list.
-/
import LolHtml.Spec.Edit

namespace LolHtml.Lemmas.EditAttrs
open LolHtml LolHtml.EditModel LolHtml.Spec.Edit

set_option maxRecDepth 100000 in
theorem asciiLower_idem (b : UInt8) : asciiLower (asciiLower b) = asciiLower b := by
  have h : ∀ n : Fin 256,
      asciiLower (asciiLower (UInt8.ofNat n.val)) = asciiLower (UInt8.ofNat n.val) := by decide +kernel
  have := h ⟨b.toNat, b.toNat_lt⟩
  simpa using this

theorem asciiLowerBytes_idem (bs : Bytes) : asciiLowerBytes (asciiLowerBytes bs) = asciiLowerBytes bs := by
  simp [asciiLowerBytes, asciiLower_idem]

/-- An accepted attribute name is the lower-cased input itself. -/
theorem attrNameFromString_some {n k : Bytes} (h : attrNameFromString n = some k) : k = n := by
  unfold attrNameFromString at h
  split at h
  · cases h
  · split at h
    · cases h
    · cases h; rfl

theorem key_lower {op : AttrOp} {k : Bytes} (h : op.key = some k) : asciiLowerBytes k = k := by
  cases op with
  | set n v => simp only [AttrOp.key] at h; rw [attrNameFromString_some h, asciiLowerBytes_idem]
  | remove n =>
    simp only [AttrOp.key, Option.some.injEq] at h
    rw [← h, asciiLowerBytes_idem]

/-- `remove_attribute` is about the lower-cased name, whatever it is (`lookup_name`). -/
theorem remove_key (n : Bytes) : (AttrOp.remove n).key = some (asciiLowerBytes n) := rfl

/-- One attribute operation on the list (`Err` of `set_attribute` leaves the list alone). -/
def attrApply (items : List Attribute) : AttrOp → List Attribute
  | .set n v => (attrsSetAttribute items n v).getD items
  | .remove n => (attrsRemoveAttribute items n).1

def attrsApplyOps (items : List Attribute) (ops : List AttrOp) : List Attribute :=
  ops.foldl attrApply items

/-- The operation names this attribute. -/
def keyMatch (op : AttrOp) (a : Attribute) : Bool := op.key == some (asciiLowerBytes a.name)

theorem touched_cons (op : AttrOp) (ops : List AttrOp) (a : Attribute) :
    touched (op :: ops) a = (keyMatch op a || touched ops a) := by
  simp [touched, keyMatch]

theorem eqCI_iff (a : Attribute) (k : Bytes) :
    eqCaseInsensitive a.name k = (some k == some (asciiLowerBytes a.name)) := by
  simp only [eqCaseInsensitive]
  by_cases h : asciiLowerBytes a.name = k
  · subst h; simp
  · have h' : ¬ k = asciiLowerBytes a.name := fun e => h e.symm
    have e1 : (asciiLowerBytes a.name == k) = false := by simpa using h
    have e2 : (k == asciiLowerBytes a.name) = false := by simpa using h'
    simp [e1, e2]

/-! ### `setFirstMatch` -/

theorem setFirstMatch_filter (k v : Bytes) (items items' : List Attribute)
    (h : setFirstMatch k v items = some items') (p : Attribute → Bool)
    (hp : ∀ a : Attribute, eqCaseInsensitive a.name k = true → p a = false)
    (hp' : ∀ a : Attribute, p (a.setValue v) = p a) :
    items'.filter p = items.filter p := by
  induction items generalizing items' with
  | nil => simp [setFirstMatch] at h
  | cons a rest ih =>
    simp only [setFirstMatch] at h
    split at h
    · rename_i hm
      cases h
      have h1 : p a = false := hp a hm
      have h2 : p (a.setValue v) = false := by rw [hp']; exact h1
      simp [List.filter_cons, h1, h2]
    · cases hr : setFirstMatch k v rest with
      | none => simp [hr] at h
      | some r' =>
        simp only [hr, Option.map_some, Option.some.injEq] at h
        subst h
        simp [List.filter_cons, ih r' hr]

theorem setFirstMatch_mem (k v : Bytes) (items items' : List Attribute)
    (h : setFirstMatch k v items = some items') (a : Attribute) (ha : a ∈ items') :
    a ∈ items ∨ (a.raw = none ∧ eqCaseInsensitive a.name k = true) := by
  induction items generalizing items' with
  | nil => simp [setFirstMatch] at h
  | cons b rest ih =>
    simp only [setFirstMatch] at h
    split at h
    · rename_i hm
      cases h
      rcases List.mem_cons.mp ha with rfl | ha
      · right; exact ⟨rfl, hm⟩
      · left; exact List.mem_cons_of_mem _ ha
    · cases hr : setFirstMatch k v rest with
      | none => simp [hr] at h
      | some r' =>
        simp only [hr, Option.map_some, Option.some.injEq] at h
        subst h
        rcases List.mem_cons.mp ha with rfl | ha
        · left; exact List.mem_cons_self
        · rcases ih r' hr ha with h1 | h1
          · left; exact List.mem_cons_of_mem _ h1
          · right; exact h1

/-- After a successful first-match update, the first attribute matching `k` carries the new value. -/
theorem setFirstMatch_find (k v : Bytes) (items items' : List Attribute)
    (h : setFirstMatch k v items = some items') :
    ∃ a, items'.find? (fun a => eqCaseInsensitive a.name k) = some a ∧ a.value = v ∧ a.raw = none := by
  induction items generalizing items' with
  | nil => simp [setFirstMatch] at h
  | cons b rest ih =>
    simp only [setFirstMatch] at h
    split at h
    · rename_i hm
      cases h
      refine ⟨b.setValue v, ?_, rfl, rfl⟩
      have : eqCaseInsensitive (b.setValue v).name k = true := hm
      simp [List.find?_cons, this]
    · rename_i hm
      cases hr : setFirstMatch k v rest with
      | none => simp [hr] at h
      | some r' =>
        simp only [hr, Option.map_some, Option.some.injEq] at h
        subst h
        obtain ⟨a, ha⟩ := ih r' hr
        exact ⟨a, by simp [List.find?_cons, hm, ha.1], ha.2⟩

theorem setFirstMatch_none (k v : Bytes) (items : List Attribute) (h : setFirstMatch k v items = none) :
    items.find? (fun a => eqCaseInsensitive a.name k) = none := by
  induction items with
  | nil => rfl
  | cons b rest ih =>
    simp only [setFirstMatch] at h
    split at h
    · cases h
    · rename_i hm
      cases hr : setFirstMatch k v rest with
      | none => simp [List.find?_cons, hm, ih hr]
      | some r' => simp [hr] at h

/-- A first-match update for `k` does not change the lookup of another key. -/
theorem setFirstMatch_find_other (k v k' : Bytes) (hne : k ≠ k') (items items' : List Attribute)
    (h : setFirstMatch k v items = some items') :
    (items'.find? fun a => eqCaseInsensitive a.name k') = (items.find? fun a => eqCaseInsensitive a.name k') := by
  induction items generalizing items' with
  | nil => simp [setFirstMatch] at h
  | cons b rest ih =>
    simp only [setFirstMatch] at h
    split at h
    · rename_i hm
      cases h
      have hb : eqCaseInsensitive b.name k' = false := by
        simp only [eqCaseInsensitive, beq_iff_eq] at hm
        simp only [eqCaseInsensitive, hm]
        simpa using hne
      have hb' : eqCaseInsensitive (b.setValue v).name k' = false := hb
      simp [List.find?_cons, hb, hb']
    · cases hr : setFirstMatch k v rest with
      | none => simp [hr] at h
      | some r' =>
        simp only [hr, Option.map_some, Option.some.injEq] at h
        subst h
        simp [List.find?_cons, ih r' hr]


/-! ### One operation -/

theorem keyMatch_of_key {op : AttrOp} {k : Bytes} (h : op.key = some k) (a : Attribute) :
    keyMatch op a = eqCaseInsensitive a.name k := by
  rw [eqCI_iff, keyMatch, h]

theorem attrApply_filter (items : List Attribute) (op : AttrOp) :
    (attrApply items op).filter (fun a => !keyMatch op a) = items.filter (fun a => !keyMatch op a) := by
  cases op with
  | set n v =>
    simp only [attrApply, attrsSetAttribute]
    cases hk : attrNameFromString (asciiLowerBytes n) with
    | none => rfl
    | some k =>
      have hkey : (AttrOp.set n v).key = some k := hk
      simp only
      cases hs : setFirstMatch k v items with
      | some items' =>
        simp only [Option.getD_some]
        apply setFirstMatch_filter k v items items' hs
        · intro a ha; rw [keyMatch_of_key hkey, ha]; rfl
        · intro a; rfl
      | none =>
        simp only [Option.getD_some, List.filter_append]
        have : keyMatch (AttrOp.set n v) { name := k, value := v, raw := none } = true := by
          rw [keyMatch, hkey, key_lower hkey]; simp
        simp [List.filter_cons, this]
  | remove n =>
    simp only [attrApply, attrsRemoveAttribute, attrLookupName]
    have hkey := remove_key n
    simp only [List.filter_filter]
    congr 1
    funext a
    rw [keyMatch_of_key hkey]
    cases eqCaseInsensitive a.name (asciiLowerBytes n) <;> rfl

theorem attrApply_mem (items : List Attribute) (op : AttrOp) (a : Attribute)
    (ha : a ∈ attrApply items op) : a ∈ items ∨ (a.raw = none ∧ keyMatch op a = true) := by
  cases op with
  | set n v =>
    simp only [attrApply, attrsSetAttribute] at ha
    cases hk : attrNameFromString (asciiLowerBytes n) with
    | none => simp [hk] at ha; exact Or.inl ha
    | some k =>
      have hkey : (AttrOp.set n v).key = some k := hk
      simp only [hk] at ha
      cases hs : setFirstMatch k v items with
      | some items' =>
        simp only [hs, Option.getD_some] at ha
        rcases setFirstMatch_mem k v items items' hs a ha with h | h
        · exact Or.inl h
        · exact Or.inr ⟨h.1, by rw [keyMatch_of_key hkey]; exact h.2⟩
      | none =>
        simp only [hs, Option.getD_some, List.mem_append, List.mem_singleton] at ha
        rcases ha with h | h
        · exact Or.inl h
        · subst h
          exact Or.inr ⟨rfl, by rw [keyMatch, hkey, key_lower hkey]; simp⟩
  | remove n =>
    simp only [attrApply, attrsRemoveAttribute, List.mem_filter] at ha
    exact Or.inl ha.1

/-- The first attribute matching the key `k`. -/
def lookup (k : Bytes) (items : List Attribute) : Option Attribute :=
  items.find? fun a => eqCaseInsensitive a.name k

theorem attrApply_set_lookup (items : List Attribute) (n v k : Bytes)
    (hk : (AttrOp.set n v).key = some k) :
    ∃ a, lookup k (attrApply items (.set n v)) = some a ∧ a.value = v ∧ a.raw = none := by
  have hk' : attrNameFromString (asciiLowerBytes n) = some k := hk
  simp only [attrApply, attrsSetAttribute, hk', lookup]
  cases hs : setFirstMatch k v items with
  | some items' => exact setFirstMatch_find k v items items' hs
  | none =>
    refine ⟨{ name := k, value := v, raw := none }, ?_, rfl, rfl⟩
    simp only [Option.getD_some, List.find?_append, setFirstMatch_none k v items hs, Option.none_or]
    have : eqCaseInsensitive k k = true := by
      simp [eqCaseInsensitive, key_lower hk]
    simp [List.find?_cons, this]

theorem attrApply_remove_lookup (items : List Attribute) (n k : Bytes)
    (hk : (AttrOp.remove n).key = some k) :
    lookup k (attrApply items (.remove n)) = none := by
  have hk' : asciiLowerBytes n = k := by simpa [AttrOp.key] using hk
  simp only [attrApply, attrsRemoveAttribute, attrLookupName, hk', lookup]
  rw [List.find?_eq_none]
  intro a ha
  rw [List.mem_filter] at ha
  simpa using ha.2

theorem find?_filter_of_imp {α : Type} (p q : α → Bool) (l : List α) (h : ∀ a, p a = true → q a = true) :
    (l.filter q).find? p = l.find? p := by
  induction l with
  | nil => rfl
  | cons a l ih =>
    by_cases hq : q a = true
    · simp [List.filter_cons, hq, List.find?_cons, ih]
    · have hp : p a = false := by
        cases hpa : p a with
        | false => rfl
        | true => exact absurd (h a hpa) hq
      simp [List.filter_cons, hq, List.find?_cons, hp, ih]

theorem attrApply_other_lookup (items : List Attribute) (op : AttrOp) (k : Bytes)
    (hne : op.key ≠ some k) : lookup k (attrApply items op) = lookup k items := by
  cases op with
  | set n v =>
    simp only [attrApply, attrsSetAttribute, lookup]
    cases hk : attrNameFromString (asciiLowerBytes n) with
    | none => rfl
    | some k' =>
      have hkey : (AttrOp.set n v).key = some k' := hk
      have hkk : k' ≠ k := fun e => hne (by rw [hkey, e])
      simp only
      cases hs : setFirstMatch k' v items with
      | some items' => exact setFirstMatch_find_other k' v k hkk items items' hs
      | none =>
        simp only [Option.getD_some, List.find?_append]
        have : eqCaseInsensitive k' k = false := by
          simp only [eqCaseInsensitive, key_lower hkey]; simpa using hkk
        simp [List.find?_cons, this]
  | remove n =>
    simp only [attrApply, attrsRemoveAttribute, attrLookupName, lookup]
    have hkey := remove_key n
    have hkk : asciiLowerBytes n ≠ k := fun e => hne (by rw [hkey, e])
    apply find?_filter_of_imp
    intro a ha
    simp only [eqCaseInsensitive, beq_iff_eq] at ha
    simp only [eqCaseInsensitive, ha, Bool.not_eq_true', beq_eq_false_iff_ne, ne_eq]
    exact fun e => hkk e.symm

theorem attrsApplyOps_other_lookup (items : List Attribute) (ops : List AttrOp) (k : Bytes)
    (hne : ∀ op ∈ ops, op.key ≠ some k) : lookup k (attrsApplyOps items ops) = lookup k items := by
  induction ops generalizing items with
  | nil => rfl
  | cons op ops ih =>
    simp only [attrsApplyOps, List.foldl_cons] at ih ⊢
    rw [ih _ (fun o ho => hne o (List.mem_cons_of_mem _ ho)),
      attrApply_other_lookup _ _ _ (hne op List.mem_cons_self)]

/-- Attribute operations in a start-tag script. -/
def startAttrOps (ops : List StartTagOp) : List AttrOp :=
  ops.filterMap fun
    | .setAttribute n v => some (.set n v)
    | .removeAttribute n => some (.remove n)
    | _ => none

theorem filter_eq_self_of_length {α : Type} (p : α → Bool) (l : List α)
    (h : (l.filter p).length = l.length) : l.filter p = l := by
  induction l with
  | nil => rfl
  | cons a l ih =>
    by_cases hp : p a = true
    · simp only [List.filter_cons, hp, if_true, List.length_cons, Nat.add_right_cancel_iff] at h ⊢
      rw [ih h]
    · simp only [List.filter_cons, hp, List.length_cons] at h
      have := List.length_filter_le p l
      simp at h; omega

theorem startTag_attributes (t : StartTag) (ops : List StartTagOp) :
    (t.applyOps ops).attributes = attrsApplyOps t.attributes (startAttrOps ops) := by
  induction ops generalizing t with
  | nil => rfl
  | cons op ops ih =>
    simp only [StartTag.applyOps, List.foldl_cons] at ih ⊢
    rw [ih]
    cases op with
    | «mut» o => simp [startAttrOps, StartTag.apply]
    | setName n => simp [startAttrOps, StartTag.apply, StartTag.setNameRaw]
    | setAttribute n v =>
      simp only [startAttrOps, List.filterMap_cons, attrsApplyOps, List.foldl_cons, StartTag.apply,
        StartTag.setAttribute, attrApply]
      cases attrsSetAttribute t.attributes n v <;> rfl
    | removeAttribute n =>
      simp only [startAttrOps, List.filterMap_cons, attrsApplyOps, List.foldl_cons, StartTag.apply,
        StartTag.removeAttribute, attrApply]
      cases hr : (attrsRemoveAttribute t.attributes n).2 with
      | true => simp
      | false =>
        simp only [Bool.false_eq_true, if_false]
        congr 1
        unfold attrsRemoveAttribute at hr ⊢
        simp only [bne_eq_false_iff_eq] at hr
        simp only
        exact (filter_eq_self_of_length _ _ hr.symm).symm

end LolHtml.Lemmas.EditAttrs
