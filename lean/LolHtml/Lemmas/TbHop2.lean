import LolHtml.Lemmas.TbHop1
import LolHtml.Lemmas.TbSw1
/-!
Preservation of the invariant by the "in body" rules (§13.2.6.4.7).
-/
namespace LolHtml.Spec.TreeBuilder
open LolHtml.Model (Ns)

variable {b : Bool} {c : Cfg} {s : State}

/-- evaluate the name tests of a rule for a concrete name (the name lists stay folded: `decide`;
`other_isIn` / `other_beq` for `Name.other k`) -/
macro "eval_rule" "[" defs:Lean.Parser.Tactic.simpLemma,* "]" : tactic =>
  `(tactic| simp +decide only [$defs,*, other_isIn, other_beq, htmlStartInBody, Res.ok, Res.ignore, Res.again, if_true,
      if_false, Bool.false_eq_true, beq_iff_eq, reduceCtorEq, Bool.true_and, Bool.false_and, bne_iff_ne, ne_eq,
      Bool.not_false])

set_option maxHeartbeats 8000000 in
theorem inBodyStart_inv (hleg : c.legacySelect = false) (hI : Inv b s) (h1 : s.mode ≠ .text) (h2 : s.mode ≠ .inTableText)
    (n : Name) (sc : Bool) (a : Attrs) (htok : TokOk b (.start n sc a)) : InvPost b (inBodyStart c s n a sc) := by
  obtain ⟨hsvg, hmath, hn, hfs⟩ := htok
  by_cases hh : n.isIn headStartNames = true
  · have := inHead_inv (c := c) hI h1 h2 (.start n sc a) ⟨hsvg, hmath, hn, hfs⟩ (Or.inr hh)
    have himg : n ≠ .image := by intro h; subst h; simp [headStartNames, Name.isIn] at hh
    have hhtml : n ≠ .html := by intro h; subst h; simp [headStartNames, Name.isIn] at hh
    simpa [inBodyStart, himg, hhtml, hh] using this
  · cases n <;> (try (exfalso; first | exact hsvg rfl | exact hmath rfl | exact hn rfl | (simp [headStartNames, Name.isIn] at hh; done)))
    all_goals eval_rule [inBodyStart, hleg]
    all_goals (repeat' split)
    all_goals hop_branch hI h1 h2

end LolHtml.Spec.TreeBuilder
