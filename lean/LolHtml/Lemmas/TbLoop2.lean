import LolHtml.Lemmas.TbLoop
/-!
The token loop: processing one token (`Spec.TreeBuilder.step`) preserves the invariant and answers the
tokenizer with the switch of the start tag's name (`switchOf`), with enough fuel.
-/
namespace LolHtml.Spec.TreeBuilder
open LolHtml.Model (Ns)

variable {b : Bool} {c : Cfg} {s : State}

/-- what processing token `t` from state `s` (with `fuel` reprocess steps) yields -/
structure LoopPost (c : Cfg) (b : Bool) (t : Token) (s : State) (fuel : Nat) (o : Out) : Prop where
  inv : GInv b o.st
  ns : NsOk c s → NsOk c o.st
  possible : o.impossible = false
  swOther : (∀ n sc a, t ≠ .start n sc a) → o.sw = .none
  swStart : ∀ n sc a, t = .start n sc a → o.sw = .none ∨ o.sw = switchOf c n
  swAct : ∀ n sc a, t = .start n sc a → switchOf c n ≠ .none → (b = false ∨ n = .noframes) → rank s.mode ≤ fuel →
    o.sw = switchOf c n ∧ o.outOfFuel = false
  text : o.st.mode = .text ↔ (o.sw.isRaw = true ∨ (s.mode = .text ∧ ∃ cc, t = .char cc))

theorem rank_pos (m : Mode) : 1 ≤ rank m := by cases m <;> simp [rank]

theorem frameset_of_inv (hG : GInv b s) (hb : b = false) : isFramesetMode s.mode = false := by
  rcases hG with hI | hC
  · have := (hI.modes.2.2.2 hb).1
    simp only [framesetModes, List.mem_cons, List.mem_nil_iff, or_false, not_or] at this
    cases hm : s.mode <;> simp_all [isFramesetMode]
  · simp [hC.mode, isFramesetMode]

/-- the loop from a state that is not in "text" -/
theorem loop_post (hleg : c.legacySelect = false) (t : Token) (htok : TokOk b t) (f : Bool) :
    ∀ (fuel : Nat) (s : State), GInv b s → NsOk c s → s.mode ≠ .text → LoopPost c b t s fuel (loop c t f fuel s false) := by
  intro fuel
  induction fuel with
  | zero =>
    intro s hG hns h1
    refine ⟨hG, fun h => h, rfl, fun _ => rfl, fun _ _ _ _ => Or.inl rfl, ?_, ?_⟩
    · intro n sc a _ _ _ hr
      have := rank_pos s.mode
      omega
    · simp [loop, Switch.isRaw, h1]
  | succ fuel ih =>
    intro s hG hns h1
    have hI := stepMode_inv (c := c) hleg hG t htok (fun h => (h1 h).elim)
    have hS := stepMode_sw (c := c) hG hns h1 t
    have hstep : stepOnce c s t false = stepMode c s t := by
      simp [stepOnce, useHtmlRules_of_inv hG t]
    simp only [loop, hstep]
    cases hr : stepMode c s t with
    | done s' sw =>
      rw [hr] at hI hS
      obtain ⟨hs0, hs1, hs2⟩ := hS
      refine ⟨hI, hs0, rfl, ?_, ?_, ?_, ?_⟩
      · intro hne
        cases t with
        | start n sc a => exact (hne n sc a rfl).elim
        | _ => exact hs1
      · intro n sc a ht; subst ht; exact hs1.1
      · intro n sc a ht hsw hb _
        subst ht
        refine ⟨hs1.2 ?_, rfl⟩
        rcases hb with hb | hb
        · exact Or.inl (frameset_of_inv hG hb)
        · exact Or.inr hb
      · simp only [hs2, h1, false_and, or_false]
    | reprocess s' h =>
      rw [hr] at hI hS
      obtain ⟨hG', hh⟩ := hI
      obtain ⟨hs0, hs1, hs2⟩ := hS
      subst hh
      have := ih s' hG' (hs0 hns) hs1
      refine ⟨this.inv, fun h => this.ns (hs0 h), this.possible, this.swOther, this.swStart, ?_, ?_⟩
      · intro n sc a ht hsw hb hr
        subst ht
        have hlt := hs2 hsw
        exact this.swAct n sc a rfl hsw hb (by omega)
      · rw [this.text]
        simp [hs1, h1]
    | impossible s' =>
      rw [hr] at hI
      exact hI.elim

end LolHtml.Spec.TreeBuilder
