import LolHtml.Lemmas.TbBody5
/-!
Helpers for the table insertion modes in the body phase: the structural invariant on a whole stack (`SOk`),
"clear the stack back to …" and "pop until" land on the first anchor, "reset the insertion mode
appropriately" picks the mode the first anchor stands for.
-/
namespace LolHtml.Spec.TreeBuilder
open LolHtml.Model (Ns)

variable {c : Cfg} {s : State}

/-- the structural part of the invariant, on a whole stack -/
structure SOk (st : List El) : Prop where
  w : W st
  bottom : BottomL st
  nofs : ∀ e ∈ st, e.isHtml .frameset = false

theorem bottomName_anchor (e : El) (h : e.isHtmlIn [.head, .html, .body] = true) : e.isAnchor = true := by
  cases hq : e.isAnchor
  · rw [nonanchor_not_bottomName e hq] at h; cases h
  · rfl

theorem BottomL.tail {a : El} {r : List El} (h : BottomL (a :: r)) (ha : a.isHtmlIn [.head, .html, .body] = false) :
    BottomL r := by
  obtain ⟨mid, b, hh, hA, hb, hhh, hmid⟩ := h
  cases mid with
  | nil =>
    simp only [List.nil_append, List.cons.injEq] at hA
    obtain ⟨rfl, _⟩ := hA
    simp only [El.isHtml, Bool.and_eq_true, beq_iff_eq] at hb
    simp [El.isHtmlIn, hb.1, hb.2, Name.isIn] at ha
  | cons x mid' =>
    simp only [List.cons_append, List.cons.injEq] at hA
    obtain ⟨rfl, rfl⟩ := hA
    exact ⟨mid', b, hh, rfl, hb, hhh, fun e he => hmid e (List.mem_cons_of_mem _ he)⟩

theorem BottomL.suffix {st : List El} (h : BottomL st) : BottomL (anchorSuffix st) := by
  induction st with
  | nil => exact h
  | cons x xs ih =>
    by_cases hx : x.isAnchor = true
    · rwa [anchorSuffix_cons_anchor x xs hx]
    · have hx' : x.isAnchor = false := by simpa using hx
      rw [anchorSuffix_cons_non x xs hx']
      exact ih (h.tail (nonanchor_not_bottomName x hx'))

theorem SOk.ba {m : Mode} {st : List El} (h : SOk st) (ha : AnchOk m (anchorSuffix st)) : BA m (anchorSuffix st) :=
  ⟨h.w.toSuffix, h.bottom.suffix, ha, fun e he => h.nofs e (anchorSuffix_sub st e he)⟩

theorem BA.sok {m : Mode} {st : List El} (h : BA m (anchorSuffix st)) : SOk st :=
  ⟨W.ofSuffix h.w, h.bottom.full, nofs_full h.nofs⟩

theorem SOk.suffix {st : List El} (h : SOk st) : SOk (anchorSuffix st) :=
  ⟨h.w.toSuffix, h.bottom.suffix, fun e he => h.nofs e (anchorSuffix_sub st e he)⟩

theorem SOk.tail {a : El} {r : List El} (h : SOk (a :: r)) (ha : a.isHtmlIn [.head, .html, .body] = false) : SOk r :=
  ⟨h.w.tail, h.bottom.tail ha, fun e he => h.nofs e (List.mem_cons_of_mem _ he)⟩

theorem SOk.push {st : List El} (h : SOk st) (x : El) (hxn : x.isHtmlIn [.head, .html, .body] = false)
    (hxf : x.isHtml .frameset = false) (hw : W (x :: st)) : SOk (x :: st) := by
  refine ⟨hw, ?_, ?_⟩
  · obtain ⟨mid, b, hh, hA, hb, hhh, hmid⟩ := h.bottom
    refine ⟨x :: mid, b, hh, by rw [hA]; rfl, hb, hhh, ?_⟩
    intro e he
    rcases List.mem_cons.mp he with rfl | he
    · exact hxn
    · exact hmid e he
  · intro e he
    rcases List.mem_cons.mp he with rfl | he
    · exact hxf
    · exact h.nofs e he

/-- "pop until a `p` element has been popped", when there is one and `p` is not `head`/`html`/`body` -/
theorem SOk.popUntil (p : El → Bool) (hp : ∀ e, p e = true → e.isHtmlIn [.head, .html, .body] = false) :
    ∀ (st : List El), SOk st → st.any p = true → SOk (popUntil p st) := by
  intro st
  induction st with
  | nil => intro _ h; cases h
  | cons x xs ih =>
    intro hS hex
    unfold LolHtml.Spec.TreeBuilder.popUntil
    split
    · rename_i hpx; exact hS.tail (hp x hpx)
    · rename_i hpx
      have hex' : xs.any p = true := by
        simp only [List.any_cons, Bool.or_eq_true] at hex
        rcases hex with h | h
        · exact absurd h hpx
        · exact h
      by_cases hxb : x.isHtmlIn [.head, .html, .body] = true
      · exfalso
        obtain ⟨mid, b, hh, hA, hb, hhh, hmid⟩ := hS.bottom
        cases mid with
        | nil =>
          simp only [List.nil_append, List.cons.injEq] at hA
          obtain ⟨rfl, rfl⟩ := hA
          simp only [List.any_cons, List.any_nil, Bool.or_false] at hex'
          have := hp hh hex'
          simp only [El.isHtml, Bool.and_eq_true, beq_iff_eq] at hhh
          simp [El.isHtmlIn, hhh.1, hhh.2, Name.isIn] at this
        | cons y mid' =>
          simp only [List.cons_append, List.cons.injEq] at hA
          obtain ⟨rfl, _⟩ := hA
          have := hmid x (by simp)
          rw [this] at hxb; cases hxb
      · exact ih (hS.tail (by simpa using hxb)) hex'

theorem scope_any (p bnd : El → Bool) (st : List El) (h : hasInScopeBy p bnd st = true) : st.any p = true := by
  induction st with
  | nil => cases h
  | cons x xs ih =>
    unfold hasInScopeBy at h
    simp only [List.any_cons, Bool.or_eq_true]
    by_cases hpx : p x = true
    · exact Or.inl hpx
    · simp only [hpx] at h
      by_cases hbx : bnd x = true
      · simp [hbx] at h
      · simp only [hbx] at h
        exact Or.inr (ih h)

/-- "clear the stack back to a … context" lands on the first anchor when that is one of the targets -/
theorem popWhileNot_anchor (l : List Name) (hl : ∀ n : Name, n.isIn l = true → n.isIn anchorNames = true)
    (st : List El) (a : El) (r : List El) (hA : anchorSuffix st = a :: r) (ha : a.isHtmlIn l = true) :
    popWhileNot (·.isHtmlIn l) st = a :: r := by
  induction st with
  | nil => cases hA
  | cons x xs ih =>
    unfold popWhileNot
    by_cases hx : x.isAnchor = true
    · rw [anchorSuffix_cons_anchor x xs hx] at hA
      obtain ⟨rfl, rfl⟩ := List.cons.inj hA
      simp [ha]
    · have hx' : x.isAnchor = false := by simpa using hx
      rw [anchorSuffix_cons_non x xs hx'] at hA
      have : x.isHtmlIn l = false := by
        cases hq : x.isHtmlIn l
        · rfl
        · simp only [El.isHtmlIn, Bool.and_eq_true] at hq
          simp [El.isAnchor, El.isHtmlIn, hq.1, hl _ hq.2] at hx'
      simp only [this, Bool.false_eq_true, if_false]
      exact ih hA

/-- "pop until an element has been popped" whose target is the first anchor -/
theorem popUntil_anchor (p : El → Bool) (hp : ∀ e, p e = true → e.isAnchor = true)
    (st : List El) (a : El) (r : List El) (hA : anchorSuffix st = a :: r) (ha : p a = true) :
    popUntil p st = r := by
  induction st with
  | nil => cases hA
  | cons x xs ih =>
    unfold popUntil
    by_cases hx : x.isAnchor = true
    · rw [anchorSuffix_cons_anchor x xs hx] at hA
      obtain ⟨rfl, rfl⟩ := List.cons.inj hA
      simp [ha]
    · have hx' : x.isAnchor = false := by simpa using hx
      rw [anchorSuffix_cons_non x xs hx'] at hA
      have : p x = false := by
        cases hq : p x
        · rfl
        · rw [hp x hq] at hx'; cases hx'
      simp only [this, Bool.false_eq_true, if_false]
      exact ih hA

theorem isHtmlIn_single (e : El) (n : Name) : e.isHtmlIn [n] = e.isHtml n := by
  simp only [El.isHtmlIn, El.isHtml, Name.isIn, List.contains_cons, List.contains_nil, Bool.or_false]

theorem isHtml_anchor (e : El) (n : Name) (hn : n.isIn anchorNames = true) (h : e.isHtml n = true) :
    e.isAnchor = true := by
  simp only [El.isHtml, Bool.and_eq_true, beq_iff_eq] at h
  simp [El.isAnchor, El.isHtmlIn, h.1, h.2, hn]

theorem isHtmlIn_anchor (e : El) (l : List Name) (hl : ∀ n : Name, n.isIn l = true → n.isIn anchorNames = true)
    (h : e.isHtmlIn l = true) : e.isAnchor = true := by
  simp only [El.isHtmlIn, Bool.and_eq_true] at h
  simp [El.isAnchor, El.isHtmlIn, h.1, hl _ h.2]

theorem nonanchor_isHtml (e : El) (h : e.isAnchor = false) (n : Name) (hn : n.isIn anchorNames = true) :
    e.isHtml n = false := by
  cases hq : e.isHtml n
  · rfl
  · rw [isHtml_anchor e n hn hq] at h; cases h

theorem nonanchor_isHtmlIn (e : El) (h : e.isAnchor = false) (l : List Name)
    (hl : ∀ n : Name, n.isIn l = true → n.isIn anchorNames = true) : e.isHtmlIn l = false := by
  cases hq : e.isHtmlIn l
  · rfl
  · rw [isHtmlIn_anchor e l hl hq] at h; cases h

/-- the loop of "reset the insertion mode appropriately" skips a non-anchor that is not the last element -/
theorem resetLoop_cons_non (hleg : c.legacySelect = false) (hn : Bool) (e : El) (below : List El)
    (he : e.isAnchor = false) (hb : below ≠ []) :
    resetLoop c [] hn (e :: below) = resetLoop c [] hn below := by
  have h1 := nonanchor_isHtmlIn e he [.td, .th] (by intro n hn; cases n <;> simp [Name.isIn] at hn <;> decide)
  have h2 := nonanchor_isHtmlIn e he [.tbody, .thead, .tfoot] (by intro n hn; cases n <;> simp [Name.isIn] at hn <;> decide)
  have hl : below.isEmpty = false := by cases below <;> simp_all
  rw [resetLoop]
  simp only [hleg, Bool.false_and, Bool.false_eq_true, if_false, h1, h2, hl,
    nonanchor_isHtml e he .tr (by decide), nonanchor_isHtml e he .caption (by decide),
    nonanchor_isHtml e he .colgroup (by decide), nonanchor_isHtml e he .table (by decide),
    nonanchor_isHtml e he .template (by decide), nonanchor_isHtml e he .head (by decide),
    nonanchor_isHtml e he .body (by decide), nonanchor_isHtml e he .frameset (by decide),
    nonanchor_isHtml e he .html (by decide)]

/-- the modes "reset the insertion mode appropriately" yields in the body phase -/
def resetModes : List Mode := [.inCell, .inRow, .inTableBody, .inCaption, .inColumnGroup, .inTable, .inBody]

set_option maxHeartbeats 1000000 in
theorem resetLoop_ba (hleg : c.legacySelect = false) (hn : Bool) :
    ∀ (st : List El), SOk st → (∀ e ∈ st, e.isHtml .template = false) →
      AnchOk (resetLoop c [] hn st) (anchorSuffix st) ∧ resetLoop c [] hn st ∈ resetModes := by
  intro st
  induction st with
  | nil =>
    intro hS _
    obtain ⟨mid, b, h, hA, _⟩ := hS.bottom
    cases mid <;> cases hA
  | cons e below ih =>
    intro hS hnt
    have hb : below ≠ [] := by
      obtain ⟨mid, b, h, hA, _⟩ := hS.bottom
      intro hnil; subst hnil
      cases mid with
      | nil => cases hA
      | cons x mid' =>
        simp only [List.cons_append, List.cons.injEq] at hA
        cases mid' <;> simp at hA
    by_cases he : e.isAnchor = true
    · rw [anchorSuffix_cons_anchor e below he]
      have hl : below.isEmpty = false := by cases below <;> simp_all
      have htp := hnt e (by simp)
      have hfs := hS.nofs e (by simp)
      -- `e` is not `head` / `html` unless it is `body`
      have hbot : e.isHtml .head = false ∧ e.isHtml .html = false := by
        obtain ⟨mid, b, h, hA, hbb, hhh, hmid⟩ := hS.bottom
        cases mid with
        | nil =>
          simp only [List.nil_append, List.cons.injEq] at hA
          obtain ⟨rfl, _⟩ := hA
          simp only [El.isHtml, Bool.and_eq_true, beq_iff_eq] at hbb
          simp [El.isHtml, hbb.2]
        | cons x mid' =>
          simp only [List.cons_append, List.cons.injEq] at hA
          obtain ⟨rfl, _⟩ := hA
          have := hmid e (by simp)
          simp only [El.isHtmlIn, Name.isIn, List.contains_cons, List.contains_nil, Bool.or_false,
            Bool.and_eq_false_iff, Bool.or_eq_false_iff, beq_eq_false_iff_ne, ne_eq] at this
          simp only [El.isHtml, Bool.and_eq_false_iff, beq_eq_false_iff_ne, ne_eq]
          rcases this with h | h
          · exact ⟨Or.inl h, Or.inl h⟩
          · exact ⟨Or.inr h.1, Or.inr h.2.1⟩
      rw [resetLoop]
      simp only [hleg, Bool.false_and, Bool.false_eq_true, if_false, hl, Bool.not_false, Bool.and_true,
        htp, hfs, hbot.1, hbot.2]
      repeat' split
      all_goals first
        | (refine ⟨?_, by simp [resetModes]⟩
           simp only [AnchOk, modeAnchors, headIn, secNames, isHtmlIn_single]; assumption)
        | (exfalso
           simp only [El.isAnchor, El.isHtmlIn, El.isHtml, anchorNames, Name.isIn, List.contains_cons, List.contains_nil,
             Bool.or_false, Bool.and_eq_true, Bool.or_eq_true, beq_iff_eq, Bool.and_eq_false_iff, Bool.or_eq_false_iff,
             beq_eq_false_iff_ne, ne_eq, Bool.not_eq_true] at *
           simp_all)
    · have he' : e.isAnchor = false := by simpa using he
      rw [anchorSuffix_cons_non e below he', resetLoop_cons_non hleg hn e below he' hb]
      exact ih (hS.tail (nonanchor_not_bottomName e he')) (fun x hx => hnt x (List.mem_cons_of_mem _ hx))

/-- the first anchor in an insertion mode that stands for one -/
theorem BInv.anchor (hB : BInv s) (h1 : s.mode ≠ .text) (h2 : s.mode ≠ .inTableText) (L : List Name)
    (hL : modeAnchors s.mode = some L) : ∃ a r, anchorSuffix s.tree.stack = a :: r ∧ a.isHtmlIn L = true := by
  have := hB.ba.anch
  rw [effMode_eq h1 h2] at this
  unfold AnchOk at this
  rw [hL] at this
  cases hA : anchorSuffix s.tree.stack with
  | nil => rw [hA] at this; exact this.elim
  | cons a r => rw [hA] at this; exact ⟨a, r, rfl, this⟩

end LolHtml.Spec.TreeBuilder
