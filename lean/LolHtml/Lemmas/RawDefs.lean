import LolHtml.Lemmas.TokDefs
/-!
# Attribute RAW ranges: a second checked abstract interpretation of the table

The token-part certificate (`Lemmas/TokDefs.lean`) shows that the name / value ranges of the attributes of
the current tag token are slices of the input. The attribute's RAW range (`AttributeOutline::raw_range`,
from which `Attribute::raw` is sliced out of the TAG LEXEME's bytes) must moreover lie inside the lexeme:
`lexeme_start ≤ raw.start ≤ raw.end ≤ pos + 1`. A `current_attr` that was created by `start_attr` but not
yet named by `finish_attr_name` still has the default range `0..0`, which is NOT inside a lexeme that
starts later; so "`finish_attr` only ever pushes a named attribute" is a flow-sensitive fact. It is
established by a second small abstract interpretation over three booleans, again with a computed
certificate that is CHECKED: `checkRaw t (computeRaw t) = true`. The checker rejects an `emit_tag` that may
be reached with an attribute whose raw range is not known to be inside the lexeme.
-/
namespace LolHtml.Model

/-- abstract lexer registers of the raw-range analysis; `true` = known:
`attr`: `current_attr`, if any, has its raw range inside the lexeme so far;
`tag`: every attribute of `current_tag_token` has;
`tps`: `lexeme_start ≤ token_part_start ≤ cursor` -/
structure RV where
  attr : Bool
  tag : Bool
  tps : Bool
  deriving DecidableEq, Repr, Inhabited

/-- nothing known -/
def RV.top : RV := ⟨false, false, false⟩

def RV.le (a b : RV) : Bool := (!b.attr || a.attr) && (!b.tag || a.tag) && (!b.tps || a.tps)

/-- abstract effect of a lexer action; `f` = "lexeme_start ≤ pos" before it; `none` = rejected -/
def rawTok (act : ActName) (f : Bool) (v : RV) : Option RV :=
  match act with
  | .emitText | .emitTextAndEof | .emitRawWithoutToken | .emitRawWithoutTokenAndEof
  | .emitCurrentToken | .emitCurrentTokenAndEof => some .top
  | .emitTag => if v.tag then some ⟨false, true, false⟩ else none
  | .createStartTag | .createEndTag => some { v with tag := true }
  | .startTokenPart => some { v with tps := f }
  | .startAttr => some { v with attr := false, tps := v.tps && f }
  | .finishAttrName => some { v with attr := v.tps }
  | .finishAttr => some { v with attr := true, tag := v.tag && v.attr }
  | _ => some v

/-- flag and abstract registers through one action -/
def rawStep (hb : Bool) (act : ActName) (fv : Bool × RV) : Option (Bool × RV) :=
  match flagStep hb act fv.1, rawTok act fv.1 fv.2 with
  | some f', some v' => some (f', v')
  | _, _ => none

def rawCalls (hb : Bool) : List Call → Bool × RV → Option (Bool × RV)
  | [], fv => some fv
  | c :: cs, fv =>
    match rawStep hb c.act fv with
    | none => none
    | some fv' => rawCalls hb cs fv'

/-- a certificate: for every state, the abstract register descriptions that may hold on entry -/
abbrev RCert := List (List RV)

def RCert.at (c : RCert) (s : StateId) : List RV := (c[s]?).getD []

def rcovered (l : List RV) (x : RV) : Bool := l.any (fun y => x.le y)

structure RSucc where
  st : StateId
  viaTrans : Bool
  v : RV
  deriving Repr

def rawSeqSucc (t : Table) (self : StateId) (hb isEof : Bool) (s : ActSeq) (v : RV) : Option (List RSucc) :=
  match rawCalls hb s.calls (true, v) with
  | none => none
  | some (_, v') =>
    match s.trans with
    | some (.goto x) => some [⟨x, true, v'⟩]
    | some .gotoDyn =>
        some [⟨t.dataState, true, v'⟩, ⟨t.plaintextState, true, v'⟩, ⟨t.rcdataState, true, v'⟩,
              ⟨t.rawtextState, true, v'⟩, ⟨t.scriptDataState, true, v'⟩, ⟨t.cdataSectionState, true, v'⟩]
    | some (.reconsume x) => some [⟨x, true, v'⟩]
    | none => if hb then some [⟨self, false, v'⟩] else if isEof then some [] else some [⟨self, false, v'⟩]

def rawBodySucc (t : Table) (self : StateId) (hb isEof : Bool) (b : Body) (v : RV) : Option (List RSucc) :=
  match b with
  | .seq s => rawSeqSucc t self hb isEof s v
  | .ite _ x y =>
    match rawSeqSucc t self hb isEof x v, rawSeqSucc t self hb isEof y v with
    | some l1, some l2 => some (l1 ++ l2)
    | _, _ => none

def rawArmsSucc (t : Table) (self : StateId) (v : RV) : List Arm → Option (List RSucc)
  | [] => some []
  | arm :: rest =>
    match rawBodySucc t self arm.pat.hasByte (arm.pat == .eof) arm.body v, rawArmsSucc t self v rest with
    | some l1, some l2 => some (l1 ++ l2)
    | _, _ => none

def enterRaw (sd : StateDef) (v : RV) : Option RV := (rawCalls false sd.enter (true, v)).map (·.2)

def rsuccCovered (t : Table) (c : RCert) (x : RSucc) : Bool :=
  if x.viaTrans then
    match t.states[x.st]? with
    | none => false
    | some sd =>
      match enterRaw sd x.v with
      | none => false
      | some v0 => rcovered (c.at x.st) v0
  else rcovered (c.at x.st) x.v

def rtextCovered (t : Table) (c : RCert) (s : StateId) : Bool := rsuccCovered t c ⟨s, true, .top⟩

/-- the certificate is closed under the abstract semantics, and nothing is rejected -/
def checkRaw (t : Table) (c : RCert) : Bool :=
  c.length == t.states.length &&
  rtextCovered t c t.dataState && rtextCovered t c t.plaintextState && rtextCovered t c t.rcdataState &&
  rtextCovered t c t.rawtextState && rtextCovered t c t.scriptDataState && rtextCovered t c t.cdataSectionState &&
  t.allStates fun i sd =>
    (c.at i).all fun v =>
      match rawArmsSucc t i v sd.arms with
      | none => false
      | some succs => succs.all (rsuccCovered t c)

/-- diagnostics: `(state, certificate entry)` pairs that are rejected or lead outside the certificate -/
def checkRawWitness (t : Table) (c : RCert) : List (String × Nat) :=
  (List.range t.states.length).flatMap fun i =>
    match t.states[i]? with
    | none => []
    | some sd =>
      (List.range (c.at i).length).filterMap fun j =>
        match (c.at i)[j]? with
        | none => none
        | some v =>
          match rawArmsSucc t i v sd.arms with
          | none => some (sd.name, j)
          | some succs => if succs.all (rsuccCovered t c) then none else some (sd.name, j)

/-! ### computing a certificate -/

def RCert.add (t : Table) (c : RCert) (x : RSucc) : RCert :=
  let v : Option RV :=
    if x.viaTrans then (t.states[x.st]?).bind (fun sd => enterRaw sd x.v) else some x.v
  match v with
  | none => c
  | some v => if rcovered (c.at x.st) v then c else c.modify x.st (fun l => l ++ [v])

def rawRound (t : Table) (c : RCert) : RCert :=
  (List.range t.states.length).foldl (fun c i =>
    match t.states[i]? with
    | none => c
    | some sd =>
      (c.at i).foldl (fun c v =>
        match rawArmsSucc t i v sd.arms with
        | none => c
        | some succs => succs.foldl (RCert.add t) c) c) c

def rawInit (t : Table) : RCert :=
  [t.dataState, t.plaintextState, t.rcdataState, t.rawtextState, t.scriptDataState, t.cdataSectionState].foldl
    (fun c s => RCert.add t c ⟨s, true, .top⟩) (t.states.map fun _ => [])

def computeRaw (t : Table) : RCert :=
  (List.range 4).foldl (fun c _ => rawRound t c) (rawInit t)

end LolHtml.Model
