/-
Closed forms of the `ContentHandlersDispatcher` operations (`start_matching`, `stop_matching`) on a
dispatcher whose vectors are synchronised and whose locators are consistent.
-/
import LolHtml.Lemmas.ScopeReg

namespace LolHtml.Lemmas.Scope
open LolHtml.Model.Handlers LolHtml.Model.Controller LolHtml.Spec.Scope

/-- Locators are consistent with the handler lists `T` (text), `C` (comments), `E` (element). -/
structure RegOK (locs : List SelectorHandlersLocator) (n : Nat) (T C E : List HId) : Prop where
  len : locs.length = n
  loc : ∀ m loc, locs[m]? = some loc →
    LocOK T loc.text m ∧ LocOK C loc.comment m ∧ LocOK E loc.element m
  ndT : T.Nodup
  ndC : C.Nodup
  ndE : E.Nodup

theorem incOpt (items : List (Item HId)) (l : Option Locator) (m : Nat)
    (nd : (items.map (·.handler)).Nodup) (hl : LocOK (items.map (·.handler)) l m) :
    (mk items).incOptional l = .ok (mk (addBy id (one m) items)) := by
  unfold HandlerVec.incOptional
  cases l with
  | none =>
    simp only [LocOK] at hl
    rw [addBy_absent]
    intro it hit hk
    exact hl (List.mem_map.2 ⟨it, hit, hk⟩)
  | some l =>
    simp only [LocOK, List.getElem?_map, Option.map_eq_some_iff] at hl
    obtain ⟨it, hit, hm⟩ := hl
    simp only
    rw [show l = ⟨l.idx⟩ from rfl, inc_mk items l.idx it hit,
      set_eq_addBy id items l.idx it m nd hit hm]

theorem incOptWC (wc : Bool) (items : List (Item HId)) (l : Option Locator) (m : Nat)
    (nd : (items.map (·.handler)).Nodup) (hl : LocOK (items.map (·.handler)) l m) :
    (if wc then (mk items).incOptional l else .ok (mk items)) =
      .ok (mk (if wc then addBy id (one m) items else items)) := by
  cases wc with
  | false => rfl
  | true => simpa using incOpt items l m nd hl

theorem decOpt (items : List (Item HId)) (l : Option Locator) (m : Nat)
    (nd : (items.map (·.handler)).Nodup) (hl : LocOK (items.map (·.handler)) l m)
    (hpos : ∀ it ∈ items, it.handler = m → 0 < it.userCount) :
    (mk items).decOptional l = .ok (mk (subBy id (one m) items)) := by
  unfold HandlerVec.decOptional
  cases l with
  | none =>
    simp only [LocOK] at hl
    rw [subBy_absent]
    intro it hit hk
    exact hl (List.mem_map.2 ⟨it, hit, hk⟩)
  | some l =>
    simp only [LocOK, List.getElem?_map, Option.map_eq_some_iff] at hl
    obtain ⟨it, hit, hm⟩ := hl
    simp only
    rw [show l = ⟨l.idx⟩ from rfl,
      dec_mk items l.idx it hit (hpos it (List.mem_of_getElem? hit) hm),
      set_eq_subBy id items l.idx it m nd hit hm]

theorem locs_get (locs : List SelectorHandlersLocator) (n m : Nat) (hlen : locs.length = n)
    (hm : m < n) : ∃ loc, locs[m]? = some loc := by
  have : m < locs.length := by omega
  exact ⟨locs[m], List.getElem?_eq_getElem this⟩

/-- `start_matching` in closed form. -/
theorem startMatching_spec (d : Dispatcher) (n : Nat) (Ti Ci Ei : List (Item HId)) (m : Nat)
    (wc : Bool) (hm : m < n) (ht : d.text = mk Ti) (hc : d.comment = mk Ci)
    (he : d.element = mk Ei)
    (reg : RegOK d.locators n (Ti.map (·.handler)) (Ci.map (·.handler)) (Ei.map (·.handler))) :
    d.startMatching m wc =
      .ok { d with comment := mk (if wc then addBy id (one m) Ci else Ci),
                   text := mk (if wc then addBy id (one m) Ti else Ti),
                   element := mk (addBy id (one m) Ei),
                   nextElementCanHaveContent := wc } := by
  obtain ⟨loc, hloc⟩ := locs_get d.locators n m reg.len hm
  obtain ⟨l1, l2, l3⟩ := reg.loc m loc hloc
  unfold Dispatcher.startMatching
  simp only [hloc, ht, hc, he]
  rw [incOptWC wc Ci loc.comment m reg.ndC l2]
  simp only
  rw [incOptWC wc Ti loc.text m reg.ndT l1]
  simp only
  rw [incOpt Ei loc.element m reg.ndE l3]

theorem one_add_count (m : Nat) (ms : List Nat) (h : Nat) :
    one m h + ms.count h = (m :: ms).count h := by
  simp only [one, List.count_cons, beq_iff_eq]
  by_cases hh : h = m
  · subst hh; simp; omega
  · have : ¬ m = h := fun e => hh e.symm
    simp [hh, this]

/-- All `start_matching` calls for one start tag, in closed form. -/
theorem startMatchingAll_spec (d : Dispatcher) (n : Nat) (Ti Ci Ei : List (Item HId))
    (ms : List Nat) (wc : Bool) (hms : ∀ m ∈ ms, m < n) (ht : d.text = mk Ti)
    (hc : d.comment = mk Ci) (he : d.element = mk Ei)
    (reg : RegOK d.locators n (Ti.map (·.handler)) (Ci.map (·.handler)) (Ei.map (·.handler))) :
    startMatchingAll d wc ms =
      .ok { d with comment := mk (if wc then addBy id (fun h => ms.count h) Ci else Ci),
                   text := mk (if wc then addBy id (fun h => ms.count h) Ti else Ti),
                   element := mk (addBy id (fun h => ms.count h) Ei),
                   nextElementCanHaveContent :=
                     if ms = [] then d.nextElementCanHaveContent else wc } := by
  induction ms generalizing d Ti Ci Ei with
  | nil =>
    simp only [startMatchingAll, List.count_nil, addBy_zero, if_true, ite_self]
    cases d; simp_all
  | cons m ms ih =>
    unfold startMatchingAll
    rw [startMatching_spec d n Ti Ci Ei m wc (hms m (by simp)) ht hc he reg]
    simp only
    rw [ih _ (if wc then addBy id (one m) Ti else Ti) (if wc then addBy id (one m) Ci else Ci)
      (addBy id (one m) Ei) (fun x hx => hms x (by simp [hx])) rfl rfl rfl
      (by
        cases wc <;> simpa using reg)]
    have e1 : ∀ (X : List (Item HId)),
        addBy id (fun h => ms.count h) (addBy id (one m) X) =
          addBy id (fun h => (m :: ms).count h) X := by
      intro X
      rw [addBy_addBy]
      apply addBy_congr
      intro it _
      exact one_add_count m ms _
    cases wc <;> simp [e1]

/-- Body of the loop of `stop_matching` in closed form. -/
theorem stopMatchingId_spec (d : Dispatcher) (n : Nat) (Ti Ci : List (Item HId)) (E : List HId)
    (m : Nat) (hm : m < n) (ht : d.text = mk Ti) (hc : d.comment = mk Ci)
    (reg : RegOK d.locators n (Ti.map (·.handler)) (Ci.map (·.handler)) E)
    (hpt : ∀ it ∈ Ti, it.handler = m → 0 < it.userCount)
    (hpc : ∀ it ∈ Ci, it.handler = m → 0 < it.userCount) :
    d.stopMatchingId m =
      .ok { d with comment := mk (subBy id (one m) Ci), text := mk (subBy id (one m) Ti) } := by
  obtain ⟨loc, hloc⟩ := locs_get d.locators n m reg.len hm
  obtain ⟨l1, l2, _⟩ := reg.loc m loc hloc
  unfold Dispatcher.stopMatchingId
  simp only [hloc, ht, hc]
  rw [decOpt Ci loc.comment m reg.ndC l2 hpc]
  simp only
  rw [decOpt Ti loc.text m reg.ndT l1 hpt]

theorem count_cons_le (m : Nat) (ms : List Nat) (h c : Nat) (hc : (m :: ms).count h ≤ c) :
    ms.count h ≤ c - one m h := by
  rw [← one_add_count] at hc; omega

theorem stopMatchingIds_spec (d : Dispatcher) (n : Nat) (Ti Ci : List (Item HId)) (E : List HId)
    (ms : List Nat) (hms : ∀ m ∈ ms, m < n) (ht : d.text = mk Ti) (hc : d.comment = mk Ci)
    (reg : RegOK d.locators n (Ti.map (·.handler)) (Ci.map (·.handler)) E)
    (hpt : ∀ it ∈ Ti, ms.count it.handler ≤ it.userCount)
    (hpc : ∀ it ∈ Ci, ms.count it.handler ≤ it.userCount) :
    d.stopMatchingIds ms =
      .ok { d with comment := mk (subBy id (fun h => ms.count h) Ci),
                   text := mk (subBy id (fun h => ms.count h) Ti) } := by
  induction ms generalizing d Ti Ci with
  | nil =>
    simp only [Dispatcher.stopMatchingIds, List.count_nil, subBy_zero]
    cases d; simp_all
  | cons m ms ih =>
    have pos : ∀ (X : List (Item HId)), (∀ it ∈ X, (m :: ms).count it.handler ≤ it.userCount) →
        ∀ it ∈ X, it.handler = m → 0 < it.userCount := by
      intro X hX it hit hk
      have := hX it hit
      rw [hk, List.count_cons_self] at this; omega
    have nxt : ∀ (X : List (Item HId)), (∀ it ∈ X, (m :: ms).count it.handler ≤ it.userCount) →
        ∀ it ∈ subBy id (one m) X, ms.count it.handler ≤ it.userCount := by
      intro X hX it hit
      simp only [subBy, List.mem_map] at hit
      obtain ⟨y, hy, rfl⟩ := hit
      exact count_cons_le m ms _ _ (hX y hy)
    unfold Dispatcher.stopMatchingIds
    rw [stopMatchingId_spec d n Ti Ci E m (hms m (by simp)) ht hc reg (pos Ti hpt) (pos Ci hpc)]
    simp only
    rw [ih _ (subBy id (one m) Ti) (subBy id (one m) Ci) (fun x hx => hms x (by simp [hx])) rfl rfl
      (by simpa using reg) (nxt Ti hpt) (nxt Ci hpc)]
    have e1 : ∀ (X : List (Item HId)),
        subBy id (fun h => ms.count h) (subBy id (one m) X) =
          subBy id (fun h => (m :: ms).count h) X := by
      intro X
      rw [subBy_subBy]
      apply subBy_congr
      intro it _
      exact one_add_count m ms _
    simp [e1]

theorem subBy_addBy_cancel {α κ : Type} (key : α → κ) (f g : κ → Nat) (items : List (Item α)) :
    subBy key g (addBy key (fun k => f k + g k) items) = addBy key f items := by
  simp only [subBy, addBy, List.map_map]
  apply List.map_congr_left
  intro it _
  simp only [Function.comp]
  congr 1
  omega

theorem set_append_length {α : Type} (P R : List α) (x y : α) :
    (P ++ x :: R).set P.length y = P ++ y :: R := by
  induction P with
  | nil => rfl
  | cons p ps ih => simp [ih]

theorem getElem?_append_length {α : Type} (P R : List α) (x : α) :
    (P ++ x :: R)[P.length]? = some x := by
  induction P with
  | nil => rfl
  | cons p ps ih => simp

/-- `stop_matching` in closed form: `f`/`g` are the counts that remain afterwards. -/
theorem stopMatching_spec (d : Dispatcher) (n : Nat) (T0 C0 : List (Item HId)) (E : List HId)
    (f : Nat → Nat) (desc : ElementDescriptor) (P R : List (Item EndTagH)) (x : Item EndTagH)
    (hms : ∀ m ∈ desc.matched, m < n)
    (ht : d.text = mk (addBy id (fun h => f h + desc.matched.count h) T0))
    (hc : d.comment = mk (addBy id (fun h => f h + desc.matched.count h) C0))
    (reg : RegOK d.locators n (T0.map (·.handler)) (C0.map (·.handler)) E)
    (het : match desc.endTagHandlerIdx with
      | some l => d.endTag = mk (P ++ x :: R) ∧ l.idx = P.length
      | none => True)
    (hrem : desc.removeContent = true → 0 < d.removedContent) :
    d.stopMatching desc =
      .ok { d with
        comment := mk (addBy id f C0), text := mk (addBy id f T0),
        endTag := (match desc.endTagHandlerIdx with
          | some _ => mk (P ++ { x with userCount := x.userCount + 1 } :: R)
          | none => d.endTag),
        removedContent := if desc.removeContent then d.removedContent - 1 else d.removedContent } := by
  unfold Dispatcher.stopMatching
  rw [stopMatchingIds_spec d n _ _ E desc.matched hms ht hc (by simpa using reg)
    (by intro it hit; simp only [addBy, List.mem_map] at hit; obtain ⟨y, _, rfl⟩ := hit; simp; omega)
    (by intro it hit; simp only [addBy, List.mem_map] at hit; obtain ⟨y, _, rfl⟩ := hit; simp; omega)]
  simp only [subBy_addBy_cancel]
  cases hidx : desc.endTagHandlerIdx with
  | none =>
    simp only [HandlerVec.incOptional]
    cases hr : desc.removeContent with
    | false => simp
    | true =>
      have := hrem hr
      have h1 : 1 ≤ d.removedContent := this
      simp [checkedSub, h1]
  | some l =>
    rw [hidx] at het
    obtain ⟨hE, hl⟩ := het
    simp only [hE]
    rw [show l = ⟨P.length⟩ by cases l; simp_all]
    simp only [HandlerVec.incOptional]
    rw [inc_mk (P ++ x :: R) P.length x (getElem?_append_length P R x), set_append_length]
    simp only
    cases hr : desc.removeContent with
    | false => simp
    | true =>
      have := hrem hr
      have h1 : 1 ≤ d.removedContent := this
      simp [checkedSub, h1]

end LolHtml.Lemmas.Scope
