import LolHtml.Lemmas.ChunkFull
import LolHtml.Lemmas.ChunkResumeAll
/-!
The real controller has `PanicLaws` on the states whose recorded `fault` is not the guard's site: the set is
closed under the callbacks (`handle_end_tag` records only the sites `selectors_vm`, `handlers_dispatcher`,
`descs out of sync …`), and on it every panic-class error a callback returns carries one of the controller's
own site strings or the recorded fault — never `guardSite`.
-/
set_option linter.unusedSimpArgs false
set_option linter.unusedVariables false

namespace LolHtml.Model.Chunk.R
open LolHtml LolHtml.Model LolHtml.Model.Chunk LolHtml.Model.Full LolHtml.Model.Handlers LolHtml.EditModel

/-- the recorded fault is not the guard's site -/
def NGF (s : St) : Prop := s.fault ≠ some guardSite

theorem vmMsg_ne : vmMsg ≠ guardSite := by decide
theorem dispMsg_ne : dispMsg ≠ guardSite := by decide
theorem syncMsg_ne : syncMsg ≠ guardSite := by decide

/-! ### the fault field -/

theorem afterVm_fault (s : St) (n : Nat) (vm' : SelVM.Vm) (infos : List SelVM.MatchInfo) :
    (s.afterVm n vm' infos).1.fault = s.fault := by
  unfold St.afterVm
  split <;> rfl

theorem startTagCore_fault (s : St) (name : LocalName) (ns : Model.Ns) : (startTagCore s name ns).1.fault = s.fault := by
  unfold startTagCore
  split
  · rfl
  · split
    · rfl
    · simp only
      split <;> exact afterVm_fault _ _ _ _
    · rfl

theorem startTag_fault (s : St) (name : LocalName) (ns : Model.Ns) : (startTag s name ns).1.fault = s.fault := by
  unfold startTag
  split
  · rfl
  · exact startTagCore_fault _ _ _

theorem auxInfo_fault (s : St) (info : AuxInfo) : (auxInfo s info).1.fault = s.fault := by
  unfold auxInfo
  split
  · split
    · rfl
    · split
      · rfl
      · exact afterVm_fault _ _ _ _
  · rfl

theorem endTag_ngf (s : St) (name : LocalName) (h : NGF s) : NGF (endTag s name).1 := by
  unfold endTag
  split
  · exact h
  · split
    · exact fun hh => vmMsg_ne (Option.some.inj hh)
    · split
      · simp only
        split
        · exact fun hh => dispMsg_ne (Option.some.inj hh)
        · exact h
      · exact fun hh => syncMsg_ne (Option.some.inj hh)

theorem handleEnd_fault (cfg : Cfg) (s : St) : (handleEnd cfg s).1.fault = s.fault := by
  unfold handleEnd
  split
  · rfl
  · split
    · rfl
    · rename_i en hs _
      simp only
      exact runEndClosures_fault cfg hs { s with disp := { s.disp with end_ := en } } []

/-! ### the errors -/

theorem afterVm_ng (s : St) (n : Nat) (vm' : SelVM.Vm) (infos : List SelVM.MatchInfo) :
    (s.afterVm n vm' infos).2 ≠ .error (.panic guardSite) := by
  unfold St.afterVm
  split
  · intro hh
    simp only [Except.error.injEq, dispErr, Err.panic.injEq] at hh
    exact dispMsg_ne hh
  · intro hh; cases hh

theorem startTagCore_ng (s : St) (name : LocalName) (ns : Model.Ns) :
    (startTagCore s name ns).2 ≠ .err (.panic guardSite) := by
  unfold startTagCore
  split
  · intro hh; cases hh
  · split
    · intro hh
      simp only [StartTagRes.err.injEq, vmErr, Err.panic.injEq] at hh
      exact vmMsg_ne hh
    · simp only
      split
      · intro hh; cases hh
      · rename_i e he
        intro hh
        simp only [StartTagRes.err.injEq] at hh
        subst hh
        exact afterVm_ng _ _ _ _ he
    · intro hh; cases hh

theorem startTag_ng (s : St) (name : LocalName) (ns : Model.Ns) (h : NGF s) :
    (startTag s name ns).2 ≠ .err (.panic guardSite) := by
  unfold startTag
  split
  · rename_i m hm
    intro hh
    simp only [StartTagRes.err.injEq, Err.panic.injEq] at hh
    subst hh
    exact h hm
  · exact startTagCore_ng _ _ _

theorem auxInfo_ng (s : St) (info : AuxInfo) : (auxInfo s info).2 ≠ .error (.panic guardSite) := by
  unfold auxInfo
  split
  · split
    · intro hh
      simp only [Except.error.injEq, Err.panic.injEq] at hh
      revert hh; decide
    · split
      · intro hh
        simp only [Except.error.injEq, vmErr, Err.panic.injEq] at hh
        exact vmMsg_ne hh
      · exact afterVm_ng _ _ _ _
  · intro hh; cases hh

theorem outOf_ng (f : Bool) (b : Bytes) : (outOf f b).err ≠ some (.panic guardSite) := by
  unfold outOf
  split <;> (intro hh; cases hh)

theorem token_ng (cfg : Cfg) (s : St) (t : Model.Token) (h : NGF s) :
    (token cfg s t).2.err ≠ some (.panic guardSite) := by
  unfold token
  split
  · rename_i m hm
    intro hh
    simp only [Option.some.injEq, Err.panic.injEq] at hh
    subst hh
    exact h hm
  · split
    · -- start tag
      unfold tokStartTag
      split
      · split
        · intro hh
          simp only [Option.some.injEq, Err.panic.injEq] at hh
          revert hh; decide
        · rename_i name attrs ns sc raw src base _ _ as _
          simp only
          generalize (if 0 < s.disp.removedContent then
              ({ name := name, attributes := as, ns := nsEdit ns, selfClosing := sc, raw := raw } : StartTag).apply (.mut .remove)
              else { name := name, attributes := as, ns := nsEdit ns, selfClosing := sc, raw := raw }) = st
          split
          · intro hh; cases hh
          · split
            · intro hh
              simp only [Option.some.injEq, dispErr, Err.panic.injEq] at hh
              exact dispMsg_ne hh
            · intro hh; cases hh
      · intro hh
        simp only [Option.some.injEq, Err.panic.injEq] at hh
        revert hh; decide
    · -- end tag
      unfold tokEndTag
      split
      · intro hh
        simp only [Option.some.injEq, dispErr, Err.panic.injEq] at hh
        exact dispMsg_ne hh
      · simp only
        split
        · intro hh
          simp only [Option.some.injEq, Err.panic.injEq] at hh
          revert hh; decide
        · intro hh; cases hh
    · unfold tokComment
      exact outOf_ng _ _
    · unfold tokDoctype
      exact outOf_ng _ _
    · unfold tokText
      exact outOf_ng _ _

theorem handleEnd_ng (cfg : Cfg) (s : St) (h : NGF s) : (handleEnd cfg s).2.2 ≠ some (.panic guardSite) := by
  unfold handleEnd
  split
  · rename_i m hm
    intro hh
    simp only [Option.some.injEq, Err.panic.injEq] at hh
    subst hh
    exact h hm
  · split
    · intro hh
      simp only [Option.some.injEq, dispErr, Err.panic.injEq] at hh
      exact dispMsg_ne hh
    · simp only
      split <;> (intro hh; cases hh)

/-! ### the instance -/

/-- the states of the real controller whose recorded fault is not the guard's site -/
def FullD (cfg : Cfg) (g : FullSt cfg) : Prop := NGF g.1

/-- **The real controller has `PanicLaws`.** -/
theorem fullCtl_panicLaws (cfg : Cfg) : PanicLaws (fullCtl cfg) (FullD cfg) where
  startTag_D := fun g n ns h => by
    show NGF (startTag g.1 n ns).1
    unfold NGF; rw [startTag_fault]; exact h
  auxInfo_D := fun g i h => by
    show NGF (auxInfo g.1 i).1
    unfold NGF; rw [auxInfo_fault]; exact h
  endTag_D := fun g n h => endTag_ngf g.1 n h
  token_D := fun g t h => by
    show NGF (token cfg g.1 t).1
    unfold NGF; rw [(token_frame cfg g.1 t).2]; exact h
  handleEnd_D := fun g h => by
    show NGF (handleEnd cfg g.1).1
    unfold NGF; rw [handleEnd_fault]; exact h
  startTag_err := fun g n ns e h he hh => by subst hh; exact startTag_ng g.1 n ns h he
  auxInfo_err := fun g i e h he hh => by subst hh; exact auxInfo_ng g.1 i he
  token_err := fun g t e h he hh => by subst hh; exact token_ng cfg g.1 t h he
  handleEnd_err := fun g e h he hh => by subst hh; exact handleEnd_ng cfg g.1 h he

/-- a fresh controller has no recorded fault -/
theorem init_fullD (cfg : Cfg) : FullD cfg (FullSt.init cfg) := by
  show (St.init cfg).fault ≠ some guardSite
  intro hh; cases hh

end LolHtml.Model.Chunk.R
