import LolHtml.Lemmas.ParseRelE
import LolHtml.Lemmas.InvLinear
/-!
# Work of `Parser::parse` over two related sinks

Under `OpsRelE` (every sink operation ends in related states with the same result, or the FIRST sink fails) the first
parse performs at most as many state-function invocations as the second one: as long as the two runs are related they
count together, and when the first one aborts it stops (the abort is a signal; `EmitsChecked`), while the second one
performs at least that invocation as well.

Use: a linear bound proved for a cleaned controller (`C15_linear_parse`, `CtlClean`) holds for the controller itself.
-/
set_option linter.unusedSimpArgs false
set_option linter.unusedVariables false
namespace LolHtml.Model.RelE
open LolHtml LolHtml.Model

variable {κ₁ κ₂ : Type}
variable {tbl : Table} {cfg : TagCfg} {ops₁ : SinkOps κ₁} {ops₂ : SinkOps κ₂} {inp : Bytes}
  {R : κ₁ → κ₂ → Prop} {G : Err → Prop}

set_option quotPrecheck false in
local notation "env₁" => (Env.mk tbl cfg ops₁ : Env κ₁)
set_option quotPrecheck false in
local notation "env₂" => (Env.mk tbl cfg ops₂ : Env κ₂)

theorem runLoopSteps_relE (h : OpsRelE ops₁ ops₂ inp R G) (ht : EmitsChecked tbl = true) (n : Nat) (m₁ : M κ₁) (m₂ : M κ₂)
    (hm : MR R m₁ m₂) : runLoopSteps env₁ inp n m₁ ≤ runLoopSteps env₂ inp n m₂ := by
  induction n generalizing m₁ m₂ with
  | zero => simp [runLoopSteps]
  | succ n ih =>
    simp only [runLoopSteps]
    rcases rel_stateFn (tbl := tbl) (cfg := cfg) h ht m₁ m₂ hm with ⟨a, b⟩ | ⟨eA, hGA, habort⟩
    · rw [b]
      cases (stateFn env₂ inp m₂).2 with
      | some sig => exact Nat.le_refl _
      | none => exact Nat.add_le_add_left (ih _ _ a) 1
    · rw [habort]
      cases (stateFn env₂ inp m₂).2 with
      | some sig => exact Nat.le_refl _
      | none => exact Nat.le_add_right _ _

theorem parseLoopSteps_relE (h : OpsRelE ops₁ ops₂ inp R G) (ht : EmitsChecked tbl = true)
    (last : Bool) (n : Nat) (p₁ : Parser κ₁) (p₂ : Parser κ₂) (hp : PR R p₁ p₂) :
    Parser.parseLoopSteps env₁ inp last n p₁ ≤ Parser.parseLoopSteps env₂ inp last n p₂ := by
  induction n generalizing p₁ p₂ with
  | zero => simp [Parser.parseLoopSteps]
  | succ n ih =>
    simp only [Parser.parseLoopSteps]
    have hs := runLoopSteps_relE (tbl := tbl) (cfg := cfg) h ht (defaultFuel inp) _ _ (hp.machine last)
    rcases rel_runLoop (tbl := tbl) (cfg := cfg) h ht (defaultFuel inp) _ _ (hp.machine last) with ⟨a, b⟩ | ⟨eA, hGA, habort⟩
    · rw [b]
      have hst := hp.store a
      cases (runLoop env₂ inp (defaultFuel inp) (p₂.machine last)).2 with
      | endOfInput consumed => exact Nat.add_le_add_right hs 0
      | directive d bm => exact Nat.add_le_add hs (ih _ _ (hst.loadBookmark d bm))
      | err e => exact Nat.add_le_add_right hs 0
    · rw [habort]
      exact Nat.le_trans (Nat.add_le_add_right hs 0) (Nat.add_le_add_left (Nat.zero_le _) _)

/-- **the first parse does not work more than the second one** -/
theorem parseSteps_relE (h : OpsRelE ops₁ ops₂ inp R G) (ht : EmitsChecked tbl = true)
    (last : Bool) (p₁ : Parser κ₁) (p₂ : Parser κ₂) (hp : PR R p₁ p₂) :
    Parser.parseSteps env₁ inp last p₁ ≤ Parser.parseSteps env₂ inp last p₂ :=
  parseLoopSteps_relE h ht last _ p₁ p₂ hp

end LolHtml.Model.RelE
