import LolHtml.Lemmas.TbAnchor2
import LolHtml.Lemmas.TbInv
/-!
`Keeps` for the scope-guarded operations, reconstruction of the active formatting elements and the adoption
agency algorithm; removal of a non-anchor element.
-/
namespace LolHtml.Spec.TreeBuilder
open LolHtml.Model (Ns)

/-- what the `Keeps` lemmas need of a tree: stack predicate of the invariant (no frameset: `b = false`) and
the layout `W` -/
structure AT (t : Tree) : Prop where
  ok : TreeOk (PNoCol false) t
  w : W t.stack

theorem AT.nofs {t : Tree} (h : AT t) : ∀ e ∈ t.stack, e.isHtml .frameset = false := by
  intro e he
  have := (h.ok.stack e he).2.2.2 rfl
  simp [El.isHtml, this]

theorem W.of_keeps {t t' : Tree} (hk : Keeps t t') (hw : W t.stack) : W t'.stack :=
  W.ofSuffix (hk ▸ hw.toSuffix)

theorem defaultBoundary_anchors (c : Cfg) (e : El)
    (h : e.isHtmlIn [.td, .th, .caption, .table, .template, .html] = true) : e.isDefaultScopeBoundary c = true := by
  simp only [El.isHtmlIn, Bool.and_eq_true] at h
  obtain ⟨h1, h2⟩ := h
  have : e.name.isIn [.applet, .caption, .html, .table, .td, .th, .marquee, .object, .template] = true := by
    revert h2; cases e.name <;> simp [Name.isIn]
  simp [El.isDefaultScopeBoundary, El.isHtmlIn, h1, this]

theorem inScope_found (c : Cfg) {t : Tree} (h : AT t) (n : Name) (hn : n.isIn anchorNames = false)
    (hs : t.inScope c n = true) : foundAbove (·.isHtml n) t.stack = true :=
  scope_foundAbove _ _ (fun _ he => nonanchor_of_name he hn) (defaultBoundary_anchors c) _ h.w h.nofs hs

theorem inScopeIn_found (c : Cfg) {t : Tree} (h : AT t) (l : List Name)
    (hl : ∀ n : Name, n.isIn l = true → n.isIn anchorNames = false)
    (hs : t.inScopeIn c l = true) : foundAbove (·.isHtmlIn l) t.stack = true :=
  scope_foundAbove _ _ (fun _ he => nonanchor_of_names he hl) (defaultBoundary_anchors c) _ h.w h.nofs hs

theorem inButtonScope_found (c : Cfg) {t : Tree} (h : AT t) (n : Name) (hn : n.isIn anchorNames = false)
    (hs : t.inButtonScope c n = true) : foundAbove (·.isHtml n) t.stack = true :=
  scope_foundAbove _ _ (fun _ he => nonanchor_of_name he hn)
    (fun e he => by simp [El.isButtonScopeBoundary, defaultBoundary_anchors c e he]) _ h.w h.nofs hs

theorem inListItemScope_found (c : Cfg) {t : Tree} (h : AT t) (n : Name) (hn : n.isIn anchorNames = false)
    (hs : t.inListItemScope c n = true) : foundAbove (·.isHtml n) t.stack = true :=
  scope_foundAbove _ _ (fun _ he => nonanchor_of_name he hn)
    (fun e he => by simp [El.isListItemScopeBoundary, defaultBoundary_anchors c e he]) _ h.w h.nofs hs

theorem inScopeId_found (c : Cfg) {t : Tree} (h : AT t) (x : El) (hx : x.isAnchor = false)
    (hs : t.inScopeId c x = true) : foundAbove (· == x) t.stack = true :=
  scope_foundAbove (· == x) _ (fun e (he : (e == x) = true) => (show e = x by simpa using he) ▸ hx)
    (defaultBoundary_anchors c) _ h.w h.nofs hs

theorem keeps_closeP (c : Cfg) {t : Tree} (h : AT t) (hs : t.inButtonScope c .p = true) : Keeps t t.closeP :=
  keeps_genImplied_popUntil t (some .p) .p (Or.inl rfl) (inButtonScope_found c h .p (by decide) hs)

theorem keeps_closePInButtonScope (c : Cfg) {t : Tree} (h : AT t) : Keeps t (t.closePInButtonScope c) := by
  unfold Tree.closePInButtonScope
  split
  · rename_i hs; exact keeps_closeP c h hs
  · exact Keeps.refl t

/-- a prefix without anchors does not count -/
theorem anchorSuffix_append (xs ys : List El) (h : ∀ e ∈ xs, e.isAnchor = false) :
    anchorSuffix (xs ++ ys) = anchorSuffix ys := by
  induction xs with
  | nil => rfl
  | cons x xs ih =>
    rw [List.cons_append, anchorSuffix_cons_non _ _ (h x (by simp))]
    exact ih (fun e he => h e (List.mem_cons_of_mem _ he))

theorem formatting_nonanchor (n : Name) (h : n.isIn formattingNames = true) : n.isIn anchorNames = false := by
  cases n <;> simp [formattingNames, Name.isIn] at h <;> decide

theorem keeps_insertFormatting (t : Tree) (n : Name) (a : Attrs) (hn : n.isIn formattingNames = true) :
    Keeps t (t.insertFormatting n a) := by
  have : (t.insertFormatting n a).stack = (t.pushNew .html n a).stack := by
    simp [Tree.insertFormatting, Tree.pushFormatting, Tree.insertHtml, Tree.pushNew]
  unfold Keeps
  rw [this]
  exact keeps_pushNew t .html n a (Or.inr (formatting_nonanchor n hn))

theorem reconstructCreate_keeps (l : List AfeEntry) :
    ∀ (t : Tree), (∀ x, AfeEntry.el x ∈ l → x.name.isIn formattingNames = true) →
      anchorSuffix (reconstructCreate t l).1.stack = anchorSuffix t.stack := by
  induction l with
  | nil => intro t _; rfl
  | cons y ys ih =>
    intro t hl
    cases y with
    | marker => simp only [reconstructCreate]; exact ih t (fun x hx => hl x (List.mem_cons_of_mem _ hx))
    | el e =>
      simp only [reconstructCreate]
      rw [ih (t.insertHtml e.name e.attrs) (fun x hx => hl x (List.mem_cons_of_mem _ hx))]
      exact keeps_pushNew t .html e.name e.attrs (Or.inr (formatting_nonanchor _ (hl e (by simp))))

theorem keeps_reconstructAfe {t : Tree} (h : AfeFmt t) : Keeps t t.reconstructAfe := by
  unfold Keeps Tree.reconstructAfe
  simp only
  exact reconstructCreate_keeps _ t (fun x hx => h x ((List.takeWhile_prefix _).subset (List.mem_reverse.mp hx)))

/-! ### adoption agency -/

theorem splitAtId_eq (x : El) (st above below : List El) (h : splitAtId x st = some (above, below)) :
    st = above ++ x :: below := by
  induction st generalizing above below with
  | nil => cases h
  | cons e es ih =>
    simp only [splitAtId] at h
    split at h
    · rename_i he
      injection h with h; injection h with h1 h2; subst h1 h2
      have : e = x := by simpa using he
      simp [this]
    · cases hr : splitAtId x es with
      | none => rw [hr] at h; cases h
      | some r =>
        rw [hr] at h
        simp only [Option.map] at h
        injection h with h; injection h with h1 h2; subst h1 h2
        rw [ih r.1 r.2 (by rw [hr])]
        rfl

theorem splitAtId_above (x : El) (st above below : List El) (h : splitAtId x st = some (above, below))
    (hf : foundAbove (· == x) st = true) : (∀ e ∈ above, e.isAnchor = false) ∧ x.isAnchor = false := by
  induction st generalizing above below with
  | nil => cases h
  | cons e es ih =>
    simp only [splitAtId] at h
    unfold foundAbove at hf
    by_cases ha : e.isAnchor = true
    · simp [ha] at hf
    have ha' : e.isAnchor = false := by simpa using ha
    simp only [ha', Bool.false_eq_true, if_false, Bool.or_eq_true] at hf
    split at h
    · rename_i he
      injection h with h; injection h with h1 h2; subst h1 h2
      have : e = x := by simpa using he
      exact ⟨fun _ h' => (by cases h'), this ▸ ha'⟩
    · rename_i he
      cases hr : splitAtId x es with
      | none => rw [hr] at h; cases h
      | some r =>
        rw [hr] at h
        simp only [Option.map] at h
        injection h with h; injection h with h1 h2; subst h1 h2
        have hf' : foundAbove (· == x) es = true := by
          rcases hf with hf | hf
          · exact absurd hf he
          · exact hf
        obtain ⟨i1, i2⟩ := ih r.1 r.2 (by rw [hr]) hf'
        refine ⟨fun y hy => ?_, i2⟩
        rcases List.mem_cons.mp hy with rfl | hy
        · exact ha'
        · exact i1 y hy

theorem aaaInner_between (between : List El) :
    ∀ (t : Tree) (k : Nat) (b : Bool), AfeFmt t → ∀ e ∈ (aaaInner t k b between).between, e.isAnchor = false := by
  induction between with
  | nil => intro t k b _ e he; cases he
  | cons node rest ih =>
    intro t k b ht
    simp only [aaaInner]
    split
    · exact ih _ _ _ (fun x hx => ht x ((shrinks_removeFromAfe node t).2 x hx))
    · rename_i hc
      have hin : t.inAfe node = true := by
        simp only [Bool.or_eq_true, decide_eq_true_eq, Bool.not_eq_true', not_or, Bool.not_eq_false] at hc
        exact hc.2
      have hxf := ht node (inAfe_mem t node hin)
      intro e he
      rcases List.mem_cons.mp he with rfl | he
      · simp [El.isAnchor, El.isHtmlIn, formatting_nonanchor _ hxf]
      · exact ih { t with nextId := t.nextId + 1,
                          afe := t.afe.map (fun y => if AfeEntry.hasId node y then .el ⟨t.nextId, .html, node.name, node.attrs⟩ else y) }
          (k + 1) false (afeFmt_map_replace t.afe node ⟨t.nextId, .html, node.name, node.attrs⟩ hxf ht) e he

theorem aaaIter_keeps (c : Cfg) {t : Tree} (h : AT t) (subject : Name) (hs : subject.isIn formattingNames = true) :
    Keeps t (aaaIter c t subject).1 := by
  unfold aaaIter
  cases hf : findFormatting subject t.afe with
  | none => exact keeps_anyOtherEndTag c t subject (formatting_nonanchor _ hs)
  | some fe =>
    have hfe : fe.name.isIn formattingNames = true := h.ok.afe fe (findFormatting_mem _ _ _ hf)
    simp only
    split
    · exact Keeps.refl t
    · split
      · exact Keeps.refl t
      · rename_i _ hsc
        have hsc' : t.inScopeId c fe = true := by simpa using hsc
        cases hsp : splitAtId fe t.stack with
        | none => exact Keeps.refl t
        | some ab =>
          obtain ⟨above, below⟩ := ab
          -- `fe` on the stack is no anchor wherever it is: it has a formatting name and namespace HTML
          have hst := splitAtId_eq _ _ _ _ hsp
          have hfens : fe.isAnchor = false := by
            have : fe ∈ t.stack := by rw [hst]; simp
            simp [El.isAnchor, El.isHtmlIn, formatting_nonanchor _ hfe]
          obtain ⟨ha, _⟩ := splitAtId_above _ _ _ _ hsp (inScopeId_found c h fe hfens hsc')
          have hA : anchorSuffix t.stack = anchorSuffix below := by
            rw [hst, anchorSuffix_append _ _ ha, anchorSuffix_cons_non _ _ hfens]
          simp only
          cases hfb : splitFurthest c.dev above with
          | none =>
            simp only
            unfold Keeps
            simp [Tree.removeFromAfe, hA]
          | some r =>
            obtain ⟨top, fb, between⟩ := r
            obtain ⟨h1, h2, h3⟩ := splitFurthest_sub _ _ _ _ _ hfb
            simp only
            unfold Keeps
            simp only
            rw [hA, anchorSuffix_append _ _ (fun e he => ha e (h1 e he))]
            rw [anchorSuffix_cons_non _ _ (by simp [El.isAnchor, El.isHtmlIn, formatting_nonanchor _ hfe])]
            rw [anchorSuffix_cons_non _ _ (ha fb h2)]
            exact anchorSuffix_append _ _ (aaaInner_between between t 1 true h.ok.afe)

theorem AT.of_keeps {t t' : Tree} (h : AT t) (hk : Keeps t t') (hok : TreeOk (PNoCol false) t') : AT t' :=
  ⟨hok, W.of_keeps hk h.w⟩

theorem aaaLoop_keeps (c : Cfg) (subject : Name) (hs : subject.isIn formattingNames = true) (n : Nat) :
    ∀ t, AT t → Keeps t (aaaLoop c subject n t) := by
  induction n with
  | zero => intro t _; exact Keeps.refl t
  | succ n ih =>
    intro t h
    simp only [aaaLoop]
    have hk := aaaIter_keeps c h subject hs
    split
    · exact hk.trans (ih _ (h.of_keeps hk (aaaIter_ok (fmtOk_PNoCol false) c t subject h.ok)))
    · exact hk

theorem keeps_adoptionAgency (c : Cfg) {t : Tree} (h : AT t) (subject : Name)
    (hs : subject.isIn formattingNames = true) : Keeps t (t.adoptionAgency c subject) := by
  unfold Tree.adoptionAgency
  split
  · rename_i cur rest hst
    split
    · rename_i hc
      apply keeps_pop_nonanchor
      intro e r he
      rw [hst] at he; injection he with h1 _; subst h1
      simp only [Bool.and_eq_true] at hc
      exact nonanchor_of_name hc.1 (formatting_nonanchor _ hs)
    · exact aaaLoop_keeps c subject hs 8 t h
  · exact aaaLoop_keeps c subject hs 8 t h

end LolHtml.Spec.TreeBuilder
