import LolHtml.Lemmas.RunRelClean
/-!
# `run_relG` for an arbitrary wrapper of the dispatcher

`RelI.run_relG` (Lemmas/RunRelClean.lean) is about the sinks `guardS K (dispOps ·)`: a guard on the two LEXEME operations.
Package full's operation-level statement (Thm/Full12.lean) also guards the two HINT operations (`guardHints`), which
`SGuard` cannot express. The lifting does not depend on the shape of the guard: here it is redone for an arbitrary wrapper
`T : SinkOps (Disp γ) → SinkOps (Disp γ)` with a class `F` of refusal errors, given

* `hreal`: the wrapped dispatcher over `w.ctl` does what the dispatcher does, or refuses with an error of `F`;
* `CtlRelT`: `CtlRelG` with `T (dispOps ·)` in place of `guardS K (dispOps ·)`;
* `GuardFreeT`: in the runs over the second controller the wrapped parse is the plain one and returns no error of `F`;
* the errors of `F` are panics, no `G` error is.
-/
set_option linter.unusedSimpArgs false
set_option linter.unusedVariables false
namespace LolHtml.Model.RelI
open LolHtml LolHtml.Model
open LolHtml.Thm.C01 (writeAll run Rewriter.new)

variable {γ : Type} {w : World γ} {c2 : Controller γ} {T : SinkOps (Disp γ) → SinkOps (Disp γ)} {F : Err → Prop}
  {Inv : Disp γ → Prop} {G : Err → Prop}

local notation "w2" => Chunk.R.World.withCtl w c2

/-- the environment with the wrapped dispatcher -/
def envT (w : World γ) (T : SinkOps (Disp γ) → SinkOps (Disp γ)) : Env (Disp γ) := ⟨w.tbl, w.tags, T (dispOps w.ctl)⟩

structure CtlRelT (w : World γ) (c2 : Controller γ) (T : SinkOps (Disp γ) → SinkOps (Disp γ)) (Inv : Disp γ → Prop)
    (G : Err → Prop) : Prop where
  ops : ∀ inp, RelE.OpsRelE (T (dispOps w.ctl)) (T (dispOps c2)) inp (IRel Inv) G
  bail : w.ctl.bailOut = c2.bailOut
  flush : ∀ d d' inp k, d.flushRemaining inp k = .ok d' → Inv d → Inv d'
  handleEnd : ∀ d, Inv d → w.ctl.handleEnd d.ctl = c2.handleEnd d.ctl ∨ ∃ e, G e ∧ (w.ctl.handleEnd d.ctl).2.2 = some e
  initial : ∀ g, w.ctl.initialFlags g = c2.initialFlags g
  np : ∀ e, G e → (∀ s, e ≠ .panic s) ∧ (∀ s, e ≠ .internal s)

/-- **one parse call**: if over `c2` the guarded parse is the unguarded one and returns no guard error, then over
`w.ctl` the guarded parse is the unguarded one as well — and it is the parse over `c2`, or fails in the class -/
theorem parse_relT (h : CtlRelT w c2 T Inv G)
    (hreal : ∀ inp, RelE.OpsRelE (T (dispOps w.ctl)) (dispOps w.ctl) inp (fun a b => a = b) F) (ht : EmitsChecked w.tbl = true) (hpan : ∀ e, F e → ∃ s, e = .panic s)
    (inp : Bytes) (last : Bool) (p : Parser (Disp γ)) (hd : Inv p.x.sink)
    (h2 : Parser.parse (envT (w2) T) inp last p = Parser.parse (w2).env inp last p)
    (h2n : ∀ e, F e → (Parser.parse (w2).env inp last p).2 ≠ .error e) :
    Parser.parse (envT w T) inp last p = Parser.parse w.env inp last p ∧
    ((Parser.parse w.env inp last p = Parser.parse (w2).env inp last p ∧ Inv (Parser.parse w.env inp last p).1.x.sink) ∨
      ∃ e, G e ∧ (Parser.parse w.env inp last p).2 = .error (RelE.parseErr e)) := by
  have r1 := RelE.parse_relE (tbl := w.tbl) (cfg := w.tags) (inp := inp) (h.ops inp) ht last p p
    ⟨rfl, rfl, rfl, rfl, rfl, ⟨rfl, hd⟩, rfl, rfl⟩
  have r3 := RelE.parse_relE (tbl := w.tbl) (cfg := w.tags) (inp := inp) (hreal inp) ht last p p
    ⟨rfl, rfl, rfl, rfl, rfl, rfl, rfl, rfl⟩
  -- the guarded parse over `w.ctl` does not return a guard error
  have hno : ∀ e, F e → (Parser.parse (envT w T) inp last p).2 ≠ .error (RelE.parseErr e) := by
    intro e hF he
    obtain ⟨s, rfl⟩ := hpan e hF
    rcases r1 with ⟨_, hres⟩ | ⟨e1, hG1, hres⟩
    · have hres' : (Parser.parse (envT w T) inp last p).2 = (Parser.parse (envT (w2) T) inp last p).2 := hres
      rw [hres', h2] at he
      exact h2n _ hF he
    · have hres' : (Parser.parse (envT w T) inp last p).2 = .error (RelE.parseErr e1) := hres
      rw [hres'] at he
      simp only [Except.error.injEq] at he
      obtain ⟨n1, n2⟩ := h.np e1 hG1
      cases e1 <;> simp only [RelE.parseErr] at he <;> first | (cases he; done) | exact absurd rfl (n1 _) | exact absurd rfl (n2 _)
  have heq : Parser.parse (envT w T) inp last p = Parser.parse w.env inp last p := by
    rcases r3 with ⟨hp, hres⟩ | ⟨e, hF, hres⟩
    · exact Prod.ext (PR_eq' hp) hres
    · exact absurd hres (hno e hF)
  refine ⟨heq, ?_⟩
  rw [← heq]
  rcases r1 with ⟨hp, hres⟩ | ⟨e1, hG1, hres⟩
  · obtain ⟨e1, hD⟩ := PR_IRel hp
    left
    have : Parser.parse (envT w T) inp last p = Parser.parse (envT (w2) T) inp last p := Prod.ext e1 hres
    exact ⟨by rw [this, h2], hD⟩
  · exact Or.inr ⟨e1, hG1, hres⟩

/-- **hypothesis about the runs over `c2`**: after every usable prefix, for the next `write` (any chunk) and for `end`,
the guarded parse is the unguarded one and returns no guard error -/
def GuardFreeT (w : World γ) (T : SinkOps (Disp γ) → SinkOps (Disp γ)) (F : Err → Prop) (g : γ) (cfg : Settings) : Prop :=
  ∀ pre, (writeAll w (Rewriter.new w g cfg) pre).1.poisoned = false →
    (∀ data s1 chunk, (writeAll w (Rewriter.new w g cfg) pre).1.stream.chunkFor w data = .inr (s1, chunk) →
      Parser.parse (envT w T) chunk false s1.parser = Parser.parse w.env chunk false s1.parser ∧
      ∀ e, F e → (Parser.parse w.env chunk false s1.parser).2 ≠ .error e) ∧
    (Parser.parse (envT w T)
        (if (writeAll w (Rewriter.new w g cfg) pre).1.stream.hasBuffered
          then (writeAll w (Rewriter.new w g cfg) pre).1.stream.buf.data else []) true
        (writeAll w (Rewriter.new w g cfg) pre).1.stream.parser =
      Parser.parse w.env
        (if (writeAll w (Rewriter.new w g cfg) pre).1.stream.hasBuffered
          then (writeAll w (Rewriter.new w g cfg) pre).1.stream.buf.data else []) true
        (writeAll w (Rewriter.new w g cfg) pre).1.stream.parser ∧
      ∀ e, F e → (Parser.parse w.env
        (if (writeAll w (Rewriter.new w g cfg) pre).1.stream.hasBuffered
          then (writeAll w (Rewriter.new w g cfg) pre).1.stream.buf.data else []) true
        (writeAll w (Rewriter.new w g cfg) pre).1.stream.parser).2 ≠ .error e)

section
variable (h : CtlRelT w c2 T Inv G)
include h

theorem bail_eqT : Stream.bail w = Stream.bail (w2) := by
  funext s e sl
  unfold Stream.bail Disp.runBailOut
  show (if s.shouldBailOutFor e = true then _ else _) = (if s.shouldBailOutFor e = true then _ else _)
  rw [show (w2).ctl.bailOut = w.ctl.bailOut from h.bail.symm]

theorem chunkFor_eqT : Stream.chunkFor w = Stream.chunkFor (w2) := by
  funext s data
  unfold Stream.chunkFor
  rw [bail_eqT h]

theorem keepTail_eqT : Stream.keepTail w = Stream.keepTail (w2) := by
  funext s data chunk consumed
  unfold Stream.keepTail
  rw [bail_eqT h]

variable (hreal : ∀ inp, RelE.OpsRelE (T (dispOps w.ctl)) (dispOps w.ctl) inp (fun a b => a = b) F)
variable (ht : EmitsChecked w.tbl = true) (hpan : ∀ e, F e → ∃ s, e = .panic s)
include hreal ht hpan

/-- **`TransformStream::write`** -/
theorem write_relT (s : Stream γ) (data : Bytes) (hd : Inv s.disp)
    (hg : ∀ s1 chunk, s.chunkFor (w2) data = .inr (s1, chunk) →
      Parser.parse (envT (w2) T) chunk false s1.parser = Parser.parse (w2).env chunk false s1.parser ∧
      ∀ e, F e → (Parser.parse (w2).env chunk false s1.parser).2 ≠ .error e) :
    (s.write w data = s.write (w2) data ∧ ((s.write w data).2 = .ok () → Inv (s.write w data).1.disp)) ∨
    ∃ e, G e ∧ (s.write w data).2 = .error (RelE.parseErr e) := by
  unfold Stream.write
  rw [← chunkFor_eqT h, ← keepTail_eqT h, ← bail_eqT h]
  cases hcf : s.chunkFor w data with
  | inl s' => exact Or.inl ⟨rfl, fun hh => by cases hh⟩
  | inr sc =>
    obtain ⟨s1, chunk⟩ := sc
    obtain ⟨c1, c2', c3, c4, c5⟩ := Stream.chunkFor_inr hcf
    dsimp only
    have hd1 : Inv s1.parser.x.sink := by rw [c2']; exact hd
    obtain ⟨g1, g2⟩ := hg s1 chunk (by rw [← chunkFor_eqT h]; exact hcf)
    obtain ⟨_, hres⟩ := parse_relT h hreal ht hpan chunk false s1.parser hd1 g1 g2
    rcases hres with ⟨he, hD⟩ | ⟨e, hGe, he⟩
    · have he' : s1.parser.parse w.env chunk false = s1.parser.parse (w2).env chunk false := he
      rw [← he']
      refine Or.inl ⟨rfl, ?_⟩
      cases hpr : (s1.parser.parse w.env chunk false).2 with
      | error e => intro hh; cases hh
      | ok consumed =>
        dsimp only
        cases hfl : Disp.flushRemaining (Stream.disp { s1 with parser := (s1.parser.parse w.env chunk false).1 }) chunk consumed with
        | error e => intro hh; cases hh
        | ok d =>
          dsimp only
          intro hk
          rw [Chunk.R.keepTail_ok_disp hk]
          exact h.flush _ _ _ _ hfl hD
    · right
      refine ⟨e, hGe, ?_⟩
      have he' : (s1.parser.parse w.env chunk false).2 = .error (RelE.parseErr e) := he
      rw [he']

/-- **`TransformStream::end`** -/
theorem end_relT (s : Stream γ) (hd : Inv s.disp)
    (hg : Parser.parse (envT (w2) T) (if s.hasBuffered then s.buf.data else []) true s.parser =
        Parser.parse (w2).env (if s.hasBuffered then s.buf.data else []) true s.parser ∧
      ∀ e, F e → (Parser.parse (w2).env (if s.hasBuffered then s.buf.data else []) true s.parser).2 ≠ .error e) :
    s.end w = s.end (w2) ∨ ∃ e', LexE.GE G e' ∧ (s.end w).2 = .error e' := by
  unfold Stream.end
  rw [← bail_eqT h]
  dsimp only
  obtain ⟨_, hres⟩ := parse_relT h hreal ht hpan (if s.hasBuffered then s.buf.data else []) true s.parser hd hg.1 hg.2
  rcases hres with ⟨he, hD⟩ | ⟨e, hG, he⟩
  · have he' : s.parser.parse w.env (if s.hasBuffered then s.buf.data else []) true =
        s.parser.parse (w2).env (if s.hasBuffered then s.buf.data else []) true := he
    rw [← he']
    cases hpr : (s.parser.parse w.env (if s.hasBuffered then s.buf.data else []) true).2 with
    | error e => exact Or.inl rfl
    | ok consumed =>
      dsimp only
      unfold Disp.finish
      cases hfl : (Stream.disp { s with parser := (s.parser.parse w.env (if s.hasBuffered then s.buf.data else []) true).1 }).flushRemaining
          (if s.hasBuffered then s.buf.data else []) (if s.hasBuffered then s.buf.data else []).length with
      | error e => exact Or.inl rfl
      | ok d =>
        simp only [DRes.ofExcept, DRes.bind]
        rcases h.handleEnd d (h.flush _ _ _ _ hfl hD) with heq | ⟨e, hG, hee⟩
        · have heq' : w.ctl.handleEnd d.ctl = (w2).ctl.handleEnd d.ctl := heq
          rw [← heq']
          exact Or.inl rfl
        · right
          rw [hee]
          exact ⟨e, ⟨e, hG, Or.inl rfl⟩, rfl⟩
  · right
    have he' : (s.parser.parse w.env (if s.hasBuffered then s.buf.data else []) true).2 = .error (RelE.parseErr e) := he
    rw [he']
    exact ⟨_, ⟨e, hG, Or.inr rfl⟩, rfl⟩

/-- **`write* ; end`**, the guard hypothesis being about the runs over `c2` -/
theorem run_relT (g : γ) (cfg : Settings) (hI : Inv (Disp.new w.ctl g cfg.encoding)) (hgf : GuardFreeT (w2) T F g cfg)
    (cs : List Bytes) :
    ∀ x ∈ (run w (Rewriter.new w g cfg) cs).2, LexE.CallE G (run (w2) (Rewriter.new (w2) g cfg) cs).2 x := by
  have hnew : Rewriter.new w g cfg = Rewriter.new (w2) g cfg := by
    unfold Rewriter.new Stream.new Disp.new
    show _ = ({ stream := _ } : Rewriter γ)
    simp only [Chunk.R.World.withCtl]
    rw [h.initial g]
    rfl
  have key : ∀ (cs pre : List Bytes),
      (writeAll (w2) (Rewriter.new (w2) g cfg) pre).1 = (writeAll w (Rewriter.new w g cfg) pre).1 →
      ((writeAll w (Rewriter.new w g cfg) pre).1.poisoned = true ∨ Inv (writeAll w (Rewriter.new w g cfg) pre).1.stream.disp) →
      ((writeAll w (writeAll w (Rewriter.new w g cfg) pre).1 cs = writeAll (w2) (writeAll w (Rewriter.new w g cfg) pre).1 cs ∧
          (writeAll (w2) (Rewriter.new (w2) g cfg) (pre ++ cs)).1 = (writeAll w (Rewriter.new w g cfg) (pre ++ cs)).1 ∧
          ((writeAll w (Rewriter.new w g cfg) (pre ++ cs)).1.poisoned = true ∨
            Inv (writeAll w (Rewriter.new w g cfg) (pre ++ cs)).1.stream.disp)) ∨
        (writeAll w (writeAll w (Rewriter.new w g cfg) pre).1 cs).1.poisoned = true) ∧
      ∀ x ∈ (writeAll w (writeAll w (Rewriter.new w g cfg) pre).1 cs).2,
        LexE.CallE G (writeAll (w2) (writeAll w (Rewriter.new w g cfg) pre).1 cs).2 x := by
    intro cs
    induction cs with
    | nil => intro pre he hr; exact ⟨Or.inl ⟨rfl, by simpa using he, by simpa using hr⟩, fun x hx => by cases hx⟩
    | cons c cs ih =>
      intro pre he2 hr
      have hsn := writeAll_snoc w (Rewriter.new w g cfg) pre c
      have hsn2 := writeAll_snoc (w2) (Rewriter.new (w2) g cfg) pre c
      have hpc : pre ++ c :: cs = (pre ++ [c]) ++ cs := by simp
      simp only [writeAll]
      have hg0 := hgf pre
      rw [he2] at hg0 hsn2
      generalize hrr : (writeAll w (Rewriter.new w g cfg) pre).1 = r at hr hsn hsn2 hg0 ⊢
      have hstep : (r.write w c = r.write (w2) c ∧ ((r.write w c).1.poisoned = true ∨ Inv (r.write w c).1.stream.disp)) ∨
          ((r.write w c).1.poisoned = true ∧ ∃ e', LexE.GE G e' ∧ (r.write w c).2 = .err e') := by
        unfold Rewriter.write
        by_cases hp : r.poisoned = true
        · rw [if_pos hp, if_pos hp]
          exact Or.inl ⟨rfl, Or.inl hp⟩
        · rw [if_neg hp, if_neg hp]
          have hd : Inv r.stream.disp := hr.resolve_left hp
          have hg := (hg0 (by simpa using hp)).1 c
          rcases write_relT h hreal ht hpan r.stream c hd hg with ⟨he, hok⟩ | ⟨e, hG, he⟩
          · rw [← he]
            refine Or.inl ⟨rfl, ?_⟩
            dsimp only
            cases hres : (r.stream.write w c).2 with
            | ok u => exact Or.inr (hok hres)
            | error e => exact Or.inl rfl
          · right
            dsimp only
            rw [he]
            exact ⟨rfl, _, ⟨e, hG, Or.inr rfl⟩, rfl⟩
      rcases hstep with ⟨he, hr'⟩ | ⟨hp, e', hGE, he⟩
      · rw [← he]
        have := ih (pre ++ [c]) (by rw [hsn, hsn2, he]) (by rw [hsn]; exact hr')
        rw [hsn] at this
        obtain ⟨i1, i2⟩ := this
        refine ⟨?_, fun x hx => ?_⟩
        · rcases i1 with ⟨j1, j2, j3⟩ | j
          · exact Or.inl ⟨by rw [j1], by rw [hpc]; exact j2, by rw [hpc]; exact j3⟩
          · exact Or.inr j
        · rcases List.mem_cons.mp hx with rfl | hx
          · exact Or.inl List.mem_cons_self
          · rcases i2 x hx with k | k | k
            · exact Or.inl (List.mem_cons_of_mem _ k)
            · exact Or.inr (Or.inl k)
            · exact Or.inr (Or.inr k)
      · obtain ⟨i1, i2⟩ := LexE.writeAll_poisoned_res (w := w) cs _ hp
        refine ⟨Or.inr i1, fun x hx => ?_⟩
        rcases List.mem_cons.mp hx with rfl | hx
        · exact Or.inr (Or.inr ⟨e', hGE, he⟩)
        · exact Or.inr (Or.inl (i2 x hx))
  obtain ⟨i1, i2⟩ := key cs [] (by simp only [writeAll]; exact hnew.symm)
    (Or.inr (by simpa [writeAll, Rewriter.new, Stream.new, Stream.disp, Parser.new] using hI))
  simp only [writeAll, List.nil_append] at i1 i2
  intro x hx
  unfold LexE.CallE
  simp only [run, List.mem_append, List.mem_singleton] at hx ⊢
  rw [← hnew]
  rcases hx with hx | hx
  · rcases i2 x hx with k | k | k
    · exact Or.inl (Or.inl k)
    · exact Or.inr (Or.inl k)
    · exact Or.inr (Or.inr k)
  · subst hx
    rcases i1 with ⟨j1, j2, j3⟩ | j
    · rw [← j1]
      by_cases hp : (writeAll w (Rewriter.new w g cfg) cs).1.poisoned = true
      · right; left
        unfold Rewriter.end
        rw [if_pos hp]
      · have hd := j3.resolve_left hp
        have hg := (hgf cs (by rw [j2]; simpa using hp)).2
        rw [j2] at hg
        unfold Rewriter.end
        rw [if_neg hp, if_neg hp]
        dsimp only
        rcases end_relT h hreal ht hpan _ hd hg with he | ⟨e', hGE, he⟩
        · rw [← he]
          exact Or.inl (Or.inr rfl)
        · rw [he]
          exact Or.inr (Or.inr ⟨e', hGE, rfl⟩)
    · right; left
      unfold Rewriter.end
      rw [if_pos j]

end

end LolHtml.Model.RelI
