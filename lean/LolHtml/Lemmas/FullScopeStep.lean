/-
Package `full`: closed forms of the event driver (`Model/FullEvents.lean`) and its simulation by package
scope's `Controller.step`.
-/
import LolHtml.Model.FullEvents
import LolHtml.Lemmas.FullScope

namespace LolHtml.Model.Full
open LolHtml LolHtml.Model LolHtml.Model.Handlers LolHtml.EditModel LolHtml.Lemmas.Full

/-- the tag as package selvm sees it -/
def selTag (name : LocalName) (ns : Model.Ns) (aux : SelVM.AuxStartTagInfo) : Sel.StartTag :=
  ⟨nameBytes name, nsConv ns, aux.attrs, aux.selfClosing⟩

/-- state after a successful start phase -/
def afterStart (s : St) (vm vm' : SelVM.Vm) (d : Dispatcher) : St :=
  { s with ord := s.ord + 1, disp := d, vm := some vm', pending := none,
           descs := if vm'.stack.items.length > vm.stack.items.length
                    then s.descs ++ [{ ord := s.ord + 1 }] else s.descs }

/-- **start phase in closed form**: `handle_start_tag` (+ the aux-info continuation) is
`SelVM.Vm.handleStartTag` on the tag with the attributes handed over, then `start_matching` for
every reported match, then the capture flags. -/
theorem startPhase_spec (s : St) (vm : SelVM.Vm) (hf : s.fault = none) (hv : s.vm = some vm)
    (name : LocalName) (ns : Model.Ns) (info : AuxInfo) (aux : SelVM.AuxStartTagInfo) (ha : auxConv info = some aux) :
    match vm.handleStartTag (selTag name ns aux) with
    | .error _ => (startPhase s name ns info).2 = .error (.panic vmMsg)
    | .ok (vm', ms) =>
      match startMatchingInfos s.disp ms with
      | .error _ => (startPhase s name ns info).2 = .error (.panic dispMsg)
      | .ok d => startPhase s name ns info = (afterStart s vm vm' d, .ok (convFlags d.getTokenCaptureFlags)) := by
  unfold startPhase startTag
  simp only [hf]
  unfold startTagCore
  simp only [hv]
  have hbind : vm.handleStartTag (selTag name ns aux) =
      (vm.execForStartTag (nameBytes name) (nsConv ns) >>= fun o =>
        match o with
        | .done vm ms => pure (vm, ms)
        | .infoRequest vm req => req.resume vm ⟨aux.attrs, aux.selfClosing⟩) := by
    unfold SelVM.Vm.handleStartTag selTag
    rfl
  rw [hbind]
  cases he : vm.execForStartTag (nameBytes name) (nsConv ns) with
  | error p => simp [bind, Except.bind, vmErr]
  | ok o =>
    cases o with
    | done vm2 ms2 =>
      simp only [bind, Except.bind, pure, Except.pure]
      unfold St.afterVm
      cases hm : startMatchingInfos s.disp ms2 with
      | error p => simp [dispErr]
      | ok d => simp [afterStart, St.flags, hf]
    | infoRequest vm1 req =>
      simp only [bind, Except.bind]
      have hlen : vm1.stack.items.length = vm.stack.items.length := by
        rcases execForStartTag_shape _ _ _ _ he with ⟨_, _, ho, _⟩ | ⟨v, r, ho, hl⟩
        · cases ho
        · cases ho; exact hl
      unfold auxInfo
      simp only [ha]
      cases hr : req.resume vm1 aux with
      | error p => simp [vmErr]
      | ok r =>
        obtain ⟨vm', ms⟩ := r
        simp only
        unfold St.afterVm
        cases hm : startMatchingInfos s.disp ms with
        | error p => simp [dispErr]
        | ok d => simp [afterStart, St.flags, hlen, hf]

theorem startPhase_novm (s : St) (hf : s.fault = none) (hv : s.vm = none) (name : LocalName) (ns : Model.Ns)
    (info : AuxInfo) : startPhase s name ns info = ({ s with ord := s.ord + 1 }, .ok s.flags) := by
  unfold startPhase startTag
  simp only [hf]
  unfold startTagCore
  simp [hv, St.flags]

/-- the `ElemAct`s of the element-handler invocations at this start tag -/
def scriptOf (cfg : Cfg) (s : St) : ElemScript :=
  fun h _ => elemActOf s.disp.nextElementCanHaveContent (cyc (cfg.elementScripts h) (invGet s.inv (kElement, h))).1

/-- **start-tag token in closed form** (no failing closure, no panic branch). -/
theorem tokStartTag_ok (cfg : Cfg) (s : St) (name : Bytes) (attrs : List (Bytes × Bytes × AttrOutline)) (ns : Model.Ns)
    (sc : Bool) (raw : Bytes) (src : Range) (base : Nat)
    (he : (tokStartTag cfg s name attrs ns sc raw src base).2.err = none) :
    ∃ d desc inv, s.disp.handleStartTag (scriptOf cfg s) s.ord s.currentElementData = .ok (d, desc, inv) ∧
      (tokStartTag cfg s name attrs ns sc raw src base).1.disp = d ∧
      (tokStartTag cfg s name attrs ns sc raw src base).1.vm = s.vm ∧
      (tokStartTag cfg s name attrs ns sc raw src base).1.descs = writeBack s.descs desc ∧
      (tokStartTag cfg s name attrs ns sc raw src base).1.ord = s.ord ∧
      (tokStartTag cfg s name attrs ns sc raw src base).1.fault = s.fault := by
  unfold tokStartTag at he ⊢
  split
  · rename_i hb
    rw [if_pos hb] at he
    split
    · rename_i hm; simp [hm] at he
    · rename_i as hm
      simp only [hm] at he
      dsimp only at he ⊢
      generalize (if 0 < s.disp.removedContent then
        StartTag.apply { name := name, attributes := as, ns := nsEdit ns, selfClosing := sc, raw := raw } (StartTagOp.mut MutOp.remove)
        else { name := name, attributes := as, ns := nsEdit ns, selfClosing := sc, raw := raw }) = st at he ⊢
      obtain ⟨fd, _, fv, fde, fo, ff⟩ := runClosures_frame cfg.elementScripts kElement Who.element (seeElement ns)
        Element.applyOps src s.disp.element.forEachActive s (Element.new st s.disp.nextElementCanHaveContent)
      generalize runClosures cfg.elementScripts kElement Who.element (seeElement ns) Element.applyOps src
          s.disp.element.forEachActive s (Element.new st s.disp.nextElementCanHaveContent) = r at he fd fv fde fo ff ⊢
      have hcur : r.1.currentElementData = s.currentElementData := by
        unfold St.currentElementData; rw [fv, fde]
      split
      · rename_i hfail; simp [hfail] at he
      · rename_i hfail
        simp only [hfail] at he
        split
        · rename_i hh; simp [hh] at he
        · rename_i d desc inv hh
          refine ⟨d, desc, inv, ?_, rfl, fv, ?_, fo, ff⟩
          · rw [fd, fo, hcur] at hh
            exact hh
          · show writeBack r.1.descs desc = _
            rw [fde]
  · rename_i hb
    rw [if_neg hb] at he
    simp at he

/-- **end-tag token in closed form** -/
theorem tokEndTag_ok (s : St) (name raw : Bytes) (src : Range) (he : (tokEndTag s name raw src).2.err = none) :
    ∃ et hs, s.disp.endTag.doForEachActiveAndRemoveTail = .ok (et, hs) ∧
      (tokEndTag s name raw src).1.disp = { s.disp with endTag := et } ∧
      (tokEndTag s name raw src).1.vm = s.vm ∧ (tokEndTag s name raw src).1.descs = s.descs ∧
      (tokEndTag s name raw src).1.ord = s.ord ∧ (tokEndTag s name raw src).1.fault = s.fault := by
  unfold tokEndTag at he ⊢
  split
  · rename_i hh; simp [hh] at he
  · rename_i et hs het
    simp only [het] at he
    dsimp only at he ⊢
    split
    · rename_i hr; simp [hr] at he
    · rename_i s' t' hr
      have key : ∀ (hs : List EndTagH) (s0 s1 : St) (t0 t1 : EndTag),
          runEndTagHandlers src hs s0 t0 = some (s1, t1) →
            s1.disp = s0.disp ∧ s1.vm = s0.vm ∧ s1.descs = s0.descs ∧ s1.ord = s0.ord ∧ s1.fault = s0.fault := by
        intro hs
        induction hs with
        | nil =>
          intro s0 s1 t0 t1 h
          simp only [runEndTagHandlers, Option.some.injEq, Prod.mk.injEq] at h
          rw [← h.1]; exact ⟨rfl, rfl, rfl, rfl, rfl⟩
        | cons x xs ih =>
          intro s0 s1 t0 t1 h
          simp only [runEndTagHandlers] at h
          split at h
          · simp at h
          · rename_i p _
            obtain ⟨a1, a2, a3, a4, a5⟩ := ih _ _ _ _ h
            have user : ∀ (user : List (List EndTagOp)) (subs : List (HId × Nat)) (s2 : St) (t2 : EndTag),
                (runEndTagUser src subs user s2 t2).1.disp = s2.disp ∧ (runEndTagUser src subs user s2 t2).1.vm = s2.vm ∧
                (runEndTagUser src subs user s2 t2).1.descs = s2.descs ∧ (runEndTagUser src subs user s2 t2).1.ord = s2.ord ∧
                (runEndTagUser src subs user s2 t2).1.fault = s2.fault := by
              intro user
              induction user with
              | nil => intro subs s2 t2; cases subs <;> exact ⟨rfl, rfl, rfl, rfl, rfl⟩
              | cons o os ih2 =>
                intro subs s2 t2
                cases subs with
                | nil => simpa [runEndTagUser] using ih2 [] s2 _
                | cons sb sbs => simpa [runEndTagUser] using ih2 sbs _ _
            simp only [runEndTagHandler] at a1 a2 a3 a4 a5
            obtain ⟨b1, b2, b3, b4, b5⟩ := user p.handler.user x.subs s0 _
            exact ⟨a1.trans b1, a2.trans b2, a3.trans b3, a4.trans b4, a5.trans b5⟩
      obtain ⟨a1, a2, a3, a4, a5⟩ := key _ _ _ _ _ hr
      exact ⟨et, hs, het, a1, a2, a3, a4, a5⟩

/-- text / comment / doctype tokens change neither the dispatcher nor the VM -/
theorem tokOther_frame (cfg : Cfg) (s : St) (tok : Model.Token) (hk : (CtlEv.other tok).WellKinded) (hf : s.fault = none) :
    (token cfg s tok).1.disp = s.disp ∧ (token cfg s tok).1.vm = s.vm ∧ (token cfg s tok).1.descs = s.descs ∧
    (token cfg s tok).1.ord = s.ord ∧ (token cfg s tok).1.fault = s.fault := by
  have hf' := hf
  unfold token
  simp only [hf]
  rw [← hf']
  cases tok with
  | startTag => simp [CtlEv.WellKinded] at hk
  | endTag => simp [CtlEv.WellKinded] at hk
  | comment text raw src =>
    simp only [tokComment]
    obtain ⟨a, _, b, c, d, e⟩ := runClosures_frame cfg.commentScripts kComment Who.comment seeComment Comment.applyOps
      src s.disp.comment.forEachActive s ({ text := text, raw := raw } : Comment)
    exact ⟨a, b, c, d, e⟩
  | doctype name publicId systemId fq raw src =>
    simp only [tokDoctype]
    obtain ⟨a, _, b, c, d, e⟩ := runClosures_frame cfg.doctypeScripts kDoctype Who.doctype
      (fun _ => Seen.doctype (name.map asciiLowerBytes) publicId systemId) Doctype.applyOps src
      s.disp.doctype.forEachActive s ({ raw := raw } : Doctype)
    exact ⟨a, b, c, d, e⟩
  | text bytes tt last src =>
    simp only [tokText]
    obtain ⟨a, _, b, c, d, e⟩ := runClosures_frame cfg.textScripts kText Who.text seeText TextChunk.applyOps src
      s.disp.text.forEachActive s ({ text := bytes, lastInTextNode := last } : TextChunk)
    exact ⟨a, b, c, d, e⟩

/-! ## Simulation by package scope's `Controller.step` -/

/-- package scope's state for a state of the real controller -/
def scopeState (s : St) : Controller.State := { ctrl := toScope s, flags := s.disp.getTokenCaptureFlags }

theorem toScope_congr {s s' : St} (h1 : s'.disp = s.disp) (h2 : s'.vm = s.vm) (h3 : s'.descs = s.descs) :
    toScope s' = toScope s := by
  unfold toScope; rw [h1, h2, h3]

theorem scopeState_congr {s s' : St} (h1 : s'.disp = s.disp) (h2 : s'.vm = s.vm) (h3 : s'.descs = s.descs) :
    scopeState s' = scopeState s := by
  unfold scopeState; rw [toScope_congr h1 h2 h3, h1]

theorem handleStartTag_desc_matched {d d' : Dispatcher} (script : ElemScript) (ord : Nat)
    (cur : Option ElementDescriptor) {desc : Option ElementDescriptor} {inv : List Invocation}
    (hr : d.handleStartTag script ord cur = .ok (d', desc, inv)) :
    ∀ x c, desc = some x → cur = some c → x.matched = c.matched := by
  intro x c hx hc
  unfold Dispatcher.handleStartTag at hr
  split at hr
  · simp at hr
  · dsimp only at hr
    subst hc
    split at hr
    · simp only at hr
      split at hr
      · simp only [Except.ok.injEq, Prod.mk.injEq] at hr
        rw [← hr.2.1] at hx
        simp only [Option.some.injEq] at hx
        rw [← hx]
        split <;> rfl
      · simp only [Except.ok.injEq, Prod.mk.injEq] at hr
        rw [← hr.2.1] at hx
        simp only [Option.some.injEq] at hx
        rw [← hx]
        split <;> rfl
    · simp only [Except.ok.injEq, Prod.mk.injEq] at hr
      rw [← hr.2.1] at hx
      simp only [Option.some.injEq] at hx
      rw [hx]

theorem handleStartTag_flags {d d' : Dispatcher} (hw : DispWf d) (script : ElemScript) (ord : Nat)
    (cur : Option ElementDescriptor) {desc : Option ElementDescriptor} {inv : List Invocation}
    (hr : d.handleStartTag script ord cur = .ok (d', desc, inv)) :
    d'.getTokenCaptureFlags = { d.getTokenCaptureFlags with nextStartTag := false } := by
  unfold Dispatcher.handleStartTag at hr
  split at hr
  · simp at hr
  · rename_i el invoked hel
    have hel0 : el.hasActive = false := by
      rw [hw.element.eq_mk, Lemmas.Scope.deactivate_mk] at hel
      simp only [Except.ok.injEq, Prod.mk.injEq] at hel
      rw [← hel.1]
      simp only [HandlerVec.hasActive, Lemmas.Scope.mk, List.map_map, decide_eq_false_iff_not, Nat.not_lt,
        Nat.le_zero_eq]
      apply Lemmas.Scope.sum_zero_of_all_zero
      intro x hx
      obtain ⟨it, _, rfl⟩ := List.mem_map.1 hx
      rfl
    have hel0' : el.userCount = 0 := by simpa [HandlerVec.hasActive] using hel0
    dsimp only at hr
    split at hr
    · split at hr
      · split at hr
        · simp only [Except.ok.injEq, Prod.mk.injEq] at hr
          rw [← hr.1]
          simp [Dispatcher.getTokenCaptureFlags, hel0', HandlerVec.hasActive, HandlerVec.push]
        · simp only [Except.ok.injEq, Prod.mk.injEq] at hr
          rw [← hr.1]
          simp [Dispatcher.getTokenCaptureFlags, hel0]
      · simp only [Except.ok.injEq, Prod.mk.injEq] at hr
        rw [← hr.1]
        simp [Dispatcher.getTokenCaptureFlags, hel0]
    · simp only [Except.ok.injEq, Prod.mk.injEq] at hr
      rw [← hr.1]
      simp [Dispatcher.getTokenCaptureFlags, hel0]

theorem removeTail_inactive {α : Type} {v v' : HandlerVec α} {inv : List α}
    (hr : v.doForEachActiveAndRemoveTail = .ok (v', inv)) : v'.hasActive = false := by
  unfold HandlerVec.doForEachActiveAndRemoveTail at hr
  split at hr
  · split at hr
    · rename_i h0
      simp only [Except.ok.injEq, Prod.mk.injEq] at hr
      rw [← hr.1]; simp [HandlerVec.hasActive, h0]
    · simp at hr
  · split at hr
    · simp at hr
    · split at hr
      · rename_i ht
        simp only [Except.ok.injEq, Prod.mk.injEq] at hr
        rw [← hr.1]; simp [HandlerVec.hasActive, ht]
      · simp at hr

/-- the tail of a start-tag event: the start-tag token iff NEXT_START_TAG -/
theorem startTok_refines (cfg : Cfg) (s1 : St) (hf : s1.fault = none) (hs : Sync s1) (hw : DispWf s1.disp)
    (name : Bytes) (attrs : List (Bytes × Bytes × AttrOutline)) (ns : Model.Ns) (sc : Bool) (raw : Bytes)
    (src : Range) (base : Nat)
    (hok : (tokIf cfg s1.flags.nextStartTag s1 (.startTag name attrs ns sc raw src base)).2 = none) :
    ∃ invs,
      (if s1.disp.getTokenCaptureFlags.nextStartTag then
        (match (toScope s1).disp.handleStartTag (scriptOf cfg s1) s1.ord (toScope s1).currentElementData with
         | .error e => (.error e : Except Handlers.Panic (Controller.State × List Invocation))
         | .ok (d, desc, inv) =>
           .ok ({ ctrl := { disp := d, vm := Controller.writeBack (toScope s1).vm desc },
                  flags := { s1.disp.getTokenCaptureFlags with nextStartTag := false } }, inv))
       else .ok ({ ctrl := toScope s1, flags := s1.disp.getTokenCaptureFlags }, [])) =
      .ok (scopeState (tokIf cfg s1.flags.nextStartTag s1 (.startTag name attrs ns sc raw src base)).1, invs) := by
  have hbit : s1.flags.nextStartTag = s1.disp.getTokenCaptureFlags.nextStartTag := rfl
  unfold tokIf at hok ⊢
  rw [hbit] at hok ⊢
  cases hb : s1.disp.getTokenCaptureFlags.nextStartTag with
  | false => exact ⟨[], by simp [scopeState]⟩
  | true =>
    simp only [hb, if_true] at hok ⊢
    have htok : token cfg s1 (.startTag name attrs ns sc raw src base) = tokStartTag cfg s1 name attrs ns sc raw src base := by
      unfold token; simp [hf]
    rw [htok] at hok ⊢
    obtain ⟨d, desc, inv, hh, e1, e2, e3, _, _⟩ := tokStartTag_ok cfg s1 name attrs ns sc raw src base hok
    refine ⟨inv, ?_⟩
    have hcur := toScope_currentElementData s1 hs
    have hdisp : (toScope s1).disp = s1.disp := rfl
    rw [hdisp, hcur, hh]
    simp only
    congr 1
    unfold scopeState
    have hwb := toScope_writeBack s1 hs desc (fun x c hx hc => handleStartTag_desc_matched _ _ _ hh x c hx hc)
    rw [hwb]
    have hts : toScope (tokStartTag cfg s1 name attrs ns sc raw src base).1 =
        { disp := d, vm := (toScope { s1 with descs := writeBack s1.descs desc }).vm } := by
      unfold toScope
      rw [e1, e2, e3]
    rw [hts, e1, handleStartTag_flags hw _ _ _ hh]

/-! ### the three kinds of events -/

/-- the start-tag event package scope sees: lower-cased name, a stack directive with the VM's
`with_content`, the self-closing flag, the VM's match set -/
def scopeEvStart (vm : SelVM.Vm) (t : Sel.StartTag) (ms : List SelVM.MatchInfo) : Controller.Event :=
  .startTag (asciiLowerBytes t.name)
    (if Spec.Css.staysOpen t vm.enableEsiTags then .push else .popImmediately) t.selfClosing (ms.map (·.matchId))

theorem afterStart_sync (s : St) (vm vm' : SelVM.Vm) (d : Dispatcher) (hv : s.vm = some vm) (hs : Sync s)
    (t : Sel.StartTag) (ms : List SelVM.MatchInfo) (h : vm.handleStartTag t = .ok (vm', ms)) :
    Sync (afterStart s vm vm' d) := by
  obtain ⟨item, _, _, hitems⟩ := handleStartTag_closed h
  have hl : s.descs.length = vm.stack.items.length := by simpa [Sync, hv] using hs
  simp only [Sync, afterStart]
  rw [hitems]
  split
  · simp [incLast_length, hl]
  · simp [incLast_length, hl]

/-- **start-tag event** (a VM exists): simulated by `Controller.step` at ordinal `s.ord + 1`. -/
theorem start_refines (cfg : Cfg) (s : St) (vm : SelVM.Vm) (hf : s.fault = none) (hv : s.vm = some vm)
    (hs : Sync s) (hw : DispWf s.disp) (name : LocalName) (ns : Model.Ns) (info : AuxInfo)
    (aux : SelVM.AuxStartTagInfo) (ha : auxConv info = some aux)
    (nm : Bytes) (attrs : List (Bytes × Bytes × AttrOutline)) (ns' : Model.Ns) (sc : Bool) (raw : Bytes)
    (src : Range) (base : Nat)
    (hok : (ctlStep cfg s (.start name ns info (.startTag nm attrs ns' sc raw src base))).2 = none) :
    ∃ vm' ms d script invs, vm.handleStartTag (selTag name ns aux) = .ok (vm', ms) ∧
      startMatchingInfos s.disp ms = .ok d ∧
      Controller.step script (scopeState s) (s.ord + 1) (scopeEvStart vm (selTag name ns aux) ms) =
        .ok (scopeState (ctlStep cfg s (.start name ns info (.startTag nm attrs ns' sc raw src base))).1, invs) := by
  have spec := startPhase_spec s vm hf hv name ns info aux ha
  simp only [ctlStep] at hok ⊢
  cases hh : vm.handleStartTag (selTag name ns aux) with
  | error p =>
    rw [hh] at spec
    simp only at spec
    simp [spec] at hok
  | ok r =>
    obtain ⟨vm', ms⟩ := r
    rw [hh] at spec
    simp only at spec
    cases hm : startMatchingInfos s.disp ms with
    | error p =>
      rw [hm] at spec
      simp only at spec
      simp [spec] at hok
    | ok d =>
      rw [hm] at spec
      simp only at spec
      simp only [spec] at hok ⊢
      have hs1 : Sync (afterStart s vm vm' d) := afterStart_sync s vm vm' d hv hs _ _ hh
      have hw1 : DispWf (afterStart s vm vm' d).disp := (startMatchingInfos_good ms hm hw).1
      have hf1 : (afterStart s vm vm' d).fault = none := hf
      have hflags : (convFlags d.getTokenCaptureFlags).nextStartTag = (afterStart s vm vm' d).flags.nextStartTag := rfl
      rw [hflags] at hok ⊢
      obtain ⟨invs, hinv⟩ := startTok_refines cfg (afterStart s vm vm' d) hf1 hs1 hw1 nm attrs ns' sc raw src base hok
      refine ⟨vm', ms, d, scriptOf cfg (afterStart s vm vm' d), invs, rfl, hm, ?_⟩
      obtain ⟨matched, hms, heq⟩ := toScope_handleStartTag s vm vm' hv hs (selTag name ns aux) ms hh (s.ord + 1)
      have hmatched : ms.map (·.matchId) = matched := by rw [hms]; simp [Function.comp_def]
      unfold Controller.step scopeEvStart
      simp only [scopeState, hmatched]
      rw [heq, hm]
      simp only [Except.map]
      exact hinv

/-- **start-tag event** (no selectors, no VM) -/
theorem start_refines_novm (cfg : Cfg) (s : St) (hf : s.fault = none) (hv : s.vm = none)
    (hs : Sync s) (hw : DispWf s.disp) (name : LocalName) (ns : Model.Ns) (info : AuxInfo)
    (nm : Bytes) (attrs : List (Bytes × Bytes × AttrOutline)) (ns' : Model.Ns) (sc : Bool) (raw : Bytes)
    (src : Range) (base : Nat) (ev : Controller.Event)
    (hev : ∃ n dir c m, ev = .startTag n dir c m)
    (hok : (ctlStep cfg s (.start name ns info (.startTag nm attrs ns' sc raw src base))).2 = none) :
    ∃ script invs, Controller.step script (scopeState s) (s.ord + 1) ev =
        .ok (scopeState (ctlStep cfg s (.start name ns info (.startTag nm attrs ns' sc raw src base))).1, invs) := by
  obtain ⟨n, dir, c, m, rfl⟩ := hev
  simp only [ctlStep] at hok ⊢
  rw [startPhase_novm s hf hv] at hok ⊢
  simp only at hok ⊢
  have hs1 : Sync { s with ord := s.ord + 1 } := by unfold Sync at *; exact hs
  have hflags : s.flags.nextStartTag = ({ s with ord := s.ord + 1 } : St).flags.nextStartTag := rfl
  rw [hflags] at hok ⊢
  obtain ⟨invs, hinv⟩ := startTok_refines cfg { s with ord := s.ord + 1 } hf hs1 hw nm attrs ns' sc raw src base hok
  refine ⟨scriptOf cfg { s with ord := s.ord + 1 }, invs, ?_⟩
  simp only [Controller.step]
  have hh : (scopeState s).ctrl.handleStartTag (s.ord + 1) n dir c m = .ok (toScope { s with ord := s.ord + 1 }) := by
    simp [scopeState, toScope, Controller.Controller.handleStartTag, hv]
  rw [hh]
  exact hinv

/-- **end-tag event** -/
theorem end_refines (cfg : Cfg) (s : St) (hf : s.fault = none) (hs : Sync s) (hw : DispWf s.disp)
    (hpre : ∀ vm, s.vm = some vm → PreOk vm.stack) (name : LocalName) (nm raw : Bytes) (src : Range) (ord : Nat)
    (hok : (ctlStep cfg s (.end_ name (.endTag nm raw src))).2 = none)
    (hnf : (ctlStep cfg s (.end_ name (.endTag nm raw src))).1.fault = none) :
    ∃ script invs, Controller.step script (scopeState s) ord (.endTag (asciiLowerBytes (nameBytes name))) =
        .ok (scopeState (ctlStep cfg s (.end_ name (.endTag nm raw src))).1, invs) := by
  refine ⟨fun _ _ => ⟨0, false, false⟩, ?_⟩
  simp only [ctlStep] at hok hnf ⊢
  -- the controller part
  have hctl : ∃ s1, endTag s name = (s1, s1.flags) ∧ s1.fault = none ∧ DispWf s1.disp ∧
      (scopeState s).ctrl.handleEndTag (asciiLowerBytes (nameBytes name)) = .ok (toScope s1) := by
    have hfault_frame : ∀ (b : Bool) (s1 : St) (t : Model.Token), s1.fault ≠ none → (tokIf cfg b s1 t).1.fault ≠ none := by
      intro b s1 t h1
      unfold tokIf
      split
      · unfold token
        cases hfa : s1.fault with
        | none => exact absurd hfa h1
        | some m => simp [hfa]
      · exact h1
    unfold endTag at hnf ⊢
    cases hv : s.vm with
    | none =>
      refine ⟨s, by simp [hv], hf, hw, ?_⟩
      simp [scopeState, toScope, Controller.Controller.handleEndTag, hv]
    | some vm =>
      simp only [hv] at hnf ⊢
      cases he : vm.execForEndTag (nameBytes name) with
      | error p =>
        simp only [he] at hnf
        exact absurd hnf (hfault_frame _ _ _ (by simp))
      | ok r =>
        obtain ⟨vm', popped⟩ := r
        simp only [he] at hnf ⊢
        obtain ⟨hle, heq⟩ := toScope_handleEndTag s vm vm' hv hs (hpre vm hv) (nameBytes name) popped he
        simp only [hle, if_true] at hnf ⊢
        cases hsm : stopMatchingPopped s.disp popped (s.descs.drop (s.descs.length - popped.length)) with
        | error p =>
          simp only [hsm] at hnf
          exact absurd hnf (hfault_frame _ _ _ (by simp))
        | ok d =>
          simp only [hsm]
          refine ⟨_, rfl, hf, (stopMatchingPopped_good _ _ hsm hw).1, ?_⟩
          show (toScope s).handleEndTag _ = _
          rw [heq, hsm]
          rfl
  obtain ⟨s1, he1, hf1, hw1, hsc⟩ := hctl
  rw [he1] at hok hnf ⊢
  simp only at hok hnf ⊢
  simp only [Controller.step]
  rw [hsc]
  simp only
  have hbit : s1.flags.nextEndTag = (toScope s1).disp.getTokenCaptureFlags.nextEndTag := rfl
  rw [← hbit]
  unfold tokIf at hok ⊢
  cases hb : s1.flags.nextEndTag with
  | false => exact ⟨[], by simp [scopeState, toScope]⟩
  | true =>
    simp only [hb, if_true] at hok ⊢
    have htok : token cfg s1 (.endTag nm raw src) = tokEndTag s1 nm raw src := by
      unfold token; simp [hf1]
    rw [htok] at hok ⊢
    obtain ⟨et, hs', het, e1, e2, e3, _, _⟩ := tokEndTag_ok s1 nm raw src hok
    unfold Dispatcher.handleEndTagToken
    have hdisp : (toScope s1).disp = s1.disp := rfl
    rw [hdisp, het]
    refine ⟨hs'.flatMap fun h => h.subs.map fun (p : HId × Nat) => Invocation.endTag p.1 p.2 h.ord ord, ?_⟩
    simp only
    congr 1
    unfold scopeState
    have hts : toScope (tokEndTag s1 nm raw src).1 = { toScope s1 with disp := { s1.disp with endTag := et } } := by
      unfold toScope; rw [e1, e2, e3]
    rw [hts, e1]
    congr 1
    simp [Dispatcher.getTokenCaptureFlags, removeTail_inactive het]

/-- the scope event of a text / comment / doctype token -/
def scopeEvOther : Model.Token → Controller.Event
  | .comment .. => .comment
  | .doctype .. => .doctype
  | _ => .text

/-- **text / comment / doctype event** -/
theorem other_refines (cfg : Cfg) (s : St) (hf : s.fault = none) (tok : Model.Token)
    (hk : (CtlEv.other tok).WellKinded) (script : ElemScript) (ord : Nat) :
    ∃ invs, Controller.step script (scopeState s) ord (scopeEvOther tok) =
        .ok (scopeState (ctlStep cfg s (.other tok)).1, invs) := by
  have hst : scopeState (ctlStep cfg s (.other tok)).1 = scopeState s := by
    simp only [ctlStep]
    unfold tokIf
    split
    · obtain ⟨a, b, c, _, _⟩ := tokOther_frame cfg s tok hk hf
      exact scopeState_congr a b c
    · rfl
  rw [hst]
  cases tok with
  | startTag => simp [CtlEv.WellKinded] at hk
  | endTag => simp [CtlEv.WellKinded] at hk
  | comment => exact ⟨_, rfl⟩
  | doctype => exact ⟨_, rfl⟩
  | text => exact ⟨_, rfl⟩

end LolHtml.Model.Full
