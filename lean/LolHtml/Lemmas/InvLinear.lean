import LolHtml.Lemmas.InvStep
/-!
# C15 — linear work: counting state-function invocations

`runLoopSteps` mirrors `runLoop` and counts the invocations of `stateFn`. From the invariant, the
count is bounded by the measure `mu + 1 = (maxRank+1)·(bytes left) + rank + 1 ≤ 8·(n+1)`, whatever
the fuel.
-/
namespace LolHtml.Model

variable {κ : Type}

/-- number of state-function invocations performed by `runLoop env inp fuel m` -/
def runLoopSteps (env : Env κ) (inp : Bytes) : Nat → M κ → Nat
  | 0, _ => 0
  | n + 1, m =>
    let r := stateFn env inp m
    match r.2 with
    | some _ => 1
    | none => 1 + runLoopSteps env inp n r.1

/-- number of state-function invocations performed by `Parser.parseLoop` (all lexer / tag-scanner
runs of one `parse` call together) -/
def Parser.parseLoopSteps (env : Env κ) (inp : Bytes) (last : Bool) : Nat → Parser κ → Nat
  | 0, _ => 0
  | n + 1, p =>
    let r := runLoop env inp (defaultFuel inp) (p.machine last)
    runLoopSteps env inp (defaultFuel inp) (p.machine last) +
      match r.2 with
      | .directive d bm => Parser.parseLoopSteps env inp last n (loadBookmark env d bm (p.store r.1))
      | _ => 0

def Parser.parseSteps (env : Env κ) (inp : Bytes) (last : Bool) (p : Parser κ) : Nat :=
  Parser.parseLoopSteps env inp last (2 * inp.length + 8) p

section
variable {env : Env κ} {inp : Bytes} {W : κ → Nat} {lo : Nat}

theorem runLoopSteps_le (hs : SinkSafe env.ops W inp U1) (hw : Wf env.tbl) (fuel : Nat) (m : M κ)
    (hm : MInvB env.tbl inp.length (W m.x.sink) lo m) :
    runLoopSteps env inp fuel m ≤ mu env.tbl inp.length m + 1 := by
  induction fuel generalizing m with
  | zero => simp [runLoopSteps]
  | succ n ih =>
    simp only [runLoopSteps]
    have h1 := stateFn_post hs hw m hm
    unfold StepPost at h1
    split
    · omega
    · rename_i hnone
      rw [hnone] at h1
      obtain ⟨hB, hP⟩ := h1
      have := mu_decrease hw hB.2.1 hP
      have := ih _ hB
      omega

theorem mu_le (t : Table) (hw : Wf t) (m : M κ) (L : Nat) : mu t L m + 1 ≤ 8 * (L - m.c.nextPos + 1) := by
  unfold mu
  have := hw.rank_le m.c.state
  simp only [maxRank] at *
  omega

end
end LolHtml.Model
