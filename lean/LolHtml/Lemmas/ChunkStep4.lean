import LolHtml.Lemmas.ChunkStep3
/-!
`dispatch`: the arm selected by the consumed byte, in the two runs.
-/
namespace LolHtml.Model.Chunk
open LolHtml LolHtml.Model

variable {κ : Type}

/-- what `dispatch` does with the selected ordinary arm -/
def armRun (env : Env κ) (inp : Bytes) (arm : Arm) (m : M κ) : StepRes κ :=
  match arm.pat with
  | .eoc =>
    let r := runBody env inp arm.body m
    match r.2.1, r.2.2 with
    | some sig, _ => (r.1, some sig)
    | none, .transitioned => (r.1, none)
    | none, .fell => breakOnEndOfInput inp r.1
  | .eof =>
    if m.c.isLast then
      let r := runBody env inp arm.body m
      match r.2.1, r.2.2 with
      | some sig, _ => (r.1, some sig)
      | none, .transitioned => (r.1, none)
      | none, .fell => breakOnEndOfInput inp r.1
    else breakOnEndOfInput inp m
  | _ =>
    let r := runBody env inp arm.body m
    (r.1, r.2.1)

theorem dispatch_inr {env : Env κ} {inp : Bytes} {ch : Option UInt8} {arms : List Arm} {m m2 : M κ}
    (h : runSeqArms env inp ch arms m = .inr m2) :
    dispatch env inp ch arms m =
      match findArm env.tbl m2.c ch arms with
      | none => (m2, some (.err (.panic "non-exhaustive match in state body")))
      | some arm => armRun env inp arm m2 := by
  unfold dispatch
  rw [h]
  simp only
  cases findArm env.tbl m2.c ch arms with
  | none => rfl
  | some arm =>
    simp only [armRun]
    cases arm.pat <;> rfl

theorem dispatch_inl {env : Env κ} {inp : Bytes} {ch : Option UInt8} {arms : List Arm} {m : M κ} {r : M κ × Option Signal}
    (h : runSeqArms env inp ch arms m = .inl r) : dispatch env inp ch arms m = r := by
  unfold dispatch; rw [h]

theorem patMatches_congr (tbl : Table) {c c' : Common} (h1 : c'.closingQuote = c.closingQuote) (h2 : c'.isLast = c.isLast)
    (ch : Option UInt8) (p : Pat) : patMatches tbl c' ch p = patMatches tbl c ch p := by
  cases p <;> simp only [patMatches, h1, h2]

theorem findArm_congr (tbl : Table) {c c' : Common} (h1 : c'.closingQuote = c.closingQuote) (h2 : c'.isLast = c.isLast)
    (ch : Option UInt8) (arms : List Arm) : findArm tbl c' ch arms = findArm tbl c ch arms := by
  induction arms with
  | nil => rfl
  | cons a rest ih => simp only [findArm, patMatches_congr tbl h1 h2, ih]

theorem findArm_spec (tbl : Table) (c : Common) (ch : Option UInt8) :
    ∀ (arms : List Arm) (a : Arm), findArm tbl c ch arms = some a → a ∈ arms ∧ patMatches tbl c ch a.pat = true := by
  intro arms
  induction arms with
  | nil => intro a h; cases h
  | cons x rest ih =>
    intro a h
    simp only [findArm] at h
    split at h
    · rename_i hm
      cases h
      exact ⟨List.mem_cons_self, hm⟩
    · obtain ⟨h1, h2⟩ := ih a h
      exact ⟨List.mem_cons_of_mem _ h1, h2⟩

/-- with no byte consumed only `eoc` (not last) and `eof` arms match -/
theorem patMatches_none {tbl : Table} {c : Common} {p : Pat} (h : patMatches tbl c none p = true) :
    (p = .eoc ∧ c.isLast = false) ∨ p = .eof := by
  cases p <;> simp [patMatches] at h
  · exact Or.inl ⟨rfl, h⟩
  · exact Or.inr rfl

/-- with a byte consumed neither `eoc` nor `eof` nor a sequence matches -/
theorem patMatches_some {tbl : Table} {c : Common} {b : UInt8} {p : Pat} (h : patMatches tbl c (some b) p = true) :
    p ≠ .eoc ∧ p ≠ .eof := by
  cases p <;> simp [patMatches] at h <;> exact ⟨(fun hh => by cases hh), (fun hh => by cases hh)⟩

/-- at the end of a chunk that is not the last one, a state whose `eoc` arm comes first never selects `eof` -/
theorem findArm_noEof {tbl : Table} {c : Common} : ∀ {arms : List Arm} {a : Arm}, eocFirst arms = true → c.isLast = false →
    findArm tbl c none arms = some a → a.pat ≠ .eof := by
  intro arms
  induction arms with
  | nil => intro a _ _ h; cases h
  | cons x rest ih =>
    intro a he hl h
    simp only [findArm] at h
    unfold eocFirst at he
    by_cases h1 : isEoc x.pat = true
    · have hx : x.pat = .eoc := by cases hp : x.pat <;> rw [hp] at h1 <;> first | rfl | cases h1
      have hm : patMatches tbl c none x.pat = true := by rw [hx]; simp [patMatches, hl]
      rw [if_pos hm] at h
      cases h
      rw [hx]; intro hh; cases hh
    · rw [if_neg h1] at he
      by_cases h2 : isEof x.pat = true
      · rw [if_pos h2] at he; cases he
      · rw [if_neg h2] at he
        have hm : ¬ patMatches tbl c none x.pat = true := by
          intro hm
          rcases patMatches_none hm with ⟨hp, _⟩ | hp
          · rw [hp] at h1; exact h1 rfl
          · rw [hp] at h2; exact h2 rfl
        rw [if_neg hm] at h
        exact ih he hl h

/-- the tail of an `eoc` arm, and of an `eof` arm when last: body, then break unless it transitioned -/
def tailRun (env : Env κ) (inp : Bytes) (b : Body) (m : M κ) : StepRes κ :=
  match (runBody env inp b m).2.1, (runBody env inp b m).2.2 with
  | some sig, _ => ((runBody env inp b m).1, some sig)
  | none, .transitioned => ((runBody env inp b m).1, none)
  | none, .fell => breakOnEndOfInput inp (runBody env inp b m).1

theorem armRun_eoc (env : Env κ) (inp : Bytes) (arm : Arm) (m : M κ) (h : arm.pat = .eoc) :
    armRun env inp arm m = tailRun env inp arm.body m := by
  unfold armRun tailRun; rw [h]

theorem armRun_eof (env : Env κ) (inp : Bytes) (arm : Arm) (m : M κ) (h : arm.pat = .eof) :
    armRun env inp arm m = if m.c.isLast then tailRun env inp arm.body m else breakOnEndOfInput inp m := by
  unfold armRun tailRun; rw [h]

theorem armRun_other (env : Env κ) (inp : Bytes) (arm : Arm) (m : M κ) (h1 : arm.pat ≠ .eoc) (h2 : arm.pat ≠ .eof) :
    armRun env inp arm m = ((runBody env inp arm.body m).1, (runBody env inp arm.body m).2.1) := by
  unfold armRun
  cases hp : arm.pat <;> first | rfl | exact absurd hp h1 | exact absurd hp h2

theorem Ab.le_inStep (a : Ab) : a.le a.inStep = true := by
  rw [Ab.le_iff]; simp [Ab.inStep]

section
variable {env : Env κ} {inpS inpW : Bytes} {δ : Nat} {K : Nat → κ → κ → Prop} {Loc : κ → Nat → Nat → TextType → Prop}

theorem tailRun_lock (F : Frame inpS inpW δ) (hops : OpsSim env.ops inpS inpW δ K Loc) (hcl : Closed inpS inpW δ)
    {fs : FlagMap} {st : StateId} {sd : StateDef} {d : Nat} {ms mw : M κ} (cx : StepCtx env.tbl fs st sd ms.c) (b : Body)
    (hok : bodyOk env.tbl fs st (fs st).2.inStep false b = true)
    (hrel : MRel δ d 0 (fs st).2.inStep .none ms mw) (hK : K d ms.x.sink mw.x.sink)
    (hloc : 0 < d → Loc ms.x.sink ms.x.prevConsumed (lexStart ms.r) ms.c.lastTextType)
    (hd : d = 0 ∨ ∃ s, b = .seq s ∧ StartsWithText s.calls) (hlast : ms.c.isLast = true) :
    LockOut env.tbl fs inpW δ K Loc true (tailRun env inpS b ms) (tailRun env inpW b mw) := by
  have hb := runBody_sim F hops fs st false b hok hrel hK hloc hd (fun s _ cl _ _ => Or.inr hcl)
  unfold tailRun
  rcases hb with hp | ⟨hs, hend, hdir, hm⟩
  · left
    cases hrs : (runBody env inpS b ms).2.1 with
    | none => rw [hrs] at hp; exact hp.elim
    | some sg => rw [hrs] at hp; exact hp
  · cases hrs : (runBody env inpS b ms).2.1 with
    | some sg =>
      rw [hrs] at hs
      cases hrw : (runBody env inpW b mw).2.1 with
      | none => rw [hrw] at hs; cases hs.none_right
      | some sg' =>
        rw [hrw] at hs
        rw [hrs, hrw] at hdir
        simp only
        exact lockOut_of_sig hs hdir
    | none =>
      rw [hrs] at hs
      rw [hs.none_left, hend]
      obtain ⟨hk, hcase⟩ := hm hrs
      cases hse : (runBody env inpS b ms).2.2 with
      | transitioned =>
        rw [hse] at hcase
        obtain ⟨hmr, hent⟩ := hcase
        right
        simp only
        have hle := flagsOf_entry cx.wf (runBody env inpS b ms).1.c hent
        exact ⟨0, ⟨⟨.none, (hmr.weaken hle).toBreakRel, BSide.plain _ _ _⟩, hmr.pc⟩, hk, fun hh => absurd hh (Nat.lt_irrefl 0)⟩
      | fell =>
        rw [hse] at hcase
        obtain ⟨hfix, ab'', hmr, _, hP⟩ := hcase
        simp only
        exact lock_of_break_both F hcl (cx.of_cfix hfix) hmr (hP rfl)
          (fun hl => by rw [hfix.2.1, hlast] at hl; cases hl) (Or.inl rfl)
          (fun h => absurd h (Nat.lt_irrefl 0)) hk rfl (fun h => absurd h (Nat.lt_irrefl 0))

end

theorem debtArm_eof {arm : Arm} (h : debtArmOk arm = true) (hp : arm.pat = .eof) : arm.body ≠ .seq ⟨[], none⟩ := by
  unfold debtArmOk at h
  simp only [Bool.and_eq_true, Bool.or_eq_true, Bool.not_eq_true', bne_iff_ne, ne_eq] at h
  rcases h.2 with h2 | h2
  · rw [hp] at h2; cases h2
  · exact h2

theorem debtArm_cases {arm : Arm} (h : debtArmOk arm = true) (hp : arm.pat ≠ .eoc) :
    arm.body = .seq ⟨[], none⟩ ∨ ∃ s, arm.body = .seq s ∧ StartsWithText s.calls := by
  unfold debtArmOk at h
  simp only [Bool.and_eq_true] at h
  replace h := h.1
  obtain ⟨pat, body⟩ := arm
  simp only at hp ⊢
  cases body with
  | ite c t e => cases pat <;> first | exact absurd rfl hp | (simp at h)
  | seq s =>
    obtain ⟨calls, trans⟩ := s
    cases calls with
    | nil =>
      cases trans with
      | none => exact Or.inl rfl
      | some t => cases pat <;> first | exact absurd rfl hp | (simp at h)
    | cons cl rest =>
      obtain ⟨act, q⟩ := cl
      by_cases ha : act = .emitText
      · exact Or.inr ⟨_, rfl, Or.inl ha⟩
      · by_cases hb : act = .emitTextAndEof
        · exact Or.inr ⟨_, rfl, Or.inr hb⟩
        · exfalso
          cases pat <;> first | exact absurd rfl hp | (cases act <;> simp at h ha hb)

theorem runBody_nil (env : Env κ) (inp : Bytes) (m : M κ) : runBody env inp (.seq ⟨[], none⟩) m = (m, none, .fell) := rfl

theorem eocBody_ok (tbl : Table) (fs : FlagMap) (st : StateId) (ab : Ab) (hP : ab.P = true) :
    bodyOk tbl fs st ab false eocBody = true := by
  simp [bodyOk, eocBody, seqOk, absCalls, absAct, qRequired, hP, Ab.stale]

theorem tailRun_eoc_eq (env : Env κ) (inp : Bytes) (m : M κ) :
    tailRun env inp eocBody m =
      match (act env .emitText inp m).2 with
      | some sg => ((act env .emitText inp m).1, some sg)
      | none => breakOnEndOfInput inp (act env .emitText inp m).1 := by
  unfold tailRun runBody eocBody runSeq
  simp only [runCalls]
  cases h : (act env .emitText inp m).2 <;> simp [h]

section
variable {env : Env κ} {inpS inpW : Bytes} {δ : Nat} {K : Nat → κ → κ → Prop} {Loc : κ → Nat → Nat → TextType → Prop}

/-- the machines stay where they are, the debt is carried on -/
theorem lock_stay {fs : FlagMap} {st : StateId} {sd : StateDef} {d : Nat} {eoi : Bool} {ms mw : M κ}
    (cx : StepCtx env.tbl fs st sd ms.c) (hrel : MRel δ d 0 (fs st).2.inStep .none ms mw) (hK : K d ms.x.sink mw.x.sink)
    (hloc : 0 < d → Loc ms.x.sink ms.x.prevConsumed (lexStart ms.r) ms.c.lastTextType)
    (hdebt : 0 < d → hasEoc sd = true) :
    LockOut env.tbl fs inpW δ K Loc eoi (ms, none) (mw, none) := by
  right
  simp only
  refine ⟨d, ⟨⟨.none, ?_, ?_⟩, hrel.pc⟩, hK, hloc⟩
  · rw [cx.flagsOf rfl rfl]
    exact (hrel.weaken (Ab.le_inStep _)).toBreakRel
  · intro sd' hl
    rw [cx.st_eq, cx.look] at hl; cases hl
    exact ⟨Or.inl rfl, hdebt, fun h => absurd h (Nat.lt_irrefl 0)⟩

/-- the `eoc` arm in both runs (which then break together) -/
theorem eoc_lock (F : Frame inpS inpW δ) (hops : OpsSim env.ops inpS inpW δ K Loc) (hcl : Closed inpS inpW δ)
    {fs : FlagMap} {st : StateId} {sd : StateDef} {d : Nat} {ms mw : M κ} (cx : StepCtx env.tbl fs st sd ms.c)
    (heocs : hasEoc sd = true)
    (hrel : MRel δ d 0 (fs st).2.inStep .none ms mw) (hK : K d ms.x.sink mw.x.sink)
    (hloc : 0 < d → Loc ms.x.sink ms.x.prevConsumed (lexStart ms.r) ms.c.lastTextType) :
    LockOut env.tbl fs inpW δ K Loc true (tailRun env inpS eocBody ms) (tailRun env inpW eocBody mw) := by
  rw [tailRun_eoc_eq, tailRun_eoc_eq]
  have hnone : (fs st).2 = Ab.none := (cx.ok.debt heocs).2.1
  have hact := act_sim F hops .emitText (ab := (fs st).2.inStep) (ab' := (fs st).2.inStep.stale) rfl hrel hK hloc
    (Or.inr (Or.inl rfl)) (fun h => by cases h)
  have hfix := act_cfix (env := env) (inp := inpS) .emitText ms
  rcases hact with ⟨_, hp⟩ | ⟨hs, hm, hdir⟩
  · left
    revert hp
    cases (act env .emitText inpS ms).2 with
    | none => intro hp; exact hp.elim
    | some sg => intro hp; exact hp
  · cases hrs : (act env .emitText inpS ms).2 with
    | some sg =>
      rw [hrs] at hs
      cases hrw : (act env .emitText inpW mw).2 with
      | none => rw [hrw] at hs; cases hs.none_right
      | some sg' =>
        rw [hrw] at hs
        simp only
        exact lockOut_of_sig hs (fun dr bm hh => hdir dr bm (by rw [hrs]; exact hh))
    | none =>
      rw [hrs] at hs
      rw [hs.none_left]
      obtain ⟨hm1, hk1⟩ := hm (Or.inl hrs)
      simp only
      refine lock_of_break_both F hcl (cx.of_cfix hfix) hm1 rfl (fun _ => ⟨?_, fun g => ?_⟩) (Or.inl rfl)
        (fun h => absurd h (Nat.lt_irrefl 0)) hk1 rfl (fun h => absurd h (Nat.lt_irrefl 0))
      · rw [hnone]; exact Ab.none_le _
      · rw [hnone] at g; cases g

/-- **The selected arm**, in lock-step. -/
theorem armRun_lock (F : Frame inpS inpW δ) (hops : OpsSim env.ops inpS inpW δ K Loc)
    {fs : FlagMap} {st : StateId} {sd : StateDef} {d : Nat} {eoi : Bool} {ms mw : M κ} (cx : StepCtx env.tbl fs st sd ms.c)
    (ch : Option UInt8) (arm : Arm) (harm : arm ∈ sd.arms) (hmatch : patMatches env.tbl ms.c ch arm.pat = true)
    (hrel : MRel δ d 0 (fs st).2.inStep .none ms mw) (hK : K d ms.x.sink mw.x.sink)
    (hloc : 0 < d → Loc ms.x.sink ms.x.prevConsumed (lexStart ms.r) ms.c.lastTextType)
    (hdebt : 0 < d → hasEoc sd = true)
    (hchin : ch.isSome = true → ms.c.nextPos ≤ inpS.length)
    (hcl : ch = none → Closed inpS inpW δ ∧ eoi = true)
    (hnoeof : 0 < d → ms.c.isLast = false → arm.pat ≠ .eof) :
    LockOut env.tbl fs inpW δ K Loc eoi (armRun env inpS arm ms) (armRun env inpW arm mw) := by
  have hok := cx.ok.arms arm harm
  have hP : (fs st).2.inStep.P = true := rfl
  have hdcases : 0 < d → arm.pat ≠ .eoc → arm.body = .seq ⟨[], none⟩ ∨ ∃ s, arm.body = .seq s ∧ StartsWithText s.calls := by
    intro hd hp
    exact debtArm_cases ((cx.ok.debt (hdebt hd)).2.2.2.2 arm harm) hp
  by_cases heoc : arm.pat = .eoc
  · -- `eoc`
    have hnone : ch = none := by
      cases ch with
      | none => rfl
      | some b => exact absurd heoc (patMatches_some hmatch).1
    obtain ⟨hclosed, he⟩ := hcl hnone
    subst he
    rw [armRun_eoc _ _ _ _ heoc, armRun_eoc _ _ _ _ heoc]
    have hbody : arm.body = eocBody := by
      unfold armOk at hok; rw [heoc] at hok; exact eq_of_beq hok
    rw [hbody]
    have heocs : hasEoc sd = true := by
      unfold hasEoc; rw [List.any_eq_true]; exact ⟨arm, harm, by rw [heoc]; rfl⟩
    exact eoc_lock F hops hclosed cx heocs hrel hK hloc
  · by_cases heof : arm.pat = .eof
    · -- `eof`
      have hnone : ch = none := by
        cases ch with
        | none => rfl
        | some b => exact absurd heof (patMatches_some hmatch).2
      obtain ⟨hclosed, he⟩ := hcl hnone
      subst he
      rw [armRun_eof _ _ _ _ heof, armRun_eof _ _ _ _ heof, hrel.c.isLast]
      cases hlast : ms.c.isLast with
      | false =>
        simp only [Bool.false_eq_true, if_false]
        exact lock_of_break_both F hclosed cx hrel hP
          (fun _ => ⟨by rw [Ab.inStep_boundary cx.ok.p2]; rw [Ab.le_iff]; simp, fun g => cx.ok.sn2 g⟩)
          (Or.inl rfl) hdebt hK (by
            rcases Nat.eq_zero_or_pos d with h0 | h0
            · exact h0
            · exact absurd heof (hnoeof h0 hlast)) hloc
      | true =>
        simp only [if_true]
        have hbok : bodyOk env.tbl fs st (fs st).2.inStep false arm.body = true := by
          unfold armOk at hok; rw [heof] at hok; exact hok
        by_cases hd0 : d = 0
        · exact tailRun_lock F hops hclosed cx arm.body hbok hrel hK hloc (Or.inl hd0) hlast
        · rcases hdcases (Nat.pos_of_ne_zero hd0) heoc with hb | hb
          · exact absurd hb (debtArm_eof ((cx.ok.debt (hdebt (Nat.pos_of_ne_zero hd0))).2.2.2.2 arm harm) heof)
          · exact tailRun_lock F hops hclosed cx arm.body hbok hrel hK hloc (Or.inr hb) hlast
    · -- an ordinary arm: a byte was consumed
      rw [armRun_other _ _ _ _ heoc heof, armRun_other _ _ _ _ heoc heof]
      have hsome : ch.isSome = true := by
        cases ch with
        | some b => rfl
        | none =>
          rcases patMatches_none hmatch with ⟨h, _⟩ | h
          · exact absurd h heoc
          · exact absurd h heof
      have hbok : bodyOk env.tbl fs st (fs st).2.inStep true arm.body = true := by
        unfold armOk at hok
        cases hp : arm.pat <;> rw [hp] at hok <;> first | exact hok | exact absurd hp heoc | exact absurd hp heof
      have hin : BodyIn inpS inpW δ ms.c.nextPos arm.body := fun s _ cl _ _ => Or.inl (hchin hsome)
      by_cases hd0 : d = 0
      · exact body_to_lock cx (runBody_sim F hops fs st true arm.body hbok hrel hK hloc (Or.inl hd0) hin)
      · rcases hdcases (Nat.pos_of_ne_zero hd0) heoc with hb | hb
        · rw [hb, runBody_nil, runBody_nil]
          exact lock_stay cx hrel hK hloc hdebt
        · exact body_to_lock cx (runBody_sim F hops fs st true arm.body hbok hrel hK hloc (Or.inr hb) hin)

end

section
variable {env : Env κ} {inpS inpW : Bytes} {δ : Nat} {K : Nat → κ → κ → Prop} {Loc : κ → Nat → Nat → TextType → Prop}

/-- `emit_text` in the split run only (an `eoc` arm at the end of the split input) -/
theorem act_emitText_split (hops : OpsSim env.ops inpS inpW δ K Loc) {d : Nat} {ab : Ab} {ms mw : M κ}
    (h : MRel δ d 0 ab .none ms mw) (hP : ab.P = true) (hn : ab.noLex)
    (hloc : 0 < d → Loc ms.x.sink ms.x.prevConsumed (lexStart ms.r) ms.c.lastTextType)
    (hK : K d ms.x.sink mw.x.sink) :
    SPanic (act env .emitText inpS ms).2 ∨ ∃ d', (act env .emitText inpS ms).2 = none ∧
      MRel δ d' 0 ab .none (act env .emitText inpS ms).1 mw ∧ (act env .emitText inpS ms).1.c = ms.c ∧
      (act env .emitText inpS ms).1.x.sim = ms.x.sim ∧
      (act env .emitText inpS ms).1.x.prevConsumed = ms.x.prevConsumed ∧
      SinkBrk env.ops Loc inpS d d' ms.x (act env .emitText inpS ms).1.x.sink
        (consumedByteCount inpS (act env .emitText inpS ms).1) ms.c.lastTextType ∧ d ≤ d' := by
  obtain ⟨hc, hr, hsim, hpc⟩ := h
  obtain ⟨cs, rs, xs⟩ := ms
  obtain ⟨cw, rw, xw⟩ := mw
  cases rs with
  | scanner ss =>
    cases rw with
    | lexer lw => exact hr.elim
    | scanner sw =>
      exact Or.inr ⟨d, rfl, ⟨hc, hr, hsim, hpc⟩, rfl, rfl, rfl,
        Or.inl ⟨rfl, rfl, fun hd => by have := hr.1; omega⟩, Nat.le_refl _⟩
  | lexer ls =>
    cases rw with
    | scanner sw => exact hr.elim
    | lexer lw =>
      have hl : LexRel δ d ab cs.nextPos ls lw := hr
      have hp := hl.p hP
      have hsplit := hl.emitTextSplitOnly (ab' := ab) hP hn
      show SPanic (lexEmitText env inpS cs ls xs).2 ∨ ∃ d', (lexEmitText env inpS cs ls xs).2 = none ∧
        MRel δ d' 0 ab .none (lexEmitText env inpS cs ls xs).1 ⟨cw, .lexer lw, xw⟩ ∧ (lexEmitText env inpS cs ls xs).1.c = cs ∧
        (lexEmitText env inpS cs ls xs).1.x.sim = xs.sim ∧ (lexEmitText env inpS cs ls xs).1.x.prevConsumed = xs.prevConsumed ∧
        SinkBrk env.ops Loc inpS d d' xs (lexEmitText env inpS cs ls xs).1.x.sink
          (consumedByteCount inpS (lexEmitText env inpS cs ls xs).1) cs.lastTextType ∧ d ≤ d'
      unfold lexEmitText
      have hpos : cs.pos = cs.nextPos - 1 := rfl
      by_cases hgt : cs.pos > ls.lexemeStart
      · rw [if_pos hgt, lexEmitNonTag_eq]
        rw [if_pos (by rw [← hpos]; exact hgt)] at hsplit
        rcases hops.textOk xs.prevConsumed ⟨ls.lexemeStart, cs.pos⟩ cs.lastTextType d xs.sink xw.sink hK with hpan | hok
        · exact Or.inl (spanic_of_epanic hpan)
        · right
          refine ⟨d + (cs.nextPos - 1 - ls.lexemeStart), by rw [hok]; rfl, ⟨hc, ?_, hsim, hpc⟩, rfl, rfl, rfl, ?_, Nat.le_add_right _ _⟩
          · show LexRel δ _ ab cs.nextPos { ls with lexemeStart := cs.pos } lw
            rw [hpos]; exact hsplit
          · refine Or.inr ⟨ls.lexemeStart, hgt, by rw [hpos]; rfl, ?_, hloc⟩
            apply Prod.ext
            · rfl
            · exact hok
      · rw [if_neg hgt]
        rw [if_neg (by rw [← hpos]; exact hgt)] at hsplit
        have hz : cs.nextPos - 1 - ls.lexemeStart = 0 := by rw [← hpos]; omega
        rw [hz] at hsplit
        exact Or.inr ⟨d, rfl, ⟨hc, hsplit, hsim, hpc⟩, rfl, rfl, rfl, Or.inl ⟨rfl, rfl, hloc⟩, Nat.le_refl _⟩

theorem SPanic_match {r : M κ × Option Signal} {f : M κ → M κ × Option Signal} (h : SPanic r.2) :
    SPanic (match r.2 with | some sg => (r.1, some sg) | none => f r.1).2 := by
  revert h
  cases r.2 with
  | none => intro h; exact h.elim
  | some sg => intro h; exact h

/-- **The selected arm when the split input has ended**: the split run breaks. -/
theorem armRun_end (hops : OpsSim env.ops inpS inpW δ K Loc)
    {fs : FlagMap} {st : StateId} {sd : StateDef} {d : Nat} {ms mw mw0 : M κ} {npw0 : Nat}
    (cx : StepCtx env.tbl fs st sd ms.c)
    (arm : Arm) (harm : arm ∈ sd.arms) (hmatch : patMatches env.tbl ms.c none arm.pat = true)
    (hrel : MRel δ d 0 (fs st).2.inStep .none ms mw) (hl : ms.c.isLast = false)
    (hdebt : 0 < d → hasEoc sd = true) (hbp : BrkParams inpW sd δ ms mw mw0 npw0)
    (hloc : 0 < d → Loc ms.x.sink ms.x.prevConsumed (lexStart ms.r) ms.c.lastTextType)
    (hK : K d ms.x.sink mw.x.sink) :
    BreakOut env.tbl fs env.ops Loc inpS inpW δ d ms.x mw0 (armRun env inpS arm ms) := by
  rcases patMatches_none hmatch with ⟨heoc, _⟩ | heof
  · rw [armRun_eoc _ _ _ _ heoc]
    have hok := cx.ok.arms arm harm
    have hbody : arm.body = eocBody := by
      unfold armOk at hok; rw [heoc] at hok; exact eq_of_beq hok
    rw [hbody, tailRun_eoc_eq]
    have heocs : hasEoc sd = true := by
      unfold hasEoc; rw [List.any_eq_true]; exact ⟨arm, harm, by rw [heoc]; rfl⟩
    have hnone : (fs st).2 = Ab.none := (cx.ok.debt heocs).2.1
    have hn : (fs st).2.inStep.noLex := by rw [hnone]; exact ⟨rfl, rfl, rfl, rfl, rfl, rfl⟩
    rcases act_emitText_split hops hrel rfl hn hloc hK with hp | ⟨d', h1, h2, h3, h4, h5, h6, h7⟩
    · exact Or.inl (SPanic_match hp)
    · rw [h1]
      simp only
      have hbp' := hbp.congr (ms' := (act env .emitText inpS ms).1) (mw' := mw) h3 rfl rfl rfl
      exact breakOut_of_split (by rw [h3]; exact cx) h2 (by rw [h3]; exact hl) (Or.inl rfl) (fun _ => heocs) npw0
        hbp'.np hbp'.skip hbp'.c0 hbp'.x0 hbp'.r0 hbp'.q0 ms.x h4 h5 (by rw [h3]; exact h6)
  · rw [armRun_eof _ _ _ _ heof, hl]
    simp only [Bool.false_eq_true, if_false]
    exact breakOut_of_split cx hrel hl (Or.inl rfl) hdebt npw0 hbp.np hbp.skip hbp.c0 hbp.x0 hbp.r0 hbp.q0 ms.x rfl rfl
      (Or.inl ⟨rfl, rfl, fun hd => by rw [consumed_lexStart hrel hd]; exact hloc hd⟩)

end

section
variable {env : Env κ} {inpS inpW : Bytes} {δ : Nat} {K : Nat → κ → κ → Prop} {Loc : κ → Nat → Nat → TextType → Prop}

/-- after the sequence arms: the ordinary arm, in lock-step -/
theorem dispatch_tail_lock (F : Frame inpS inpW δ) (hops : OpsSim env.ops inpS inpW δ K Loc)
    {fs : FlagMap} {st : StateId} {sd : StateDef} {d : Nat} {eoi : Bool} {ms mw ms2 mw2 : M κ} (cx : StepCtx env.tbl fs st sd ms.c)
    (ch : Option UInt8) (hs : runSeqArms env inpS ch sd.arms ms = .inr ms2) (hw : runSeqArms env inpW ch sd.arms mw = .inr mw2)
    (hrel : MRel δ d 0 (fs st).2.inStep .none ms2 mw2) (hcs : ms2.c = ms.c) (hxs : ms2.x = ms.x) (hxw : mw2.x = mw.x)
    (hK : K d ms.x.sink mw.x.sink) (hloc : 0 < d → Loc ms2.x.sink ms2.x.prevConsumed (lexStart ms2.r) ms2.c.lastTextType) (hdebt : 0 < d → hasEoc sd = true)
    (hchin : ch.isSome = true → ms.c.nextPos ≤ inpS.length) (hcl : ch = none → Closed inpS inpW δ ∧ eoi = true) :
    LockOut env.tbl fs inpW δ K Loc eoi (dispatch env inpS ch sd.arms ms) (dispatch env inpW ch sd.arms mw) := by
  rw [dispatch_inr hs, dispatch_inr hw]
  rw [findArm_congr env.tbl hrel.c.closingQuote hrel.c.isLast ch sd.arms]
  cases hfa : findArm env.tbl ms2.c ch sd.arms with
  | none => exact Or.inl trivial
  | some arm =>
    obtain ⟨hmem, hpm⟩ := findArm_spec env.tbl ms2.c ch sd.arms arm hfa
    simp only
    exact armRun_lock F hops (by rw [hcs]; exact cx) ch arm hmem hpm hrel (by rw [hxs, hxw]; exact hK) hloc hdebt
      (by rw [hcs]; exact hchin) hcl (fun hd hl => by
        cases ch with
        | some b => exact (patMatches_some hpm).2
        | none => exact findArm_noEof (cx.ok.eocF (hdebt hd)) hl hfa)

/-- **`dispatch`, both runs reading the same consumed byte.** -/
theorem dispatch_lock (F : Frame inpS inpW δ) (hops : OpsSim env.ops inpS inpW δ K Loc)
    {fs : FlagMap} {st : StateId} {sd : StateDef} {d : Nat} {eoi : Bool} {sm : SeqMode} {ms mw mw0 : M κ} {npw0 : Nat}
    (cx : StepCtx env.tbl fs st sd ms.c) (ch : Option UInt8)
    (hrel : MRel δ d 0 (fs st).2.inStep sm ms mw) (hK : K d ms.x.sink mw.x.sink)
    (hloc : 0 < d → Loc ms.x.sink ms.x.prevConsumed (lexStart ms.r) ms.c.lastTextType)
    (hsm : sm = .none ∨ (sm = .stale ∧ hasSeq sd = true)) (hdebt : 0 < d → hasEoc sd = true)
    (hchin : ch.isSome = true → ms.c.nextPos ≤ inpS.length) (hil : ms.c.isLast = true → Closed inpS inpW δ)
    (heoi : eoi = false → ms.c.isLast = false)
    (hcl : ch = none → Closed inpS inpW δ ∧ eoi = true) (hbp : BrkParams inpW sd δ ms mw mw0 npw0) :
    LockOut env.tbl fs inpW δ K Loc eoi (dispatch env inpS ch sd.arms ms) (dispatch env inpW ch sd.arms mw) ∨
    ((eoi = true → ¬ Closed inpS inpW δ) ∧
      BreakOut env.tbl fs env.ops Loc inpS inpW δ d ms.x mw0 (dispatch env inpS ch sd.arms ms)) := by
  by_cases hd0 : d = 0
  · subst hd0
    have h := runSeqArms_lock F hops ch eoi sd.arms (fun a ha => ha) cx hrel hK hsm hchin hil heoi hbp
    cases hr : runSeqArms env inpS ch sd.arms ms with
    | inr ms2 =>
      rw [hr] at h
      obtain ⟨mw2, e1, e2, e3, e4, e5, e6, e7⟩ := h
      exact Or.inl (dispatch_tail_lock F hops cx ch hr e1 e2 e3 e4 e6 hK (fun hh => absurd hh (Nat.lt_irrefl 0)) hdebt hchin hcl)
    | inl rs =>
      rw [hr] at h
      rw [dispatch_inl hr]
      rcases h with ⟨rw', e1, e2⟩ | e2
      · rw [dispatch_inl e1]; exact Or.inl e2
      · exact Or.inr e2
  · have hpos := Nat.pos_of_ne_zero hd0
    have hns : hasSeq sd = false := (cx.ok.debt (hdebt hpos)).2.2.2.1
    have hsm0 : sm = .none := by
      rcases hsm with h | ⟨_, h⟩
      · exact h
      · rw [hns] at h; cases h
    subst hsm0
    exact Or.inl (dispatch_tail_lock F hops cx ch (runSeqArms_noSeq inpS ch sd.arms ms hns)
      (runSeqArms_noSeq inpW ch sd.arms mw hns) hrel rfl rfl rfl hK hloc hdebt hchin hcl)

/-- **`dispatch` when the split input has ended** and the whole input has not: the split run breaks. -/
theorem dispatch_end (hops : OpsSim env.ops inpS inpW δ K Loc)
    {fs : FlagMap} {st : StateId} {sd : StateDef} {d : Nat} {sm : SeqMode} {ms mw mw0 : M κ} {npw0 : Nat}
    (cx : StepCtx env.tbl fs st sd ms.c)
    (hrel : MRel δ d 0 (fs st).2.inStep sm ms mw)
    (hsm : sm = .none ∨ (sm = .stale ∧ hasSeq sd = true)) (hdebt : 0 < d → hasEoc sd = true)
    (hl : ms.c.isLast = false) (hbp : BrkParams inpW sd δ ms mw mw0 npw0)
    (hloc : 0 < d → Loc ms.x.sink ms.x.prevConsumed (lexStart ms.r) ms.c.lastTextType)
    (hK : K d ms.x.sink mw.x.sink) :
    BreakOut env.tbl fs env.ops Loc inpS inpW δ d ms.x mw0 (dispatch env inpS none sd.arms ms) := by
  have h := runSeqArms_end (inpS := inpS) (Loc := Loc) sd.arms (fun a ha => ha) cx hrel hsm hl hdebt hbp
  have hsame : 0 < d → runSeqArms env inpS none sd.arms ms = .inr ms := fun hd =>
    runSeqArms_noSeq inpS none sd.arms ms (cx.ok.debt (hdebt hd)).2.2.2.1
  cases hr : runSeqArms env inpS none sd.arms ms with
  | inl rs => rw [hr] at h; rw [dispatch_inl hr]; exact h
  | inr ms2 =>
    rw [hr] at h
    obtain ⟨mw2, e2, e3, e4, e5, e6, e7⟩ := h
    rw [dispatch_inr hr]
    cases hfa : findArm env.tbl ms2.c none sd.arms with
    | none => exact Or.inl trivial
    | some arm =>
      obtain ⟨hmem, hpm⟩ := findArm_spec env.tbl ms2.c none sd.arms arm hfa
      simp only
      have := armRun_end hops (ms := ms2) (mw := mw2) (mw0 := mw0) (npw0 := npw0) (by rw [e3]; exact cx) arm hmem hpm e2
        (by rw [e3]; exact hl) hdebt (hbp.congr e3 e5 e6 e7) (fun hd => by
          have := hsame hd
          rw [hr] at this
          cases this
          exact hloc hd) (by rw [e4, e6]; exact hK)
      rw [e4] at this
      exact this

end

end LolHtml.Model.Chunk
