import LolHtml.Lemmas.ScanFrame
/-!
C09, absolute bound of the tag scanner: definitions.

* `Phase`/`Labels`: a labelling of table states with "how far into a tag head are we"; the labelled
  states are the set `TagHead` (computed from the table by `headLabels`).
* `HeadOk t L` (`UnmarkOnLeave t := HeadOk t (headLabels t)`): the decidable side-condition on the
  table; `headOkWitness` lists the offending (state, arm) pairs.
* `shapeB`/`isTagHeadPrefix`, `matchPrefix`/`IsSeqPrefix`, `HeldOk`: the shapes of what may be held back.
-/
namespace LolHtml.Model

/-- how much of a tag head has been consumed: `<`, `</`, `<`[`/`] + at least one name byte -/
inductive Phase | lt | slash | name
  deriving DecidableEq, Repr

abbrev Labels := List (Option Phase)

def Labels.at (L : Labels) (i : StateId) : Option Phase :=
  match L[i]? with | some p => p | none => none

/-- bytes that end a tag name -/
def isNameEnd (b : UInt8) : Bool := isHtmlWhitespace b || b == 47 || b == 62

/-- one more byte inside a tag head -/
def stepOk : Phase → UInt8 → Phase → Bool
  | .lt, b, .slash => b == 47
  | .lt, b, .name => isAsciiAlpha b
  | .slash, b, .name => isAsciiAlpha b
  | .name, b, .name => !isNameEnd b
  | _, _, _ => false

/-- a (possibly partial) tag name: starts with a letter, contains no whitespace, `/`, `>` -/
def nameOk (n : Bytes) : Bool :=
  match n with
  | [] => false
  | b :: _ => isAsciiAlpha b && n.all (fun x => !isNameEnd x)

def shapeB : Phase → Bytes → Bool
  | .lt, w => w == [60]
  | .slash, w => w == [60, 47]
  | .name, w => w.head? == some 60 && (nameOk (w.drop 1) || (w[1]? == some 47 && nameOk (w.drop 2)))

/-- `<`, `</`, or `<`[`/`] followed by a partial tag name -/
def isTagHeadPrefix (w : Bytes) : Bool := shapeB .lt w || shapeB .slash w || shapeB .name w

/-- `v` is a proper prefix of the literal `lit` (modulo ASCII case when `ic`) -/
def matchPrefix (ic : Bool) : Bytes → List UInt8 → Bool
  | [], _ :: _ => true
  | [], [] => false
  | _ :: _, [] => false
  | c :: v, e :: lit => seqCmp c e ic && matchPrefix ic v lit

/-- the look-ahead sequence literals of the table -/
def seqLits (t : Table) : List (List UInt8 × Bool) :=
  t.states.flatMap fun sd => sd.arms.filterMap fun a =>
    match a.pat with
    | .chSeq b ic => some (b, ic)
    | _ => none

def IsSeqPrefix (t : Table) (v : Bytes) : Prop := ∃ lit ∈ seqLits t, matchPrefix lit.2 v lit.1 = true

/-- what the scanner may hold back when it returns `consumed = n` on the slice `inp` -/
def HeldOk (t : Table) (inp : Bytes) (n : Nat) : Prop :=
  ∃ w v, inp.drop n = w ++ v ∧ (w = [] ∨ isTagHeadPrefix w = true) ∧ (v = [] ∨ IsSeqPrefix t v)

/-! ### the side-condition -/

def hasSeq (arms : List Arm) : Bool := arms.any fun a => match a.pat with | .chSeq .. => true | _ => false

/-- a `Common` used only to evaluate `findArm` on states without `closing_quote` patterns -/
def c0 : Common := { state := 0 }

def seqKeepOk (L : Labels) (ph : Phase) (b : UInt8) (q : ActSeq) : Bool :=
  match tsCalls q.calls with
  | .clear => true
  | .mark => false
  | .keep =>
    match q.trans with
    | none => stepOk ph b ph
    | some (.goto j) => (match L.at j with | some ph' => stepOk ph b ph' | none => false)
    | _ => false

/-- arms of a `TagHead` state that are not selected by a byte -/
def specialArmOk (a : Arm) : Bool :=
  match a.pat with
  | .chSeq .. => a.body.seqs.all (fun q => tsCalls q.calls == .clear)
  | .eoc | .eof => a.body.seqs.all (fun q => tsCalls q.calls == .clear || (tsCalls q.calls == .keep && q.trans.isNone))
  | .closingQuote => false
  | _ => true

def byteOk (t : Table) (L : Labels) (sd : StateDef) (ph : Phase) (n : Nat) : Bool :=
  match findArm t c0 (some (UInt8.ofNat n)) sd.arms with
  | none => true
  | some a => a.body.seqs.all (seqKeepOk L ph (UInt8.ofNat n))

/-- a state inside `TagHead`: every byte either keeps the head well-formed or forgets the tag start -/
def headStateOk (t : Table) (L : Labels) (sd : StateDef) (ph : Phase) : Bool :=
  sd.memchr.isNone && sd.arms.all specialArmOk && (List.range 256).all (byteOk t L sd ph)

def markPatOk (sd : StateDef) (a : Arm) : Bool :=
  a.pat == .byte 60 || (sd.memchr == some 60 && a.pat == .any)

def markSeqOk (L : Labels) (sd : StateDef) (a : Arm) (q : ActSeq) : Bool :=
  tsCalls q.calls != .mark ||
    (markPatOk sd a && (match q.trans with | some (.goto j) => L.at j == some .lt | _ => false))

/-- a state outside `TagHead`: `mark_tag_start` only on a `<`, leading into a `lt` state -/
def plainStateOk (L : Labels) (sd : StateDef) : Bool :=
  sd.arms.all fun a => a.body.seqs.all (markSeqOk L sd a)

def stateOk (t : Table) (L : Labels) (i : StateId) (sd : StateDef) : Bool :=
  tsCalls sd.enter == .keep &&
  (match L.at i with
   | some ph => headStateOk t L sd ph
   | none => plainStateOk L sd)

def allIdx (p : StateId → StateDef → Bool) : List StateDef → StateId → Bool
  | [], _ => true
  | sd :: rest, i => p i sd && allIdx p rest (i + 1)

def HeadOk (t : Table) (L : Labels) : Bool := allIdx (stateOk t L) t.states 0

/-! ### computing `TagHead` from the table -/

def markTargets (t : Table) : List StateId :=
  t.states.flatMap fun sd => sd.arms.flatMap fun a => a.body.seqs.filterMap fun q =>
    if tsCalls q.calls == .mark then (match q.trans with | some (.goto j) => some j | _ => none) else none

def nextPhase : Phase → Pat → Phase
  | .lt, .byte 47 => .slash
  | _, _ => .name

def propagateSeq (ph : Phase) (pat : Pat) (L : Labels) (q : ActSeq) : Labels :=
  if tsCalls q.calls == .keep then
    match q.trans with
    | some (.goto j) => if (L.at j).isNone then L.set j (some (nextPhase ph pat)) else L
    | _ => L
  else L

def propagateState (L : Labels) (sd : StateDef) (i : StateId) : Labels :=
  match L.at i with
  | none => L
  | some ph => sd.arms.foldl (fun L a => a.body.seqs.foldl (propagateSeq ph a.pat) L) L

def propagateFrom : Labels → List StateDef → StateId → Labels
  | L, [], _ => L
  | L, sd :: rest, i => propagateFrom (propagateState L sd i) rest (i + 1)

def initLabels (t : Table) : Labels :=
  (markTargets t).foldl (fun L j => L.set j (some .lt)) (List.replicate t.states.length none)

/-- `TagHead` with phases: the `lt` states are the targets of `mark_tag_start` arms; a state reached
from a labelled state by an arm that neither unmarks nor finishes the tag name is labelled too. -/
def headLabels (t : Table) : Labels :=
  (List.range 4).foldl (fun L _ => propagateFrom L t.states 0) (initLabels t)

/-- the decidable state set `TagHead` -/
def tagHead (t : Table) : List StateId :=
  (List.range t.states.length).filter fun i => ((headLabels t).at i).isSome

/-- **`UnmarkOnLeave`**: every arm that leaves `TagHead` without `finish_tag_name` runs
`unmark_tag_start`; inside `TagHead` a byte that keeps the tag start extends `<`[`/`]name;
`mark_tag_start` happens only on `<` and leads into `TagHead`. -/
def UnmarkOnLeave (t : Table) : Bool := HeadOk t (headLabels t)

/-! ### diagnostics -/

def armIdx (sd : StateDef) (a : Arm) : Nat := sd.arms.idxOf a

def stateWitness (t : Table) (L : Labels) (i : StateId) (sd : StateDef) : List (StateId × Nat) :=
  let enter := if tsCalls sd.enter == .keep then [] else [(i, 1000)]
  let arms : List (StateId × Nat) :=
    match L.at i with
    | some ph =>
      (if sd.memchr.isNone then [] else [(i, 1001)]) ++
      (sd.arms.filter (fun a => !specialArmOk a)).map (fun a => (i, armIdx sd a)) ++
      ((List.range 256).filterMap fun n =>
        match findArm t c0 (some (UInt8.ofNat n)) sd.arms with
        | none => none
        | some a => if a.body.seqs.all (seqKeepOk L ph (UInt8.ofNat n)) then none else some (i, armIdx sd a)).eraseDups
    | none =>
      (sd.arms.filter (fun a => !a.body.seqs.all (markSeqOk L sd a))).map (fun a => (i, armIdx sd a))
  enter ++ arms

def witnessFrom (t : Table) (L : Labels) : List StateDef → StateId → List (StateId × Nat)
  | [], _ => []
  | sd :: rest, i => stateWitness t L i sd ++ witnessFrom t L rest (i + 1)

/-- offending (state index, arm index) pairs (arm index 1000 = enter actions, 1001 = memchr state
inside `TagHead`); empty iff `UnmarkOnLeave`. -/
def unmarkOnLeaveWitness (t : Table) : List (StateId × Nat) := witnessFrom t (headLabels t) t.states 0

end LolHtml.Model
