import LolHtml.Model.TextEncoder
import LolHtml.Lemmas.EncCodecs
import LolHtml.Lemmas.EscComment
/-!
Escaping / validation under an abstract ASCII-compatible codec (package enc's `Enc.Codec`).

lol-html validates names and comment text on the UTF-8 bytes of the Rust `&str` and then writes the
string in the document's encoding; text content is escaped on the `&str` and then encoded (unmappable
scalars become `&#N;`). The lemmas here compare `cs.flatMap f` for two per-scalar encodings `f` that
agree on ASCII and never produce a *structural* byte (a byte of the set `S`) for a non-ASCII scalar:
structural bytes, and sequences of them, occur in one exactly where they occur in the other — namely
where the ASCII scalars are.
-/
namespace LolHtml.Lemmas.EscCodec
open LolHtml LolHtml.Enc

def toChar (b : UInt8) : Char := Char.ofNat b.toNat

theorem toNat_ofNat_small (n : Nat) (h : n < 128) : (Char.ofNat n).toNat = n := by
  unfold Char.ofNat
  have hv : n.isValidChar := by left; omega
  simp only [hv, dite_true]
  rfl

theorem toChar_toNat {b : UInt8} (h : b < 128) : (toChar b).toNat = b.toNat := by
  unfold toChar
  exact toNat_ofNat_small _ (by rw [UInt8.lt_iff_toNat_lt] at h; exact h)

theorem ofNat_toChar {b : UInt8} (h : b < 128) : UInt8.ofNat (toChar b).toNat = b := by
  rw [toChar_toNat h]; exact UInt8.ofNat_toNat

theorem toChar_ofNat {ch : Char} : toChar (UInt8.ofNat ch.toNat) = ch ∨ 128 ≤ ch.toNat := by
  by_cases h : ch.toNat < 128
  · left
    unfold toChar
    rw [UInt8.toNat_ofNat', Nat.mod_eq_of_lt (by omega)]
    exact Char.ofNat_toNat ch
  · right; omega

/-- `f` encodes the scalars of `cs` like an ASCII-compatible encoding that never produces a byte of
`S` for a non-ASCII scalar. -/
structure UnitSafeOn (f : Char → Bytes) (S : UInt8 → Prop) (cs : List Char) : Prop where
  ascii : ∀ ch ∈ cs, ch.toNat < 128 → f ch = [UInt8.ofNat ch.toNat]
  other : ∀ ch ∈ cs, 128 ≤ ch.toNat → f ch ≠ [] ∧ ∀ b ∈ f ch, ¬ S b

theorem UnitSafeOn.tail {f : Char → Bytes} {S : UInt8 → Prop} {ch : Char} {cs : List Char}
    (h : UnitSafeOn f S (ch :: cs)) : UnitSafeOn f S cs :=
  ⟨fun c hc => h.ascii c (List.mem_cons_of_mem _ hc), fun c hc => h.other c (List.mem_cons_of_mem _ hc)⟩

variable {f : Char → Bytes} {S : UInt8 → Prop} (hS : ∀ b, S b → b < 128)
include hS

/-- a structural byte occurs in the encoded string exactly where the scalar of that code occurs -/
theorem mem_flatMap_iff {cs : List Char} (h : UnitSafeOn f S cs) {b : UInt8} (hb : S b) :
    b ∈ cs.flatMap f ↔ toChar b ∈ cs := by
  constructor
  · intro hm
    obtain ⟨ch, hch, hbf⟩ := List.mem_flatMap.mp hm
    by_cases ha : ch.toNat < 128
    · rw [h.ascii ch hch ha] at hbf
      simp only [List.mem_singleton] at hbf
      rcases toChar_ofNat (ch := ch) with h1 | h1
      · rw [hbf, h1]; exact hch
      · omega
    · exact absurd hb ((h.other ch hch (by omega)).2 b hbf)
  · intro hm
    refine List.mem_flatMap.mpr ⟨toChar b, hm, ?_⟩
    rw [h.ascii _ hm (by rw [toChar_toNat (hS b hb)]; have := hS b hb; rw [UInt8.lt_iff_toNat_lt] at this; exact this),
      ofNat_toChar (hS b hb)]
    simp

theorem flatMap_eq_nil_iff {cs : List Char} (h : UnitSafeOn f S cs) : cs.flatMap f = [] ↔ cs = [] := by
  cases cs with
  | nil => simp
  | cons ch cs =>
    simp only [List.flatMap_cons, List.append_eq_nil_iff, reduceCtorEq, iff_false, not_and]
    intro hf
    exfalso
    by_cases ha : ch.toNat < 128
    · rw [h.ascii ch (by simp) ha] at hf; cases hf
    · exact (h.other ch (by simp) (by omega)).1 hf

/-- prefixes made of structural bytes -/
theorem prefix_flatMap_iff : ∀ (X : Bytes) (cs : List Char), UnitSafeOn f S cs → (∀ b ∈ X, S b) →
    (X <+: cs.flatMap f ↔ X.map toChar <+: cs)
  | [], cs, _, _ => by simp
  | x :: X, [], _, _ => by simp
  | x :: X, ch :: cs, h, hX => by
    have hx := hX x (by simp)
    have ih := prefix_flatMap_iff X cs h.tail (fun b hb => hX b (by simp [hb]))
    simp only [List.flatMap_cons, List.map_cons]
    by_cases ha : ch.toNat < 128
    · rw [h.ascii ch (by simp) ha]
      simp only [List.singleton_append, List.cons_prefix_cons, ih]
      constructor
      · rintro ⟨h1, h2⟩
        refine ⟨?_, h2⟩
        rcases toChar_ofNat (ch := ch) with h3 | h3
        · rw [h1, h3]
        · omega
      · rintro ⟨h1, h2⟩
        exact ⟨by rw [← h1, ofNat_toChar (hS x hx)], h2⟩
    · obtain ⟨hne, hno⟩ := h.other ch (by simp) (by omega)
      obtain ⟨y, ys, hy⟩ := List.exists_cons_of_ne_nil hne
      rw [hy]
      simp only [List.cons_append, List.cons_prefix_cons]
      constructor
      · rintro ⟨h1, _⟩
        exact absurd hx (by rw [h1]; exact hno y (by rw [hy]; simp))
      · rintro ⟨h1, _⟩
        exfalso
        have := toChar_toNat (hS x hx)
        rw [h1] at this
        have hlt := hS x hx
        rw [UInt8.lt_iff_toNat_lt] at hlt
        simp at hlt
        omega

/-- a non-empty run of structural bytes cannot start inside the encoding of a non-ASCII scalar -/
theorem infix_skip (x : UInt8) (X : Bytes) (hx : S x) : ∀ (ys rest : Bytes), (∀ b ∈ ys, ¬ S b) →
    ((x :: X) <:+: ys ++ rest ↔ (x :: X) <:+: rest)
  | [], rest, _ => by simp
  | y :: ys, rest, h => by
    simp only [List.cons_append, List.infix_cons_iff, List.cons_prefix_cons]
    rw [infix_skip x X hx ys rest (fun b hb => h b (by simp [hb]))]
    constructor
    · rintro (⟨h1, _⟩ | h2)
      · exact absurd hx (by rw [h1]; exact h y (by simp))
      · exact h2
    · intro h2; exact Or.inr h2

/-- infixes made of structural bytes -/
theorem infix_flatMap_iff (x : UInt8) (X : Bytes) : ∀ (cs : List Char), UnitSafeOn f S cs → (∀ b ∈ x :: X, S b) →
    ((x :: X) <:+: cs.flatMap f ↔ (x :: X).map toChar <:+: cs)
  | [], _, _ => by simp
  | ch :: cs, h, hX => by
    have hx := hX x (by simp)
    have ih := infix_flatMap_iff x X cs h.tail hX
    have hp := prefix_flatMap_iff hS (x :: X) (ch :: cs) h hX
    simp only [List.map_cons] at ih hp ⊢
    rw [List.infix_cons_iff, ← hp, ← ih]
    simp only [List.flatMap_cons]
    by_cases ha : ch.toNat < 128
    · rw [h.ascii ch (by simp) ha]
      simp only [List.singleton_append, List.infix_cons_iff]
    · obtain ⟨_, hno⟩ := h.other ch (by simp) (by omega)
      rw [infix_skip hS x X hx (f ch) _ hno]
      constructor
      · intro h2; exact Or.inr h2
      · rintro (h1 | h2)
        · -- a prefix occurrence would start with a byte of `f ch`
          obtain ⟨hne, _⟩ := h.other ch (by simp) (by omega)
          obtain ⟨y, ys, hy⟩ := List.exists_cons_of_ne_nil hne
          rw [hy] at h1
          simp only [List.cons_append, List.cons_prefix_cons] at h1
          exact absurd hx (by rw [h1.1]; exact hno y (by rw [hy]; simp))
        · exact h2

end LolHtml.Lemmas.EscCodec
