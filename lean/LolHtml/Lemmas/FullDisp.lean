/-
Package `full`: what the core dispatcher's lexer-mode operations (`Disp.handleTag`, `Disp.handleNonTag`,
Model/Dispatcher.lean) do with the REAL controller, in terms of the event driver of `Model/FullEvents.lean`:
the controller calls of one `handleTag` are `tokIf true` (closing chunk of a pending text node) followed by
exactly one `ctlStep` start / end event whose token is the one `to_token` builds.
-/
import LolHtml.Model.FullCtl
import LolHtml.Model.FullEvents
import LolHtml.Lemmas.ChunkDisp

namespace LolHtml.Model.Full
open LolHtml LolHtml.Model

variable {cfg : Cfg}

/-- no hint is outstanding (lexer mode) -/
def Idle (d : Disp (FullSt cfg)) : Prop := d.pendingAux = false ∧ d.gotFlagsFromHint = false

/-- the fields of the dispatcher this analysis looks at -/
structure SameBut (d d' : Disp (FullSt cfg)) : Prop where
  pa : d'.pendingAux = d.pendingAux
  gf : d'.gotFlagsFromHint = d.gotFlagsFromHint

theorem SameBut.idle {d d' : Disp (FullSt cfg)} (h : SameBut d d') (hi : Idle d) : Idle d' :=
  ⟨by rw [h.pa]; exact hi.1, by rw [h.gf]; exact hi.2⟩

theorem SameBut.trans {a b c : Disp (FullSt cfg)} (h1 : SameBut a b) (h2 : SameBut b c) : SameBut a c :=
  ⟨h2.pa.trans h1.pa, h2.gf.trans h1.gf⟩

/-- `token_produced` with the real controller -/
theorem tokenProduced_full (d : Disp (FullSt cfg)) (t : Token) :
    (Disp.tokenProduced (fullCtl cfg) d t).1.ctl.1 = (token cfg d.ctl.1 t).1 ∧
    (Disp.tokenProduced (fullCtl cfg) d t).1.flags = d.flags ∧
    SameBut d (Disp.tokenProduced (fullCtl cfg) d t).1 ∧
    (Disp.tokenProduced (fullCtl cfg) d t).2 =
      (match (token cfg d.ctl.1 t).2.err with
       | some e => .error e
       | none => .ok ()) := by
  obtain ⟨a1, _, a3, _, _, a6, a7, _, _, _, _, _, a13⟩ := Chunk.tokenProduced_desc (ctl := fullCtl cfg) d t
  exact ⟨by rw [a1]; rfl, a3, ⟨a7, a6⟩, a13⟩

/-- `flush_pending_captured_text` with the real controller: the closing chunk, iff a text node is open -/
theorem flushPendingText_full (d : Disp (FullSt cfg)) :
    ∃ tok : Token, (∃ tt p, tok = .text [] tt true ⟨p, p⟩) ∧
      (d.flushPendingText (fullCtl cfg)).1.ctl.1 = (tokIf cfg d.textPending d.ctl.1 tok).1 ∧
      (d.flushPendingText (fullCtl cfg)).1.flags = d.flags ∧
      SameBut d (d.flushPendingText (fullCtl cfg)).1 ∧
      (d.flushPendingText (fullCtl cfg)).2 =
        (match (tokIf cfg d.textPending d.ctl.1 tok).2 with
         | some e => .error e
         | none => .ok ()) := by
  refine ⟨.text [] d.lastTextType true ⟨d.textPendingStart, d.textPendingStart⟩, ⟨_, _, rfl⟩, ?_⟩
  unfold Disp.flushPendingText tokIf
  cases hp : d.textPending with
  | false => exact ⟨rfl, rfl, ⟨rfl, rfl⟩, rfl⟩
  | true =>
    simp only [if_true]
    obtain ⟨a, b, c, e⟩ := tokenProduced_full (cfg := cfg) { d with textPending := false }
      (.text [] d.lastTextType true ⟨d.textPendingStart, d.textPendingStart⟩)
    exact ⟨a, b, ⟨c.pa, c.gf⟩, e⟩

/-- `adjust_capture_flags_for_tag_lexeme` on a start tag (no hint outstanding) is the start phase of the
event driver with the lexeme's attribute buffer as aux info -/
theorem adjust_start_full (d : Disp (FullSt cfg)) (hp : d.pendingAux = false) (input : Bytes) (lx : TagLexeme)
    (name : Range) (h : Nat) (ns : Model.Ns) (as : List AttrOutline) (sc : Bool) (ln : LocalName)
    (ho : lx.outline = .startTag name h ns as sc) (hl : LocalName.new input name h = some ln) :
    (d.adjustFlagsForTag (fullCtl cfg) input lx).1.ctl.1 = (startPhase d.ctl.1 ln ns ⟨input, as, sc⟩).1 ∧
    SameBut d (d.adjustFlagsForTag (fullCtl cfg) input lx).1 ∧
    (match (startPhase d.ctl.1 ln ns ⟨input, as, sc⟩).2 with
     | .ok f => (d.adjustFlagsForTag (fullCtl cfg) input lx).2 = .ok () ∧
                (d.adjustFlagsForTag (fullCtl cfg) input lx).1.flags = f
     | .error e => (d.adjustFlagsForTag (fullCtl cfg) input lx).2 = .error e) := by
  unfold Disp.adjustFlagsForTag startPhase
  rw [if_neg (by rw [hp]; simp)]
  simp only [ho, hl]
  have h2 : ((fullCtl cfg).startTag d.ctl ln ns).2 = (startTag d.ctl.1 ln ns).2 := rfl
  have h1 : ((fullCtl cfg).startTag d.ctl ln ns).1.1 = (startTag d.ctl.1 ln ns).1 := rfl
  rw [h2]
  cases hr : (startTag d.ctl.1 ln ns).2 with
  | flags f => exact ⟨h1, ⟨rfl, rfl⟩, rfl, rfl⟩
  | err e => exact ⟨h1, ⟨rfl, rfl⟩, rfl⟩
  | infoRequest =>
    simp only
    unfold Disp.answerAux
    have a2 : ((fullCtl cfg).auxInfo ((fullCtl cfg).startTag d.ctl ln ns).1 ⟨input, as, sc⟩).2 =
        (auxInfo (startTag d.ctl.1 ln ns).1 ⟨input, as, sc⟩).2 := rfl
    have a1 : ((fullCtl cfg).auxInfo ((fullCtl cfg).startTag d.ctl ln ns).1 ⟨input, as, sc⟩).1.1 =
        (auxInfo (startTag d.ctl.1 ln ns).1 ⟨input, as, sc⟩).1 := rfl
    dsimp only
    rw [a2]
    cases hx : (auxInfo (startTag d.ctl.1 ln ns).1 ⟨input, as, sc⟩).2 with
    | ok f => exact ⟨a1, ⟨rfl, rfl⟩, rfl, rfl⟩
    | error e => exact ⟨a1, ⟨rfl, rfl⟩, rfl⟩

/-- … on an end tag: `handle_end_tag` -/
theorem adjust_end_full (d : Disp (FullSt cfg)) (hp : d.pendingAux = false) (input : Bytes) (lx : TagLexeme)
    (name : Range) (h : Nat) (ln : LocalName)
    (ho : lx.outline = .endTag name h) (hl : LocalName.new input name h = some ln) :
    (d.adjustFlagsForTag (fullCtl cfg) input lx).1.ctl.1 = (endTag d.ctl.1 ln).1 ∧
    SameBut d (d.adjustFlagsForTag (fullCtl cfg) input lx).1 ∧
    (d.adjustFlagsForTag (fullCtl cfg) input lx).2 = .ok () ∧
    (d.adjustFlagsForTag (fullCtl cfg) input lx).1.flags = (endTag d.ctl.1 ln).2 := by
  unfold Disp.adjustFlagsForTag
  rw [if_neg (by rw [hp]; simp)]
  simp only [ho, hl]
  refine ⟨?_, ⟨?_, ?_⟩, ?_, ?_⟩ <;> first | rfl | trivial

theorem resumeEmission_same (d : Disp (FullSt cfg)) (lx : TagLexeme) :
    (d.resumeEmission (fullCtl cfg) lx).ctl = d.ctl ∧ (d.resumeEmission (fullCtl cfg) lx).flags = d.flags ∧
    SameBut d (d.resumeEmission (fullCtl cfg) lx) := by
  unfold Disp.resumeEmission
  split <;> exact ⟨rfl, rfl, ⟨rfl, rfl⟩⟩

/-- the dispatcher's own slice failures (excluded by C15 for the lexemes the lexer produces) -/
def DispOwn (e : Err) : Prop :=
  e = .panic "Bytes::slice out of range (tag name)" ∨ e = .panic "Bytes::slice out of range in to_token" ∨
  e = .panic "emit_chunk_before_lexeme: range out of bounds" ∨ e = .panic "Bytes::slice out of range (text raw)"

/-- `emit_token`: raw bytes before the lexeme, the token through the controller, the lexeme consumed -/
theorem emitToken_full (d : Disp (FullSt cfg)) (input : Bytes) (raw : Range) (tok : Token) :
    (∃ e, DispOwn e ∧ (d.emitToken (fullCtl cfg) input raw tok).2 = .error e ∧
        (d.emitToken (fullCtl cfg) input raw tok).1.ctl = d.ctl) ∨
    ((d.emitToken (fullCtl cfg) input raw tok).1.ctl.1 = (token cfg d.ctl.1 tok).1 ∧
     SameBut d (d.emitToken (fullCtl cfg) input raw tok).1 ∧
     (d.emitToken (fullCtl cfg) input raw tok).2 =
       (match (token cfg d.ctl.1 tok).2.err with
        | some e => .error e
        | none => .ok ())) := by
  unfold Disp.emitToken
  cases hc : d.emitChunkBefore input raw with
  | error e =>
    left
    unfold Disp.emitChunkBefore at hc
    split at hc
    · simp only [Except.error.injEq] at hc
      exact ⟨e, Or.inr (Or.inr (Or.inl hc.symm)), by simp [DRes.bind, DRes.ofExcept], by simp [DRes.bind, DRes.ofExcept]⟩
    · simp at hc
  | ok d1 =>
    right
    have hd1 : d1.ctl = d.ctl ∧ d1.pendingAux = d.pendingAux ∧ d1.gotFlagsFromHint = d.gotFlagsFromHint := by
      unfold Disp.emitChunkBefore at hc
      split at hc
      · simp at hc
      · simp only [Except.ok.injEq] at hc
        rw [← hc]
        dsimp only
        split <;> exact ⟨rfl, rfl, rfl⟩
    obtain ⟨t1, _, t3, t4⟩ := tokenProduced_full (cfg := cfg) d1 tok
    simp only [DRes.bind, DRes.ofExcept]
    rw [hd1.1] at t1 t4
    cases he : (token cfg d.ctl.1 tok).2.err with
    | some e =>
      rw [he] at t4
      simp only [t4]
      exact ⟨t1, ⟨t3.pa.trans hd1.2.1, t3.gf.trans hd1.2.2⟩, trivial⟩
    | none =>
      rw [he] at t4
      simp only [t4]
      refine ⟨?_, ⟨?_, ?_⟩, trivial⟩
      · rw [(Chunk.flushEncodingChange_desc _).1]; exact t1
      · rw [(Chunk.flushEncodingChange_desc _).2.2.2.2.2.2.1]; exact t3.pa.trans hd1.2.1
      · rw [(Chunk.flushEncodingChange_desc _).2.2.2.2.2.1]; exact t3.gf.trans hd1.2.2

/-- `try_produce_token_from_lexeme` on a start-tag lexeme -/
theorem produceTag_start_full (d : Disp (FullSt cfg)) (input : Bytes) (lx : TagLexeme)
    (name : Range) (h : Nat) (ns : Model.Ns) (as : List AttrOutline) (sc : Bool)
    (ho : lx.outline = .startTag name h ns as sc) :
    (d.flags.nextStartTag = false →
      (d.produceTag (fullCtl cfg) input lx).2 = .ok () ∧ (d.produceTag (fullCtl cfg) input lx).1.ctl = d.ctl ∧
      SameBut d (d.produceTag (fullCtl cfg) input lx).1) ∧
    (d.flags.nextStartTag = true →
      (∃ e, DispOwn e ∧ (d.produceTag (fullCtl cfg) input lx).2 = .error e) ∨
      (∃ n attrs raw,
        (d.produceTag (fullCtl cfg) input lx).1.ctl.1 =
          (token cfg d.ctl.1 (.startTag n attrs ns sc raw (srcOf lx.prevConsumed lx.raw) lx.prevConsumed)).1 ∧
        SameBut d (d.produceTag (fullCtl cfg) input lx).1 ∧
        (d.produceTag (fullCtl cfg) input lx).2 =
          (match (token cfg d.ctl.1 (.startTag n attrs ns sc raw (srcOf lx.prevConsumed lx.raw) lx.prevConsumed)).2.err with
           | some e => .error e
           | none => .ok ()))) := by
  constructor
  · intro hf
    unfold Disp.produceTag tagToToken
    simp only [ho, hf, Bool.false_eq_true, if_false]
    refine ⟨?_, ?_, ⟨?_, ?_⟩⟩ <;> first | rfl | trivial
  · intro hf
    unfold Disp.produceTag tagToToken
    simp only [ho, hf, if_true]
    cases h1 : checkedSlice input name with
    | none => exact Or.inl ⟨_, Or.inr (Or.inl rfl), rfl⟩
    | some n =>
      cases h2 : attrsOf input as with
      | none => exact Or.inl ⟨_, Or.inr (Or.inl rfl), rfl⟩
      | some attrs =>
        cases h3 : checkedSlice input lx.raw with
        | none => exact Or.inl ⟨_, Or.inr (Or.inl rfl), rfl⟩
        | some raw =>
          simp only
          rcases emitToken_full (cfg := cfg) { d with flags := { d.flags with nextStartTag := false } } input lx.raw
            (.startTag n attrs ns sc raw (srcOf lx.prevConsumed lx.raw) lx.prevConsumed) with ⟨e, he, h4, _⟩ | ⟨h4, h5, h6⟩
          · exact Or.inl ⟨e, he, h4⟩
          · exact Or.inr ⟨n, attrs, raw, h4, ⟨h5.pa, h5.gf⟩, h6⟩

/-- … on an end-tag lexeme -/
theorem produceTag_end_full (d : Disp (FullSt cfg)) (input : Bytes) (lx : TagLexeme)
    (name : Range) (h : Nat) (ho : lx.outline = .endTag name h) :
    (d.flags.nextEndTag = false →
      (d.produceTag (fullCtl cfg) input lx).2 = .ok () ∧ (d.produceTag (fullCtl cfg) input lx).1.ctl = d.ctl ∧
      SameBut d (d.produceTag (fullCtl cfg) input lx).1) ∧
    (d.flags.nextEndTag = true →
      (∃ e, DispOwn e ∧ (d.produceTag (fullCtl cfg) input lx).2 = .error e) ∨
      (∃ n raw,
        (d.produceTag (fullCtl cfg) input lx).1.ctl.1 =
          (token cfg d.ctl.1 (.endTag n raw (srcOf lx.prevConsumed lx.raw))).1 ∧
        SameBut d (d.produceTag (fullCtl cfg) input lx).1 ∧
        (d.produceTag (fullCtl cfg) input lx).2 =
          (match (token cfg d.ctl.1 (.endTag n raw (srcOf lx.prevConsumed lx.raw))).2.err with
           | some e => .error e
           | none => .ok ()))) := by
  constructor
  · intro hf
    unfold Disp.produceTag tagToToken
    simp only [ho, hf, Bool.false_eq_true, if_false]
    refine ⟨?_, ?_, ⟨?_, ?_⟩⟩ <;> first | rfl | trivial
  · intro hf
    unfold Disp.produceTag tagToToken
    simp only [ho, hf, if_true]
    cases h1 : checkedSlice input name with
    | none => exact Or.inl ⟨_, Or.inr (Or.inl rfl), rfl⟩
    | some n =>
      cases h3 : checkedSlice input lx.raw with
      | none => exact Or.inl ⟨_, Or.inr (Or.inl rfl), rfl⟩
      | some raw =>
        simp only
        rcases emitToken_full (cfg := cfg) { d with flags := { d.flags with nextEndTag := false } } input lx.raw
          (.endTag n raw (srcOf lx.prevConsumed lx.raw)) with ⟨e, he, h4, _⟩ | ⟨h4, h5, h6⟩
        · exact Or.inl ⟨e, he, h4⟩
        · exact Or.inr ⟨n, raw, h4, ⟨h5.pa, h5.gf⟩, h6⟩

theorem adjust_noname (d : Disp (FullSt cfg)) (hp : d.pendingAux = false) (input : Bytes) (lx : TagLexeme)
    (hl : LocalName.new input lx.outline.name lx.outline.nameHash = none) :
    (d.adjustFlagsForTag (fullCtl cfg) input lx).2 = .error (.panic "Bytes::slice out of range (tag name)") := by
  unfold Disp.adjustFlagsForTag
  rw [if_neg (by rw [hp]; simp)]
  cases ho : lx.outline with
  | startTag name h ns as sc =>
    rw [ho] at hl
    simp only [TagOutline.name, TagOutline.nameHash] at hl
    simp only [hl]
  | endTag name h =>
    rw [ho] at hl
    simp only [TagOutline.name, TagOutline.nameHash] at hl
    simp only [hl]

/-- `try_produce_token_from_lexeme` on a non-tag lexeme: nothing, a dispatcher slice failure, or ONE
text / comment / doctype token through the controller -/
theorem produceNonTag_full (d : Disp (FullSt cfg)) (input : Bytes) (lx : NonTagLexeme) :
    ((d.produceNonTag (fullCtl cfg) input lx).2 = .ok () ∧ (d.produceNonTag (fullCtl cfg) input lx).1.ctl = d.ctl ∧
      SameBut d (d.produceNonTag (fullCtl cfg) input lx).1) ∨
    (∃ e, DispOwn e ∧ (d.produceNonTag (fullCtl cfg) input lx).2 = .error e) ∨
    (∃ tok, (CtlEv.other tok).WellKinded ∧
      (d.produceNonTag (fullCtl cfg) input lx).1.ctl.1 = (token cfg d.ctl.1 tok).1 ∧
      SameBut d (d.produceNonTag (fullCtl cfg) input lx).1 ∧
      (d.produceNonTag (fullCtl cfg) input lx).2 =
        (match (token cfg d.ctl.1 tok).2.err with
         | some e => .error e
         | none => .ok ())) := by
  unfold Disp.produceNonTag
  split
  · rename_i tt _
    split
    · -- a text lexeme under the TEXT flag
      unfold Disp.produceText
      cases h3 : checkedSlice input lx.raw with
      | none => exact Or.inr (Or.inl ⟨_, Or.inr (Or.inr (Or.inr rfl)), rfl⟩)
      | some raw =>
        simp only
        cases hc : d.emitChunkBefore input lx.raw with
        | error e =>
          unfold Disp.emitChunkBefore at hc
          split at hc
          · simp only [Except.error.injEq] at hc
            exact Or.inr (Or.inl ⟨e, Or.inr (Or.inr (Or.inl hc.symm)), by simp [DRes.bind, DRes.ofExcept]⟩)
          · simp at hc
        | ok d1 =>
          have hd1 : d1.ctl = d.ctl ∧ d1.pendingAux = d.pendingAux ∧ d1.gotFlagsFromHint = d.gotFlagsFromHint := by
            unfold Disp.emitChunkBefore at hc
            split at hc
            · simp at hc
            · simp only [Except.ok.injEq] at hc
              rw [← hc]
              dsimp only
              split <;> exact ⟨rfl, rfl, rfl⟩
          refine Or.inr (Or.inr ⟨.text raw tt false (srcOf lx.prevConsumed lx.raw), trivial, ?_⟩)
          simp only [DRes.bind, DRes.ofExcept]
          have hctl : ({ d1 with lastTextType := tt } : Disp (FullSt cfg)).ctl = d.ctl := hd1.1
          have hpa : ({ d1 with lastTextType := tt } : Disp (FullSt cfg)).pendingAux = d.pendingAux := hd1.2.1
          have hgf : ({ d1 with lastTextType := tt } : Disp (FullSt cfg)).gotFlagsFromHint = d.gotFlagsFromHint := hd1.2.2
          generalize ({ d1 with lastTextType := tt } : Disp (FullSt cfg)) = d1' at hctl hpa hgf ⊢
          obtain ⟨t1, _, t3, t4⟩ := tokenProduced_full (cfg := cfg) d1' (.text raw tt false (srcOf lx.prevConsumed lx.raw))
          rw [hctl] at t1 t4
          cases he : (token cfg d.ctl.1 (.text raw tt false (srcOf lx.prevConsumed lx.raw))).2.err with
          | some e =>
            rw [he] at t4
            rw [t4]
            exact ⟨t1, ⟨t3.pa.trans hpa, t3.gf.trans hgf⟩, rfl⟩
          | none =>
            rw [he] at t4
            rw [t4]
            exact ⟨t1, ⟨t3.pa.trans hpa, t3.gf.trans hgf⟩, rfl⟩
    · exact Or.inl ⟨rfl, rfl, ⟨rfl, rfl⟩⟩
  · rename_i hnt
    cases hn : nonTagToToken d.flags input lx with
    | none => exact Or.inr (Or.inl ⟨_, Or.inr (Or.inl rfl), rfl⟩)
    | some ot =>
      cases ot with
      | none => exact Or.inl ⟨rfl, rfl, ⟨rfl, rfl⟩⟩
      | some tok =>
        simp only
        have hkind : (CtlEv.other tok).WellKinded := by
          unfold nonTagToToken at hn
          split at hn
          · split at hn
            · split at hn
              · simp only [Option.some.injEq] at hn; rw [← hn]; trivial
              · simp at hn
            · simp at hn
          · split at hn
            · split at hn
              · simp only [Option.some.injEq] at hn; rw [← hn]; trivial
              · simp at hn
            · simp at hn
          · simp at hn
        rcases emitToken_full (cfg := cfg) d input lx.raw tok with ⟨e, he, h4, _⟩ | ⟨h4, h5, h6⟩
        · exact Or.inr (Or.inl ⟨e, he, h4⟩)
        · exact Or.inr (Or.inr ⟨tok, hkind, h4, h5, h6⟩)

end LolHtml.Model.Full
