import LolHtml.Lemmas.ScanFrame
import LolHtml.Lemmas.InvStep
/-!
# Linear work, scanner side: where the tag scanner's bookmark points

A tag-scanner state function that hands over to the lexer does so with a bookmark at the `tag_start`
it had when the state function was entered, or at/after the cursor it was entered with
(`scan_directive_pos`). No side-condition on the table.
-/
namespace LolHtml.Model

variable {κ : Type}

/-- `tag_start` during a state function entered with `tag_start = p0` at cursor `n0` -/
def TSok (p0 : Option Nat) (n0 : Nat) (ts : Option Nat) : Prop :=
  ts = p0 ∨ (∃ q, ts = some q ∧ n0 ≤ q) ∨ ts = none

/-- the claim about the bookmark -/
def DirPos (p0 : Option Nat) (n0 : Nat) (sig : Option Signal) : Prop :=
  ∀ d bm, sig = some (.directive d bm) → p0 = some bm.pos ∨ n0 ≤ bm.pos

section
variable {env : Env κ} {inp : Bytes}

theorem scanEmitHint_dirpos (c : Common) (s : ScanRegs) (x : Ctx κ) (ts : Nat) (ie : Bool) (d : Directive) (bm : Bookmark)
    (h : (scanEmitHint env inp c s x ts ie).2 = some (.directive d bm)) : bm.pos = ts := by
  unfold scanEmitHint at h
  split at h
  · cases h
  · dsimp only at h
    split at h
    · cases h
    · cases h
    · simp only [Option.some.injEq, Signal.directive.injEq] at h
      rw [← h.2]; rfl

theorem scanAct_dir (a : ActName) (c : Common) (s : ScanRegs) (x : Ctx κ) (d : Directive) (bm : Bookmark)
    (h : (scanAct env a inp c s x).2 = some (.directive d bm)) : s.tagStart = some bm.pos := by
  cases a <;> simp only [scanAct] at h
  case finishTagName =>
    unfold scanFinishTagName at h
    split at h
    · cases h
    · rename_i ts hts
      dsimp only at h
      split at h
      · cases h
      · split at h
        · simp only [Option.some.injEq, Signal.directive.injEq] at h
          rw [hts, ← h.2]; rfl
        · rw [hts, scanEmitHint_dirpos _ _ _ _ _ d bm h]
  all_goals
    exfalso
    revert h
    (repeat' split) <;> simp

theorem runCalls_scan_dir (cs : List Call) (m : M κ) (hs : m.isScanner = true) (p0 : Option Nat) (n0 : Nat)
    (hts : TSok p0 n0 m.ts) (hn : n0 ≤ m.c.nextPos - 1) :
    DirPos p0 n0 (runCalls env inp cs m).2 ∧
    ((runCalls env inp cs m).2 = none → TSok p0 n0 (runCalls env inp cs m).1.ts) := by
  induction cs generalizing m with
  | nil => exact ⟨fun d bm h => by simp [runCalls] at h, fun _ => hts⟩
  | cons cl cs ih =>
    obtain ⟨hf, hta⟩ := act_frame (env := env) (inp := inp) cl.act m hs
    have hts' : TSok p0 n0 (act env cl.act inp m).1.ts := by
      rw [hta]
      cases tsAct cl.act with
      | keep => exact hts
      | clear => exact Or.inr (Or.inr rfl)
      | mark => exact Or.inr (Or.inl ⟨_, rfl, hn⟩)
    have ih' := ih (act env cl.act inp m).1 hf.scan hts' (by rw [hf.nextPos]; exact hn)
    have hdir : ∀ d bm, (act env cl.act inp m).2 = some (.directive d bm) → p0 = some bm.pos ∨ n0 ≤ bm.pos := by
      intro d bm h
      obtain ⟨c, r, x⟩ := m
      cases r with
      | lexer l => simp [M.isScanner] at hs
      | scanner s =>
        have := scanAct_dir cl.act c s x d bm h
        have hts2 : TSok p0 n0 s.tagStart := hts
        rcases hts2 with h1 | ⟨q, h1, h2⟩ | h1
        · left; rw [← h1]; exact this
        · right; rw [this] at h1; simp only [Option.some.injEq] at h1; omega
        · rw [this] at h1; cases h1
    simp only [runCalls]
    split
    · rename_i s hsig
      split
      · refine ⟨fun d bm h => ?_, fun h => by cases h⟩
        simp only [Option.some.injEq] at h
        subst h
        exact hdir d bm hsig
      · exact ih'
    · exact ih'

theorem applyTrans_ts (t : Trans) (m : M κ) : (applyTrans env t m).1.ts = m.ts ∧
    ∀ d bm, (applyTrans env t m).2 ≠ some (.directive d bm) := by
  cases t <;> simp only [applyTrans]
  · exact ⟨rfl, by simp⟩
  · exact ⟨rfl, by simp⟩
  · split <;> exact ⟨rfl, by simp⟩

theorem runSeq_scan_dir (s : ActSeq) (m : M κ) (hs : m.isScanner = true) (p0 : Option Nat) (n0 : Nat)
    (hts : TSok p0 n0 m.ts) (hn : n0 ≤ m.c.nextPos - 1) : DirPos p0 n0 (runSeq env inp s m).2.1 := by
  obtain ⟨h1, _⟩ := runCalls_scan_dir (env := env) (inp := inp) s.calls m hs p0 n0 hts hn
  unfold runSeq
  dsimp only
  split
  · rename_i sig hsig
    intro d bm h
    have : sig = .directive d bm := by simpa using h
    subst this
    exact h1 d bm hsig
  · split
    · intro d bm h; simp at h
    · intro d bm h
      exact absurd h ((applyTrans_ts _ _).2 d bm)

theorem runBody_scan_dir (b : Body) (m : M κ) (hs : m.isScanner = true) (p0 : Option Nat) (n0 : Nat)
    (hts : TSok p0 n0 m.ts) (hn : n0 ≤ m.c.nextPos - 1) : DirPos p0 n0 (runBody env inp b m).2.1 := by
  cases b with
  | seq s => exact runSeq_scan_dir s m hs p0 n0 hts hn
  | ite c t e =>
    simp only [runBody]
    split
    · intro d bm h; simp at h
    · exact runSeq_scan_dir t m hs p0 n0 hts hn
    · exact runSeq_scan_dir e m hs p0 n0 hts hn

theorem break_nodir' (m : M κ) (d : Directive) (bm : Bookmark) :
    (breakOnEndOfInput inp m).2 ≠ some (.directive d bm) := by
  unfold breakOnEndOfInput
  dsimp only
  (repeat' split) <;> simp

theorem enterSeq_ts (m : M κ) : (enterSeq m).ts = m.ts ∧ (enterSeq m).isScanner = m.isScanner ∧ (enterSeq m).c = m.c := by
  obtain ⟨c, r, x⟩ := m
  cases r <;> exact ⟨rfl, rfl, rfl⟩

theorem leaveSeq_ts (m : M κ) : (leaveSeq m).ts = m.ts ∧ (leaveSeq m).isScanner = m.isScanner ∧ (leaveSeq m).c = m.c := by
  obtain ⟨c, r, x⟩ := m
  cases r <;> exact ⟨rfl, rfl, rfl⟩

def ScanArmsPost (p0 : Option Nat) (n0 : Nat) (m : M κ) : (M κ × Option Signal) ⊕ M κ → Prop
  | .inl r => DirPos p0 n0 r.2
  | .inr m' => m'.ts = m.ts ∧ m'.isScanner = true ∧ m'.c = m.c

theorem runSeqArms_scan_dir (ch : Option UInt8) (arms : List Arm) (m : M κ) (hs : m.isScanner = true)
    (p0 : Option Nat) (n0 : Nat) (hts : TSok p0 n0 m.ts) (hn : n0 ≤ m.c.nextPos - 1) :
    ScanArmsPost p0 n0 m (runSeqArms env inp ch arms m) := by
  induction arms generalizing m with
  | nil => exact ⟨rfl, hs, rfl⟩
  | cons arm rest ih =>
    simp only [runSeqArms]
    have hle : ScanArmsPost p0 n0 m (runSeqArms env inp ch rest (leaveSeq (enterSeq m))) := by
      have e1 := enterSeq_ts m
      have e2 := leaveSeq_ts (enterSeq m)
      have := ih (leaveSeq (enterSeq m)) (by rw [e2.2.1, e1.2.1]; exact hs) (by rw [e2.1, e1.1]; exact hts)
        (by rw [e2.2.2, e1.2.2]; exact hn)
      cases hres : runSeqArms env inp ch rest (leaveSeq (enterSeq m)) with
      | inl r => rw [hres] at this; exact this
      | inr m' =>
        rw [hres] at this
        simp only [ScanArmsPost] at this ⊢
        exact ⟨by rw [this.1, e2.1, e1.1], this.2.1, by rw [this.2.2, e2.2.2, e1.2.2]⟩
    split
    · split
      · exact hle
      · split
        · exact fun d bm h => absurd h (break_nodir' _ d bm)
        · exact hle
        · simp only [ScanArmsPost]
          have e1 := enterSeq_ts m
          refine runBody_scan_dir arm.body _ ?_ p0 n0 ?_ ?_
          · rw [(leaveSeq_ts _).2.1]; exact e1.2.1.trans hs
          · rw [(leaveSeq_ts _).1]; exact e1.1 ▸ hts
          · rw [(leaveSeq_ts _).2.2]
            dsimp only
            rw [e1.2.2]
            omega
    · exact ih m hs hts hn

theorem dispatch_scan_dir (ch : Option UInt8) (arms : List Arm) (m : M κ) (hs : m.isScanner = true)
    (p0 : Option Nat) (n0 : Nat) (hts : TSok p0 n0 m.ts) (hn : n0 ≤ m.c.nextPos - 1) :
    DirPos p0 n0 (dispatch env inp ch arms m).2 := by
  have h1 := runSeqArms_scan_dir (env := env) (inp := inp) ch arms m hs p0 n0 hts hn
  unfold dispatch
  split
  · rename_i r hr; rw [hr] at h1; exact h1
  · rename_i m' hr
    rw [hr] at h1
    obtain ⟨t1, t2, t3⟩ := h1
    split
    · intro d bm h; simp at h
    · rename_i arm _
      have hb := runBody_scan_dir (env := env) (inp := inp) arm.body m' t2 p0 n0 (by rw [t1]; exact hts)
        (by rw [t3]; exact hn)
      have hmatch : DirPos p0 n0
          (match (runBody env inp arm.body m').2.1, (runBody env inp arm.body m').2.2 with
           | some sig, _ => ((runBody env inp arm.body m').1, some sig)
           | none, .transitioned => ((runBody env inp arm.body m').1, none)
           | none, .fell => breakOnEndOfInput inp (runBody env inp arm.body m').1).2 := by
        split
        · rename_i sig _ hsig
          intro d bm h
          simp only [Option.some.injEq] at h
          subst h
          exact hb d bm hsig
        · intro d bm h; simp at h
        · exact fun d bm h => absurd h (break_nodir' _ d bm)
      split
      · exact hmatch
      · split
        · exact hmatch
        · exact fun d bm h => absurd h (break_nodir' _ d bm)
      · exact hb

/-- **Where the scanner's bookmark points.** -/
theorem scan_directive_pos (m : M κ) (hs : m.isScanner = true) (d : Directive) (bm : Bookmark)
    (h : (stateFn env inp m).2 = some (.directive d bm)) : m.ts = some bm.pos ∨ m.c.nextPos ≤ bm.pos := by
  rw [stateFn_eq] at h
  split at h
  · simp at h
  · rename_i sd hst
    have hent : DirPos m.ts m.c.nextPos (enterPhase env inp sd m).2 ∧
        ((enterPhase env inp sd m).2 = none → (enterPhase env inp sd m).1.isScanner = true ∧
          TSok m.ts m.c.nextPos (enterPhase env inp sd m).1.ts ∧
          (enterPhase env inp sd m).1.c.nextPos = m.c.nextPos) := by
      unfold enterPhase
      split
      · obtain ⟨r1, r2⟩ := runCalls_scan_dir (env := env) (inp := inp) sd.enter
          { m with c := { m.c with nextPos := m.c.nextPos + 1 } } hs m.ts m.c.nextPos (Or.inl rfl)
          (by dsimp only; omega)
        obtain ⟨hf, _⟩ := runCalls_frame (env := env) (inp := inp) sd.enter
          { m with c := { m.c with nextPos := m.c.nextPos + 1 } } hs
        dsimp only
        split
        · rename_i sig hsig
          refine ⟨fun d bm h => ?_, fun h => by cases h⟩
          simp only [Option.some.injEq] at h
          subst h
          exact r1 d bm hsig
        · rename_i hnone
          refine ⟨fun d bm h => by simp at h, fun _ => ⟨hf.scan, r2 hnone, ?_⟩⟩
          dsimp only
          rw [hf.nextPos]
          dsimp only
          omega
      · exact ⟨fun d bm h => by simp at h, fun _ => ⟨hs, Or.inl rfl, rfl⟩⟩
    split at h
    · rename_i sig hsig
      simp only [Option.some.injEq] at h
      subst h
      exact hent.1 d bm hsig
    · rename_i hnone
      obtain ⟨e1, e2, e3⟩ := hent.2 hnone
      unfold consumePhase at h
      split at h
      · dsimp only at h
        split at h
        · exact dispatch_scan_dir _ _ _ (by exact e1) m.ts m.c.nextPos (by exact e2) (by dsimp only; omega) d bm h
        · exact dispatch_scan_dir _ _ _ (by exact e1) m.ts m.c.nextPos (by exact e2) (by dsimp only; omega) d bm h
      · dsimp only at h
        exact dispatch_scan_dir _ _ _ (by exact e1) m.ts m.c.nextPos (by exact e2) (by dsimp only; omega) d bm h

end
end LolHtml.Model
