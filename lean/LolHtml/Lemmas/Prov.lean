import LolHtml.Lemmas.TokParse
/-!
# Error provenance

Every error signalled by the interpreter is either returned by a sink operation, or produced by the
tree-builder simulator in strict mode (`ambiguity`), or panic-class. Hence, over a sink that never
fails with anything but a panic-class error and a non-strict simulator, every error signal is
panic-class (`PanicLike`) — a frame-style pass, no positional invariant needed.
-/
namespace LolHtml.Model

variable {κ : Type}

/-- panic-class errors, not counting an `internal` at a `U2` site (only the dispatcher raises one) -/
def PanicLike : Err → Prop
  | .panic _ => True
  | .internal s => ¬ U2 s
  | _ => False

/-- the sink keeps `J` and only fails panic-like -/
structure OpsProv (ops : SinkOps κ) (inp : Bytes) (J : κ → Prop) : Prop where
  handleTag : ∀ lx k, J k → J (ops.handleTag inp lx k).1 ∧ ∀ e, (ops.handleTag inp lx k).2 = .error e → PanicLike e
  handleNonTag : ∀ lx k, J k → J (ops.handleNonTag inp lx k).1 ∧ ∀ e, (ops.handleNonTag inp lx k).2 = .error e → PanicLike e
  startTagHint : ∀ n ns k, J k → J (ops.startTagHint n ns k).1 ∧ ∀ e, (ops.startTagHint n ns k).2 = .error e → PanicLike e
  endTagHint : ∀ n k, J k → J (ops.endTagHint n k).1 ∧ ∀ e, (ops.endTagHint n k).2 = .error e → PanicLike e

def XInv (J : κ → Prop) (x : Ctx κ) : Prop := J x.sink ∧ x.sim.strict = false

def ProvPost (J : κ → Prop) (r : M κ × Option Signal) : Prop :=
  XInv J r.1.x ∧ ∀ e, r.2 = some (.err e) → PanicLike e

/-! ### the simulator in non-strict mode -/

theorem Sim.leaveNs_strict {s s' : Sim} {f : Feedback} (h : s.leaveNs = some (s', f)) : s'.strict = s.strict := by
  unfold Sim.leaveNs at h
  split at h
  · simp only [Option.some.injEq, Prod.mk.injEq] at h; rw [← h.1]
  · cases h

theorem Sim.feedbackForStartTag_nonstrict {cfg : TagCfg} {s : Sim} (hs : s.strict = false) (t : Nat) :
    (∀ e, s.feedbackForStartTag cfg t = .error e → PanicLike e) ∧
    (∀ r, s.feedbackForStartTag cfg t = .ok r → r.1.strict = false) := by
  unfold Sim.feedbackForStartTag
  simp only [hs, Bool.false_eq_true, if_false]
  refine ⟨fun e h => ?_, fun r h => ?_⟩
  · (repeat' split at h) <;> first | (cases h; done) | (simp only [Except.error.injEq] at h; subst h; trivial)
  · split at h
    · simp only [Except.ok.injEq] at h; subst h; exact hs
    · split at h
      · simp only [Except.ok.injEq] at h; subst h; exact hs
      · split at h
        · split at h
          · rename_i r' hr'
            simp only [Except.ok.injEq] at h
            subst h
            unfold Sim.startTagInForeign at hr'
            (repeat' split at hr') <;>
              first
              | (rw [Sim.leaveNs_strict hr']; exact hs)
              | (simp only [Option.some.injEq] at hr'; subst hr'; exact hs)
          · cases h
        · simp only [Except.ok.injEq] at h; subst h; exact hs

theorem Sim.feedbackForEndTag_nonstrict {cfg : TagCfg} {s : Sim} (hs : s.strict = false) (t : Nat) :
    (∀ e, s.feedbackForEndTag cfg t = .error e → PanicLike e) ∧
    (∀ r, s.feedbackForEndTag cfg t = .ok r → r.1.strict = false) := by
  unfold Sim.feedbackForEndTag
  simp only [hs, Bool.false_eq_true, if_false]
  refine ⟨fun e h => ?_, fun r h => ?_⟩
  · split at h
    · cases h
    · simp only [Except.error.injEq] at h; subst h; trivial
  · split at h
    · rename_i r' hr'
      simp only [Except.ok.injEq] at h
      subst h
      split at hr'
      · unfold Sim.checkIntegrationPointExit at hr'
        (repeat' split at hr') <;>
          first
          | (rw [Sim.leaveNs_strict hr']; exact hs)
          | (simp only [Option.some.injEq] at hr'; subst hr'; exact hs)
      · split at hr'
        · rw [Sim.leaveNs_strict hr']; exact hs
        · simp only [Option.some.injEq] at hr'; subst hr'; exact hs
    · cases h

theorem Sim.runCallback_strict {s s' : Sim} {k : RLKind} {v : TagView} {f : Feedback}
    (h : s.runCallback k v = some (s', f)) : s'.strict = s.strict := by
  unfold Sim.runCallback at h
  (repeat' split at h) <;>
    first
    | (cases h; done)
    | exact Sim.leaveNs_strict h
    | (simp only [Option.some.injEq] at h
       have h1 := congrArg Prod.fst h
       dsimp only [Sim.enterNs] at h1
       rw [← h1])

theorem lexGetFeedback_nonstrict {cfg : TagCfg} {sim : Sim} (hs : sim.strict = false) (fd : FeedbackDirective)
    (tok : TagOutline) :
    (∀ e, lexGetFeedback cfg sim fd tok = .error e → PanicLike e) ∧
    (∀ r, lexGetFeedback cfg sim fd tok = .ok r → r.1.strict = false) := by
  unfold lexGetFeedback
  split
  · exact ⟨fun e h => (by cases h), fun r h => by simp only [Except.ok.injEq] at h; subst h; exact hs⟩
  · exact ⟨fun e h => (by cases h), fun r h => by simp only [Except.ok.injEq] at h; subst h; exact hs⟩
  · split
    · rename_i hsh _ _ _
      obtain ⟨g1, g2⟩ := Sim.feedbackForStartTag_nonstrict (cfg := cfg) hs hsh
      cases hfb : sim.feedbackForStartTag cfg hsh with
      | error e' =>
        refine ⟨fun e h => ?_, fun r h => by simp [Except.map] at h⟩
        simp [Except.map] at h; subst h; exact g1 _ hfb
      | ok v =>
        refine ⟨fun e h => by simp [Except.map] at h, fun r h => ?_⟩
        simp [Except.map] at h; subst h; exact g2 _ hfb
    · rename_i hsh
      obtain ⟨g1, g2⟩ := Sim.feedbackForEndTag_nonstrict (cfg := cfg) hs hsh
      cases hfb : sim.feedbackForEndTag cfg hsh with
      | error e' =>
        refine ⟨fun e h => ?_, fun r h => by simp [Except.map] at h⟩
        simp [Except.map] at h; subst h; exact g1 _ hfb
      | ok v =>
        refine ⟨fun e h => by simp [Except.map] at h, fun r h => ?_⟩
        simp [Except.map] at h; subst h; exact g2 _ hfb

theorem lexHandleFeedback_nonstrict {inp : Bytes} {c : Common} {sim : Sim} (hs : sim.strict = false) (f : Feedback)
    (o : TagOutline) :
    (∀ e, lexHandleFeedback inp c sim f o = .error e → PanicLike e) ∧
    (∀ r, lexHandleFeedback inp c sim f o = .ok r → r.2.strict = false) := by
  unfold lexHandleFeedback
  dsimp only
  split
  · split
    · exact ⟨fun e h => by simp only [Except.error.injEq] at h; subst h; trivial, fun r h => by cases h⟩
    · split
      · exact ⟨fun e h => by simp only [Except.error.injEq] at h; subst h; trivial, fun r h => by cases h⟩
      · rename_i s' f' hcb
        have hi' : s'.strict = false := by rw [Sim.runCallback_strict hcb]; exact hs
        cases f' <;> dsimp only
        · exact ⟨fun e h => (by cases h), fun r h => by simp only [Except.ok.injEq] at h; subst h; exact hi'⟩
        · exact ⟨fun e h => (by cases h), fun r h => by simp only [Except.ok.injEq] at h; subst h; exact hi'⟩
        · exact ⟨fun e h => by simp only [Except.error.injEq] at h; subst h; trivial, fun r h => by cases h⟩
        · exact ⟨fun e h => (by cases h), fun r h => by simp only [Except.ok.injEq] at h; subst h; exact hi'⟩
  · cases f <;> dsimp only
    · exact ⟨fun e h => (by cases h), fun r h => by simp only [Except.ok.injEq] at h; subst h; exact hs⟩
    · exact ⟨fun e h => (by cases h), fun r h => by simp only [Except.ok.injEq] at h; subst h; exact hs⟩
    · exact ⟨fun e h => by simp only [Except.error.injEq] at h; subst h; trivial, fun r h => by cases h⟩
    · exact ⟨fun e h => (by cases h), fun r h => by simp only [Except.ok.injEq] at h; subst h; exact hs⟩


/-! ### the interpreter -/

section
variable {env : Env κ} {inp : Bytes} {J : κ → Prop}

theorem lexEmitNonTag_prov (h : OpsProv env.ops inp J) (c : Common) (l : LexRegs) (x : Ctx κ)
    (o : Option NonTagOutline) (e : Nat) (hx : XInv J x) : ProvPost J (lexEmitNonTag env inp c l x o e) := by
  unfold lexEmitNonTag
  obtain ⟨h1, h2⟩ := h.handleNonTag ⟨x.prevConsumed, ⟨l.lexemeStart, e⟩, o⟩ x.sink hx.1
  dsimp only at h1 h2 ⊢
  split
  · exact ⟨⟨h1, hx.2⟩, fun e h => by cases h⟩
  · rename_i e' herr
    refine ⟨⟨h1, hx.2⟩, fun e'' h => ?_⟩
    simp only [Option.some.injEq, Signal.err.injEq] at h
    subst h
    exact h2 _ herr

theorem lexEmitText_prov (h : OpsProv env.ops inp J) (c : Common) (l : LexRegs) (x : Ctx κ) (hx : XInv J x) :
    ProvPost J (lexEmitText env inp c l x) := by
  unfold lexEmitText
  split
  · exact lexEmitNonTag_prov h _ _ _ _ _ hx
  · exact ⟨hx, fun e h => by cases h⟩

theorem lexEmitEof_prov (h : OpsProv env.ops inp J) (m : M κ) (hx : XInv J m.x) : ProvPost J (lexEmitEof env inp m) := by
  unfold lexEmitEof
  split
  · exact lexEmitNonTag_prov h _ _ _ _ _ hx
  · exact ⟨hx, fun e h => by cases h⟩

theorem andThen_prov (r : M κ × Option Signal) (g : M κ → M κ × Option Signal) (hr : ProvPost J r)
    (hg : ∀ m, XInv J m.x → ProvPost J (g m)) : ProvPost J (andThen r g) := by
  unfold andThen
  split
  · rename_i s hs
    exact ⟨hr.1, fun e h => by simp only [Option.some.injEq] at h; subst h; exact hr.2 e hs⟩
  · exact hg _ hr.1

theorem lexEmitTagLexeme_prov (h : OpsProv env.ops inp J) (c : Common) (l : LexRegs) (x : Ctx κ) (sim : Sim)
    (t : TagOutline) (e : Nat) (hx : J x.sink) (hs : sim.strict = false) :
    ProvPost J (lexEmitTagLexeme env inp c l x sim t e) := by
  unfold lexEmitTagLexeme
  obtain ⟨h1, h2⟩ := h.handleTag ⟨x.prevConsumed, ⟨l.lexemeStart, e⟩, t⟩ x.sink hx
  dsimp only at h1 h2 ⊢
  split
  · rename_i e' herr
    refine ⟨⟨h1, hs⟩, fun e'' h => ?_⟩
    simp only [Option.some.injEq, Signal.err.injEq] at h
    subst h
    exact h2 _ herr
  · exact ⟨⟨h1, hs⟩, fun e h => by cases h⟩
  · exact ⟨⟨h1, hs⟩, fun e h => by cases h⟩

theorem lexEmitTag_prov (h : OpsProv env.ops inp J) (c : Common) (l : LexRegs) (x : Ctx κ) (hx : XInv J x) :
    ProvPost J (lexEmitTag env inp c l x) := by
  unfold lexEmitTag
  split
  · refine ⟨hx, fun e h => ?_⟩
    simp only [Option.some.injEq, Signal.err.injEq] at h
    subst h
    simp [PanicLike, U2]
  · rename_i tok _
    dsimp only
    obtain ⟨g1, g2⟩ := lexGetFeedback_nonstrict (cfg := env.cfg) hx.2 l.fd tok
    split
    · rename_i e herr
      exact ⟨hx, fun e' h => by
        simp only [Option.some.injEq, Signal.err.injEq] at h; subst h; exact g1 _ herr⟩
    · rename_i sf hsf
      have hs1 := g2 _ hsf
      split
      · rename_i e herr
        refine ⟨⟨hx.1, hs1⟩, fun e' h => ?_⟩
        simp only [Option.some.injEq, Signal.err.injEq] at h
        subst h
        split at herr
        · exact (lexHandleFeedback_nonstrict hs1 _ tok).1 _ herr
        · cases herr
      · rename_i cs hcs
        have hs2 : cs.2.strict = false := by
          split at hcs
          · exact (lexHandleFeedback_nonstrict hs1 _ tok).2 _ hcs
          · simp only [Except.ok.injEq] at hcs; subst hcs; exact hs1
        exact lexEmitTagLexeme_prov h _ _ x _ _ _ hx.1 hs2

theorem lexAct_prov (h : OpsProv env.ops inp J) (a : ActName) (c : Common) (l : LexRegs) (x : Ctx κ) (hx : XInv J x) :
    ProvPost J (lexAct env a inp c l x) := by
  cases a <;> simp only [lexAct]
  case emitText => exact lexEmitText_prov h _ _ _ hx
  case emitTextAndEof => exact andThen_prov _ _ (lexEmitText_prov h _ _ _ hx) (fun m hm => lexEmitEof_prov h m hm)
  case emitCurrentToken => exact lexEmitNonTag_prov h _ _ _ _ _ hx
  case emitCurrentTokenAndEof =>
    exact andThen_prov _ _ (lexEmitNonTag_prov h _ _ _ _ _ hx) (fun m hm => lexEmitEof_prov h m hm)
  case emitRawWithoutToken => exact lexEmitNonTag_prov h _ _ _ _ _ hx
  case emitRawWithoutTokenAndEof =>
    exact andThen_prov _ _ (lexEmitNonTag_prov h _ _ _ _ _ hx) (fun m hm => lexEmitEof_prov h m hm)
  case emitTag => exact lexEmitTag_prov h _ _ _ hx
  all_goals
    (repeat' split) <;>
      exact ⟨hx, fun e h => by
        first
        | (cases h; done)
        | (simp only [Option.some.injEq, Signal.err.injEq] at h; subst h; simp [PanicLike, U2])⟩

theorem scanEmitHint_prov (h : OpsProv env.ops inp J) (c : Common) (s : ScanRegs) (x : Ctx κ) (ts : Nat) (ie : Bool)
    (hx : XInv J x) : ProvPost J (scanEmitHint env inp c s x ts ie) := by
  unfold scanEmitHint
  split
  · exact ⟨hx, fun e h => by simp only [Option.some.injEq, Signal.err.injEq] at h; subst h; trivial⟩
  · rename_i name _
    have hres : J (if ie = true then env.ops.endTagHint name x.sink
          else env.ops.startTagHint name x.sim.currentNs x.sink).1 ∧
        ∀ e, (if ie = true then env.ops.endTagHint name x.sink
          else env.ops.startTagHint name x.sim.currentNs x.sink).2 = .error e → PanicLike e := by
      split
      · exact h.endTagHint _ _ hx.1
      · exact h.startTagHint _ _ _ hx.1
    dsimp only
    split
    · rename_i e herr
      exact ⟨⟨hres.1, hx.2⟩, fun e' h' => by
        simp only [Option.some.injEq, Signal.err.injEq] at h'; subst h'; exact hres.2 _ herr⟩
    · exact ⟨⟨hres.1, hx.2⟩, fun e h => by cases h⟩
    · exact ⟨⟨hres.1, hx.2⟩, fun e h => by cases h⟩

theorem scanFinishTagName_prov (h : OpsProv env.ops inp J) (c : Common) (s : ScanRegs) (x : Ctx κ) (hx : XInv J x) :
    ProvPost J (scanFinishTagName env inp c s x) := by
  unfold scanFinishTagName
  split
  · exact ⟨hx, fun e h => by simp only [Option.some.injEq, Signal.err.injEq] at h; subst h; simp [PanicLike, U2]⟩
  · dsimp only
    have hfb : ∀ (r : Except Err (Sim × Feedback)),
        r = (if s.isInEndTag = true then x.sim.feedbackForEndTag env.cfg s.tagNameHash
             else x.sim.feedbackForStartTag env.cfg s.tagNameHash) →
        (∀ e, r = .error e → PanicLike e) ∧ (∀ v, r = .ok v → v.1.strict = false) := by
      intro r hr
      subst hr
      split
      · exact Sim.feedbackForEndTag_nonstrict hx.2 _
      · exact Sim.feedbackForStartTag_nonstrict hx.2 _
    obtain ⟨g1, g2⟩ := hfb _ rfl
    split
    · rename_i e herr
      exact ⟨hx, fun e' h' => by
        simp only [Option.some.injEq, Signal.err.injEq] at h'; subst h'; exact g1 _ herr⟩
    · rename_i sf hsf
      have hs1 := g2 _ hsf
      split
      · exact ⟨⟨hx.1, hs1⟩, fun e h => by cases h⟩
      · exact scanEmitHint_prov h _ _ _ _ _ ⟨hx.1, hs1⟩

theorem scanAct_prov (h : OpsProv env.ops inp J) (a : ActName) (c : Common) (s : ScanRegs) (x : Ctx κ) (hx : XInv J x) :
    ProvPost J (scanAct env a inp c s x) := by
  cases a <;> simp only [scanAct]
  case finishTagName => exact scanFinishTagName_prov h _ _ _ hx
  all_goals (repeat' split) <;> exact ⟨hx, fun e h => by cases h⟩

theorem act_prov (h : OpsProv env.ops inp J) (a : ActName) (m : M κ) (hx : XInv J m.x) :
    ProvPost J (act env a inp m) := by
  unfold act
  split
  · exact lexAct_prov h _ _ _ _ hx
  · exact scanAct_prov h _ _ _ _ hx

theorem runCalls_prov (h : OpsProv env.ops inp J) (cs : List Call) (m : M κ) (hx : XInv J m.x) :
    ProvPost J (runCalls env inp cs m) := by
  induction cs generalizing m with
  | nil => exact ⟨hx, fun e h => by cases h⟩
  | cons cl cs ih =>
    simp only [runCalls]
    have h1 := act_prov h cl.act m hx
    split
    · rename_i s hs
      split
      · exact ⟨h1.1, fun e h' => by simp only [Option.some.injEq] at h'; subst h'; exact h1.2 e hs⟩
      · exact ih _ h1.1
    · exact ih _ h1.1

theorem applyTrans_prov (t : Trans) (m : M κ) (hx : XInv J m.x) : ProvPost J (applyTrans env t m) := by
  cases t <;> simp only [applyTrans]
  · exact ⟨hx, fun e h => by cases h⟩
  · exact ⟨hx, fun e h => by cases h⟩
  · split
    · exact ⟨hx, fun e h => by simp only [Option.some.injEq, Signal.err.injEq] at h; subst h; trivial⟩
    · exact ⟨hx, fun e h => by cases h⟩

/-- the same for results that also carry a `SeqEnd` -/
def ProvPost3 (J : κ → Prop) (r : M κ × Option Signal × SeqEnd) : Prop :=
  XInv J r.1.x ∧ ∀ e, r.2.1 = some (.err e) → PanicLike e

theorem runSeq_prov (h : OpsProv env.ops inp J) (s : ActSeq) (m : M κ) (hx : XInv J m.x) :
    ProvPost3 J (runSeq env inp s m) := by
  unfold runSeq
  have h1 := runCalls_prov h s.calls m hx
  dsimp only
  split
  · rename_i sig hsig
    exact ⟨h1.1, fun e h' => by
      have : sig = .err e := by simpa using h'
      subst this; exact h1.2 e hsig⟩
  · split
    · exact ⟨h1.1, fun e h' => by simp at h'⟩
    · exact applyTrans_prov _ _ h1.1

theorem runBody_prov (h : OpsProv env.ops inp J) (b : Body) (m : M κ) (hx : XInv J m.x) :
    ProvPost3 J (runBody env inp b m) := by
  cases b with
  | seq s => exact runSeq_prov h s m hx
  | ite c t e =>
    simp only [runBody]
    split
    · exact ⟨hx, fun e h' => by
        have : e = .panic "debug_assert: End tag should exist at this point" := by simpa using h'.symm
        subst this; trivial⟩
    · exact runSeq_prov h _ m hx
    · exact runSeq_prov h _ m hx

theorem adjustForNextInput_x (m : M κ) : (adjustForNextInput m).x = m.x := by
  unfold adjustForNextInput
  (repeat' split) <;> rfl

theorem break_aux_prov (m' : M κ) (hx : XInv J m'.x) (k : Nat) :
    ProvPost J (if m'.c.nextPos = 0 ∨ m'.c.nextPos - 1 < k then
        (m', some (Signal.err (.panic "break_on_end_of_input: pos - consumed_byte_count underflow")))
      else
        (({ m' with c := { m'.c with nextPos := m'.c.nextPos - 1 - k } } : M κ), some (Signal.endOfInput k))) := by
  split
  · exact ⟨hx, fun e h => by simp only [Option.some.injEq, Signal.err.injEq] at h; subst h; trivial⟩
  · exact ⟨hx, fun e h => by cases h⟩

theorem breakOnEndOfInput_prov (m : M κ) (hx : XInv J m.x) : ProvPost J (breakOnEndOfInput inp m) := by
  unfold breakOnEndOfInput
  refine break_aux_prov _ ?_ _
  split
  · exact hx
  · rw [adjustForNextInput_x]; exact hx

theorem enterSeq_x (m : M κ) : (enterSeq m).x = m.x := by unfold enterSeq; split <;> rfl
theorem leaveSeq_x (m : M κ) : (leaveSeq m).x = m.x := by unfold leaveSeq; split <;> rfl

def SumProv (J : κ → Prop) : (M κ × Option Signal) ⊕ M κ → Prop
  | .inl r => ProvPost J r
  | .inr m => XInv J m.x

theorem runSeqArms_prov (h : OpsProv env.ops inp J) (ch : Option UInt8) (arms : List Arm) (m : M κ)
    (hx : XInv J m.x) : SumProv J (runSeqArms env inp ch arms m) := by
  induction arms generalizing m with
  | nil => exact hx
  | cons arm rest ih =>
    simp only [runSeqArms]
    have hle : XInv J (leaveSeq (enterSeq m)).x := by rw [leaveSeq_x, enterSeq_x]; exact hx
    split
    · split
      · exact ih _ hle
      · split
        · exact breakOnEndOfInput_prov _ (by rw [enterSeq_x]; exact hx)
        · exact ih _ hle
        · simp only [SumProv]
          refine (fun (this : ProvPost3 J _) => ⟨this.1, this.2⟩) (runBody_prov h arm.body _ ?_)
          rw [leaveSeq_x]
          dsimp only
          rw [enterSeq_x]
          exact hx
    · exact ih m hx

theorem dispatch_prov (h : OpsProv env.ops inp J) (ch : Option UInt8) (arms : List Arm) (m : M κ)
    (hx : XInv J m.x) : ProvPost J (dispatch env inp ch arms m) := by
  unfold dispatch
  have h1 := runSeqArms_prov h ch arms m hx
  split
  · rename_i r hr; rw [hr] at h1; exact h1
  · rename_i m' hr
    rw [hr] at h1
    simp only [SumProv] at h1
    split
    · exact ⟨h1, fun e h' => by simp only [Option.some.injEq, Signal.err.injEq] at h'; subst h'; trivial⟩
    · rename_i arm _
      have h2 := runBody_prov h arm.body m' h1
      have hbody : ProvPost J
          (match (runBody env inp arm.body m').2.1, (runBody env inp arm.body m').2.2 with
           | some sig, _ => ((runBody env inp arm.body m').1, some sig)
           | none, .transitioned => ((runBody env inp arm.body m').1, none)
           | none, .fell => breakOnEndOfInput inp (runBody env inp arm.body m').1) := by
        split
        · rename_i sig _ hs
          exact ⟨h2.1, fun e h' => by simp only [Option.some.injEq] at h'; subst h'; exact h2.2 e hs⟩
        · exact ⟨h2.1, fun e h' => by cases h'⟩
        · exact breakOnEndOfInput_prov _ h2.1
      split
      · exact hbody
      · split
        · exact hbody
        · exact breakOnEndOfInput_prov _ h1
      · exact ⟨h2.1, h2.2⟩

theorem stateFn_prov (h : OpsProv env.ops inp J) (m : M κ) (hx : XInv J m.x) : ProvPost J (stateFn env inp m) := by
  rw [stateFn_eq]
  split
  · exact ⟨hx, fun e h' => by simp only [Option.some.injEq, Signal.err.injEq] at h'; subst h'; trivial⟩
  · rename_i sd _
    have hpre : ProvPost J (enterPhase env inp sd m) := by
      unfold enterPhase
      split
      · have h1 := runCalls_prov h sd.enter { m with c := { m.c with nextPos := m.c.nextPos + 1 } } hx
        dsimp only
        split
        · rename_i sig hsig
          exact ⟨h1.1, fun e h' => by simp only [Option.some.injEq] at h'; subst h'; exact h1.2 e hsig⟩
        · exact ⟨h1.1, fun e h' => by cases h'⟩
      · exact ⟨hx, fun e h' => by cases h'⟩
    split
    · rename_i sig hsig
      exact ⟨hpre.1, fun e h' => by simp only [Option.some.injEq] at h'; subst h'; exact hpre.2 e hsig⟩
    · unfold consumePhase
      split
      · dsimp only
        split <;> exact dispatch_prov h _ _ _ hpre.1
      · exact dispatch_prov h _ _ _ hpre.1

/-- **Provenance for the parsing loop**: over a sink satisfying `OpsProv` and a non-strict simulator,
the loop keeps `XInv` and every error it ends with is panic-like. -/
theorem runLoop_prov (h : OpsProv env.ops inp J) (n : Nat) (m : M κ) (hx : XInv J m.x) :
    XInv J (runLoop env inp n m).1.x ∧ ∀ e, (runLoop env inp n m).2 = .err e → PanicLike e := by
  induction n generalizing m with
  | zero => exact ⟨hx, fun e h' => by simp only [runLoop, Signal.err.injEq] at h'; subst h'; trivial⟩
  | succ n ih =>
    simp only [runLoop]
    have h1 := stateFn_prov h m hx
    split
    · rename_i sig hsig
      exact ⟨h1.1, fun e h' => by subst h'; exact h1.2 e hsig⟩
    · exact ih _ h1.1

end
end LolHtml.Model
