import LolHtml.Lemmas.InvWf
/-!
# C15 — token-part ranges: a checked abstract interpretation of the table

The ranges stored in the lexer's token outlines (`tokenPartStart`, tag name, attribute name/value,
comment text incl. `shift_comment_text_end_by`) and the tag scanner's `tag_name_start` are only valid
slices when they were set *after* the last move of `lexeme_start` / `tag_start` — a flow-sensitive
fact. It is established by a small abstract interpretation whose result (a *certificate*: per state, a
list of abstract register descriptions) is computed by a Lean function and CHECKED by `decide`:
`checkCert t (computeCert t) = true`. The checker also rejects every use of a token that may not exist
(`finish_tag_name` / `emit_tag` without a tag, `is_appropriate_end_tag` without an end tag, the
scanner's `finish_tag_name` without a marked tag start).
-/
namespace LolHtml.Model

/-! ### abstract lexer registers -/

/-- `current_tag_token`: definitely `None` / a valid start tag / a valid end tag / unknown -/
inductive ATag | none | start | end_ | top
  deriving DecidableEq, Repr, Inhabited

/-- `current_attr`: definitely `None` / `None` or valid / unknown -/
inductive AAttr | none | ok | top
  deriving DecidableEq, Repr, Inhabited

/-- `current_non_tag_content_token`: definitely `None` / if a comment, its text is valid (possibly the
default range) / if a comment, its text was marked after the last move of `lexeme_start` and ends at
least `k` bytes before the cursor / unknown -/
inductive ANT | none | ok | marked (k : Nat) | top
  deriving DecidableEq, Repr, Inhabited

structure AbsL where
  tag : ATag
  attr : AAttr
  nt : ANT
  /-- `lexeme_start ≤ token_part_start ≤ cursor` -/
  tps : Bool
  deriving DecidableEq, Repr, Inhabited

def AbsL.top : AbsL := ⟨.top, .top, .top, false⟩

def ATag.le : ATag → ATag → Bool
  | _, .top => true
  | a, b => a == b

def AAttr.le : AAttr → AAttr → Bool
  | _, .top => true
  | .none, .ok => true
  | a, b => a == b

def ANT.le : ANT → ANT → Bool
  | _, .top => true
  | .none, .ok => true
  | .none, .marked _ => true
  | .marked _, .ok => true
  | .marked k, .marked j => j ≤ k
  | a, b => a == b

def AbsL.le (a b : AbsL) : Bool := a.tag.le b.tag && a.attr.le b.attr && a.nt.le b.nt && (!b.tps || a.tps)

/-- `lexeme_start` moved: everything that is not definitely absent becomes unknown -/
def AbsL.kill (a : AbsL) : AbsL :=
  ⟨match a.tag with | .none => .none | _ => .top,
   match a.attr with | .none => .none | _ => .top,
   match a.nt with | .none => .none | _ => .top,
   false⟩

/-- the largest `shift_comment_text_end_by` slack that is tracked -/
def slackCap : Nat := 3

/-- the cursor moved one byte forward -/
def AbsL.bump (a : AbsL) : AbsL :=
  { a with nt := match a.nt with | .marked k => .marked (min (k + 1) slackCap) | x => x }

/-- abstract effect of a lexer action; `f` = "lexeme_start ≤ pos" before it; `none` = rejected -/
def absTokL (act : ActName) (f : Bool) (a : AbsL) : Option AbsL :=
  match act with
  | .emitText | .emitTextAndEof | .emitRawWithoutToken | .emitRawWithoutTokenAndEof => some a.kill
  | .emitCurrentToken | .emitCurrentTokenAndEof =>
      match a.nt with
      | .top => none
      | _ => some { a.kill with nt := .none }
  | .emitTag =>
      match a.tag with
      | .start | .end_ => some { a.kill with tag := .none }
      | _ => none
  | .createStartTag => some { a with tag := .start }
  | .createEndTag => some { a with tag := .end_ }
  | .createDoctype => some { a with nt := .ok }
  | .createComment => some { a with nt := .ok }
  | .startTokenPart => some { a with tps := f }
  | .markCommentTextEnd =>
      some { a with nt := match a.nt with
                          | .none => .none
                          | .top => .top
                          | _ => if a.tps then .marked 0 else .top }
  | .shiftCommentTextEndBy n =>
      some { a with nt := match a.nt with
                          | .none => .none
                          | .marked k => if n ≤ k then .marked (k - n) else .top
                          | _ => .top }
  | .finishTagName =>
      match a.tag with
      | .start | .end_ => some (if a.tps then a else { a with tag := .top })
      | _ => none
  | .updateTagNameHash =>
      match a.tag with
      | .start | .end_ => some a
      | _ => none
  | .startAttr =>
      match a.tag with
      | .start => some { a with attr := .ok, tps := f }
      | .top => some { a with attr := (match a.attr with | .top => .top | _ => .ok), tps := a.tps && f }
      | _ => some a
  | .finishAttrName | .finishAttrValue =>
      some (match a.attr with
            | .ok => if a.tps then a else { a with attr := .top }
            | _ => a)
  | .finishAttr =>
      some { a with attr := .none,
                    tag := match a.tag, a.attr with
                           | .start, .top => .top
                           | t, _ => t }
  | _ => some a

/-! ### abstract tag-scanner registers -/

/-- `tag_start`: definitely `None` / `Some`, with `live` = "`tag_start ≤ tag_name_start ≤ cursor`" / unknown -/
inductive AbsS | none | some (live : Bool) | top
  deriving DecidableEq, Repr, Inhabited

def AbsS.le : AbsS → AbsS → Bool
  | _, .top => true
  | .some true, .some false => true
  | a, b => a == b

def absTokS (act : ActName) (a : AbsS) : Option AbsS :=
  match act with
  | .createStartTag | .createEndTag => some (match a with | .some _ => .some true | x => x)
  | .markTagStart => some (.some false)
  | .unmarkTagStart => some .none
  | .finishTagName => match a with | .some true => some .none | _ => none
  | _ => some a

/-! ### both machines at once -/

structure Abs where
  l : AbsL
  s : AbsS
  deriving DecidableEq, Repr, Inhabited

def Abs.top : Abs := ⟨.top, .top⟩
def Abs.le (a b : Abs) : Bool := a.l.le b.l && a.s.le b.s
def Abs.bump (a : Abs) : Abs := { a with l := a.l.bump }

/-- flag and abstract registers through one action -/
def absStep (hb : Bool) (act : ActName) (fa : Bool × Abs) : Option (Bool × Abs) :=
  match flagStep hb act fa.1, absTokL act fa.1 fa.2.l, absTokS act fa.2.s with
  | some f', some l', some s' => some (f', ⟨l', s'⟩)
  | _, _, _ => none

def absCalls (hb : Bool) : List Call → Bool × Abs → Option (Bool × Abs)
  | [], fa => some fa
  | c :: cs, fa =>
    match absStep hb c.act fa with
    | none => none
    | some fa' => absCalls hb cs fa'

/-- a certificate: for every state, the abstract register descriptions that may hold on entry -/
abbrev Cert := List (List Abs)

def Cert.at (c : Cert) (s : StateId) : List Abs := (c[s]?).getD []

def covered (l : List Abs) (x : Abs) : Bool := l.any (fun y => x.le y)

/-- a successor of an abstract value: target state, whether it is reached by a transition (then the
target's enter actions run before its certificate entry applies) or by staying in the state (a loop
in place, or a break followed by re-entry: the enter actions have already run), abstract value -/
structure Succ where
  st : StateId
  viaTrans : Bool
  a : Abs
  deriving Repr

/-- where an action list leads, or `none` = rejected. `isEof`: the arm only runs on the last input,
so falling through to the break ends the document -/
def seqSucc (t : Table) (self : StateId) (hb isEof : Bool) (s : ActSeq) (a : Abs) : Option (List Succ) :=
  match absCalls hb s.calls (true, a) with
  | none => none
  | some (_, a') =>
    match s.trans with
    | some (.goto x) => some [⟨x, true, a'.bump⟩]
    | some .gotoDyn =>
        some [⟨t.dataState, true, a'.bump⟩, ⟨t.plaintextState, true, a'.bump⟩, ⟨t.rcdataState, true, a'.bump⟩,
              ⟨t.rawtextState, true, a'.bump⟩, ⟨t.scriptDataState, true, a'.bump⟩, ⟨t.cdataSectionState, true, a'.bump⟩]
    | some (.reconsume x) => some [⟨x, true, a'⟩]
    | none => if hb then some [⟨self, false, a'.bump⟩] else if isEof then some [] else some [⟨self, false, a'⟩]

/-- `is_appropriate_end_tag` needs an end tag (lexer) -/
def condOK (c : Cond) (a : Abs) : Bool :=
  match c with
  | .isAppropriateEndTag => a.l.tag == .end_
  | .cdataAllowed => true

def bodySucc (t : Table) (self : StateId) (hb isEof : Bool) (b : Body) (a : Abs) : Option (List Succ) :=
  match b with
  | .seq s => seqSucc t self hb isEof s a
  | .ite c x y =>
    if condOK c a then
      match seqSucc t self hb isEof x a, seqSucc t self hb isEof y a with
      | some l1, some l2 => some (l1 ++ l2)
      | _, _ => none
    else none

def armsSucc (t : Table) (self : StateId) (a : Abs) : List Arm → Option (List Succ)
  | [] => some []
  | arm :: rest =>
    match bodySucc t self arm.pat.hasByte (arm.pat == .eof) arm.body a, armsSucc t self a rest with
    | some l1, some l2 => some (l1 ++ l2)
    | _, _ => none

/-- a certificate entry describes the registers after the state's enter actions have run -/
def enterAbs (sd : StateDef) (a : Abs) : Option Abs := (absCalls false sd.enter (true, a)).map (·.2)

/-- is the successor accounted for by the certificate? -/
def succCovered (t : Table) (c : Cert) (x : Succ) : Bool :=
  if x.viaTrans then
    match t.states[x.st]? with
    | none => false
    | some sd =>
      match enterAbs sd x.a with
      | none => false
      | some a0 => covered (c.at x.st) a0
  else covered (c.at x.st) x.a

/-- is the unknown register file (a machine freshly loaded from a bookmark) accounted for at a text state? -/
def textCovered (t : Table) (c : Cert) (s : StateId) : Bool := succCovered t c ⟨s, true, .top⟩

/-- the certificate is closed under the abstract semantics, and nothing is rejected -/
def checkCert (t : Table) (c : Cert) : Bool :=
  c.length == t.states.length &&
  textCovered t c t.dataState && textCovered t c t.plaintextState && textCovered t c t.rcdataState &&
  textCovered t c t.rawtextState && textCovered t c t.scriptDataState && textCovered t c t.cdataSectionState &&
  t.allStates fun i sd =>
    (c.at i).all fun a =>
      match armsSucc t i a sd.arms with
      | none => false
      | some succs => succs.all (succCovered t c)

/-- diagnostics: `(state, certificate entry)` pairs that are rejected or lead outside the certificate -/
def checkCertWitness (t : Table) (c : Cert) : List (String × Nat) :=
  (List.range t.states.length).flatMap fun i =>
    match t.states[i]? with
    | none => []
    | some sd =>
      (List.range (c.at i).length).filterMap fun j =>
        match (c.at i)[j]? with
        | none => none
        | some a =>
          match armsSucc t i a sd.arms with
          | none => some (sd.name, j)
          | some succs => if succs.all (succCovered t c) then none else some (sd.name, j)

/-! ### computing a certificate -/

def Cert.add (t : Table) (c : Cert) (x : Succ) : Cert :=
  let v : Option Abs :=
    if x.viaTrans then (t.states[x.st]?).bind (fun sd => enterAbs sd x.a) else some x.a
  match v with
  | none => c
  | some v => if covered (c.at x.st) v then c else c.modify x.st (fun l => l ++ [v])

def certRound (t : Table) (c : Cert) : Cert :=
  (List.range t.states.length).foldl (fun c i =>
    match t.states[i]? with
    | none => c
    | some sd =>
      (c.at i).foldl (fun c a =>
        match armsSucc t i a sd.arms with
        | none => c
        | some succs => succs.foldl (Cert.add t) c) c) c

def certInit (t : Table) : Cert :=
  [t.dataState, t.plaintextState, t.rcdataState, t.rawtextState, t.scriptDataState, t.cdataSectionState].foldl
    (fun c s => Cert.add t c ⟨s, true, .top⟩) (t.states.map fun _ => [])

/-- fixpoint iteration with fuel (the checker decides whether it was enough) -/
def computeCert (t : Table) : Cert :=
  (List.range 3).foldl (fun c _ => certRound t c) (certInit t)

end LolHtml.Model
